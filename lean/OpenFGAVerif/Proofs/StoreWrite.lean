/-
Lemmas about `Model.StoreWrite` shared by Props/C12 and Props/C15: the loops of memory.Write in closed form,
the refinement memWrite ⊑ specWrite, the SQL transaction model.
-/
import OpenFGAVerif.Model.StoreWrite

set_option linter.unusedSimpArgs false

namespace OpenFGAVerif.Proofs.StoreWrite
open OpenFGAVerif.Model.StoreTypes OpenFGAVerif.Model.StoreWrite

/-! ### `match` on well-formed keys is key equality -/

theorem matchRec_wf {t : TupleRec} {k : TupleKey} (h : WfKey k) : matchRec t k = true ↔ t.key = k := by
  obtain ⟨h1, h2, h3, h4⟩ := h
  cases k with
  | mk kt ki kr ku =>
  cases t with
  | mk tt ti tr tu tc tx =>
  simp only [matchRec, TupleRec.key] at *
  simp [h1, h2, h3, h4]
  constructor
  · rintro ⟨⟨⟨a, b⟩, c⟩, d⟩; simp [a, b, c, d]
  · rintro ⟨a, b, c, d⟩; simp [a, b, c, d]


theorem matchRec_wf_beq {t : TupleRec} {k : TupleKey} (h : WfKey k) : matchRec t k = (t.key == k) := by
  rw [Bool.eq_iff_iff, matchRec_wf h, beq_iff_eq]

theorem find_wf {recs : List TupleRec} {k : TupleKey} (h : WfKey k) :
    find recs k = recs.find? (fun t => t.key == k) := by
  unfold find
  congr 1
  funext t
  exact matchRec_wf_beq h

/-! ### `sanitizeTuplesWriteDelete` in closed form -/

def errOf {α} : Except WriteErr α → Option WriteErr
  | .error e => some e
  | .ok _ => none

theorem sanitizeDeletes_err (recs : List TupleRec) (o : WriteOpts) :
    ∀ (ks : List TupleKey) (i : Nat) (acc : List Nat),
      errOf (sanitizeDeletes recs o i ks acc) =
        if !o.ignoreMissing && ks.any (fun k => (find recs k).isNone) then some .invalidDelete else none := by
  intro ks
  induction ks with
  | nil => intro i acc; simp [sanitizeDeletes, errOf]
  | cons k ks ih =>
    intro i acc
    simp only [sanitizeDeletes]
    by_cases hk : (find recs k).isNone = true
    · by_cases ho : o.ignoreMissing = true
      · simp [hk, ho, ih]
      · simp [hk, ho, errOf]
    · simp [hk, ih]

/-- every index collected in `duplicateDeletes` points at a delete key that matches no stored record -/
theorem sanitizeDeletes_mem (recs : List TupleRec) (o : WriteOpts) :
    ∀ (ks : List TupleKey) (i : Nat) (acc dd : List Nat), sanitizeDeletes recs o i ks acc = .ok dd →
      ∀ j ∈ dd, j ∈ acc ∨ (i ≤ j ∧ ∃ k, ks[j - i]? = some k ∧ (find recs k).isNone = true) := by
  intro ks
  induction ks with
  | nil =>
    intro i acc dd h j hj
    simp [sanitizeDeletes] at h
    subst h; exact Or.inl hj
  | cons k ks ih =>
    intro i acc dd h j hj
    simp only [sanitizeDeletes] at h
    by_cases hk : (find recs k).isNone = true
    · by_cases ho : o.ignoreMissing = true
      · simp only [hk, ho, if_true] at h
        rcases ih (i + 1) (acc ++ [i]) dd h j hj with h1 | ⟨h1, k', h2, h3⟩
        · rcases List.mem_append.mp h1 with h1 | h1
          · exact Or.inl h1
          · simp at h1; subst h1
            exact Or.inr ⟨Nat.le_refl _, k, by simp, hk⟩
        · refine Or.inr ⟨by omega, k', ?_, h3⟩
          have : j - i = (j - (i + 1)) + 1 := by omega
          rw [this]; simpa using h2
      · simp [hk, ho] at h
    · simp only [hk] at h
      rcases ih (i + 1) acc dd h j hj with h1 | ⟨h1, k', h2, h3⟩
      · exact Or.inl h1
      · refine Or.inr ⟨by omega, k', ?_, h3⟩
        have : j - i = (j - (i + 1)) + 1 := by omega
        rw [this]; simpa using h2

theorem sanitizeWrites_err (ceq : TupleRec → TupleRec → Bool) (recs : List TupleRec) (o : WriteOpts) :
    ∀ (ws : List TupleRec) (i : Nat) (acc : List Nat),
      errOf (sanitizeWrites ceq recs o i ws acc) =
        if !o.ignoreDup && ws.any (fun w => (find recs w.key).isSome) then some .invalidWrite
        else if ws.any (fun w => (find recs w.key).any (fun r => !ceq r w)) then some .condConflict
        else none := by
  intro ws
  induction ws with
  | nil => intro i acc; simp [sanitizeWrites, errOf]
  | cons w ws ih =>
    intro i acc
    simp only [sanitizeWrites]
    cases hf : find recs w.key with
    | none => simp [ih, hf]
    | some r =>
      by_cases ho : o.ignoreDup = true
      · by_cases hc : ceq r w = true
        · simp [ho, hc, ih, hf]
        · simp [ho, hc, errOf, hf]
      · simp [ho, errOf, hf]


/-! ### the `Delete:` loop -/

/-- the `slices.Contains(duplicateDeletes, i)` branch can never be taken for a stored record: the inner loop is
    just "does any delete key match" -/
theorem deleteInner_eq_any (tr : TupleRec) (dd : List Nat) :
    ∀ (ks : List TupleKey) (i : Nat),
      (∀ j k, ks[j]? = some k → matchRec tr k = true → (i + j) ∉ dd) →
      deleteInner tr dd i ks = ks.any (fun k => matchRec tr k) := by
  intro ks
  induction ks with
  | nil => intro i _; simp [deleteInner]
  | cons k ks ih =>
    intro i H
    simp only [deleteInner, List.any_cons]
    by_cases hm : matchRec tr k = true
    · have : i ∉ dd := by simpa using H 0 k (by simp) hm
      simp [hm, this]
    · have hm' : matchRec tr k = false := by simpa using hm
      rw [ih (i + 1) (fun j k' hj hk => by
        have := H (j + 1) k' (by simpa using hj) hk
        simpa [Nat.add_assoc, Nat.add_comm 1 j] using this)]
      simp [hm']

theorem deleteInner_sanitized {recs : List TupleRec} {o : WriteOpts} {dels : List TupleKey} {dd : List Nat}
    (h : sanitizeDeletes recs o 0 dels [] = .ok dd) {tr : TupleRec} (htr : tr ∈ recs) :
    deleteInner tr dd 0 dels = dels.any (fun k => matchRec tr k) := by
  apply deleteInner_eq_any
  intro j k hj hm hmem
  rcases sanitizeDeletes_mem recs o dels 0 [] dd h (0 + j) hmem with h1 | ⟨_, k', h2, h3⟩
  · simp at h1
  · simp at h2
    rw [hj] at h2
    injection h2 with h2
    subst h2
    simp [find, List.find?_eq_none] at h3
    have := h3 tr htr
    simp [hm] at this

theorem pushAll_cons (ch : List Change) (x : TupleRec × Op) (xs : List (TupleRec × Op)) (now : Nat) :
    pushAll ch (x :: xs) now = pushAll (pushChange ch x.1 x.2 now) xs now := rfl

theorem pushAll_append (ch : List Change) (xs ys : List (TupleRec × Op)) (now : Nat) :
    pushAll ch (xs ++ ys) now = pushAll (pushAll ch xs now) ys now := by
  simp [pushAll, List.foldl_append]

theorem deleteLoop_eq (dd : List Nat) (dels : List TupleKey) (now : Nat) (p : TupleRec → Bool) :
    ∀ (l recs : List TupleRec) (ch : List Change), (∀ tr ∈ l, deleteInner tr dd 0 dels = p tr) →
      deleteLoop dd dels now l recs ch =
        (recs ++ l.filter (fun t => !p t), pushAll ch ((l.filter p).map (fun t => (t.redact, Op.delete))) now) := by
  intro l
  induction l with
  | nil => intro recs ch _; simp [deleteLoop, pushAll]
  | cons tr rest ih =>
    intro recs ch H
    have h1 := H tr (by simp)
    have H' : ∀ t ∈ rest, deleteInner t dd 0 dels = p t := fun t ht => H t (by simp [ht])
    simp only [deleteLoop, h1]
    by_cases hp : p tr = true
    · simp [hp, ih _ _ H', pushAll_cons]
    · have hp' : p tr = false := by simpa using hp
      simp [hp', ih _ _ H']

/-! ### the `Write:` loop -/

theorem writeLoop_eq (now : Nat) :
    ∀ (ws recs : List TupleRec) (ch : List Change),
      ws.Pairwise (fun a b => matchRec a b.key = false) →
      writeLoop now ws recs ch =
        (recs ++ ws.filter (fun w => !recs.any (fun et => matchRec et w.key)),
         pushAll ch ((ws.filter (fun w => !recs.any (fun et => matchRec et w.key))).map (fun w => (normCond w, Op.write))) now) := by
  intro ws
  induction ws with
  | nil => intro recs ch _; simp [writeLoop, pushAll]
  | cons t ts ih =>
    intro recs ch hp
    rw [List.pairwise_cons] at hp
    obtain ⟨ht, hts⟩ := hp
    simp only [writeLoop]
    by_cases hm : recs.any (fun et => matchRec et t.key) = true
    · simp [hm, ih recs ch hts]
    · have hm' : recs.any (fun et => matchRec et t.key) = false := by simpa using hm
      have hf : ts.filter (fun w => !(recs ++ [t]).any (fun et => matchRec et w.key))
              = ts.filter (fun w => !recs.any (fun et => matchRec et w.key)) := by
        apply List.filter_congr
        intro w hw
        simp [List.any_append, ht w hw]
      rw [if_neg (by simpa using hm), ih (recs ++ [t]) _ hts, hf]
      simp [hm', pushAll_cons]


/-! ### memory.Write refines the declarative specification -/

/-- what the property takes for granted about one request (API validation: well-formed keys; the command layer's
    `validateNoDuplicatesAndCorrectSize`: no key twice in deletes ++ writes) -/
structure ReqOK (dels : List TupleKey) (writes : List TupleRec) : Prop where
  wfD : ∀ k ∈ dels, WfKey k
  wfW : ∀ w ∈ writes, WfKey w.key
  nodup : (dels ++ writes.map (·.key)).Nodup

def toResult (s : StoreState) : Except WriteErr StoreState → StoreState × Option WriteErr
  | .error e => (s, some e)
  | .ok s' => (s', none)

theorem any_congr_mem {α} {l : List α} {f g : α → Bool} (h : ∀ x ∈ l, f x = g x) : l.any f = l.any g := by
  induction l with
  | nil => rfl
  | cons a l ih =>
    simp only [List.any_cons]
    rw [h a (by simp), ih (fun x hx => h x (by simp [hx]))]

theorem stored_eq_find (s : StoreState) {k : TupleKey} (h : WfKey k) : find s.tuples k = stored s k := by
  rw [find_wf h]; rfl

theorem stored_isSome_iff (s : StoreState) (k : TupleKey) : (stored s k).isSome = s.tuples.any (fun t => t.key == k) := by
  unfold stored
  rw [Bool.eq_iff_iff, List.find?_isSome, List.any_eq_true]

theorem memWrite_eq_spec (ceq : TupleRec → TupleRec → Bool) (s : StoreState) (dels : List TupleKey) (writes : List TupleRec) (o : WriteOpts) (now : Nat)
    (h : ReqOK dels writes) :
    memWrite ceq s dels writes o now = toResult s (specWrite ceq false id s dels writes o now) := by
  obtain ⟨wfD, wfW, nodup⟩ := h
  have hD := sanitizeDeletes_err s.tuples o dels 0 []
  have hW := sanitizeWrites_err ceq s.tuples o writes 0 []
  have e1 : dels.any (fun k => (find s.tuples k).isNone) = dels.any (fun k => (stored s k).isNone) :=
    any_congr_mem (fun k hk => by rw [stored_eq_find s (wfD k hk)])
  have e2 : writes.any (fun w => (find s.tuples w.key).isSome) = writes.any (fun w => (stored s w.key).isSome) :=
    any_congr_mem (fun w hw => by rw [stored_eq_find s (wfW w hw)])
  have e3 : writes.any (fun w => (find s.tuples w.key).any (fun r => !ceq r w))
          = writes.any (fun w => (stored s w.key).any (fun r => !ceq r w)) :=
    any_congr_mem (fun w hw => by rw [stored_eq_find s (wfW w hw)])
  rw [e1] at hD
  rw [e2, e3] at hW
  unfold memWrite sanitize specWrite
  cases hd : sanitizeDeletes s.tuples o 0 dels [] with
  | error e =>
    rw [hd] at hD
    simp only [errOf] at hD
    split at hD
    · rename_i hc; injection hD with hD; subst hD; simp [hc, toResult]
    · cases hD
  | ok dd =>
    rw [hd] at hD
    simp only [errOf] at hD
    have hc1 : (!o.ignoreMissing && dels.any (fun k => (stored s k).isNone)) = false := by
      split at hD
      · cases hD
      · rename_i hc; simpa using hc
    cases hw : sanitizeWrites ceq s.tuples o 0 writes [] with
    | error e =>
      rw [hw] at hW
      simp only [errOf] at hW
      split at hW
      · rename_i hc; injection hW with hW; subst hW; simp [hc1, hc, toResult]
      · split at hW
        · rename_i hc hc'
          injection hW with hW; subst hW
          have hc2 : (!o.ignoreDup && writes.any (fun w => (stored s w.key).isSome)) = false := by simpa using hc
          simp [hc1, hc2, hc', toResult]
        · cases hW
    | ok dw =>
      rw [hw] at hW
      simp only [errOf] at hW
      have hc2 : (!o.ignoreDup && writes.any (fun w => (stored s w.key).isSome)) = false := by
        split at hW
        · cases hW
        · rename_i hc; simpa using hc
      have hc3 : writes.any (fun w => (stored s w.key).any (fun r => !ceq r w)) = false := by
        split at hW
        · cases hW
        · split at hW
          · cases hW
          · rename_i hc; simpa using hc
      -- the delete loop
      have hdel : ∀ tr ∈ s.tuples, deleteInner tr dd 0 dels = dels.contains tr.key := by
        intro tr htr
        rw [deleteInner_sanitized hd htr, List.contains_eq_any_beq]
        exact any_congr_mem (fun k hk => matchRec_wf_beq (wfD k hk))
      -- the write loop
      have hnd := List.nodup_append.mp nodup
      have hpw : writes.Pairwise (fun a b => matchRec a b.key = false) := by
        have := List.pairwise_map.mp hnd.2.1
        refine List.Pairwise.imp_of_mem ?_ this
        intro a b _ hb hab
        rw [matchRec_wf_beq (wfW b hb)]
        simpa using hab
      have hkept : ∀ w ∈ writes,
          (s.tuples.filter (fun t => !dels.contains t.key)).any (fun et => matchRec et w.key) = (stored s w.key).isSome := by
        intro w hw'
        rw [stored_isSome_iff, List.any_filter]
        apply any_congr_mem
        intro t _
        rw [matchRec_wf_beq (wfW w hw')]
        by_cases hk : t.key = w.key
        · have : ¬ w.key ∈ dels := fun hmem => hnd.2.2 _ hmem _ (List.mem_map.mpr ⟨w, hw', rfl⟩) rfl
          simp [hk, this]
        · simp [hk]
      simp only [hc1, hc2, hc3, toResult]
      rw [deleteLoop_eq dd dels now (fun t => dels.contains t.key) s.tuples [] s.changes hdel]
      simp only [List.nil_append]
      rw [writeLoop_eq now writes _ _ hpw]
      have hfilt : writes.filter (fun w => !(s.tuples.filter (fun t => !dels.contains t.key)).any (fun et => matchRec et w.key))
                 = writes.filter (fun w => (stored s w.key).isNone) := by
        apply List.filter_congr
        intro w hw'
        rw [hkept w hw']
        cases stored s w.key <;> rfl
      rw [hfilt]
      simp [pushAll_append]


/-! ### the SQL transaction: nothing is published before COMMIT -/

/-- the source facts the atomicity argument rests on: every data statement runs on the transaction and the
    rollback is deferred (tie lemmas over `Gen.StoreWrite` in Props/C12) -/
structure CfgOK (cfg : SqlCfg) : Prop where
  del : cfg.deleteInTxn = true
  ins : cfg.insertInTxn = true
  log : cfg.changelogInTxn = true
  rb : cfg.rollbackDeferred = true

theorem cfgOK_good : CfgOK SqlCfg.good := ⟨rfl, rfl, rfl, rfl⟩

/-- With every statement on the transaction and the rollback deferred: whatever fails, wherever (statement k fails
    before or after it ran, the COMMIT fails), the committed state is untouched and no transaction stays open;
    a run without error ends with the transaction closed. -/
theorem runStmts_atomic (cfg : SqlCfg) (hc : CfgOK cfg) (now : Nat) (f : Option Fail) :
    ∀ (stmts : List Stmt) (db : Db) (i : Nat),
      (runStmts cfg now f db stmts i).1.pending = none ∧
      ((runStmts cfg now f db stmts i).2 ≠ none →
        (runStmts cfg now f db stmts i).1.committed = db.committed) := by
  obtain ⟨hdel, hins, hlog, hrb⟩ := hc
  intro stmts
  induction stmts with
  | nil => intro db i; simp [runStmts, hrb]
  | cons st rest ih =>
    intro db i
    cases st with
    | commit =>
      simp only [runStmts]
      split <;> simp [hrb]
    | deleteTuples keys =>
      simp only [runStmts, Stmt.inTxn, hdel, hrb, if_true]
      split
      · simp
      · cases execStmt now (db.pending.getD db.committed) (Stmt.deleteTuples keys) <;> simp [Except.map]
      · cases h : execStmt now (db.pending.getD db.committed) (Stmt.deleteTuples keys) with
        | error e => simp [Except.map]
        | ok tx' =>
          simp only [Except.map]
          have := ih { db with pending := some tx' } (i + 1)
          simpa using this
    | insertTuples rows =>
      simp only [runStmts, Stmt.inTxn, hins, hrb, if_true]
      split
      · simp
      · cases execStmt now (db.pending.getD db.committed) (Stmt.insertTuples rows) <;> simp [Except.map]
      · cases h : execStmt now (db.pending.getD db.committed) (Stmt.insertTuples rows) with
        | error e => simp [Except.map]
        | ok tx' =>
          simp only [Except.map]
          have := ih { db with pending := some tx' } (i + 1)
          simpa using this
    | insertChangelog rows =>
      simp only [runStmts, Stmt.inTxn, hlog, hrb, if_true]
      split
      · simp
      · cases execStmt now (db.pending.getD db.committed) (Stmt.insertChangelog rows) <;> simp [Except.map]
      · cases h : execStmt now (db.pending.getD db.committed) (Stmt.insertChangelog rows) with
        | error e => simp [Except.map]
        | ok tx' =>
          simp only [Except.map]
          have := ih { db with pending := some tx' } (i + 1)
          simpa using this

/-- `sqlite.write` is all-or-nothing for every failure point: if the call returns an error — its own validation
    error, a statement that fails (before or after it ran), a connection that dies, a failed COMMIT — the committed
    state is exactly what it was; and no transaction is left open. -/
theorem sqlWrite_atomic (ceq : TupleRec → TupleRec → Bool) (cfg : SqlCfg) (hc : CfgOK cfg) (db : Db) (dels : List TupleKey) (writes : List TupleRec)
    (o : WriteOpts) (now : Nat) (f : Option Fail) (hp : db.pending = none) :
    (sqlWrite ceq cfg db dels writes o now f).1.pending = none ∧
    ((sqlWrite ceq cfg db dels writes o now f).2 ≠ none →
      (sqlWrite ceq cfg db dels writes o now f).1.committed = db.committed) := by
  have hrb := hc.rb
  generalize hr : sqlWrite ceq cfg db dels writes o now f = r
  unfold sqlWrite at hr
  by_cases h0 : firesAt f 0 = true
  · rw [if_pos h0] at hr; subst hr; simp [hp]
  rw [if_neg h0] at hr
  simp only at hr
  by_cases hk : (dels ++ writes.map (·.key)).eraseDups.isEmpty = true
  · rw [if_pos hk] at hr; subst hr; simp [txRollback, hrb]
  rw [if_neg hk] at hr
  by_cases h1 : firesAt f 1 = true
  · rw [if_pos h1] at hr; subst hr; simp [txRollback, hrb]
  rw [if_neg h1] at hr
  cases hd : sqlPlanDeletes (db.committed.tuples.filter (fun t => (dels ++ writes.map (·.key)).eraseDups.contains t.key)) o dels [] with
  | error e => rw [hd] at hr; subst hr; simp [txRollback, hrb]
  | ok delKeys =>
    rw [hd] at hr
    cases hw : sqlPlanWrites ceq (db.committed.tuples.filter (fun t => (dels ++ writes.map (·.key)).eraseDups.contains t.key)) o writes [] with
    | error e => rw [hw] at hr; subst hr; simp [txRollback, hrb]
    | ok rows =>
      rw [hw] at hr
      simp only at hr
      subst hr
      have := runStmts_atomic cfg hc now f (sqlStmts delKeys rows) { committed := db.committed, pending := some db.committed } 2
      simpa using this


/-! ### `sqlite.write` without failure publishes exactly the specified state -/

theorem sqlPlanDeletes_eq (E : List TupleRec) (o : WriteOpts) :
    ∀ (ks acc : List TupleKey), sqlPlanDeletes E o ks acc =
      if !o.ignoreMissing && ks.any (fun k => !E.any (fun t => t.key == k)) then .error .invalidDelete
      else .ok (acc ++ ks.filter (fun k => E.any (fun t => t.key == k))) := by
  intro ks
  induction ks with
  | nil => intro acc; simp [sqlPlanDeletes]
  | cons k ks ih =>
    intro acc
    simp only [sqlPlanDeletes]
    by_cases hk : E.any (fun t => t.key == k) = true
    · simp only [hk, if_true, ih]
      by_cases hc : (!o.ignoreMissing && ks.any (fun k => !E.any (fun t => t.key == k))) = true
      · simp [hc, hk]
      · simp [hc, hk, List.filter_cons]
    · have hk' : E.any (fun t => t.key == k) = false := by simpa using hk
      by_cases ho : o.ignoreMissing = true
      · simp [hk', ho, ih, List.filter_cons]
      · simp [hk', ho]

theorem sqlPlanWrites_eq (ceq : TupleRec → TupleRec → Bool) (E : List TupleRec) (o : WriteOpts) :
    ∀ (ws acc : List TupleRec), sqlPlanWrites ceq E o ws acc =
      if !o.ignoreDup && ws.any (fun w => (E.find? (fun t => t.key == w.key)).isSome) then .error .invalidWrite
      else if ws.any (fun w => (E.find? (fun t => t.key == w.key)).any (fun e => !ceq e w)) then .error .condConflict
      else .ok (acc ++ ws.filter (fun w => (E.find? (fun t => t.key == w.key)).isNone)) := by
  intro ws
  induction ws with
  | nil => intro acc; simp [sqlPlanWrites]
  | cons w ws ih =>
    intro acc
    simp only [sqlPlanWrites]
    cases hf : E.find? (fun t => t.key == w.key) with
    | none =>
      simp only [ih]
      by_cases h1 : (!o.ignoreDup && ws.any (fun w => (E.find? (fun t => t.key == w.key)).isSome)) = true
      · simp [h1, hf]
      · by_cases h2 : ws.any (fun w => (E.find? (fun t => t.key == w.key)).any (fun e => !ceq e w)) = true
        · simp [h1, h2, hf]
        · simp [h1, h2, hf, List.filter_cons]
    | some e =>
      by_cases ho : o.ignoreDup = true
      · by_cases hc : ceq e w = true
        · simp only [ho, hc, if_true, ih]
          by_cases h1 : (!o.ignoreDup && ws.any (fun w => (E.find? (fun t => t.key == w.key)).isSome)) = true
          · simp [ho] at h1
          · by_cases h2 : ws.any (fun w => (E.find? (fun t => t.key == w.key)).any (fun e => !ceq e w)) = true
            · simp [ho, h2, hf, hc]
            · simp [ho, h2, hf, hc, List.filter_cons]
        · simp [ho, hc, hf]
      · simp [ho, hf]

theorem length_sub_filter_not {α} (p : α → Bool) (l : List α) :
    l.length - (l.filter (fun a => !p a)).length = (l.filter p).length := by
  induction l with
  | nil => rfl
  | cons a l ih =>
    have := List.length_filter_le (fun a => !p a) l
    cases hp : p a <;> simp [List.filter_cons, hp] <;> omega

theorem eraseDups_of_nodup {α} [BEq α] [LawfulBEq α] : ∀ (l : List α), l.Nodup → l.eraseDups = l := by
  intro l
  induction l with
  | nil => intro _; simp
  | cons a l ih =>
    intro h
    rw [List.nodup_cons] at h
    rw [List.eraseDups_cons]
    have : l.filter (fun b => !b == a) = l := by
      rw [List.filter_eq_self]
      intro b hb
      have : b ≠ a := fun e => h.1 (e ▸ hb)
      simp [this]
    rw [this, ih h.2]

/-- a duplicate-free key list whose keys are all stored selects exactly that many rows -/
theorem filter_keys_length {ts : List TupleRec} {K : List TupleKey} (hts : (ts.map (·.key)).Nodup) (hK : K.Nodup)
    (hsub : ∀ k ∈ K, ∃ t ∈ ts, t.key = k) :
    (ts.filter (fun t => K.contains t.key)).length = K.length := by
  have hL : ((ts.filter (fun t => K.contains t.key)).map (·.key)).Nodup :=
    List.Nodup.sublist (List.Sublist.map _ List.filter_sublist) hts
  have hperm : ((ts.filter (fun t => K.contains t.key)).map (·.key)).Perm K := by
    rw [List.perm_ext_iff_of_nodup hL hK]
    intro a
    simp only [List.mem_map, List.mem_filter, List.contains_iff_mem]
    constructor
    · rintro ⟨t, ⟨_, h2⟩, rfl⟩; exact h2
    · intro ha
      obtain ⟨t, ht, hk⟩ := hsub a ha
      exact ⟨t, ⟨ht, hk ▸ ha⟩, hk⟩
  have := hperm.length_eq
  simpa using this

theorem normCond_key (t : TupleRec) : (normCond t).key = t.key := by
  unfold normCond
  split
  · rfl
  · split <;> rfl

theorem redact_eq_keyRec (t : TupleRec) : t.redact = keyRec t.key := by
  cases t; rfl

theorem stored_some_key {s : StoreState} {k : TupleKey} {t : TupleRec} (h : stored s k = some t) :
    t ∈ s.tuples ∧ t.key = k := by
  unfold stored at h
  have h1 := List.mem_of_find?_eq_some h
  have h2 := List.find?_some h
  exact ⟨h1, by simpa using h2⟩

theorem effDel_reqOrder (s : StoreState) (dels : List TupleKey) :
    (dels.filterMap (fun k => stored s k)).map (fun t => (t.redact, Op.delete))
      = (dels.filter (fun k => (stored s k).isSome)).map (fun k => (keyRec k, Op.delete)) := by
  induction dels with
  | nil => rfl
  | cons k ks ih =>
    cases h : stored s k with
    | none => simp [List.filterMap_cons, List.filter_cons, h, ih]
    | some t =>
      have hk := (stored_some_key h).2
      have hsome : (fun k => stored s k) k = some t := h
      rw [List.filterMap_cons_some hsome, List.filter_cons_of_pos (by simp [h]), List.map_cons, List.map_cons, ih,
        redact_eq_keyRec, hk]

/-- one data statement that the engine accepts moves the transaction's working copy forward -/
theorem runStmts_ok_step (cfg : SqlCfg) (hc : CfgOK cfg) (now : Nat) (c tx : StoreState) (st : Stmt) (rest : List Stmt) (i : Nat)
    (tx' : StoreState) (hnc : st ≠ .commit) (h : execStmt now tx st = .ok tx') :
    runStmts cfg now none { committed := c, pending := some tx } (st :: rest) i
      = runStmts cfg now none { committed := c, pending := some tx' } rest (i + 1) := by
  obtain ⟨hdel, hins, hlog, hrb⟩ := hc
  cases st with
  | commit => exact absurd rfl hnc
  | deleteTuples keys => simp [runStmts, Stmt.inTxn, hdel, h, Except.map]
  | insertTuples rows => simp [runStmts, Stmt.inTxn, hins, h, Except.map]
  | insertChangelog rows => simp [runStmts, Stmt.inTxn, hlog, h, Except.map]

theorem runStmts_commit (cfg : SqlCfg) (now : Nat) (c tx : StoreState) (rest : List Stmt) (i : Nat) :
    runStmts cfg now none { committed := c, pending := some tx } (.commit :: rest) i
      = ({ committed := tx, pending := none }, none) := by
  simp [runStmts]

theorem exec_delete_ok (now : Nat) (tx : StoreState) (D : List TupleKey)
    (h : (tx.tuples.filter (fun t => D.contains t.key)).length = D.length) :
    execStmt now tx (.deleteTuples D) = .ok { tx with tuples := tx.tuples.filter (fun t => !D.contains t.key) } := by
  have := length_sub_filter_not (fun t : TupleRec => D.contains t.key) tx.tuples
  simp only [execStmt]
  rw [this, h]
  simp

theorem exec_insert_ok (now : Nat) (tx : StoreState) (rows : List TupleRec)
    (h1 : ∀ r ∈ rows, ∀ t ∈ tx.tuples, t.key ≠ r.key) (h2 : (rows.map (·.key)).Nodup) :
    execStmt now tx (.insertTuples rows) = .ok { tx with tuples := tx.tuples ++ rows } := by
  simp only [execStmt]
  have e1 : rows.any (fun r => tx.tuples.any (fun t => t.key == r.key)) = false := by
    rw [List.any_eq_false]
    intro r hr
    rw [Bool.not_eq_true, List.any_eq_false]
    intro t ht
    simpa using h1 r hr t ht
  rw [e1, eraseDups_of_nodup _ h2]
  simp

theorem runStmts_sqlStmts (cfg : SqlCfg) (hc : CfgOK cfg) (now : Nat) (s : StoreState) (D : List TupleKey) (R : List TupleRec)
    (hD : (s.tuples.filter (fun t => D.contains t.key)).length = D.length)
    (hR1 : ∀ r ∈ R, ∀ t ∈ s.tuples, D.contains t.key = false → t.key ≠ r.key)
    (hR2 : (R.map (·.key)).Nodup) :
    runStmts cfg now none { committed := s, pending := some s } (sqlStmts D R) 2 =
      ({ committed := { tuples := s.tuples.filter (fun t => !D.contains t.key) ++ R.map normCond,
                        changes := pushAll s.changes (D.map (fun k => (keyRec k, Op.delete)) ++ R.map (fun w => (normCond w, Op.write))) now },
         pending := none }, none) := by
  have hins : ∀ r ∈ R.map normCond, ∀ t ∈ s.tuples.filter (fun t => !D.contains t.key), t.key ≠ r.key := by
    intro r hr t ht
    obtain ⟨r0, hr0, rfl⟩ := List.mem_map.mp hr
    rw [normCond_key]
    have := List.mem_filter.mp ht
    exact hR1 r0 hr0 t this.1 (by simpa using this.2)
  have hnd' : ((R.map normCond).map (·.key)).Nodup := by
    have : (R.map normCond).map (·.key) = R.map (·.key) := by
      rw [List.map_map]; apply List.map_congr_left; intro a _; exact normCond_key a
    rw [this]; exact hR2
  unfold sqlStmts
  by_cases hDe : D = []
  · subst hDe
    by_cases hRe : R = []
    · subst hRe
      have hft : s.tuples.filter (fun _ => true) = s.tuples := List.filter_eq_self.mpr (fun _ _ => rfl)
      simp [runStmts_commit, pushAll, hft]
    · have hRe' : R.isEmpty = false := by simpa using hRe
      have hft : s.tuples.filter (fun _ => true) = s.tuples := List.filter_eq_self.mpr (fun _ _ => rfl)
      simp only [List.isEmpty_nil, hRe', if_true, Bool.true_and, List.nil_append, List.cons_append, Bool.false_eq_true, if_false]
      have hins0 : ∀ r ∈ R.map normCond, ∀ t ∈ s.tuples, t.key ≠ r.key := by
        intro r hr t ht
        exact hins r hr t (by simp [ht])
      rw [runStmts_ok_step cfg hc now _ _ _ _ _ _ (by simp) (exec_insert_ok now s _ hins0 hnd')]
      rw [runStmts_ok_step cfg hc now _ _ _ _ _ { tuples := s.tuples ++ R.map normCond, changes := pushAll s.changes (R.map (fun w => (normCond w, Op.write))) now } (by simp) (by simp [execStmt])]
      rw [runStmts_commit]
      simp [hft]
  · have hDe' : D.isEmpty = false := by simpa using hDe
    by_cases hRe : R = []
    · subst hRe
      simp only [hDe', List.isEmpty_nil, if_true, Bool.false_and, Bool.false_eq_true, if_false, List.nil_append, List.cons_append, List.append_nil, List.map_nil]
      rw [runStmts_ok_step cfg hc now _ _ _ _ _ _ (by simp) (exec_delete_ok now s D hD)]
      rw [runStmts_ok_step cfg hc now _ _ _ _ _ { tuples := s.tuples.filter (fun t => !D.contains t.key), changes := pushAll s.changes (D.map (fun k => (keyRec k, Op.delete))) now } (by simp) (by simp [execStmt])]
      rw [runStmts_commit]
    · have hRe' : R.isEmpty = false := by simpa using hRe
      simp only [hDe', hRe', Bool.false_and, Bool.false_eq_true, if_false, List.nil_append, List.cons_append]
      rw [runStmts_ok_step cfg hc now _ _ _ _ _ _ (by simp) (exec_delete_ok now s D hD)]
      rw [runStmts_ok_step cfg hc now _ _ _ _ _ _ (by simp) (exec_insert_ok now _ _ hins hnd')]
      rw [runStmts_ok_step cfg hc now _ _ _ _ _ { tuples := s.tuples.filter (fun t => !D.contains t.key) ++ R.map normCond, changes := pushAll s.changes (D.map (fun k => (keyRec k, Op.delete)) ++ R.map (fun w => (normCond w, Op.write))) now } (by simp) (by simp [execStmt])]
      rw [runStmts_commit]


/-- what a finished SQL write looks like from outside -/
def toDbResult (db : Db) : Except WriteErr StoreState → Db × Option WriteErr
  | .error e => ({ committed := db.committed, pending := none }, some e)
  | .ok s' => ({ committed := s', pending := none }, none)

theorem eraseDups_isEmpty {α} [BEq α] [LawfulBEq α] (l : List α) : l.eraseDups.isEmpty = l.isEmpty := by
  cases l with
  | nil => simp
  | cons a l => simp [List.eraseDups_cons]

/-- `sqlite.write` that meets no failure: either its own validation error with nothing changed, or COMMIT of exactly
    the specified state (deletes in request order).  Needs: no key twice in the request (command layer), no key
    twice in the table (UNIQUE key; invariant `specWrite_nodup`). -/
theorem sqlWrite_eq_spec (ceq : TupleRec → TupleRec → Bool) (cfg : SqlCfg) (hc : CfgOK cfg) (db : Db)
    (dels : List TupleKey) (writes : List TupleRec) (o : WriteOpts) (now : Nat)
    (hnd : (dels ++ writes.map (·.key)).Nodup) (hst : (db.committed.tuples.map (·.key)).Nodup) :
    sqlWrite ceq cfg db dels writes o now none
      = toDbResult db (specWrite ceq true normCond db.committed dels writes o now) := by
  have hrb := hc.rb
  unfold sqlWrite
  simp only [firesAt, Bool.false_eq_true, if_false]
  rw [eraseDups_isEmpty]
  by_cases hk : (dels ++ writes.map (·.key)).isEmpty = true
  · rw [if_pos hk]
    have hk' := List.isEmpty_iff.mp hk
    obtain ⟨hd0, hw0⟩ := List.append_eq_nil_iff.mp hk'
    have hw0' : writes = [] := List.map_eq_nil_iff.mp hw0
    subst hd0; subst hw0'
    have hft : db.committed.tuples.filter (fun _ => true) = db.committed.tuples := List.filter_eq_self.mpr (fun _ _ => rfl)
    simp [specWrite, toDbResult, txRollback, hrb, pushAll, hft]
  rw [if_neg hk]
  -- what the SELECT returns, seen through the request's keys
  have hmemK : ∀ k, k ∈ dels ++ writes.map (·.key) → (dels ++ writes.map (·.key)).eraseDups.contains k = true := by
    intro k hk; rw [List.contains_iff_mem, List.mem_eraseDups]; exact hk
  have hany : ∀ k, k ∈ dels ++ writes.map (·.key) →
      (db.committed.tuples.filter (fun t => (dels ++ writes.map (·.key)).eraseDups.contains t.key)).any (fun t => t.key == k)
        = (stored db.committed k).isSome := by
    intro k hk
    rw [stored_isSome_iff, List.any_filter]
    apply any_congr_mem
    intro t _
    by_cases h : t.key = k
    · simp [h]
      simpa using hk
    · simp [h]
  have hfind : ∀ k, k ∈ dels ++ writes.map (·.key) →
      (db.committed.tuples.filter (fun t => (dels ++ writes.map (·.key)).eraseDups.contains t.key)).find? (fun t => t.key == k)
        = stored db.committed k := by
    intro k hk
    rw [List.find?_filter]
    unfold stored
    congr 1
    funext t
    by_cases h : t.key = k
    · simp [h]
      simpa using hk
    · simp [h]
  have hmd : ∀ k ∈ dels, k ∈ dels ++ writes.map (·.key) := fun k hk => List.mem_append_left _ hk
  have hmw : ∀ w ∈ writes, w.key ∈ dels ++ writes.map (·.key) :=
    fun w hw => List.mem_append_right _ (List.mem_map.mpr ⟨w, hw, rfl⟩)
  rw [sqlPlanDeletes_eq, sqlPlanWrites_eq]
  have e1 : dels.any (fun k => !(db.committed.tuples.filter (fun t => (dels ++ writes.map (·.key)).eraseDups.contains t.key)).any (fun t => t.key == k))
          = dels.any (fun k => (stored db.committed k).isNone) :=
    any_congr_mem (fun k hk => by rw [hany k (hmd k hk)]; cases stored db.committed k <;> rfl)
  have e2 : writes.any (fun w => ((db.committed.tuples.filter (fun t => (dels ++ writes.map (·.key)).eraseDups.contains t.key)).find? (fun t => t.key == w.key)).isSome)
          = writes.any (fun w => (stored db.committed w.key).isSome) :=
    any_congr_mem (fun w hw => by rw [hfind _ (hmw w hw)])
  have e3 : writes.any (fun w => ((db.committed.tuples.filter (fun t => (dels ++ writes.map (·.key)).eraseDups.contains t.key)).find? (fun t => t.key == w.key)).any (fun e => !ceq e w))
          = writes.any (fun w => (stored db.committed w.key).any (fun e => !ceq e w)) :=
    any_congr_mem (fun w hw => by rw [hfind _ (hmw w hw)])
  have e4 : dels.filter (fun k => (db.committed.tuples.filter (fun t => (dels ++ writes.map (·.key)).eraseDups.contains t.key)).any (fun t => t.key == k))
          = dels.filter (fun k => (stored db.committed k).isSome) :=
    List.filter_congr (fun k hk => hany k (hmd k hk))
  have e5 : writes.filter (fun w => ((db.committed.tuples.filter (fun t => (dels ++ writes.map (·.key)).eraseDups.contains t.key)).find? (fun t => t.key == w.key)).isNone)
          = writes.filter (fun w => (stored db.committed w.key).isNone) :=
    List.filter_congr (fun w hw => by rw [hfind _ (hmw w hw)])
  rw [e1, e2, e3, e4, e5]
  unfold specWrite
  by_cases c1 : (!o.ignoreMissing && dels.any (fun k => (stored db.committed k).isNone)) = true
  · simp [c1, toDbResult, txRollback, hrb]
  rw [if_neg c1, if_neg c1]
  by_cases c2 : (!o.ignoreDup && writes.any (fun w => (stored db.committed w.key).isSome)) = true
  · simp [c2, toDbResult, txRollback, hrb]
  rw [if_neg c2, if_neg c2]
  by_cases c3 : writes.any (fun w => (stored db.committed w.key).any (fun e => !ceq e w)) = true
  · simp [c3, toDbResult, txRollback, hrb]
  rw [if_neg c3, if_neg c3]
  simp only [List.nil_append, if_true, toDbResult]
  -- the statements
  have hnd' := List.nodup_append.mp hnd
  have hDnd : (dels.filter (fun k => (stored db.committed k).isSome)).Nodup :=
    List.Nodup.sublist List.filter_sublist hnd'.1
  have hDsub : ∀ k ∈ dels.filter (fun k => (stored db.committed k).isSome), ∃ t ∈ db.committed.tuples, t.key = k := by
    intro k hk
    have := (List.mem_filter.mp hk).2
    cases h : stored db.committed k with
    | none => simp [h] at this
    | some t => exact ⟨t, stored_some_key h⟩
  have hD := filter_keys_length hst hDnd hDsub
  have hkept : ∀ t ∈ db.committed.tuples,
      (dels.filter (fun k => (stored db.committed k).isSome)).contains t.key = dels.contains t.key := by
    intro t ht
    rw [Bool.eq_iff_iff, List.contains_iff_mem, List.contains_iff_mem, List.mem_filter]
    constructor
    · exact fun h => h.1
    · intro h
      refine ⟨h, ?_⟩
      rw [stored_isSome_iff, List.any_eq_true]
      exact ⟨t, ht, by simp⟩
  have hR1 : ∀ r ∈ writes.filter (fun w => (stored db.committed w.key).isNone), ∀ t ∈ db.committed.tuples,
      (dels.filter (fun k => (stored db.committed k).isSome)).contains t.key = false → t.key ≠ r.key := by
    intro r hr t ht _ heq
    have := (List.mem_filter.mp hr).2
    have h2 : (stored db.committed r.key).isSome = true := by
      rw [stored_isSome_iff, List.any_eq_true]; exact ⟨t, ht, by simp [heq]⟩
    cases h : stored db.committed r.key <;> simp [h] at this h2
  have hR2 : ((writes.filter (fun w => (stored db.committed w.key).isNone)).map (·.key)).Nodup :=
    List.Nodup.sublist (List.Sublist.map _ List.filter_sublist) hnd'.2.1
  rw [runStmts_sqlStmts cfg hc now db.committed _ _ hD hR1 hR2]
  have hf1 : db.committed.tuples.filter (fun t => !(dels.filter (fun k => (stored db.committed k).isSome)).contains t.key)
           = db.committed.tuples.filter (fun t => !dels.contains t.key) :=
    List.filter_congr (fun t ht => by rw [hkept t ht])
  rw [hf1, effDel_reqOrder]


/-! ### invariants of a store along any write history (used by C15) -/

/-- the rows `pushAll` appends: numbered from `n` on -/
def mkChanges (n : Nat) (now : Nat) : List (TupleRec × Op) → List Change
  | [] => []
  | it :: rest => { tuple := it.1, op := it.2, ulid := n, ts := now } :: mkChanges (n + 1) now rest

theorem pushAll_eq (now : Nat) : ∀ (items : List (TupleRec × Op)) (ch : List Change),
    pushAll ch items now = ch ++ mkChanges ch.length now items := by
  intro items
  induction items with
  | nil => intro ch; simp [pushAll, mkChanges]
  | cons it rest ih =>
    intro ch
    rw [pushAll_cons, ih]
    simp [pushChange, mkChanges]

theorem mkChanges_append (now : Nat) : ∀ (a b : List (TupleRec × Op)) (n : Nat),
    mkChanges n now (a ++ b) = mkChanges n now a ++ mkChanges (n + a.length) now b := by
  intro a
  induction a with
  | nil => intro b n; simp [mkChanges]
  | cons x xs ih =>
    intro b n
    simp only [List.cons_append, mkChanges, ih, List.length_cons]
    rw [Nat.add_assoc, Nat.add_comm 1]

theorem mkChanges_length (now : Nat) : ∀ (a : List (TupleRec × Op)) (n : Nat), (mkChanges n now a).length = a.length := by
  intro a
  induction a with
  | nil => intro n; rfl
  | cons x xs ih => intro n; simp [mkChanges, ih]

theorem mkChanges_ulids (now : Nat) : ∀ (a : List (TupleRec × Op)) (n : Nat),
    (mkChanges n now a).map (·.ulid) = List.range' n a.length := by
  intro a
  induction a with
  | nil => intro n; rfl
  | cons x xs ih => intro n; simp [mkChanges, ih, List.range'_succ]

theorem mkChanges_ts (now : Nat) : ∀ (a : List (TupleRec × Op)) (n : Nat), ∀ c ∈ mkChanges n now a, c.ts = now := by
  intro a
  induction a with
  | nil => intro n c hc; simp [mkChanges] at hc
  | cons x xs ih =>
    intro n c hc
    simp only [mkChanges, List.mem_cons] at hc
    rcases hc with rfl | hc
    · rfl
    · exact ih _ c hc

theorem replay_append : ∀ (a b : List Change) (ts : List TupleRec), replay ts (a ++ b) = replay (replay ts a) b := by
  intro a
  induction a with
  | nil => intro b ts; rfl
  | cons c cs ih =>
    intro b ts
    simp only [List.cons_append, replay]
    cases c.op <;> simp [ih]

theorem redact_key (t : TupleRec) : t.redact.key = t.key := rfl

theorem replay_deletes (now : Nat) : ∀ (D : List TupleRec) (n : Nat) (ts : List TupleRec),
    replay ts (mkChanges n now (D.map (fun t => (t.redact, Op.delete))))
      = ts.filter (fun t => !(D.map (·.key)).contains t.key) := by
  intro D
  induction D with
  | nil =>
    intro n ts
    have hft : ts.filter (fun _ => true) = ts := List.filter_eq_self.mpr (fun _ _ => rfl)
    simp [mkChanges, replay, hft]
  | cons d ds ih =>
    intro n ts
    simp only [List.map_cons, mkChanges, replay, ih, List.filter_filter, redact_key]
    apply List.filter_congr
    intro t _
    by_cases h : t.key = d.key <;> simp [List.contains_cons, h]

theorem replay_writes (now : Nat) : ∀ (W : List TupleRec) (n : Nat) (ts : List TupleRec),
    replay ts (mkChanges n now (W.map (fun w => (normCond w, Op.write)))) = ts ++ W.map normCond := by
  intro W
  induction W with
  | nil => intro n ts; simp [mkChanges, replay]
  | cons w ws ih =>
    intro n ts
    simp [mkChanges, replay, ih]

/-- the spec's effective deletes, in either order -/
def effDelOf (reqOrder : Bool) (s : StoreState) (dels : List TupleKey) : List TupleRec :=
  if reqOrder then dels.filterMap (fun k => stored s k) else s.tuples.filter (fun t => dels.contains t.key)

def effWOf (s : StoreState) (writes : List TupleRec) : List TupleRec :=
  writes.filter (fun w => (stored s w.key).isNone)

/-- the state a successful write leaves (second half of `specWrite`) -/
def specState (reqOrder : Bool) (norm : TupleRec → TupleRec) (s : StoreState) (dels : List TupleKey) (writes : List TupleRec)
    (now : Nat) : StoreState :=
  { tuples := s.tuples.filter (fun t => !dels.contains t.key) ++ (effWOf s writes).map norm,
    changes := pushAll s.changes ((effDelOf reqOrder s dels).map (fun t => (t.redact, Op.delete))
                                   ++ (effWOf s writes).map (fun w => (normCond w, Op.write))) now }

theorem specWrite_ok_form {ceq : TupleRec → TupleRec → Bool} {reqOrder : Bool} {norm : TupleRec → TupleRec} {s s' : StoreState}
    {dels : List TupleKey} {writes : List TupleRec} {o : WriteOpts} {now : Nat}
    (h : specWrite ceq reqOrder norm s dels writes o now = .ok s') : s' = specState reqOrder norm s dels writes now := by
  unfold specWrite at h
  split at h
  · cases h
  · split at h
    · cases h
    · split at h
      · cases h
      · injection h with h
        rw [← h]
        rfl

theorem effDel_keys (reqOrder : Bool) (s : StoreState) (dels : List TupleKey) {t : TupleRec} (ht : t ∈ s.tuples) :
    ((effDelOf reqOrder s dels).map (·.key)).contains t.key = dels.contains t.key := by
  rw [Bool.eq_iff_iff, List.contains_iff_mem, List.contains_iff_mem, List.mem_map]
  unfold effDelOf
  cases reqOrder with
  | true =>
    simp only [if_true, List.mem_filterMap]
    constructor
    · rintro ⟨t', ⟨k, hk, hst⟩, hkey⟩
      have := (stored_some_key hst).2
      rw [← hkey, this]; exact hk
    · intro hk
      have hs : (stored s t.key).isSome = true := by
        rw [stored_isSome_iff, List.any_eq_true]; exact ⟨t, ht, by simp⟩
      cases hst : stored s t.key with
      | none => simp [hst] at hs
      | some t' => exact ⟨t', ⟨t.key, hk, hst⟩, (stored_some_key hst).2⟩
  | false =>
    simp only [Bool.false_eq_true, if_false, List.mem_filter, List.contains_iff_mem]
    constructor
    · rintro ⟨t', ⟨_, hk⟩, hkey⟩; rw [← hkey]; exact hk
    · intro hk; exact ⟨t, ⟨ht, hk⟩, rfl⟩

theorem normCond_idem (t : TupleRec) : normCond (normCond t) = normCond t := by
  cases t with
  | mk a b c d n x =>
    unfold normCond
    by_cases h : n = ""
    · simp [h]
    · cases x <;> simp [h]

theorem ranks_push (ch : List Change) (items : List (TupleRec × Op)) (now : Nat)
    (h : ch.map (·.ulid) = List.range ch.length) :
    (pushAll ch items now).map (·.ulid) = List.range (pushAll ch items now).length := by
  rw [pushAll_eq]
  simp only [List.map_append, List.length_append, mkChanges_length, mkChanges_ulids, h]
  have := @List.range'_append 0 ch.length items.length 1
  simp only [Nat.one_mul, Nat.zero_add] at this
  rw [List.range_eq_range', List.range_eq_range', ← this]

/-- what holds of a store after any sequence of writes -/
structure Inv (s : StoreState) : Prop where
  /-- no key is stored twice -/
  nodup : (s.tuples.map (·.key)).Nodup
  /-- replaying the changelog, oldest first, onto the empty store yields exactly what `Read` shows -/
  replays : replay [] s.changes = s.tuples.map normCond
  /-- the ULID rank of a change is its position in the log -/
  ranks : s.changes.map (·.ulid) = List.range s.changes.length

theorem inv_empty : Inv {} := ⟨by simp, by simp [replay], by simp⟩

theorem specState_inv (reqOrder : Bool) (norm : TupleRec → TupleRec)
    (hnk : ∀ t, (norm t).key = t.key) (hnn : ∀ t, normCond (norm t) = normCond t)
    (s : StoreState) (dels : List TupleKey) (writes : List TupleRec) (now : Nat)
    (hw : (writes.map (·.key)).Nodup) (hi : Inv s) : Inv (specState reqOrder norm s dels writes now) := by
  obtain ⟨hnd, hrep, hrk⟩ := hi
  refine ⟨?_, ?_, ?_⟩
  · -- keys stay unique
    simp only [specState, List.map_append, List.map_map]
    rw [List.nodup_append]
    refine ⟨List.Nodup.sublist (List.Sublist.map _ List.filter_sublist) hnd, ?_, ?_⟩
    · have : (effWOf s writes).map ((fun x => x.key) ∘ norm) = (effWOf s writes).map (·.key) :=
        List.map_congr_left (fun a _ => hnk a)
      rw [this]
      exact List.Nodup.sublist (List.Sublist.map _ List.filter_sublist) hw
    · intro a ha b hb hab
      obtain ⟨t, ht, rfl⟩ := List.mem_map.mp ha
      obtain ⟨w, hw', rfl⟩ := List.mem_map.mp hb
      simp only [Function.comp, hnk] at hab
      have hw2 := (List.mem_filter.mp hw').2
      have ht' := (List.mem_filter.mp ht).1
      have : (stored s w.key).isSome = true := by
        rw [stored_isSome_iff, List.any_eq_true]; exact ⟨t, ht', by simp [hab]⟩
      cases h : stored s w.key <;> simp [h] at this hw2
  · -- replay
    simp only [specState]
    rw [pushAll_eq, replay_append, hrep, mkChanges_append, replay_append, replay_deletes, replay_writes]
    rw [List.map_append, List.map_map]
    congr 1
    · rw [List.filter_map]
      congr 1
      apply List.filter_congr
      intro t ht
      simp only [Function.comp, normCond_key]
      rw [effDel_keys reqOrder s dels ht]
    · apply List.map_congr_left
      intro a _
      simp [Function.comp, hnn]
  · -- ranks
    simp only [specState]
    exact ranks_push _ _ _ hrk


end OpenFGAVerif.Proofs.StoreWrite
