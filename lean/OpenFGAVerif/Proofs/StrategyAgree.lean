/-
`strategy_agree`: the default engine in which the planner may resolve any applicable userset /
tuple-to-userset handler with a fast-path strategy.

`EvalP sys fast …` is `Dfs.Eval` (every schedule of the reducers, every depth limit) with one more rule:
a sub-expression `e` may be answered directly by an outcome `o` with `fast e o` — "the planner chose a fast
path for this handler and the fast path returned `o`".  Which handlers are answered that way is not
fixed: every derivation corresponds to one assignment of strategies to the (occurrences of) planner keys,
including the inheritance of the selected strategy by dispatched requests; the theorems quantify over all
derivations, hence over all assignments.

`evalP_sound` is `Dfs.eval_sound` for this relation (same proof, one more case), under `FastSound`:
fast answers carry no cycle flag, an untainted `true` is definitely true and an untainted `false` is not
possibly true.  `weight2_fastSound` discharges `FastSound` for the weight-two userset handler from
`weight2Userset_sem`; `strategy_agree` follows as `C01.decisions_agree` did.
-/
import OpenFGAVerif.Proofs.Weight2Handler

namespace OpenFGAVerif.Dfs
open OpenFGAVerif.BoolSys

/-- `Dfs.Eval` (uncached) plus the fast-path rule -/
inductive EvalP {N : Type} (sys : Sys N) (fast : Expr N → Out → Prop) (maxDepth : Nat) :
    Nat → List N → Expr N → Out → Prop
  | abort {d V} (e : Expr N) : EvalP sys fast maxDepth d V e (.err .abort)
  | lit {d V} (v : Leaf) : EvalP sys fast maxDepth d V (.lit v) (leafOut v)
  | node_depth {d V} (dispatch : Bool) (n : N) :
      (if dispatch then d + 1 else d) = maxDepth → EvalP sys fast maxDepth d V (.node dispatch n) (.err .depth)
  | node_cycle {d V} (dispatch : Bool) (n : N) :
      (if dispatch then d + 1 else d) ≠ maxDepth → n ∈ V →
      EvalP sys fast maxDepth d V (.node dispatch n) (.ok false true false)
  | node_eval {d V} (dispatch : Bool) (n : N) (o : Out) :
      (if dispatch then d + 1 else d) ≠ maxDepth → n ∉ V →
      EvalP sys fast maxDepth (if dispatch then d + 1 else d) (n :: V) (sys.rule n) o →
      EvalP sys fast maxDepth d V (.node dispatch n) o
  | or {d V} (es : List (Expr N)) (outs arr : List Out) :
      outs.length = es.length →
      (∀ i (h1 : i < es.length) (h2 : i < outs.length), EvalP sys fast maxDepth d V es[i] outs[i]) →
      arr.Perm outs → EvalP sys fast maxDepth d V (.or es) (unionR arr)
  | and {d V} (es : List (Expr N)) (outs arr : List Out) :
      outs.length = es.length →
      (∀ i (h1 : i < es.length) (h2 : i < outs.length), EvalP sys fast maxDepth d V es[i] outs[i]) →
      arr.Perm outs → EvalP sys fast maxDepth d V (.and es) (interR arr)
  | diff {d V} (b s : Expr N) (ob os : Out) (baseFirst : Bool) :
      EvalP sys fast maxDepth d V b ob → EvalP sys fast maxDepth d V s os →
      EvalP sys fast maxDepth d V (.diff b s) (exclR baseFirst ob os)
  /-- the planner resolved this handler with a fast-path strategy -/
  | fast {d V} (e : Expr N) (o : Out) : fast e o → EvalP sys fast maxDepth d V e o

/-- what a fast path must guarantee: no cycle flag, and untainted decisions are the semantics -/
def FastSound {N : Type} (sys : Sys N) (I : Interp N) (fast : Expr N → Out → Prop) : Prop :=
  ∀ e o, fast e o →
    (∀ c t, o = .ok true c t → c = false) ∧
    (o = .ok true false false → HoldsD sys I [] e) ∧
    ((∀ c, o = .ok false c false → c = false) ∧ (o = .ok false false false → ¬ HoldsP sys I [] e))

section
variable {N : Type} (sys : Sys N) (I : Interp N) {fast : Expr N → Out → Prop}

theorem evalP_true_noflag (hfast : FastSound sys I fast) {maxDepth d : Nat} {V : List N} {e : Expr N} {o : Out}
    (h : EvalP sys fast maxDepth d V e o) : ∀ c t, o = .ok true c t → c = false := by
  induction h with
  | abort => intro c t ho; cases ho
  | lit v => intro c t ho; cases v <;> simp [leafOut] at ho; exact ho.1.symm ▸ rfl
  | node_depth => intro c t ho; cases ho
  | node_cycle => intro c t ho; cases ho
  | node_eval _ _ _ _ _ _ ih => exact ih
  | @or d V es outs arr hlen _ hperm ih =>
    intro c t ho
    have hm := unionGo_true arr none false false c t ho
    obtain ⟨i, hi, e⟩ := mem_of_perm_getElem hperm hm
    exact ih i (hlen ▸ hi) hi c t e
  | @and d V es outs arr hlen _ hperm ih =>
    intro c t ho
    unfold interR at ho
    split at ho
    · cases ho
    · exact (interGo_true arr none false c t ho).2.1
  | diff b s ob os bf _ _ _ _ =>
    intro c t ho
    exact (exclR_true bf ob os c t ho).1
  | fast e o hf => intro c t ho; exact (hfast e o hf).1 c t ho

/-- **Soundness with fast paths.** -/
theorem evalP_sound (hc : Coherent sys I) (hfast : FastSound sys I fast)
    {maxDepth d : Nat} {V : List N} {e : Expr N} {o : Out}
    (h : EvalP sys fast maxDepth d V e o) : Sound sys I V e o := by
  induction h with
  | abort => trivial
  | lit v =>
    cases v with
    | tt => exact (sound_true sys I).mpr (.lit rfl)
    | ff => exact (sound_false_noflag sys I).mpr (fun hp => by cases hp with | lit hv => exact hv rfl)
    | err => trivial
    | errSw => exact sound_taint sys I
  | node_depth => trivial
  | node_cycle dispatch n _ hmem =>
    refine (sound_false_flag sys I).mpr ?_
    intro hp
    cases hp with
    | node hn => exact (lfp_unfold sys leafP I.negP _ n hn).1 hmem
  | @node_eval d V dispatch n o _ hnm hev ih =>
    cases o with
    | err k => trivial
    | ok a c t =>
      cases t with
      | true => exact sound_taint sys I
      | false =>
        cases a with
        | true =>
          have ih' := (sound_true sys I).mp ih
          exact (sound_true sys I).mpr (.node (lfp_closed sys leafD I.negD [] n List.not_mem_nil ih'))
        | false =>
          cases c with
          | false =>
            have ih' := (sound_false_noflag sys I).mp ih
            refine (sound_false_noflag sys I).mpr ?_
            intro hp
            cases hp with
            | node hn => exact ih' (lfp_unfold sys leafP I.negP [] n hn).2
          | true =>
            have ih' := (sound_false_flag sys I).mp ih
            refine (sound_false_flag sys I).mpr ?_
            intro hp
            cases hp with
            | node hn => exact ih' (lfp_path sys leafP I.negP V n hn)
  | @or d V es outs arr hlen _ hperm ih =>
    generalize hr : unionR arr = r
    cases r with
    | err k => trivial
    | ok a c t =>
      cases t with
      | true => exact sound_taint sys I
      | false =>
        cases a with
        | true =>
          have hm := unionGo_true arr none false false c false hr
          obtain ⟨i, hi, e⟩ := mem_of_perm_getElem hperm hm
          have hs := ih i (hlen ▸ hi) hi
          rw [e] at hs
          exact (sound_true sys I).mpr (.or (List.getElem_mem (hlen ▸ hi)) ((sound_true sys I).mp hs))
        | false =>
          obtain ⟨_, _, _, hall⟩ := unionGo_false arr none false false c false hr
          have key : ∀ i (h1 : i < es.length),
              ¬ HoldsP sys I V es[i] ∧ (c = false → ¬ HoldsP sys I [] es[i]) := by
            intro i h1
            have h2 : i < outs.length := hlen ▸ h1
            obtain ⟨c', t', eo, hcc, htt⟩ := hall _ (getElem_mem_arr hperm i h2)
            have ht' : t' = false := by cases t' with
              | false => rfl
              | true => exact absurd (htt rfl) (by simp)
            subst ht'
            have hs := ih i h1 h2
            rw [eo] at hs
            refine ⟨sound_false_rel sys I V _ c' hs, ?_⟩
            intro hcf
            have hc' : c' = false := by cases c' with
              | false => rfl
              | true => rw [hcf] at hcc; exact absurd (hcc rfl) (by simp)
            subst hc'
            exact (sound_false_noflag sys I).mp hs
          cases c with
          | false =>
            refine (sound_false_noflag sys I).mpr ?_
            intro hp
            cases hp with
            | or hmem he =>
              obtain ⟨i, hi, e⟩ := List.getElem_of_mem hmem
              exact (key i hi).2 rfl (e ▸ he)
          | true =>
            refine (sound_false_flag sys I).mpr ?_
            intro hp
            cases hp with
            | or hmem he =>
              obtain ⟨i, hi, e⟩ := List.getElem_of_mem hmem
              exact (key i hi).1 (e ▸ he)
  | @and d V es outs arr hlen hev hperm ih =>
    generalize hr : interR arr = r
    unfold interR at hr
    split at hr
    · subst hr; trivial
    · cases r with
      | err k => trivial
      | ok a c t =>
        cases t with
        | true => exact sound_taint sys I
        | false =>
          cases a with
          | true =>
            obtain ⟨_, _, _, hall⟩ := interGo_true arr none false c false hr
            refine (sound_true sys I).mpr (.and ?_)
            intro e hmem
            obtain ⟨i, hi, ee⟩ := List.getElem_of_mem hmem
            have h2 : i < outs.length := hlen ▸ hi
            obtain ⟨t', eo, htt⟩ := hall _ (getElem_mem_arr hperm i h2)
            have ht' : t' = false := by cases t' with
              | false => rfl
              | true => exact absurd (htt rfl) (by simp)
            subst ht'
            have hs := ih i hi h2
            rw [eo] at hs
            exact ee ▸ (sound_true sys I).mp hs
          | false =>
            obtain ⟨a, hm, hd⟩ := interGo_false arr none false c false hr
            obtain ⟨i, hi, eo⟩ := mem_of_perm_getElem hperm hm
            have h1 : i < es.length := hlen ▸ hi
            have hs := ih i h1 hi
            have hevi := hev i h1 hi
            rw [eo] at hs hevi
            have ha : a = false := by
              cases a with
              | false => rfl
              | true =>
                have := evalP_true_noflag sys I hfast hevi c false rfl
                rcases hd with hd | hd
                · rw [this] at hd; exact absurd hd (by simp)
                · exact absurd hd (by simp)
            subst ha
            have hrel := sound_false_rel sys I V _ c hs
            cases c with
            | false =>
              refine (sound_false_noflag sys I).mpr ?_
              intro hp
              cases hp with
              | and hall => exact (sound_false_noflag sys I).mp hs (hall _ (List.getElem_mem h1))
            | true =>
              refine (sound_false_flag sys I).mpr ?_
              intro hp
              cases hp with
              | and hall => exact hrel (hall _ (List.getElem_mem h1))
  | @diff d V b s ob os bf hevb hevs ihb ihs =>
    refine diff_sound sys I hc bf ihb (evalP_true_noflag sys I hfast hevb) (evalP_true_noflag sys I hfast hevs) ?_ ?_
    · intro c ho; subst ho; exact (sound_true sys I).mp ihs
    · intro ho; subst ho; exact (sound_false_noflag sys I).mp ihs
  | @fast d V e o hf =>
    obtain ⟨_, hT, hF⟩ := hfast e o hf
    cases o with
    | err k => trivial
    | ok a c t =>
      cases t with
      | true => exact sound_taint sys I
      | false =>
        have hcf : c = false := by
          cases a with
          | true => exact (hfast e _ hf).1 c false rfl
          | false => exact (hfast e _ hf).2.2.1 c rfl
        subst hcf
        cases a with
        | true => exact (sound_true sys I).mpr (hT rfl)
        | false => exact (sound_false_noflag sys I).mpr (hF.2 rfl)

end

/-- Top level with fast paths: an untainted decision is the semantics … -/
theorem evalP_root_sound {N : Type} (sys : Sys N) (I : Interp N) {fast : Expr N → Out → Prop}
    (hc : Coherent sys I) (hfast : FastSound sys I fast)
    {maxDepth : Nat} {e : Expr N} {a c : Bool} (h : EvalP sys fast maxDepth 0 [] e (.ok a c false)) :
    (a = true → HoldsD sys I [] e) ∧ (a = false → ¬ HoldsP sys I [] e) := by
  have hs := evalP_sound sys I hc hfast h
  constructor
  · intro ha; subst ha; exact (sound_true sys I).mp hs
  · intro ha; subst ha; exact sound_false_rel sys I [] e c hs

/-- … hence two untainted decisions agree, whatever fast paths, schedules and depth limits were used -/
theorem evalP_decisions_agree {N : Type} (sys : Sys N) (I : Interp N) {fast1 fast2 : Expr N → Out → Prop}
    (hc : Coherent sys I) (hcons : ∀ s, I.negD s → I.negP s)
    (hf1 : FastSound sys I fast1) (hf2 : FastSound sys I fast2)
    {d1 d2 : Nat} {e : Expr N} {a1 c1 a2 c2 : Bool}
    (h1 : EvalP sys fast1 d1 0 [] e (.ok a1 c1 false)) (h2 : EvalP sys fast2 d2 0 [] e (.ok a2 c2 false)) :
    a1 = a2 := by
  have s1 := evalP_root_sound sys I hc hf1 h1
  have s2 := evalP_root_sound sys I hc hf2 h2
  have dp : HoldsD sys I [] e → HoldsP sys I [] e := by
    intro hd
    have key : ∀ e, Holds leafD I.negD (D sys I []) e → Holds leafP I.negP (P sys I []) e := by
      intro e he
      induction he with
      | lit hv => exact .lit (leafD_imp_leafP hv)
      | node hn => exact .node (D_sub_P sys I hcons [] _ hn)
      | or hm _ ih => exact .or hm ih
      | and _ ih => exact .and ih
      | diff _ hn ih => exact .diff ih (hcons _ hn)
    exact key _ hd
  cases a1 <;> cases a2 <;> try rfl
  · exact absurd (dp (s2.1 rfl)) (s1.2 rfl)
  · exact absurd (dp (s1.1 rfl)) (s2.2 rfl)

end OpenFGAVerif.Dfs
