/-
Existence and uniqueness of the coherent (stratified) interpretation.

The soundness theorems of `Proofs/DfsSound.lean`, `Props/C01.lean`, `Props/C02.lean`, `Props/C08.lean`
are stated for an interpretation `I` of the subtracted operands that is `Coherent` (negation oracles
read off the global least fixpoints of the other polarity) and, for the agreement theorems,
consistent (`hcons : ∀ s, I.negD s → I.negP s`).  This file discharges both hypotheses for every
system *without negation through recursion* and restates the consumers unconditionally.

Definitions
  * `Expr.ind`           induction principle for the nested inductive `Expr`
  * `Occurs n e`          node `n` occurs in `e`
  * `OccursNeg n e`       `n` occurs inside the subtracted operand of some `diff` sub-expression of `e`
  * `NegOp s e`           `s` is the subtracted operand of some `diff` sub-expression of `e`
  * `Stratified sys rk`   `∀ n m, Occurs m (rule n) → rk m ≤ rk n ∧ (OccursNeg m (rule n) → rk m < rk n)`
  * `ev l1 S1 l2 S2 e`    two-polarity evaluator of an expression over given node sets (negation of a
                          subtracted operand = the evaluator of the other polarity, by recursion on `e`)
  * `strat sys k`         the pair (`DK sys k`, `PK sys k`) of node sets after `k` strata, by recursion on `k`:
                          the least fixpoints whose negation oracles are evaluated over stratum `k - 1`
  * `stratInterp sys rk`  the interpretation: oracles = negated evaluator over `DS`/`PS`, where
                          `DS sys rk n = DK sys (rk n + 1) n` (a node is read at the stratum of its rank)
  * `CoherentOn sys I Rel`, `RuleOperand sys s`   coherence restricted to a class of operands

Theorems (all for an arbitrary system `sys : Sys N`, `rk : N → Nat`)
  * `Holds.congr_on`          truth of `e` only depends on the nodes of `e` and the oracle on the operands of `e`
  * `iter_local` / `lfp_local`  **locality**: oracles that agree (one direction suffices) on the operands
                              of rules of rank ≤ r give least fixpoints that agree on nodes of rank ≤ r
  * `holds_iff_ev`            `Holds l1 (¬ ev l2 S2 l1 S1 ·) S1 e ↔ ev l1 S1 l2 S2 e`
  * `ev_congr`, `ev_sub`      the evaluator only looks at occurring nodes; definite ⊆ possible
  * `strat_agree`             strata are stable: nodes of rank < K1, K2 have the same value at K1 and K2
  * `D_stratInterp_iff`, `P_stratInterp_iff`   `D sys (stratInterp sys rk) [] n ↔ DK sys K n` for `rk n < K`
  * `coherent_of_stratified`  `Stratified sys rk → Coherent sys (stratInterp sys rk)` — the **full**
                              statement (every expression `s`, not just the operands of the rules)
  * `DK_sub_PK`, `consistent_stratInterp`   `∀ s, negD s → negP s` for `stratInterp` (no hypothesis needed)
  * `coherent_unique`         two interpretations coherent on the operands of the rules of a stratified
                              system have the same `D []` and `P []`; `coherent_eq_stratInterp`
  * `exists_coherent`         `Stratified sys rk → ∃ I, Coherent sys I ∧ ∀ s, I.negD s → I.negP s`
  * consumers, unconditional for stratified systems:
    `eval_sound_stratified`, `eval_root_sound_stratified`, `check_sound_all_schedules_stratified`,
    `check_sound_stratified`, `decisions_agree_stratified`, `answers_schedule_independent_stratified`,
    `stored_fact_sound_stratified`, `cached_decision_sound_stratified`, `cached_agrees_with_uncached_stratified`
  * non-vacuity: `exSys` (three nodes, one exclusion), `exSys_stratified`, `exSys_eval`, `exSys_D0`, `exSys_notP2`

Nothing is weakened: full `Coherent` is provable, so no `eval_sound_on` variant is needed
(`CoherentOn` is only used to make the uniqueness theorem stronger).  No classical case split on a
semantic proposition is used (only the standard axioms pulled in by `omega` / well-founded recursion).
-/
import OpenFGAVerif.Props.C02
import OpenFGAVerif.Props.C08

namespace OpenFGAVerif.BoolSys

/-! ### induction over expressions, occurrences -/

theorem Expr.ind {N : Type} {motive : Expr N → Prop}
    (lit : ∀ v, motive (.lit v)) (node : ∀ d n, motive (.node d n))
    (or : ∀ es, (∀ e ∈ es, motive e) → motive (.or es))
    (and : ∀ es, (∀ e ∈ es, motive e) → motive (.and es))
    (diff : ∀ b s, motive b → motive s → motive (.diff b s)) : ∀ e, motive e := by
  intro e
  refine Expr.rec (motive_1 := motive) (motive_2 := fun es => ∀ e ∈ es, motive e)
    lit node or and diff ?_ ?_ e
  · intro e he; cases he
  · intro hd tl ih1 ih2 e he
    rcases List.mem_cons.mp he with rfl | h
    · exact ih1
    · exact ih2 e h

/-- node `n` occurs in the expression -/
inductive Occurs {N : Type} (n : N) : Expr N → Prop
  | node {d : Bool} : Occurs n (.node d n)
  | or {es : List (Expr N)} {e : Expr N} : e ∈ es → Occurs n e → Occurs n (.or es)
  | and {es : List (Expr N)} {e : Expr N} : e ∈ es → Occurs n e → Occurs n (.and es)
  | diffB {b s : Expr N} : Occurs n b → Occurs n (.diff b s)
  | diffS {b s : Expr N} : Occurs n s → Occurs n (.diff b s)

/-- node `n` occurs inside the subtracted operand of some `diff` sub-expression -/
inductive OccursNeg {N : Type} (n : N) : Expr N → Prop
  | or {es : List (Expr N)} {e : Expr N} : e ∈ es → OccursNeg n e → OccursNeg n (.or es)
  | and {es : List (Expr N)} {e : Expr N} : e ∈ es → OccursNeg n e → OccursNeg n (.and es)
  | diffB {b s : Expr N} : OccursNeg n b → OccursNeg n (.diff b s)
  | diffS {b s : Expr N} : Occurs n s → OccursNeg n (.diff b s)

/-- `s` is the subtracted operand of some `diff` sub-expression (at any nesting depth) -/
inductive NegOp {N : Type} (s : Expr N) : Expr N → Prop
  | here {b : Expr N} : NegOp s (.diff b s)
  | or {es : List (Expr N)} {e : Expr N} : e ∈ es → NegOp s e → NegOp s (.or es)
  | and {es : List (Expr N)} {e : Expr N} : e ∈ es → NegOp s e → NegOp s (.and es)
  | diffB {b s' : Expr N} : NegOp s b → NegOp s (.diff b s')
  | diffS {b s' : Expr N} : NegOp s s' → NegOp s (.diff b s')

theorem OccursNeg.occurs {N : Type} {n : N} {e : Expr N} (h : OccursNeg n e) : Occurs n e := by
  induction h with
  | or hm _ ih => exact .or hm ih
  | and hm _ ih => exact .and hm ih
  | diffB _ ih => exact .diffB ih
  | diffS h => exact .diffS h

theorem NegOp.occursNeg {N : Type} {n : N} {s e : Expr N} (h : NegOp s e) (ho : Occurs n s) :
    OccursNeg n e := by
  induction h with
  | here => exact .diffS ho
  | or hm _ ih => exact .or hm ih
  | and hm _ ih => exact .and hm ih
  | diffB _ ih => exact .diffB ih
  | diffS _ ih => exact .diffS ih.occurs

theorem NegOp.trans {N : Type} {s' s e : Expr N} (h1 : NegOp s' s) (h2 : NegOp s e) : NegOp s' e := by
  induction h2 with
  | here => exact .diffS h1
  | or hm _ ih => exact .or hm ih
  | and hm _ ih => exact .and hm ih
  | diffB _ ih => exact .diffB ih
  | diffS _ ih => exact .diffS ih

/-- **No negation through recursion**: `rk` never increases along a dependency and strictly decreases
along a dependency that goes through the subtracted operand of an exclusion. -/
def Stratified {N : Type} (sys : Sys N) (rk : N → Nat) : Prop :=
  ∀ n m, Occurs m (sys.rule n) → rk m ≤ rk n ∧ (OccursNeg m (sys.rule n) → rk m < rk n)

/-! ### locality -/

section
variable {N : Type}

theorem holds_or_iff {leaf : Leaf → Prop} {neg : Expr N → Prop} {S : N → Prop} {es : List (Expr N)} :
    Holds leaf neg S (.or es) ↔ ∃ e, ∃ _ : e ∈ es, Holds leaf neg S e :=
  ⟨fun h => by cases h with | or hm he => exact ⟨_, hm, he⟩, fun ⟨_, hm, he⟩ => .or hm he⟩

theorem holds_and_iff {leaf : Leaf → Prop} {neg : Expr N → Prop} {S : N → Prop} {es : List (Expr N)} :
    Holds leaf neg S (.and es) ↔ ∀ e, e ∈ es → Holds leaf neg S e :=
  ⟨fun h => by cases h with | and ha => exact ha, fun h => .and h⟩

theorem holds_diff_iff {leaf : Leaf → Prop} {neg : Expr N → Prop} {S : N → Prop} {b s : Expr N} :
    Holds leaf neg S (.diff b s) ↔ Holds leaf neg S b ∧ neg s :=
  ⟨fun h => by cases h with | diff hb hn => exact ⟨hb, hn⟩, fun ⟨hb, hn⟩ => .diff hb hn⟩

theorem holds_lit_iff {leaf : Leaf → Prop} {neg : Expr N → Prop} {S : N → Prop} {v : Leaf} :
    Holds leaf neg S (.lit v) ↔ leaf v :=
  ⟨fun h => by cases h with | lit hv => exact hv, fun h => .lit h⟩

theorem holds_node_iff {leaf : Leaf → Prop} {neg : Expr N → Prop} {S : N → Prop} {d : Bool} {n : N} :
    Holds leaf neg S (.node d n) ↔ S n :=
  ⟨fun h => by cases h with | node hn => exact hn, fun h => .node h⟩

/-- The truth of `e` only depends on the nodes occurring in `e` and on the oracle at the operands of `e`. -/
theorem Holds.congr_on {leaf : Leaf → Prop} {neg1 neg2 : Expr N → Prop} {S T : N → Prop} {e : Expr N}
    (h : Holds leaf neg1 S e) :
    (∀ m, Occurs m e → S m → T m) → (∀ s, NegOp s e → neg1 s → neg2 s) → Holds leaf neg2 T e := by
  induction h with
  | lit hv => intro _ _; exact .lit hv
  | node hn' => intro hS _; exact .node (hS _ .node hn')
  | or hm _ ih =>
    intro hS hn
    exact .or hm (ih (fun m ho => hS m (.or hm ho)) (fun s hs => hn s (.or hm hs)))
  | and _ ih =>
    intro hS hn
    exact .and (fun e he => ih e he (fun m ho => hS m (.and he ho)) (fun s hs => hn s (.and he hs)))
  | diff _ hneg ih =>
    intro hS hn
    exact .diff (ih (fun m ho => hS m (.diffB ho)) (fun s hs => hn s (.diffB hs))) (hn _ .here hneg)

/-- **Locality.**  If `neg1` implies `neg2` on every subtracted operand of the rules of nodes of rank
`≤ r`, every Kleene stage of the first system restricted to rank `≤ r` is below the second one. -/
theorem iter_local (sys : Sys N) (rk : N → Nat) (hrk : ∀ n m, Occurs m (sys.rule n) → rk m ≤ rk n)
    (leaf : Leaf → Prop) (neg1 neg2 : Expr N → Prop) (V : List N) (r : Nat)
    (hneg : ∀ m, rk m ≤ r → ∀ s, NegOp s (sys.rule m) → neg1 s → neg2 s) :
    ∀ k n, rk n ≤ r → iter sys leaf neg1 V k n → iter sys leaf neg2 V k n := by
  intro k
  induction k with
  | zero => intro n _ h; exact h.elim
  | succ k ih =>
    intro n hn h
    exact ⟨h.1, Holds.congr_on h.2 (fun m ho hm => ih m (Nat.le_trans (hrk n m ho) hn) hm) (hneg n hn)⟩

theorem lfp_local (sys : Sys N) (rk : N → Nat) (hrk : ∀ n m, Occurs m (sys.rule n) → rk m ≤ rk n)
    (leaf : Leaf → Prop) (neg1 neg2 : Expr N → Prop) (V : List N) (r : Nat)
    (hneg : ∀ m, rk m ≤ r → ∀ s, NegOp s (sys.rule m) → neg1 s → neg2 s) :
    ∀ n, rk n ≤ r → lfp sys leaf neg1 V n → lfp sys leaf neg2 V n := by
  intro n hn ⟨k, hk⟩
  exact ⟨k, iter_local sys rk hrk leaf neg1 neg2 V r hneg k n hn hk⟩

/-! ### the two-polarity evaluator -/

/-- truth of `e` in polarity 1 (leaves `l1`, nodes `S1`) when the subtracted operands are read in
polarity 2 (leaves `l2`, nodes `S2`), whose own subtracted operands are read in polarity 1 again. -/
def ev (l1 : Leaf → Prop) (S1 : N → Prop) (l2 : Leaf → Prop) (S2 : N → Prop) : Expr N → Prop
  | .lit v => l1 v
  | .node _ n => S1 n
  | .or es => ∃ e, ∃ _ : e ∈ es, ev l1 S1 l2 S2 e
  | .and es => ∀ e, e ∈ es → ev l1 S1 l2 S2 e
  | .diff b s => ev l1 S1 l2 S2 b ∧ ¬ ev l2 S2 l1 S1 s
termination_by e => sizeOf e
decreasing_by
  all_goals simp_wf
  · rename_i h; have := List.sizeOf_lt_of_mem h; omega
  · rename_i h; have := List.sizeOf_lt_of_mem h; omega
  · omega
  · omega

theorem ev_lit (l1 : Leaf → Prop) (S1 : N → Prop) (l2 : Leaf → Prop) (S2 : N → Prop) (v : Leaf) :
    ev l1 S1 l2 S2 (.lit v) = l1 v := by rw [ev]
theorem ev_node (l1 : Leaf → Prop) (S1 : N → Prop) (l2 : Leaf → Prop) (S2 : N → Prop) (d : Bool) (n : N) :
    ev l1 S1 l2 S2 (.node d n) = S1 n := by rw [ev]
theorem ev_or (l1 : Leaf → Prop) (S1 : N → Prop) (l2 : Leaf → Prop) (S2 : N → Prop) (es : List (Expr N)) :
    ev l1 S1 l2 S2 (.or es) = ∃ e, ∃ _ : e ∈ es, ev l1 S1 l2 S2 e := by rw [ev]
theorem ev_and (l1 : Leaf → Prop) (S1 : N → Prop) (l2 : Leaf → Prop) (S2 : N → Prop) (es : List (Expr N)) :
    ev l1 S1 l2 S2 (.and es) = ∀ e, e ∈ es → ev l1 S1 l2 S2 e := by rw [ev]
theorem ev_diff (l1 : Leaf → Prop) (S1 : N → Prop) (l2 : Leaf → Prop) (S2 : N → Prop) (b s : Expr N) :
    ev l1 S1 l2 S2 (.diff b s) = (ev l1 S1 l2 S2 b ∧ ¬ ev l2 S2 l1 S1 s) := by rw [ev]

/-- `Holds` with the evaluator of the other polarity as negation oracle *is* the evaluator. -/
theorem holds_iff_ev (l1 : Leaf → Prop) (S1 : N → Prop) (l2 : Leaf → Prop) (S2 : N → Prop) (e : Expr N) :
    Holds l1 (fun s => ¬ ev l2 S2 l1 S1 s) S1 e ↔ ev l1 S1 l2 S2 e := by
  induction e using Expr.ind with
  | lit v => rw [ev_lit]; exact holds_lit_iff
  | node d n => rw [ev_node]; exact holds_node_iff
  | or es ih =>
    rw [ev_or, holds_or_iff]
    exact ⟨fun ⟨e, hm, he⟩ => ⟨e, hm, (ih e hm).mp he⟩, fun ⟨e, hm, he⟩ => ⟨e, hm, (ih e hm).mpr he⟩⟩
  | and es ih =>
    rw [ev_and, holds_and_iff]
    exact ⟨fun h e hm => (ih e hm).mp (h e hm), fun h e hm => (ih e hm).mpr (h e hm)⟩
  | diff b s ihb _ =>
    rw [ev_diff, holds_diff_iff]
    exact ⟨fun ⟨hb, hn⟩ => ⟨ihb.mp hb, hn⟩, fun ⟨hb, hn⟩ => ⟨ihb.mpr hb, hn⟩⟩

/-- the evaluator only looks at the nodes that occur in the expression -/
theorem ev_congr (e : Expr N) : ∀ (l1 : Leaf → Prop) (S1 T1 : N → Prop) (l2 : Leaf → Prop) (S2 T2 : N → Prop),
    (∀ m, Occurs m e → (S1 m ↔ T1 m) ∧ (S2 m ↔ T2 m)) → (ev l1 S1 l2 S2 e ↔ ev l1 T1 l2 T2 e) := by
  induction e using Expr.ind with
  | lit v => intro l1 S1 T1 l2 S2 T2 _; rw [ev_lit, ev_lit]
  | node d n => intro l1 S1 T1 l2 S2 T2 h; rw [ev_node, ev_node]; exact (h n .node).1
  | or es ih =>
    intro l1 S1 T1 l2 S2 T2 h
    rw [ev_or, ev_or]
    have key := fun e (hm : e ∈ es) => ih e hm l1 S1 T1 l2 S2 T2 (fun m ho => h m (.or hm ho))
    exact ⟨fun ⟨e, hm, he⟩ => ⟨e, hm, (key e hm).mp he⟩, fun ⟨e, hm, he⟩ => ⟨e, hm, (key e hm).mpr he⟩⟩
  | and es ih =>
    intro l1 S1 T1 l2 S2 T2 h
    rw [ev_and, ev_and]
    have key := fun e (hm : e ∈ es) => ih e hm l1 S1 T1 l2 S2 T2 (fun m ho => h m (.and hm ho))
    exact ⟨fun ha e hm => (key e hm).mp (ha e hm), fun ha e hm => (key e hm).mpr (ha e hm)⟩
  | diff b s ihb ihs =>
    intro l1 S1 T1 l2 S2 T2 h
    rw [ev_diff, ev_diff]
    have kb := ihb l1 S1 T1 l2 S2 T2 (fun m ho => h m (.diffB ho))
    have ks := ihs l2 S2 T2 l1 S1 T1 (fun m ho => ⟨(h m (.diffS ho)).2, (h m (.diffS ho)).1⟩)
    exact ⟨fun ⟨hb, hn⟩ => ⟨kb.mp hb, fun c => hn (ks.mpr c)⟩, fun ⟨hb, hn⟩ => ⟨kb.mpr hb, fun c => hn (ks.mp c)⟩⟩

/-- definite truth implies possible truth, for the evaluator -/
theorem ev_sub {l1 l2 : Leaf → Prop} {S1 S2 : N → Prop} (hl : ∀ v, l1 v → l2 v) (hS : ∀ n, S1 n → S2 n)
    (e : Expr N) : ev l1 S1 l2 S2 e → ev l2 S2 l1 S1 e := by
  induction e using Expr.ind with
  | lit v => rw [ev_lit, ev_lit]; exact hl v
  | node d n => rw [ev_node, ev_node]; exact hS n
  | or es ih => rw [ev_or, ev_or]; exact fun ⟨e, hm, he⟩ => ⟨e, hm, ih e hm he⟩
  | and es ih => rw [ev_and, ev_and]; exact fun ha e hm => ih e hm (ha e hm)
  | diff b s ihb ihs => rw [ev_diff, ev_diff]; exact fun ⟨hb, hn⟩ => ⟨ihb hb, fun c => hn (ihs c)⟩

/-! ### strata -/

/-- the node sets after `k` strata: (definite, possible) -/
def strat (sys : Sys N) : Nat → (N → Prop) × (N → Prop)
  | 0 => (fun _ => False, fun _ => False)
  | k + 1 =>
    (lfp sys leafD (fun s => ¬ ev leafP (strat sys k).2 leafD (strat sys k).1 s) [],
     lfp sys leafP (fun s => ¬ ev leafD (strat sys k).1 leafP (strat sys k).2 s) [])

def DK (sys : Sys N) (k : Nat) : N → Prop := (strat sys k).1
def PK (sys : Sys N) (k : Nat) : N → Prop := (strat sys k).2

/-- oracles of stratum `k`: evaluate the operand over the node sets of stratum `k` -/
def levelInterp (sys : Sys N) (k : Nat) : Interp N where
  negD := fun s => ¬ ev leafP (PK sys k) leafD (DK sys k) s
  negP := fun s => ¬ ev leafD (DK sys k) leafP (PK sys k) s

theorem DK_succ (sys : Sys N) (k : Nat) : DK sys (k + 1) = D sys (levelInterp sys k) [] := rfl
theorem PK_succ (sys : Sys N) (k : Nat) : PK sys (k + 1) = P sys (levelInterp sys k) [] := rfl

/-- the definite / possible value of a node, read at the stratum of its rank -/
def DS (sys : Sys N) (rk : N → Nat) (n : N) : Prop := DK sys (rk n + 1) n
def PS (sys : Sys N) (rk : N → Nat) (n : N) : Prop := PK sys (rk n + 1) n

/-- **The stratified interpretation**: a subtracted operand is "definitely not holding" when its
possible evaluation over the strata fails, "possibly not holding" when its definite evaluation fails. -/
def stratInterp (sys : Sys N) (rk : N → Nat) : Interp N where
  negD := fun s => ¬ ev leafP (PS sys rk) leafD (DS sys rk) s
  negP := fun s => ¬ ev leafD (DS sys rk) leafP (PS sys rk) s

/-- definite ⊆ possible at every stratum (no hypothesis on the system) -/
theorem DK_sub_PK (sys : Sys N) : ∀ k n, DK sys k n → PK sys k n := by
  intro k
  induction k with
  | zero => intro n h; exact h
  | succ k ih =>
    intro n h
    rw [DK_succ] at h; rw [PK_succ]
    refine D_sub_P sys (levelInterp sys k) ?_ [] n h
    intro s hs c
    exact hs (ev_sub (fun _ => leafD_imp_leafP) ih s c)

theorem DS_sub_PS (sys : Sys N) (rk : N → Nat) : ∀ n, DS sys rk n → PS sys rk n :=
  fun n h => DK_sub_PK sys (rk n + 1) n h

/-- **(c)** the `hcons` hypothesis of `C01.decisions_agree`, `C02.answers_schedule_independent`,
`C08.cached_agrees_with_uncached`: "definitely not" implies "possibly not". -/
theorem consistent_stratInterp (sys : Sys N) (rk : N → Nat) :
    ∀ s, (stratInterp sys rk).negD s → (stratInterp sys rk).negP s := by
  intro s hs c
  exact hs (ev_sub (fun _ => leafD_imp_leafP) (DS_sub_PS sys rk) s c)

theorem Stratified.le {sys : Sys N} {rk : N → Nat} (h : Stratified sys rk) :
    ∀ n m, Occurs m (sys.rule n) → rk m ≤ rk n := fun n m ho => (h n m ho).1

theorem Stratified.lt_of_negOp {sys : Sys N} {rk : N → Nat} (h : Stratified sys rk) {n z : N} {s : Expr N}
    (hs : NegOp s (sys.rule n)) (hz : Occurs z s) : rk z < rk n :=
  (h n z (hs.occursNeg hz).occurs).2 (hs.occursNeg hz)

/-- one direction of the comparison of two strata, given stability below -/
private theorem strat_step {sys : Sys N} {rk : N → Nat} (hst : Stratified sys rk) (r : Nat)
    (ih : ∀ y, rk y < r → ∀ K1 K2, rk y < K1 → rk y < K2 →
      (DK sys K1 y ↔ DK sys K2 y) ∧ (PK sys K1 y ↔ PK sys K2 y))
    (y : N) (hy : rk y ≤ r) (K1 K2 : Nat) (h1 : rk y ≤ K1) (h2 : rk y ≤ K2) :
    (DK sys (K1 + 1) y → DK sys (K2 + 1) y) ∧ (PK sys (K1 + 1) y → PK sys (K2 + 1) y) := by
  have nodes : ∀ m, rk m ≤ rk y → ∀ s, NegOp s (sys.rule m) → ∀ z, Occurs z s →
      (DK sys K1 z ↔ DK sys K2 z) ∧ (PK sys K1 z ↔ PK sys K2 z) := by
    intro m hm s hs z hz
    have hlt : rk z < rk m := hst.lt_of_negOp hs hz
    exact ih z (by omega) K1 K2 (by omega) (by omega)
  constructor
  · rw [DK_succ, DK_succ]
    refine lfp_local sys rk hst.le leafD _ _ [] (rk y) ?_ y (Nat.le_refl _)
    intro m hm s hs hn c
    refine hn ((ev_congr s leafP _ _ leafD _ _ ?_).mpr c)
    intro z hz
    exact ⟨(nodes m hm s hs z hz).2, (nodes m hm s hs z hz).1⟩
  · rw [PK_succ, PK_succ]
    refine lfp_local sys rk hst.le leafP _ _ [] (rk y) ?_ y (Nat.le_refl _)
    intro m hm s hs hn c
    refine hn ((ev_congr s leafD _ _ leafP _ _ ?_).mpr c)
    intro z hz
    exact nodes m hm s hs z hz

/-- **Strata are stable**: a node of rank below both `K1` and `K2` has the same value at both strata. -/
theorem strat_agree {sys : Sys N} {rk : N → Nat} (hst : Stratified sys rk) :
    ∀ r y, rk y < r → ∀ K1 K2, rk y < K1 → rk y < K2 →
      (DK sys K1 y ↔ DK sys K2 y) ∧ (PK sys K1 y ↔ PK sys K2 y) := by
  intro r
  induction r with
  | zero => intro y hy; omega
  | succ r ih =>
    intro y hy K1 K2 h1 h2
    obtain ⟨K1', rfl⟩ : ∃ k, K1 = k + 1 := ⟨K1 - 1, by omega⟩
    obtain ⟨K2', rfl⟩ : ∃ k, K2 = k + 1 := ⟨K2 - 1, by omega⟩
    have a := strat_step hst r ih y (by omega) K1' K2' (by omega) (by omega)
    have b := strat_step hst r ih y (by omega) K2' K1' (by omega) (by omega)
    exact ⟨⟨a.1, b.1⟩, ⟨a.2, b.2⟩⟩

theorem DS_iff_DK {sys : Sys N} {rk : N → Nat} (hst : Stratified sys rk) {n : N} {K : Nat} (h : rk n < K) :
    (DS sys rk n ↔ DK sys K n) ∧ (PS sys rk n ↔ PK sys K n) :=
  strat_agree hst (rk n + 1) n (by omega) (rk n + 1) K (by omega) h

/-- the least fixpoints under the stratified interpretation are the strata -/
theorem stratInterp_iff {sys : Sys N} {rk : N → Nat} (hst : Stratified sys rk) (n : N) (K : Nat) (h : rk n < K) :
    (D sys (stratInterp sys rk) [] n ↔ DK sys K n) ∧ (P sys (stratInterp sys rk) [] n ↔ PK sys K n) := by
  obtain ⟨K', rfl⟩ : ∃ k, K = k + 1 := ⟨K - 1, by omega⟩
  have nodes : ∀ m, rk m ≤ rk n → ∀ s, NegOp s (sys.rule m) → ∀ z, Occurs z s →
      (DS sys rk z ↔ DK sys K' z) ∧ (PS sys rk z ↔ PK sys K' z) := by
    intro m hm s hs z hz
    have hlt : rk z < rk m := hst.lt_of_negOp hs hz
    exact DS_iff_DK hst (by omega)
  rw [DK_succ, PK_succ]
  refine ⟨⟨?_, ?_⟩, ⟨?_, ?_⟩⟩
  · refine lfp_local sys rk hst.le leafD _ _ [] (rk n) ?_ n (Nat.le_refl _)
    intro m hm s hs hn c
    refine hn ((ev_congr s leafP _ _ leafD _ _ ?_).mpr c)
    intro z hz
    exact ⟨(nodes m hm s hs z hz).2, (nodes m hm s hs z hz).1⟩
  · refine lfp_local sys rk hst.le leafD _ _ [] (rk n) ?_ n (Nat.le_refl _)
    intro m hm s hs hn c
    refine hn ((ev_congr s leafP _ _ leafD _ _ ?_).mp c)
    intro z hz
    exact ⟨(nodes m hm s hs z hz).2, (nodes m hm s hs z hz).1⟩
  · refine lfp_local sys rk hst.le leafP _ _ [] (rk n) ?_ n (Nat.le_refl _)
    intro m hm s hs hn c
    refine hn ((ev_congr s leafD _ _ leafP _ _ ?_).mpr c)
    intro z hz
    exact nodes m hm s hs z hz
  · refine lfp_local sys rk hst.le leafP _ _ [] (rk n) ?_ n (Nat.le_refl _)
    intro m hm s hs hn c
    refine hn ((ev_congr s leafD _ _ leafP _ _ ?_).mp c)
    intro z hz
    exact nodes m hm s hs z hz

theorem D_stratInterp_iff {sys : Sys N} {rk : N → Nat} (hst : Stratified sys rk) {n : N} {K : Nat}
    (h : rk n < K) : D sys (stratInterp sys rk) [] n ↔ DK sys K n := (stratInterp_iff hst n K h).1

theorem P_stratInterp_iff {sys : Sys N} {rk : N → Nat} (hst : Stratified sys rk) {n : N} {K : Nat}
    (h : rk n < K) : P sys (stratInterp sys rk) [] n ↔ PK sys K n := (stratInterp_iff hst n K h).2

theorem D_stratInterp_iff_DS {sys : Sys N} {rk : N → Nat} (hst : Stratified sys rk) (n : N) :
    D sys (stratInterp sys rk) [] n ↔ DS sys rk n := D_stratInterp_iff hst (Nat.lt_succ_self _)

theorem P_stratInterp_iff_PS {sys : Sys N} {rk : N → Nat} (hst : Stratified sys rk) (n : N) :
    P sys (stratInterp sys rk) [] n ↔ PS sys rk n := P_stratInterp_iff hst (Nat.lt_succ_self _)

/-- truth of an arbitrary expression under the stratified interpretation = the evaluator -/
theorem holdsD_stratInterp_iff {sys : Sys N} {rk : N → Nat} (hst : Stratified sys rk) (e : Expr N) :
    HoldsD sys (stratInterp sys rk) [] e ↔ ev leafD (DS sys rk) leafP (PS sys rk) e := by
  rw [← holds_iff_ev]
  exact ⟨Holds.mono _ _ (fun n => (D_stratInterp_iff_DS hst n).mp),
    Holds.mono _ _ (fun n => (D_stratInterp_iff_DS hst n).mpr)⟩

theorem holdsP_stratInterp_iff {sys : Sys N} {rk : N → Nat} (hst : Stratified sys rk) (e : Expr N) :
    HoldsP sys (stratInterp sys rk) [] e ↔ ev leafP (PS sys rk) leafD (DS sys rk) e := by
  rw [← holds_iff_ev]
  exact ⟨Holds.mono _ _ (fun n => (P_stratInterp_iff_PS hst n).mp),
    Holds.mono _ _ (fun n => (P_stratInterp_iff_PS hst n).mpr)⟩

/-- **(b) Existence.**  For a system without negation through recursion the stratified interpretation
is coherent — on *every* expression `s`, in particular on every subtracted operand. -/
theorem coherent_of_stratified {sys : Sys N} {rk : N → Nat} (hst : Stratified sys rk) :
    Coherent sys (stratInterp sys rk) := by
  intro s
  constructor
  · show (¬ ev leafP (PS sys rk) leafD (DS sys rk) s) ↔ _
    rw [holdsP_stratInterp_iff hst]
  · show (¬ ev leafD (DS sys rk) leafP (PS sys rk) s) ↔ _
    rw [holdsD_stratInterp_iff hst]

theorem exists_coherent {sys : Sys N} {rk : N → Nat} (hst : Stratified sys rk) :
    ∃ I : Interp N, Coherent sys I ∧ ∀ s, I.negD s → I.negP s :=
  ⟨stratInterp sys rk, coherent_of_stratified hst, consistent_stratInterp sys rk⟩

/-! ### uniqueness -/

/-- coherence restricted to a class of operands -/
def CoherentOn (sys : Sys N) (I : Interp N) (Rel : Expr N → Prop) : Prop :=
  ∀ s, Rel s → (I.negD s ↔ ¬ HoldsP sys I [] s) ∧ (I.negP s ↔ ¬ HoldsD sys I [] s)

/-- the operands that matter: subtracted operands (at any depth) of the rules -/
def RuleOperand (sys : Sys N) (s : Expr N) : Prop := ∃ n, NegOp s (sys.rule n)

theorem Coherent.on {sys : Sys N} {I : Interp N} (h : Coherent sys I) (Rel : Expr N → Prop) :
    CoherentOn sys I Rel := fun s _ => h s

/-- two interpretations that are coherent on the operands of `e` and agree on the nodes of `e`
give `e` the same truth value -/
private theorem holds_agree (sys : Sys N) (I1 I2 : Interp N) (Rel : Expr N → Prop)
    (h1 : CoherentOn sys I1 Rel) (h2 : CoherentOn sys I2 Rel) (e : Expr N) :
    (∀ z, Occurs z e → (D sys I1 [] z ↔ D sys I2 [] z) ∧ (P sys I1 [] z ↔ P sys I2 [] z)) →
    (∀ s, NegOp s e → Rel s) →
    (Holds leafD I1.negD (D sys I1 []) e ↔ Holds leafD I2.negD (D sys I2 []) e) ∧
    (Holds leafP I1.negP (P sys I1 []) e ↔ Holds leafP I2.negP (P sys I2 []) e) := by
  induction e using Expr.ind with
  | lit v => intro _ _; exact ⟨by rw [holds_lit_iff, holds_lit_iff], by rw [holds_lit_iff, holds_lit_iff]⟩
  | node d n =>
    intro hz _
    exact ⟨by rw [holds_node_iff, holds_node_iff]; exact (hz n .node).1,
      by rw [holds_node_iff, holds_node_iff]; exact (hz n .node).2⟩
  | or es ih =>
    intro hz hr
    have key := fun e (hm : e ∈ es) => ih e hm (fun z ho => hz z (.or hm ho)) (fun s hs => hr s (.or hm hs))
    constructor
    · rw [holds_or_iff, holds_or_iff]
      exact ⟨fun ⟨e, hm, he⟩ => ⟨e, hm, (key e hm).1.mp he⟩, fun ⟨e, hm, he⟩ => ⟨e, hm, (key e hm).1.mpr he⟩⟩
    · rw [holds_or_iff, holds_or_iff]
      exact ⟨fun ⟨e, hm, he⟩ => ⟨e, hm, (key e hm).2.mp he⟩, fun ⟨e, hm, he⟩ => ⟨e, hm, (key e hm).2.mpr he⟩⟩
  | and es ih =>
    intro hz hr
    have key := fun e (hm : e ∈ es) => ih e hm (fun z ho => hz z (.and hm ho)) (fun s hs => hr s (.and hm hs))
    constructor
    · rw [holds_and_iff, holds_and_iff]
      exact ⟨fun ha e hm => (key e hm).1.mp (ha e hm), fun ha e hm => (key e hm).1.mpr (ha e hm)⟩
    · rw [holds_and_iff, holds_and_iff]
      exact ⟨fun ha e hm => (key e hm).2.mp (ha e hm), fun ha e hm => (key e hm).2.mpr (ha e hm)⟩
  | diff b s ihb ihs =>
    intro hz hr
    have kb := ihb (fun z ho => hz z (.diffB ho)) (fun s' hs => hr s' (.diffB hs))
    have ks := ihs (fun z ho => hz z (.diffS ho)) (fun s' hs => hr s' (.diffS hs))
    have c1 := h1 s (hr s .here)
    have c2 := h2 s (hr s .here)
    have nD : I1.negD s ↔ I2.negD s := by
      rw [c1.1, c2.1]; exact ⟨fun h c => h (ks.2.mpr c), fun h c => h (ks.2.mp c)⟩
    have nP : I1.negP s ↔ I2.negP s := by
      rw [c1.2, c2.2]; exact ⟨fun h c => h (ks.1.mpr c), fun h c => h (ks.1.mp c)⟩
    constructor
    · rw [holds_diff_iff, holds_diff_iff, kb.1, nD]
    · rw [holds_diff_iff, holds_diff_iff, kb.2, nP]

/-- **(d) Uniqueness.**  Any two interpretations that are coherent on the subtracted operands of the
rules of a stratified system define the same definite and possible semantics. -/
theorem coherent_unique {sys : Sys N} {rk : N → Nat} (hst : Stratified sys rk) (I1 I2 : Interp N)
    (h1 : CoherentOn sys I1 (RuleOperand sys)) (h2 : CoherentOn sys I2 (RuleOperand sys)) :
    ∀ n, (D sys I1 [] n ↔ D sys I2 [] n) ∧ (P sys I1 [] n ↔ P sys I2 [] n) := by
  have main : ∀ r n, rk n < r → (D sys I1 [] n ↔ D sys I2 [] n) ∧ (P sys I1 [] n ↔ P sys I2 [] n) := by
    intro r
    induction r with
    | zero => intro n hn; omega
    | succ r ih =>
      intro n hn
      have ops : ∀ m, rk m ≤ rk n → ∀ s, NegOp s (sys.rule m) →
          (HoldsD sys I1 [] s ↔ HoldsD sys I2 [] s) ∧ (HoldsP sys I1 [] s ↔ HoldsP sys I2 [] s) := by
        intro m hm s hs
        refine holds_agree sys I1 I2 (RuleOperand sys) h1 h2 s ?_ ?_
        · intro z hz
          have hlt : rk z < rk m := hst.lt_of_negOp hs hz
          exact ih z (by omega)
        · intro s' hs'; exact ⟨m, hs'.trans hs⟩
      refine ⟨⟨?_, ?_⟩, ⟨?_, ?_⟩⟩
      · refine lfp_local sys rk hst.le leafD _ _ [] (rk n) ?_ n (Nat.le_refl _)
        intro m hm s hs hn
        exact (h2 s ⟨m, hs⟩).1.mpr (fun c => (h1 s ⟨m, hs⟩).1.mp hn ((ops m hm s hs).2.mpr c))
      · refine lfp_local sys rk hst.le leafD _ _ [] (rk n) ?_ n (Nat.le_refl _)
        intro m hm s hs hn
        exact (h1 s ⟨m, hs⟩).1.mpr (fun c => (h2 s ⟨m, hs⟩).1.mp hn ((ops m hm s hs).2.mp c))
      · refine lfp_local sys rk hst.le leafP _ _ [] (rk n) ?_ n (Nat.le_refl _)
        intro m hm s hs hn
        exact (h2 s ⟨m, hs⟩).2.mpr (fun c => (h1 s ⟨m, hs⟩).2.mp hn ((ops m hm s hs).1.mpr c))
      · refine lfp_local sys rk hst.le leafP _ _ [] (rk n) ?_ n (Nat.le_refl _)
        intro m hm s hs hn
        exact (h1 s ⟨m, hs⟩).2.mpr (fun c => (h2 s ⟨m, hs⟩).2.mp hn ((ops m hm s hs).1.mp c))
  intro n
  exact main (rk n + 1) n (Nat.lt_succ_self _)

/-- every coherent interpretation of a stratified system has the semantics of `stratInterp` -/
theorem coherent_eq_stratInterp {sys : Sys N} {rk : N → Nat} (hst : Stratified sys rk) (I : Interp N)
    (h : CoherentOn sys I (RuleOperand sys)) :
    ∀ n, (D sys I [] n ↔ DS sys rk n) ∧ (P sys I [] n ↔ PS sys rk n) := by
  intro n
  have u := coherent_unique hst I (stratInterp sys rk) h ((coherent_of_stratified hst).on _) n
  exact ⟨u.1.trans (D_stratInterp_iff_DS hst n), u.2.trans (P_stratInterp_iff_PS hst n)⟩

end

/-! ### the consumers, unconditionally for stratified systems -/

section
open OpenFGAVerif.Dfs
variable {N : Type} {sys : Sys N} {rk : N → Nat}

/-- `Dfs.eval_sound` without the coherence hypothesis -/
theorem eval_sound_stratified (hst : Stratified sys rk) {facts : Facts N}
    (hf : ∀ n b, facts n b → SoundFact sys (stratInterp sys rk) n b)
    {maxDepth d : Nat} {V : List N} {e : Expr N} {o : Out}
    (h : Eval sys facts maxDepth d V e o) : Sound sys (stratInterp sys rk) V e o :=
  eval_sound sys _ (coherent_of_stratified hst) hf h

/-- **Unconditional root soundness**: an untainted decision of any evaluation (any schedule, any depth
limit) of any expression is the stratified semantics. -/
theorem eval_root_sound_stratified (hst : Stratified sys rk) {maxDepth : Nat} {e : Expr N} {a c : Bool}
    (h : Eval sys noFacts maxDepth 0 [] e (.ok a c false)) :
    (a = true → HoldsD sys (stratInterp sys rk) [] e) ∧
    (a = false → ¬ HoldsP sys (stratInterp sys rk) [] e) :=
  eval_root_sound sys _ (coherent_of_stratified hst) (fun _ _ hf => hf.elim) h

theorem stored_fact_sound_stratified (hst : Stratified sys rk) {facts : Facts N}
    (hf : ∀ n b, facts n b → SoundFact sys (stratInterp sys rk) n b) {maxDepth d : Nat} {V : List N}
    {dispatch : Bool} {n : N} {a : Bool}
    (h : Eval sys facts maxDepth d V (.node dispatch n) (.ok a false false)) :
    SoundFact sys (stratInterp sys rk) n a :=
  C08.stored_fact_sound sys _ (coherent_of_stratified hst) hf h

theorem cached_decision_sound_stratified (hst : Stratified sys rk) {maxDepth : Nat} {facts : Facts N}
    (hr : C08.ReachableFacts sys maxDepth facts) {e : Expr N} {a c : Bool}
    (h : Eval sys facts maxDepth 0 [] e (.ok a c false)) :
    (a = true → HoldsD sys (stratInterp sys rk) [] e) ∧
    (a = false → ¬ HoldsP sys (stratInterp sys rk) [] e) :=
  C08.cached_decision_sound sys _ (coherent_of_stratified hst) hr h

end

section
open OpenFGAVerif.Dfs OpenFGAVerif.CheckV1

/-- C01 for a world whose rules are stratified by `rk`: no hypothesis on the interpretation is left. -/
theorem check_sound_all_schedules_stratified (w : World) (rk : Node → Nat) (hst : Stratified (sysOf w) rk)
    (maxDepth : Nat) (a c : Bool)
    (h : Eval (sysOf w) noFacts maxDepth 0 [] (rootExpr w) (.ok a c false)) :
    (a = true → C01.SemDef w (stratInterp (sysOf w) rk)) ∧
    (a = false → ¬ C01.SemPoss w (stratInterp (sysOf w) rk)) :=
  C01.check_sound_all_schedules w _ (coherent_of_stratified hst) maxDepth a c h

theorem check_sound_stratified (w : World) (rk : Node → Nat) (hst : Stratified (sysOf w) rk)
    (maxDepth fuel : Nat) (sc : Sched) (a c : Bool) (h : check w maxDepth sc fuel noCache = .ok a c false) :
    (a = true → C01.SemDef w (stratInterp (sysOf w) rk)) ∧
    (a = false → ¬ C01.SemPoss w (stratInterp (sysOf w) rk)) :=
  C01.check_sound w _ (coherent_of_stratified hst) maxDepth fuel sc a c h

/-- `C01.decisions_agree` without `Coherent` / `hcons` -/
theorem decisions_agree_stratified (w : World) (rk : Node → Nat) (hst : Stratified (sysOf w) rk)
    (d1 d2 : Nat) (a1 c1 a2 c2 : Bool)
    (h1 : Eval (sysOf w) noFacts d1 0 [] (rootExpr w) (.ok a1 c1 false))
    (h2 : Eval (sysOf w) noFacts d2 0 [] (rootExpr w) (.ok a2 c2 false)) : a1 = a2 :=
  C01.decisions_agree w _ (coherent_of_stratified hst) (consistent_stratInterp _ rk) d1 d2 a1 c1 a2 c2 h1 h2

/-- `C02.answers_schedule_independent` without `Coherent` / `hcons` -/
theorem answers_schedule_independent_stratified (w : World) (rk : Node → Nat) (hst : Stratified (sysOf w) rk)
    (d1 d2 : Nat) (a1 c1 a2 c2 : Bool)
    (h1 : Eval (sysOf w) noFacts d1 0 [] (rootExpr w) (.ok a1 c1 false))
    (h2 : Eval (sysOf w) noFacts d2 0 [] (rootExpr w) (.ok a2 c2 false)) : a1 = a2 :=
  C02.answers_schedule_independent w _ (coherent_of_stratified hst) (consistent_stratInterp _ rk)
    d1 d2 a1 c1 a2 c2 h1 h2

/-- `C08.cached_agrees_with_uncached` without `Coherent` / `hcons` -/
theorem cached_agrees_with_uncached_stratified (w : World) (rk : Node → Nat) (hst : Stratified (sysOf w) rk)
    (d1 d2 : Nat) (facts : Facts Node) (hr : C08.ReachableFacts (sysOf w) d1 facts) (a1 c1 a2 c2 : Bool)
    (h1 : Eval (sysOf w) facts d1 0 [] (rootExpr w) (.ok a1 c1 false))
    (h2 : Eval (sysOf w) noFacts d2 0 [] (rootExpr w) (.ok a2 c2 false)) : a1 = a2 :=
  C08.cached_agrees_with_uncached w _ (coherent_of_stratified hst) (consistent_stratInterp _ rk)
    d1 d2 facts hr a1 c1 a2 c2 h1 h2

end

/-! ### non-vacuity: three nodes, one exclusion -/

section
open OpenFGAVerif.Dfs

/-- `0 := 1 but not 2`, `1 := tt`, `2 := ff` -/
def exSys : Sys Nat where
  rule := fun n => match n with
    | 0 => .diff (.node true 1) (.node true 2)
    | 1 => .lit .tt
    | _ => .lit .ff

def exRk : Nat → Nat := fun n => if n = 0 then 1 else 0

theorem exSys_stratified : Stratified exSys exRk := by
  intro n m h
  match n, h with
  | 0, h =>
    cases h with
    | diffB hb =>
      cases hb
      refine ⟨by decide, fun hn => ?_⟩
      cases hn with
      | diffB hb' => cases hb'
      | diffS hs' => cases hs'
    | diffS hs =>
      cases hs
      exact ⟨by decide, fun _ => by decide⟩
  | 1, h => cases h
  | n + 2, h => cases h

theorem exSys_eval : Eval exSys noFacts 25 0 [] (.node false 0) (.ok true false false) := by
  refine .node_eval false 0 _ (by decide) (by simp) ?_
  show Eval exSys noFacts 25 0 [0] (.diff (.node true 1) (.node true 2))
    (exclR true (.ok true false false) (.ok false false false))
  refine .diff _ _ _ _ true ?_ ?_
  · exact .node_eval true 1 _ (by decide) (by simp) (.lit .tt)
  · exact .node_eval true 2 _ (by decide) (by simp) (.lit .ff)

/-- the evaluated consequence: node 0 definitely holds in the stratified semantics … -/
theorem exSys_D0 : D exSys (stratInterp exSys exRk) [] 0 := by
  have h := (eval_root_sound_stratified exSys_stratified exSys_eval).1 rfl
  exact holds_node_iff.mp h

/-- … and node 2 does not even possibly hold -/
theorem exSys_notP2 : ¬ P exSys (stratInterp exSys exRk) [] 2 := by
  have e : Eval exSys noFacts 25 0 [] (.node false 2) (.ok false false false) :=
    .node_eval false 2 _ (by decide) (by simp) (.lit .ff)
  have h := (eval_root_sound_stratified exSys_stratified e).2 rfl
  exact fun hp => h (.node hp)

/-- the exclusion is really consulted: the oracle of the subtracted operand is "definitely not" -/
theorem exSys_negD2 : (stratInterp exSys exRk).negD (.node true 2) :=
  ((coherent_of_stratified exSys_stratified (.node true 2)).1).mpr (fun h => exSys_notP2 (holds_node_iff.mp h))

end

end OpenFGAVerif.BoolSys
