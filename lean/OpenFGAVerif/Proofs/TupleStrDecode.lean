/-
C29, part 1 of the proofs: the UTF-8 decoder of `for … range s` seen through the only lens the validity
predicates of pkg/tuple use — "is it a control character / which ASCII byte is it / anything else".

`run_runes`: for every state machine that rejects control characters and treats "anything else" in an
idempotent way, running it over the decoded runes of `s` equals running it over the *byte-level*
token list `btoks s` (no decoder: one token per byte).  The proof is by induction over all byte
strings, with the decoder's skip counter generalised.
-/
import OpenFGAVerif.Model.TupleStr
import OpenFGAVerif.Spec.TupleStr

namespace OpenFGAVerif.Proofs.TupleStr
open OpenFGAVerif.Model.TupleStr OpenFGAVerif.Spec.TupleStr

/-- what the validity loops can observe of a rune -/
inductive Tok where
  | ctl
  | asc (n : Nat)
  | oth
  deriving DecidableEq, Repr

def tokOfRune (r : Nat) : Tok :=
  if isControl r then .ctl else if r < 0x80 then .asc r else .oth

/-- the token a byte stands for, given the bytes after it — no decoding -/
def headTok (b : UInt8) (t : Bytes) : Tok :=
  if b < 0x80 then (if asciiCtl b then .ctl else .asc b.toNat)
  else if b == 0xC2 && startsC1 t then .ctl
  else .oth

def btoks : Bytes → List Tok
  | [] => []
  | b :: t => headTok b t :: btoks t

/-! ### the decoder, one step -/

theorem isCont_iff (b : UInt8) : isCont b = true ↔ 128 ≤ b.toNat ∧ b.toNat ≤ 191 := by
  simp [isCont, UInt8.le_iff_toNat_le]

theorem startsC1_cons (x : UInt8) (t : Bytes) : startsC1 (x :: t) = true ↔ 128 ≤ x.toNat ∧ x.toNat ≤ 159 := by
  simp [startsC1, UInt8.le_iff_toNat_le]

theorem isControl_iff (r : Nat) : isControl r = true ↔ r < 32 ∨ (127 ≤ r ∧ r ≤ 159) := by
  simp [isControl]

/-- ASCII fast path. -/
theorem decodeRune_ascii (b : UInt8) (t : Bytes) (h : b < 0x80) : decodeRune b t = (b.toNat, 1) := by
  simp [decodeRune, h]

/-- Everything the proofs need to know about a non-ASCII lead byte: the rune is ≥ 0x80, the width is
1–4 and fits, the bytes passed over are continuation bytes, and the rune is a control character exactly
for `C2 80..9F`. -/
theorem decodeRune_nonascii (b : UInt8) (t : Bytes) (h : ¬ b < 0x80) :
    128 ≤ (decodeRune b t).1 ∧ 1 ≤ (decodeRune b t).2 ∧ (decodeRune b t).2 - 1 ≤ t.length ∧
    (∀ x ∈ t.take ((decodeRune b t).2 - 1), isCont x = true) ∧
    (isControl (decodeRune b t).1 = (b == 0xC2 && startsC1 t)) := by
  have hb : 128 ≤ b.toNat := by
    simp [UInt8.lt_iff_toNat_lt] at h; omega
  have hb2 := b.toNat_lt
  have fffd : isControl runeError = false := by decide
  -- result shape for the error case
  have errCase : (b == 0xC2 && startsC1 t) = false →
      128 ≤ (runeError, 1).1 ∧ 1 ≤ ((runeError, 1) : Nat × Nat).2 ∧ ((runeError, 1) : Nat × Nat).2 - 1 ≤ t.length ∧
      (∀ x ∈ t.take (((runeError, 1) : Nat × Nat).2 - 1), isCont x = true) ∧
      (isControl ((runeError, 1) : Nat × Nat).1 = (b == 0xC2 && startsC1 t)) := by
    intro hc
    refine ⟨by decide, by decide, by simp, by simp, ?_⟩
    rw [hc]; exact fffd
  unfold decodeRune
  rw [if_neg h]
  split
  · -- two-byte lead
    rename_i h2
    have h2' : 192 ≤ b.toNat ∧ b.toNat < 224 := by
      simp [UInt8.lt_iff_toNat_lt, UInt8.le_iff_toNat_le] at h2; omega
    match t with
    | [] =>
      apply errCase; simp [startsC1]
    | b1 :: t' =>
      simp only
      by_cases hc : isCont b1 = true
      · rw [if_pos hc]
        have hc' := (isCont_iff b1).mp hc
        by_cases hr : 0x7F < (b.toNat % 32) * 64 + b1.toNat % 64
        · simp only [hr, if_true]
          refine ⟨by omega, by omega, by simp, by simpa using hc, ?_⟩
          -- control ⇔ b = C2 ∧ b1 ∈ 80..9F
          rw [Bool.eq_iff_iff, isControl_iff, Bool.and_eq_true, startsC1_cons, beq_iff_eq, ← UInt8.toNat_inj]
          simp only [UInt8.toNat_ofNat]
          omega
        · simp only [hr, if_false]
          apply errCase
          rw [Bool.eq_false_iff]; intro hh
          rw [Bool.and_eq_true, beq_iff_eq, ← UInt8.toNat_inj] at hh
          simp only [UInt8.toNat_ofNat] at hh
          omega
      · rw [if_neg hc]
        apply errCase
        rw [Bool.eq_false_iff]; intro hh
        rw [Bool.and_eq_true, startsC1_cons] at hh
        apply hc; rw [isCont_iff]; omega
  · rename_i h2
    have hnc2 : (b == 0xC2 && startsC1 t) = false := by
      rw [Bool.eq_false_iff]; intro hh
      rw [Bool.and_eq_true, beq_iff_eq] at hh
      apply h2; rw [hh.1]; decide
    split
    · -- three-byte lead
      match t with
      | [] => exact errCase hnc2
      | [_] => exact errCase hnc2
      | b1 :: b2 :: t' =>
        simp only
        by_cases hc : (isCont b1 && isCont b2) = true
        · rw [if_pos hc]
          rw [Bool.and_eq_true] at hc
          split
          · rename_i hr
            simp only [Bool.and_eq_true, decide_eq_true_eq] at hr
            refine ⟨by simp only; omega, by simp, by simp, ?_, ?_⟩
            · intro x hx; simp at hx; rcases hx with rfl | rfl
              · exact hc.1
              · exact hc.2
            · rw [hnc2, Bool.eq_false_iff]; intro hh; rw [isControl_iff] at hh; simp only at hh; omega
          · exact errCase hnc2
        · rw [if_neg hc]; exact errCase hnc2
    · split
      · -- four-byte lead
        match t with
        | [] => exact errCase hnc2
        | [_] => exact errCase hnc2
        | [_, _] => exact errCase hnc2
        | b1 :: b2 :: b3 :: t' =>
          simp only
          by_cases hc : (isCont b1 && isCont b2 && isCont b3) = true
          · rw [if_pos hc]
            simp only [Bool.and_eq_true] at hc
            split
            · rename_i hr
              simp only [Bool.and_eq_true, decide_eq_true_eq] at hr
              refine ⟨by simp only; omega, by simp, by simp, ?_, ?_⟩
              · intro x hx; simp at hx; rcases hx with rfl | rfl | rfl
                · exact hc.1.1
                · exact hc.1.2
                · exact hc.2
              · rw [hnc2, Bool.eq_false_iff]; intro hh; rw [isControl_iff] at hh; simp only at hh; omega
            · exact errCase hnc2
          · rw [if_neg hc]; exact errCase hnc2
      · exact errCase hnc2

/-! ### state machines over tokens -/

/-- A loop body seen as a state machine: `step state first tok` (`none` = `return false`), `fin` = the
final `return`.  `first` is true only for the rune at byte offset 0. -/
structure Mach (σ : Type) where
  step : σ → Bool → Tok → Option σ
  fin : σ → Bool

def Mach.run {σ : Type} (m : Mach σ) : σ → Bool → List Tok → Bool
  | s, _, [] => m.fin s
  | s, f, t :: ts =>
    match m.step s f t with
    | none => false
    | some s' => m.run s' false ts

/-- control characters are rejected; "anything else" is accepted, and a second "anything else"
directly after it changes nothing. -/
structure Mach.WB {σ : Type} (m : Mach σ) : Prop where
  ctl : ∀ s f, m.step s f .ctl = none
  oth : ∀ s f, ∃ s', m.step s f .oth = some s' ∧ m.step s' false .oth = some s'

def runeToks (rs : List (Nat × Nat)) : List Tok := rs.map (fun p => tokOfRune p.2)

theorem tokOfRune_ascii (b : UInt8) (t : Bytes) (h : b < 0x80) : tokOfRune b.toNat = headTok b t := by
  have hb : b.toNat < 128 := by simpa [UInt8.lt_iff_toNat_lt] using h
  unfold tokOfRune headTok
  rw [if_pos h]
  have e : isControl b.toNat = asciiCtl b := by
    rw [Bool.eq_iff_iff, isControl_iff]
    simp [asciiCtl, UInt8.lt_iff_toNat_lt, ← UInt8.toNat_inj]
    omega
  rw [e]
  by_cases hc : asciiCtl b = true
  · simp [hc]
  · simp [hc, hb]

theorem headTok_cont (b : UInt8) (t : Bytes) (h : isCont b = true) : headTok b t = .oth := by
  have hb := (isCont_iff b).mp h
  unfold headTok
  have h1 : ¬ b < 0x80 := by simp [UInt8.lt_iff_toNat_lt]; omega
  have h2 : (b == 0xC2) = false := by
    rw [Bool.eq_false_iff]; intro hh; rw [beq_iff_eq, ← UInt8.toNat_inj] at hh; simp at hh; omega
  simp [h1, h2]

/-- **Decoder elimination.**  For a well-behaved machine, running over the runes that `range s`
yields (from any offset `k`, with `skip` bytes still to pass over) equals running over the byte-level
tokens of `s`. -/
theorem run_runesAux {σ : Type} (m : Mach σ) (wb : m.WB) (s : Bytes) :
    ∀ (skip : Nat) (st : σ) (f : Bool) (k : Nat),
      skip ≤ s.length → (∀ x ∈ s.take skip, isCont x = true) →
      (0 < skip → f = false ∧ m.step st false .oth = some st) →
      m.run st f (runeToks (runesAux k skip s)) = m.run st f (btoks s) := by
  induction s with
  | nil => intro skip st f k _ _ _; simp [runesAux, runeToks, btoks]
  | cons b t ih =>
    intro skip st f k hlen hcont hfix
    match skip with
    | skip + 1 =>
      -- a byte passed over: it is a continuation byte, its token is "anything else", the state is a fixpoint
      obtain ⟨hf, hst⟩ := hfix (by omega)
      have hb : isCont b = true := hcont b (by simp)
      have hrest : ∀ x ∈ t.take skip, isCont x = true := fun x hx => hcont x (by simp [hx])
      subst hf
      have e1 : runesAux k (skip + 1) (b :: t) = runesAux (k + 1) skip t := by simp [runesAux]
      rw [e1]
      have e2 : m.run st false (btoks (b :: t)) = m.run st false (btoks t) := by
        simp [btoks, headTok_cont b t hb, Mach.run, hst]
      rw [e2]
      exact ih skip st false (k + 1) (by simpa using hlen) hrest (fun _ => ⟨rfl, hst⟩)
    | 0 =>
      have e1 : runesAux k 0 (b :: t) =
          (k, (decodeRune b t).1) :: runesAux (k + 1) ((decodeRune b t).2 - 1) t := by simp [runesAux]
      rw [e1]
      by_cases hlt : b < 0x80
      · -- ASCII byte
        rw [decodeRune_ascii b t hlt]
        simp only [runeToks, List.map_cons, btoks, tokOfRune_ascii b t hlt, Mach.run]
        cases hs : m.step st f (headTok b t) with
        | none => rfl
        | some st' =>
          exact ih 0 st' false (k + 1) (by simp) (by simp) (fun h => absurd h (by omega))
      · obtain ⟨hr, hw1, hw2, hc, hctl⟩ := decodeRune_nonascii b t hlt
        by_cases hcc : (b == 0xC2 && startsC1 t) = true
        · -- C2 80..9F: a control character on both sides
          have ht1 : tokOfRune (decodeRune b t).1 = .ctl := by
            simp [tokOfRune, hctl, hcc]
          have ht2 : headTok b t = .ctl := by simp [headTok, hlt, hcc]
          simp [runeToks, btoks, ht1, ht2, Mach.run, wb.ctl]
        · -- any other lead byte: "anything else", then the continuation bytes are passed over
          have hcc' : (b == 0xC2 && startsC1 t) = false := by simpa using hcc
          have ht1 : tokOfRune (decodeRune b t).1 = .oth := by
            have : ¬ (decodeRune b t).1 < 128 := by omega
            simp [tokOfRune, hctl, hcc', this]
          have ht2 : headTok b t = .oth := by simp [headTok, hlt, hcc']
          simp only [runeToks, List.map_cons, btoks, ht1, ht2, Mach.run]
          obtain ⟨st', hs1, hs2⟩ := wb.oth st f
          rw [hs1]
          exact ih ((decodeRune b t).2 - 1) st' false (k + 1) hw2 hc (fun _ => ⟨rfl, hs2⟩)

theorem run_runes {σ : Type} (m : Mach σ) (wb : m.WB) (s : Bytes) (st : σ) (f : Bool) :
    m.run st f (runeToks (runes s)) = m.run st f (btoks s) :=
  run_runesAux m wb s 0 st f 0 (by simp) (by simp) (fun h => absurd h (by omega))

/-! ### byte offsets: only the first rune has `ndx == 0` -/

theorem runesAux_idx (s : Bytes) : ∀ (k skip : Nat), ∀ p ∈ runesAux k skip s, k ≤ p.1 := by
  induction s with
  | nil => intro k skip p hp; simp [runesAux] at hp
  | cons b t ih =>
    intro k skip p hp
    match skip with
    | 0 =>
      simp only [runesAux, List.mem_cons] at hp
      rcases hp with rfl | hp
      · exact Nat.le_refl _
      · have := ih (k + 1) _ p hp; omega
    | skip + 1 =>
      simp only [runesAux] at hp
      have := ih (k + 1) _ p hp; omega

/-- `runes` of a non-empty string: the first rune has offset 0, all later ones a non-zero offset. -/
theorem runes_cons (b : UInt8) (t : Bytes) :
    ∃ rest, runes (b :: t) = (0, (decodeRune b t).1) :: rest ∧ ∀ p ∈ rest, p.1 ≠ 0 := by
  refine ⟨runesAux 1 ((decodeRune b t).2 - 1) t, by simp [runes, runesAux], ?_⟩
  intro p hp
  have := runesAux_idx t 1 _ p hp
  omega

end OpenFGAVerif.Proofs.TupleStr
