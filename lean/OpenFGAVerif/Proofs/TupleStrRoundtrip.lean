/-
C29, part 3 of the proofs: byte-level facts about the split / build functions, the executable grammar
versus the declarative one, and the raw round-trip lemmas with their exact preconditions.
-/
import OpenFGAVerif.Proofs.TupleStrValid

namespace OpenFGAVerif.Proofs.TupleStr
open OpenFGAVerif.Model.TupleStr OpenFGAVerif.Spec.TupleStr

/-! ### executable grammar ↔ declarative grammar -/

theorem isEmpty_false_iff (l : Bytes) : (!l.isEmpty) = true ↔ l ≠ [] := by cases l <;> simp

theorem grammarObjectB_iff (s : Bytes) : grammarObjectB s = true ↔ GrammarObject s := by
  unfold grammarObjectB GrammarObject
  constructor
  · intro h
    cases hs : splitFirst 58 s with
    | none => rw [hs] at h; simp at h
    | some ti =>
      obtain ⟨t, i⟩ := ti
      rw [hs] at h
      obtain ⟨e, _⟩ := splitFirst_some 58 s t i hs
      simp only [Bool.and_eq_true, decide_eq_true_eq] at h
      exact ⟨t, i, e, h.1.1.1, h.1.1.2, h.1.2, h.2⟩
  · rintro ⟨t, i, e, ht, hi, pt, pi⟩
    have : (58 : UInt8) ∉ t := plain_not_mem exObject t pt 58 (by decide)
    rw [e, splitFirst_append 58 t i this]
    simp [ht, hi, pt, pi]

theorem grammarRelationB_iff (s : Bytes) : grammarRelationB s = true ↔ GrammarRelation s := by
  simp [grammarRelationB, GrammarRelation]

theorem grammarUserIDB_iff (s : Bytes) : grammarUserIDB s = true ↔ GrammarUserID s := by
  simp [grammarUserIDB, GrammarUserID]

theorem grammarUsersetB_iff (s : Bytes) : grammarUsersetB s = true ↔ GrammarUserset s := by
  unfold grammarUsersetB GrammarUserset
  constructor
  · intro h
    cases hs : splitFirst 58 s with
    | none => rw [hs] at h; simp at h
    | some tr =>
      obtain ⟨t, rest⟩ := tr
      rw [hs] at h
      dsimp only at h
      cases hs2 : splitFirst 35 rest with
      | none => rw [hs2] at h; simp at h
      | some ir =>
        obtain ⟨i, r⟩ := ir
        rw [hs2] at h
        obtain ⟨e, _⟩ := splitFirst_some 58 s t rest hs
        obtain ⟨e2, _⟩ := splitFirst_some 35 rest i r hs2
        simp only [Bool.and_eq_true, decide_eq_true_eq] at h
        exact ⟨t, i, r, by rw [e, e2], h.1.1.1.1.1, h.1.1.1.1.2, h.1.1.1.2, h.1.1.2, h.1.2, h.2⟩
  · rintro ⟨t, i, r, e, ht, hi, hr, pt, pi, pr⟩
    have h1 : (58 : UInt8) ∉ t := plain_not_mem exObject t pt 58 (by decide)
    have h2 : (35 : UInt8) ∉ i := plain_not_mem exUsersetTail i pi 35 (by decide)
    rw [e, splitFirst_append 58 t _ h1]
    dsimp only
    rw [splitFirst_append 35 i r h2]
    simp [ht, hi, hr, pt, pi, pr]

theorem grammarUserB_iff (s : Bytes) : grammarUserB s = true ↔ GrammarUser s := by
  unfold grammarUserB GrammarUser
  rw [Bool.or_eq_true, Bool.or_eq_true, Bool.or_eq_true, grammarUserIDB_iff, grammarObjectB_iff,
    grammarUsersetB_iff, beq_iff_eq]
  constructor
  · rintro (((h | h) | h) | h)
    · exact Or.inl h
    · exact Or.inr (Or.inl h)
    · exact Or.inr (Or.inr (Or.inl h))
    · exact Or.inr (Or.inr (Or.inr h))
  · rintro (h | h | h | h)
    · exact Or.inl (Or.inl (Or.inl h))
    · exact Or.inl (Or.inl (Or.inr h))
    · exact Or.inl (Or.inr h)
    · exact Or.inr h

/-! ### IndexByte / LastIndexByte -/

theorem indexByte_append (c : UInt8) (l r : Bytes) (h : c ∉ l) : indexByte c (l ++ c :: r) = some l.length := by
  induction l with
  | nil => simp [indexByte]
  | cons x xs ih =>
    have hx : x ≠ c := fun e => h (by simp [e])
    have hxs : c ∉ xs := fun m => h (by simp [m])
    simp [indexByte, hx, ih hxs]

theorem indexByte_none (c : UInt8) (s : Bytes) (h : c ∉ s) : indexByte c s = none := by
  induction s with
  | nil => rfl
  | cons x xs ih =>
    have hx : x ≠ c := fun e => h (by simp [e])
    have hxs : c ∉ xs := fun m => h (by simp [m])
    simp [indexByte, hx, ih hxs]

/-- every string either has no `c` or splits at its first `c` -/
theorem first_split (c : UInt8) (s : Bytes) : c ∉ s ∨ ∃ l r, s = l ++ c :: r ∧ c ∉ l := by
  cases hs : splitFirst c s with
  | none => exact Or.inl (splitFirst_none c s hs)
  | some lr => obtain ⟨l, r⟩ := lr; exact Or.inr ⟨l, r, splitFirst_some c s l r hs⟩

/-- every string either has no `c` or splits at its last `c` -/
theorem last_split (c : UInt8) (s : Bytes) : c ∉ s ∨ ∃ l r, s = l ++ c :: r ∧ c ∉ r := by
  induction s with
  | nil => left; simp
  | cons x xs ih =>
    rcases ih with h | ⟨l, r, e, hr⟩
    · by_cases hx : x = c
      · right; exact ⟨[], xs, by simp [hx], h⟩
      · left; intro m; rcases List.mem_cons.mp m with m | m
        · exact hx m.symm
        · exact h m
    · right; exact ⟨x :: l, r, by simp [e], hr⟩

theorem lastIndexByte_none (c : UInt8) (s : Bytes) (h : c ∉ s) : lastIndexByte c s = none := by
  induction s with
  | nil => rfl
  | cons x xs ih =>
    have hx : x ≠ c := fun e => h (by simp [e])
    have hxs : c ∉ xs := fun m => h (by simp [m])
    simp [lastIndexByte, hx, ih hxs]

theorem lastIndexByte_append (c : UInt8) (l r : Bytes) (h : c ∉ r) :
    lastIndexByte c (l ++ c :: r) = some l.length := by
  induction l with
  | nil => simp [lastIndexByte, lastIndexByte_none c r h]
  | cons x xs ih => simp [lastIndexByte, ih]

theorem cut_append (c : UInt8) (l r : Bytes) (h : c ∉ l) : cut c (l ++ c :: r) = some (l, r) := by
  simp [cut, indexByte_append c l r h]

theorem cut_none (c : UInt8) (s : Bytes) (h : c ∉ s) : cut c s = none := by
  simp [cut, indexByte_none c s h]

theorem cut_some (c : UInt8) (s l r : Bytes) (h : cut c s = some (l, r)) : s = l ++ c :: r ∧ c ∉ l := by
  rcases first_split c s with hn | ⟨l', r', e, hl⟩
  · rw [cut_none c s hn] at h; simp at h
  · rw [e, cut_append c l' r' hl] at h
    simp at h; obtain ⟨rfl, rfl⟩ := h
    exact ⟨e, hl⟩

/-! ### SplitObject / BuildObject -/

theorem splitObject_append (l r : Bytes) (h : (58 : UInt8) ∉ l) : splitObject (l ++ 58 :: r) = (l, r) := by
  simp [splitObject, cColon, indexByte_append 58 l r h]

theorem splitObject_no_colon (s : Bytes) (h : (58 : UInt8) ∉ s) : splitObject s = ([], s) := by
  simp [splitObject, cColon, indexByte_none 58 s h]

theorem buildObject_eq (t i : Bytes) : buildObject t i = t ++ 58 :: i := by simp [buildObject, cColon]

/-- `SplitObject ∘ BuildObject = id` exactly when the type has no ':' (the id may contain anything). -/
theorem splitObject_buildObject (t i : Bytes) (h : (58 : UInt8) ∉ t) : splitObject (buildObject t i) = (t, i) := by
  rw [buildObject_eq, splitObject_append t i h]

/-- `BuildObject ∘ SplitObject = id` exactly when there is a ':' at all. -/
theorem buildObject_splitObject (s : Bytes) (h : (58 : UInt8) ∈ s) :
    buildObject (splitObject s).1 (splitObject s).2 = s := by
  rcases first_split 58 s with hn | ⟨l, r, e, hl⟩
  · exact absurd h hn
  · rw [e, splitObject_append l r hl, buildObject_eq]

/-! ### SplitObjectRelation / ToObjectRelationString / GetObjectRelationAsString -/

theorem splitObjectRelation_append (l r : Bytes) (h : (35 : UInt8) ∉ r) :
    splitObjectRelation (l ++ 35 :: r) = (l, r) := by
  unfold splitObjectRelation
  rw [show cHash = (35 : UInt8) from rfl, lastIndexByte_append 35 l r h]
  cases r with
  | nil => simp
  | cons y ys =>
    have : ¬ l.length = (l ++ 35 :: y :: ys).length - 1 := by simp
    dsimp only; rw [if_neg this]; simp

theorem splitObjectRelation_no_hash (s : Bytes) (h : (35 : UInt8) ∉ s) : splitObjectRelation s = (s, []) := by
  unfold splitObjectRelation
  rw [show cHash = (35 : UInt8) from rfl, lastIndexByte_none 35 s h]

theorem toObjectRelationString_eq (o r : Bytes) : toObjectRelationString o r = o ++ 35 :: r := by
  simp [toObjectRelationString, cHash]

/-- `SplitObjectRelation ∘ ToObjectRelationString = id` exactly when the relation has no '#'
(the object may contain anything, the relation may be empty). -/
theorem splitObjectRelation_toString (o r : Bytes) (h : (35 : UInt8) ∉ r) :
    splitObjectRelation (toObjectRelationString o r) = (o, r) := by
  rw [toObjectRelationString_eq, splitObjectRelation_append o r h]

theorem splitObjectRelation_getString (o r : Bytes) (h : (35 : UInt8) ∉ r) (ho : r = [] → (35 : UInt8) ∉ o) :
    splitObjectRelation (getObjectRelationAsString o r) = (o, r) := by
  unfold getObjectRelationAsString
  by_cases hr : r = []
  · subst hr; simp [splitObjectRelation_no_hash o (ho rfl)]
  · rw [if_pos hr, show o ++ [cHash] ++ r = o ++ 35 :: r by simp [cHash], splitObjectRelation_append o r h]

/-- the string → pair → string direction: lossless unless the string ends in '#'. -/
theorem getString_splitObjectRelation (s : Bytes) (h : s.getLast? ≠ some 35) :
    getObjectRelationAsString (splitObjectRelation s).1 (splitObjectRelation s).2 = s := by
  rcases last_split 35 s with hn | ⟨l, r, e, hr⟩
  · rw [splitObjectRelation_no_hash s hn]; simp [getObjectRelationAsString]
  · rw [e, splitObjectRelation_append l r hr]
    have : r ≠ [] := by
      intro hr'; subst hr'; apply h; rw [e]; simp
    simp [getObjectRelationAsString, this, cHash]

theorem toString_splitObjectRelation (s : Bytes) (h : (splitObjectRelation s).2 ≠ []) :
    toObjectRelationString (splitObjectRelation s).1 (splitObjectRelation s).2 = s := by
  rcases last_split 35 s with hn | ⟨l, r, e, hr⟩
  · rw [splitObjectRelation_no_hash s hn] at h; exact absurd rfl h
  · rw [e, splitObjectRelation_append l r hr, toObjectRelationString_eq]

end OpenFGAVerif.Proofs.TupleStr
