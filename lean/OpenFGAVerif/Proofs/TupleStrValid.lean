/-
C29, part 2 of the proofs: each validity predicate of pkg/tuple equals the byte-level grammar of
`Spec.TupleStr`, for every byte string.

Per predicate: (A) the Go loop (Nat counters, byte offsets) is a run of a small token machine over the
decoded runes; (B) the machine is well-behaved, so `run_runes` removes the decoder; (C) the run over
byte-level tokens equals the executable grammar (`grammar…B`), by induction over the bytes.
-/
import OpenFGAVerif.Proofs.TupleStrDecode

namespace OpenFGAVerif.Proofs.TupleStr
open OpenFGAVerif.Model.TupleStr OpenFGAVerif.Spec.TupleStr

/-! ### helpers -/

/-- the loop is at the first rune (`ndx == 0`) exactly when `f` -/
def IdxOK (f : Bool) : List (Nat × Nat) → Prop
  | [] => True
  | p :: rest => ((p.1 == 0) = f) ∧ ∀ q ∈ rest, q.1 ≠ 0

theorem idxOK_false {rs : List (Nat × Nat)} (h : ∀ q ∈ rs, q.1 ≠ 0) : IdxOK false rs := by
  cases rs with
  | nil => trivial
  | cons p rest =>
    refine ⟨?_, fun q hq => h q (by simp [hq])⟩
    have := h p (by simp)
    simp [this]

theorem idxOK_runes (s : Bytes) : IdxOK true (runes s) := by
  cases s with
  | nil => simp [runes, runesAux, IdxOK]
  | cons b t =>
    obtain ⟨rest, e, h⟩ := runes_cons b t
    rw [e]; exact ⟨by simp, h⟩

theorem startsC1_append (l : Bytes) (c : UInt8) (r : Bytes) (hc : c < 0x80) :
    startsC1 (l ++ c :: r) = startsC1 l := by
  cases l with
  | nil =>
    have : c.toNat < 128 := by simpa [UInt8.lt_iff_toNat_lt] using hc
    simp [startsC1, UInt8.le_iff_toNat_le]; omega
  | cons x l' => simp [startsC1]

theorem okHead_append (excl : List UInt8) (b : UInt8) (l : Bytes) (c : UInt8) (r : Bytes) (hc : c < 0x80) :
    okHead excl b (l ++ c :: r) = okHead excl b l := by
  simp [okHead, startsC1_append l c r hc]

theorem plain_append (excl : List UInt8) (l : Bytes) (c : UInt8) (r : Bytes) (hc : c < 0x80) :
    plain excl (l ++ c :: r) = (plain excl l && plain excl (c :: r)) := by
  induction l with
  | nil => simp [plain]
  | cons x l' ih =>
    simp only [List.cons_append, plain, ih, okHead_append excl x l' c r hc, Bool.and_assoc]

theorem plain_not_mem (excl : List UInt8) (s : Bytes) (h : plain excl s = true) :
    ∀ e ∈ excl, e ∉ s := by
  induction s with
  | nil => simp
  | cons b t ih =>
    simp only [plain, Bool.and_eq_true] at h
    intro e he hm
    rcases List.mem_cons.mp hm with rfl | hm
    · have := h.1; simp [okHead, he] at this
    · exact ih h.2 e he hm

theorem splitFirst_some (c : UInt8) (s l r : Bytes) (h : splitFirst c s = some (l, r)) :
    s = l ++ c :: r ∧ c ∉ l := by
  induction s generalizing l with
  | nil => simp [splitFirst] at h
  | cons x xs ih =>
    unfold splitFirst at h
    split at h
    · rename_i hx; simp at h; obtain ⟨rfl, rfl⟩ := h; simp [hx]
    · rename_i hx
      split at h
      · simp at h
      · rename_i l' r' hc
        simp at h; obtain ⟨rfl, rfl⟩ := h
        obtain ⟨h1, h2⟩ := ih l' hc
        refine ⟨by simp [h1], ?_⟩
        intro m; rcases List.mem_cons.mp m with m | m
        · exact hx m.symm
        · exact h2 m

theorem splitFirst_append (c : UInt8) (l r : Bytes) (h : c ∉ l) : splitFirst c (l ++ c :: r) = some (l, r) := by
  induction l with
  | nil => simp [splitFirst]
  | cons x xs ih =>
    have hx : x ≠ c := fun e => h (by simp [e])
    have hxs : c ∉ xs := fun m => h (by simp [m])
    simp [splitFirst, hx, ih hxs]

theorem splitFirst_none (c : UInt8) (s : Bytes) (h : splitFirst c s = none) : c ∉ s := by
  induction s with
  | nil => simp
  | cons x xs ih =>
    unfold splitFirst at h
    split at h
    · simp at h
    · rename_i hx
      split at h
      · rename_i hn
        intro m; rcases List.mem_cons.mp m with m | m
        · exact hx m.symm
        · exact ih hn m
      · simp at h

/-- The three things a byte can be, each with what it means for `okHead`. -/
theorem headTok_cases (b : UInt8) (t : Bytes) :
    (headTok b t = .ctl ∧ ∀ excl, okHead excl b t = false) ∨
    (headTok b t = .asc b.toNat ∧ b.toNat < 128 ∧ ∀ excl, okHead excl b t = !excl.contains b) ∨
    (headTok b t = .oth ∧ 128 ≤ b.toNat ∧ ∀ excl, (∀ e ∈ excl, e.toNat < 128) → okHead excl b t = true) := by
  unfold headTok
  by_cases h : b < 0x80
  · have hb : b.toNat < 128 := by simpa [UInt8.lt_iff_toNat_lt] using h
    have hc2 : (b == 0xC2) = false := by
      rw [Bool.eq_false_iff]; intro hh; rw [beq_iff_eq, ← UInt8.toNat_inj] at hh; simp at hh; omega
    by_cases hc : asciiCtl b = true
    · left; simp [h, hc, okHead]
    · right; left
      have hc' : asciiCtl b = false := by simpa using hc
      simp [h, hc', okHead, hc2, hb]
  · have hb : 128 ≤ b.toNat := by simp [UInt8.lt_iff_toNat_lt] at h; omega
    have hna : asciiCtl b = false := by
      rw [Bool.eq_false_iff]; intro hh
      simp [asciiCtl, UInt8.lt_iff_toNat_lt, ← UInt8.toNat_inj] at hh; omega
    by_cases hcc : (b == 0xC2 && startsC1 t) = true
    · left; simp [h, hcc, okHead]
    · right; right
      have hcc' : (b == 0xC2 && startsC1 t) = false := by simpa using hcc
      refine ⟨by simp [h, hcc'], hb, ?_⟩
      intro excl hex
      have : excl.contains b = false := by
        rw [Bool.eq_false_iff]; intro hm
        have := hex b (by simpa using hm); omega
      unfold okHead; rw [this, hna, hcc']; rfl

theorem eq58 (b : UInt8) : b.toNat = 58 ↔ b = 58 := by simp [← UInt8.toNat_inj]
theorem eq35 (b : UInt8) : b.toNat = 35 ↔ b = 35 := by simp [← UInt8.toNat_inj]
theorem eq32 (b : UInt8) : b.toNat = 32 ↔ b = 32 := by simp [← UInt8.toNat_inj]
theorem eq42 (b : UInt8) : b.toNat = 42 ↔ b = 42 := by simp [← UInt8.toNat_inj]
theorem eq64 (b : UInt8) : b.toNat = 64 ↔ b = 64 := by simp [← UInt8.toNat_inj]

theorem exObject_ascii : ∀ e ∈ exObject, e.toNat < 128 := by decide
theorem exRelation_ascii : ∀ e ∈ exRelation, e.toNat < 128 := by decide
theorem exUserID_ascii : ∀ e ∈ exUserID, e.toNat < 128 := by decide
theorem exUsersetTail_ascii : ∀ e ∈ exUsersetTail, e.toNat < 128 := by decide

/-! ### IsValidObject -/

theorem run_nil {σ : Type} (m : Mach σ) (s : σ) (f : Bool) : m.run s f [] = m.fin s := rfl
theorem run_cons {σ : Type} (m : Mach σ) (s : σ) (f : Bool) (t : Tok) (ts : List Tok) :
    m.run s f (t :: ts) = (match m.step s f t with | none => false | some s' => m.run s' false ts) := rfl

theorem mem_exObject (b : UInt8) : exObject.contains b = true ↔ b = 58 ∨ b = 35 ∨ b = 32 := by simp [exObject]
theorem mem_objectReject (n : Nat) : objectReject.contains n = true ↔ n = 35 ∨ n = 32 := by simp [objectReject]

def objStep (st : Nat) (pos f : Bool) : Tok → Option (Nat × Bool)
  | .ctl => none
  | .asc n =>
    if objectReject.contains n then none
    else if n = 58 then (if st > 0 || f then none else some (1, pos))
    else some (st, pos || decide (st > 0))
  | .oth => some (st, pos || decide (st > 0))

def objM : Mach (Nat × Bool) where
  step := fun s f tok => objStep s.1 s.2 f tok
  fin := fun s => s.2

theorem objStep_ctl (st : Nat) (pos f : Bool) : objStep st pos f .ctl = none := rfl
theorem objStep_oth (st : Nat) (pos f : Bool) : objStep st pos f .oth = some (st, pos || decide (st > 0)) := rfl
theorem objStep_asc (st : Nat) (pos f : Bool) (n : Nat) : objStep st pos f (.asc n) =
    (if objectReject.contains n then none
     else if n = 58 then (if st > 0 || f then none else some (1, pos))
     else some (st, pos || decide (st > 0))) := rfl

theorem objM_step (st : Nat) (pos f : Bool) (tok : Tok) : objM.step (st, pos) f tok = objStep st pos f tok := rfl

theorem objM_wb : objM.WB where
  ctl := by intro s f; rfl
  oth := by
    intro s f
    refine ⟨(s.1, s.2 || decide (s.1 > 0)), rfl, ?_⟩
    show some _ = some _
    simp

/-- ASCII bytes as seen by the object machine: the separator, a rejected byte, or an ordinary one. -/
theorem obj_class (b : UInt8) :
    b = 58 ∨ (objectReject.contains b.toNat = true ∧ exObject.contains b = true) ∨
    (objectReject.contains b.toNat = false ∧ exObject.contains b = false ∧ b.toNat ≠ 58) := by
  by_cases h58 : b = 58
  · left; exact h58
  · right
    by_cases h : b = 35 ∨ b = 32
    · left
      refine ⟨(mem_objectReject _).mpr ?_, (mem_exObject _).mpr (Or.inr h)⟩
      rcases h with h | h
      · left; exact (eq35 b).mpr h
      · right; exact (eq32 b).mpr h
    · right
      refine ⟨?_, ?_, fun e => h58 ((eq58 b).mp e)⟩
      · rw [Bool.eq_false_iff]; intro hm
        rcases (mem_objectReject _).mp hm with e | e
        · exact h (Or.inl ((eq35 b).mp e))
        · exact h (Or.inr ((eq32 b).mp e))
      · rw [Bool.eq_false_iff]; intro hm
        rcases (mem_exObject _).mp hm with e | e | e
        · exact h58 e
        · exact h (Or.inl e)
        · exact h (Or.inr e)

/-- (A) the Go loop is a run of `objM` over the decoded runes. -/
theorem objLoop_eq_run (rs : List (Nat × Nat)) :
    ∀ (st n : Nat) (f : Bool), IdxOK f rs →
      isValidObjectLoop rs st n = objM.run (st, decide (n > 0)) f (runeToks rs) := by
  induction rs with
  | nil => intro st n f _; rfl
  | cons p rest ih =>
    intro st n f hidx
    obtain ⟨ndx, chr⟩ := p
    obtain ⟨hf, hrest⟩ := hidx
    simp only at hf
    have ih' := fun st n => ih st n false (idxOK_false hrest)
    have hcnt : decide (n + st > 0) = (decide (n > 0) || decide (st > 0)) := by
      rw [Bool.eq_iff_iff]; simp; omega
    show isValidObjectLoop ((ndx, chr) :: rest) st n =
      objM.run (st, decide (n > 0)) f (tokOfRune chr :: runeToks rest)
    rw [run_cons]
    rw [objM_step]
    unfold isValidObjectLoop tokOfRune
    by_cases hc : isControl chr = true
    · rw [if_pos hc, if_pos hc]; rfl
    · rw [if_neg hc, if_neg hc]
      by_cases hlt : chr < 128
      · rw [if_pos hlt, objStep_asc]
        by_cases hr : objectReject.contains chr = true
        · rw [if_pos hr, if_pos hr]
        · rw [if_neg hr, if_neg hr]
          by_cases h58 : chr = 58
          · rw [if_pos h58, if_pos h58, ← hf]
            by_cases hg : (decide (st > 0) || ndx == 0) = true
            · rw [if_pos hg, if_pos hg]
            · rw [if_neg hg, if_neg hg]; exact ih' 1 n
          · rw [if_neg h58, if_neg h58, ih' st (n + st), hcnt]
      · have h58 : chr ≠ 58 := by omega
        have hr : ¬ objectReject.contains chr = true := by
          intro hm; rcases (mem_objectReject _).mp hm with e | e <;> omega
        rw [if_neg hlt, if_neg hr, if_neg h58, ih' st (n + st), hcnt, objStep_oth]

/-- (A)+(B): `IsValidObject` without the decoder. -/
theorem isValidObject_eq_run (s : Bytes) : isValidObject s = objM.run (0, false) true (btoks s) := by
  unfold isValidObject
  rw [objLoop_eq_run (runes s) 0 0 true (idxOK_runes s), run_runes objM objM_wb]
  rfl

/-- (C) state 1 (after the ':'): the rest must be a non-empty run (or `pos` already). -/
theorem objM_run1 (s : Bytes) : ∀ pos : Bool,
    objM.run (1, pos) false (btoks s) = (plain exObject s && (pos || !s.isEmpty)) := by
  induction s with
  | nil => intro pos; show pos = _; simp [plain]
  | cons b t ih =>
    intro pos
    show objM.run (1, pos) false (headTok b t :: btoks t) = _
    rw [run_cons]
    rw [objM_step]
    have rhs : (plain exObject (b :: t) && (pos || !(b :: t).isEmpty)) = (okHead exObject b t && plain exObject t) := by
      simp [plain]
    rw [rhs]
    have hpos : (pos || decide (1 > 0)) = true := by simp
    rcases headTok_cases b t with ⟨ht, hk⟩ | ⟨ht, hb, hk⟩ | ⟨ht, hb, hk⟩
    · rw [ht, hk]; rfl
    · rw [ht, hk, objStep_asc]
      rcases obj_class b with h58 | ⟨hr, hx⟩ | ⟨hr, hx, h58⟩
      · subst h58; rfl
      · rw [if_pos hr, hx]; rfl
      · have hr' : ¬ objectReject.contains b.toNat = true := by rw [hr]; decide
        rw [if_neg hr', if_neg h58, hx, hpos]; dsimp only; rw [ih true]; simp
    · rw [ht, hk exObject exObject_ascii, objStep_oth, hpos]; dsimp only; rw [ih true]; simp

/-- (C) state 0: split at the first ':'. -/
theorem objM_run0 (s : Bytes) : ∀ f : Bool,
    objM.run (0, false) f (btoks s) =
      (match splitFirst 58 s with
       | none => false
       | some (t, i) => (!f || !t.isEmpty) && !i.isEmpty && plain exObject t && plain exObject i) := by
  induction s with
  | nil => intro f; rfl
  | cons b t ih =>
    intro f
    show objM.run (0, false) f (headTok b t :: btoks t) = _
    rw [run_cons]
    rw [objM_step]
    -- what the right-hand side looks like when the head is not ':'
    have rhs_ne : b ≠ 58 →
        (match splitFirst 58 (b :: t) with
         | none => false
         | some (t', i) => (!f || !t'.isEmpty) && !i.isEmpty && plain exObject t' && plain exObject i) =
        (okHead exObject b t && objM.run (0, false) false (btoks t)) := by
      intro hne
      rw [ih false]
      simp only [splitFirst, hne, if_false]
      cases hs : splitFirst 58 t with
      | none => simp
      | some li =>
        obtain ⟨l, i⟩ := li
        obtain ⟨e, _⟩ := splitFirst_some 58 t l i hs
        simp only [List.isEmpty_cons, Bool.not_false, Bool.or_true, Bool.true_and, plain]
        rw [e, okHead_append exObject b l 58 i (by decide)]
        cases okHead exObject b l <;> cases plain exObject l <;> cases plain exObject i <;> cases i.isEmpty <;> rfl
    have hpos : (false || decide (0 > 0)) = false := by decide
    rcases headTok_cases b t with ⟨ht, hk⟩ | ⟨ht, hb, hk⟩ | ⟨ht, hb, hk⟩
    · have hne : b ≠ 58 := by
        intro e; subst e; simp [headTok, asciiCtl] at ht
      rw [rhs_ne hne, ht, hk]; rfl
    · rw [ht, objStep_asc]
      rcases obj_class b with h58 | ⟨hr, hx⟩ | ⟨hr, hx, h58⟩
      · subst h58
        rw [if_neg (by decide), if_pos (by decide)]
        cases f with
        | true => simp [splitFirst]
        | false =>
          rw [if_neg (by decide)]
          show objM.run (1, false) false (btoks t) = _
          rw [objM_run1 t false]
          simp [splitFirst, plain]
          cases plain exObject t <;> cases t.isEmpty <;> rfl
      · have hne : b ≠ 58 := by
          intro e; subst e; revert hr; decide
        rw [rhs_ne hne, hk, if_pos hr, hx]; rfl
      · have hne : b ≠ 58 := fun e => h58 ((eq58 b).mpr e)
        have hr' : ¬ objectReject.contains b.toNat = true := by rw [hr]; decide
        rw [rhs_ne hne, hk, if_neg hr', if_neg h58, hx, hpos]; simp
    · have hne : b ≠ 58 := by intro e; subst e; simp at hb
      rw [rhs_ne hne, ht, hk exObject exObject_ascii, objStep_oth, hpos]; simp

/-- **`IsValidObject` = object grammar**, as Booleans, for every byte string. -/
theorem isValidObject_eq_grammarB (s : Bytes) : isValidObject s = grammarObjectB s := by
  rw [isValidObject_eq_run, objM_run0 s true]
  unfold grammarObjectB
  cases splitFirst 58 s with
  | none => rfl
  | some ti =>
    obtain ⟨t, i⟩ := ti
    cases t <;> cases i <;> simp

/-! ### IsValidRelation / IsValidUserID (the counting loops) -/

def cntStep (rej : List Nat) : Tok → Option Bool
  | .ctl => none
  | .asc n => if rej.contains n then none else some true
  | .oth => some true

def cntM (rej : List Nat) : Mach Bool where
  step := fun _ _ tok => cntStep rej tok
  fin := fun s => s

theorem cntM_step (rej : List Nat) (s f : Bool) (tok : Tok) : (cntM rej).step s f tok = cntStep rej tok := rfl
theorem cntStep_asc (rej : List Nat) (n : Nat) :
    cntStep rej (.asc n) = (if rej.contains n then none else some true) := rfl

theorem cntM_wb (rej : List Nat) : (cntM rej).WB where
  ctl := by intro s f; rfl
  oth := by intro s f; exact ⟨true, rfl, rfl⟩

theorem countLoop_eq_run (rej : List Nat) (hrej : ∀ n ∈ rej, n < 128) (rs : List (Nat × Nat)) :
    ∀ (n : Nat) (f : Bool), countLoop rej rs n = (cntM rej).run (decide (n > 0)) f (runeToks rs) := by
  induction rs with
  | nil => intro n f; rfl
  | cons p rest ih =>
    intro n f
    obtain ⟨ndx, chr⟩ := p
    show countLoop rej ((ndx, chr) :: rest) n = (cntM rej).run (decide (n > 0)) f (tokOfRune chr :: runeToks rest)
    rw [run_cons, cntM_step]
    unfold countLoop tokOfRune
    have hone : decide (n + 1 > 0) = true := by simp
    by_cases hc : isControl chr = true
    · rw [if_pos hc, if_pos hc]; rfl
    · rw [if_neg hc, if_neg hc]
      by_cases hlt : chr < 128
      · rw [if_pos hlt, cntStep_asc]
        by_cases hr : rej.contains chr = true
        · rw [if_pos hr, if_pos hr]
        · rw [if_neg hr, if_neg hr, ih (n + 1) false, hone]
      · have hr : ¬ rej.contains chr = true := by
          intro hm; have := hrej chr (by simpa using hm); omega
        rw [if_neg hlt, if_neg hr, ih (n + 1) false, hone]; rfl

theorem cntM_run (rej : List Nat) (excl : List UInt8) (hex : ∀ e ∈ excl, e.toNat < 128)
    (hlink : ∀ b : UInt8, excl.contains b = rej.contains b.toNat) (s : Bytes) :
    ∀ pos f : Bool, (cntM rej).run pos f (btoks s) = (plain excl s && (pos || !s.isEmpty)) := by
  induction s with
  | nil => intro pos f; show pos = _; simp [plain]
  | cons b t ih =>
    intro pos f
    show (cntM rej).run pos f (headTok b t :: btoks t) = _
    rw [run_cons, cntM_step]
    have rhs : (plain excl (b :: t) && (pos || !(b :: t).isEmpty)) = (okHead excl b t && plain excl t) := by
      simp [plain]
    rw [rhs]
    rcases headTok_cases b t with ⟨ht, hk⟩ | ⟨ht, hb, hk⟩ | ⟨ht, hb, hk⟩
    · rw [ht, hk]; rfl
    · rw [ht, hk, cntStep_asc, hlink b]
      by_cases hr : rej.contains b.toNat = true
      · rw [if_pos hr, hr]; rfl
      · rw [if_neg hr]
        have hr' : rej.contains b.toNat = false := by simpa using hr
        rw [hr']; dsimp only; rw [ih true false]; simp
    · rw [ht, hk excl hex]
      show (cntM rej).run true false (btoks t) = _
      rw [ih true false]; simp

theorem relationReject_ascii : ∀ n ∈ relationReject, n < 128 := by decide
theorem userIDReject_ascii : ∀ n ∈ userIDReject, n < 128 := by decide

theorem link_relation (b : UInt8) : exRelation.contains b = relationReject.contains b.toNat := by
  rw [Bool.eq_iff_iff]
  simp [exRelation, relationReject, ← UInt8.toNat_inj]
  omega

theorem link_userID (b : UInt8) : exUserID.contains b = userIDReject.contains b.toNat := by
  rw [Bool.eq_iff_iff]
  simp [exUserID, userIDReject, ← UInt8.toNat_inj]
  omega

/-- **`IsValidRelation` = relation grammar.** -/
theorem isValidRelation_eq_grammarB (s : Bytes) : isValidRelation s = grammarRelationB s := by
  unfold isValidRelation
  rw [countLoop_eq_run relationReject relationReject_ascii (runes s) 0 true,
    run_runes _ (cntM_wb _), cntM_run relationReject exRelation exRelation_ascii link_relation]
  unfold grammarRelationB
  cases s <;> simp [Bool.and_comm]

/-- **`IsValidUserID` = user-id grammar.** -/
theorem isValidUserID_eq_grammarB (s : Bytes) : isValidUserID s = grammarUserIDB s := by
  unfold isValidUserID
  rw [countLoop_eq_run userIDReject userIDReject_ascii (runes s) 0 true,
    run_runes _ (cntM_wb _), cntM_run userIDReject exUserID exUserID_ascii link_userID]
  unfold grammarUserIDB
  cases s <;> simp [Bool.and_comm]

/-! ### IsValidUserset -/

def usOther (st : Nat) (ip rp : Bool) : Nat × Bool × Bool :=
  match st with
  | 1 => (1, true, rp)
  | 2 => (2, ip, true)
  | _ => (st, ip, rp)

def usStep (st : Nat) (ip rp f : Bool) : Tok → Option (Nat × Bool × Bool)
  | .ctl => none
  | .asc n =>
    if n = 58 then (if st > 0 || f then none else some (1, ip, rp))
    else if n = 35 then (if st > 1 || !ip then none else some (2, ip, rp))
    else if n = 32 then none
    else if n = 42 then (if st > 0 then none else some (st, ip, rp))
    else some (usOther st ip rp)
  | .oth => some (usOther st ip rp)

def usM : Mach (Nat × Bool × Bool) where
  step := fun s f tok => usStep s.1 s.2.1 s.2.2 f tok
  fin := fun s => s.2.2

theorem usM_step (st : Nat) (ip rp f : Bool) (tok : Tok) :
    usM.step (st, ip, rp) f tok = usStep st ip rp f tok := rfl
theorem usStep_oth (st : Nat) (ip rp f : Bool) : usStep st ip rp f .oth = some (usOther st ip rp) := rfl
theorem usStep_asc (st : Nat) (ip rp f : Bool) (n : Nat) : usStep st ip rp f (.asc n) =
    (if n = 58 then (if st > 0 || f then none else some (1, ip, rp))
     else if n = 35 then (if st > 1 || !ip then none else some (2, ip, rp))
     else if n = 32 then none
     else if n = 42 then (if st > 0 then none else some (st, ip, rp))
     else some (usOther st ip rp)) := rfl

theorem usOther_idem (st : Nat) (ip rp : Bool) :
    usOther (usOther st ip rp).1 (usOther st ip rp).2.1 (usOther st ip rp).2.2 = usOther st ip rp := by
  match st with
  | 0 => rfl
  | 1 => rfl
  | 2 => rfl
  | _ + 3 => rfl

theorem usM_wb : usM.WB where
  ctl := by intro s f; rfl
  oth := by
    intro s f
    refine ⟨usOther s.1 s.2.1 s.2.2, rfl, ?_⟩
    show some _ = some _
    rw [usOther_idem]

/-- (A) the Go loop is a run of `usM` over the decoded runes. -/
theorem usLoop_eq_run (rs : List (Nat × Nat)) :
    ∀ (st idLen relLen : Nat) (f : Bool), IdxOK f rs →
      isValidUsersetLoop rs st idLen relLen =
        usM.run (st, decide (idLen > 0), decide (relLen > 0)) f (runeToks rs) := by
  induction rs with
  | nil => intro st a b f _; rfl
  | cons p rest ih =>
    intro st idLen relLen f hidx
    obtain ⟨ndx, chr⟩ := p
    obtain ⟨hf, hrest⟩ := hidx
    simp only at hf
    have ih' := fun st a b => ih st a b false (idxOK_false hrest)
    have hz : (idLen == 0) = !decide (idLen > 0) := by
      rw [Bool.eq_iff_iff]; simp
    have hone : ∀ n : Nat, decide (n + 1 > 0) = true := by intro n; simp
    -- the default branch, shared by "ordinary ASCII" and "anything else"
    have hdefault :
        (match st with
          | 1 => isValidUsersetLoop rest st (idLen + 1) relLen
          | 2 => isValidUsersetLoop rest st idLen (relLen + 1)
          | _ => isValidUsersetLoop rest st idLen relLen) =
        usM.run (usOther st (decide (idLen > 0)) (decide (relLen > 0))) false (runeToks rest) := by
      unfold usOther
      split
      · rw [ih' 1 (idLen + 1) relLen, hone]
      · rw [ih' 2 idLen (relLen + 1), hone]
      · rw [ih' st idLen relLen]
    show isValidUsersetLoop ((ndx, chr) :: rest) st idLen relLen =
      usM.run (st, decide (idLen > 0), decide (relLen > 0)) f (tokOfRune chr :: runeToks rest)
    rw [run_cons, usM_step]
    unfold isValidUsersetLoop tokOfRune
    by_cases hc : isControl chr = true
    · rw [if_pos hc, if_pos hc]; rfl
    · rw [if_neg hc, if_neg hc]
      by_cases hlt : chr < 128
      · rw [if_pos hlt, usStep_asc]
        by_cases h58 : chr = 58
        · rw [if_pos h58, if_pos h58, ← hf]
          by_cases hg : (decide (st > 0) || ndx == 0) = true
          · rw [if_pos hg, if_pos hg]
          · rw [if_neg hg, if_neg hg]; exact ih' 1 idLen relLen
        · rw [if_neg h58, if_neg h58]
          by_cases h35 : chr = 35
          · rw [if_pos h35, if_pos h35, hz]
            by_cases hg : (decide (st > 1) || !decide (idLen > 0)) = true
            · rw [if_pos hg, if_pos hg]
            · rw [if_neg hg, if_neg hg]; exact ih' 2 idLen relLen
          · rw [if_neg h35, if_neg h35]
            by_cases h32 : chr = 32
            · rw [if_pos h32, if_pos h32]
            · rw [if_neg h32, if_neg h32]
              by_cases h42 : chr = 42
              · rw [if_pos h42, if_pos h42]
                by_cases hg : st > 0
                · rw [if_pos hg, if_pos hg]
                · rw [if_neg hg, if_neg hg]; exact ih' st idLen relLen
              · rw [if_neg h42, if_neg h42]; exact hdefault
      · rw [if_neg hlt, if_neg (by omega), if_neg (by omega), if_neg (by omega), if_neg (by omega), usStep_oth]
        exact hdefault

theorem isValidUserset_eq_run (s : Bytes) : isValidUserset s = usM.run (0, false, false) true (btoks s) := by
  unfold isValidUserset
  rw [usLoop_eq_run (runes s) 0 0 0 true (idxOK_runes s), run_runes usM usM_wb]
  rfl

theorem mem_exUsersetTail (b : UInt8) : exUsersetTail.contains b = true ↔ b = 58 ∨ b = 35 ∨ b = 32 ∨ b = 42 := by
  simp [exUsersetTail]

/-- ASCII bytes as seen by the userset machine. -/
theorem us_class (b : UInt8) :
    b = 58 ∨ b = 35 ∨ b = 32 ∨ b = 42 ∨
    (b.toNat ≠ 58 ∧ b.toNat ≠ 35 ∧ b.toNat ≠ 32 ∧ b.toNat ≠ 42 ∧
      exUsersetTail.contains b = false ∧ exObject.contains b = false) := by
  by_cases h1 : b = 58
  · exact Or.inl h1
  by_cases h2 : b = 35
  · exact Or.inr (Or.inl h2)
  by_cases h3 : b = 32
  · exact Or.inr (Or.inr (Or.inl h3))
  by_cases h4 : b = 42
  · exact Or.inr (Or.inr (Or.inr (Or.inl h4)))
  refine Or.inr (Or.inr (Or.inr (Or.inr ⟨fun e => h1 ((eq58 b).mp e), fun e => h2 ((eq35 b).mp e),
    fun e => h3 ((eq32 b).mp e), fun e => h4 ((eq42 b).mp e), ?_, ?_⟩)))
  · rw [Bool.eq_false_iff]; intro hm
    rcases (mem_exUsersetTail b).mp hm with e | e | e | e
    · exact h1 e
    · exact h2 e
    · exact h3 e
    · exact h4 e
  · rw [Bool.eq_false_iff]; intro hm
    rcases (mem_exObject b).mp hm with e | e | e
    · exact h1 e
    · exact h2 e
    · exact h3 e

/-- (C) state 2 (after the '#'): a non-empty run without ':' '#' ' ' '*'. -/
theorem usM_run2 (s : Bytes) : ∀ ip rp : Bool,
    usM.run (2, ip, rp) false (btoks s) = (plain exUsersetTail s && (rp || !s.isEmpty)) := by
  induction s with
  | nil => intro ip rp; show rp = _; simp [plain]
  | cons b t ih =>
    intro ip rp
    show usM.run (2, ip, rp) false (headTok b t :: btoks t) = _
    rw [run_cons, usM_step]
    have rhs : (plain exUsersetTail (b :: t) && (rp || !(b :: t).isEmpty)) =
        (okHead exUsersetTail b t && plain exUsersetTail t) := by simp [plain]
    rw [rhs]
    have hoth : usOther 2 ip rp = (2, ip, true) := rfl
    rcases headTok_cases b t with ⟨ht, hk⟩ | ⟨ht, hb, hk⟩ | ⟨ht, hb, hk⟩
    · rw [ht, hk]; rfl
    · rw [ht, hk, usStep_asc]
      rcases us_class b with e | e | e | e | ⟨n1, n2, n3, n4, hx, _⟩
      · subst e; rfl
      · subst e; rfl
      · subst e; rfl
      · subst e; rfl
      · rw [if_neg n1, if_neg n2, if_neg n3, if_neg n4, hx, hoth]; dsimp only; rw [ih ip true]; simp
    · rw [ht, hk exUsersetTail exUsersetTail_ascii, usStep_oth, hoth]; dsimp only; rw [ih ip true]; simp

/-- (C) state 1 (after the ':'): split at the first '#'. -/
theorem usM_run1 (s : Bytes) : ∀ ip : Bool,
    usM.run (1, ip, false) false (btoks s) =
      (match splitFirst 35 s with
       | none => false
       | some (i, r) => (ip || !i.isEmpty) && !r.isEmpty && plain exUsersetTail i && plain exUsersetTail r) := by
  induction s with
  | nil => intro ip; rfl
  | cons b t ih =>
    intro ip
    show usM.run (1, ip, false) false (headTok b t :: btoks t) = _
    rw [run_cons, usM_step]
    have rhs_ne : b ≠ 35 →
        (match splitFirst 35 (b :: t) with
         | none => false
         | some (i, r) => (ip || !i.isEmpty) && !r.isEmpty && plain exUsersetTail i && plain exUsersetTail r) =
        (okHead exUsersetTail b t && usM.run (1, true, false) false (btoks t)) := by
      intro hne
      rw [ih true]
      simp only [splitFirst, hne, if_false]
      cases hs : splitFirst 35 t with
      | none => simp
      | some li =>
        obtain ⟨l, r⟩ := li
        obtain ⟨e, _⟩ := splitFirst_some 35 t l r hs
        simp only [List.isEmpty_cons, Bool.not_false, Bool.or_true, Bool.true_and, plain, Bool.true_or]
        rw [e, okHead_append exUsersetTail b l 35 r (by decide)]
        cases okHead exUsersetTail b l <;> cases plain exUsersetTail l <;> cases plain exUsersetTail r <;> cases r.isEmpty <;> rfl
    have hoth : usOther 1 ip false = (1, true, false) := rfl
    rcases headTok_cases b t with ⟨ht, hk⟩ | ⟨ht, hb, hk⟩ | ⟨ht, hb, hk⟩
    · have hne : b ≠ 35 := by intro e; subst e; simp [headTok, asciiCtl] at ht
      rw [rhs_ne hne, ht, hk]; rfl
    · rw [ht, usStep_asc]
      rcases us_class b with e | e | e | e | ⟨n1, n2, n3, n4, hx, _⟩
      · subst e; rw [rhs_ne (by decide), hk]; rfl
      · subst e
        rw [if_neg (by decide), if_pos (by decide)]
        cases ip with
        | false => simp [splitFirst]
        | true =>
          rw [if_neg (by decide)]
          dsimp only
          rw [usM_run2 t true false]
          simp [splitFirst, plain]
          cases plain exUsersetTail t <;> cases t.isEmpty <;> rfl
      · subst e; rw [rhs_ne (by decide), hk]; rfl
      · subst e; rw [rhs_ne (by decide), hk]; rfl
      · have hne : b ≠ 35 := fun e => n2 ((eq35 b).mpr e)
        rw [rhs_ne hne, hk, if_neg n1, if_neg n2, if_neg n3, if_neg n4, hx, hoth]; simp
    · have hne : b ≠ 35 := by intro e; subst e; simp at hb
      rw [rhs_ne hne, ht, hk exUsersetTail exUsersetTail_ascii, usStep_oth, hoth]; simp

/-- (C) state 0: split at the first ':' and then at the first '#'. -/
theorem usM_run0 (s : Bytes) : ∀ f : Bool,
    usM.run (0, false, false) f (btoks s) =
      (match splitFirst 58 s with
       | none => false
       | some (t, rest) =>
         match splitFirst 35 rest with
         | none => false
         | some (i, r) =>
           (!f || !t.isEmpty) && !i.isEmpty && !r.isEmpty &&
             plain exObject t && plain exUsersetTail i && plain exUsersetTail r) := by
  induction s with
  | nil => intro f; rfl
  | cons b t ih =>
    intro f
    show usM.run (0, false, false) f (headTok b t :: btoks t) = _
    rw [run_cons, usM_step]
    have rhs_ne : b ≠ 58 →
        (match splitFirst 58 (b :: t) with
         | none => false
         | some (t', rest) =>
           match splitFirst 35 rest with
           | none => false
           | some (i, r) =>
             (!f || !t'.isEmpty) && !i.isEmpty && !r.isEmpty &&
               plain exObject t' && plain exUsersetTail i && plain exUsersetTail r) =
        (okHead exObject b t && usM.run (0, false, false) false (btoks t)) := by
      intro hne
      rw [ih false]
      simp only [splitFirst, hne, if_false]
      cases hs : splitFirst 58 t with
      | none => simp
      | some li =>
        obtain ⟨l, rest⟩ := li
        obtain ⟨e, _⟩ := splitFirst_some 58 t l rest hs
        dsimp only
        cases hs2 : splitFirst 35 rest with
        | none => simp
        | some ir =>
          obtain ⟨i, r⟩ := ir
          simp only [List.isEmpty_cons, Bool.not_false, Bool.or_true, Bool.true_and, plain, Bool.true_or]
          rw [e, okHead_append exObject b l 58 rest (by decide)]
          cases okHead exObject b l <;> cases plain exObject l <;> cases plain exUsersetTail i <;>
            cases plain exUsersetTail r <;> cases r.isEmpty <;> cases i.isEmpty <;> rfl
    have hoth : usOther 0 false false = (0, false, false) := rfl
    rcases headTok_cases b t with ⟨ht, hk⟩ | ⟨ht, hb, hk⟩ | ⟨ht, hb, hk⟩
    · have hne : b ≠ 58 := by intro e; subst e; simp [headTok, asciiCtl] at ht
      rw [rhs_ne hne, ht, hk]; rfl
    · rw [ht, usStep_asc]
      rcases us_class b with e | e | e | e | ⟨n1, n2, n3, n4, _, hx⟩
      · subst e
        rw [if_pos (by decide)]
        cases f with
        | true =>
          rw [if_pos (by decide)]
          simp only [splitFirst, if_true]
          cases splitFirst 35 t with
          | none => rfl
          | some ir => simp
        | false =>
          rw [if_neg (by decide)]
          dsimp only
          rw [usM_run1 t false]
          simp only [splitFirst, if_true]
          cases splitFirst 35 t with
          | none => rfl
          | some ir => simp [plain]
      · subst e; rw [rhs_ne (by decide), hk]; rfl
      · subst e; rw [rhs_ne (by decide), hk]; rfl
      · subst e; rw [rhs_ne (by decide), hk]; rfl
      · have hne : b ≠ 58 := fun e => n1 ((eq58 b).mpr e)
        rw [rhs_ne hne, hk, if_neg n1, if_neg n2, if_neg n3, if_neg n4, hx, hoth]; simp
    · have hne : b ≠ 58 := by intro e; subst e; simp at hb
      rw [rhs_ne hne, ht, hk exObject exObject_ascii, usStep_oth, hoth]; simp

/-- **`IsValidUserset` = userset grammar.** -/
theorem isValidUserset_eq_grammarB (s : Bytes) : isValidUserset s = grammarUsersetB s := by
  rw [isValidUserset_eq_run, usM_run0 s true]
  unfold grammarUsersetB
  cases splitFirst 58 s with
  | none => rfl
  | some tr =>
    obtain ⟨t, rest⟩ := tr
    dsimp only
    cases splitFirst 35 rest with
    | none => rfl
    | some ir =>
      obtain ⟨i, r⟩ := ir
      cases t <;> cases i <;> cases r <;> simp

/-- **`IsValidUser` = user grammar.** -/
theorem isValidUser_eq_grammarB (s : Bytes) : isValidUser s = grammarUserB s := by
  unfold isValidUser grammarUserB
  rw [isValidUserID_eq_grammarB, isValidObject_eq_grammarB, isValidUserset_eq_grammarB]
  rfl

end OpenFGAVerif.Proofs.TupleStr
