/-
String-level facts behind the column-consistency hypotheses of the SQL theorems of C13 (`ColsOK`, `PrefOK`,
`UserFilterWF`): for every user string of the shape `type:id` / `type:id#rel` with separator-free parts (what
`tuple.IsValidUser` plus the model validation admit; `type:*` and `type:` included)
  * `ToUserParts` splits it into exactly (type, id, rel) and `FromUserParts` puts it together again,
  * `GetType` is the type column, `SplitObjectRelation(..).2` is the relation column,
  * `strings.HasPrefix(u, p+":")` holds iff the type column is `p`,
  * if `GetUserTypeFromUser(u) == UserSet` then  id = "*"  ⇔  rel = ""  (scanner of `IsValidUserset`, statement by statement).
So `ColsOK` / `PrefOK` are theorems for stores of well-shaped users, not assumptions.
-/
import OpenFGAVerif.Model.StoreRead
import OpenFGAVerif.Proofs.StoreRead

namespace OpenFGAVerif.Proofs.UserStr
open OpenFGAVerif.Model.StoreTypes OpenFGAVerif.Model.StoreRead OpenFGAVerif.Proofs.StoreRead


theorem idxOf?_append (c : Char) (pre post : List Char) (h : c ∉ pre) :
    idxOf? c (pre ++ c :: post) = some pre.length := by
  induction pre with
  | nil => simp [idxOf?]
  | cons x xs ih =>
    have hx : x ≠ c := fun e => h (by simp [e])
    have hxs : c ∉ xs := fun m => h (by simp [m])
    simp [idxOf?, hx, ih hxs]

theorem idxOf?_none (c : Char) (l : List Char) (h : c ∉ l) : idxOf? c l = none := by
  induction l with
  | nil => rfl
  | cons x xs ih =>
    have hx : x ≠ c := fun e => h (by simp [e])
    have hxs : c ∉ xs := fun m => h (by simp [m])
    simp [idxOf?, hx, ih hxs]

theorem lastIdxOf?_none (c : Char) (l : List Char) (h : c ∉ l) : lastIdxOf? c l = none := by
  induction l with
  | nil => rfl
  | cons x xs ih =>
    have hx : x ≠ c := fun e => h (by simp [e])
    have hxs : c ∉ xs := fun m => h (by simp [m])
    simp [lastIdxOf?, hx, ih hxs]

theorem lastIdxOf?_append (c : Char) (pre post : List Char) (h : c ∉ post) :
    lastIdxOf? c (pre ++ c :: post) = some pre.length := by
  induction pre with
  | nil => simp [lastIdxOf?, lastIdxOf?_none c post h]
  | cons x xs ih => simp [lastIdxOf?, ih]

theorem take_pre (pre : List Char) (c : Char) (post : List Char) : (pre ++ c :: post).take pre.length = pre := by
  simp
theorem drop_pre (pre : List Char) (c : Char) (post : List Char) : (pre ++ c :: post).drop (pre.length + 1) = post := by
  have : pre ++ c :: post = (pre ++ [c]) ++ post := by simp
  rw [this]
  have hl : pre.length + 1 = (pre ++ [c]).length := by simp
  rw [hl, List.drop_left]

theorem exists_first_split (c : Char) (l : List Char) (h : c ∈ l) : ∃ a b, l = a ++ c :: b ∧ c ∉ a := by
  induction l with
  | nil => simp at h
  | cons x xs ih =>
    by_cases hx : x = c
    · exact ⟨[], xs, by simp [hx], by simp⟩
    · have : c ∈ xs := by
        rcases List.mem_cons.mp h with e | e
        · exact absurd e.symm hx
        · exact e
      obtain ⟨a, b, hab, hna⟩ := ih this
      refine ⟨x :: a, b, by simp [hab], ?_⟩
      intro m
      rcases List.mem_cons.mp m with e | e
      · exact hx e.symm
      · exact hna e

/-- `type:id` / `type:id#rel` with separator-free parts (what `IsValidUser` and the model validation admit) -/
structure UserShape (u : String) where
  ty : List Char
  id : List Char
  rel : List Char
  hu : u.toList = ty ++ ':' :: id ++ (if rel = [] then [] else '#' :: rel)
  ty_ne : ty ≠ []
  ty_nc : ':' ∉ ty
  ty_nh : '#' ∉ ty
  id_nc : ':' ∉ id
  id_nh : '#' ∉ id
  rel_nh : '#' ∉ rel
  rel_nc : ':' ∉ rel

theorem splitObject_of (s : String) (ty rest : List Char) (h : s.toList = ty ++ ':' :: rest) (hn : ':' ∉ ty) :
    splitObject s = (String.ofList ty, String.ofList rest) := by
  unfold splitObject
  rw [h, idxOf?_append ':' ty rest hn]
  simp only [take_pre, drop_pre]

theorem toUserParts_of_shape (u : String) (sh : UserShape u) :
    toUserParts u = ⟨String.ofList sh.ty, String.ofList sh.id, String.ofList sh.rel⟩ := by
  unfold toUserParts
  by_cases hr : sh.rel = []
  · have hu : u.toList = sh.ty ++ ':' :: sh.id := by simpa [hr] using sh.hu
    have hnh : '#' ∉ u.toList := by
      rw [hu]; simp [sh.ty_nh, sh.id_nh]
    have h1 : splitObjectRelation u = (u, "") := by
      unfold splitObjectRelation; rw [lastIdxOf?_none '#' _ hnh]
    rw [h1]
    simp only [splitObject_of u sh.ty sh.id hu sh.ty_nc, hr]
  · have hu : u.toList = (sh.ty ++ ':' :: sh.id) ++ '#' :: sh.rel := by simpa [hr] using sh.hu
    have h1 : splitObjectRelation u = (String.ofList (sh.ty ++ ':' :: sh.id), String.ofList sh.rel) := by
      unfold splitObjectRelation
      rw [hu, lastIdxOf?_append '#' _ sh.rel sh.rel_nh]
      simp only [take_pre, drop_pre]
    rw [h1]
    simp only [splitObject_of (String.ofList (sh.ty ++ ':' :: sh.id)) sh.ty sh.id (by simp) sh.ty_nc]

theorem getType_of_shape (u : String) (sh : UserShape u) : getType u = String.ofList sh.ty := by
  unfold getType
  have : u.toList = sh.ty ++ ':' :: (sh.id ++ (if sh.rel = [] then [] else '#' :: sh.rel)) := by
    rw [sh.hu]; simp
  rw [splitObject_of u sh.ty _ this sh.ty_nc]

theorem ofList_eq_empty (l : List Char) : String.ofList l = "" ↔ l = [] := by
  constructor
  · intro h
    have := congrArg String.toList h
    simpa using this
  · intro h; subst h; rfl

theorem fromUserParts_of_shape (u : String) (sh : UserShape u) : fromUserParts (toUserParts u) = u := by
  rw [toUserParts_of_shape u sh]
  unfold fromUserParts
  apply String.toList_inj.mp
  have hty : String.ofList sh.ty ≠ "" := fun e => sh.ty_ne ((ofList_eq_empty _).mp e)
  by_cases hr : sh.rel = []
  · simp [hty, hr, sh.hu]
  · have : String.ofList sh.rel ≠ "" := fun e => hr ((ofList_eq_empty _).mp e)
    simp [hty, this, hr, sh.hu]

/-- `strings.HasPrefix(u, p+":")` ⇔ the type column equals `p` -/
theorem hasPrefix_iff_typ (u : String) (sh : UserShape u) (p : String) :
    hasPrefix u (p ++ ":") = true ↔ (toUserParts u).typ = p := by
  rw [toUserParts_of_shape u sh]
  simp only
  unfold hasPrefix
  have hu : u.toList = sh.ty ++ ':' :: (sh.id ++ (if sh.rel = [] then [] else '#' :: sh.rel)) := by
    rw [sh.hu]; simp
  rw [hu]
  simp only [String.toList_append]
  have hc : (":" : String).toList = [':'] := by decide
  rw [hc]
  constructor
  · intro h
    have hp : (p.toList ++ [':']) <+: (sh.ty ++ ':' :: (sh.id ++ (if sh.rel = [] then [] else '#' :: sh.rel))) :=
      List.isPrefixOf_iff_prefix.mp h
    -- the first ':' of the right-hand side is at |ty|; the prefix ends with ':' at |p|
    obtain ⟨t, ht⟩ := hp
    have h1 : idxOf? ':' (sh.ty ++ ':' :: (sh.id ++ (if sh.rel = [] then [] else '#' :: sh.rel))) = some sh.ty.length :=
      idxOf?_append _ _ _ sh.ty_nc
    rw [← ht] at h1
    -- p has no ':' before position |p| … decide by comparing lengths
    by_cases hpc : ':' ∈ p.toList
    · -- then the first ':' lies inside p, i.e. before |ty| … but all of ty is ':'-free: contradiction via take
      exfalso
      obtain ⟨a, b, hab, hna⟩ := exists_first_split ':' p.toList hpc
      have h2 : idxOf? ':' (p.toList ++ [':'] ++ t) = some a.length := by
        rw [hab]
        have : (a ++ ':' :: b) ++ [':'] ++ t = a ++ ':' :: (b ++ [':'] ++ t) := by simp
        rw [this]; exact idxOf?_append _ _ _ hna
      rw [h2] at h1
      have hlen : a.length = sh.ty.length := by simpa using h1
      -- position |a| of both sides: ':' on the left; the lists agree, so ty ++ ':' … = a ++ ':' …; then b ++ ":" ++ t = id ++ tail, and p continues
      have ht' : a ++ ':' :: (b ++ [':'] ++ t) = sh.ty ++ ':' :: (sh.id ++ (if sh.rel = [] then [] else '#' :: sh.rel)) := by
        rw [← ht, hab]; simp
      have := List.append_inj ht' hlen
      have hrest : b ++ [':'] ++ t = sh.id ++ (if sh.rel = [] then [] else '#' :: sh.rel) := by
        have := this.2; simpa using this
      have hmem : ':' ∈ sh.id ++ (if sh.rel = [] then [] else '#' :: sh.rel) := by
        rw [← hrest]; simp
      rcases List.mem_append.mp hmem with m | m
      · exact sh.id_nc m
      · by_cases hr : sh.rel = []
        · simp [hr] at m
        · simp [hr] at m
          exact sh.rel_nc m
    · have h2 : idxOf? ':' (p.toList ++ [':'] ++ t) = some p.toList.length := by
        have : p.toList ++ [':'] ++ t = p.toList ++ ':' :: t := by simp
        rw [this]; exact idxOf?_append _ _ _ hpc
      rw [h2] at h1
      have hlen : p.toList.length = sh.ty.length := by simpa using h1
      have ht' : p.toList ++ ':' :: t = sh.ty ++ ':' :: (sh.id ++ (if sh.rel = [] then [] else '#' :: sh.rel)) := by
        rw [← ht]; simp
      have := (List.append_inj ht' hlen).1
      apply String.toList_inj.mp
      simp [this]
  · intro h
    subst h
    simp [List.isPrefixOf_iff_prefix]


/-- no '#' ahead and no relation character seen yet: the scanner cannot accept -/
theorem validUserset_needs_hash (l : List Char) : ∀ st : UsState, st.relLen = 0 → st.state ≤ 1 → '#' ∉ l →
    isValidUsersetAux st l = false := by
  induction l with
  | nil => intro st h _ _; simp [isValidUsersetAux, h]
  | cons c cs ih =>
    intro st h0 h1 hn
    have hc : c ≠ '#' := fun e => hn (by simp [e])
    have hcs : '#' ∉ cs := fun m => hn (by simp [m])
    unfold isValidUsersetAux
    by_cases hctl : isControl c = true
    · simp [hctl]
    · simp only [hctl, Bool.false_eq_true, if_false]
      by_cases h1c : c = ':'
      · simp only [h1c, if_true]
        split
        · rfl
        · exact ih _ h0 (by simp) hcs
      · simp only [h1c, if_false, hc]
        by_cases hsp : c = ' '
        · simp [hsp]
        · simp only [hsp, if_false]
          by_cases hst : c = '*'
          · simp only [hst, if_true]
            split
            · rfl
            · exact ih _ h0 h1 hcs
          · simp only [hst, if_false]
            apply ih
            · have : st.state ≠ 2 := by omega
              simp [this, h0]
            · exact h1
            · exact hcs

/-- once past the ':' a '*' is fatal -/
theorem validUserset_no_star (l : List Char) : ∀ st : UsState, 1 ≤ st.state → '*' ∈ l →
    isValidUsersetAux st l = false := by
  induction l with
  | nil => intro _ _ h; simp at h
  | cons c cs ih =>
    intro st h1 hm
    unfold isValidUsersetAux
    by_cases hctl : isControl c = true
    · simp [hctl]
    · simp only [hctl, Bool.false_eq_true, if_false]
      by_cases h1c : c = ':'
      · have : decide (st.state > 0) = true := by simp; omega
        simp [h1c, this]
      · simp only [h1c, if_false]
        by_cases hh : c = '#'
        · simp only [hh, if_true]
          split
          · rfl
          · have : '*' ∈ cs := by
              rcases List.mem_cons.mp hm with e | e
              · rw [hh] at e; exact absurd e (by decide)
              · exact e
            exact ih _ (by simp) this
        · simp only [hh, if_false]
          by_cases hsp : c = ' '
          · simp [hsp]
          · simp only [hsp, if_false]
            by_cases hst : c = '*'
            · have : decide (st.state > 0) = true := by simp; omega
              simp [hst, this]
            · simp only [hst, if_false]
              have : '*' ∈ cs := by
                rcases List.mem_cons.mp hm with e | e
                · exact absurd e.symm hst
                · exact e
              exact ih _ h1 this

/-- scanning the type part and its ':' from the initial state -/
theorem validUserset_after_type (ty rest : List Char) (hnc : ':' ∉ ty) (hnh : '#' ∉ ty) :
    ∀ st : UsState, st.state = 0 → st.relLen = 0 → isValidUsersetAux st (ty ++ ':' :: rest) = true →
      ∃ st' : UsState, st'.state = 1 ∧ st'.relLen = 0 ∧ isValidUsersetAux st' rest = true := by
  induction ty with
  | nil =>
    intro st h0 hr h
    simp only [List.nil_append] at h
    unfold isValidUsersetAux at h
    by_cases hctl : isControl ':' = true
    · simp [hctl] at h
    · simp only [hctl, Bool.false_eq_true, if_false, if_true] at h
      split at h
      · simp at h
      · exact ⟨{ st with ndx := st.ndx + 1, state := 1 }, rfl, hr, h⟩
  | cons c cs ih =>
    intro st h0 hr h
    have hc1 : c ≠ ':' := fun e => hnc (by simp [e])
    have hc2 : c ≠ '#' := fun e => hnh (by simp [e])
    have hcs1 : ':' ∉ cs := fun m => hnc (by simp [m])
    have hcs2 : '#' ∉ cs := fun m => hnh (by simp [m])
    simp only [List.cons_append] at h
    unfold isValidUsersetAux at h
    by_cases hctl : isControl c = true
    · simp [hctl] at h
    · simp only [hctl, Bool.false_eq_true, if_false, hc1, hc2] at h
      by_cases hsp : c = ' '
      · simp [hsp] at h
      · simp only [hsp, if_false] at h
        by_cases hst : c = '*'
        · simp only [hst, if_true] at h
          split at h
          · simp at h
          · exact ih hcs1 hcs2 { st with ndx := st.ndx + 1 } h0 hr h
        · simp only [hst, if_false] at h
          refine ih hcs1 hcs2 ⟨st.ndx + 1, st.state, (if st.state = 1 then st.idLen + 1 else st.idLen),
                                (if st.state = 2 then st.relLen + 1 else st.relLen)⟩ h0 ?_ h
          simp [h0, hr]

/-! ### the facts assembled -/

theorem userRel_eq (u : String) : userRel u = (toUserParts u).rel := rfl

theorem wild_of_shape (u : String) (sh : UserShape u) (h : isUsersetUser u = true) :
    (toUserParts u).id = "*" ↔ userRel u = "" := by
  rw [userRel_eq, toUserParts_of_shape u sh]
  simp only
  have hstar : ("*" : String) = String.ofList ['*'] := by decide
  have hid : String.ofList sh.id = "*" ↔ sh.id = ['*'] := by
    rw [hstar]
    constructor
    · intro e; have := congrArg String.toList e; simpa using this
    · intro e; rw [e]
  rw [hid, ofList_eq_empty]
  have hu : u.toList = sh.ty ++ ':' :: (sh.id ++ (if sh.rel = [] then [] else '#' :: sh.rel)) := by
    rw [sh.hu]; simp
  unfold isUsersetUser at h
  rcases Bool.or_eq_true_iff.mp h with hv | hw
  · -- a valid userset: it has a relation and no '*' after the ':'
    unfold isValidUserset at hv
    rw [hu] at hv
    obtain ⟨st', h1, h2, h3⟩ := validUserset_after_type sh.ty _ sh.ty_nc sh.ty_nh {} rfl rfl hv
    have hrel : sh.rel ≠ [] := by
      intro hr
      simp only [hr, if_true, List.append_nil] at h3
      rw [validUserset_needs_hash sh.id st' h2 (by omega) sh.id_nh] at h3
      exact absurd h3 (by simp)
    have hidne : sh.id ≠ ['*'] := by
      intro e
      have : '*' ∈ sh.id ++ (if sh.rel = [] then [] else '#' :: sh.rel) := by simp [e]
      rw [validUserset_no_star _ st' (by omega) this] at h3
      exact absurd h3 (by simp)
    simp [hrel, hidne]
  · -- a typed wildcard
    unfold isWildcard at hw
    rcases Bool.or_eq_true_iff.mp hw with e | e
    · have e' : u = "*" := by simpa using e
      have := congrArg String.toList e'
      rw [hu] at this
      cases hty : sh.ty with
      | nil => exact absurd hty sh.ty_ne
      | cons a as =>
        rw [hty] at this
        have hl := congrArg List.length this
        simp at hl
    · have e2 : (splitObject u).2 = "*" := by
        have := (Bool.and_eq_true_iff.mp e).2
        simpa using this
      rw [splitObject_of u sh.ty _ hu sh.ty_nc] at e2
      simp only at e2
      rw [hstar] at e2
      have e3 : sh.id ++ (if sh.rel = [] then [] else '#' :: sh.rel) = ['*'] := by
        have := congrArg String.toList e2; simpa using this
      by_cases hr : sh.rel = []
      · simp [hr] at e3
        simp [hr, e3]
      · simp only [hr, if_false] at e3
        exfalso
        cases hidc : sh.id with
        | nil => rw [hidc] at e3; simp at e3
        | cons a as =>
          rw [hidc] at e3
          have hl := congrArg List.length e3
          simp at hl

/-- **`ColsOK` is a theorem** for stores whose user strings are well-shaped. -/
theorem colsOK_of_shapes (s : List TupleRec) (h : ∀ t ∈ s, Nonempty (UserShape t.user)) : ColsOK s := by
  refine ⟨?_, ?_, ?_⟩
  · intro t ht; obtain ⟨sh⟩ := h t ht; exact fromUserParts_of_shape _ sh
  · intro t ht; obtain ⟨sh⟩ := h t ht
    rw [toUserParts_of_shape _ sh, getType_of_shape _ sh]
  · intro t ht hu; obtain ⟨sh⟩ := h t ht; exact wild_of_shape _ sh hu

/-- **`PrefOK` is a theorem** for such stores, for every type name. -/
theorem prefOK_of_shapes (s : List TupleRec) (h : ∀ t ∈ s, Nonempty (UserShape t.user)) (ty : String) : PrefOK s ty := by
  intro t ht; obtain ⟨sh⟩ := h t ht; exact hasPrefix_iff_typ _ sh ty

/-- a well-shaped filter user (`type:`, `type:id`, `type:id#rel`) satisfies `UserFilterWF` -/
theorem userFilterWF_of_shape (fu : String) (sh : UserShape fu) (hto : sh.id = [] → sh.rel = []) : UserFilterWF fu := by
  refine ⟨fromUserParts_of_shape _ sh, ?_, ?_⟩
  · rw [toUserParts_of_shape _ sh]; simp only
    intro e; exact sh.ty_ne ((ofList_eq_empty _).mp e)
  · rw [toUserParts_of_shape _ sh]; simp only
    intro e; rw [ofList_eq_empty] at e ⊢; exact hto e

/-- non-vacuity: a userset, a wildcard, an object and a type-only filter have the shape -/
def shapeOf (u : String) (ty id rel : String)
    (hu : u.toList = ty.toList ++ ':' :: id.toList ++ (if rel.toList = [] then [] else '#' :: rel.toList) := by decide)
    (h1 : ty.toList ≠ [] := by decide) (h2 : ':' ∉ ty.toList := by decide) (h3 : '#' ∉ ty.toList := by decide)
    (h4 : ':' ∉ id.toList := by decide) (h5 : '#' ∉ id.toList := by decide)
    (h6 : '#' ∉ rel.toList := by decide) (h7 : ':' ∉ rel.toList := by decide) : UserShape u :=
  ⟨ty.toList, id.toList, rel.toList, hu, h1, h2, h3, h4, h5, h6, h7⟩

example : UserShape "group:eng#member" := shapeOf _ "group" "eng" "member"
example : UserShape "user:*" := shapeOf _ "user" "*" ""
example : UserShape "user:anne@x.org" := shapeOf _ "user" "anne@x.org" ""
example : UserShape "group:" := shapeOf _ "group" "" ""

/-- a `UserFilter` entry `{Object: "type:id", Relation: rel}` with separator-free parts satisfies `TargetWF` -/
theorem targetWF_of_parts (u : ObjRel) (ty id : List Char) (ho : u.object.toList = ty ++ ':' :: id)
    (h1 : ty ≠ []) (h2 : ':' ∉ ty) (h3 : '#' ∉ ty) (h4 : ':' ∉ id) (h5 : '#' ∉ id)
    (h6 : '#' ∉ u.relation.toList) (h7 : ':' ∉ u.relation.toList) : TargetWF u := by
  have hrel : u.relation = "" ↔ u.relation.toList = [] := by
    constructor
    · intro e; rw [e]; rfl
    · intro e; exact String.toList_eq_nil_iff.mp e
  have hsh : ∃ sh : UserShape (targetUser u), sh.ty = ty ∧ sh.id = id ∧ sh.rel = u.relation.toList := by
    refine ⟨⟨ty, id, u.relation.toList, ?_, h1, h2, h3, h4, h5, h6, h7⟩, rfl, rfl, rfl⟩
    unfold targetUser
    by_cases hr : u.relation = ""
    · have : u.relation.toList = [] := hrel.mp hr
      simp [hr, ho]
    · have : u.relation.toList ≠ [] := fun e => hr (hrel.mpr e)
      have hh : ("#" : String).toList = ['#'] := by decide
      simp [hr, this, ho, String.toList_append, hh]
  obtain ⟨sh, e1, e2, e3⟩ := hsh
  refine ⟨?_, fromUserParts_of_shape _ sh⟩
  rw [toUserParts_of_shape _ sh, splitObject_of u.object ty id ho h2, e1, e2, e3]
  simp

example : TargetWF ⟨"group:eng", "member"⟩ :=
  targetWF_of_parts _ "group".toList "eng".toList (by decide) (by decide) (by decide) (by decide) (by decide) (by decide)
    (by decide) (by decide)

end OpenFGAVerif.Proofs.UserStr
