/-
C18, proofs part 1: the string functions of `pkg/tuple` on well-formed users / objects, in terms of the
first-separator splits the specification uses (`Spec.Allowed.typed`), and step-by-step characterisations of the
validation functions of `Model.Validation`.
-/
import OpenFGAVerif.Proofs.TupleStrRoundtrip
import OpenFGAVerif.Spec.Allowed

namespace OpenFGAVerif.Proofs.Validation
open OpenFGAVerif.Model.TupleStr (Bytes cColon cHash cAt cStar cSpace wildcard runes isControl indexByte lastIndexByte splitObject buildObject getType splitObjectRelation getRelation toObjectRelationString getObjectRelationAsString toUserParts isValidObject isValidRelation isValidUserID isValidUserset isValidUser isObjectRelation isTypedWildcard isWildcard typedPublicWildcard)
open OpenFGAVerif.Spec.TupleStr OpenFGAVerif.Proofs.TupleStr
open OpenFGAVerif.Model.Validation OpenFGAVerif.Spec.Allowed

/-! ### `Except Err Unit` plumbing -/

theorem bind_ok_iff (x : R) (f : Unit → R) : (x >>= f) = .ok () ↔ x = .ok () ∧ f () = .ok () := by
  cases x with
  | error e => simp [bind, Except.bind]
  | ok u => cases u; simp [bind, Except.bind]

theorem ite_err_ok_iff (c : Bool) (e : Err) (y : R) : (if c then (.error e : R) else y) = .ok () ↔ c = false ∧ y = .ok () := by
  cases c <;> simp

/-! ### first-separator splits versus `SplitObject` / `SplitObjectRelation` -/

theorem splitObject_of_typed (s t i : Bytes) (h : typed s = some (t, i)) : splitObject s = (t, i) := by
  obtain ⟨e, hn⟩ := splitFirst_some 58 s t i h
  rw [e]; exact splitObject_append t i hn

theorem splitObject_of_untyped (s : Bytes) (h : typed s = none) : splitObject s = ([], s) :=
  splitObject_no_colon s (splitFirst_none 58 s h)

theorem getType_eq_userTypeOf (s : Bytes) : getType s = userTypeOf s := by
  unfold getType userTypeOf
  cases h : typed s with
  | none => rw [splitObject_of_untyped s h]
  | some p => obtain ⟨t, i⟩ := p; rw [splitObject_of_typed s t i h]

/-- everything the validation code computes from a user string that is an object `t:i` -/
structure ObjShape (u t i : Bytes) : Prop where
  eq : u = t ++ 58 :: i
  typed : typed u = some (t, i)
  t_ne : t ≠ []
  i_ne : i ≠ []
  no_hash : (35 : UInt8) ∉ u
  no_hash_i : (35 : UInt8) ∉ i

theorem objShape_of (u : Bytes) (h : grammarObjectB u = true) : ∃ t i, ObjShape u t i := by
  unfold grammarObjectB at h
  cases hs : splitFirst 58 u with
  | none => rw [hs] at h; simp at h
  | some p =>
    obtain ⟨t, i⟩ := p
    rw [hs] at h
    simp only [Bool.and_eq_true, decide_eq_true_eq] at h
    obtain ⟨e, _⟩ := splitFirst_some 58 u t i hs
    have h1 := plain_not_mem exObject t h.1.2 35 (by decide)
    have h2 := plain_not_mem exObject i h.2 35 (by decide)
    exact ⟨t, i, e, hs, h.1.1.1, h.1.1.2, by rw [e]; simp [h1, h2], h2⟩

namespace ObjShape
variable {u t i : Bytes} (s : ObjShape u t i)
include s

theorem splitObjectRelation_eq : splitObjectRelation u = (u, []) := splitObjectRelation_no_hash u s.no_hash
theorem splitObject_eq : splitObject u = (t, i) := splitObject_of_typed u t i s.typed
theorem getType_eq : getType u = t := by simp [getType, s.splitObject_eq]
theorem getRelation_eq : getRelation u = [] := by simp [getRelation, s.splitObjectRelation_eq]
theorem userTypeOf_eq : userTypeOf u = t := by simp [userTypeOf, s.typed]
theorem userRelOf_eq : userRelOf u = [] := by
  have : splitFirst 35 i = none := by
    cases h : splitFirst 35 i with
    | none => rfl
    | some p => obtain ⟨a, b⟩ := p; obtain ⟨e, _⟩ := splitFirst_some 35 i a b h; exact absurd (by rw [e]; simp) s.no_hash_i
  simp [userRelOf, s.typed, this]
theorem isStar_eq : isStar u = (i == [42]) := by simp [isStar, s.typed]
theorem isTypedWildcard_eq : isTypedWildcard u = (i == [42]) := by
  simp [isTypedWildcard, s.splitObject_eq, s.t_ne, wildcard, cStar]
theorem ne_star : (u == wildcard) = false := by
  have : u ≠ [42] := by
    rw [s.eq]; intro h
    cases ht : t with
    | nil => exact s.t_ne ht
    | cons a as => rw [ht] at h; simp at h
  simpa [wildcard, cStar] using this
theorem isWildcard_eq : isWildcard u = (i == [42]) := by simp [isWildcard, s.ne_star, s.isTypedWildcard_eq]
theorem not_userset : grammarUsersetB u = false := by
  have : splitFirst 35 i = none := by
    cases h : splitFirst 35 i with
    | none => rfl
    | some p => obtain ⟨a, b⟩ := p; obtain ⟨e, _⟩ := splitFirst_some 35 i a b h; exact absurd (by rw [e]; simp) s.no_hash_i
  have ht : splitFirst 58 u = some (t, i) := s.typed
  simp [grammarUsersetB, ht, this]
end ObjShape

/-- everything the validation code computes from a user string that is a userset `t:i#r` -/
structure UsShape (u t i r : Bytes) : Prop where
  eq : u = (t ++ 58 :: i) ++ 35 :: r
  typed : typed u = some (t, i ++ 35 :: r)
  split2 : splitFirst 35 (i ++ 35 :: r) = some (i, r)
  t_ne : t ≠ []
  i_ne : i ≠ []
  r_ne : r ≠ []
  no_colon_t : (58 : UInt8) ∉ t
  no_hash_r : (35 : UInt8) ∉ r

theorem usShape_of (u : Bytes) (h : grammarUsersetB u = true) : ∃ t i r, UsShape u t i r := by
  unfold grammarUsersetB at h
  cases hs : splitFirst 58 u with
  | none => rw [hs] at h; simp at h
  | some p =>
    obtain ⟨t, rest⟩ := p
    rw [hs] at h
    dsimp only at h
    cases hs2 : splitFirst 35 rest with
    | none => rw [hs2] at h; simp at h
    | some q =>
      obtain ⟨i, r⟩ := q
      rw [hs2] at h
      simp only [Bool.and_eq_true, decide_eq_true_eq] at h
      obtain ⟨e, hn⟩ := splitFirst_some 58 u t rest hs
      obtain ⟨e2, _⟩ := splitFirst_some 35 rest i r hs2
      subst e2
      exact ⟨t, i, r, by rw [e]; simp, hs, hs2, h.1.1.1.1.1, h.1.1.1.1.2, h.1.1.1.2, hn,
        plain_not_mem exUsersetTail r h.2 35 (by decide)⟩

namespace UsShape
variable {u t i r : Bytes} (s : UsShape u t i r)
include s

theorem splitObjectRelation_eq : splitObjectRelation u = (t ++ 58 :: i, r) := by
  rw [s.eq]; exact splitObjectRelation_append _ r s.no_hash_r
theorem splitObject_uo : splitObject (t ++ 58 :: i) = (t, i) := splitObject_append t i s.no_colon_t
theorem splitObject_eq : splitObject u = (t, i ++ 35 :: r) := splitObject_of_typed u _ _ s.typed
theorem getType_eq : getType u = t := by simp [getType, s.splitObject_eq]
theorem getRelation_eq : getRelation u = r := by simp [getRelation, s.splitObjectRelation_eq]
theorem userTypeOf_eq : userTypeOf u = t := by simp [userTypeOf, s.typed]
theorem userRelOf_eq : userRelOf u = r := by simp [userRelOf, s.typed, s.split2]
theorem isStar_eq : isStar u = false := by
  have : i ++ 35 :: r ≠ [42] := by
    cases hi : i with
    | nil => exact absurd hi s.i_ne
    | cons a as => cases as <;> simp
  simp [isStar, s.typed, this]
theorem isTypedWildcard_eq : isTypedWildcard u = false := by
  have : i ++ 35 :: r ≠ [42] := by
    cases hi : i with
    | nil => exact absurd hi s.i_ne
    | cons a as => cases as <;> simp
  simp [isTypedWildcard, s.splitObject_eq, wildcard, cStar, this]
theorem ne_star : (u == wildcard) = false := by
  have : u ≠ [42] := by
    rw [s.eq]; intro h
    cases ht : t with
    | nil => exact s.t_ne ht
    | cons a as => rw [ht] at h; simp at h
  simpa [wildcard, cStar] using this
theorem isWildcard_eq : isWildcard u = false := by simp [isWildcard, s.ne_star, s.isTypedWildcard_eq]
theorem not_object : grammarObjectB u = false := by
  have ht : splitFirst 58 u = some (t, i ++ 35 :: r) := s.typed
  have : plain exObject (i ++ 35 :: r) = false := by
    cases hp : plain exObject (i ++ 35 :: r) with
    | false => rfl
    | true => exact absurd (by simp) (plain_not_mem exObject _ hp 35 (by decide))
  simp [grammarObjectB, ht, this]
end UsShape

end OpenFGAVerif.Proofs.Validation
