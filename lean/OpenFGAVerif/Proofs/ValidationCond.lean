/-
C18, proofs part 3: `validateCondition` — the context cast (`CastContextToTypedParameters` + undeclared keys) and the
two restriction loops, in the vocabulary of the specification.
-/
import OpenFGAVerif.Proofs.ValidationSteps

namespace OpenFGAVerif.Proofs.Validation
open OpenFGAVerif.Model.TupleStr (Bytes cColon cHash cAt cStar cSpace wildcard runes isControl indexByte lastIndexByte splitObject buildObject getType splitObjectRelation getRelation toObjectRelationString getObjectRelationAsString toUserParts isValidObject isValidRelation isValidUserID isValidUserset isValidUser isObjectRelation isTypedWildcard isWildcard typedPublicWildcard)
open OpenFGAVerif.Spec.TupleStr OpenFGAVerif.Proofs.TupleStr
open OpenFGAVerif.Model.Validation OpenFGAVerif.Spec.Allowed
open OpenFGAVerif.Model.Condition (Ctx Std TypeRef PVal TVal getLast decode convert asInterface Res castLoop castContext)

/-! ### maps as binding lists -/

theorem getLast_isSome_cons {α : Type} (k' : String) (v : α) (rest : List (String × α)) (k : String) :
    (getLast ((k', v) :: rest) k).isSome = ((getLast rest k).isSome || k' == k) := by
  simp only [getLast]
  cases h : getLast rest k with
  | some w => simp
  | none => by_cases hk : k' = k <;> simp [hk]

theorem getLast_isSome_of_mem {α : Type} (l : List (String × α)) (kv : String × α) (h : kv ∈ l) :
    (getLast l kv.1).isSome = true := by
  induction l with
  | nil => simp at h
  | cons a as ih =>
    obtain ⟨k', v⟩ := a
    rw [getLast_isSome_cons]
    rcases List.mem_cons.mp h with rfl | h
    · simp
    · simp [ih h]

theorem all_congr_mem {α : Type} (l : List α) (p q : α → Bool) (h : ∀ a ∈ l, p a = q a) : l.all p = l.all q := by
  induction l with
  | nil => rfl
  | cons a as ih =>
    simp only [List.all_cons]
    rw [h a (by simp), ih (fun b hb => h b (by simp [hb]))]

/-! ### CastContextToTypedParameters -/

/-- one declared parameter converts (or is not supplied) -/
def paramOK (std : Std) (ctx : Ctx) (p : String × TypeRef) : Bool :=
  match getLast ctx p.1 with
  | none => true
  | some pv =>
    match decode p.2 with
    | none => false
    | some ty => (match convert std ty (asInterface pv) with | .ok _ => true | _ => false)

theorem paramsConvert_eq (std : Std) (cd : CondDef) (ctx : Ctx) :
    paramsConvert std cd ctx = cd.params.all (paramOK std ctx) := rfl

/-- the loop succeeds exactly when every supplied declared parameter converts; the typed map then has exactly the
supplied declared keys -/
theorem castLoop_spec (std : Std) (ctx : Ctx) (ps : List (String × TypeRef)) :
    (ps.all (paramOK std ctx) = true →
      ∃ typed, castLoop std ctx ps = .ok typed ∧
        ∀ k, (getLast typed k).isSome = ps.any (fun p => p.1 == k && (getLast ctx p.1).isSome)) ∧
    (ps.all (paramOK std ctx) = false → ∀ typed, castLoop std ctx ps ≠ .ok typed) := by
  induction ps with
  | nil => exact ⟨fun _ => ⟨[], rfl, fun k => by simp [getLast]⟩, fun h => by simp at h⟩
  | cons p rest ih =>
    obtain ⟨k, r⟩ := p
    simp only [List.all_cons]
    unfold castLoop
    unfold paramOK
    cases hg : getLast ctx k with
    | none =>
      simp only [Bool.true_and]
      refine ⟨fun h => ?_, fun h => ih.2 h⟩
      obtain ⟨typed, h1, h2⟩ := ih.1 h
      exact ⟨typed, h1, fun k' => by rw [h2 k']; simp [hg]⟩
    | some pv =>
      dsimp only
      cases hd : decode r with
      | none => exact ⟨fun h => by simp at h, fun _ typed => by simp⟩
      | some ty =>
        dsimp only
        cases hc : convert std ty (asInterface pv) with
        | typeErr => exact ⟨fun h => by simp at h, fun _ typed => by simp⟩
        | panic => exact ⟨fun h => by simp at h, fun _ typed => by simp⟩
        | ok tv =>
          simp only [Bool.true_and]
          refine ⟨fun h => ?_, fun h typed => ?_⟩
          · obtain ⟨typed, h1, h2⟩ := ih.1 h
            refine ⟨(k, tv) :: typed, by rw [h1], fun k' => ?_⟩
            rw [getLast_isSome_cons, h2 k']
            simp [hg, Bool.or_comm]
          · have := ih.2 h
            cases hl : castLoop std ctx rest with
            | ok tvs => exact absurd hl (this tvs)
            | typeErr => simp
            | panic => simp

theorem validateContext_ok_iff (std : Std) (cd : CondDef) (ctx : Ctx) :
    validateContext std cd ctx = .ok () ↔
      (!fieldsForbidden ctx && keysDeclared cd ctx && paramsConvert std cd ctx) = true := by
  unfold validateContext
  cases hf : fieldsForbidden ctx with
  | true => simp
  | false =>
    simp only [Bool.false_eq_true, ↓reduceIte, Bool.not_false, Bool.true_and]
    unfold castContext
    cases hctx : ctx with
    | nil => simp [keysDeclared, paramsConvert, getLast]
    | cons kv0 ctx' =>
      rw [← hctx]
      have hne : ctx.isEmpty = false := by rw [hctx]; rfl
      simp only [hne, Bool.false_eq_true, ↓reduceIte]
      cases hps : cd.params with
      | nil =>
        simp [keysDeclared, hps, hctx]
      | cons p0 ps' =>
        rw [← hps]
        have hpne : cd.params.isEmpty = false := by rw [hps]; rfl
        simp only [hpne, Bool.false_eq_true, ↓reduceIte]
        rw [paramsConvert_eq]
        cases hall : cd.params.all (paramOK std ctx) with
        | false =>
          have := (castLoop_spec std ctx cd.params).2 hall
          cases hl : castLoop std ctx cd.params with
          | ok tvs => exact absurd hl (this tvs)
          | typeErr => simp
          | panic => simp
        | true =>
          obtain ⟨typed, h1, h2⟩ := (castLoop_spec std ctx cd.params).1 hall
          rw [h1]
          simp only [Bool.and_true]
          have : ctx.all (fun kv => (getLast typed kv.1).isSome) = keysDeclared cd ctx := by
            unfold keysDeclared
            apply all_congr_mem
            intro kv hkv
            rw [h2 kv.1]
            apply any_congr_mem
            intro p _
            by_cases hp : p.1 = kv.1
            · simp [hp, getLast_isSome_of_mem ctx kv hkv]
            · simp [hp]
          rw [this]
          cases keysDeclared cd ctx <;> simp

end OpenFGAVerif.Proofs.Validation
