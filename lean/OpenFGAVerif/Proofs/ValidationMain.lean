/-
C18, proofs part 4: `ValidateTupleForWrite` (= the contextual-tuple path) and `WriteCommand`'s per-tuple checks
characterised exactly by `Spec.Allowed.acceptedAsContextual` / `acceptedByWrite`.
-/
import OpenFGAVerif.Proofs.ValidationCond

namespace OpenFGAVerif.Proofs.Validation
open OpenFGAVerif.Model.TupleStr OpenFGAVerif.Spec.TupleStr OpenFGAVerif.Proofs.TupleStr
open OpenFGAVerif.Model.Validation OpenFGAVerif.Spec.Allowed
open OpenFGAVerif.Model.Condition (Ctx Std)

/-! ### lookups -/

theorem getRelation_found_iff (m : Model) (ty r : Bytes) (rd : RelDef) :
    m.getRelation ty r = .found rd ↔
      ∃ td, m.types.find? (·.name == ty) = some td ∧ td.rels.find? (·.name == r) = some rd := by
  unfold Model.getRelation Model.findType
  cases h1 : m.types.find? (·.name == ty) with
  | none => simp
  | some td =>
    cases h2 : td.rels.find? (·.name == r) with
    | none => simp [h2]
    | some rd' => simp [h2]

theorem isTupleset_of_find (m : Model) (ty r : Bytes) (td : TypeDef) (h : m.types.find? (·.name == ty) = some td) :
    m.isTupleset ty r = td.tuplesets.contains r := by
  simp [Model.isTupleset, Model.findType, h]

/-! ### the restriction loops of `validateCondition` -/

theorem uncondAdmits_eq (r : Restr) (u : Bytes) (hrel : getRelation u = userRelOf u)
    (htw : isTypedWildcard u = isStar u) :
    uncondAdmits r u =
      (r.cond == [] && r.typ == userTypeOf u &&
        (match r.kind with
         | .obj => !isStar u
         | .wild => isStar u
         | .rel x => x == [] || x == userRelOf u)) := by
  unfold uncondAdmits
  rw [getType_eq_userTypeOf, hrel, htw]
  unfold Restr.hasRelOrWild Restr.relation Restr.isWild
  cases hk : r.kind with
  | obj => simp
  | wild => simp
  | rel x =>
    simp only [Bool.false_and, Bool.not_false, Bool.and_true, ↓reduceIte]
    by_cases h1 : x = [] <;> by_cases h2 : x = userRelOf u <;> simp [h1, h2]

/-- the condition-independent part of `ctxOK` -/
theorem ctxOK_none_eq (std : Std) (m : Model) (t : Tuple) :
    ctxOK std none m t =
      (match t.cond with
       | none => true
       | some (name, ctx) =>
         !forbiddenBytes name &&
         (match m.findCond name with
          | none => false
          | some cd => !fieldsForbidden ctx && keysDeclared cd ctx && paramsConvert std cd ctx)) := by
  unfold ctxOK Model.findCond
  cases t.cond with
  | none => rfl
  | some p => obtain ⟨name, ctx⟩ := p; simp

/-- the loose condition clause of `restrLoose` -/
def condLoose (rd : RelDef) (t : Tuple) : Bool :=
  match t.cond with
  | none =>
    rd.restrs.any (fun r =>
      r.cond == [] && r.typ == userTypeOf t.user &&
      (match r.kind with
       | .obj => !isStar t.user
       | .wild => isStar t.user
       | .rel x => x == [] || x == userRelOf t.user))
  | some (name, _) => rd.restrs.any (fun r => r.typ == userTypeOf t.user && r.cond == name)

theorem restrLoose_eq (rd : RelDef) (t : Tuple) :
    restrLoose rd t = (rd.restrs.any (fun r => userMatches r t.user) && condLoose rd t) := by
  unfold restrLoose condLoose
  cases t.cond with
  | none => rfl
  | some p => rfl

theorem validateCondition_ok_iff (std : Std) (m : Model) (rd : RelDef) (t : Tuple)
    (hrel : getRelation t.user = userRelOf t.user) (htw : isTypedWildcard t.user = isStar t.user) :
    validateCondition std m rd t = .ok () ↔ (condLoose rd t && ctxOK std none m t) = true := by
  unfold validateCondition
  rw [ctxOK_none_eq]
  unfold condLoose
  cases hc : t.cond with
  | none =>
    simp only [Bool.and_true]
    have : rd.restrs.any (fun r => uncondAdmits r t.user) = rd.restrs.any (fun r =>
        r.cond == [] && r.typ == userTypeOf t.user &&
        (match r.kind with
         | .obj => !isStar t.user
         | .wild => isStar t.user
         | .rel x => x == [] || x == userRelOf t.user)) := by
      apply any_congr_mem
      intro r _
      exact uncondAdmits_eq r t.user hrel htw
    rw [this]
    cases rd.restrs.any _ <;> simp
  | some p =>
    obtain ⟨name, ctx⟩ := p
    dsimp only
    cases hf : forbiddenBytes name with
    | true => simp
    | false =>
      simp only [Bool.false_eq_true, ↓reduceIte, Bool.not_false, Bool.true_and]
      cases hcd : m.findCond name with
      | none => simp
      | some cd =>
        dsimp only
        have : rd.restrs.any (fun r => condAdmits r t.user name) =
            rd.restrs.any (fun r => r.typ == userTypeOf t.user && r.cond == name) := by
          apply any_congr_mem
          intro r _
          unfold condAdmits
          rw [getType_eq_userTypeOf]
        rw [this]
        cases rd.restrs.any (fun r => r.typ == userTypeOf t.user && r.cond == name) with
        | false => simp
        | true =>
          simp only [Bool.not_true, Bool.false_eq_true, ↓reduceIte, Bool.true_and]
          exact validateContext_ok_iff std cd ctx

end OpenFGAVerif.Proofs.Validation
