/-
C18, proofs part 4: `ValidateTupleForWrite` (= the contextual-tuple path) and `WriteCommand`'s per-tuple checks
characterised exactly by `Spec.Allowed.acceptedAsContextual` / `acceptedByWrite`.
-/
import OpenFGAVerif.Proofs.ValidationCond

namespace OpenFGAVerif.Proofs.Validation
open OpenFGAVerif.Model.TupleStr (Bytes cColon cHash cAt cStar cSpace wildcard runes isControl indexByte lastIndexByte splitObject buildObject getType splitObjectRelation getRelation toObjectRelationString getObjectRelationAsString toUserParts isValidObject isValidRelation isValidUserID isValidUserset isValidUser isObjectRelation isTypedWildcard isWildcard typedPublicWildcard)
open OpenFGAVerif.Spec.TupleStr OpenFGAVerif.Proofs.TupleStr
open OpenFGAVerif.Model.Validation OpenFGAVerif.Spec.Allowed
open OpenFGAVerif.Model.Condition (Ctx Std)

/-! ### lookups -/

theorem getRelation_found_iff (m : Model) (ty r : Bytes) (rd : RelDef) :
    m.getRelation ty r = .found rd ↔
      ∃ td, m.types.find? (·.name == ty) = some td ∧ td.rels.find? (·.name == r) = some rd := by
  unfold Model.getRelation Model.findType
  cases h1 : m.types.find? (·.name == ty) with
  | none => simp
  | some td =>
    cases h2 : td.rels.find? (·.name == r) with
    | none => simp [h2]
    | some rd' => simp [h2]

theorem isTupleset_of_find (m : Model) (ty r : Bytes) (td : TypeDef) (h : m.types.find? (·.name == ty) = some td) :
    m.isTupleset ty r = td.tuplesets.contains r := by
  simp [Model.isTupleset, Model.findType, h]

/-! ### the restriction loops of `validateCondition` -/

theorem uncondAdmits_eq (r : Restr) (u : Bytes) (hrel : getRelation u = userRelOf u)
    (htw : isTypedWildcard u = isStar u) :
    uncondAdmits r u =
      (r.cond == [] && r.typ == userTypeOf u &&
        (match r.kind with
         | .obj => !isStar u
         | .wild => isStar u
         | .rel x => x == [] || x == userRelOf u)) := by
  unfold uncondAdmits
  rw [getType_eq_userTypeOf, hrel, htw]
  unfold Restr.hasRelOrWild Restr.relation Restr.isWild
  cases hk : r.kind with
  | obj => simp
  | wild => simp
  | rel x =>
    simp only [Bool.false_and, Bool.not_false, Bool.and_true, ↓reduceIte]
    have e1 : (x != []) = !(x == []) := rfl
    have e2 : (x != userRelOf u) = !(x == userRelOf u) := rfl
    rw [e1, e2]
    cases (x == []) <;> cases (x == userRelOf u) <;> simp

/-- the condition-independent part of `ctxOK` -/
theorem ctxOK_none_eq (std : Std) (m : Model) (t : Tuple) :
    ctxOK std none m t =
      (match t.cond with
       | none => true
       | some (name, ctx) =>
         !forbiddenBytes name &&
         (match m.findCond name with
          | none => false
          | some cd => !fieldsForbidden ctx && keysDeclared cd ctx && paramsConvert std cd ctx)) := by
  unfold ctxOK Model.findCond
  cases t.cond with
  | none => rfl
  | some p =>
    obtain ⟨name, ctx⟩ := p
    simp only [Bool.and_true]
    cases m.conds.find? (·.name == name) <;> rfl

/-- the loose condition clause of `restrLoose` -/
def condLoose (rd : RelDef) (t : Tuple) : Bool :=
  match t.cond with
  | none =>
    rd.restrs.any (fun r =>
      r.cond == [] && r.typ == userTypeOf t.user &&
      (match r.kind with
       | .obj => !isStar t.user
       | .wild => isStar t.user
       | .rel x => x == [] || x == userRelOf t.user))
  | some (name, _) => rd.restrs.any (fun r => r.typ == userTypeOf t.user && r.cond == name)

theorem restrLoose_eq (rd : RelDef) (t : Tuple) :
    restrLoose rd t = (rd.restrs.any (fun r => userMatches r t.user) && condLoose rd t) := by
  unfold restrLoose condLoose
  cases t.cond with
  | none => rfl
  | some p => rfl

theorem validateCondition_ok_iff (std : Std) (m : Model) (rd : RelDef) (t : Tuple)
    (hrel : getRelation t.user = userRelOf t.user) (htw : isTypedWildcard t.user = isStar t.user) :
    validateCondition std m rd t = .ok () ↔ (condLoose rd t && ctxOK std none m t) = true := by
  unfold validateCondition
  rw [ctxOK_none_eq]
  unfold condLoose
  cases hc : t.cond with
  | none =>
    simp only [Bool.and_true]
    have : rd.restrs.any (fun r => uncondAdmits r t.user) = rd.restrs.any (fun r =>
        r.cond == [] && r.typ == userTypeOf t.user &&
        (match r.kind with
         | .obj => !isStar t.user
         | .wild => isStar t.user
         | .rel x => x == [] || x == userRelOf t.user)) := by
      apply any_congr_mem
      intro r _
      exact uncondAdmits_eq r t.user hrel htw
    rw [this]
    cases rd.restrs.any _ <;> simp
  | some p =>
    obtain ⟨name, ctx⟩ := p
    dsimp only
    cases hf : forbiddenBytes name with
    | true => simp
    | false =>
      simp only [Bool.false_eq_true, ↓reduceIte, Bool.not_false, Bool.true_and]
      cases hcd : m.findCond name with
      | none => simp
      | some cd =>
        dsimp only
        have : rd.restrs.any (fun r => condAdmits r t.user name) =
            rd.restrs.any (fun r => r.typ == userTypeOf t.user && r.cond == name) := by
          apply any_congr_mem
          intro r _
          unfold condAdmits
          rw [getType_eq_userTypeOf]
        rw [this]
        cases rd.restrs.any (fun r => r.typ == userTypeOf t.user && r.cond == name) with
        | false => simp
        | true =>
          simp only [Bool.not_true, Bool.false_eq_true, ↓reduceIte, Bool.true_and]
          exact validateContext_ok_iff std cd ctx

end OpenFGAVerif.Proofs.Validation

namespace OpenFGAVerif.Proofs.Validation
open OpenFGAVerif.Model.TupleStr (Bytes cColon cHash cAt cStar cSpace wildcard runes isControl indexByte lastIndexByte splitObject buildObject getType splitObjectRelation getRelation toObjectRelationString getObjectRelationAsString toUserParts isValidObject isValidRelation isValidUserID isValidUserset isValidUser isObjectRelation isTypedWildcard isWildcard typedPublicWildcard)
open OpenFGAVerif.Spec.TupleStr OpenFGAVerif.Proofs.TupleStr
open OpenFGAVerif.Model.Validation OpenFGAVerif.Spec.Allowed
open OpenFGAVerif.Model.Condition (Ctx Std)

/-! ### the common normal form -/

/-- clauses 1–4 of the specification with the loose condition clause, as a proposition -/
def Core (std : Std) (m : Model) (t : Tuple) : Prop :=
  grammarObjectB t.obj = true ∧
  ∃ typ id td rd,
    typed t.obj = some (typ, id) ∧ id ≠ [42] ∧ grammarRelationB t.rel = true ∧
    m.types.find? (·.name == typ) = some td ∧ td.rels.find? (·.name == t.rel) = some rd ∧
    rd.restrs.any (fun r => userMatches r t.user) = true ∧ condLoose rd t = true ∧
    (!td.tuplesets.contains t.rel || (rd.direct && concreteObject t.user)) = true ∧
    ctxOK std none m t = true

theorem contextual_iff_core (std : Std) (m : Model) (t : Tuple) :
    acceptedAsContextual std m t = true ↔ Core std m t := by
  unfold acceptedAsContextual allowedWith Core
  cases hty : typed t.obj with
  | none => simp
  | some p =>
    obtain ⟨typ, id⟩ := p
    dsimp only
    cases hfind : m.types.find? (·.name == typ) with
    | none => simp [hfind]
    | some td =>
      dsimp only
      cases hrel : td.rels.find? (·.name == t.rel) with
      | none => simp [hfind, hrel]
      | some rd =>
        simp only [restrLoose_eq, Bool.true_or, Bool.and_true, Bool.and_eq_true, bne_iff_ne, ne_eq]
        constructor
        · rintro ⟨⟨⟨hgo, hid⟩, hgr⟩, ⟨⟨hm, hc⟩, hts⟩, hctx⟩
          exact ⟨hgo, typ, id, td, rd, rfl, hid, hgr, hfind, hrel, hm, hc, by simpa using hts, hctx⟩
        · rintro ⟨hgo, typ', id', td', rd', he, hid, hgr, hfind', hrel', hm, hc, hts, hctx⟩
          simp only [Option.some.injEq, Prod.mk.injEq] at he
          obtain ⟨rfl, rfl⟩ := he
          rw [hfind] at hfind'; cases hfind'
          rw [hrel] at hrel'; cases hrel'
          exact ⟨⟨⟨hgo, hid⟩, hgr⟩, ⟨⟨hm, hc⟩, by simpa using hts⟩, hctx⟩

/-- the user facts the later steps need, for either shape -/
theorem user_facts (u : Bytes) (h : grammarObjectB u = true ∨ grammarUsersetB u = true) :
    getRelation u = userRelOf u ∧ isTypedWildcard u = isStar u := by
  rcases h with h | h
  · obtain ⟨t, i, s⟩ := objShape_of u h
    exact ⟨by rw [s.getRelation_eq, s.userRelOf_eq], by rw [s.isTypedWildcard_eq, s.isStar_eq]⟩
  · obtain ⟨t, i, r, s⟩ := usShape_of u h
    exact ⟨by rw [s.getRelation_eq, s.userRelOf_eq], by rw [s.isTypedWildcard_eq, s.isStar_eq]⟩

theorem userMatches_shape (r : Restr) (u : Bytes) (h : userMatches r u = true) :
    grammarObjectB u = true ∨ grammarUsersetB u = true := by
  unfold userMatches at h
  cases hk : r.kind <;> rw [hk] at h <;> simp only [Bool.and_eq_true] at h
  · exact Or.inl h.1
  · exact Or.inl h.1
  · exact Or.inr h.1

theorem any_userMatches_shape (rd : RelDef) (u : Bytes) (h : rd.restrs.any (fun r => userMatches r u) = true) :
    grammarObjectB u = true ∨ grammarUsersetB u = true := by
  obtain ⟨r, _, hr⟩ := List.any_eq_true.mp h
  exact userMatches_shape r u hr

/-- with well-formed restrictions, a user that matches a restriction passes `ValidateUser` -/
theorem validateUser_of_matches (m : Model) (rd : RelDef) (u : Bytes)
    (hwf : ∀ r ∈ rd.restrs, (m.findType r.typ).isSome = true ∧
      ∀ x, r.kind = .rel x → x ≠ [] ∧ ∃ rd', m.getRelation r.typ x = .found rd')
    (h : rd.restrs.any (fun r => userMatches r u) = true) : validateUser m u = .ok () := by
  obtain ⟨r, hr, hm⟩ := List.any_eq_true.mp h
  obtain ⟨hty, hrl⟩ := hwf r hr
  unfold userMatches at hm
  cases hk : r.kind with
  | obj =>
    rw [hk] at hm; simp only [Bool.and_eq_true] at hm
    obtain ⟨t, i, s⟩ := objShape_of u hm.1
    rw [s.typed] at hm; simp only [Bool.and_eq_true, beq_iff_eq] at hm
    rw [validateUser_obj s hm.1, hm.2.1]; exact hty
  | wild =>
    rw [hk] at hm; simp only [Bool.and_eq_true] at hm
    obtain ⟨t, i, s⟩ := objShape_of u hm.1
    rw [s.typed] at hm; simp only [Bool.and_eq_true, beq_iff_eq] at hm
    rw [validateUser_obj s hm.1, hm.2.1]; exact hty
  | rel x =>
    rw [hk] at hm; simp only [Bool.and_eq_true] at hm
    obtain ⟨t, i, r', s⟩ := usShape_of u hm.1
    rw [s.typed] at hm; simp only [s.split2, Bool.and_eq_true, beq_iff_eq] at hm
    rw [validateUser_us s hm.1, hm.2.1, hm.2.2]
    exact ⟨hty, (hrl x hk).2⟩

theorem restrs_wf_of (m : Model) (hwf : RestrsWF m) (typ rel : Bytes) (td : TypeDef) (rd : RelDef)
    (hfind : m.types.find? (·.name == typ) = some td) (hrel : td.rels.find? (·.name == rel) = some rd) :
    ∀ r ∈ rd.restrs, (m.findType r.typ).isSome = true ∧
      ∀ x, r.kind = .rel x → x ≠ [] ∧ ∃ rd', m.getRelation r.typ x = .found rd' :=
  hwf td (List.mem_of_find?_eq_some hfind) rd (List.mem_of_find?_eq_some hrel)

theorem typeRestr_iff (rd : RelDef) (u : Bytes) (hne : NoEmptyRel rd)
    (h : grammarObjectB u = true ∨ grammarUsersetB u = true) :
    validateTypeRestr rd u = .ok () ↔ rd.restrs.any (fun r => userMatches r u) = true := by
  rcases h with h | h
  · obtain ⟨t, i, s⟩ := objShape_of u h
    exact validateTypeRestr_obj s h hne
  · obtain ⟨t, i, r, s⟩ := usShape_of u h
    exact validateTypeRestr_us s h

theorem userTypeOf_of_typed (o typ id : Bytes) (h : typed o = some (typ, id)) : userTypeOf o = typ := by
  simp [userTypeOf, h]

/-- **`ValidateTupleForWrite` accepts exactly `Core`** (model restrictions well-formed) -/
theorem forWrite_iff_core (std : Std) (m : Model) (t : Tuple) (hwf : RestrsWF m) :
    validateForWrite std m t = .ok () ↔ Core std m t := by
  unfold validateForWrite validateUOR validateForRead
  simp only [bind_ok_iff]
  rw [validateObject_ok_iff, validateRelation_ok_iff]
  constructor
  · rintro ⟨⟨hU, ⟨hgo, typ, id, hty, hid, _⟩, hgr, rd, hrd⟩, hT, hM⟩
    have htyp := userTypeOf_of_typed _ _ _ hty
    rw [htyp] at hrd
    obtain ⟨td, hfind, hrel⟩ := (getRelation_found_iff m typ t.rel rd).mp hrd
    have hsh : grammarObjectB t.user = true ∨ grammarUsersetB t.user = true := by
      cases h1 : grammarObjectB t.user with
      | true => exact Or.inl rfl
      | false =>
        cases h2 : grammarUsersetB t.user with
        | true => exact Or.inr rfl
        | false => exact absurd hU (validateUser_neither h1 h2)
    have hw := restrs_wf_of m hwf typ t.rel td rd hfind hrel
    have hne : NoEmptyRel rd := fun r hr x hk => ((hw r hr).2 x hk).1
    rw [getType_eq_userTypeOf, htyp, hrd] at hM
    simp only [bind_ok_iff] at hM
    obtain ⟨hTR, hC⟩ := hM
    obtain ⟨f1, f2⟩ := user_facts t.user hsh
    have hT' := (validateTupleset_ok_iff m t rd (by rw [htyp]; exact hrd)).mp hT
    rw [htyp, isTupleset_of_find m typ t.rel td hfind] at hT'
    have hC' := (validateCondition_ok_iff std m rd t f1 f2).mp hC
    simp only [Bool.and_eq_true] at hC'
    exact ⟨hgo, typ, id, td, rd, hty, hid, hgr, hfind, hrel, (typeRestr_iff rd t.user hne hsh).mp hTR, hC'.1, hT', hC'.2⟩
  · rintro ⟨hgo, typ, id, td, rd, hty, hid, hgr, hfind, hrel, hm, hc, hts, hctx⟩
    have htyp := userTypeOf_of_typed _ _ _ hty
    have hrd : m.getRelation typ t.rel = .found rd := (getRelation_found_iff m typ t.rel rd).mpr ⟨td, hfind, hrel⟩
    have hw := restrs_wf_of m hwf typ t.rel td rd hfind hrel
    have hne : NoEmptyRel rd := fun r hr x hk => ((hw r hr).2 x hk).1
    have hsh := any_userMatches_shape rd t.user hm
    obtain ⟨f1, f2⟩ := user_facts t.user hsh
    have hft : (m.findType typ).isSome = true := by simp [Model.findType, hfind]
    refine ⟨⟨validateUser_of_matches m rd t.user hw hm, ⟨hgo, typ, id, hty, hid, hft⟩, hgr, rd, by rw [htyp]; exact hrd⟩, ?_, ?_⟩
    · rw [validateTupleset_ok_iff m t rd (by rw [htyp]; exact hrd), htyp, isTupleset_of_find m typ t.rel td hfind]
      exact hts
    · rw [getType_eq_userTypeOf, htyp, hrd]
      simp only [bind_ok_iff]
      refine ⟨(typeRestr_iff rd t.user hne hsh).mpr hm, ?_⟩
      rw [validateCondition_ok_iff std m rd t f1 f2]
      simp [hc, hctx]

/-- **the contextual-tuple path accepts exactly `acceptedAsContextual`** -/
theorem contextualCheck_ok_iff (std : Std) (m : Model) (t : Tuple) (hwf : RestrsWF m) :
    contextualCheck std m t = .ok () ↔ acceptedAsContextual std m t = true := by
  unfold contextualCheck
  rw [forWrite_iff_core std m t hwf, contextual_iff_core]

end OpenFGAVerif.Proofs.Validation

namespace OpenFGAVerif.Proofs.Validation
open OpenFGAVerif.Model.TupleStr (Bytes cColon cHash cAt cStar cSpace wildcard runes isControl indexByte lastIndexByte splitObject buildObject getType splitObjectRelation getRelation toObjectRelationString getObjectRelationAsString toUserParts isValidObject isValidRelation isValidUserID isValidUserset isValidUser isObjectRelation isTypedWildcard isWildcard typedPublicWildcard)
open OpenFGAVerif.Spec.TupleStr OpenFGAVerif.Proofs.TupleStr
open OpenFGAVerif.Model.Validation OpenFGAVerif.Spec.Allowed
open OpenFGAVerif.Model.Condition (Ctx Std)

/-! ### the write-only checks -/

theorem allowedWith_split (R : RelDef → Tuple → Bool) (std : Std) (lim : Nat) (m : Model) (t : Tuple) :
    allowedWith R (some lim) false std m t =
      (allowedWith R none true std m t && (t.user != t.obj ++ 35 :: t.rel) && decide (ctxSize t ≤ lim)) := by
  unfold allowedWith
  cases typed t.obj with
  | none => simp
  | some p =>
    obtain ⟨typ, id⟩ := p
    dsimp only
    cases m.types.find? (·.name == typ) with
    | none => simp
    | some td =>
      dsimp only
      cases td.rels.find? (·.name == t.rel) with
      | none => simp
      | some rd =>
        dsimp only
        have hc : ctxOK std (some lim) m t = (ctxOK std none m t && decide (ctxSize t ≤ lim)) := by
          unfold ctxOK ctxSize
          cases t.cond with
          | none => simp
          | some q => obtain ⟨name, ctx⟩ := q; simp
        rw [hc]
        cases grammarObjectB t.obj <;> cases (id != [42]) <;> cases grammarRelationB t.rel <;> cases R rd t <;>
          cases (!td.tuplesets.contains t.rel || (rd.direct && concreteObject t.user)) <;>
          cases ctxOK std none m t <;> cases decide (ctxSize t ≤ lim) <;> cases (t.user != t.obj ++ 35 :: t.rel) <;> rfl

theorem grammarRelation_facts (r : Bytes) (h : grammarRelationB r = true) : r ≠ [] ∧ (35 : UInt8) ∉ r := by
  unfold grammarRelationB at h
  simp only [Bool.and_eq_true, decide_eq_true_eq] at h
  exact ⟨h.1, plain_not_mem exRelation r h.2 35 (by decide)⟩

/-- on tuples that pass `ValidateTupleForWrite`, `validateNotImplicit` is "the user is the userset object#relation" -/
theorem isImplicit_eq (std : Std) (m : Model) (t : Tuple) (h : Core std m t) :
    isImplicit t = (t.user == t.obj ++ 35 :: t.rel) := by
  obtain ⟨_, typ, id, td, rd, _, _, hgr, _, _, hm, _⟩ := h
  obtain ⟨hne, h35⟩ := grammarRelation_facts t.rel hgr
  unfold isImplicit
  rcases any_userMatches_shape rd t.user hm with hs | hs
  · obtain ⟨ut, ui, s⟩ := objShape_of t.user hs
    rw [s.splitObjectRelation_eq]
    have h1 : (t.rel == ([] : Bytes)) = false := by simpa using hne
    have h2 : (t.user == t.obj ++ 35 :: t.rel) = false := by
      apply beq_false_of_ne
      intro e; apply s.no_hash; rw [e]; simp
    simp [h1, h2]
  · obtain ⟨ut, ui, ur, s⟩ := usShape_of t.user hs
    rw [s.splitObjectRelation_eq]
    dsimp only
    by_cases e : t.user = t.obj ++ 35 :: t.rel
    · have := s.splitObjectRelation_eq
      rw [e, splitObjectRelation_append t.obj t.rel h35] at this
      simp only [Prod.mk.injEq] at this
      simp [e, this.1, this.2]
    · have : ¬ (t.rel = ur ∧ t.obj = ut ++ 58 :: ui) := by
        rintro ⟨e1, e2⟩; apply e; rw [s.eq, e1, e2]
      have h2 : (t.user == t.obj ++ 35 :: t.rel) = false := beq_false_of_ne e
      rw [h2]
      by_cases e1 : t.rel = ur
      · have e2 : t.obj ≠ ut ++ 58 :: ui := fun e2 => this ⟨e1, e2⟩
        simp [e1, e2]
      · simp [e1]

/-- **`WriteCommand`'s per-tuple checks accept exactly `acceptedByWrite`** -/
theorem writeCheck_ok_iff (std : Std) (lim : Nat) (m : Model) (t : Tuple) (hwf : RestrsWF m) :
    writeCheck std lim m t = .ok () ↔ acceptedByWrite std lim m t = true := by
  unfold acceptedByWrite
  rw [allowedWith_split]
  simp only [Bool.and_eq_true, decide_eq_true_eq, bne_iff_ne, ne_eq]
  unfold writeCheck
  constructor
  · intro h
    cases hw : validateForWrite std m t with
    | error e => rw [hw] at h; simp at h
    | ok u =>
      cases u
      rw [hw] at h
      dsimp only at h
      have hcore := (forWrite_iff_core std m t hwf).mp hw
      have hctx := (contextual_iff_core std m t).mpr hcore
      have himp := isImplicit_eq std m t hcore
      cases hi : isImplicit t with
      | true => rw [hi] at h; simp at h
      | false =>
        rw [hi] at h
        by_cases hsz : ctxSize t > lim
        · simp [hsz] at h
        · refine ⟨⟨hctx, ?_⟩, by omega⟩
          intro e
          rw [himp] at hi
          simp [e] at hi
  · rintro ⟨⟨hctx, hne⟩, hsz⟩
    have hcore := (contextual_iff_core std m t).mp hctx
    have himp := isImplicit_eq std m t hcore
    have hi : isImplicit t = false := by
      rw [himp]; exact beq_false_of_ne hne
    rw [(forWrite_iff_core std m t hwf).mpr hcore]
    have : ¬ ctxSize t > lim := by omega
    simp [hi, this]

/-! ### strict versus loose -/

theorem userMatches_congr (r r' : Restr) (u : Bytes) (h1 : r.typ = r'.typ) (h2 : r.kind = r'.kind) :
    userMatches r u = userMatches r' u := by
  unfold userMatches; rw [h1, h2]

theorem userMatches_typ (r : Restr) (u : Bytes) (h : userMatches r u = true) : r.typ = userTypeOf u := by
  unfold userMatches at h
  unfold userTypeOf
  cases hk : r.kind <;> rw [hk] at h <;> simp only [Bool.and_eq_true] at h <;>
    (cases ht : typed u with
     | none => rw [ht] at h; simp at h
     | some p => obtain ⟨a, b⟩ := p; rw [ht] at h; simp only [Bool.and_eq_true, beq_iff_eq] at h; exact h.2.1.symm)

theorem userMatches_compat (r : Restr) (u : Bytes) (h : userMatches r u = true) :
    (match r.kind with
     | .obj => !isStar u
     | .wild => isStar u
     | .rel x => x == [] || x == userRelOf u) = true := by
  unfold userMatches at h
  unfold isStar userRelOf
  cases ht : typed u with
  | none => cases hk : r.kind <;> rw [hk, ht] at h <;> simp at h
  | some p =>
    obtain ⟨a, b⟩ := p
    cases hk : r.kind with
    | obj =>
      rw [hk, ht] at h
      simp only [Bool.and_eq_true, bne_iff_ne, ne_eq] at h
      simp [h.2.2]
    | wild =>
      rw [hk, ht] at h
      simp only [Bool.and_eq_true, beq_iff_eq] at h
      simp [h.2.2]
    | rel x =>
      rw [hk, ht] at h
      simp only [Bool.and_eq_true] at h
      cases hs : splitFirst 35 b with
      | none => rw [hs] at h; simp at h
      | some q =>
        obtain ⟨c, d⟩ := q
        rw [hs] at h
        simp only [beq_iff_eq] at h
        simp [hs, h.2.2]

theorem strict_imp_loose (rd : RelDef) (t : Tuple) (h : restrStrict rd t = true) : restrLoose rd t = true := by
  unfold restrStrict at h
  obtain ⟨r, hr, hm⟩ := List.any_eq_true.mp h
  simp only [Bool.and_eq_true, beq_iff_eq] at hm
  rw [restrLoose_eq]
  simp only [Bool.and_eq_true]
  refine ⟨List.any_eq_true.mpr ⟨r, hr, hm.1⟩, ?_⟩
  unfold condLoose
  unfold condName at hm
  cases hc : t.cond with
  | none =>
    rw [hc] at hm
    refine List.any_eq_true.mpr ⟨r, hr, ?_⟩
    simp only [Bool.and_eq_true, beq_iff_eq]
    exact ⟨⟨hm.2, userMatches_typ r t.user hm.1⟩, userMatches_compat r t.user hm.1⟩
  | some p =>
    obtain ⟨name, ctx⟩ := p
    rw [hc] at hm
    refine List.any_eq_true.mpr ⟨r, hr, ?_⟩
    simp only [Bool.and_eq_true, beq_iff_eq]
    exact ⟨userMatches_typ r t.user hm.1, hm.2⟩

theorem loose_imp_strict (rd : RelDef) (t : Tuple) (hu : UniformConds rd) (h : restrLoose rd t = true) :
    restrStrict rd t = true := by
  rw [restrLoose_eq] at h
  simp only [Bool.and_eq_true] at h
  obtain ⟨rm, hrm, hm⟩ := List.any_eq_true.mp h.1
  have hty := userMatches_typ rm t.user hm
  -- a restriction of the user's type that carries the tuple's condition (or none)
  have : ∃ rc ∈ rd.restrs, rc.typ = userTypeOf t.user ∧ rc.cond = condName t := by
    have h2 := h.2
    unfold condLoose at h2
    unfold condName
    cases hc : t.cond with
    | none =>
      rw [hc] at h2
      obtain ⟨rc, hrc, hcc⟩ := List.any_eq_true.mp h2
      simp only [Bool.and_eq_true, beq_iff_eq] at hcc
      exact ⟨rc, hrc, hcc.1.2, hcc.1.1⟩
    | some p =>
      obtain ⟨name, ctx⟩ := p
      rw [hc] at h2
      obtain ⟨rc, hrc, hcc⟩ := List.any_eq_true.mp h2
      simp only [Bool.and_eq_true, beq_iff_eq] at hcc
      exact ⟨rc, hrc, hcc.1, hcc.2⟩
  obtain ⟨rc, hrc, hct, hcc⟩ := this
  obtain ⟨r2, hr2, e1, e2, e3⟩ := hu rc hrc rm hrm (by rw [hct, hty])
  unfold restrStrict
  refine List.any_eq_true.mpr ⟨r2, hr2, ?_⟩
  simp only [Bool.and_eq_true, beq_iff_eq]
  exact ⟨by rw [userMatches_congr r2 rm t.user e1 e2]; exact hm, by rw [e3, hcc]⟩

theorem allowedWith_mono (R1 R2 : RelDef → Tuple → Bool) (lim : Option Nat) (sr : Bool) (std : Std) (m : Model) (t : Tuple)
    (hR : ∀ td ∈ m.types, ∀ rd ∈ td.rels, R1 rd t = true → R2 rd t = true)
    (h : allowedWith R1 lim sr std m t = true) : allowedWith R2 lim sr std m t = true := by
  unfold allowedWith at h ⊢
  cases hty : typed t.obj with
  | none => rw [hty] at h; simp at h
  | some p =>
    obtain ⟨typ, id⟩ := p
    rw [hty] at h
    dsimp only at h ⊢
    cases hf : m.types.find? (·.name == typ) with
    | none => rw [hf] at h; simp at h
    | some td =>
      rw [hf] at h
      dsimp only at h ⊢
      cases hr : td.rels.find? (·.name == t.rel) with
      | none => rw [hr] at h; simp at h
      | some rd =>
        rw [hr] at h
        dsimp only at h ⊢
        simp only [Bool.and_eq_true] at h ⊢
        obtain ⟨h1, ⟨⟨h2, h3⟩, h4⟩, h5⟩ := h
        exact ⟨h1, ⟨⟨hR td (List.mem_of_find?_eq_some hf) rd (List.mem_of_find?_eq_some hr) h2, h3⟩, h4⟩, h5⟩

/-! ### deletes -/

theorem checkAll_ok_iff {α : Type} (f : α → R) (l : List α) : checkAll f l = .ok () ↔ ∀ x ∈ l, f x = .ok () := by
  induction l with
  | nil => simp [checkAll]
  | cons a as ih => simp [checkAll, bind_ok_iff, ih]

end OpenFGAVerif.Proofs.Validation
