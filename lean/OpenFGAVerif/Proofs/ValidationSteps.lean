/-
C18, proofs part 2: each validation step of `Model.Validation` characterised in the vocabulary of the specification.
-/
import OpenFGAVerif.Proofs.Validation

namespace OpenFGAVerif.Proofs.Validation
open OpenFGAVerif.Model.TupleStr (Bytes cColon cHash cAt cStar cSpace wildcard runes isControl indexByte lastIndexByte splitObject buildObject getType splitObjectRelation getRelation toObjectRelationString getObjectRelationAsString toUserParts isValidObject isValidRelation isValidUserID isValidUserset isValidUser isObjectRelation isTypedWildcard isWildcard typedPublicWildcard)
open OpenFGAVerif.Spec.TupleStr OpenFGAVerif.Proofs.TupleStr
open OpenFGAVerif.Model.Validation OpenFGAVerif.Spec.Allowed

/-! ### ValidateUser -/

theorem isObjectRelation_eq (u : Bytes) : isObjectRelation u = grammarUsersetB u := by
  unfold isObjectRelation; exact isValidUserset_eq_grammarB u

theorem validateUser_obj {m : Model} {u t i : Bytes} (s : ObjShape u t i) (hg : grammarObjectB u = true) :
    validateUser m u = .ok () ↔ (m.findType t).isSome = true := by
  unfold validateUser
  rw [isValidUser_eq_grammarB, isValidObject_eq_grammarB, isObjectRelation_eq, s.not_userset, hg,
    s.splitObjectRelation_eq]
  simp only [grammarUserB, hg, s.getType_eq]
  cases h : (m.findType t).isNone <;> simp_all [Option.isNone_iff_eq_none, Option.isSome_iff_ne_none]

theorem validateUser_us {m : Model} {u t i r : Bytes} (s : UsShape u t i r) (hg : grammarUsersetB u = true) :
    validateUser m u = .ok () ↔ (m.findType t).isSome = true ∧ ∃ rd, m.getRelation t r = .found rd := by
  unfold validateUser
  rw [isValidUser_eq_grammarB, isValidObject_eq_grammarB, isObjectRelation_eq, s.not_object, hg,
    s.splitObjectRelation_eq]
  have hu : getType (t ++ 58 :: i) = t := by simp [getType, s.splitObject_uo]
  simp only [grammarUserB, hg, hu]
  cases h : (m.findType t).isNone with
  | true => simp_all [Option.isNone_iff_eq_none]
  | false =>
    have : (m.findType t).isSome = true := by
      cases hf : m.findType t <;> simp_all
    cases hr : m.getRelation t r <;> simp_all

theorem validateUser_neither {m : Model} {u : Bytes} (h1 : grammarObjectB u = false) (h2 : grammarUsersetB u = false) :
    validateUser m u ≠ .ok () := by
  unfold validateUser
  rw [isValidUser_eq_grammarB, isValidObject_eq_grammarB, isObjectRelation_eq, h1, h2]
  cases grammarUserB u <;> simp

/-! ### ValidateObject / ValidateRelation -/

theorem validateObject_ok_iff (m : Model) (o : Bytes) :
    validateObject m o = .ok () ↔
      grammarObjectB o = true ∧ ∃ typ id, typed o = some (typ, id) ∧ id ≠ [42] ∧ (m.findType typ).isSome = true := by
  unfold validateObject
  rw [isValidObject_eq_grammarB]
  cases hg : grammarObjectB o with
  | false => simp
  | true =>
    obtain ⟨t, i, s⟩ := objShape_of o hg
    rw [s.splitObject_eq]
    simp only [s.typed, wildcard, cStar]
    by_cases hi : i = [42]
    · simp [hi]
    · cases hf : m.findType t with
      | none => simp [hi, hf]
      | some v => simp [hi]; exact ⟨t, i, ⟨rfl, rfl⟩, hi, by simp [hf]⟩

theorem validateRelation_ok_iff (m : Model) (o r : Bytes) :
    validateRelation m o r = .ok () ↔ grammarRelationB r = true ∧ ∃ rd, m.getRelation (userTypeOf o) r = .found rd := by
  unfold validateRelation
  rw [isValidRelation_eq_grammarB, getType_eq_userTypeOf]
  cases hg : grammarRelationB r with
  | false => simp
  | true => cases hr : m.getRelation (userTypeOf o) r <;> simp

/-! ### validateTuplesetRestrictions -/

theorem concreteObject_eq (u : Bytes) : concreteObject u = (!isWildcard u && isValidObject u) := by
  unfold concreteObject
  rw [isValidObject_eq_grammarB]
  cases hg : grammarObjectB u with
  | false => simp
  | true =>
    obtain ⟨t, i, s⟩ := objShape_of u hg
    rw [s.isWildcard_eq]; simp [s.typed, bne]

theorem validateTupleset_ok_iff (m : Model) (t : Tuple) (rd : RelDef)
    (hr : m.getRelation (userTypeOf t.obj) t.rel = .found rd) :
    validateTupleset m t = .ok () ↔
      (!m.isTupleset (userTypeOf t.obj) t.rel || (rd.direct && concreteObject t.user)) = true := by
  unfold validateTupleset
  rw [getType_eq_userTypeOf]
  simp only [hr, concreteObject_eq]
  cases m.isTupleset (userTypeOf t.obj) t.rel <;> cases rd.direct <;> cases isWildcard t.user <;>
    cases isValidObject t.user <;> simp

/-! ### validateTypeRestrictions -/

theorem any_congr_mem {α : Type} (l : List α) (p q : α → Bool) (h : ∀ a ∈ l, p a = q a) : l.any p = l.any q := by
  induction l with
  | nil => rfl
  | cons a as ih =>
    simp only [List.any_cons]
    rw [h a (by simp), ih (fun b hb => h b (by simp [hb]))]

/-- no restriction is the degenerate `type#""` -/
def NoEmptyRel (rd : RelDef) : Prop := ∀ r ∈ rd.restrs, ∀ x, r.kind = .rel x → x ≠ []

theorem validateTypeRestr_obj {rd : RelDef} {u t i : Bytes} (s : ObjShape u t i) (hg : grammarObjectB u = true)
    (hne : NoEmptyRel rd) :
    validateTypeRestr rd u = .ok () ↔ rd.restrs.any (fun r => userMatches r u) = true := by
  unfold validateTypeRestr
  rw [isObjectRelation_eq, s.not_userset, s.splitObjectRelation_eq]
  simp only [s.splitObject_eq, s.isTypedWildcard_eq]
  by_cases hi : i = [42]
  · have : rd.restrs.any (fun r => r.typ == t && r.isWild) = rd.restrs.any (fun r => userMatches r u) := by
      apply any_congr_mem
      intro r _
      unfold userMatches Restr.isWild
      cases hk : r.kind <;> simp [hg, s.typed, hi, s.not_userset, Bool.beq_comm (a := t)]
    rw [← this]
    cases rd.restrs.any (fun r => r.typ == t && r.isWild) <;> simp [hi]
  · have : rd.restrs.any (fun r => r.typ == t && !r.isWild && r.relation == []) = rd.restrs.any (fun r => userMatches r u) := by
      apply any_congr_mem
      intro r hr
      unfold userMatches Restr.isWild Restr.relation
      cases hk : r.kind with
      | obj => simp [hg, s.typed, hi, Bool.beq_comm (a := t)]
      | wild => simp [hg, s.typed, hi]
      | rel x => simp [s.not_userset, hne r hr x hk]
    rw [← this]
    cases rd.restrs.any (fun r => r.typ == t && !r.isWild && r.relation == []) <;> simp [hi]

theorem validateTypeRestr_us {rd : RelDef} {u t i r : Bytes} (s : UsShape u t i r) (hg : grammarUsersetB u = true) :
    validateTypeRestr rd u = .ok () ↔ rd.restrs.any (fun x => userMatches x u) = true := by
  unfold validateTypeRestr
  rw [isObjectRelation_eq, hg, s.splitObjectRelation_eq]
  simp only [s.splitObject_uo]
  have : rd.restrs.any (fun x => x.typ == t && x.relation == r) = rd.restrs.any (fun x => userMatches x u) := by
    apply any_congr_mem
    intro x _
    unfold userMatches Restr.relation
    cases hk : x.kind with
    | obj => simp [s.not_object]; intro _; exact fun h => s.r_ne h
    | wild => simp [s.not_object]; intro _; exact fun h => s.r_ne h
    | rel y => simp [hg, s.typed, s.split2, Bool.beq_comm (a := t), Bool.beq_comm (a := r)]
  rw [← this]
  cases rd.restrs.any (fun x => x.typ == t && x.relation == r) <;> simp

end OpenFGAVerif.Proofs.Validation
