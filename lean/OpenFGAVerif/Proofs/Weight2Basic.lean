/-
Basic facts about the stream primitives of `Model/Weight2Streams.lean`, for *clean* streams (no error
message, no failing iterator): what `fetchSource`, `CleanDone`, `Head`, `Next`, `SkipToTargetObject`,
`Drain`, the head scan and `NextItemInSliceStreams` do to the *content* of a stream (the object ids it
still has to deliver) and to the termination measure `Stream.weight`.
-/
import OpenFGAVerif.Model.Weight2Streams

namespace OpenFGAVerif.Weight2

/-- the comparison on object ids is a strict total order (Go string comparison; `String`, `Nat`) -/
class StrictOrd (α : Type) [LT α] : Prop where
  irrefl : ∀ a : α, ¬ a < a
  trans : ∀ {a b c : α}, a < b → b < c → a < c
  tri : ∀ a b : α, a < b ∨ a = b ∨ b < a

instance : StrictOrd Nat where
  irrefl := Nat.lt_irrefl
  trans := Nat.lt_trans
  tri := fun a b => by omega

instance : StrictOrd String where
  irrefl := String.lt_irrefl
  trans := String.lt_trans
  tri := fun a b => by
    by_cases h1 : a < b
    · exact .inl h1
    · by_cases h2 : b < a
      · exact .inr (.inr h2)
      · exact .inr (.inl (String.le_antisymm (String.not_lt.mp h2) (String.not_lt.mp h1)))

variable {α : Type}

/-- pointwise relation between two lists of the same length -/
inductive All2 {β γ : Type} (R : β → γ → Prop) : List β → List γ → Prop
  | nil : All2 R [] []
  | cons {a b as bs} : R a b → All2 R as bs → All2 R (a :: as) (b :: bs)

theorem All2.length_eq {β γ : Type} {R : β → γ → Prop} {l1 : List β} {l2 : List γ} (h : All2 R l1 l2) :
    l1.length = l2.length := by
  induction h with
  | nil => rfl
  | cons _ _ ih => simp [ih]

theorem All2.imp {β γ : Type} {R S : β → γ → Prop} (hRS : ∀ a b, R a b → S a b) {l1 : List β} {l2 : List γ}
    (h : All2 R l1 l2) : All2 S l1 l2 := by
  induction h with
  | nil => exact .nil
  | cons h1 _ ih => exact .cons (hRS _ _ h1) ih

theorem StrictOrd.asymm [LT α] [StrictOrd α] {a b : α} (h : a < b) : ¬ b < a :=
  fun h' => StrictOrd.irrefl a (StrictOrd.trans h h')

theorem StrictOrd.ne_of_lt [LT α] [StrictOrd α] {a b : α} (h : a < b) : a ≠ b :=
  fun e => StrictOrd.irrefl a (e ▸ h)

/-! ### channels -/

theorem Chan.items_nil : Chan.items ([] : Chan α) = [] := rfl

theorem Chan.items_cons (m : Msg α) (c : Chan α) : Chan.items (m :: c) = m.items ++ Chan.items c := by
  simp [Chan.items]

theorem Chan.items_append (c d : Chan α) : Chan.items (c ++ d) = Chan.items c ++ Chan.items d := by
  simp [Chan.items]

theorem Chan.clean_cons (m : Msg α) (c : Chan α) : Chan.clean (m :: c) = (m.clean && Chan.clean c) := by
  simp [Chan.clean]

theorem Chan.clean_append (c d : Chan α) : Chan.clean (c ++ d) = (Chan.clean c && Chan.clean d) := by
  simp [Chan.clean]

/-! ### streams -/

/-- the items left in the current buffer -/
def Stream.buf (s : Stream α) : List α :=
  match s.buffer with
  | none => []
  | some it => it.items

/-- everything the stream will still deliver -/
def Stream.content (s : Stream α) : List α := s.buf ++ Chan.items s.source

/-- clean and internally consistent -/
structure Stream.Ok (s : Stream α) : Prop where
  bufClean : ∀ it, s.buffer = some it → it.failAtEnd = false
  srcClean : Chan.clean s.source = true
  closedNone : s.closed = true → s.buffer = none ∧ s.source = []

theorem mkStream_ok (i : Nat) (c : Chan α) (hc : Chan.clean c = true) : (mkStream i c).Ok :=
  ⟨fun _ h => by simp [mkStream] at h, hc, fun h => by simp [mkStream] at h⟩

theorem mkStream_content (i : Nat) (c : Chan α) : (mkStream i c).content = Chan.items c := by
  simp [mkStream, Stream.content, Stream.buf]

theorem Stream.weight_pos (s : Stream α) (h : s.closed = false) : 1 ≤ s.weight := by
  unfold Stream.weight; rw [h]; simp; omega

/-- relation between a stream and itself after `fetchSource` -/
structure Fetched (s s' : Stream α) : Prop where
  ok : s'.Ok
  content : s'.content = s.content
  idx : s'.idx = s.idx
  weight : s'.weight ≤ s.weight
  ready : s'.buffer.isSome = true ∨ s'.closed = true

theorem Stream.fetch_ok (s : Stream α) (h : s.Ok) : ∃ s', s.fetch = some s' ∧ Fetched s s' := by
  unfold Stream.fetch
  cases hb : s.buffer with
  | some it =>
    refine ⟨s, by simp, h, rfl, rfl, Nat.le_refl _, .inl (by simp [hb])⟩
  | none =>
    cases hcl : s.closed with
    | true => exact ⟨s, by simp, h, rfl, rfl, Nat.le_refl _, .inr hcl⟩
    | false =>
      simp only [Option.isSome_none, Bool.or_self, Bool.false_eq_true, if_false]
      cases hs : s.source with
      | nil =>
        refine ⟨{ s with closed := true }, by simp [hs, hb], ⟨?_, ?_, ?_⟩, ?_, rfl, ?_, .inr rfl⟩
        · intro it hit; exact h.bufClean it hit
        · exact h.srcClean
        · intro _; exact ⟨hb, hs⟩
        · simp [Stream.content, Stream.buf]
        · simp [Stream.weight, hcl]
      | cons m rest =>
        have hcm := h.srcClean
        rw [hs, Chan.clean_cons] at hcm
        cases m with
        | err => simp [Msg.clean] at hcm
        | iter it =>
          simp [Msg.clean] at hcm
          refine ⟨{ s with buffer := some it, source := rest }, by simp [hcl], ⟨?_, ?_, ?_⟩, ?_, rfl, ?_, .inl rfl⟩
          · intro it' hit; simp at hit; subst hit; exact hcm.1
          · exact hcm.2
          · intro hc; simp [hcl] at hc
          · simp [Stream.content, Stream.buf, hb, hs, Chan.items_cons, Msg.items]
          · simp [Stream.weight, hb, hs, hcl, Msg.weight, hcm.1]; omega

theorem fetchAll_ok (ss : List (Stream α)) (h : ∀ s ∈ ss, s.Ok) :
    ∃ ss', fetchAll ss = some ss' ∧ All2 Fetched ss ss' := by
  induction ss with
  | nil => exact ⟨[], rfl, .nil⟩
  | cons s rest ih =>
    obtain ⟨s', hs', hf⟩ := Stream.fetch_ok s (h s (by simp))
    obtain ⟨rest', hr', hfr⟩ := ih (fun x hx => h x (by simp [hx]))
    exact ⟨s' :: rest', by simp [fetchAll, hs', hr'], .cons hf hfr⟩

/-- a stream on which the set operations work: clean, open, with a buffer -/
structure Stream.Ready (s : Stream α) : Prop where
  ok : s.Ok
  open_ : s.closed = false
  hasBuf : s.buffer.isSome = true

theorem Fetched.ready_of_not_done {s s' : Stream α} (h : Fetched s s') (hd : s'.isDone = false) : s'.Ready := by
  have hcl : s'.closed = false := by
    cases hc : s'.closed with
    | false => rfl
    | true =>
      have := (h.ok.closedNone hc).1
      simp [Stream.isDone, hc, this] at hd
  refine ⟨h.ok, hcl, ?_⟩
  rcases h.ready with hr | hr
  · exact hr
  · rw [hcl] at hr; cases hr

theorem Fetched.content_nil_of_done {s s' : Stream α} (h : Fetched s s') (hd : s'.isDone = true) : s.content = [] := by
  simp [Stream.isDone] at hd
  obtain ⟨hb, hs⟩ := h.ok.closedNone hd.1
  rw [← h.content]; simp [Stream.content, Stream.buf, hb, hs, Chan.items]

theorem weights_nil : weights ([] : List (Stream α)) = 0 := rfl
theorem weights_cons (s : Stream α) (ss : List (Stream α)) : weights (s :: ss) = s.weight + weights ss := by
  simp [weights]

theorem weights_filter_le (p : Stream α → Bool) (ss : List (Stream α)) : weights (ss.filter p) ≤ weights ss := by
  induction ss with
  | nil => simp
  | cons s rest ih =>
    simp only [List.filter_cons]
    split
    · simp only [weights_cons]; omega
    · simp only [weights_cons]; omega

theorem weights_le_of_forall₂ {R : Stream α → Stream α → Prop} (hR : ∀ s s', R s s' → s'.weight ≤ s.weight)
    {ss ss' : List (Stream α)} (h : All2 R ss ss') : weights ss' ≤ weights ss := by
  induction h with
  | nil => simp
  | cons h1 _ ih => simp only [weights_cons]; have := hR _ _ h1; omega

/-- `CleanDone` on clean streams: never an error; the result is the polled list without the streams that
are closed and drained. -/
theorem cleanDone_ok (ss : List (Stream α)) (h : ∀ s ∈ ss, s.Ok) :
    ∃ ss', All2 Fetched ss ss' ∧ cleanDone ss = some (ss'.filter (fun s => !s.isDone)) := by
  obtain ⟨ss', hf, hF⟩ := fetchAll_ok ss h
  exact ⟨ss', hF, by simp [cleanDone, hf]⟩

theorem forall₂_mem_right {β γ : Type} {R : β → γ → Prop} {l1 : List β} {l2 : List γ} (h : All2 R l1 l2) {b : γ}
    (hb : b ∈ l2) : ∃ a ∈ l1, R a b := by
  induction h with
  | nil => cases hb
  | cons h1 _ ih =>
    rcases List.mem_cons.mp hb with rfl | hb
    · exact ⟨_, by simp, h1⟩
    · obtain ⟨a, ha, hr⟩ := ih hb; exact ⟨a, by simp [ha], hr⟩

theorem forall₂_mem_left {β γ : Type} {R : β → γ → Prop} {l1 : List β} {l2 : List γ} (h : All2 R l1 l2) {a : β}
    (ha : a ∈ l1) : ∃ b ∈ l2, R a b := by
  induction h with
  | nil => cases ha
  | cons h1 _ ih =>
    rcases List.mem_cons.mp ha with rfl | ha
    · exact ⟨_, by simp, h1⟩
    · obtain ⟨b, hb, hr⟩ := ih ha; exact ⟨b, by simp [hb], hr⟩

/-- what the loops need from `CleanDone` -/
structure Cleaned (ss ss1 : List (Stream α)) : Prop where
  ready : ∀ s ∈ ss1, s.Ready
  weight : weights ss1 ≤ weights ss
  /-- every remaining stream is one of the old ones (same content, same index) -/
  back : ∀ s1 ∈ ss1, ∃ s ∈ ss, s1.content = s.content ∧ s1.idx = s.idx
  /-- every old stream is still there or had nothing left -/
  fwd : ∀ s ∈ ss, s.content = [] ∨ ∃ s1 ∈ ss1, s1.content = s.content ∧ s1.idx = s.idx
  len : ss1.length ≤ ss.length
  /-- a stream was dropped ⇒ some old stream had nothing left -/
  dropped : ss1.length ≠ ss.length → ∃ s ∈ ss, s.content = []

theorem cleanDone_spec (ss : List (Stream α)) (h : ∀ s ∈ ss, s.Ok) :
    ∃ ss1, cleanDone ss = some ss1 ∧ Cleaned ss ss1 := by
  obtain ⟨ss', hF, hcd⟩ := cleanDone_ok ss h
  refine ⟨_, hcd, ?_, ?_, ?_, ?_, ?_, ?_⟩
  · intro s hs
    obtain ⟨hs1, hs2⟩ := List.mem_filter.mp hs
    obtain ⟨s0, _, hf⟩ := forall₂_mem_right hF hs1
    exact hf.ready_of_not_done (by simpa using hs2)
  · exact Nat.le_trans (weights_filter_le _ _) (weights_le_of_forall₂ (fun _ _ hf => hf.weight) hF)
  · intro s1 hs
    obtain ⟨hs1, _⟩ := List.mem_filter.mp hs
    obtain ⟨s0, hs0, hf⟩ := forall₂_mem_right hF hs1
    exact ⟨s0, hs0, hf.content, hf.idx⟩
  · intro s hs
    obtain ⟨s', hs', hf⟩ := forall₂_mem_left hF hs
    cases hd : s'.isDone with
    | true => exact .inl (hf.content_nil_of_done hd)
    | false => exact .inr ⟨s', List.mem_filter.mpr ⟨hs', by simp [hd]⟩, hf.content, hf.idx⟩
  · rw [hF.length_eq]; exact List.length_filter_le _ _
  · intro hne
    rw [hF.length_eq] at hne
    have : ∃ s' ∈ ss', s'.isDone = true := by
      apply Classical.byContradiction
      intro hcon
      apply hne
      congr 1
      apply List.filter_eq_self.mpr
      intro a ha
      cases hd : a.isDone with
      | false => rfl
      | true => exact absurd ⟨a, ha, hd⟩ hcon
    obtain ⟨s', hs', hd⟩ := this
    obtain ⟨s, hs, hf⟩ := forall₂_mem_right hF hs'
    exact ⟨s, hs, hf.content_nil_of_done hd⟩

/-- positional version for a list that keeps its length -/
theorem cleanDone_same_length (ss : List (Stream α)) (h : ∀ s ∈ ss, s.Ok) (ss1 : List (Stream α))
    (hcd : cleanDone ss = some ss1) (hlen : ss1.length = ss.length) :
    All2 (fun s s1 => s1.content = s.content ∧ s1.idx = s.idx) ss ss1 := by
  obtain ⟨ss', hF, hcd'⟩ := cleanDone_ok ss h
  rw [hcd] at hcd'
  simp only [Option.some.injEq] at hcd'
  have hall : ss'.filter (fun s => !s.isDone) = ss' := by
    apply List.filter_eq_self.mpr
    intro a ha
    apply Classical.byContradiction
    intro hcon
    have hlt : (ss'.filter (fun s => !s.isDone)).length < ss'.length := by
      apply List.length_filter_lt_length_iff_exists.mpr
      exact ⟨a, ha, hcon⟩
    rw [← hcd', hlen, hF.length_eq] at hlt
    exact Nat.lt_irrefl _ hlt
  rw [hcd', hall]
  exact hF.imp (fun _ _ hf => ⟨hf.content, hf.idx⟩)

end OpenFGAVerif.Weight2
