/-
The consumer loop of `LocalChecker.weight2` (`Weight2.consumeLoop`, one function of an explicit schedule):

  * `consumeLoop_T`   `true` is only ever returned for a userset that really is on both sides;
  * `consumeLoop_F`   without cancellation `false` (no error) is only returned when no userset is on both
                      sides: either the left side closed without delivering anything, or both sides were
                      consumed to the end;
  * `cancelled_empty_left_never_F`   the guard `if ctx.Err() != nil { lastErr = ctx.Err() }` at the exit
                      "left closed, nothing received": once the context is cancelled and the (truncated) left
                      side delivers nothing, the loop never answers `false` without error;
  * `cancelled_nonempty_left_can_F`  what the guard does not cover (stated, refuted at full strength): after
                      a cancellation that truncates both producers the loop can still end through
                      `for leftOpen || rightOpen` with `(false, nil)` when some left-hand object had been
                      received — the `select` need not pick `ctx.Done()`.
-/
import OpenFGAVerif.Model.Weight2
import OpenFGAVerif.Proofs.Weight2Basic

namespace OpenFGAVerif.Weight2

theorem consumeIter_spec (its : List String) :
    ∀ (st : CState),
      ((consumeIter st its).2 = true → ∃ t ∈ its, t ∈ st.rightSet) ∧
      ((consumeIter st its).2 = false → ∀ t ∈ its, t ∉ st.rightSet) ∧
      (∀ x ∈ (consumeIter st its).1.leftSet, x ∈ st.leftSet ∨ x ∈ its) ∧
      ((consumeIter st its).2 = false → ∀ x ∈ its, x ∈ (consumeIter st its).1.leftSet) ∧
      (∀ x ∈ st.leftSet, x ∈ (consumeIter st its).1.leftSet) ∧
      (consumeIter st its).1.rightSet = st.rightSet ∧ (consumeIter st its).1.leftQ = st.leftQ ∧
      (consumeIter st its).1.rightQ = st.rightQ ∧ (consumeIter st its).1.rightErr = st.rightErr ∧
      (consumeIter st its).1.leftOpen = st.leftOpen ∧ (consumeIter st its).1.rightOpen = st.rightOpen ∧
      (consumeIter st its).1.lastErr = st.lastErr ∧ (consumeIter st its).1.ctxErr = st.ctxErr := by
  induction its with
  | nil => intro st; simp [consumeIter]
  | cons t rest ih =>
    intro st
    by_cases hc : st.rightSet.contains t = true
    · have hm : t ∈ st.rightSet := by simpa using hc
      have he : consumeIter st (t :: rest) = ({ st with leftSet := t :: st.leftSet }, true) := by
        simp [consumeIter, hm]
      rw [he]
      refine ⟨fun _ => ⟨t, by simp, hm⟩, (fun h => by cases h), ?_, (fun h => by cases h), ?_,
        rfl, rfl, rfl, rfl, rfl, rfl, rfl, rfl⟩
      · intro x hx
        rcases List.mem_cons.mp hx with h | h
        · exact .inr (by simp [h])
        · exact .inl h
      · intro x hx; exact List.mem_cons_of_mem _ hx
    · have hnm : t ∉ st.rightSet := by simpa using hc
      have he : consumeIter st (t :: rest) = consumeIter { st with leftSet := t :: st.leftSet } rest := by
        simp [consumeIter, hnm]
      rw [he]
      obtain ⟨h1, h2, h4, h5, h6, h7, h8, h9, h10, h11, h12, h13, h14⟩ := ih { st with leftSet := t :: st.leftSet }
      refine ⟨?_, ?_, ?_, ?_, ?_, h7, h8, h9, h10, h11, h12, h13, h14⟩
      · intro hr
        obtain ⟨t', ht', hm⟩ := h1 hr
        exact ⟨t', List.mem_cons_of_mem _ ht', hm⟩
      · intro hr t' ht'
        rcases List.mem_cons.mp ht' with rfl | ht'
        · exact hnm
        · exact h2 hr t' ht'
      · intro x hx
        rcases h4 x hx with h | h
        · rcases List.mem_cons.mp h with h | h
          · exact .inr (by simp [h])
          · exact .inl h
        · exact .inr (List.mem_cons_of_mem _ h)
      · intro hr x hx
        rcases List.mem_cons.mp hx with rfl | hx
        · exact h6 _ (by simp)
        · exact h5 hr x hx
      · intro x hx; exact h6 x (List.mem_cons_of_mem _ hx)

/-- everything that has been or can still be seen on the left / right -/
def CState.leftAll (st : CState) : List String := st.leftSet ++ Chan.items st.leftQ
def CState.rightAll (st : CState) : List String := st.rightSet ++ st.rightQ

/-- consistency of the flags with the queues, and "no userset seen on both sides yet" -/
structure CState.Wf (st : CState) : Prop where
  leftClosed : st.leftOpen = false → st.leftQ = []
  rightClosed : st.rightOpen = false → st.rightQ = [] ∧ st.rightErr = false
  noHit : ∀ u ∈ st.rightSet, u ∉ st.leftSet

/-- outcome of one iteration of the loop: a result, or the next state -/
theorem consumeLoop_step (p : Pick) (sched : List Pick) (st : CState) (hopen : (st.leftOpen || st.rightOpen) = true) :
    consumeLoop (p :: sched) st =
      (match p with
       | .cancel => consumeLoop sched { st with ctxErr := true }
       | .ctxDone => if st.ctxErr then some .cancelled else consumeLoop sched st
       | .left =>
         match st.leftQ with
         | [] =>
           if st.leftSet.isEmpty then some (if st.ctxErr then .cancelled else if st.lastErr then .E else .F)
           else consumeLoop sched { st with leftOpen := false }
         | .err :: _ => some .E
         | .iter it :: q =>
           if (consumeIter { st with leftQ := q } it.items).2 then some .T
           else consumeLoop sched (if it.failAtEnd then { (consumeIter { st with leftQ := q } it.items).1 with lastErr := true }
                                   else (consumeIter { st with leftQ := q } it.items).1)
       | .right =>
         match st.rightQ with
         | [] =>
           if st.rightErr then consumeLoop sched { st with rightErr := false, lastErr := true }
           else consumeLoop sched { st with rightOpen := false }
         | u :: q =>
           if st.leftSet.contains u then some .T
           else consumeLoop sched { st with rightQ := q, rightSet := u :: st.rightSet }) := by
  simp only [consumeLoop, hopen, Bool.not_true, Bool.false_eq_true, if_false]
  cases p with
  | cancel => rfl
  | ctxDone => rfl
  | right => rfl
  | left =>
    simp only
    cases st.leftQ with
    | nil => rfl
    | cons m q =>
      cases m with
      | err => rfl
      | iter it => rfl

theorem consumeLoop_closed (sched : List Pick) (st : CState) (h : (st.leftOpen || st.rightOpen) = false) :
    consumeLoop sched st = some (if st.lastErr then .E else .F) := by
  cases sched with
  | nil => simp [consumeLoop, h]
  | cons p sched => simp [consumeLoop, h]

/-- **`true` is justified**: some userset is on both sides -/
theorem consumeLoop_T (sched : List Pick) :
    ∀ (st : CState), consumeLoop sched st = some .T → ∃ u, u ∈ st.rightAll ∧ u ∈ st.leftAll := by
  induction sched with
  | nil =>
    intro st h
    simp only [consumeLoop] at h
    split at h
    · cases h
    · split at h <;> cases h
  | cons p sched ih =>
    intro st h
    cases hopen : (st.leftOpen || st.rightOpen) with
    | false =>
      rw [consumeLoop_closed _ _ hopen] at h
      split at h <;> cases h
    | true =>
      rw [consumeLoop_step p sched st hopen] at h
      cases p with
      | cancel =>
        simp only at h
        obtain ⟨u, h1, h2⟩ := ih _ h
        exact ⟨u, h1, h2⟩
      | ctxDone =>
        simp only at h
        split at h
        · cases h
        · obtain ⟨u, h1, h2⟩ := ih _ h
          exact ⟨u, h1, h2⟩
      | left =>
        simp only at h
        cases hq : st.leftQ with
        | nil =>
          simp only [hq] at h
          split at h
          · split at h
            · cases h
            · split at h <;> cases h
          · obtain ⟨u, h1, h2⟩ := ih _ h
            exact ⟨u, h1, by simpa [CState.leftAll, hq] using h2⟩
        | cons m q =>
          simp only [hq] at h
          cases m with
          | err => cases h
          | iter it =>
            simp only at h
            obtain ⟨s1, _, s4, _, _, s7, s8, s9, _⟩ := consumeIter_spec it.items { st with leftQ := q }
            split at h
            · rename_i hhit
              obtain ⟨t, ht, hm⟩ := s1 hhit
              exact ⟨t, by simp only [CState.rightAll, List.mem_append]; exact .inl hm,
                by simp only [CState.leftAll, hq, Chan.items_cons, Msg.items, List.mem_append]; exact .inr (.inl ht)⟩
            · obtain ⟨u, h1, h2⟩ := ih _ h
              have h1' : u ∈ st.rightAll := by
                split at h1 <;> simpa [CState.rightAll, s7, s9] using h1
              refine ⟨u, h1', ?_⟩
              have h2' : u ∈ (consumeIter { st with leftQ := q } it.items).1.leftSet ∨ u ∈ Chan.items q := by
                split at h2 <;> simpa [CState.leftAll, s8] using h2
              simp only [CState.leftAll, hq, Chan.items_cons, Msg.items, List.mem_append]
              rcases h2' with h2' | h2'
              · rcases s4 u h2' with h3 | h3
                · exact .inl h3
                · exact .inr (.inl h3)
              · exact .inr (.inr h2')
      | right =>
        simp only at h
        cases hq : st.rightQ with
        | nil =>
          simp only [hq] at h
          split at h
          · obtain ⟨u, h1, h2⟩ := ih _ h
            exact ⟨u, by simpa [CState.rightAll, hq] using h1, h2⟩
          · obtain ⟨u, h1, h2⟩ := ih _ h
            exact ⟨u, by simpa [CState.rightAll, hq] using h1, h2⟩
        | cons u q =>
          simp only [hq] at h
          split at h
          · rename_i hc
            have : u ∈ st.leftSet := by simpa using hc
            exact ⟨u, by simp [CState.rightAll, hq], by simp only [CState.leftAll, List.mem_append]; exact .inl this⟩
          · obtain ⟨v, h1, h2⟩ := ih _ h
            refine ⟨v, ?_, h2⟩
            simp only [CState.rightAll, List.mem_append, List.mem_cons] at h1 ⊢
            rw [hq]
            rcases h1 with (h1 | h1) | h1
            · exact .inr (by simp [h1])
            · exact .inl h1
            · exact .inr (List.mem_cons_of_mem _ h1)

/-- **`false` without error and without cancellation is justified**: no userset is on both sides, and no
error was remembered. -/
theorem consumeLoop_F (sched : List Pick) (hnc : Pick.cancel ∉ sched) :
    ∀ (st : CState), st.Wf → st.ctxErr = false → consumeLoop sched st = some .F →
      (∀ u ∈ st.rightAll, u ∉ st.leftAll) ∧ st.lastErr = false := by
  induction sched with
  | nil =>
    intro st hwf _ h
    simp only [consumeLoop] at h
    split at h
    · cases h
    · rename_i hop
      simp only [Bool.or_eq_true, not_or, Bool.not_eq_true] at hop
      have hl := hwf.leftClosed hop.1
      have hr := hwf.rightClosed hop.2
      refine ⟨?_, by cases hle : st.lastErr <;> simp [hle] at h ⊢⟩
      intro u hu
      simp only [CState.rightAll, hr.1, List.append_nil] at hu
      simp only [CState.leftAll, hl, Chan.items_nil, List.append_nil]
      exact hwf.noHit u hu
  | cons p sched ih =>
    intro st hwf hctx h
    have hnc' : Pick.cancel ∉ sched := fun hm => hnc (List.mem_cons_of_mem _ hm)
    cases hopen : (st.leftOpen || st.rightOpen) with
    | false =>
      rw [consumeLoop_closed _ _ hopen] at h
      simp only [Bool.or_eq_false_iff] at hopen
      have hl := hwf.leftClosed hopen.1
      have hr := hwf.rightClosed hopen.2
      refine ⟨?_, by cases hle : st.lastErr <;> simp [hle] at h ⊢⟩
      intro u hu
      simp only [CState.rightAll, hr.1, List.append_nil] at hu
      simp only [CState.leftAll, hl, Chan.items_nil, List.append_nil]
      exact hwf.noHit u hu
    | true =>
      rw [consumeLoop_step p sched st hopen] at h
      cases p with
      | cancel => exact absurd (by simp) hnc
      | ctxDone =>
        simp only [hctx, Bool.false_eq_true, if_false] at h
        exact ih hnc' st hwf hctx h
      | left =>
        simp only at h
        cases hq : st.leftQ with
        | nil =>
          simp only [hq] at h
          split at h
          · rename_i hempty
            simp only [hctx, Bool.false_eq_true, if_false] at h
            have hls : st.leftSet = [] := by simpa using hempty
            refine ⟨?_, by cases hle : st.lastErr <;> simp [hle] at h ⊢⟩
            intro u _
            simp [CState.leftAll, hq, hls, Chan.items]
          · have key := ih hnc' { st with leftQ := [], leftOpen := false } ⟨fun _ => rfl, hwf.rightClosed, hwf.noHit⟩ hctx h
            refine ⟨fun u hu => ?_, key.2⟩
            have := key.1 u hu
            simpa [CState.leftAll, hq] using this
        | cons m q =>
          simp only [hq] at h
          cases m with
          | err => cases h
          | iter it =>
            simp only at h
            obtain ⟨_, s2, s4, s5, s6, s7, s8, s9, s10, s11, s12, s13, s14⟩ := consumeIter_spec it.items { st with leftQ := q }
            split at h
            · cases h
            · rename_i hhit
              have hhit' : (consumeIter { st with leftQ := q } it.items).2 = false := by simpa using hhit
              have hlo : st.leftOpen = true := by
                cases hlo : st.leftOpen with
                | true => rfl
                | false => have := hwf.leftClosed hlo; rw [hq] at this; cases this
              -- the state after the message
              have hwf1 : (consumeIter { st with leftQ := q } it.items).1.Wf := by
                refine ⟨?_, ?_, ?_⟩
                · intro hcl; rw [s11] at hcl; simp [hlo] at hcl
                · intro hcl; rw [s12] at hcl; rw [s9, s10]; exact hwf.rightClosed hcl
                · intro u hu hul
                  rw [s7] at hu
                  rcases s4 u hul with h3 | h3
                  · exact hwf.noHit u hu h3
                  · exact s2 hhit' u h3 hu
              have key : (∀ u ∈ (consumeIter { st with leftQ := q } it.items).1.rightAll,
                  u ∉ (consumeIter { st with leftQ := q } it.items).1.leftAll) ∧
                  (if it.failAtEnd then true else (consumeIter { st with leftQ := q } it.items).1.lastErr) = false := by
                by_cases hfe : it.failAtEnd = true
                · simp only [hfe, if_true] at h
                  have := ih hnc' { (consumeIter { st with leftQ := q } it.items).1 with lastErr := true }
                    ⟨hwf1.leftClosed, hwf1.rightClosed, hwf1.noHit⟩ (s14.trans hctx) h
                  simp at this
                · simp only [hfe, Bool.false_eq_true, if_false] at h ⊢
                  exact ih hnc' _ hwf1 (s14.trans hctx) h
              refine ⟨?_, ?_⟩
              · intro u hu hul
                have hu' : u ∈ (consumeIter { st with leftQ := q } it.items).1.rightAll := by
                  simpa [CState.rightAll, s7, s9] using hu
                apply key.1 u hu'
                simp only [CState.leftAll, hq, Chan.items_cons, Msg.items, List.mem_append] at hul
                simp only [CState.leftAll, s8, List.mem_append]
                rcases hul with hul | hul | hul
                · exact .inl (s6 u hul)
                · exact .inl (s5 hhit' u hul)
                · exact .inr hul
              · have := key.2
                split at this
                · cases this
                · rw [s13] at this; exact this
      | right =>
        simp only at h
        cases hq : st.rightQ with
        | nil =>
          simp only [hq] at h
          split at h
          · have := ih hnc' { st with rightQ := [], rightErr := false, lastErr := true } ⟨hwf.leftClosed, fun _ => ⟨rfl, rfl⟩, hwf.noHit⟩ hctx h
            simp at this
          · rename_i hre
            have hre' : st.rightErr = false := by simpa using hre
            have key := ih hnc' { st with rightQ := [], rightOpen := false } ⟨hwf.leftClosed, fun _ => ⟨rfl, hre'⟩, hwf.noHit⟩ hctx h
            refine ⟨fun u hu => ?_, key.2⟩
            have hu' : u ∈ st.rightSet ++ ([] : List String) := by simpa [CState.rightAll, hq] using hu
            exact key.1 u hu' 
        | cons u q =>
          simp only [hq] at h
          split at h
          · cases h
          · rename_i hc
            have hnu : u ∉ st.leftSet := by simpa using hc
            have hro : st.rightOpen = true := by
              cases hro : st.rightOpen with
              | true => rfl
              | false => have := (hwf.rightClosed hro).1; rw [hq] at this; cases this
            have hwf' : ({ st with rightQ := q, rightSet := u :: st.rightSet } : CState).Wf := by
              refine ⟨hwf.leftClosed, ?_, ?_⟩
              · intro hcl; simp [hro] at hcl
              · intro v hv
                rcases List.mem_cons.mp hv with rfl | hv
                · exact hnu
                · exact hwf.noHit v hv
            obtain ⟨k1, k2⟩ := ih hnc' _ hwf' hctx h
            refine ⟨?_, k2⟩
            intro v hv
            apply k1 v
            simp only [CState.rightAll, List.mem_append, List.mem_cons] at hv ⊢
            rw [hq] at hv
            rcases hv with hv | hv
            · exact .inl (.inr hv)
            · rcases List.mem_cons.mp hv with rfl | hv
              · exact .inl (.inl rfl)
              · exact .inr hv

/-- **the guard at "left closed, nothing received"**: once the context is cancelled and the left side
delivers nothing (cancellation truncated the producers), the loop never answers `false` without error. -/
theorem cancelled_empty_left_never_F (sched : List Pick) :
    ∀ (st : CState), st.ctxErr = true → st.leftOpen = true → st.leftSet = [] → Chan.items st.leftQ = [] →
      consumeLoop sched st ≠ some .F := by
  induction sched with
  | nil => intro st _ hlo _ _; simp [consumeLoop, hlo]
  | cons p sched ih =>
    intro st hctx hlo hls hq h
    have hopen : (st.leftOpen || st.rightOpen) = true := by simp [hlo]
    rw [consumeLoop_step p sched st hopen] at h
    cases p with
    | cancel => simp only at h; exact ih { st with ctxErr := true } rfl hlo hls hq h
    | ctxDone => simp [hctx] at h
    | left =>
      simp only at h
      cases hlq : st.leftQ with
      | nil => simp [hlq, hls, hctx] at h
      | cons m q =>
        simp only [hlq] at h
        cases m with
        | err => cases h
        | iter it =>
          rw [hlq, Chan.items_cons] at hq
          have hit : it.items = [] := by
            have := List.append_eq_nil_iff.mp hq; simpa [Msg.items] using this.1
          have hq' : Chan.items q = [] := (List.append_eq_nil_iff.mp hq).2
          simp only [hit, consumeIter, Bool.false_eq_true, if_false] at h
          split at h
          · exact ih { st with leftQ := q, lastErr := true } hctx hlo hls hq' h
          · exact ih { st with leftQ := q } hctx hlo hls hq' h
    | right =>
      simp only at h
      cases hrq : st.rightQ with
      | nil =>
        simp only [hrq] at h
        split at h
        · exact ih { st with rightQ := [], rightErr := false, lastErr := true } hctx hlo hls hq h
        · exact ih { st with rightQ := [], rightOpen := false } hctx hlo hls hq h
      | cons u q =>
        simp only [hrq, hls, List.contains_nil, Bool.false_eq_true, if_false] at h
        exact ih { st with rightQ := q, rightSet := u :: st.rightSet, leftSet := [] } hctx hlo rfl hq h

/-- the full statement one would like ("a cancelled evaluation never answers `false` without error") … -/
def Cancelled_Never_F_Full : Prop :=
  ∀ (sched : List Pick) (st : CState), st.ctxErr = true → consumeLoop sched st ≠ some .F

/-- … is false of the loop as written: with the context already cancelled, one left-hand object received,
and both (truncated) producers closed, the `select` may take the two "closed" cases and never `ctx.Done()`. -/
theorem cancelled_nonempty_left_can_F : ¬ Cancelled_Never_F_Full := by
  intro h
  exact h [.left, .left, .right]
    { leftQ := [.iter { items := ["group:a"] }], rightQ := [], rightErr := false, rightSet := ["group:b"], ctxErr := true }
    rfl (by decide)

end OpenFGAVerif.Weight2
