/-
`fastPathDifference_spec`: on a clean base and a clean subtract child, both strictly ascending,
`fastPathDifference` sends no error and the concatenation of its batches is the strictly ascending list of
exactly the object ids the base carries and the subtract child does not — for every batch threshold,
including the final "drain the base" phase whose batches come straight from the base's own batches.
-/
import OpenFGAVerif.Proofs.Weight2Inter

namespace OpenFGAVerif.Weight2

set_option linter.unusedSectionVars false

variable {α : Type}

section diff
variable [LT α] [DecidableLT α] [DecidableEq α] [StrictOrd α]

/-! ### the drain phase -/

theorem drainLoop_spec (thr : Nat) :
    ∀ (fuel : Nat) (ss : List (Stream α)) (a : Acc α), ss.length ≤ 1 →
      (∀ s ∈ ss, s.Ready) → Chan.clean a.sent = true → weights ss + 2 ≤ fuel →
      ∃ out, drainLoop thr fuel ss a = some out ∧ Chan.clean out = true ∧
        Chan.items out = a.emitted ++ ss.flatMap Stream.content := by
  intro fuel
  induction fuel with
  | zero => intro ss a _ _ _ hf; omega
  | succ fuel ih =>
    intro ss a hlen hready hcl hf
    match ss, hlen, hready, hf with
    | [], _, _, _ =>
      exact ⟨a.finish, by simp [drainLoop], Acc.finish_clean a hcl, by simp [Acc.finish_items]⟩
    | [s], _, hready, hf =>
      have hr := hready s (by simp)
      obtain ⟨s', hd, hok', hop', hbn', hidx', hcon', hw'⟩ := s.drain_ready hr
      obtain ⟨ss', hcd, hcln⟩ := cleanDone_spec [s'] (fun x hx => by simp at hx; subst hx; exact hok')
      have hstep : drainLoop thr (fuel + 1) [s] a =
          drainLoop thr fuel ss' (({ a with batch := a.batch ++ s.buf } : Acc α).maybeFlush thr) := by
        simp [drainLoop, hd, hcd]
      rw [hstep]
      have hlen' : ss'.length ≤ 1 := by simpa using hcln.len
      have hw2 : weights ss' + 2 ≤ fuel := by
        have := hcln.weight
        simp only [weights_cons, weights_nil] at this hf
        omega
      obtain ⟨out, hout, hclean, hitems⟩ := ih ss' (({ a with batch := a.batch ++ s.buf } : Acc α).maybeFlush thr) hlen' hcln.ready
        (Acc.maybeFlush_clean thr _ hcl) hw2
      refine ⟨out, hout, hclean, ?_⟩
      rw [hitems, Acc.maybeFlush_emitted]
      have hc : ss'.flatMap Stream.content = s'.content := by
        match ss', hlen', hcln with
        | [], _, hcln =>
          rcases hcln.fwd s' (by simp) with h | ⟨s1, hs1, _⟩
          · simp [h]
          · cases hs1
        | [s1], _, hcln =>
          obtain ⟨s0, hs0, hc0, _⟩ := hcln.back s1 (by simp)
          simp at hs0; subst hs0
          simp [hc0]
      rw [hc]
      simp [Acc.emitted, hcon', List.append_assoc]
    | _ :: _ :: _, hlen, _, _ => simp at hlen

/-! ### the tail: `CleanDone` once more, then drain the base if it is the only stream left -/

/-- what is known when the main loop of `fastPathDifference` is left -/
structure TInv (D : α → Prop) (ss : List (Stream α)) (a : Acc α) : Prop where
  len : ss.length ≤ 1
  ok : ∀ s ∈ ss, s.Ok ∧ s.closed = false
  sorted : ∀ s ∈ ss, Sorted s.content
  sentClean : Chan.clean a.sent = true
  esorted : Sorted a.emitted
  below : ∀ e ∈ a.emitted, ∀ s ∈ ss, s.idx = 0 → ∀ x ∈ s.content, e < x
  mem : ∀ x, (x ∈ a.emitted ∨ ∃ s ∈ ss, s.idx = 0 ∧ x ∈ s.content) ↔ D x

theorem diffTail_spec (thr : Nat) (D : α → Prop) (fuel : Nat) (ss : List (Stream α)) (a : Acc α)
    (h : TInv D ss a) (hf : weights ss + 2 ≤ fuel) :
    ∃ out, diffTail thr 0 fuel ss a = some out ∧ Chan.clean out = true ∧ Sorted (Chan.items out) ∧
      ∀ x, x ∈ Chan.items out ↔ D x := by
  obtain ⟨ss1, hcd, hcl⟩ := cleanDone_spec ss (fun s hs => (h.ok s hs).1)
  have hlen1 : ss1.length ≤ 1 := Nat.le_trans hcl.len h.len
  have hfin : (∀ s ∈ ss, s.idx = 0 → s.content = []) →
      ∃ out, some a.finish = some out ∧ Chan.clean out = true ∧ Sorted (Chan.items out) ∧ ∀ x, x ∈ Chan.items out ↔ D x := by
    intro hnil
    refine ⟨a.finish, rfl, Acc.finish_clean a h.sentClean, by rw [Acc.finish_items]; exact h.esorted, ?_⟩
    intro x
    rw [Acc.finish_items, ← h.mem x]
    constructor
    · intro hx; exact .inl hx
    · rintro (hx | ⟨s, hs, hi, hx⟩)
      · exact hx
      · rw [hnil s hs hi] at hx; cases hx
  match ss1, hlen1, hcl, hcd with
  | [], _, hcl, hcd =>
    have : diffTail thr 0 fuel ss a = some a.finish := by simp [diffTail, hcd]
    rw [this]
    apply hfin
    intro s hs _
    rcases hcl.fwd s hs with h0 | ⟨s1, hs1, _⟩
    · exact h0
    · cases hs1
  | [s1], _, hcl, hcd =>
    by_cases hidx : s1.idx = 0
    · have : diffTail thr 0 fuel ss a = drainLoop thr fuel [s1] a := by simp [diffTail, hcd, hidx]
      rw [this]
      have hw : weights [s1] + 2 ≤ fuel := by have := hcl.weight; omega
      obtain ⟨out, hout, hclean, hitems⟩ := drainLoop_spec thr fuel [s1] a (by simp) hcl.ready h.sentClean hw
      obtain ⟨s0, hs0, hc0, hi0⟩ := hcl.back s1 (by simp)
      have hidx0 : s0.idx = 0 := by rw [← hi0]; exact hidx
      refine ⟨out, hout, hclean, ?_, ?_⟩
      · rw [hitems]
        simp only [List.flatMap_cons, List.flatMap_nil, List.append_nil]
        refine List.pairwise_append.mpr ⟨h.esorted, by rw [hc0]; exact h.sorted s0 hs0, ?_⟩
        intro e he x hx
        exact h.below e he s0 hs0 hidx0 x (hc0 ▸ hx)
      · intro x
        rw [hitems, ← h.mem x]
        simp only [List.flatMap_cons, List.flatMap_nil, List.append_nil, List.mem_append]
        constructor
        · rintro (hx | hx)
          · exact .inl hx
          · exact .inr ⟨s0, hs0, hidx0, hc0 ▸ hx⟩
        · rintro (hx | ⟨s, hs, hi, hx⟩)
          · exact .inl hx
          · rcases hcl.fwd s hs with hn | ⟨s1', hs1', hc1, _⟩
            · rw [hn] at hx; cases hx
            · simp at hs1'; subst hs1'
              exact .inr (hc1 ▸ hx)
    · have : diffTail thr 0 fuel ss a = some a.finish := by simp [diffTail, hcd, hidx]
      rw [this]
      apply hfin
      intro s hs hi
      rcases hcl.fwd s hs with h0 | ⟨s1', hs1', _, hi1⟩
      · exact h0
      · simp at hs1'; subst hs1'
        exact absurd (hi1.trans hi) hidx
  | _ :: _ :: _, hlen1, _, _ => simp at hlen1

/-! ### the main loop -/

/-- loop invariant of `fastPathDifference`; `D` = "the base carries the object and the subtract child does not" -/
structure DInv (D : α → Prop) (b d : Stream α) (a : Acc α) : Prop where
  okb : b.Ok ∧ b.closed = false
  okd : d.Ok ∧ d.closed = false
  sortedb : Sorted b.content
  sortedd : Sorted d.content
  idxb : b.idx = 0
  idxd : d.idx = 1
  sentClean : Chan.clean a.sent = true
  esorted : Sorted a.emitted
  below : ∀ e ∈ a.emitted, ∀ x ∈ b.content, e < x
  mem : ∀ x, (x ∈ a.emitted ∨ (x ∈ b.content ∧ x ∉ d.content)) ↔ D x

theorem sorted_not_lt_head {x h : α} {t : List α} (hs : Sorted (h :: t)) (hx : x ∈ h :: t) : ¬ x < h := by
  rcases List.mem_cons.mp hx with rfl | hx
  · exact StrictOrd.irrefl _
  · exact StrictOrd.asymm (sorted_head_lt hs x hx)

theorem diffLoop_spec (thr : Nat) (D : α → Prop) :
    ∀ (fuel : Nat) (b d : Stream α) (a : Acc α), DInv D b d a → weights [b, d] + 3 ≤ fuel →
      ∃ out, diffLoop thr 0 1 fuel [b, d] a = some out ∧ Chan.clean out = true ∧ Sorted (Chan.items out) ∧
        ∀ x, x ∈ Chan.items out ↔ D x := by
  intro fuel
  induction fuel with
  | zero => intro b d a _ hf; omega
  | succ fuel ih =>
    intro b d a hinv hf
    have hoks : ∀ s ∈ [b, d], s.Ok := by
      intro s hs; simp at hs; rcases hs with rfl | rfl
      · exact hinv.okb.1
      · exact hinv.okd.1
    obtain ⟨ss1, hcd, hcl⟩ := cleanDone_spec [b, d] hoks
    by_cases hlen1 : ss1.length = 2
    · have hpos := cleanDone_same_length [b, d] hoks ss1 hcd (by simp [hlen1])
      match ss1, hlen1, hpos, hcl, hcd with
      | [b1, d1], _, hpos, hcl, hcd =>
        cases hpos with
        | cons hb1 hrest =>
        cases hrest with
        | cons hd1 _ =>
        have hrb := hcl.ready b1 (by simp)
        have hrd := hcl.ready d1 (by simp)
        have hinv1 : DInv D b1 d1 a :=
          ⟨⟨hrb.ok, hrb.open_⟩, ⟨hrd.ok, hrd.open_⟩, by rw [hb1.1]; exact hinv.sortedb, by rw [hd1.1]; exact hinv.sortedd,
            by rw [hb1.2]; exact hinv.idxb, by rw [hd1.2]; exact hinv.idxd, hinv.sentClean, hinv.esorted,
            by rw [hb1.1]; exact hinv.below, by rw [hb1.1, hd1.1]; exact hinv.mem⟩
        have hw1 : weights [b1, d1] ≤ weights [b, d] := hcl.weight
        rcases scanHeads_ready [b1, d1] hcl.ready with ⟨hs, hsc, hall⟩ | ⟨ss2, hsc, hall, hw⟩
        · cases hall with
          | @cons _ hb _ _ hhb hrest =>
          cases hrest with
          | @cons _ hd _ _ hhd hnil =>
          cases hnil
          obtain ⟨tb, htb⟩ := hhb.content
          obtain ⟨td, htd⟩ := hhd.content
          have hsb := hinv1.sortedb
          have hsd := hinv1.sortedd
          rw [htb] at hsb; rw [htd] at hsd
          by_cases heq : hb = hd
          · -- same head: both move, nothing is emitted
            subst heq
            obtain ⟨b2, hnb, hab⟩ := hhb.next
            obtain ⟨d2, hnd, had⟩ := hhd.next
            have hstep : diffLoop thr 0 1 (fuel + 1) [b, d] a = diffLoop thr 0 1 fuel [b2, d2] a := by
              simp [diffLoop, hcd, hsc, nextInSlice, hnb, hnd]
            rw [hstep]
            apply ih
            · refine ⟨⟨hab.ok hrb.ok, by rw [hab.closed]; exact hrb.open_⟩, ⟨had.ok hrd.ok, by rw [had.closed]; exact hrd.open_⟩,
                ?_, ?_, by rw [hab.idx]; exact hinv1.idxb, by rw [had.idx]; exact hinv1.idxd, hinv1.sentClean, hinv1.esorted, ?_, ?_⟩
              · have := hinv1.sortedb; rw [hab.content] at this; exact sorted_tail this
              · have := hinv1.sortedd; rw [had.content] at this; exact sorted_tail this
              · intro e he x hx
                exact hinv1.below e he x (by rw [hab.content]; exact List.mem_cons_of_mem _ hx)
              · intro x
                rw [← hinv1.mem x, hab.content, had.content]
                have hsb' := hinv1.sortedb
                rw [hab.content] at hsb'
                constructor
                · rintro (hx | ⟨hx1, hx2⟩)
                  · exact .inl hx
                  · refine .inr ⟨List.mem_cons_of_mem _ hx1, ?_⟩
                    intro hc
                    rcases List.mem_cons.mp hc with e | hc
                    · exact StrictOrd.irrefl _ (e ▸ sorted_head_lt hsb' x hx1)
                    · exact hx2 hc
                · rintro (hx | ⟨hx1, hx2⟩)
                  · exact .inl hx
                  · refine .inr ⟨?_, fun hc => hx2 (List.mem_cons_of_mem _ hc)⟩
                    rcases List.mem_cons.mp hx1 with e | hx1
                    · exact absurd (by rw [e]; simp) hx2
                    · exact hx1
            · have := hab.weight; have := had.weight
              simp only [weights_cons, weights_nil] at *
              omega
          · by_cases hlt : hb < hd
            · -- the base is behind: its head is not subtracted, emit it
              obtain ⟨b2, hnb, hab⟩ := hhb.next
              have hstep : diffLoop thr 0 1 (fuel + 1) [b, d] a =
                  diffLoop thr 0 1 fuel [b2, d1] (({ a with batch := a.batch ++ [hb] } : Acc α).maybeFlush thr) := by
                simp [diffLoop, hcd, hsc, heq, hlt, addNext, nextInSlice, hnb]
              rw [hstep]
              have hem : (({ a with batch := a.batch ++ [hb] } : Acc α).maybeFlush thr).emitted = a.emitted ++ [hb] := by
                rw [Acc.maybeFlush_emitted]; simp [Acc.emitted]
              have hbnd : hb ∉ d1.content := by
                intro hc
                rw [htd] at hc
                exact sorted_not_lt_head hsd hc hlt
              apply ih
              · refine ⟨⟨hab.ok hrb.ok, by rw [hab.closed]; exact hrb.open_⟩, hinv1.okd, ?_, hinv1.sortedd,
                  by rw [hab.idx]; exact hinv1.idxb, hinv1.idxd, Acc.maybeFlush_clean thr _ hinv1.sentClean, ?_, ?_, ?_⟩
                · have := hinv1.sortedb; rw [hab.content] at this; exact sorted_tail this
                · rw [hem]
                  exact List.pairwise_append.mpr ⟨hinv1.esorted, List.pairwise_singleton _ _, fun e he x hx => by
                    simp at hx; subst hx; exact hinv1.below e he x (by rw [htb]; simp)⟩
                · rw [hem]
                  intro e he x hx
                  rcases List.mem_append.mp he with he | he
                  · exact hinv1.below e he x (by rw [hab.content]; exact List.mem_cons_of_mem _ hx)
                  · simp at he; subst he
                    have := hinv1.sortedb; rw [hab.content] at this
                    exact sorted_head_lt this x hx
                · intro x
                  rw [hem, ← hinv1.mem x]
                  constructor
                  · rintro (hx | ⟨hx1, hx2⟩)
                    · rcases List.mem_append.mp hx with hx | hx
                      · exact .inl hx
                      · simp at hx; subst hx
                        exact .inr ⟨by rw [htb]; simp, hbnd⟩
                    · exact .inr ⟨by rw [hab.content]; exact List.mem_cons_of_mem _ hx1, hx2⟩
                  · rintro (hx | ⟨hx1, hx2⟩)
                    · exact .inl (List.mem_append_left _ hx)
                    · rw [hab.content] at hx1
                      rcases List.mem_cons.mp hx1 with e | hx1
                      · exact .inl (by simp [e])
                      · exact .inr ⟨hx1, hx2⟩
              · have := hab.weight
                simp only [weights_cons, weights_nil] at *
                omega
            · -- the subtract child is behind: skip it forward to the base's head
              have hgt : hd < hb := by
                rcases StrictOrd.tri hb hd with h1 | h1 | h1
                · exact absurd h1 hlt
                · exact absurd h1 heq
                · exact h1
              obtain ⟨d2, hsk, hskp, hprog⟩ := Stream.skipTo_spec hb d1.skipFuel d1 hrd.ok hrd.open_ d1.skipFuel_ge
              have hstep : diffLoop thr 0 1 (fuel + 1) [b, d] a = diffLoop thr 0 1 fuel [b1, d2] a := by
                simp [diffLoop, hcd, hsc, heq, hlt, hsk]
              rw [hstep]
              obtain ⟨dr, hdr, hdrl⟩ := hskp.dropped
              apply ih
              · refine ⟨hinv1.okb, ⟨hskp.ok, hskp.open_⟩, hinv1.sortedb, ?_, hinv1.idxb, by rw [hskp.idx]; exact hinv1.idxd,
                  hinv1.sentClean, hinv1.esorted, hinv1.below, ?_⟩
                · have := hinv1.sortedd; rw [hdr] at this
                  exact (List.pairwise_append.mp this).2.1
                · intro x
                  rw [← hinv1.mem x]
                  constructor
                  · rintro (hx | ⟨hx1, hx2⟩)
                    · exact .inl hx
                    · refine .inr ⟨hx1, ?_⟩
                      intro hc
                      rw [hdr] at hc
                      rcases List.mem_append.mp hc with hc | hc
                      · rw [htb] at hx1
                        exact sorted_not_lt_head hsb hx1 (hdrl x hc)
                      · exact hx2 hc
                  · rintro (hx | ⟨hx1, hx2⟩)
                    · exact .inl hx
                    · exact .inr ⟨hx1, fun hc => hx2 (by rw [hdr]; exact List.mem_append_right _ hc)⟩
              · have := hprog hd hhd hgt
                simp only [weights_cons, weights_nil] at *
                omega
        · -- a buffer ran out: poll again
          cases hall with
          | @cons _ b2 _ _ hsb hrest =>
          cases hrest with
          | @cons _ d2 _ _ hsd hnil =>
          cases hnil
          have hstep : diffLoop thr 0 1 (fuel + 1) [b, d] a = diffLoop thr 0 1 fuel [b2, d2] a := by
            simp [diffLoop, hcd, hsc]
          rw [hstep]
          apply ih
          · exact ⟨⟨hsb.ok hrb.ok, hsb.open_ hrb.open_⟩, ⟨hsd.ok hrd.ok, hsd.open_ hrd.open_⟩,
              by rw [hsb.content]; exact hinv1.sortedb, by rw [hsd.content]; exact hinv1.sortedd,
              by rw [hsb.idx]; exact hinv1.idxb, by rw [hsd.idx]; exact hinv1.idxd, hinv1.sentClean, hinv1.esorted,
              by rw [hsb.content]; exact hinv1.below, by rw [hsb.content, hsd.content]; exact hinv1.mem⟩
          · omega
    · -- one side is exhausted: leave the loop
      have hstep : diffLoop thr 0 1 (fuel + 1) [b, d] a = diffTail thr 0 fuel ss1 a := by
        simp [diffLoop, hcd, hlen1]
      rw [hstep]
      have hlen1' : ss1.length ≤ 1 := by have := hcl.len; simp at this; omega
      obtain ⟨s0, hs0, hnil0⟩ := hcl.dropped (by simpa using hlen1)
      apply diffTail_spec thr D fuel ss1 a
      · refine ⟨hlen1', fun s hs => ⟨(hcl.ready s hs).ok, (hcl.ready s hs).open_⟩, ?_, hinv.sentClean, hinv.esorted, ?_, ?_⟩
        · intro s hs
          obtain ⟨s', hs', hc, _⟩ := hcl.back s hs
          simp at hs'
          rcases hs' with rfl | rfl
          · rw [hc]; exact hinv.sortedb
          · rw [hc]; exact hinv.sortedd
        · intro e he s hs hi x hx
          obtain ⟨s', hs', hc, hi'⟩ := hcl.back s hs
          simp at hs'
          rcases hs' with rfl | rfl
          · exact hinv.below e he x (hc ▸ hx)
          · rw [hinv.idxd] at hi'; rw [hi'] at hi; cases hi
        · intro x
          rw [← hinv.mem x]
          constructor
          · rintro (hx | ⟨s, hs, hi, hx⟩)
            · exact .inl hx
            · obtain ⟨s', hs', hc, hi'⟩ := hcl.back s hs
              simp at hs'
              rcases hs' with rfl | rfl
              · refine .inr ⟨hc ▸ hx, ?_⟩
                -- the base is still there, so the exhausted stream is the subtract child
                simp at hs0
                rcases hs0 with rfl | rfl
                · rw [hc, hnil0] at hx; cases hx
                · rw [hnil0]; simp
              · rw [hinv.idxd] at hi'; rw [hi'] at hi; cases hi
          · rintro (hx | ⟨hx1, hx2⟩)
            · exact .inl hx
            · rcases hcl.fwd b (by simp) with hn | ⟨s1, hs1, hc, hi⟩
              · rw [hn] at hx1; cases hx1
              · exact .inr ⟨s1, hs1, by rw [hi]; exact hinv.idxb, hc ▸ hx1⟩
      · have := hcl.weight; omega

/-- **fastPathDifference**: error free, and the concatenation of the batches is the strictly ascending
list of the object ids carried by the base and not by the subtract child, for every batch threshold. -/
theorem fastPathDifference_spec (thr : Nat) (base sub : Chan α)
    (hcb : Chan.clean base = true) (hcs : Chan.clean sub = true)
    (hsb : Sorted (Chan.items base)) (hss : Sorted (Chan.items sub)) :
    ∃ out, fastPathDifference thr 0 1 base sub = some out ∧ Chan.clean out = true ∧ Sorted (Chan.items out) ∧
      ∀ x, x ∈ Chan.items out ↔ (x ∈ Chan.items base ∧ x ∉ Chan.items sub) := by
  unfold fastPathDifference
  have : mkStreams [base, sub] = [mkStream 0 base, mkStream 1 sub] := rfl
  rw [this]
  apply diffLoop_spec thr (fun x => x ∈ Chan.items base ∧ x ∉ Chan.items sub)
  · exact ⟨⟨mkStream_ok 0 base hcb, rfl⟩, ⟨mkStream_ok 1 sub hcs, rfl⟩, by rw [mkStream_content]; exact hsb,
      by rw [mkStream_content]; exact hss, rfl, rfl, rfl, List.Pairwise.nil, (fun e he => by cases he),
      fun x => by simp [mkStream_content, Acc.empty, Acc.emitted, Chan.items]⟩
  · unfold fuelFor; rw [this]; omega

end diff

end OpenFGAVerif.Weight2
