/-
`weight2Userset_sem`: the weight-two handler of a userset restriction `x = T#rel'` (applicable: `w1Rel`),
with the repaired filter order and no unevaluable condition, against the default handler
`usersetHandler w o r [x]` of the same sub-problem — for every arrival order of the left-hand messages
(any permutation), every schedule of the consumer loop:

  the handler answers `true`  ⇒ the default handler's expression holds definitely;
  it answers `false` (no cancellation) ⇒ the expression does not even possibly hold.

So the weight-two answer and every untainted default answer (`Dfs.eval_sound`) are the same decision.
-/
import OpenFGAVerif.Proofs.Weight2Sem
import OpenFGAVerif.Proofs.Weight2Consumer

namespace OpenFGAVerif.Weight2
open OpenFGAVerif.Vocab OpenFGAVerif.CheckV1 OpenFGAVerif.BoolSys

theorem mem_items_perm {l1 l2 : Chan String} (h : l1.Perm l2) (x : String) :
    x ∈ Chan.items l1 ↔ x ∈ Chan.items l2 := by
  simp only [Chan.items, List.mem_flatMap]
  constructor
  · rintro ⟨m, hm, hx⟩; exact ⟨m, h.mem_iff.mp hm, hx⟩
  · rintro ⟨m, hm, hx⟩; exact ⟨m, h.mem_iff.mpr hm, hx⟩

section handler
variable (w : World) (hi : w.ideal = false) (hcs : ConcreteSubject w) (hne : NoCondErr w) (hnd : NoDupKeys w)
  (hctx : CtxSorted w) (I : Interp Node) (hc : Coherent (sysOf w) I)

include hi hcs hne hnd hctx hc in
/-- the left side of an applicable relation: one clean channel that carries exactly the objects of the type
on which the subject holds the relation -/
theorem leftOfRel_good (thr : Nat) (typ rel : String) (hw1 : w1Rel w typ rel = true) :
    ∃ c, leftOfRel w { order := .repaired, thr := thr } typ rel = some (.chan c false) ∧
      Chan.clean c = true ∧ (∀ x ∈ Chan.items c, typeOf x = typ) ∧
      (∀ g, typeOf g = typ → (g ∈ Chan.items c ↔ D (sysOf w) I [] (g, rel))) ∧
      (∀ g, typeOf g = typ → (g ∈ Chan.items c ↔ P (sysOf w) I [] (g, rel))) := by
  simp only [w1Rel, Bool.and_eq_true, decide_eq_true_eq] at hw1
  obtain ⟨hrel, hw1⟩ := hw1
  cases hrd : w.model.findRel typ rel with
  | none => simp [hrd] at hw1
  | some rd =>
    simp only [hrd, Bool.and_eq_true] at hw1
    obtain ⟨c, hcl, hg⟩ := leftChan_good w hi hcs hne hnd hctx I hc thr typ leftFuel rel rd rd.rewrite hrd hw1.2
    refine ⟨c, by simp [leftOfRel, hrd, hcl], hg.clean, hg.typed, ?_, ?_⟩
    · intro g hgt
      rw [hg.defn g hgt]
      have h1 := lfp_iff_rule w leafD I.negD (g, rel)
      rw [ruleOf_eq w hcs.notUserset g rel hrel rd (by rw [hgt]; exact hrd) (by rw [hgt]; exact hw1.1)] at h1
      exact h1.symm
    · intro g hgt
      rw [hg.poss g hgt]
      have h1 := lfp_iff_rule w leafP I.negP (g, rel)
      rw [ruleOf_eq w hcs.notUserset g rel hrel rd (by rw [hgt]; exact hrd) (by rw [hgt]; exact hw1.1)] at h1
      exact h1.symm

/-- kids of the default handler of one userset restriction -/
theorem usersetHandler_holds_iff (leaf : BoolSys.Leaf → Prop) (neg : Expr Node → Prop) (S : Node → Prop)
    (hi : w.ideal = false) (hne : NoCondErr w) (o r : String) (x : Restr) :
    Holds leaf neg S (usersetHandler w o r [x]) ↔
      ∃ t ∈ (filterIter w (usersetTuples w o r [x])).passed, S (splitUserset t.user) := by
  unfold usersetHandler
  simp only
  have hse := filterIter_noErr w hne _ (fun t ht => (usersetTuples_sub w o r [x] t ht).1)
  rw [holds_or_iff]
  simp only [kidsOf, hi, Bool.false_eq_true, if_false, errTail, hse, List.append_nil, List.mem_filterMap,
    Option.some.injEq]
  constructor
  · rintro ⟨e, ⟨t, ht, rfl⟩, hh⟩
    exact ⟨t, ht, holds_node_iff.mp hh⟩
  · rintro ⟨t, ht, hs⟩
    exact ⟨_, ⟨t, ht, rfl⟩, holds_node_iff.mpr hs⟩

include hi hcs hne hnd hctx hc in
/-- **weight2_sem (userset handler)** -/
theorem weight2Userset_sem (thr : Nat) (o r : String) (x : Restr) (hw1 : w1Rel w x.typ x.rel = true) :
    ∃ c, usersetLefts w { order := .repaired, thr := thr } x = [.chan c false] ∧
      ∀ (leftQ : Chan String), leftQ.Perm c → ∀ (sched : List Pick),
        (consume sched leftQ (usersetRight w o r x) false = some .T →
          HoldsD (sysOf w) I [] (usersetHandler w o r [x])) ∧
        (Pick.cancel ∉ sched → consume sched leftQ (usersetRight w o r x) false = some .F →
          ¬ HoldsP (sysOf w) I [] (usersetHandler w o r [x])) := by
  obtain ⟨c, hleft, _, _, hD, hP⟩ := leftOfRel_good w hi hcs hne hnd hctx I hc thr x.typ x.rel hw1
  refine ⟨c, by simp [usersetLefts, hleft], ?_⟩
  intro leftQ hperm sched
  -- the usersets on the object: every passing tuple names an object of type `x.typ` with relation `x.rel`
  have hkid : ∀ t ∈ (filterIter w (usersetTuples w o r [x])).passed,
      splitUserset t.user = ((splitUserset t.user).1, x.rel) ∧ typeOf (splitUserset t.user).1 = x.typ := by
    intro t ht
    obtain ⟨ht1, _, _⟩ := (mem_filterIter_passed w _ t).mp ht
    obtain ⟨_, _, _, y, hy, hy1, hy2⟩ := usersetTuples_sub w o r [x] t ht1
    simp only [List.mem_singleton] at hy
    subst hy
    refine ⟨?_, by rw [hy1]; rfl⟩
    have : (splitUserset t.user).2 = y.rel := hy2.symm
    rw [← this]
  have hpassed : (usersetRight w o r x).passed =
      (filterIter w (usersetTuples w o r [x])).passed.map (fun t => (splitUserset t.user).1) := rfl
  constructor
  · intro hT
    unfold consume at hT
    simp only [Bool.false_eq_true, if_false] at hT
    cases hp : (usersetRight w o r x).passed with
    | nil => simp only [hp] at hT; split at hT <;> cases hT
    | cons u q =>
      simp only [hp] at hT
      obtain ⟨v, hv1, hv2⟩ := consumeLoop_T sched _ hT
      simp only [CState.rightAll, CState.leftAll, List.nil_append, List.singleton_append] at hv1 hv2
      rw [← hp, hpassed] at hv1
      obtain ⟨t, ht, rfl⟩ := List.mem_map.mp hv1
      obtain ⟨hk1, hk2⟩ := hkid t ht
      have hin : (splitUserset t.user).1 ∈ Chan.items c := (mem_items_perm hperm _).mp hv2
      have hd := (hD _ hk2).mp hin
      exact (usersetHandler_holds_iff w leafD I.negD _ hi hne o r x).mpr ⟨t, ht, by rw [hk1]; exact hd⟩
  · intro hnc hF hhold
    obtain ⟨t, ht, hs⟩ := (usersetHandler_holds_iff w leafP I.negP _ hi hne o r x).mp hhold
    obtain ⟨hk1, hk2⟩ := hkid t ht
    rw [hk1] at hs
    have hin : (splitUserset t.user).1 ∈ Chan.items c := (hP _ hk2).mpr hs
    have hvp : (splitUserset t.user).1 ∈ (usersetRight w o r x).passed := by
      rw [hpassed]; exact List.mem_map.mpr ⟨t, ht, rfl⟩
    unfold consume at hF
    simp only [Bool.false_eq_true, if_false] at hF
    cases hp : (usersetRight w o r x).passed with
    | nil => rw [hp] at hvp; cases hvp
    | cons u q =>
      simp only [hp] at hF
      have hwf : ({ leftQ := leftQ, rightQ := q, rightErr := false, rightSet := [u] } : CState).Wf :=
        ⟨(fun h => by cases h), (fun h => by cases h), (fun v _ hv => by cases hv)⟩
      obtain ⟨hno, _⟩ := consumeLoop_F sched hnc _ hwf rfl hF
      refine hno (splitUserset t.user).1 ?_ ?_
      · simp only [CState.rightAll, List.singleton_append]; rw [← hp]; exact hvp
      · simp only [CState.leftAll, List.nil_append]; exact (mem_items_perm hperm _).mpr hin

end handler

/-! ### the tuple-to-userset handler -/

/-- user strings that are not usersets are their own object part (`tuple.SplitObjectRelation` on a string
without `#`); C29 proves the string-level facts for valid tuple strings -/
def WfUsers (w : World) : Prop := ∀ t ∈ w.all, isUserset t.user = false → (splitUserset t.user).1 = t.user

theorem mem_items_flatten {leftQ : Chan String} {cs : List (Chan String)} (h : leftQ.Perm cs.flatten) (x : String) :
    x ∈ Chan.items leftQ ↔ ∃ c ∈ cs, x ∈ Chan.items c := by
  rw [mem_items_perm h]
  simp only [Chan.items, List.mem_flatMap, List.mem_flatten]
  constructor
  · rintro ⟨m, ⟨c, hc, hm⟩, hx⟩; exact ⟨c, hc, m, hm, hx⟩
  · rintro ⟨c, hc, m, hm, hx⟩; exact ⟨m, ⟨c, hc, hm⟩, hx⟩

section ttu
variable (w : World) (hi : w.ideal = false) (hcs : ConcreteSubject w) (hne : NoCondErr w) (hnd : NoDupKeys w)
  (hctx : CtxSorted w) (I : Interp Node) (hc : Coherent (sysOf w) I)

/-- kids of the default tuple-to-userset handler -/
theorem ttuExpr_holds_iff (leaf : BoolSys.Leaf → Prop) (neg : Expr Node → Prop) (S : Node → Prop)
    (hi : w.ideal = false) (hne : NoCondErr w) (o ts cr : String) :
    Holds leaf neg S (ttuExpr w o ts cr) ↔
      ∃ t ∈ (filterIter w (w.all.filter (fun t => t.obj = o && t.rel = ts))).passed,
        (w.model.findRel (typeOf (splitUserset t.user).1) cr).isSome = true ∧ S ((splitUserset t.user).1, cr) := by
  unfold ttuExpr
  simp only
  have hse := filterIter_noErr w hne (w.all.filter (fun t => t.obj = o && t.rel = ts)) (fun t ht => (List.mem_filter.mp ht).1)
  rw [holds_or_iff]
  simp only [kidsOf, hi, Bool.false_eq_true, if_false, errTail, hse, List.append_nil, List.mem_filterMap]
  constructor
  · rintro ⟨e, ⟨t, ht, hte⟩, hh⟩
    cases hfr : w.model.findRel (typeOf (splitUserset t.user).1) cr with
    | none => simp [hfr] at hte
    | some rdc =>
      simp only [hfr, Option.some.injEq] at hte
      subst hte
      exact ⟨t, ht, by simp [hfr], holds_node_iff.mp hh⟩
  · rintro ⟨t, ht, hsome, hs⟩
    obtain ⟨rdc, hfr⟩ := Option.isSome_iff_exists.mp hsome
    exact ⟨Expr.node true ((splitUserset t.user).1, cr), ⟨t, ht, by simp [hfr]⟩, holds_node_iff.mpr hs⟩

include hi hcs hne hnd hctx hc in
/-- the left channels of the tuple-to-userset handler: one good channel per parent type that has the relation -/
theorem ttuLefts_good (thr : Nat) (cr : String) (restrs : List Restr)
    (hw1 : ∀ p ∈ restrs, (w.model.findRel p.typ cr).isSome = true → w1Rel w p.typ cr = true) :
    ∃ cs : List (Chan String),
      restrs.filterMap (fun p => leftOfRel w { order := .repaired, thr := thr } p.typ cr) = cs.map (fun c => LeftR.chan c false) ∧
      (∀ c ∈ cs, ∃ p ∈ restrs, (w.model.findRel p.typ cr).isSome = true ∧ (∀ x ∈ Chan.items c, typeOf x = p.typ) ∧
        (∀ g, typeOf g = p.typ → (g ∈ Chan.items c ↔ D (sysOf w) I [] (g, cr)))) ∧
      (∀ p ∈ restrs, (w.model.findRel p.typ cr).isSome = true → ∃ c ∈ cs,
        (∀ g, typeOf g = p.typ → (g ∈ Chan.items c ↔ P (sysOf w) I [] (g, cr)))) := by
  induction restrs with
  | nil => exact ⟨[], rfl, (fun c hc' => by cases hc'), (fun p hp => by cases hp)⟩
  | cons p rest ih =>
    obtain ⟨cs, h1, h2, h3⟩ := ih (fun q hq => hw1 q (List.mem_cons_of_mem _ hq))
    cases hfr : w.model.findRel p.typ cr with
    | none =>
      have hnone : leftOfRel w { order := .repaired, thr := thr } p.typ cr = none := by simp [leftOfRel, hfr]
      refine ⟨cs, by rw [List.filterMap_cons, hnone]; exact h1, ?_, ?_⟩
      · intro c hc'
        obtain ⟨q, hq, hrest⟩ := h2 c hc'
        exact ⟨q, List.mem_cons_of_mem _ hq, hrest⟩
      · intro q hq hsome
        rcases List.mem_cons.mp hq with rfl | hq
        · rw [hfr] at hsome; cases hsome
        · exact h3 q hq hsome
    | some rdc =>
      obtain ⟨c, hleft, _, htyped, hD, hP⟩ := leftOfRel_good w hi hcs hne hnd hctx I hc thr p.typ cr
        (hw1 p (by simp) (by simp [hfr]))
      refine ⟨c :: cs, by rw [List.filterMap_cons, hleft, h1]; rfl, ?_, ?_⟩
      · intro c' hc'
        rcases List.mem_cons.mp hc' with rfl | hc'
        · exact ⟨p, by simp, by simp [hfr], htyped, hD⟩
        · obtain ⟨q, hq, hrest⟩ := h2 c' hc'
          exact ⟨q, List.mem_cons_of_mem _ hq, hrest⟩
      · intro q hq hsome
        rcases List.mem_cons.mp hq with rfl | hq
        · exact ⟨c, by simp, hP⟩
        · obtain ⟨c', hc', hrest⟩ := h3 q hq hsome
          exact ⟨c', List.mem_cons_of_mem _ hc', hrest⟩

include hi hcs hne hnd hctx hc in
/-- **weight2_sem (tuple-to-userset handler)** -/
theorem weight2TTU_sem (thr : Nat) (o ts cr : String) (rdts : RelDef)
    (hts : w.model.findRel (typeOf o) ts = some rdts) (htsr : w.model.isTuplesetRelation (typeOf o) ts = true)
    (hwf : WfUsers w)
    (hw1 : ∀ p ∈ rdts.restrs, (w.model.findRel p.typ cr).isSome = true → w1Rel w p.typ cr = true) :
    ∃ cs : List (Chan String),
      ttuLefts w { order := .repaired, thr := thr } (typeOf o) ts cr = some (cs.map (fun c => LeftR.chan c false)) ∧
      ∀ (leftQ : Chan String), leftQ.Perm cs.flatten → ∀ (sched : List Pick),
        (consume sched leftQ (ttuRight w o ts) false = some .T → HoldsD (sysOf w) I [] (ttuExpr w o ts cr)) ∧
        (Pick.cancel ∉ sched → consume sched leftQ (ttuRight w o ts) false = some .F →
          ¬ HoldsP (sysOf w) I [] (ttuExpr w o ts cr)) := by
  obtain ⟨cs, hl, hback, hfwd⟩ := ttuLefts_good w hi hcs hne hnd hctx I hc thr cr rdts.restrs hw1
  refine ⟨cs, by simp [ttuLefts, hts, hl], ?_⟩
  intro leftQ hperm sched
  -- the parents stored on the object
  have hkid : ∀ t ∈ (filterIter w (w.all.filter (fun t => t.obj = o && t.rel = ts))).passed,
      (splitUserset t.user).1 = t.user ∧ ∃ p ∈ rdts.restrs, p.typ = typeOf (splitUserset t.user).1 := by
    intro t ht
    obtain ⟨ht1, ht2, _⟩ := (mem_filterIter_passed w _ t).mp ht
    simp only [List.mem_filter, Bool.and_eq_true, decide_eq_true_eq] at ht1
    have hnu : isUserset t.user = false := by
      have hv := ht2
      simp only [validForRead] at hv
      rw [ht1.2.1, ht1.2.2, hts] at hv
      simp only [htsr, if_true, Bool.and_eq_true, Bool.not_eq_true'] at hv
      exact hv.1.1.2
    refine ⟨hwf t ht1.1 hnu, ?_⟩
    have hany := validForRead_restr w.model t ht2 rdts (by rw [ht1.2.1, ht1.2.2]; exact hts)
    rw [List.any_eq_true] at hany
    obtain ⟨p, hp, hpm⟩ := hany
    refine ⟨p, hp, ?_⟩
    have : p.typ = userType t.user := by
      simp only [restrMatchesUser] at hpm
      split at hpm
      · simp only [Bool.and_eq_true, decide_eq_true_eq] at hpm; exact hpm.1.1
      · split at hpm
        · simp only [Bool.and_eq_true, decide_eq_true_eq] at hpm; exact hpm.1
        · simp only [Bool.and_eq_true, decide_eq_true_eq] at hpm; exact hpm.1.1
    rw [this]; rfl
  have hpassed : (ttuRight w o ts).passed =
      (filterIter w (w.all.filter (fun t => t.obj = o && t.rel = ts))).passed.map (·.user) := rfl
  constructor
  · intro hT
    unfold consume at hT
    simp only [Bool.false_eq_true, if_false] at hT
    cases hp : (ttuRight w o ts).passed with
    | nil => simp only [hp] at hT; split at hT <;> cases hT
    | cons u q =>
      simp only [hp] at hT
      obtain ⟨v, hv1, hv2⟩ := consumeLoop_T sched _ hT
      simp only [CState.rightAll, CState.leftAll, List.nil_append, List.singleton_append] at hv1 hv2
      rw [← hp, hpassed] at hv1
      obtain ⟨t, ht, rfl⟩ := List.mem_map.mp hv1
      obtain ⟨hk1, _⟩ := hkid t ht
      obtain ⟨c, hc', hin⟩ := (mem_items_flatten hperm _).mp hv2
      obtain ⟨p, _, hsome, htyped, hD⟩ := hback c hc'
      have htyp : typeOf t.user = p.typ := htyped _ hin
      have hd := (hD _ htyp).mp hin
      refine (ttuExpr_holds_iff w leafD I.negD _ hi hne o ts cr).mpr ⟨t, ht, ?_, ?_⟩
      · rw [hk1, htyp]; exact hsome
      · rw [hk1]; exact hd
  · intro hnc hF hhold
    obtain ⟨t, ht, hsome, hs⟩ := (ttuExpr_holds_iff w leafP I.negP _ hi hne o ts cr).mp hhold
    obtain ⟨hk1, p, hp, hptyp⟩ := hkid t ht
    obtain ⟨c, hc', hP⟩ := hfwd p hp (by rw [hptyp]; exact hsome)
    have hin : (splitUserset t.user).1 ∈ Chan.items c := (hP _ hptyp.symm).mpr hs
    rw [hk1] at hin
    have hvp : t.user ∈ (ttuRight w o ts).passed := by
      rw [hpassed]; exact List.mem_map.mpr ⟨t, ht, rfl⟩
    unfold consume at hF
    simp only [Bool.false_eq_true, if_false] at hF
    cases hpq : (ttuRight w o ts).passed with
    | nil => rw [hpq] at hvp; cases hvp
    | cons u q =>
      simp only [hpq] at hF
      have hwf' : ({ leftQ := leftQ, rightQ := q, rightErr := false, rightSet := [u] } : CState).Wf :=
        ⟨(fun h => by cases h), (fun h => by cases h), (fun v _ hv => by cases hv)⟩
      obtain ⟨hno, _⟩ := consumeLoop_F sched hnc _ hwf' rfl hF
      refine hno t.user ?_ ?_
      · simp only [CState.rightAll, List.singleton_append]; rw [← hpq]; exact hvp
      · simp only [CState.leftAll, List.nil_append]; exact (mem_items_flatten hperm _).mpr ⟨c, hc', hin⟩

end ttu

end OpenFGAVerif.Weight2
