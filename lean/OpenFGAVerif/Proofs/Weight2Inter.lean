/-
`fastPathIntersection_spec`: on clean children with strictly ascending contents (at least one child),
`fastPathIntersection` sends no error and the concatenation of its batches is the strictly ascending list
of exactly the object ids carried by *every* child — for every batch threshold and batching of the inputs.
-/
import OpenFGAVerif.Proofs.Weight2Union

namespace OpenFGAVerif.Weight2

set_option linter.unusedSectionVars false

variable {α : Type}

theorem positions_length_le (p : α → Bool) (hs : List α) (i : Nat) : (positions p hs i).length ≤ hs.length := by
  induction hs generalizing i with
  | nil => simp [positions]
  | cons v rest ih =>
    simp only [positions]
    split
    · simp; exact ih (i + 1)
    · have := ih (i + 1); simp; omega

theorem positions_length_eq_iff (p : α → Bool) (hs : List α) (i : Nat) :
    (positions p hs i).length = hs.length ↔ ∀ h ∈ hs, p h = true := by
  induction hs generalizing i with
  | nil => simp [positions]
  | cons v rest ih =>
    simp only [positions]
    by_cases hp : p v = true
    · rw [if_pos hp]
      simp only [List.length_cons, Nat.add_right_cancel_iff, List.mem_cons, forall_eq_or_imp, hp, true_and]
      exact ih (i + 1)
    · rw [if_neg hp]
      have := positions_length_le p rest (i + 1)
      constructor
      · intro h; simp at h; omega
      · intro h; exact absurd (h v (by simp)) hp

/-- all heads equal to `m` ⇒ `advanceEq m` advances every stream -/
theorem advanceEq_all [DecidableEq α] {m : α} {ss : List (Stream α)} {hs : List α}
    (hall : All2 Stream.HeadIs ss hs) (heq : ∀ h ∈ hs, h = m) :
    All2 (Advanced m) ss (advanceEq m ss) := by
  induction hall with
  | nil => exact .nil
  | @cons a b as bs hab _ ih =>
    have hb : b = m := heq b (by simp)
    subst hb
    obtain ⟨a', hn, hadv⟩ := hab.next
    simp only [advanceEq, List.map_cons, hab.head, hn, if_true]
    exact .cons hadv (ih (fun h hh => heq h (by simp [hh])))

section inter
variable [LT α] [DecidableLT α] [DecidableEq α] [StrictOrd α]

theorem skipAll_spec (target : α) (ss : List (Stream α)) (h : ∀ s ∈ ss, s.Ok ∧ s.closed = false) :
    ∃ ss', skipAll target ss = some ss' ∧ All2 (Skipped target) ss ss' ∧ weights ss' ≤ weights ss ∧
      ((∃ s ∈ ss, ∃ h0, s.HeadIs h0 ∧ h0 < target) → weights ss' + 2 ≤ weights ss) := by
  induction ss with
  | nil => exact ⟨[], rfl, .nil, Nat.le_refl _, fun ⟨s, hs, _⟩ => by cases hs⟩
  | cons s rest ih =>
    obtain ⟨hok, hop⟩ := h s (by simp)
    obtain ⟨s', hsk, hskp, hprog⟩ := Stream.skipTo_spec target s.skipFuel s hok hop s.skipFuel_ge
    obtain ⟨rest', hr, hall, hw, hp⟩ := ih (fun x hx => h x (by simp [hx]))
    refine ⟨s' :: rest', by simp [skipAll, hsk, hr], .cons hskp hall, ?_, ?_⟩
    · simp only [weights_cons]; have := hskp.weight; omega
    · rintro ⟨x, hx, h0, hh0, hlt⟩
      simp only [weights_cons]
      have := hskp.weight
      rcases List.mem_cons.mp hx with rfl | hx
      · have := hprog h0 hh0 hlt; omega
      · have := hp ⟨x, hx, h0, hh0, hlt⟩; omega

/-- loop invariant of `fastPathIntersection`; `I` = "every child carries the object" -/
structure IInv (I : α → Prop) (ss : List (Stream α)) (a : Acc α) : Prop where
  ok : ∀ s ∈ ss, s.Ok ∧ s.closed = false
  sorted : ∀ s ∈ ss, Sorted s.content
  sentClean : Chan.clean a.sent = true
  esorted : Sorted a.emitted
  below : ∀ e ∈ a.emitted, ∀ s ∈ ss, ∀ x ∈ s.content, e < x
  mem : ∀ x, (x ∈ a.emitted ∨ ∀ s ∈ ss, x ∈ s.content) ↔ I x

/-- moving to a list of streams with the same contents (position by position) -/
theorem IInv.transfer {I : α → Prop} {ss ss' : List (Stream α)} {a : Acc α} (h : IInv I ss a)
    (hc : All2 (fun s s' => s'.content = s.content) ss ss') (hok : ∀ s ∈ ss', s.Ok ∧ s.closed = false) :
    IInv I ss' a := by
  refine ⟨hok, ?_, h.sentClean, h.esorted, ?_, ?_⟩
  · intro s' hs'
    obtain ⟨s, hs, hsc⟩ := forall₂_mem_right hc hs'
    rw [hsc]; exact h.sorted s hs
  · intro e he s' hs' x hx
    obtain ⟨s, hs, hsc⟩ := forall₂_mem_right hc hs'
    rw [hsc] at hx; exact h.below e he s hs x hx
  · intro x
    rw [← h.mem x]
    constructor
    · rintro (hx | hx)
      · exact .inl hx
      · refine .inr (fun s hs => ?_)
        obtain ⟨s', hs', hsc⟩ := forall₂_mem_left hc hs
        rw [← hsc]; exact hx s' hs'
    · rintro (hx | hx)
      · exact .inl hx
      · refine .inr (fun s' hs' => ?_)
        obtain ⟨s, hs, hsc⟩ := forall₂_mem_right hc hs'
        rw [hsc]; exact hx s hs

/-- all heads are `m`: emit it and advance everybody -/
theorem IInv.stepAll {I : α → Prop} {ss : List (Stream α)} {a : Acc α} (h : IInv I ss a) (hne : ss ≠ [])
    {hs : List α} (hall : All2 Stream.HeadIs ss hs) {m : α} (heq : ∀ h0 ∈ hs, h0 = m) (thr : Nat) :
    IInv I (advanceEq m ss) (({ a with batch := a.batch ++ [m] } : Acc α).maybeFlush thr) := by
  have hadv := advanceEq_all hall heq
  have hhead : ∀ s ∈ ss, s.HeadIs m := by
    intro s hs
    obtain ⟨b, hb, hsb⟩ := forall₂_mem_left hall hs
    rw [← heq b hb]; exact hsb
  have hmem_m : ∀ s ∈ ss, m ∈ s.content := by
    intro s hs
    obtain ⟨t, ht⟩ := (hhead s hs).content
    rw [ht]; simp
  obtain ⟨s0, hs0⟩ := List.exists_mem_of_ne_nil ss hne
  have hbelow_m : ∀ e ∈ a.emitted, e < m := fun e he => h.below e he s0 hs0 m (hmem_m s0 hs0)
  have hem : (({ a with batch := a.batch ++ [m] } : Acc α).maybeFlush thr).emitted = a.emitted ++ [m] := by
    rw [Acc.maybeFlush_emitted]; simp [Acc.emitted]
  refine ⟨?_, ?_, Acc.maybeFlush_clean thr _ h.sentClean, ?_, ?_, ?_⟩
  · intro s' hs'
    obtain ⟨s, hs, ha⟩ := forall₂_mem_right hadv hs'
    exact ⟨ha.ok (h.ok s hs).1, by rw [ha.closed]; exact (h.ok s hs).2⟩
  · intro s' hs'
    obtain ⟨s, hs, ha⟩ := forall₂_mem_right hadv hs'
    have := h.sorted s hs
    rw [ha.content] at this
    exact sorted_tail this
  · rw [hem]
    exact List.pairwise_append.mpr ⟨h.esorted, List.pairwise_singleton _ _, fun e he x hx => by
      simp at hx; subst hx; exact hbelow_m e he⟩
  · rw [hem]
    intro e he s' hs' x hx
    obtain ⟨s, hs, ha⟩ := forall₂_mem_right hadv hs'
    rcases List.mem_append.mp he with he | he
    · exact h.below e he s hs x (by rw [ha.content]; exact List.mem_cons_of_mem _ hx)
    · simp at he; subst he
      have hso := h.sorted s hs
      rw [ha.content] at hso
      exact sorted_head_lt hso x hx
  · intro x
    rw [hem, ← h.mem x]
    constructor
    · rintro (hx | hx)
      · rcases List.mem_append.mp hx with hx | hx
        · exact .inl hx
        · simp at hx; subst hx; exact .inr hmem_m
      · refine .inr (fun s hs => ?_)
        obtain ⟨s', hs', ha⟩ := forall₂_mem_left hadv hs
        rw [ha.content]; exact List.mem_cons_of_mem _ (hx s' hs')
    · rintro (hx | hx)
      · exact .inl (List.mem_append_left _ hx)
      · by_cases hxm : x = m
        · exact .inl (by simp [hxm])
        · refine .inr (fun s' hs' => ?_)
          obtain ⟨s, hs, ha⟩ := forall₂_mem_right hadv hs'
          have := hx s hs
          rw [ha.content] at this
          rcases List.mem_cons.mp this with e | this
          · exact absurd e hxm
          · exact this

/-- not all heads equal: every stream skips what is below the greatest head `mx` -/
theorem IInv.stepSkip {I : α → Prop} {ss ss' : List (Stream α)} {a : Acc α} (h : IInv I ss a)
    {mx : α} (hmx : ∃ s ∈ ss, s.HeadIs mx) (hsk : All2 (Skipped mx) ss ss') : IInv I ss' a := by
  obtain ⟨smx, hsmx, hhmx⟩ := hmx
  obtain ⟨tmx, htmx⟩ := hhmx.content
  have hge : ∀ x ∈ smx.content, ¬ x < mx := by
    intro x hx
    have hso := h.sorted smx hsmx
    rw [htmx] at hso hx
    rcases List.mem_cons.mp hx with rfl | hx
    · exact StrictOrd.irrefl _
    · exact StrictOrd.asymm (sorted_head_lt hso x hx)
  refine ⟨?_, ?_, h.sentClean, h.esorted, ?_, ?_⟩
  · intro s' hs'
    obtain ⟨s, _, hk⟩ := forall₂_mem_right hsk hs'
    exact ⟨hk.ok, hk.open_⟩
  · intro s' hs'
    obtain ⟨s, hs, hk⟩ := forall₂_mem_right hsk hs'
    obtain ⟨d, hd, _⟩ := hk.dropped
    have := h.sorted s hs
    rw [hd] at this
    exact (List.pairwise_append.mp this).2.1
  · intro e he s' hs' x hx
    obtain ⟨s, hs, hk⟩ := forall₂_mem_right hsk hs'
    obtain ⟨d, hd, _⟩ := hk.dropped
    exact h.below e he s hs x (by rw [hd]; exact List.mem_append_right _ hx)
  · intro x
    rw [← h.mem x]
    constructor
    · rintro (hx | hx)
      · exact .inl hx
      · refine .inr (fun s hs => ?_)
        obtain ⟨s', hs', hk⟩ := forall₂_mem_left hsk hs
        obtain ⟨d, hd, _⟩ := hk.dropped
        rw [hd]; exact List.mem_append_right _ (hx s' hs')
    · rintro (hx | hx)
      · exact .inl hx
      · refine .inr (fun s' hs' => ?_)
        obtain ⟨s, hs, hk⟩ := forall₂_mem_right hsk hs'
        obtain ⟨d, hd, hdl⟩ := hk.dropped
        have := hx s hs
        rw [hd] at this
        rcases List.mem_append.mp this with hxd | hxs
        · exact absurd (hdl x hxd) (hge x (hx smx hsmx))
        · exact hxs

theorem interLoop_spec (thr total : Nat) (htot : 0 < total) (I : α → Prop) :
    ∀ (fuel : Nat) (ss : List (Stream α)) (a : Acc α), IInv I ss a → ss.length = total → weights ss + 2 ≤ fuel →
      ∃ out, interLoop thr total fuel ss a = some out ∧ Chan.clean out = true ∧ Sorted (Chan.items out) ∧
        ∀ x, x ∈ Chan.items out ↔ I x := by
  intro fuel
  induction fuel with
  | zero => intro ss a _ _ hf; omega
  | succ fuel ih =>
    intro ss a hinv hlen hf
    have hne : ss ≠ [] := by intro e; subst e; simp at hlen; omega
    obtain ⟨ss1, hcd, hcl⟩ := cleanDone_spec ss (fun s hs => (hinv.ok s hs).1)
    by_cases hlen1 : ss1.length = total
    · -- nobody finished
      have hpos := cleanDone_same_length ss (fun s hs => (hinv.ok s hs).1) ss1 hcd (by rw [hlen1, hlen])
      have hinv1 : IInv I ss1 a :=
        hinv.transfer (hpos.imp (fun _ _ h => h.1)) (fun s hs => ⟨(hcl.ready s hs).ok, (hcl.ready s hs).open_⟩)
      have hne1 : ss1 ≠ [] := by intro e; subst e; simp at hlen1; omega
      rcases scanHeads_ready ss1 hcl.ready with ⟨hs, hsc, hall⟩ | ⟨ss2, hsc, hall, hw⟩
      · cases hs with
        | nil =>
          have := hall.length_eq
          simp at this; exact absurd this hne1
        | cons v rest =>
          obtain ⟨mx, hsel, hmx, hmax⟩ := selMax_spec v rest
          have hhl : (v :: rest).length = total := by rw [← hall.length_eq]; exact hlen1
          by_cases hcnt : (positions (fun x => decide (x = mx)) (v :: rest) 0).length = total
          · -- all heads equal
            have heq : ∀ h0 ∈ v :: rest, h0 = mx := by
              intro h0 hh0
              have := (positions_length_eq_iff _ (v :: rest) 0).mp (by rw [hcnt, hhl]) h0 hh0
              simpa using this
            have hstep : interLoop thr total (fuel + 1) ss a =
                interLoop thr total fuel (advanceEq mx ss1) (({ a with batch := a.batch ++ [mx] } : Acc α).maybeFlush thr) := by
              simp only [interLoop, hlen, hcd, hlen1, hsc, hsel, hcnt, ne_eq, not_true_eq_false, if_false, if_true,
                addNext_eq thr mx ss1 (v :: rest) hall hmx a]
            rw [hstep]
            apply ih
            · exact hinv1.stepAll hne1 hall heq thr
            · rw [advanceEq_length]; exact hlen1
            · have := (weights_advanceEq (m := mx) hall).2 hmx
              have := hcl.weight
              omega
          · -- skip to the greatest head
            obtain ⟨ss2, hsk, hskall, hw, hprog⟩ := skipAll_spec mx ss1 (fun s hs => ⟨(hcl.ready s hs).ok, (hcl.ready s hs).open_⟩)
            have hstep : interLoop thr total (fuel + 1) ss a = interLoop thr total fuel ss2 a := by
              simp only [interLoop, hlen, hcd, hlen1, hsc, hsel, hcnt, hsk, ne_eq, not_true_eq_false, if_false]
            rw [hstep]
            -- the stream carrying the greatest head, and one with a smaller head
            obtain ⟨k, hk, hkm⟩ := List.getElem_of_mem hmx
            have hsmx : ∃ s ∈ ss1, s.HeadIs mx := by
              rcases all2_getElem? hall k with ⟨_, hn⟩ | ⟨s, b, hs1, hb, hab⟩
              · rw [List.getElem?_eq_getElem hk] at hn; cases hn
              · rw [List.getElem?_eq_getElem hk] at hb
                simp only [Option.some.injEq] at hb
                exact ⟨s, List.mem_of_getElem? hs1, by rw [← hkm, hb]; exact hab⟩
            have hsmall : ∃ s ∈ ss1, ∃ h0, s.HeadIs h0 ∧ h0 < mx := by
              have : ¬ ∀ h ∈ v :: rest, (fun x => decide (x = mx)) h = true := by
                intro hcon
                exact hcnt (by rw [(positions_length_eq_iff _ (v :: rest) 0).mpr hcon, hhl])
              have : ∃ h0 ∈ v :: rest, h0 ≠ mx := by
                apply Classical.byContradiction
                intro hcon
                apply this
                intro h0 hh0
                have : h0 = mx := Classical.byContradiction (fun hne => hcon ⟨h0, hh0, hne⟩)
                simp [this]
              obtain ⟨h0, hh0, hne0⟩ := this
              obtain ⟨j, hj, hjm⟩ := List.getElem_of_mem hh0
              rcases all2_getElem? hall j with ⟨_, hn⟩ | ⟨s, b, hs1, hb, hab⟩
              · rw [List.getElem?_eq_getElem hj] at hn; cases hn
              · rw [List.getElem?_eq_getElem hj] at hb
                simp only [Option.some.injEq] at hb
                refine ⟨s, List.mem_of_getElem? hs1, h0, by rw [← hjm, hb]; exact hab, ?_⟩
                rcases StrictOrd.tri h0 mx with h1 | h1 | h1
                · exact h1
                · exact absurd h1 hne0
                · exact absurd h1 (hmax h0 hh0)
            apply ih
            · exact hinv1.stepSkip hsmx hskall
            · rw [← hskall.length_eq]; exact hlen1
            · have := hprog hsmall
              have := hcl.weight
              omega
      · have hstep : interLoop thr total (fuel + 1) ss a = interLoop thr total fuel ss2 a := by
          simp only [interLoop, hlen, hcd, hlen1, hsc, ne_eq, not_true_eq_false, if_false]
        rw [hstep]
        apply ih
        · exact hinv1.transfer (hall.imp (fun _ _ h => h.content))
            (fun s' hs' => by
              obtain ⟨s, hs, hsc'⟩ := forall₂_mem_right hall hs'
              exact ⟨hsc'.ok (hinv1.ok s hs).1, hsc'.open_ (hinv1.ok s hs).2⟩)
        · rw [← hall.length_eq]; exact hlen1
        · have := hcl.weight; omega
    · -- a child is exhausted: short circuit
      have hdrop := hcl.dropped (by rw [hlen]; exact hlen1)
      obtain ⟨s0, hs0, hnil0⟩ := hdrop
      refine ⟨a.finish, by simp [interLoop, hlen, hcd, hlen1], Acc.finish_clean a hinv.sentClean, ?_, ?_⟩
      · rw [Acc.finish_items]; exact hinv.esorted
      · intro x
        rw [Acc.finish_items, ← hinv.mem x]
        constructor
        · intro hx; exact .inl hx
        · rintro (hx | hx)
          · exact hx
          · have := hx s0 hs0
            rw [hnil0] at this; cases this

/-- **fastPathIntersection** (at least one child): error free, and the concatenation of the batches is the
strictly ascending list of the object ids carried by every child, for every batch threshold. -/
theorem fastPathIntersection_spec (thr : Nat) (cs : List (Chan α)) (hne : cs ≠ [])
    (hclean : ∀ c ∈ cs, Chan.clean c = true) (hsorted : ∀ c ∈ cs, Sorted (Chan.items c)) :
    ∃ out, fastPathIntersection thr cs = some out ∧ Chan.clean out = true ∧ Sorted (Chan.items out) ∧
      ∀ x, x ∈ Chan.items out ↔ ∀ c ∈ cs, x ∈ Chan.items c := by
  unfold fastPathIntersection
  have hmk := mkStreams_spec cs 0
  apply interLoop_spec thr cs.length (List.length_pos_iff.mpr hne) (fun x => ∀ c ∈ cs, x ∈ Chan.items c)
  · refine ⟨?_, ?_, rfl, List.Pairwise.nil, (fun e he => by cases he), ?_⟩
    · intro s hs
      obtain ⟨c, hc, h1, h2, h3⟩ := forall₂_mem_right hmk hs
      exact ⟨h2 (hclean c hc), h3⟩
    · intro s hs
      obtain ⟨c, hc, h1, _, _⟩ := forall₂_mem_right hmk hs
      rw [h1]; exact hsorted c hc
    · intro x
      constructor
      · rintro (hx | hx)
        · cases hx
        · intro c hc
          obtain ⟨s, hs, h1, _, _⟩ := forall₂_mem_left hmk hc
          rw [← h1]; exact hx s hs
      · intro hx
        refine .inr (fun s hs => ?_)
        obtain ⟨c, hc, h1, _, _⟩ := forall₂_mem_right hmk hs
        rw [h1]; exact hx c hc
  · exact hmk.length_eq.symm
  · unfold fuelFor; omega

end inter

end OpenFGAVerif.Weight2
