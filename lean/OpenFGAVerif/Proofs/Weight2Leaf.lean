/-
The leaf of the weight-two fast path (`fastPathDirect`) in the repaired order (filters first, then the
per-object de-duplication): its iterator is strictly ascending and carries exactly the objects of the type
that have a valid tuple for the subject (or its type's wildcard) whose condition is met.  For the code's
order (de-duplication first) this is false: `f9_leaf_witness`.
-/
import OpenFGAVerif.Model.Weight2
import OpenFGAVerif.Proofs.Weight2Diff

namespace OpenFGAVerif.Weight2
open OpenFGAVerif.Vocab OpenFGAVerif.CheckV1

theorem leObj_trans (a b c : Tuple) (h1 : leObj a b = true) (h2 : leObj b c = true) : leObj a c = true := by
  simp only [leObj, Bool.not_eq_true', decide_eq_false_iff_not] at *
  intro hca
  rcases StrictOrd.tri a.obj b.obj with h | h | h
  · exact h2 (StrictOrd.trans hca h)
  · rw [h] at hca; exact h2 hca
  · exact h1 h

theorem leObj_total (a b : Tuple) : (leObj a b || leObj b a) = true := by
  simp only [leObj, Bool.or_eq_true, Bool.not_eq_true', decide_eq_false_iff_not]
  by_cases h : b.obj < a.obj
  · exact .inr (StrictOrd.asymm h)
  · exact .inl h

/-- ascending by object, duplicates allowed -/
def ObjSorted (ts : List Tuple) : Prop := ts.Pairwise (fun a b => leObj a b = true)

theorem dedupGo_spec (ts : List Tuple) :
    ∀ (last : Option String), ObjSorted ts → (∀ l, last = some l → ∀ t ∈ ts, ¬ t.obj < l) →
      Sorted ((dedupGo last ts).map (·.obj)) ∧
      (∀ l, last = some l → ∀ o ∈ (dedupGo last ts).map (·.obj), l < o) ∧
      (∀ o, o ∈ (dedupGo last ts).map (·.obj) ↔ (o ∈ ts.map (·.obj) ∧ last ≠ some o)) ∧
      (∀ t ∈ dedupGo last ts, t ∈ ts) := by
  induction ts with
  | nil => intro last _ _; simp [dedupGo, Sorted]
  | cons t rest ih =>
    intro last hs hl
    have hs' : ObjSorted rest := (List.pairwise_cons.mp hs).2
    have hge : ∀ x ∈ rest, ¬ x.obj < t.obj := by
      intro x hx
      have := (List.pairwise_cons.mp hs).1 x hx
      simpa [leObj] using this
    by_cases hlast : last = some t.obj
    · have hd : dedupGo last (t :: rest) = dedupGo last rest := by simp [dedupGo, hlast]
      rw [hd]
      obtain ⟨h1, h2, h3, h4⟩ := ih last hs' (fun l hl' x hx => hl l hl' x (List.mem_cons_of_mem _ hx))
      refine ⟨h1, h2, ?_, fun x hx => List.mem_cons_of_mem _ (h4 x hx)⟩
      intro o
      rw [h3 o]
      simp only [List.map_cons, List.mem_cons]
      constructor
      · rintro ⟨ho, hne⟩; exact ⟨.inr ho, hne⟩
      · rintro ⟨ho | ho, hne⟩
        · rw [ho] at hne; exact absurd hlast hne
        · exact ⟨ho, hne⟩
    · have hd : dedupGo last (t :: rest) = t :: dedupGo (some t.obj) rest := by simp [dedupGo, hlast]
      rw [hd]
      obtain ⟨h1, h2, h3, h4⟩ := ih (some t.obj) hs' (fun l hl' x hx => by
        simp only [Option.some.injEq] at hl'; rw [← hl']; exact hge x hx)
      have hlt : ∀ l, last = some l → l < t.obj := by
        intro l hl'
        rcases StrictOrd.tri l t.obj with h | h | h
        · exact h
        · rw [hl', h] at hlast; exact absurd rfl hlast
        · exact absurd h (hl l hl' t (by simp))
      refine ⟨?_, ?_, ?_, ?_⟩
      · simp only [List.map_cons]
        exact List.pairwise_cons.mpr ⟨fun o ho => h2 t.obj rfl o ho, h1⟩
      · intro l hl' o ho
        simp only [List.map_cons, List.mem_cons] at ho
        rcases ho with rfl | ho
        · exact hlt l hl'
        · exact StrictOrd.trans (hlt l hl') (h2 t.obj rfl o ho)
      · intro o
        simp only [List.map_cons, List.mem_cons]
        rw [h3 o]
        constructor
        · rintro (ho | ⟨ho, hne⟩)
          · refine ⟨.inl ho, ?_⟩
            rw [ho]; exact hlast
          · refine ⟨.inr ho, ?_⟩
            intro hlo
            -- `o` is the last yielded object and occurs in `rest`: then `t.obj = o`, contradiction
            have hlto := hlt o hlo
            obtain ⟨x, hx, hxo⟩ := List.mem_map.mp ho
            have := hge x hx
            rw [hxo] at this
            exact this hlto
        · rintro ⟨ho | ho, _⟩
          · exact .inl ho
          · by_cases hot : o = t.obj
            · exact .inl hot
            · exact .inr ⟨ho, fun e => hot (by simpa using e.symm)⟩
      · intro x hx
        rcases List.mem_cons.mp hx with rfl | hx
        · simp
        · exact List.mem_cons_of_mem _ (h4 x hx)

theorem dedupByObj_spec (ts : List Tuple) (hs : ObjSorted ts) :
    Sorted ((dedupByObj ts).map (·.obj)) ∧ (∀ o, o ∈ (dedupByObj ts).map (·.obj) ↔ o ∈ ts.map (·.obj)) := by
  obtain ⟨h1, _, h3, _⟩ := dedupGo_spec ts none hs (fun l hl => by cases hl)
  exact ⟨h1, fun o => by rw [dedupByObj, h3 o]; simp⟩

/-- the contextual tuples are in the order `NewCombinedTupleReader` leaves them -/
def CtxSorted (w : World) : Prop := ObjSorted w.ctxTuples

theorem leafRows_sorted (w : World) (hc : CtxSorted w) (typ rel : String) (pub : Bool) :
    ObjSorted (leafRows w typ rel pub) := by
  unfold leafRows ObjSorted
  apply List.pairwise_merge leObj_trans leObj_total
  · exact List.Pairwise.filter _ hc
  · exact List.pairwise_mergeSort leObj_trans leObj_total _

theorem mem_leafRows (w : World) (typ rel : String) (pub : Bool) (t : Tuple) :
    t ∈ leafRows w typ rel pub ↔
      t ∈ w.all ∧ typeOf t.obj = typ ∧ t.rel = rel ∧ matchesUserFilter w pub t = true := by
  simp only [leafRows, List.mem_merge, List.mem_mergeSort, List.mem_filter, World.all, List.mem_append,
    Bool.and_eq_true, decide_eq_true_eq]
  constructor
  · rintro (⟨h1, h2⟩ | ⟨h1, h2⟩)
    · exact ⟨.inl h1, h2.1.1, h2.1.2, h2.2⟩
    · exact ⟨.inr h1, h2.1.1, h2.1.2, h2.2⟩
  · rintro ⟨h1 | h1, h2, h3, h4⟩
    · exact .inl ⟨h1, ⟨h2, h3⟩, h4⟩
    · exact .inr ⟨h1, ⟨h2, h3⟩, h4⟩

/-- no valid tuple has a condition that cannot be evaluated (then nothing is swallowed and nothing fails) -/
def NoCondErr (w : World) : Prop :=
  ∀ t ∈ w.all, validForRead w.model t = true → evalCond w.model w.req.ctx t ≠ .err

/-- **the leaf, repaired order** -/
theorem leafOf_repaired (w : World) (thr : Nat) (hc : CtxSorted w) (hne : NoCondErr w) (typ rel : String) :
    let l := leafOf w { order := .repaired, thr := thr } typ rel
    l.it.failAtEnd = false ∧ l.swallowed = false ∧ Sorted l.it.items ∧
    ∀ o, o ∈ l.it.items ↔ ∃ t ∈ w.all, t.obj = o ∧ typeOf o = typ ∧ t.rel = rel ∧
      matchesUserFilter w (leafPub w typ rel) t = true ∧ validForRead w.model t = true ∧
      evalCond w.model w.req.ctx t = .tt := by
  intro l
  have hrows := leafRows_sorted w hc typ rel (leafPub w typ rel)
  have hnoerr : ((leafRows w typ rel (leafPub w typ rel)).filter (validForRead w.model)).any
      (fun t => evalCond w.model w.req.ctx t = .err) = false := by
    rw [List.any_eq_false]
    intro t ht
    obtain ⟨h1, h2⟩ := List.mem_filter.mp ht
    have := hne t ((mem_leafRows w typ rel _ t).mp h1).1 h2
    simpa using this
  have hpsorted : ObjSorted (((leafRows w typ rel (leafPub w typ rel)).filter (validForRead w.model)).filter
      (fun t => evalCond w.model w.req.ctx t = .tt)) := List.Pairwise.filter _ (List.Pairwise.filter _ hrows)
  obtain ⟨hs1, hs2⟩ := dedupByObj_spec _ hpsorted
  refine ⟨?_, ?_, ?_, ?_⟩
  · simp [l, leafOf, leafCore, hnoerr]
  · simp [l, leafOf, leafCore, hnoerr]
  · simpa [l, leafOf, leafCore] using hs1
  · intro o
    have : l.it.items = (dedupByObj (((leafRows w typ rel (leafPub w typ rel)).filter (validForRead w.model)).filter
      (fun t => evalCond w.model w.req.ctx t = .tt))).map (·.obj) := by simp [l, leafOf, leafCore]
    rw [this, hs2 o]
    simp only [List.mem_map, List.mem_filter, mem_leafRows, decide_eq_true_eq]
    constructor
    · rintro ⟨t, ⟨⟨⟨h1, h2, h3, h4⟩, h5⟩, h6⟩, rfl⟩
      exact ⟨t, h1, rfl, h2, h3, h4, h5, h6⟩
    · rintro ⟨t, h1, rfl, h2, h3, h4, h5, h6⟩
      exact ⟨t, ⟨⟨⟨h1, h2, h3, h4⟩, h5⟩, h6⟩, rfl⟩

/-! ### F9: the code's order loses an object -/

def f9Rows : List Tuple :=
  [{ obj := "group:g", rel := "member", user := "user:x", cond := "c1", ctx := [("x", 20)] },
   { obj := "group:g", rel := "member", user := "user:*", cond := "", ctx := [] }]

/-- the subject's own tuple carries a condition that is false, the wildcard tuple of the same object is
unconditional: de-duplicating first keeps only the former, which the condition filter then drops. -/
theorem f9_leaf_witness :
    (leafCore .code f9Rows (fun _ => true) (fun t => if t.cond = "" then .tt else .ff)).it.items = [] ∧
    (leafCore .repaired f9Rows (fun _ => true) (fun t => if t.cond = "" then .tt else .ff)).it.items = ["group:g"] := by
  decide

end OpenFGAVerif.Weight2
