/-
`Head`, `Next`, the head scan, min/max selection, `NextItemInSliceStreams`, `SkipToTargetObject` and
`Drain` on ready streams.
-/
import OpenFGAVerif.Proofs.Weight2Basic

namespace OpenFGAVerif.Weight2

variable {α : Type}

/-- the stream has a buffer whose first item is `h` -/
def Stream.HeadIs (s : Stream α) (h : α) : Prop :=
  ∃ it rest, s.buffer = some it ∧ it.items = h :: rest

theorem Stream.HeadIs.head {s : Stream α} {h : α} (hh : s.HeadIs h) : s.head = (.val h, s) := by
  obtain ⟨it, rest, hb, hi⟩ := hh
  simp [Stream.head, hb, hi]

theorem Stream.HeadIs.content {s : Stream α} {h : α} (hh : s.HeadIs h) : ∃ t, s.content = h :: t := by
  obtain ⟨it, rest, hb, hi⟩ := hh
  exact ⟨rest ++ Chan.items s.source, by simp [Stream.content, Stream.buf, hb, hi]⟩

/-- relation between a stream and the stream after one successful `Next` that returned `h` -/
structure Advanced (h : α) (s s' : Stream α) : Prop where
  content : s.content = h :: s'.content
  idx : s'.idx = s.idx
  weight : s'.weight + 2 ≤ s.weight
  ready : s.Ready → s'.Ready
  ok : s.Ok → s'.Ok
  closed : s'.closed = s.closed

theorem Stream.HeadIs.next {s : Stream α} {h : α} (hh : s.HeadIs h) :
    ∃ s', s.next = (.val h, s') ∧ Advanced h s s' := by
  obtain ⟨it, rest, hb, hi⟩ := hh
  have hok : s.Ok → ({ s with buffer := some { it with items := rest } } : Stream α).Ok := by
    intro h0
    refine ⟨?_, h0.srcClean, ?_⟩
    · intro it' hit; simp at hit; subst hit; exact h0.bufClean it hb
    · intro hc
      have := (h0.closedNone hc).1
      rw [hb] at this; cases this
  refine ⟨{ s with buffer := some { it with items := rest } }, by simp [Stream.next, hb, hi], ?_, rfl, ?_, ?_, hok, rfl⟩
  · simp [Stream.content, Stream.buf, hb, hi]
  · simp [Stream.weight, hb, hi]; omega
  · intro hr
    exact ⟨hok hr.ok, hr.open_, rfl⟩

/-! ### the head scan -/

/-- a stream before and after its exhausted buffer was dropped by `Head` (or unchanged) -/
structure SameContent (s s' : Stream α) : Prop where
  content : s'.content = s.content
  idx : s'.idx = s.idx
  weight : s'.weight ≤ s.weight
  ok : s.Ok → s'.Ok
  open_ : s.closed = false → s'.closed = false

theorem SameContent.refl (s : Stream α) : SameContent s s := ⟨rfl, rfl, Nat.le_refl _, id, id⟩

theorem all2_sameContent_refl (ss : List (Stream α)) : All2 SameContent ss ss := by
  induction ss with
  | nil => exact .nil
  | cons s rest ih => exact .cons (SameContent.refl s) ih

theorem scanHeads_ready (ss : List (Stream α)) (h : ∀ s ∈ ss, s.Ready) :
    (∃ hs, scanHeads ss = .all hs ∧ All2 Stream.HeadIs ss hs) ∨
    (∃ ss', scanHeads ss = .notAll ss' ∧ All2 SameContent ss ss' ∧ weights ss' + 2 ≤ weights ss) := by
  induction ss with
  | nil => exact .inl ⟨[], rfl, .nil⟩
  | cons s rest ih =>
    have hr := h s (by simp)
    obtain ⟨it, hb⟩ := Option.isSome_iff_exists.mp hr.hasBuf
    have hfe := hr.ok.bufClean it hb
    cases hi : it.items with
    | nil =>
      refine .inr ⟨{ s with buffer := none } :: rest, by simp [scanHeads, Stream.head, hb, hi, hfe], ?_, ?_⟩
      · refine .cons ⟨?_, rfl, ?_, ?_, ?_⟩ (all2_sameContent_refl rest)
        · simp [Stream.content, Stream.buf, hb, hi]
        · simp [Stream.weight, hb, hi]
        · intro hok
          exact ⟨fun _ h' => by simp at h', hok.srcClean, fun hc => by simp at hc; rw [hr.open_] at hc; cases hc⟩
        · intro hc; exact hc
      · simp [weights_cons, Stream.weight, hb, hi, hfe]; omega
    | cons x xs =>
      have hh : s.HeadIs x := ⟨it, xs, hb, hi⟩
      rcases ih (fun x hx => h x (by simp [hx])) with ⟨hs, hsc, hall⟩ | ⟨rest', hsc, hall, hw⟩
      · exact .inl ⟨x :: hs, by simp [scanHeads, hh.head, hsc], .cons hh hall⟩
      · refine .inr ⟨s :: rest', by simp [scanHeads, hh.head, hsc], .cons (SameContent.refl s) hall, ?_⟩
        simp only [weights_cons]; omega

/-! ### positions of the heads equal to a value -/

/-- indices (starting at `i`) of the elements satisfying `p` -/
def positions (p : α → Bool) : List α → Nat → List Nat
  | [], _ => []
  | v :: rest, i => if p v then i :: positions p rest (i + 1) else positions p rest (i + 1)

theorem mem_positions (p : α → Bool) (hs : List α) (i j : Nat) :
    j ∈ positions p hs i ↔ ∃ k, ∃ h : k < hs.length, j = i + k ∧ p hs[k] = true := by
  induction hs generalizing i with
  | nil => simp [positions]
  | cons v rest ih =>
    simp only [positions]
    constructor
    · intro hj
      by_cases hp : p v = true
      · rw [if_pos hp] at hj
        rcases List.mem_cons.mp hj with rfl | hj
        · exact ⟨0, by simp, by simp, by simpa using hp⟩
        · obtain ⟨k, hk, rfl, hpk⟩ := (ih (i + 1)).mp hj
          exact ⟨k + 1, by simp; omega, by omega, by simpa using hpk⟩
      · rw [if_neg hp] at hj
        obtain ⟨k, hk, rfl, hpk⟩ := (ih (i + 1)).mp hj
        exact ⟨k + 1, by simp; omega, by omega, by simpa using hpk⟩
    · rintro ⟨k, hk, rfl, hpk⟩
      cases k with
      | zero =>
        have hp : p v = true := by simpa using hpk
        rw [if_pos hp]; simp
      | succ k =>
        have hmem : i + (k + 1) ∈ positions p rest (i + 1) :=
          (ih (i + 1)).mpr ⟨k, by simpa using hk, by omega, by simpa using hpk⟩
        by_cases hp : p v = true
        · rw [if_pos hp]; exact List.mem_cons_of_mem _ hmem
        · rw [if_neg hp]; exact hmem

theorem positions_ge (p : α → Bool) (hs : List α) (i j : Nat) (h : j ∈ positions p hs i) : i ≤ j := by
  obtain ⟨k, _, rfl, _⟩ := (mem_positions p hs i j).mp h; omega

theorem positions_nodup (p : α → Bool) (hs : List α) (i : Nat) : (positions p hs i).Nodup := by
  induction hs generalizing i with
  | nil => simp [positions]
  | cons v rest ih =>
    simp only [positions]
    split
    · refine List.nodup_cons.mpr ⟨?_, ih (i + 1)⟩
      intro hm
      have := positions_ge p rest (i + 1) i hm
      omega
    · exact ih (i + 1)

/-! ### min / max selection -/

section sel
variable [LT α] [DecidableLT α] [DecidableEq α]

theorem selMinGo_cons_eq (v : α) (rest : List α) (i : Nat) (is : List Nat) :
    selMinGo (v :: rest) i v is = selMinGo rest (i + 1) v (is ++ [i]) := by simp [selMinGo]

theorem selMinGo_cons_lt (v : α) (rest : List α) (i : Nat) (m : α) (is : List Nat) (hne : ¬ m = v) (hlt : v < m) :
    selMinGo (v :: rest) i m is = selMinGo rest (i + 1) v [i] := by simp [selMinGo, hne, hlt]

theorem selMinGo_cons_ge (v : α) (rest : List α) (i : Nat) (m : α) (is : List Nat) (hne : ¬ m = v) (hlt : ¬ v < m) :
    selMinGo (v :: rest) i m is = selMinGo rest (i + 1) m is := by simp [selMinGo, hne, hlt]

theorem selMinGo_spec [StrictOrd α] (hs : List α) (i : Nat) (m : α) (is : List Nat) :
    (selMinGo hs i m is).1 ∈ m :: hs ∧ (∀ h ∈ m :: hs, ¬ h < (selMinGo hs i m is).1) ∧
    (selMinGo hs i m is).2 = (if (selMinGo hs i m is).1 = m then is else []) ++
      positions (fun v => decide (v = (selMinGo hs i m is).1)) hs i := by
  induction hs generalizing i m is with
  | nil => simp [selMinGo, positions, StrictOrd.irrefl]
  | cons v rest ih =>
    by_cases hmv : m = v
    · subst hmv
      rw [selMinGo_cons_eq]
      obtain ⟨h1, h2, h3⟩ := ih (i + 1) m (is ++ [i])
      refine ⟨?_, ?_, ?_⟩
      · rcases List.mem_cons.mp h1 with h | h
        · rw [h]; simp
        · exact List.mem_cons_of_mem _ (List.mem_cons_of_mem _ h)
      · intro h hh
        rcases List.mem_cons.mp hh with rfl | hh
        · exact h2 _ (by simp)
        · rcases List.mem_cons.mp hh with rfl | hh
          · exact h2 _ (by simp)
          · exact h2 _ (List.mem_cons_of_mem _ hh)
      · rw [h3]
        by_cases he : (selMinGo rest (i + 1) m (is ++ [i])).1 = m
        · simp [he, positions]
        · have : ¬ m = (selMinGo rest (i + 1) m (is ++ [i])).1 := fun e => he e.symm
          simp [he, positions, this]
    · by_cases hlt : v < m
      · rw [selMinGo_cons_lt v rest i m is hmv hlt]
        obtain ⟨h1, h2, h3⟩ := ih (i + 1) v [i]
        have hne : (selMinGo rest (i + 1) v [i]).1 ≠ m := by
          intro e
          have := h2 v (by simp)
          rw [e] at this
          exact this hlt
        refine ⟨List.mem_cons_of_mem _ h1, ?_, ?_⟩
        · intro h hh
          rcases List.mem_cons.mp hh with rfl | hh
          · intro hc
            have := h2 v (by simp)
            exact this (StrictOrd.trans hlt hc)
          · exact h2 h hh
        · rw [h3]
          by_cases he : (selMinGo rest (i + 1) v [i]).1 = v
          · simp [he, positions, Ne.symm hmv]
          · have : ¬ v = (selMinGo rest (i + 1) v [i]).1 := fun e => he e.symm
            simp [he, positions, hne, this]
      · rw [selMinGo_cons_ge v rest i m is hmv hlt]
        have hmlt : m < v := by
          rcases StrictOrd.tri m v with h | h | h
          · exact h
          · exact absurd h hmv
          · exact absurd h hlt
        obtain ⟨h1, h2, h3⟩ := ih (i + 1) m is
        have hne : (selMinGo rest (i + 1) m is).1 ≠ v := by
          intro e
          have := h2 m (by simp)
          rw [e] at this
          exact this hmlt
        refine ⟨?_, ?_, ?_⟩
        · rcases List.mem_cons.mp h1 with h | h
          · rw [h]; simp
          · exact List.mem_cons_of_mem _ (List.mem_cons_of_mem _ h)
        · intro h hh
          rcases List.mem_cons.mp hh with rfl | hh
          · exact h2 _ (by simp)
          · rcases List.mem_cons.mp hh with rfl | hh
            · intro hc
              exact h2 m (by simp) (StrictOrd.trans hmlt hc)
            · exact h2 _ (List.mem_cons_of_mem _ hh)
        · rw [h3]
          have : ¬ v = (selMinGo rest (i + 1) m is).1 := fun e => hne e.symm
          simp [positions, this]

/-- `selMin` on a non-empty list of heads: the least head and exactly the indices that carry it -/
theorem selMin_spec [StrictOrd α] (v : α) (rest : List α) :
    ∃ m, selMin (v :: rest) = some (m, positions (fun x => decide (x = m)) (v :: rest) 0) ∧
      m ∈ v :: rest ∧ ∀ h ∈ v :: rest, ¬ h < m := by
  obtain ⟨h1, h2, h3⟩ := selMinGo_spec (v :: rest) 0 v []
  refine ⟨(selMinGo (v :: rest) 0 v []).1, ?_, ?_, ?_⟩
  · simp only [selMin]
    congr 1
    apply Prod.ext
    · rfl
    · rw [h3]; simp
  · rcases List.mem_cons.mp h1 with h | h
    · rw [h]; simp
    · exact h
  · intro h hh; exact h2 h (List.mem_cons_of_mem _ hh)

theorem selMaxGo_cons_eq (v : α) (rest : List α) (i : Nat) (is : List Nat) :
    selMaxGo (v :: rest) i v is = selMaxGo rest (i + 1) v (is ++ [i]) := by simp [selMaxGo]

theorem selMaxGo_cons_lt (v : α) (rest : List α) (i : Nat) (m : α) (is : List Nat) (hne : ¬ m = v) (hlt : m < v) :
    selMaxGo (v :: rest) i m is = selMaxGo rest (i + 1) v [i] := by simp [selMaxGo, hne, hlt]

theorem selMaxGo_cons_ge (v : α) (rest : List α) (i : Nat) (m : α) (is : List Nat) (hne : ¬ m = v) (hlt : ¬ m < v) :
    selMaxGo (v :: rest) i m is = selMaxGo rest (i + 1) m is := by simp [selMaxGo, hne, hlt]

theorem selMaxGo_spec [StrictOrd α] (hs : List α) (i : Nat) (m : α) (is : List Nat) :
    (selMaxGo hs i m is).1 ∈ m :: hs ∧ (∀ h ∈ m :: hs, ¬ (selMaxGo hs i m is).1 < h) ∧
    (selMaxGo hs i m is).2 = (if (selMaxGo hs i m is).1 = m then is else []) ++
      positions (fun v => decide (v = (selMaxGo hs i m is).1)) hs i := by
  induction hs generalizing i m is with
  | nil => simp [selMaxGo, positions, StrictOrd.irrefl]
  | cons v rest ih =>
    by_cases hmv : m = v
    · subst hmv
      rw [selMaxGo_cons_eq]
      obtain ⟨h1, h2, h3⟩ := ih (i + 1) m (is ++ [i])
      refine ⟨?_, ?_, ?_⟩
      · rcases List.mem_cons.mp h1 with h | h
        · rw [h]; simp
        · exact List.mem_cons_of_mem _ (List.mem_cons_of_mem _ h)
      · intro h hh
        rcases List.mem_cons.mp hh with rfl | hh
        · exact h2 _ (by simp)
        · rcases List.mem_cons.mp hh with rfl | hh
          · exact h2 _ (by simp)
          · exact h2 _ (List.mem_cons_of_mem _ hh)
      · rw [h3]
        by_cases he : (selMaxGo rest (i + 1) m (is ++ [i])).1 = m
        · simp [he, positions]
        · have : ¬ m = (selMaxGo rest (i + 1) m (is ++ [i])).1 := fun e => he e.symm
          simp [he, positions, this]
    · by_cases hlt : m < v
      · rw [selMaxGo_cons_lt v rest i m is hmv hlt]
        obtain ⟨h1, h2, h3⟩ := ih (i + 1) v [i]
        have hne : (selMaxGo rest (i + 1) v [i]).1 ≠ m := by
          intro e
          have := h2 v (by simp)
          rw [e] at this
          exact this hlt
        refine ⟨List.mem_cons_of_mem _ h1, ?_, ?_⟩
        · intro h hh
          rcases List.mem_cons.mp hh with rfl | hh
          · intro hc
            have := h2 v (by simp)
            exact this (StrictOrd.trans hc hlt)
          · exact h2 h hh
        · rw [h3]
          by_cases he : (selMaxGo rest (i + 1) v [i]).1 = v
          · simp [he, positions, Ne.symm hmv]
          · have : ¬ v = (selMaxGo rest (i + 1) v [i]).1 := fun e => he e.symm
            simp [he, positions, hne, this]
      · rw [selMaxGo_cons_ge v rest i m is hmv hlt]
        have hmlt : v < m := by
          rcases StrictOrd.tri m v with h | h | h
          · exact absurd h hlt
          · exact absurd h hmv
          · exact h
        obtain ⟨h1, h2, h3⟩ := ih (i + 1) m is
        have hne : (selMaxGo rest (i + 1) m is).1 ≠ v := by
          intro e
          have := h2 m (by simp)
          rw [e] at this
          exact this hmlt
        refine ⟨?_, ?_, ?_⟩
        · rcases List.mem_cons.mp h1 with h | h
          · rw [h]; simp
          · exact List.mem_cons_of_mem _ (List.mem_cons_of_mem _ h)
        · intro h hh
          rcases List.mem_cons.mp hh with rfl | hh
          · exact h2 _ (by simp)
          · rcases List.mem_cons.mp hh with rfl | hh
            · intro hc
              exact h2 m (by simp) (StrictOrd.trans hc hmlt)
            · exact h2 _ (List.mem_cons_of_mem _ hh)
        · rw [h3]
          have : ¬ v = (selMaxGo rest (i + 1) m is).1 := fun e => hne e.symm
          simp [positions, this]

theorem selMax_spec [StrictOrd α] (v : α) (rest : List α) :
    ∃ m, selMax (v :: rest) = some (m, positions (fun x => decide (x = m)) (v :: rest) 0) ∧
      m ∈ v :: rest ∧ ∀ h ∈ v :: rest, ¬ m < h := by
  obtain ⟨h1, h2, h3⟩ := selMaxGo_spec (v :: rest) 0 v []
  refine ⟨(selMaxGo (v :: rest) 0 v []).1, ?_, ?_, ?_⟩
  · simp only [selMax]
    congr 1
    apply Prod.ext
    · rfl
    · rw [h3]; simp
  · rcases List.mem_cons.mp h1 with h | h
    · rw [h]; simp
    · exact h
  · intro h hh; exact h2 h (List.mem_cons_of_mem _ hh)

end sel

/-! ### NextItemInSliceStreams -/

theorem nextInSlice_spec (m : α) (idxs : List Nat) :
    ∀ (ss : List (Stream α)) (item0 : Option α), idxs.Nodup →
      (∀ i ∈ idxs, ∃ s, ss[i]? = some s ∧ s.HeadIs m) →
      ∃ ss', nextInSlice ss idxs item0 = some (if idxs = [] then item0 else some m, ss') ∧
        ss'.length = ss.length ∧
        ∀ j, ss'[j]? = if j ∈ idxs then (ss[j]?).map (fun s => s.next.2) else ss[j]? := by
  induction idxs with
  | nil => intro ss item0 _ _; exact ⟨ss, rfl, rfl, fun j => by simp⟩
  | cons i is ih =>
    intro ss item0 hnd hval
    obtain ⟨hni, hnd'⟩ := List.nodup_cons.mp hnd
    obtain ⟨s, hs, hh⟩ := hval i (by simp)
    obtain ⟨s', hn, _⟩ := hh.next
    have hval' : ∀ k ∈ is, ∃ s, (ss.set i s')[k]? = some s ∧ s.HeadIs m := by
      intro k hk
      obtain ⟨sk, hsk, hhk⟩ := hval k (by simp [hk])
      have hne : i ≠ k := fun e => hni (e ▸ hk)
      exact ⟨sk, by rw [List.getElem?_set_ne hne]; exact hsk, hhk⟩
    obtain ⟨ss', hr, hlen, hget⟩ := ih (ss.set i s') (some m) hnd' hval'
    refine ⟨ss', ?_, by rw [hlen]; simp, ?_⟩
    · simp only [nextInSlice, hs, hn, hr]
      cases is <;> simp
    · intro j
      rw [hget j]
      by_cases hji : j = i
      · subst hji
        have hlt : j < ss.length := by
          rcases List.getElem?_eq_some_iff.mp hs with ⟨h, _⟩; exact h
        simp [hni, hs, hn, List.getElem?_set_self hlt]
      · have hne : i ≠ j := fun e => hji e.symm
        simp [hji, List.getElem?_set_ne hne]

/-- advancing exactly the streams whose head is `m` -/
def advanceEq [DecidableEq α] (m : α) (ss : List (Stream α)) : List (Stream α) :=
  ss.map (fun s => if s.head.1 = Res.val m then s.next.2 else s)

theorem all2_getElem? {β γ : Type} {R : β → γ → Prop} {l1 : List β} {l2 : List γ} (h : All2 R l1 l2) (j : Nat) :
    (l1[j]? = none ∧ l2[j]? = none) ∨ ∃ a b, l1[j]? = some a ∧ l2[j]? = some b ∧ R a b := by
  induction h generalizing j with
  | nil => exact .inl ⟨rfl, rfl⟩
  | cons h1 _ ih =>
    cases j with
    | zero => exact .inr ⟨_, _, rfl, rfl, h1⟩
    | succ j => simpa using ih j

/-- `NextItemInSliceStreams` on the indices of the heads equal to `m` advances exactly those streams -/
theorem nextInSlice_positions [DecidableEq α] (m : α) (ss : List (Stream α)) (hs : List α)
    (hall : All2 Stream.HeadIs ss hs) (item0 : Option α) :
    nextInSlice ss (positions (fun x => decide (x = m)) hs 0) item0 =
      some (if positions (fun x => decide (x = m)) hs 0 = [] then item0 else some m, advanceEq m ss) := by
  have hlen := hall.length_eq
  have hval : ∀ i ∈ positions (fun x => decide (x = m)) hs 0, ∃ s, ss[i]? = some s ∧ s.HeadIs m := by
    intro i hi
    obtain ⟨k, hk, rfl, hp⟩ := (mem_positions _ hs 0 i).mp hi
    rcases all2_getElem? hall (0 + k) with ⟨_, hn⟩ | ⟨a, b, ha, hb, hab⟩
    · simp at hn; omega
    · refine ⟨a, ha, ?_⟩
      have : hs[k] = m := by simpa using hp
      simp only [Nat.zero_add] at hb
      rw [List.getElem?_eq_getElem hk] at hb
      simp only [Option.some.injEq] at hb
      rw [← this, hb]; exact hab
  obtain ⟨ss', hr, hl', hget⟩ := nextInSlice_spec m _ ss item0 (positions_nodup _ hs 0) hval
  rw [hr]
  congr 2
  apply List.ext_getElem?
  intro j
  rw [hget j]
  simp only [advanceEq, List.getElem?_map]
  rcases all2_getElem? hall j with ⟨h1, _⟩ | ⟨a, b, ha, hb, hab⟩
  · have : j ∉ positions (fun x => decide (x = m)) hs 0 := by
      intro hm
      obtain ⟨k, hk, e, _⟩ := (mem_positions _ hs 0 j).mp hm
      have : j < ss.length := by omega
      simp at h1; omega
    simp [this, h1]
  · rw [ha]
    by_cases hbm : b = m
    · have hm : j ∈ positions (fun x => decide (x = m)) hs 0 := by
        have hj : j < hs.length := (List.getElem?_eq_some_iff.mp hb).1
        refine (mem_positions _ hs 0 j).mpr ⟨j, hj, by simp, ?_⟩
        have : hs[j] = b := (List.getElem?_eq_some_iff.mp hb).2
        simp [this, hbm]
      simp [hm, hab.head, hbm]
    · have hm : j ∉ positions (fun x => decide (x = m)) hs 0 := by
        intro hm
        obtain ⟨k, hk, e, hp⟩ := (mem_positions _ hs 0 j).mp hm
        have hjk : j = k := by omega
        subst hjk
        have : hs[j] = b := (List.getElem?_eq_some_iff.mp hb).2
        rw [this] at hp
        exact hbm (by simpa using hp)
      simp [hm, hab.head, hbm]

theorem positions_ne_nil_of_mem [DecidableEq α] (m : α) (hs : List α) (h : m ∈ hs) (i : Nat) :
    positions (fun x => decide (x = m)) hs i ≠ [] := by
  obtain ⟨k, hk, e⟩ := List.getElem_of_mem h
  intro hnil
  have : i + k ∈ positions (fun x => decide (x = m)) hs i :=
    (mem_positions _ hs i (i + k)).mpr ⟨k, hk, rfl, by simp [e]⟩
  rw [hnil] at this
  cases this

/-- every stream of `advanceEq m ss` is either an untouched stream whose head is not `m` or the
successor of a stream whose head was `m` -/
theorem mem_advanceEq [DecidableEq α] {m : α} {ss : List (Stream α)} {hs : List α}
    (hall : All2 Stream.HeadIs ss hs) {s' : Stream α} (h : s' ∈ advanceEq m ss) :
    (∃ h0, h0 ≠ m ∧ s' ∈ ss ∧ s'.HeadIs h0 ∧ h0 ∈ hs) ∨ (∃ s ∈ ss, s.HeadIs m ∧ Advanced m s s') := by
  induction hall with
  | nil => simp [advanceEq] at h
  | @cons a b as bs hab _ ih =>
    simp only [advanceEq, List.map_cons, List.mem_cons] at h
    rcases h with h | h
    · by_cases hbm : b = m
      · subst hbm
        obtain ⟨a', hn, hadv⟩ := hab.next
        simp [hab.head, hn] at h
        subst h
        exact .inr ⟨a, by simp, hab, hadv⟩
      · simp [hab.head, hbm] at h
        subst h
        exact .inl ⟨b, hbm, by simp, hab, by simp⟩
    · rcases ih h with ⟨h0, h1, h2, h3, h4⟩ | ⟨s, hs, h1, h2⟩
      · exact .inl ⟨h0, h1, by simp [h2], h3, by simp [h4]⟩
      · exact .inr ⟨s, by simp [hs], h1, h2⟩

/-- conversely every old stream has its image in `advanceEq m ss` -/
theorem advanceEq_of_mem [DecidableEq α] {m : α} {ss : List (Stream α)} {hs : List α}
    (hall : All2 Stream.HeadIs ss hs) {s : Stream α} (h : s ∈ ss) :
    (∃ h0, h0 ≠ m ∧ s.HeadIs h0 ∧ s ∈ advanceEq m ss) ∨ (s.HeadIs m ∧ ∃ s' ∈ advanceEq m ss, Advanced m s s') := by
  induction hall with
  | nil => cases h
  | @cons a b as bs hab _ ih =>
    rcases List.mem_cons.mp h with rfl | h
    · by_cases hbm : b = m
      · subst hbm
        obtain ⟨a', hn, hadv⟩ := hab.next
        exact .inr ⟨hab, a', by simp [advanceEq, hab.head, hn], hadv⟩
      · exact .inl ⟨b, hbm, hab, by simp [advanceEq, hab.head, hbm]⟩
    · rcases ih h with ⟨h0, h1, h2, h3⟩ | ⟨h1, s', h2, h3⟩
      · exact .inl ⟨h0, h1, h2, by simp only [advanceEq, List.map_cons]; exact List.mem_cons_of_mem _ h3⟩
      · exact .inr ⟨h1, s', by simp only [advanceEq, List.map_cons]; exact List.mem_cons_of_mem _ h2, h3⟩

theorem advanceEq_length [DecidableEq α] (m : α) (ss : List (Stream α)) : (advanceEq m ss).length = ss.length := by
  simp [advanceEq]

theorem weights_advanceEq [DecidableEq α] {m : α} {ss : List (Stream α)} {hs : List α}
    (hall : All2 Stream.HeadIs ss hs) :
    weights (advanceEq m ss) ≤ weights ss ∧ (m ∈ hs → weights (advanceEq m ss) + 2 ≤ weights ss) := by
  induction hall with
  | nil => simp [advanceEq]
  | @cons a b as bs hab _ ih =>
    have ih1 := ih.1
    have ih2 := ih.2
    simp only [advanceEq, List.map_cons, weights_cons] at *
    by_cases hbm : b = m
    · subst hbm
      obtain ⟨a', hn, hadv⟩ := hab.next
      have := hadv.weight
      simp only [hab.head, hn, if_true]
      exact ⟨by omega, fun _ => by omega⟩
    · simp only [hab.head, Res.val.injEq, hbm, if_false]
      refine ⟨by omega, fun hm => ?_⟩
      rcases List.mem_cons.mp hm with e | hm
      · exact absurd e.symm hbm
      · have := ih2 hm; omega

/-! ### SkipToTargetObject, Drain -/

/-- a stream after some of its leading items (all below `target`) were skipped -/
structure Skipped [LT α] (target : α) (s s' : Stream α) : Prop where
  dropped : ∃ d, s.content = d ++ s'.content ∧ ∀ x ∈ d, x < target
  idx : s'.idx = s.idx
  weight : s'.weight ≤ s.weight
  ok : s'.Ok
  open_ : s'.closed = false

theorem Stream.skipTo_spec [LT α] [DecidableLT α] (target : α) (fuel : Nat) :
    ∀ (s : Stream α), s.Ok → s.closed = false → s.buf.length + 1 ≤ fuel →
      ∃ s', s.skipTo target fuel = some s' ∧ Skipped target s s' ∧
        (∀ h, s.HeadIs h → h < target → s'.weight + 2 ≤ s.weight) := by
  induction fuel with
  | zero => intro s _ _ hf; omega
  | succ fuel ih =>
    intro s hok hop hf
    cases hb : s.buffer with
    | none =>
      refine ⟨s, by simp [Stream.skipTo, hb], ⟨⟨[], by simp, by simp⟩, rfl, Nat.le_refl _, hok, hop⟩, ?_⟩
      rintro h ⟨it, rest, hb', _⟩ _; rw [hb] at hb'; cases hb'
    | some it =>
      have hfe := hok.bufClean it hb
      cases hi : it.items with
      | nil =>
        refine ⟨{ s with buffer := none }, by simp [Stream.skipTo, hb, Stream.head, hi, hfe],
          ⟨⟨[], by simp [Stream.content, Stream.buf, hb, hi], by simp⟩, rfl, ?_, ?_, hop⟩, ?_⟩
        · simp [Stream.weight, hb]
        · exact ⟨fun _ h' => by simp at h', hok.srcClean, fun hc => by simp at hc; rw [hop] at hc; cases hc⟩
        · rintro h ⟨it', rest, hb', hi'⟩ _
          rw [hb] at hb'; cases hb'; rw [hi] at hi'; cases hi'
      | cons x xs =>
        have hh : s.HeadIs x := ⟨it, xs, hb, hi⟩
        by_cases hlt : x < target
        · obtain ⟨s1, hn, hadv⟩ := hh.next
          have hr1 := hadv.ready ⟨hok, hop, by simp [hb]⟩
          have hbuf1 : s1.buf.length + 1 ≤ fuel := by
            have : s.buf = x :: s1.buf := by
              have h1 := hadv.content
              have hs1 : s1 = { s with buffer := some { it with items := xs } } := by
                have := hn; simp [Stream.next, hb, hi] at this; exact this.symm
              subst hs1
              simp [Stream.buf, hb, hi]
            rw [this] at hf; simp at hf; omega
          obtain ⟨s', hsk, hskp, _⟩ := ih s1 hr1.ok hr1.open_ hbuf1
          refine ⟨s', ?_, ⟨?_, ?_, ?_, hskp.ok, hskp.open_⟩, ?_⟩
          · simp [Stream.skipTo, hb, hh.head, hlt, hn, hsk]
          · obtain ⟨d, hd, hdl⟩ := hskp.dropped
            refine ⟨x :: d, by rw [hadv.content, hd]; simp, ?_⟩
            intro y hy
            rcases List.mem_cons.mp hy with rfl | hy
            · exact hlt
            · exact hdl y hy
          · rw [hskp.idx, hadv.idx]
          · have := hskp.weight; have := hadv.weight; omega
          · intro h _ _
            have := hskp.weight; have := hadv.weight; omega
        · refine ⟨s, by simp [Stream.skipTo, hb, hh.head, hlt], ⟨⟨[], by simp, by simp⟩, rfl, Nat.le_refl _, hok, hop⟩, ?_⟩
          rintro h ⟨it', rest, hb', hi'⟩ hlt'
          rw [hb] at hb'; cases hb'; rw [hi] at hi'; cases hi'
          exact absurd hlt' hlt

theorem Stream.skipFuel_ge (s : Stream α) : s.buf.length + 1 ≤ s.skipFuel := by
  unfold Stream.skipFuel Stream.buf
  cases s.buffer <;> simp

theorem Stream.drain_ready (s : Stream α) (h : s.Ready) :
    ∃ s', s.drain = some (s.buf, s') ∧ s'.Ok ∧ s'.closed = false ∧ s'.buffer = none ∧ s'.idx = s.idx ∧
      s.content = s.buf ++ s'.content ∧ s'.weight + 2 ≤ s.weight := by
  obtain ⟨it, hb⟩ := Option.isSome_iff_exists.mp h.hasBuf
  have hfe := h.ok.bufClean it hb
  refine ⟨{ s with buffer := none }, by simp [Stream.drain, hb, hfe, Stream.buf], ?_, h.open_, rfl, rfl, ?_, ?_⟩
  · exact ⟨fun _ h' => by simp at h', h.ok.srcClean, fun hc => by simp at hc; rw [h.open_] at hc; cases hc⟩
  · simp [Stream.content, Stream.buf, hb]
  · simp [Stream.weight, hb, hfe]; omega

end OpenFGAVerif.Weight2
