/-
`weight2_sem`: under the applicability predicate `w1Rel` (every rewrite the fast path walks is weight one
for the subject's type), with the repaired order of the two filters (`Order.repaired`) and no unevaluable
condition, the channel built by `fastPathRewrite` carries exactly the objects of the type on which the
subject holds the relation — in the definite *and* in the possible least-fixpoint semantics of the rules
of the default engine (`CheckV1.sysOf`).  Proof: structural induction over the rewrite (there is no
recursion through weight-one rewrites), using the stream specifications
`fastPathUnion_spec` / `fastPathIntersection_spec` / `fastPathDifference_spec`.
-/
import OpenFGAVerif.Proofs.Weight2Leaf
import OpenFGAVerif.Proofs.RefRules

namespace OpenFGAVerif.Weight2
open OpenFGAVerif.Vocab OpenFGAVerif.CheckV1 OpenFGAVerif.BoolSys

/-- the subject of the request is a concrete object (`user:x`), not a userset and not a typed wildcard -/
structure ConcreteSubject (w : World) : Prop where
  notUserset : isUserset w.req.user = false
  notWildcard : isTypedWildcard w.req.user = false

/-- at most one tuple per key among the contextual and the stored tuples (a contextual tuple that repeats
the key of a stored tuple shadows it in `ReadUserTuple`) -/
def NoDupKeys (w : World) : Prop :=
  ∀ t1 ∈ w.all, ∀ t2 ∈ w.all, t1.obj = t2.obj → t1.rel = t2.rel → t1.user = t2.user → t1 = t2

section sem
variable (w : World) (leaf : Leaf → Prop) (neg : Expr Node → Prop)

/-- membership in the least fixpoint is truth of the rule -/
theorem lfp_iff_rule (n : Node) :
    lfp (sysOf w) leaf neg [] n ↔ Holds leaf neg (lfp (sysOf w) leaf neg []) (ruleOf w n) :=
  ⟨fun h => (lfp_unfold (sysOf w) leaf neg [] n h).2,
   fun h => lfp_closed (sysOf w) leaf neg [] n List.not_mem_nil h⟩

theorem not_selfDefining (hu : isUserset w.req.user = false) (o r : String) (hr : r ≠ "") :
    ¬ splitUserset w.req.user = (o, r) := by
  intro h
  have : (splitUserset w.req.user).2 = r := by rw [h]
  simp [isUserset] at hu
  rw [hu] at this
  exact hr this.symm

theorem ruleOf_eq (hu : isUserset w.req.user = false) (o r : String) (hr : r ≠ "") (rd : RelDef)
    (hf : w.model.findRel (typeOf o) r = some rd) (hp : w.aux.get s!"path:{typeOf o}#{r}" true = true) :
    ruleOf w (o, r) = rewriteExpr w o r rd.restrs rd.rewrite := by
  simp only [ruleOf, not_selfDefining w hu o r hr, if_false, hf, hp, Bool.not_true, Bool.false_eq_true]

theorem ruleOf_pathFalse (hu : isUserset w.req.user = false) (o r : String) (hr : r ≠ "")
    (hf : (w.model.findRel (typeOf o) r).isSome = true) (hp : pathFalse w (typeOf o) r = true) :
    ruleOf w (o, r) = .lit .ff := by
  obtain ⟨rd, hrd⟩ := Option.isSome_iff_exists.mp hf
  simp only [pathFalse, Bool.not_eq_true'] at hp
  simp only [ruleOf, not_selfDefining w hu o r hr, if_false, hrd, hp, Bool.not_false, if_true]

/-- a node whose rule is the literal `ff` is in no least fixpoint -/
theorem not_lfp_of_ff (hff : ¬ leaf .ff) (n : Node) (h : ruleOf w n = .lit .ff) : ¬ lfp (sysOf w) leaf neg [] n := by
  intro hl
  have := (lfp_iff_rule w leaf neg n).mp hl
  rw [h] at this
  cases this with
  | lit hv => exact hff hv

end sem

/-! ### iterators without unevaluable conditions -/

theorem filterIter_noErr (w : World) (hne : NoCondErr w) (ts : List Tuple) (hsub : ∀ t ∈ ts, t ∈ w.all) :
    (filterIter w ts).sawErr = false := by
  simp only [filterIter]
  rw [List.any_eq_false]
  intro t ht
  obtain ⟨h1, h2⟩ := List.mem_filter.mp ht
  have := hne t (hsub t h1) h2
  simpa using this

theorem mem_filterIter_passed (w : World) (ts : List Tuple) (t : Tuple) :
    t ∈ (filterIter w ts).passed ↔ t ∈ ts ∧ validForRead w.model t = true ∧ evalCond w.model w.req.ctx t = .tt := by
  simp only [filterIter, List.mem_filter, decide_eq_true_eq]
  constructor
  · rintro ⟨⟨h1, h2⟩, h3⟩; exact ⟨h1, h2, h3⟩
  · rintro ⟨h1, h2, h3⟩; exact ⟨⟨h1, h2⟩, h3⟩

theorem usersetTuples_sub (w : World) (o r : String) (rs : List Restr) (t : Tuple) (h : t ∈ usersetTuples w o r rs) :
    t ∈ w.all ∧ t.obj = o ∧ t.rel = r ∧ ∃ x ∈ rs, x.typ = userType t.user ∧ x.rel = userRel t.user := by
  simp only [usersetTuples, List.mem_append, List.mem_filter, List.mem_flatMap, List.mem_map, Bool.and_eq_true,
    decide_eq_true_eq, List.any_eq_true] at h
  rcases h with ⟨h1, ⟨⟨⟨h2, h3⟩, _⟩, x, hx, h4, h5⟩⟩ | ⟨t', ⟨h1, ⟨h2, h3⟩, _⟩, x, ⟨hx, h4, h5⟩, rfl⟩
  · exact ⟨by simp [World.all, h1], h2, h3, x, hx, h4, h5⟩
  · exact ⟨by simp [World.all, h1], h2, h3, x, hx, h4, h5⟩

/-! ### the directly assignable case (`checkDirect` vs `fastPathDirect`) -/

/-- what the leaf of the fast path looks for on object `g` -/
def DirectHit (w : World) (pub : Bool) (g rel : String) : Prop :=
  ∃ t ∈ w.all, t.obj = g ∧ t.rel = rel ∧ matchesUserFilter w pub t = true ∧
    validForRead w.model t = true ∧ evalCond w.model w.req.ctx t = .tt

theorem validForRead_restr (m : Model) (t : Tuple) (h : validForRead m t = true) (rd : RelDef)
    (hf : m.findRel (typeOf t.obj) t.rel = some rd) : rd.restrs.any (fun r => restrMatchesUser r t.user) = true := by
  simp only [validForRead, hf, Bool.and_eq_true] at h
  exact h.1.2

theorem validForRead_findRel (m : Model) (t : Tuple) (h : validForRead m t = true) :
    ∃ rd, m.findRel (typeOf t.obj) t.rel = some rd := by
  cases hf : m.findRel (typeOf t.obj) t.rel with
  | none => simp [validForRead, hf] at h
  | some rd => exact ⟨rd, rfl⟩

theorem directLeaf_tt_iff (w : World) (hnd : NoDupKeys w) (o r : String) :
    directLeaf w o r = .lit .tt ↔ ∃ t ∈ w.all, t.obj = o ∧ t.rel = r ∧ t.user = w.req.user ∧
      validForRead w.model t = true ∧ evalCond w.model w.req.ctx t = .tt := by
  unfold directLeaf
  cases hfind : w.all.find? (fun t => t.obj = o && t.rel = r && t.user = w.req.user) with
  | none =>
    simp only
    constructor
    · intro h; cases h
    · rintro ⟨t, ht, h1, h2, h3, _⟩
      have := List.find?_eq_none.mp hfind t ht
      simp [h1, h2, h3] at this
  | some t0 =>
    have hp := List.find?_some hfind
    have hm := List.mem_of_find?_eq_some hfind
    simp only [Bool.and_eq_true, decide_eq_true_eq] at hp
    simp only
    constructor
    · intro h
      refine ⟨t0, hm, hp.1.1, hp.1.2, hp.2, ?_⟩
      cases hv : validForRead w.model t0 with
      | false => simp [hv] at h
      | true =>
        refine ⟨rfl, ?_⟩
        cases hc : evalCond w.model w.req.ctx t0 <;> simp [hv, hc] at h ⊢
    · rintro ⟨t, ht, h1, h2, h3, h4, h5⟩
      have : t = t0 := hnd t ht t0 hm (h1.trans hp.1.1.symm) (h2.trans hp.1.2.symm) (h3.trans hp.2.symm)
      subst this
      simp [h4, h5]

theorem directLeaf_lit (w : World) (hne : NoCondErr w) (o r : String) :
    directLeaf w o r = .lit .tt ∨ directLeaf w o r = .lit .ff := by
  unfold directLeaf
  cases hfind : w.all.find? (fun t => t.obj = o && t.rel = r && t.user = w.req.user) with
  | none => exact .inr rfl
  | some t0 =>
    have hm := List.mem_of_find?_eq_some hfind
    cases hv : validForRead w.model t0 with
    | false => simp [hv]
    | true =>
      have := hne t0 hm hv
      cases hc : evalCond w.model w.req.ctx t0 <;> simp_all

theorem publicLeaf_tt_iff (w : World) (o r : String) :
    publicLeaf w o r = .lit .tt ↔ ∃ t ∈ w.all, t.obj = o ∧ t.rel = r ∧ isTypedWildcard t.user = true ∧
      userType t.user = userType w.req.user ∧ validForRead w.model t = true ∧ evalCond w.model w.req.ctx t = .tt := by
  unfold publicLeaf
  simp only
  split
  · rename_i h
    simp only [true_iff]
    simp only [Bool.not_eq_true', List.isEmpty_eq_false_iff] at h
    obtain ⟨t, ht⟩ := List.exists_mem_of_ne_nil _ h
    obtain ⟨h1, h2, h3⟩ := (mem_filterIter_passed w _ t).mp ht
    simp only [List.mem_filter, Bool.and_eq_true, decide_eq_true_eq] at h1
    exact ⟨t, h1.1, h1.2.1.1.1, h1.2.1.1.2, h1.2.1.2, h1.2.2, h2, h3⟩
  · rename_i h
    have hempty : (filterIter w (w.all.filter (fun t => t.obj = o && t.rel = r && isTypedWildcard t.user &&
        userType t.user = userType w.req.user))).passed = [] := by
      simpa using h
    constructor
    · intro h'; split at h' <;> cases h'
    · rintro ⟨t, ht, h1, h2, h3, h4, h5, h6⟩
      have : t ∈ (filterIter w (w.all.filter (fun t => t.obj = o && t.rel = r && isTypedWildcard t.user &&
        userType t.user = userType w.req.user))).passed :=
        (mem_filterIter_passed w _ t).mpr ⟨by simp [List.mem_filter, ht, h1, h2, h3, h4], h5, h6⟩
      rw [hempty] at this; cases this

theorem publicLeaf_lit (w : World) (hne : NoCondErr w) (o r : String) :
    publicLeaf w o r = .lit .tt ∨ publicLeaf w o r = .lit .ff := by
  unfold publicLeaf
  simp only
  split
  · exact .inl rfl
  · rw [filterIter_noErr w hne _ (fun t ht => (List.mem_filter.mp ht).1)]
    exact .inr (by simp)

section handlers
variable (w : World) (hi : w.ideal = false) (hcs : ConcreteSubject w) (hne : NoCondErr w)
variable (leaf : BoolSys.Leaf → Prop) (neg : Expr Node → Prop) (hff : ¬ leaf .ff)

include hi hcs hne hff in
/-- a userset handler over restrictions through which the subject's type cannot be reached holds in no
least fixpoint -/
theorem usersetHandler_false (o r : String) (rs : List Restr)
    (hrs : ∀ x ∈ rs, x.rel ≠ "" ∧ (w.model.findRel x.typ x.rel).isSome = true ∧ pathFalse w x.typ x.rel = true) :
    ¬ Holds leaf neg (lfp (sysOf w) leaf neg []) (usersetHandler w o r rs) := by
  intro h
  unfold usersetHandler at h
  simp only at h
  have hsub : ∀ t ∈ usersetTuples w o r rs, t ∈ w.all := fun t ht => (usersetTuples_sub w o r rs t ht).1
  have hse := filterIter_noErr w hne _ hsub
  obtain ⟨e, he, hhe⟩ := holds_or_iff.mp h
  simp only [kidsOf, hi, Bool.false_eq_true, if_false, errTail, hse, List.append_nil, List.mem_filterMap,
    Option.some.injEq] at he
  obtain ⟨t, ht, rfl⟩ := he
  obtain ⟨ht1, _, _⟩ := (mem_filterIter_passed w _ t).mp ht
  obtain ⟨_, _, _, x, hx, hx1, hx2⟩ := usersetTuples_sub w o r rs t ht1
  obtain ⟨hxr, hxf, hxp⟩ := hrs x hx
  have hn := holds_node_iff.mp hhe
  have hsplit : splitUserset t.user = ((splitUserset t.user).1, userRel t.user) := rfl
  rw [hsplit] at hn
  have htyp : typeOf (splitUserset t.user).1 = x.typ := by rw [hx1]; rfl
  refine not_lfp_of_ff w leaf neg hff _ ?_ hn
  apply ruleOf_pathFalse w hcs.notUserset
  · rw [← hx2]; exact hxr
  · rw [htyp, ← hx2]; exact hxf
  · rw [htyp, ← hx2]; exact hxp

/-- "weight one" for a directly assignable relation: no userset restriction leads to the subject's type -/
def W1This (w : World) (restrs : List Restr) : Prop :=
  ∀ x ∈ restrs, x.rel ≠ "" → (w.model.findRel x.typ x.rel).isSome = true ∧ pathFalse w x.typ x.rel = true

include hi hcs hne hff in
theorem usersetsExpr_false (o r : String) (restrs : List Restr) (hw1 : W1This w restrs) :
    ¬ Holds leaf neg (lfp (sysOf w) leaf neg []) (usersetsExpr w o r restrs) := by
  have hus : ∀ x ∈ restrs.filter (fun x => x.rel ≠ ""),
      x.rel ≠ "" ∧ (w.model.findRel x.typ x.rel).isSome = true ∧ pathFalse w x.typ x.rel = true := by
    intro x hx
    obtain ⟨h1, h2⟩ := List.mem_filter.mp hx
    have h2' : x.rel ≠ "" := by simpa using h2
    exact ⟨h2', hw1 x h1 h2'⟩
  intro h
  unfold usersetsExpr at h
  simp only at h
  split at h
  · exact usersetHandler_false w hi hcs hne leaf neg hff o r _ hus h
  · obtain ⟨e, he, hhe⟩ := holds_or_iff.mp h
    rcases List.mem_append.mp he with he | he
    · obtain ⟨x, hx, rfl⟩ := List.mem_map.mp he
      refine usersetHandler_false w hi hcs hne leaf neg hff o r [x] ?_ hhe
      intro y hy
      simp at hy; subst hy
      exact hus y (List.mem_filter.mp hx).1
    · split at he
      · cases he
      · rcases List.mem_singleton.mp he with rfl
        refine usersetHandler_false w hi hcs hne leaf neg hff o r _ ?_ hhe
        intro y hy
        exact hus y (List.mem_filter.mp hy).1

end handlers

section direct
variable (w : World) (hi : w.ideal = false) (hcs : ConcreteSubject w) (hne : NoCondErr w) (hnd : NoDupKeys w)
variable (leaf : BoolSys.Leaf → Prop) (neg : Expr Node → Prop) (htt : leaf .tt) (hff : ¬ leaf .ff)

include hi hcs hne hnd htt hff in
/-- `checkDirect` on a weight-one relation holds exactly when the leaf of the fast path finds a tuple -/
theorem directExpr_iff (o r : String) (rd : RelDef) (hf : w.model.findRel (typeOf o) r = some rd)
    (hw1 : W1This w rd.restrs) :
    Holds leaf neg (lfp (sysOf w) leaf neg []) (directExpr w o r rd.restrs) ↔
      DirectHit w (pubAssignable rd.restrs (userType w.req.user)) o r := by
  have hnu := hcs.notUserset
  have hnw := hcs.notWildcard
  unfold directExpr
  simp only [hnu, hnw, Bool.false_eq_true, if_false, Bool.not_false, Bool.true_and]
  rw [holds_or_iff]
  constructor
  · rintro ⟨e, he, hhe⟩
    rcases List.mem_append.mp he with he | he
    · rcases List.mem_append.mp he with he | he
      · -- the direct tuple
        split at he
        · rcases List.mem_singleton.mp he with rfl
          rcases directLeaf_lit w hne o r with h | h
          · obtain ⟨t, ht, h1, h2, h3, h4, h5⟩ := (directLeaf_tt_iff w hnd o r).mp h
            exact ⟨t, ht, h1, h2, by simp [matchesUserFilter, h3], h4, h5⟩
          · rw [h] at hhe
            exact absurd (holds_lit_iff.mp hhe) hff
        · cases he
      · -- the public wildcard
        split at he
        · rename_i hpub
          rcases List.mem_singleton.mp he with rfl
          rcases publicLeaf_lit w hne o r with h | h
          · obtain ⟨t, ht, h1, h2, h3, h4, h5, h6⟩ := (publicLeaf_tt_iff w o r).mp h
            refine ⟨t, ht, h1, h2, ?_, h5, h6⟩
            simp only [matchesUserFilter, hnw, pubAssignable, hpub, h3, h4, Bool.not_false, Bool.true_and,
              decide_true, Bool.or_true]
          · rw [h] at hhe
            exact absurd (holds_lit_iff.mp hhe) hff
        · cases he
    · -- the userset tuples: nothing
      split at he
      · rcases List.mem_singleton.mp he with rfl
        exact absurd hhe (usersetsExpr_false w hi hcs hne leaf neg hff o r rd.restrs hw1)
      · cases he
  · rintro ⟨t, ht, h1, h2, h3, h4, h5⟩
    simp only [matchesUserFilter, hnw, Bool.not_false, Bool.or_eq_true, decide_eq_true_eq,
      Bool.and_eq_true] at h3
    rcases h3 with h3 | ⟨⟨hp, h3a⟩, h3b⟩
    · -- the subject's own tuple
      have hany := validForRead_restr w.model t h4 rd (by rw [h1, h2]; exact hf)
      have hdirect : (rd.restrs.any fun x => decide (x.typ = userType w.req.user) && (decide (x.rel = "") && !x.wild)) = true := by
        rw [List.any_eq_true] at hany ⊢
        obtain ⟨x, hx, hxm⟩ := hany
        rw [h3] at hxm
        simp only [restrMatchesUser, hnu, hnw, Bool.false_eq_true, if_false, Bool.and_eq_true, decide_eq_true_eq,
          Bool.not_eq_true'] at hxm
        exact ⟨x, hx, by simp [hxm.1.1, hxm.1.2, hxm.2]⟩
      refine ⟨directLeaf w o r, ?_, ?_⟩
      · rw [if_pos hdirect]; simp
      · rw [(directLeaf_tt_iff w hnd o r).mpr ⟨t, ht, h1, h2, h3, h4, h5⟩]
        exact holds_lit_iff.mpr htt
    · -- the wildcard tuple
      have hpub : (rd.restrs.any fun x => decide (x.typ = userType w.req.user) && x.wild) = true := hp.1
      refine ⟨publicLeaf w o r, ?_, ?_⟩
      · rw [if_pos hpub]; simp
      · rw [(publicLeaf_tt_iff w o r).mpr ⟨t, ht, h1, h2, h3a, h3b, h4, h5⟩]
        exact holds_lit_iff.mpr htt

include hi hcs hne hff in
/-- a tuple-to-userset whose parents cannot lead to the subject's type holds in no least fixpoint -/
theorem ttuExpr_false (o ts cr : String) (hcr : cr ≠ "")
    (hw1 : ∀ rd, w.model.findRel (typeOf o) ts = some rd →
      ∀ p ∈ rd.restrs, (w.model.findRel p.typ cr).isNone = true ∨ pathFalse w p.typ cr = true) :
    ¬ Holds leaf neg (lfp (sysOf w) leaf neg []) (ttuExpr w o ts cr) := by
  intro h
  unfold ttuExpr at h
  simp only at h
  have hsub : ∀ t ∈ w.all.filter (fun t => t.obj = o && t.rel = ts), t ∈ w.all := fun t ht => (List.mem_filter.mp ht).1
  have hse := filterIter_noErr w hne _ hsub
  obtain ⟨e, he, hhe⟩ := holds_or_iff.mp h
  simp only [kidsOf, hi, Bool.false_eq_true, if_false, errTail, hse, List.append_nil, List.mem_filterMap] at he
  obtain ⟨t, ht, hte⟩ := he
  obtain ⟨ht1, ht2, _⟩ := (mem_filterIter_passed w _ t).mp ht
  simp only [List.mem_filter, Bool.and_eq_true, decide_eq_true_eq] at ht1
  cases hfr : w.model.findRel (typeOf (splitUserset t.user).1) cr with
  | none => simp [hfr] at hte
  | some rdc =>
    simp only [hfr, Option.some.injEq] at hte
    subst hte
    have hn := holds_node_iff.mp hhe
    obtain ⟨rdts, hrdts⟩ := validForRead_findRel w.model t ht2
    have hany := validForRead_restr w.model t ht2 rdts hrdts
    rw [List.any_eq_true] at hany
    obtain ⟨p, hp, hpm⟩ := hany
    have hptyp : p.typ = userType t.user := by
      simp only [restrMatchesUser] at hpm
      split at hpm
      · simp only [Bool.and_eq_true, decide_eq_true_eq] at hpm; exact hpm.1.1
      · split at hpm
        · simp only [Bool.and_eq_true, decide_eq_true_eq] at hpm; exact hpm.1
        · simp only [Bool.and_eq_true, decide_eq_true_eq] at hpm; exact hpm.1.1
    rw [ht1.2.1, ht1.2.2] at hrdts
    have hcase := hw1 rdts hrdts p hp
    have htyp : typeOf (splitUserset t.user).1 = p.typ := by rw [hptyp]; rfl
    rcases hcase with hnone | hpf
    · rw [← htyp, hfr] at hnone; cases hnone
    · refine not_lfp_of_ff w leaf neg hff _ ?_ hn
      apply ruleOf_pathFalse w hcs.notUserset _ _ hcr
      · rw [hfr]; rfl
      · rw [htyp]; exact hpf

end direct

/-! ### the induction over the rewrite -/

theorem combine_chans (chans : List (Chan String)) (op : List (Chan String) → Option (Chan String)) :
    LeftR.combine (chans.map (fun c => LeftR.chan c false)) op =
      (match op chans with
       | some c => .chan c false
       | none => .fuel) := by
  have h1 : (chans.map (fun c => LeftR.chan c false)).any LeftR.isFuel = false := by
    rw [List.any_eq_false]; intro r hr; obtain ⟨c, _, rfl⟩ := List.mem_map.mp hr; simp [LeftR.isFuel]
  have h2 : (chans.map (fun c => LeftR.chan c false)).any LeftR.isSetupErr = false := by
    rw [List.any_eq_false]; intro r hr; obtain ⟨c, _, rfl⟩ := List.mem_map.mp hr; simp [LeftR.isSetupErr]
  have h3 : (chans.map (fun c => LeftR.chan c false)).any LeftR.sw = false := by
    rw [List.any_eq_false]; intro r hr; obtain ⟨c, _, rfl⟩ := List.mem_map.mp hr; simp [LeftR.sw]
  have h4 : ∀ l : List (Chan String), (l.map (fun c => LeftR.chan c false)).filterMap LeftR.chan? = l := by
    intro l
    induction l with
    | nil => rfl
    | cons c rest ih => simp only [List.map_cons, List.filterMap_cons, LeftR.chan?, ih]
  simp only [LeftR.combine, h1, h2, h3, h4 chans, Bool.false_eq_true, if_false]
  cases op chans <;> rfl

section main
variable (w : World) (hi : w.ideal = false) (hcs : ConcreteSubject w) (hne : NoCondErr w) (hnd : NoDupKeys w)
  (hctx : CtxSorted w) (I : Interp Node) (hc : Coherent (sysOf w) I)

/-- the channel carries exactly the objects of type `typ` on which the expression holds -/
structure Good (typ : String) (e : String → Expr Node) (c : Chan String) : Prop where
  clean : Chan.clean c = true
  sorted : Sorted (Chan.items c)
  typed : ∀ x ∈ Chan.items c, typeOf x = typ
  defn : ∀ g, typeOf g = typ → (g ∈ Chan.items c ↔ HoldsD (sysOf w) I [] (e g))
  poss : ∀ g, typeOf g = typ → (g ∈ Chan.items c ↔ HoldsP (sysOf w) I [] (e g))

theorem leafD_tt : leafD .tt := rfl
theorem not_leafD_ff : ¬ leafD .ff := by unfold leafD; intro h; cases h
theorem leafP_tt : leafP .tt := by unfold leafP; intro h; cases h
theorem not_leafP_ff : ¬ leafP .ff := by unfold leafP; intro h; exact h rfl

theorem w1This_of (restrs : List Restr)
    (h : restrs.all (fun x => x.rel = "" || ((w.model.findRel x.typ x.rel).isSome && pathFalse w x.typ x.rel)) = true) :
    W1This w restrs := by
  intro x hx hr
  have := List.all_eq_true.mp h x hx
  simp only [Bool.or_eq_true, decide_eq_true_eq, Bool.and_eq_true] at this
  rcases this with h1 | h1
  · exact absurd h1 hr
  · exact h1

include hi hcs hne hnd hctx hc in
theorem leftChan_good (thr : Nat) (typ : String) :
    ∀ (fuel : Nat) (rel : String) (rd : RelDef) (rw : Rewrite), w.model.findRel typ rel = some rd →
      w1Rewrite w typ fuel rd.restrs rw = true →
      ∃ c, leftChan w { order := .repaired, thr := thr } typ fuel rel rw = .chan c false ∧
        Good w I typ (fun g => rewriteExpr w g rel rd.restrs rw) c := by
  intro fuel
  induction fuel with
  | zero => intro rel rd rw _ h; simp [w1Rewrite] at h
  | succ fuel ih =>
    intro rel rd rw hrd hw1
    -- children of a set operation
    have hkids : ∀ (cs : List Rewrite), cs.all (w1Rewrite w typ fuel rd.restrs) = true →
        ∃ chans, All2 (fun rw c => leftChan w { order := .repaired, thr := thr } typ fuel rel rw = .chan c false ∧
          Good w I typ (fun g => rewriteExpr w g rel rd.restrs rw) c) cs chans := by
      intro cs
      induction cs with
      | nil => intro _; exact ⟨[], .nil⟩
      | cons rw1 rest ihc =>
        intro hall
        simp only [List.all_cons, Bool.and_eq_true] at hall
        obtain ⟨c1, hc1, hg1⟩ := ih rel rd rw1 hrd hall.1
        obtain ⟨chans, hch⟩ := ihc hall.2
        exact ⟨c1 :: chans, .cons ⟨hc1, hg1⟩ hch⟩
    have hmap : ∀ (cs : List Rewrite) (chans : List (Chan String)),
        All2 (fun rw c => leftChan w { order := .repaired, thr := thr } typ fuel rel rw = .chan c false ∧
          Good w I typ (fun g => rewriteExpr w g rel rd.restrs rw) c) cs chans →
        cs.map (leftChan w { order := .repaired, thr := thr } typ fuel rel) = chans.map (fun c => LeftR.chan c false) := by
      intro cs chans h
      induction h with
      | nil => rfl
      | cons h1 _ ih2 => simp [h1.1, ih2]
    cases rw with
    | this =>
      obtain ⟨h1, h2, h3, h4⟩ := leafOf_repaired w thr hctx hne typ rel
      refine ⟨[.iter (leafOf w { order := .repaired, thr := thr } typ rel).it], by simp [leftChan, h2], ?_⟩
      have hw1' : W1This w rd.restrs := w1This_of w rd.restrs (by simpa [w1Rewrite] using hw1)
      have hpub : leafPub w typ rel = pubAssignable rd.restrs (userType w.req.user) := by simp [leafPub, hrd]
      have hitems : Chan.items [Msg.iter (leafOf w { order := .repaired, thr := thr } typ rel).it] =
          (leafOf w { order := .repaired, thr := thr } typ rel).it.items := by simp [Chan.items, Msg.items]
      have hhit : ∀ g, typeOf g = typ → (g ∈ (leafOf w { order := .repaired, thr := thr } typ rel).it.items ↔
          DirectHit w (pubAssignable rd.restrs (userType w.req.user)) g rel) := by
        intro g hg
        rw [h4 g, hpub]
        constructor
        · rintro ⟨t, ht, h5, _, h6, h7, h8, h9⟩; exact ⟨t, ht, h5, h6, h7, h8, h9⟩
        · rintro ⟨t, ht, h5, h6, h7, h8, h9⟩; exact ⟨t, ht, h5, hg, h6, h7, h8, h9⟩
      refine ⟨by simp [Chan.clean, Msg.clean, h1], by rw [hitems]; exact h3, ?_, ?_, ?_⟩
      · intro x hx
        rw [hitems] at hx
        obtain ⟨t, _, _, h5, _⟩ := (h4 x).mp hx
        exact h5
      · intro g hg
        rw [hitems, hhit g hg]
        have hre : rewriteExpr w g rel rd.restrs .this = directExpr w g rel rd.restrs := by simp only [rewriteExpr]
        rw [hre]
        exact (directExpr_iff w hi hcs hne hnd leafD I.negD leafD_tt not_leafD_ff g rel rd (by rw [hg]; exact hrd) hw1').symm
      · intro g hg
        rw [hitems, hhit g hg]
        have hre : rewriteExpr w g rel rd.restrs .this = directExpr w g rel rd.restrs := by simp only [rewriteExpr]
        rw [hre]
        exact (directExpr_iff w hi hcs hne hnd leafP I.negP leafP_tt not_leafP_ff g rel rd (by rw [hg]; exact hrd) hw1').symm
    | computed r' =>
      simp only [w1Rewrite, Bool.and_eq_true, decide_eq_true_eq] at hw1
      obtain ⟨hr', hw1⟩ := hw1
      cases hrd' : w.model.findRel typ r' with
      | none => simp [hrd'] at hw1
      | some rd' =>
        simp only [hrd', Bool.and_eq_true] at hw1
        obtain ⟨c, hcl, hg⟩ := ih r' rd' rd'.rewrite hrd' hw1.2
        refine ⟨c, by simp [leftChan, hrd', hcl], hg.clean, hg.sorted, hg.typed, ?_, ?_⟩
        · intro g hgt
          rw [hg.defn g hgt]
          rw [show rewriteExpr w g rel rd.restrs (Rewrite.computed r') = Expr.node false (g, r') from by rw [rewriteExpr]]
          have h1 := lfp_iff_rule w leafD I.negD (g, r')
          rw [ruleOf_eq w hcs.notUserset g r' hr' rd' (by rw [hgt]; exact hrd') (by rw [hgt]; exact hw1.1)] at h1
          exact (holds_node_iff.trans h1).symm
        · intro g hgt
          rw [hg.poss g hgt]
          rw [show rewriteExpr w g rel rd.restrs (Rewrite.computed r') = Expr.node false (g, r') from by rw [rewriteExpr]]
          have h1 := lfp_iff_rule w leafP I.negP (g, r')
          rw [ruleOf_eq w hcs.notUserset g r' hr' rd' (by rw [hgt]; exact hrd') (by rw [hgt]; exact hw1.1)] at h1
          exact (holds_node_iff.trans h1).symm
    | ttu ts cr =>
      simp only [w1Rewrite, Bool.and_eq_true, decide_eq_true_eq] at hw1
      obtain ⟨hcr, hw1⟩ := hw1
      have hw1' : ∀ g, typeOf g = typ → ∀ rdts, w.model.findRel (typeOf g) ts = some rdts →
          ∀ p ∈ rdts.restrs, (w.model.findRel p.typ cr).isNone = true ∨ pathFalse w p.typ cr = true := by
        intro g hg rdts hrdts p hp
        rw [hg] at hrdts
        simp only [hrdts] at hw1
        have := List.all_eq_true.mp hw1 p hp
        simpa using this
      refine ⟨[], by simp [leftChan], rfl, List.Pairwise.nil, (fun x hx => by cases hx), ?_, ?_⟩
      · intro g hg
        constructor
        · intro h; cases h
        · intro h
          rw [show rewriteExpr w g rel rd.restrs (Rewrite.ttu ts cr) = ttuExpr w g ts cr from by rw [rewriteExpr]] at h
          exact absurd h (ttuExpr_false w hi hcs hne leafD I.negD not_leafD_ff g ts cr hcr (hw1' g hg))
      · intro g hg
        constructor
        · intro h; cases h
        · intro h
          rw [show rewriteExpr w g rel rd.restrs (Rewrite.ttu ts cr) = ttuExpr w g ts cr from by rw [rewriteExpr]] at h
          exact absurd h (ttuExpr_false w hi hcs hne leafP I.negP not_leafP_ff g ts cr hcr (hw1' g hg))
    | union cs =>
      have hall : cs.all (w1Rewrite w typ fuel rd.restrs) = true := by simpa [w1Rewrite] using hw1
      obtain ⟨chans, hch⟩ := hkids cs hall
      obtain ⟨out, hout, hclean, hsorted, hmem⟩ := fastPathUnion_spec thr chans
        (fun c hc' => by obtain ⟨_, _, _, hg⟩ := forall₂_mem_right hch hc'; exact hg.clean)
        (fun c hc' => by obtain ⟨_, _, _, hg⟩ := forall₂_mem_right hch hc'; exact hg.sorted)
      refine ⟨out, by simp only [leftChan, hmap cs chans hch, combine_chans, hout], hclean, hsorted, ?_, ?_, ?_⟩
      · intro x hx
        obtain ⟨c, hc', hxc⟩ := (hmem x).mp hx
        obtain ⟨_, _, _, hg⟩ := forall₂_mem_right hch hc'
        exact hg.typed x hxc
      · intro g hg
        rw [hmem g]
        rw [show rewriteExpr w g rel rd.restrs (Rewrite.union cs) = Expr.or (cs.map (rewriteExpr w g rel rd.restrs)) from by rw [rewriteExpr]]
        refine Iff.trans ?_ holds_or_iff.symm
        constructor
        · rintro ⟨c, hc', hgc⟩
          obtain ⟨rw1, hrw1, _, hgood⟩ := forall₂_mem_right hch hc'
          exact ⟨_, List.mem_map.mpr ⟨rw1, hrw1, rfl⟩, (hgood.defn g hg).mp hgc⟩
        · rintro ⟨e, he, hhe⟩
          obtain ⟨rw1, hrw1, rfl⟩ := List.mem_map.mp he
          obtain ⟨c, hc', _, hgood⟩ := forall₂_mem_left hch hrw1
          exact ⟨c, hc', (hgood.defn g hg).mpr hhe⟩
      · intro g hg
        rw [hmem g]
        rw [show rewriteExpr w g rel rd.restrs (Rewrite.union cs) = Expr.or (cs.map (rewriteExpr w g rel rd.restrs)) from by rw [rewriteExpr]]
        refine Iff.trans ?_ holds_or_iff.symm
        constructor
        · rintro ⟨c, hc', hgc⟩
          obtain ⟨rw1, hrw1, _, hgood⟩ := forall₂_mem_right hch hc'
          exact ⟨_, List.mem_map.mpr ⟨rw1, hrw1, rfl⟩, (hgood.poss g hg).mp hgc⟩
        · rintro ⟨e, he, hhe⟩
          obtain ⟨rw1, hrw1, rfl⟩ := List.mem_map.mp he
          obtain ⟨c, hc', _, hgood⟩ := forall₂_mem_left hch hrw1
          exact ⟨c, hc', (hgood.poss g hg).mpr hhe⟩
    | inter cs =>
      simp only [w1Rewrite, Bool.and_eq_true, Bool.not_eq_true', List.isEmpty_eq_false_iff] at hw1
      obtain ⟨hne', hall⟩ := hw1
      obtain ⟨chans, hch⟩ := hkids cs hall
      have hchne : chans ≠ [] := by
        intro e; subst e
        have := hch.length_eq; simp at this; exact hne' this
      obtain ⟨out, hout, hclean, hsorted, hmem⟩ := fastPathIntersection_spec thr chans hchne
        (fun c hc' => by obtain ⟨_, _, _, hg⟩ := forall₂_mem_right hch hc'; exact hg.clean)
        (fun c hc' => by obtain ⟨_, _, _, hg⟩ := forall₂_mem_right hch hc'; exact hg.sorted)
      refine ⟨out, by simp only [leftChan, hmap cs chans hch, combine_chans, hout], hclean, hsorted, ?_, ?_, ?_⟩
      · intro x hx
        obtain ⟨c0, hc0⟩ := List.exists_mem_of_ne_nil chans hchne
        obtain ⟨_, _, _, hg⟩ := forall₂_mem_right hch hc0
        exact hg.typed x ((hmem x).mp hx c0 hc0)
      · intro g hg
        rw [hmem g]
        rw [show rewriteExpr w g rel rd.restrs (Rewrite.inter cs) = Expr.and (cs.map (rewriteExpr w g rel rd.restrs)) from by rw [rewriteExpr]]
        refine Iff.trans ?_ holds_and_iff.symm
        constructor
        · intro h e he
          obtain ⟨rw1, hrw1, rfl⟩ := List.mem_map.mp he
          obtain ⟨c, hc', _, hgood⟩ := forall₂_mem_left hch hrw1
          exact (hgood.defn g hg).mp (h c hc')
        · intro h c hc'
          obtain ⟨rw1, hrw1, _, hgood⟩ := forall₂_mem_right hch hc'
          exact (hgood.defn g hg).mpr (h _ (List.mem_map.mpr ⟨rw1, hrw1, rfl⟩))
      · intro g hg
        rw [hmem g]
        rw [show rewriteExpr w g rel rd.restrs (Rewrite.inter cs) = Expr.and (cs.map (rewriteExpr w g rel rd.restrs)) from by rw [rewriteExpr]]
        refine Iff.trans ?_ holds_and_iff.symm
        constructor
        · intro h e he
          obtain ⟨rw1, hrw1, rfl⟩ := List.mem_map.mp he
          obtain ⟨c, hc', _, hgood⟩ := forall₂_mem_left hch hrw1
          exact (hgood.poss g hg).mp (h c hc')
        · intro h c hc'
          obtain ⟨rw1, hrw1, _, hgood⟩ := forall₂_mem_right hch hc'
          exact (hgood.poss g hg).mpr (h _ (List.mem_map.mpr ⟨rw1, hrw1, rfl⟩))
    | diff b s =>
      simp only [w1Rewrite, Bool.and_eq_true] at hw1
      obtain ⟨cb, hcb, hgb⟩ := ih rel rd b hrd hw1.1
      obtain ⟨csub, hcsub, hgs⟩ := ih rel rd s hrd hw1.2
      obtain ⟨out, hout, hclean, hsorted, hmem⟩ := fastPathDifference_spec thr cb csub hgb.clean hgs.clean hgb.sorted hgs.sorted
      have hcomb : leftChan w { order := .repaired, thr := thr } typ (fuel + 1) rel (.diff b s) = .chan out false := by
        have := combine_chans [cb, csub] (diffOp thr)
        simp only [List.map_cons, List.map_nil] at this
        simp only [leftChan, hcb, hcsub, this, diffOp, hout]
      refine ⟨out, hcomb, hclean, hsorted, ?_, ?_, ?_⟩
      · intro x hx; exact hgb.typed x ((hmem x).mp hx).1
      · intro g hg
        rw [hmem g]
        rw [show rewriteExpr w g rel rd.restrs (Rewrite.diff b s) = Expr.diff (rewriteExpr w g rel rd.restrs b) (rewriteExpr w g rel rd.restrs s) from by rw [rewriteExpr]]
        refine Iff.trans ?_ holds_diff_iff.symm
        constructor
        · rintro ⟨h1, h2⟩
          exact ⟨(hgb.defn g hg).mp h1, ((hc _).1).mpr (fun hp => h2 ((hgs.poss g hg).mpr hp))⟩
        · rintro ⟨h1, h2⟩
          exact ⟨(hgb.defn g hg).mpr h1, fun hin => ((hc _).1).mp h2 ((hgs.poss g hg).mp hin)⟩
      · intro g hg
        rw [hmem g]
        rw [show rewriteExpr w g rel rd.restrs (Rewrite.diff b s) = Expr.diff (rewriteExpr w g rel rd.restrs b) (rewriteExpr w g rel rd.restrs s) from by rw [rewriteExpr]]
        refine Iff.trans ?_ holds_diff_iff.symm
        constructor
        · rintro ⟨h1, h2⟩
          exact ⟨(hgb.poss g hg).mp h1, ((hc _).2).mpr (fun hp => h2 ((hgs.defn g hg).mpr hp))⟩
        · rintro ⟨h1, h2⟩
          exact ⟨(hgb.poss g hg).mpr h1, fun hin => ((hc _).2).mp h2 ((hgs.defn g hg).mp hin)⟩

end main

end OpenFGAVerif.Weight2
