/-
`fastPathUnion_spec`: on clean children whose contents are strictly ascending, `fastPathUnion` sends no
error and the concatenation of the batches it sends is the strictly ascending list of exactly the object
ids that some child carries — for every batch threshold and every way the children cut their output
into batches.
-/
import OpenFGAVerif.Proofs.Weight2Prims

namespace OpenFGAVerif.Weight2

set_option linter.unusedSectionVars false

variable {α : Type}

/-- strictly ascending: sorted and duplicate free -/
def Sorted [LT α] (l : List α) : Prop := l.Pairwise (· < ·)

/-- everything emitted so far: the batches already sent and the batch being filled -/
def Acc.emitted (a : Acc α) : List α := Chan.items a.sent ++ a.batch

theorem Acc.finish_items (a : Acc α) : Chan.items a.finish = a.emitted := by
  unfold Acc.finish Acc.emitted
  split
  · simp [Chan.items, Msg.items]
  · have : a.batch = [] := by
      cases hb : a.batch with
      | nil => rfl
      | cons x xs => rename_i h; simp [hb] at h
    simp [this]

theorem Acc.finish_clean (a : Acc α) (h : Chan.clean a.sent = true) : Chan.clean a.finish = true := by
  unfold Acc.finish
  split
  · rw [Chan.clean_append, h]; simp [Chan.clean, Msg.clean]
  · exact h

theorem Acc.maybeFlush_emitted (thr : Nat) (a : Acc α) : (a.maybeFlush thr).emitted = a.emitted := by
  unfold Acc.maybeFlush Acc.emitted
  split
  · simp [Chan.items, Msg.items]
  · rfl

theorem Acc.maybeFlush_clean (thr : Nat) (a : Acc α) (h : Chan.clean a.sent = true) :
    Chan.clean (a.maybeFlush thr).sent = true := by
  unfold Acc.maybeFlush
  split
  · rw [Chan.clean_append, h]; simp [Chan.clean, Msg.clean]
  · exact h

/-- every batch that is sent before the final flush has more than `thr` items -/
def Acc.bigBatches (thr : Nat) (a : Acc α) : Prop := ∀ m ∈ a.sent, thr < m.items.length

theorem addNext_eq [DecidableEq α] (thr : Nat) (m : α) (ss : List (Stream α)) (hs : List α)
    (hall : All2 Stream.HeadIs ss hs) (hm : m ∈ hs) (a : Acc α) :
    addNext thr ss (positions (fun x => decide (x = m)) hs 0) a =
      .ok (({ a with batch := a.batch ++ [m] } : Acc α).maybeFlush thr, advanceEq m ss) := by
  unfold addNext
  rw [nextInSlice_positions m ss hs hall none]
  simp [positions_ne_nil_of_mem m hs hm 0]

theorem sorted_tail [LT α] {x : α} {l : List α} (h : Sorted (x :: l)) : Sorted l := (List.pairwise_cons.mp h).2
theorem sorted_head_lt [LT α] {x : α} {l : List α} (h : Sorted (x :: l)) : ∀ y ∈ l, x < y := (List.pairwise_cons.mp h).1

section union
variable [LT α] [DecidableLT α] [DecidableEq α] [StrictOrd α]

/-- loop invariant of `fastPathUnion`; `U` = "some child carries the object" -/
structure UInv (U : α → Prop) (ss : List (Stream α)) (a : Acc α) : Prop where
  ok : ∀ s ∈ ss, s.Ok ∧ s.closed = false
  sorted : ∀ s ∈ ss, Sorted s.content
  sentClean : Chan.clean a.sent = true
  esorted : Sorted a.emitted
  below : ∀ e ∈ a.emitted, ∀ s ∈ ss, ∀ x ∈ s.content, e < x
  mem : ∀ x, (x ∈ a.emitted ∨ ∃ s ∈ ss, x ∈ s.content) ↔ U x

theorem UInv.cleaned {U : α → Prop} {ss ss1 : List (Stream α)} {a : Acc α} (h : UInv U ss a) (hc : Cleaned ss ss1) :
    UInv U ss1 a := by
  refine ⟨fun s hs => ⟨(hc.ready s hs).ok, (hc.ready s hs).open_⟩, ?_, h.sentClean, h.esorted, ?_, ?_⟩
  · intro s hs
    obtain ⟨s0, hs0, hcon, _⟩ := hc.back s hs
    rw [hcon]; exact h.sorted s0 hs0
  · intro e he s hs x hx
    obtain ⟨s0, hs0, hcon, _⟩ := hc.back s hs
    rw [hcon] at hx; exact h.below e he s0 hs0 x hx
  · intro x
    rw [← h.mem x]
    constructor
    · rintro (hx | ⟨s, hs, hx⟩)
      · exact .inl hx
      · obtain ⟨s0, hs0, hcon, _⟩ := hc.back s hs
        exact .inr ⟨s0, hs0, hcon ▸ hx⟩
    · rintro (hx | ⟨s, hs, hx⟩)
      · exact .inl hx
      · rcases hc.fwd s hs with hnil | ⟨s1, hs1, hcon, _⟩
        · rw [hnil] at hx; cases hx
        · exact .inr ⟨s1, hs1, hcon ▸ hx⟩

theorem UInv.sameContent {U : α → Prop} {ss ss' : List (Stream α)} {a : Acc α} (h : UInv U ss a)
    (hc : All2 SameContent ss ss') : UInv U ss' a := by
  refine ⟨?_, ?_, h.sentClean, h.esorted, ?_, ?_⟩
  · intro s' hs'
    obtain ⟨s, hs, hsc⟩ := forall₂_mem_right hc hs'
    exact ⟨hsc.ok (h.ok s hs).1, hsc.open_ (h.ok s hs).2⟩
  · intro s' hs'
    obtain ⟨s, hs, hsc⟩ := forall₂_mem_right hc hs'
    rw [hsc.content]; exact h.sorted s hs
  · intro e he s' hs' x hx
    obtain ⟨s, hs, hsc⟩ := forall₂_mem_right hc hs'
    rw [hsc.content] at hx; exact h.below e he s hs x hx
  · intro x
    rw [← h.mem x]
    constructor
    · rintro (hx | ⟨s', hs', hx⟩)
      · exact .inl hx
      · obtain ⟨s, hs, hsc⟩ := forall₂_mem_right hc hs'
        exact .inr ⟨s, hs, hsc.content ▸ hx⟩
    · rintro (hx | ⟨s, hs, hx⟩)
      · exact .inl hx
      · obtain ⟨s', hs', hsc⟩ := forall₂_mem_left hc hs
        exact .inr ⟨s', hs', hsc.content.symm ▸ hx⟩

/-- the step that emits the least head `m` and advances every stream that carries it -/
theorem UInv.step {U : α → Prop} {ss : List (Stream α)} {a : Acc α} (h : UInv U ss a) {hs : List α}
    (hall : All2 Stream.HeadIs ss hs) {m : α} (hm : m ∈ hs) (hmin : ∀ h0 ∈ hs, ¬ h0 < m) (thr : Nat) :
    UInv U (advanceEq m ss) (({ a with batch := a.batch ++ [m] } : Acc α).maybeFlush thr) := by
  -- `m` is the head of some stream
  obtain ⟨k, hk, hkm⟩ := List.getElem_of_mem hm
  have hsm : ∃ s ∈ ss, s.HeadIs m := by
    rcases all2_getElem? hall k with ⟨_, hn⟩ | ⟨s, b, hs1, hb, hab⟩
    · rw [List.getElem?_eq_getElem hk] at hn; cases hn
    · rw [List.getElem?_eq_getElem hk] at hb
      simp only [Option.some.injEq] at hb
      exact ⟨s, List.mem_of_getElem? hs1, by rw [← hkm, hb]; exact hab⟩
  obtain ⟨sm, hsm1, hsm2⟩ := hsm
  obtain ⟨tm, htm⟩ := hsm2.content
  have hbelow_m : ∀ e ∈ a.emitted, e < m := fun e he => h.below e he sm hsm1 m (by rw [htm]; simp)
  have hem : (({ a with batch := a.batch ++ [m] } : Acc α).maybeFlush thr).emitted = a.emitted ++ [m] := by
    rw [Acc.maybeFlush_emitted]; simp [Acc.emitted]
  refine ⟨?_, ?_, Acc.maybeFlush_clean thr _ h.sentClean, ?_, ?_, ?_⟩
  · intro s' hs'
    rcases mem_advanceEq hall hs' with ⟨h0, _, hmem, _, _⟩ | ⟨s, hs1, _, hadv⟩
    · exact h.ok s' hmem
    · exact ⟨hadv.ok (h.ok s hs1).1, by rw [hadv.closed]; exact (h.ok s hs1).2⟩
  · intro s' hs'
    rcases mem_advanceEq hall hs' with ⟨h0, _, hmem, _, _⟩ | ⟨s, hs1, _, hadv⟩
    · exact h.sorted s' hmem
    · have := h.sorted s hs1
      rw [hadv.content] at this
      exact sorted_tail this
  · rw [hem]
    exact List.pairwise_append.mpr ⟨h.esorted, List.pairwise_singleton _ _, fun e he x hx => by
      simp at hx; subst hx; exact hbelow_m e he⟩
  · rw [hem]
    intro e he s' hs' x hx
    rcases List.mem_append.mp he with he | he
    · rcases mem_advanceEq hall hs' with ⟨h0, _, hmem, _, _⟩ | ⟨s, hs1, _, hadv⟩
      · exact h.below e he s' hmem x hx
      · exact h.below e he s hs1 x (by rw [hadv.content]; exact List.mem_cons_of_mem _ hx)
    · simp at he; subst he
      rcases mem_advanceEq hall hs' with ⟨h0, hne, hmem, hh0, hh0s⟩ | ⟨s, hs1, _, hadv⟩
      · obtain ⟨t0, ht0⟩ := hh0.content
        have hlt : e < h0 := by
          rcases StrictOrd.tri e h0 with h1 | h1 | h1
          · exact h1
          · exact absurd h1.symm hne
          · exact absurd h1 (hmin h0 hh0s)
        have hso := h.sorted s' hmem
        rw [ht0] at hso hx
        rcases List.mem_cons.mp hx with rfl | hx
        · exact hlt
        · exact StrictOrd.trans hlt (sorted_head_lt hso x hx)
      · have hso := h.sorted s hs1
        rw [hadv.content] at hso
        exact sorted_head_lt hso x hx
  · intro x
    rw [hem, ← h.mem x]
    constructor
    · rintro (hx | ⟨s', hs', hx⟩)
      · rcases List.mem_append.mp hx with hx | hx
        · exact .inl hx
        · simp at hx; subst hx
          exact .inr ⟨sm, hsm1, by rw [htm]; simp⟩
      · rcases mem_advanceEq hall hs' with ⟨h0, _, hmem, _, _⟩ | ⟨s, hs1, _, hadv⟩
        · exact .inr ⟨s', hmem, hx⟩
        · exact .inr ⟨s, hs1, by rw [hadv.content]; exact List.mem_cons_of_mem _ hx⟩
    · rintro (hx | ⟨s, hs1, hx⟩)
      · exact .inl (List.mem_append_left _ hx)
      · rcases advanceEq_of_mem (m := m) hall hs1 with ⟨h0, _, _, hmem⟩ | ⟨_, s', hs', hadv⟩
        · exact .inr ⟨s, hmem, hx⟩
        · rw [hadv.content] at hx
          rcases List.mem_cons.mp hx with rfl | hx
          · exact .inl (by simp)
          · exact .inr ⟨s', hs', hx⟩

theorem weights_pos_of_open {ss : List (Stream α)} (hne : ss ≠ []) (h : ∀ s ∈ ss, s.closed = false) : 1 ≤ weights ss := by
  cases ss with
  | nil => exact absurd rfl hne
  | cons s rest =>
    have := Stream.weight_pos s (h s (by simp))
    simp only [weights_cons]; omega

theorem unionLoop_spec (thr : Nat) (U : α → Prop) :
    ∀ (fuel : Nat) (ss : List (Stream α)) (a : Acc α), UInv U ss a → weights ss + 2 ≤ fuel →
      ∃ out, unionLoop thr fuel ss a = some out ∧ Chan.clean out = true ∧ Sorted (Chan.items out) ∧
        ∀ x, x ∈ Chan.items out ↔ U x := by
  intro fuel
  induction fuel with
  | zero => intro ss a _ hf; omega
  | succ fuel ih =>
    intro ss a hinv hf
    by_cases hnil : ss = []
    · subst hnil
      refine ⟨a.finish, by simp [unionLoop], Acc.finish_clean a hinv.sentClean, ?_, ?_⟩
      · rw [Acc.finish_items]; exact hinv.esorted
      · intro x; rw [Acc.finish_items, ← hinv.mem x]; simp
    · have hlen : ¬ ss.length = 0 := fun h => hnil (List.length_eq_zero_iff.mp h)
      obtain ⟨ss1, hcd, hcl⟩ := cleanDone_spec ss (fun s hs => (hinv.ok s hs).1)
      have hinv1 := hinv.cleaned hcl
      have hwpos := weights_pos_of_open hnil (fun s hs => (hinv.ok s hs).2)
      rcases scanHeads_ready ss1 hcl.ready with ⟨hs, hsc, hall⟩ | ⟨ss2, hsc, hall, hw⟩
      · cases hs with
        | nil =>
          have hss1 : ss1 = [] := by
            have := hall.length_eq; simpa using this
          subst hss1
          have hstep : unionLoop thr (fuel + 1) ss a = unionLoop thr fuel [] (a.maybeFlush thr) := by
            simp [unionLoop, hlen, hcd, hsc, selMin, addNext, nextInSlice]
          rw [hstep]
          apply ih
          · refine ⟨fun s hs => ?_, fun s hs => ?_, Acc.maybeFlush_clean thr a hinv1.sentClean, ?_,
              fun _ _ s hs => ?_, fun x => ?_⟩
            · cases hs
            · cases hs
            · rw [Acc.maybeFlush_emitted]; exact hinv1.esorted
            · cases hs
            · rw [Acc.maybeFlush_emitted]; exact hinv1.mem x
          · simp only [weights_nil]; omega
        | cons v rest =>
          obtain ⟨m, hsel, hm, hmin⟩ := selMin_spec v rest
          have hstep : unionLoop thr (fuel + 1) ss a =
              unionLoop thr fuel (advanceEq m ss1) (({ a with batch := a.batch ++ [m] } : Acc α).maybeFlush thr) := by
            simp [unionLoop, hlen, hcd, hsc, hsel, addNext_eq thr m ss1 (v :: rest) hall hm a]
          rw [hstep]
          apply ih
          · exact hinv1.step hall hm hmin thr
          · have := (weights_advanceEq (m := m) hall).2 hm
            have := hcl.weight
            omega
      · have hstep : unionLoop thr (fuel + 1) ss a = unionLoop thr fuel ss2 a := by
          simp [unionLoop, hlen, hcd, hsc]
        rw [hstep]
        apply ih
        · exact hinv1.sameContent hall
        · have := hcl.weight; omega

/-- `mkStreams` are clean, open streams whose contents are the children's items -/
theorem mkStreams_spec (cs : List (Chan α)) (i : Nat) :
    All2 (fun c s => s.content = Chan.items c ∧ (Chan.clean c = true → s.Ok) ∧ s.closed = false)
      cs ((cs.zipIdx i).map (fun p => mkStream p.2 p.1)) := by
  induction cs generalizing i with
  | nil => exact .nil
  | cons c rest ih =>
    simp only [List.zipIdx_cons, List.map_cons]
    exact .cons ⟨mkStream_content _ c, mkStream_ok _ c, rfl⟩ (ih (i + 1))

/-- **fastPathUnion**: for every batch threshold, the batches sent are error free and their concatenation
is the strictly ascending list of the object ids carried by at least one child. -/
theorem fastPathUnion_spec (thr : Nat) (cs : List (Chan α))
    (hclean : ∀ c ∈ cs, Chan.clean c = true) (hsorted : ∀ c ∈ cs, Sorted (Chan.items c)) :
    ∃ out, fastPathUnion thr cs = some out ∧ Chan.clean out = true ∧ Sorted (Chan.items out) ∧
      ∀ x, x ∈ Chan.items out ↔ ∃ c ∈ cs, x ∈ Chan.items c := by
  unfold fastPathUnion
  apply unionLoop_spec thr (fun x => ∃ c ∈ cs, x ∈ Chan.items c)
  · have hmk := mkStreams_spec cs 0
    refine ⟨?_, ?_, rfl, List.Pairwise.nil, (fun e he => by cases he), ?_⟩
    · intro s hs
      obtain ⟨c, hc, h1, h2, h3⟩ := forall₂_mem_right hmk hs
      exact ⟨h2 (hclean c hc), h3⟩
    · intro s hs
      obtain ⟨c, hc, h1, _, _⟩ := forall₂_mem_right hmk hs
      rw [h1]; exact hsorted c hc
    · intro x
      constructor
      · rintro (hx | ⟨s, hs, hx⟩)
        · cases hx
        · obtain ⟨c, hc, h1, _, _⟩ := forall₂_mem_right hmk hs
          exact ⟨c, hc, h1 ▸ hx⟩
      · rintro ⟨c, hc, hx⟩
        obtain ⟨s, hs, h1, _, _⟩ := forall₂_mem_left hmk hc
        exact .inr ⟨s, hs, h1.symm ▸ hx⟩
  · unfold fuelFor; omega

end union

end OpenFGAVerif.Weight2
