/-
C01 — Check decisions match the model's relation semantics.

The engine model (`Model.CheckV1` over `Model.Dfs`) is proved sound against the stratified
least-fixpoint semantics (`Spec.BoolSys`) for **every** model, tuple set (stored and contextual, with
conditions, leftovers filtered by the validity predicate), request, depth limit and goroutine
schedule.  The general theorem is `Proofs.DfsSound.eval_sound`; this file instantiates it for the
Check engine and records what is *not* true of the unchanged code (findings F1, F12).
-/
import OpenFGAVerif.Model.CheckV1
import OpenFGAVerif.Proofs.DfsSound
import OpenFGAVerif.Gen.CheckV1

namespace OpenFGAVerif.C01
open OpenFGAVerif.BoolSys OpenFGAVerif.Dfs OpenFGAVerif.CheckV1

/-- The relation holds definitely / possibly under the least-fixpoint semantics of the world's rules. -/
def SemDef (w : World) (I : Interp Node) : Prop := HoldsD (sysOf w) I [] (rootExpr w)
def SemPoss (w : World) (I : Interp Node) : Prop := HoldsP (sysOf w) I [] (rootExpr w)

/-- evaluation against the empty executable cache is evaluation without cache -/
theorem eval_noCache {N : Type} {sys : Sys N} {maxDepth d : Nat} {V : List N} {e : Expr N} {o : Out}
    (h : Eval sys (fun n b => (noCache : N → Option Bool) n = some b) maxDepth d V e o) :
    Eval sys noFacts maxDepth d V e o := by
  induction h with
  | abort e => exact .abort e
  | lit v => exact .lit v
  | node_hit _ _ _ hf => simp [noCache] at hf
  | node_depth dispatch n h => exact .node_depth dispatch n h
  | node_cycle dispatch n h hm => exact .node_cycle dispatch n h hm
  | node_eval dispatch n o h hm _ ih => exact .node_eval dispatch n o h hm ih
  | or es outs arr hl _ hp ih => exact .or es outs arr hl ih hp
  | and es outs arr hl _ hp ih => exact .and es outs arr hl ih hp
  | diff b s ob os bf _ _ ihb ihs => exact .diff b s ob os bf ihb ihs
  | diff_ideal b s ob os bf _ _ ihb ihs => exact .diff_ideal b s ob os bf ihb ihs

/-- **C01, every schedule.** Whatever order the goroutines deliver results in, an untainted decision of
the engine is the semantics: `allowed = true` ⇒ the relation definitely holds, `allowed = false` ⇒ it
does not even possibly hold (so an unevaluable condition never yields `true`, and `false` is only
returned when the rest of the expression decides).  Errors (depth limit, condition errors, cancellation)
claim nothing. -/
theorem check_sound_all_schedules (w : World) (I : Interp Node) (hc : Coherent (sysOf w) I)
    (maxDepth : Nat) (a c : Bool)
    (h : Eval (sysOf w) noFacts maxDepth 0 [] (rootExpr w) (.ok a c false)) :
    (a = true → SemDef w I) ∧ (a = false → ¬ SemPoss w I) :=
  eval_root_sound (sysOf w) I hc (fun _ _ h => h.elim) h

/-- the executable model used in the correspondence is one of those schedules -/
theorem check_sound (w : World) (I : Interp Node) (hc : Coherent (sysOf w) I)
    (maxDepth fuel : Nat) (sc : Sched) (a c : Bool) (h : check w maxDepth sc fuel noCache = .ok a c false) :
    (a = true → SemDef w I) ∧ (a = false → ¬ SemPoss w I) := by
  apply check_sound_all_schedules w I hc maxDepth a c
  have := evalF_eval (sysOf w) maxDepth sc noCache fuel 0 [] (rootExpr w)
  unfold check at h
  rw [h] at this
  exact eval_noCache this

/-- The reference oracle of the driver (exact three-valued edges, subtract operands on a fresh path):
its untainted answers are the semantics of the reference rules. -/
theorem oracle_sound (w : World) (I : Interp Node) (hc : Coherent (idealSys w) I)
    (maxDepth fuel : Nat) (a c : Bool)
    (h : evalF (idealSys w) maxDepth { ideal := true } noCache fuel 0 [] (rootExpr w) = .ok a c false) :
    (a = true → HoldsD (idealSys w) I [] (rootExpr w)) ∧ (a = false → ¬ HoldsP (idealSys w) I [] (rootExpr w)) := by
  apply eval_root_sound (idealSys w) I hc (facts := fun n b => noCache n = some b) (fun _ _ h => by simp [noCache] at h)
    (maxDepth := maxDepth) (c := c)
  have := evalF_eval (idealSys w) maxDepth { ideal := true } noCache fuel 0 [] (rootExpr w)
  rw [h] at this
  exact this

/-- Two untainted decisions of the same request never disagree, whatever the schedules and the depth
limits: the answer does not depend on arrival order (this is also the C02 statement for the default
strategy). -/
theorem decisions_agree (w : World) (I : Interp Node) (hc : Coherent (sysOf w) I)
    (hcons : ∀ s, I.negD s → I.negP s)
    (d1 d2 : Nat) (a1 c1 a2 c2 : Bool)
    (h1 : Eval (sysOf w) noFacts d1 0 [] (rootExpr w) (.ok a1 c1 false))
    (h2 : Eval (sysOf w) noFacts d2 0 [] (rootExpr w) (.ok a2 c2 false)) : a1 = a2 := by
  have s1 := check_sound_all_schedules w I hc d1 a1 c1 h1
  have s2 := check_sound_all_schedules w I hc d2 a2 c2 h2
  have dp : SemDef w I → SemPoss w I := by
    intro hd
    unfold SemDef SemPoss at *
    have key : ∀ e, Holds leafD I.negD (D (sysOf w) I []) e → Holds leafP I.negP (P (sysOf w) I []) e := by
      intro e he
      induction he with
      | lit hv => exact .lit (leafD_imp_leafP hv)
      | node hn => exact .node (D_sub_P (sysOf w) I hcons [] _ hn)
      | or hm _ ih => exact .or hm ih
      | and _ ih => exact .and ih
      | diff _ hn ih => exact .diff ih (hcons _ hn)
    exact key _ hd
  cases a1 <;> cases a2 <;> try rfl
  · exact absurd (dp (s2.1 rfl)) (s1.2 rfl)
  · exact absurd (dp (s1.1 rfl)) (s2.2 rfl)

/-! ## What is false of the unchanged code

The full statement — *every* decision, tainted or not, is the semantics — does not hold: -/

/-- the full-strength statement -/
def C01_Full : Prop :=
  ∀ (w : World) (I : Interp Node), Coherent (sysOf w) I → ∀ (maxDepth : Nat) (a c t : Bool),
    Eval (sysOf w) noFacts maxDepth 0 [] (rootExpr w) (.ok a c t) →
    (a = true → SemDef w I) ∧ (a = false → ¬ SemPoss w I)

/-- F1 at the reducer: base `true`, subtracted operand `false` *with the cycle flag* ⇒ the code denies
(in both arrival orders).  The flag only says the `false` was cut by the path; the operand is false. -/
theorem f1_exclusion_denies_on_cycle_flag (bf : Bool) :
    exclR bf (.ok true false false) (.ok false true false) = .ok false true true := by
  cases bf <;> decide

/-- F12 at the leaf: a swallowed condition error evaluates to a plain `false`, which an enclosing
`exclusion` turns into `allowed = true`. -/
theorem f12_swallowed_error_yields_true (bf : Bool) :
    exclR bf (.ok true false false) (leafOut .errSw) = .ok true false true := by
  cases bf <;> decide

/-- the cycle flag returned by `intersection` depends on the arrival order (F2) … -/
theorem f2_intersection_flag_order_dependent :
    interR [.ok false true false, .ok false false false] ≠ interR [.ok false false false, .ok false true false] := by
  decide

/-- … and so does the flag of `exclusion` (F10). -/
theorem f10_exclusion_flag_order_dependent :
    exclR true (.ok false false false) (.ok false true false) ≠ exclR false (.ok false false false) (.ok false true false) := by
  decide

/-! ## Ties to the regenerated source facts (`Gen.CheckV1`, extract/facts_checkv1.go)

The reducers `unionR` / `interR` / `exclR`, the node rule of `Eval` and the error tail of `kidsOf` were
written against exactly these decision tables; a change of a condition, of the order of the tests or of
the depth bookkeeping in the Go source makes one of these `decide`s fail. -/

theorem tie_union_loop : Gen.CheckV1.unionConds =
    ["!ok", "outcome.err != nil", "outcome.resp.GetResolutionMetadata().CycleDetected", "outcome.resp.Allowed",
     "post:ctx.Err() != nil", "post:finalErr != nil"] := by decide

theorem tie_consume_dispatches_loop : Gen.CheckV1.consumeDispatchesConds =
    ["!ok", "outcome.err != nil", "outcome.resp.GetResolutionMetadata().CycleDetected", "outcome.resp.Allowed",
     "ctx.Err() != nil", "finalErr != nil"] := by decide

theorem tie_intersection_loop : Gen.CheckV1.intersectionConds =
    ["!ok", "outcome.err != nil", "finalErr == nil",
     "outcome.resp.GetResolutionMetadata().CycleDetected || !outcome.resp.Allowed",
     "post:len(handlers) < 2", "post:ctx.Err() != nil", "post:finalErr != nil"] := by decide

theorem tie_exclusion_loop : Gen.CheckV1.exclusionConds =
    ["!ok", "res.err != nil", "res.resp.GetCycleDetected() || !res.resp.GetAllowed()",
     "!ok", "res.err != nil", "res.resp.GetCycleDetected() || res.resp.GetAllowed()",
     "post:len(handlers) != 2", "post:ctx.Err() != nil", "post:baseErr != nil", "post:subErr != nil"] := by decide

theorem tie_resolve_check_guards : Gen.CheckV1.resolveCheckGuards =
    ["ctx.Err() != nil", "req.GetRequestMetadata().Depth == c.maxResolutionDepth", "cycle := c.hasCycle(req)", "cycle",
     "tuple.IsSelfDefining(req.GetTupleKey())", "!ok", "!ok", "err != nil",
     "hasPath, err := typesys.PathExists(tupleKey.GetUser(), relation, objectType)", "err != nil", "!hasPath",
     "resp, err = c.CheckRewrite(ctx, req, rel.GetRewrite())(ctx)", "err != nil"] := by decide

theorem tie_check_direct_handlers : Gen.CheckV1.checkDirectHandlers =
    ["checkDirectUserTuple", "checkPublicAssignable", "checkDirectUsersetTuples"] := by decide

theorem tie_conditions_filter_end_rule : Gen.CheckV1.conditionsFilteredNextConds =
    ["err != nil", "errors.Is(err, ErrIteratorDone)", "f.onceValid || f.lastError == nil", "err != nil", "!valid"] := by decide

theorem tie_depth_bookkeeping :
    Gen.CheckV1.dispatchIncrementsDepth = true ∧ Gen.CheckV1.computedUsersetDoesNotDispatch = true ∧
    Gen.CheckV1.hasCycleIsPathSet = true := by decide

/-! ## Non-vacuity: a concrete coherent interpretation and a concrete sound run -/

/-- a one-node system: `n` holds iff a direct tuple exists; no negation, so any interpretation whose
negations are read off the semantics is coherent — here built explicitly. -/
def toySys : Sys Nat := { rule := fun n => if n = 0 then .or [.lit .tt, .node true 1] else .lit .ff }

example : Eval toySys noFacts 25 0 [] (.node false 0) (.ok true false false) := by
  refine .node_eval false 0 _ (by decide) (by simp) ?_
  show Eval toySys noFacts 25 0 [0] (.or [.lit .tt, .node true 1]) (unionR [.ok true false false, .ok false false false])
  refine .or _ [.ok true false false, .ok false false false] _ rfl ?_ (List.Perm.refl _)
  intro i h1 h2
  match i, h1, h2 with
  | 0, _, _ => exact .lit .tt
  | 1, _, _ =>
    refine .node_eval true 1 _ (by decide) (by simp) ?_
    exact .lit .ff

end OpenFGAVerif.C01
