/-
C02 — Check answers do not depend on strategy or tuning.

What is proved here, for all inputs:
  * the answer *class* (true / false / error) of each reducer is a function of the multiset of its
    children's outcomes — invariant under every arrival order (breadth limit, read concurrency and
    throttling only change arrival orders) — `unionR_class_perm`, `interR_class_perm`, `exclR_class_order`;
  * two untainted decisions of the same request agree for all schedules and depth limits
    (`C01.decisions_agree`, re-stated as `answers_schedule_independent`);
  * what is *not* invariant: the CycleDetected flag of `intersection` and `exclusion` (F2, F10), which an
    enclosing `exclusion` and the query cache read.
The weight-two and recursive strategies are tied by correspondence only (forced through an injected
planner, compared with the proven-sound oracle); see DESIGN.md §7 C02.
-/
import OpenFGAVerif.Props.C01

namespace OpenFGAVerif.C02
open OpenFGAVerif.BoolSys OpenFGAVerif.Dfs OpenFGAVerif.CheckV1

/-- answer class of an outcome: `some b` = decision, `none` = error -/
def cls : Out → Option Bool
  | .ok a _ _ => some a
  | .err _ => none

def isTrue : Out → Bool
  | .ok true _ _ => true
  | _ => false

def isErr : Out → Bool
  | .err _ => true
  | _ => false

/-- an outcome that makes `intersection` answer `false`: not allowed, or carrying the cycle flag -/
def isFalsy : Out → Bool
  | .ok a c _ => c || !a
  | .err _ => false

theorem unionGo_class (arr : List Out) (fe : Option ErrKind) (cyc tnt : Bool) :
    cls (unionGo arr fe cyc tnt) =
      if arr.any isTrue then some true else if fe.isSome || arr.any isErr then none else some false := by
  induction arr generalizing fe cyc tnt with
  | nil => cases fe <;> simp [unionGo, cls]
  | cons o rest ih =>
    cases o with
    | err e => simp [unionGo, ih, isTrue, isErr]
    | ok a c t =>
      cases a with
      | true => simp [unionGo, cls, isTrue]
      | false => simp [unionGo, ih, isTrue, isErr]

/-- **union / consumeDispatches**: `true` iff some child is `true`; otherwise an error iff some child
failed; otherwise `false`. -/
theorem unionR_class (arr : List Out) :
    cls (unionR arr) = if arr.any isTrue then some true else if arr.any isErr then none else some false := by
  simpa [unionR] using unionGo_class arr none false false

theorem unionR_class_perm {a1 a2 : List Out} (h : a1.Perm a2) : cls (unionR a1) = cls (unionR a2) := by
  rw [unionR_class, unionR_class, h.any_eq, h.any_eq]

theorem interGo_class (arr : List Out) (fe : Option ErrKind) (tnt : Bool) :
    cls (interGo arr fe tnt) =
      if arr.any isFalsy then some false else if fe.isSome || arr.any isErr then none else some true := by
  induction arr generalizing fe tnt with
  | nil => cases fe <;> simp [interGo, cls]
  | cons o rest ih =>
    cases o with
    | err e => cases fe <;> simp [interGo, ih, isFalsy, isErr, Option.orElse]
    | ok a c t =>
      cases a with
      | false => cases c <;> simp [interGo, cls, isFalsy]
      | true =>
        cases c with
        | true => simp [interGo, cls, isFalsy]
        | false =>
          have : interGo (.ok true false t :: rest) fe tnt = interGo rest fe (tnt || t) := by simp [interGo]
          rw [this, ih]
          simp [isFalsy, isErr]

/-- **intersection**: `false` iff some child is `false` (or flagged); otherwise an error iff some child
failed; otherwise `true`. -/
theorem interR_class (arr : List Out) :
    cls (interR arr) =
      if arr.length < 2 then none
      else if arr.any isFalsy then some false else if arr.any isErr then none else some true := by
  unfold interR
  split
  · simp [cls]
  · simpa using interGo_class arr none false

theorem interR_class_perm {a1 a2 : List Out} (h : a1.Perm a2) : cls (interR a1) = cls (interR a2) := by
  rw [interR_class, interR_class, h.any_eq, h.any_eq, h.length_eq]

/-- **exclusion**: the class does not depend on which goroutine reports first. -/
theorem exclR_class_order (b s : Out) : cls (exclR true b s) = cls (exclR false b s) := by
  cases b with
  | err e => cases s with
    | err e2 => simp [exclR, exclBase, exclSub, cls]
    | ok a2 c2 t2 => cases a2 <;> cases c2 <;> simp [exclR, exclBase, exclSub, cls]
  | ok a1 c1 t1 => cases s with
    | err e2 => cases a1 <;> cases c1 <;> simp [exclR, exclBase, exclSub, cls]
    | ok a2 c2 t2 => cases a1 <;> cases c1 <;> cases a2 <;> cases c2 <;> simp [exclR, exclBase, exclSub, cls]

/-- **Answers are schedule independent** (default strategy, every breadth limit / concurrency setting /
throttling, i.e. every arrival order; also every pair of depth limits): two untainted decisions of the
same request are equal. -/
theorem answers_schedule_independent (w : World) (I : Interp Node) (hc : Coherent (sysOf w) I)
    (hcons : ∀ s, I.negD s → I.negP s) (d1 d2 : Nat) (a1 c1 a2 c2 : Bool)
    (h1 : Eval (sysOf w) noFacts d1 0 [] (rootExpr w) (.ok a1 c1 false))
    (h2 : Eval (sysOf w) noFacts d2 0 [] (rootExpr w) (.ok a2 c2 false)) : a1 = a2 :=
  C01.decisions_agree w I hc hcons d1 d2 a1 c1 a2 c2 h1 h2

/-- the full statement of C02 for the default strategy: *all* decisions agree -/
def C02_Full : Prop :=
  ∀ (w : World) (d1 d2 : Nat) (a1 c1 t1 a2 c2 t2 : Bool),
    Eval (sysOf w) noFacts d1 0 [] (rootExpr w) (.ok a1 c1 t1) →
    Eval (sysOf w) noFacts d2 0 [] (rootExpr w) (.ok a2 c2 t2) → a1 = a2

/-- why it fails on the unchanged code (F2 composed with F1): the flag of `intersection` depends on the
arrival order, and an enclosing `exclusion` turns the flag into a decision. -/
theorem f2_flag_flips_enclosing_exclusion :
    cls (exclR true (.ok true false false) (interR [.ok false true false, .ok false false false])) ≠
    cls (exclR true (.ok true false false) (interR [.ok false false false, .ok false true false])) := by
  decide

/-! non-vacuity of the class characterisations -/
example : cls (unionR [.err .cond, .ok false true false, .ok true false false]) = some true := by decide
example : cls (unionR [.ok true false false, .err .cond, .ok false true false]) = some true := by decide
example : cls (interR [.err .cond, .ok false false false]) = some false := by decide

end OpenFGAVerif.C02
