/-
C02, second part — the two fast-path strategies of the default Check engine.

Stream level (`Model/Weight2Streams.lean`, proofs in `Proofs/Weight2{Basic,Prims,Union,Inter,Diff}.lean`):
  `Weight2.fastPathUnion_spec`, `fastPathIntersection_spec`, `fastPathDifference_spec` — for every batch
  threshold and every batching of the inputs the concatenation of the emitted batches is the strictly
  ascending union / intersection / difference of the (clean, strictly ascending) input streams.
Set level (`Model/Weight2.lean`, `Proofs/Weight2{Leaf,Sem,Consumer}.lean`):
  `Weight2.leftChan_good` — weight-one rewrites, repaired filter order: the channel of `fastPathRewrite`
  carries exactly the objects on which the subject holds the relation (definite = possible semantics);
  `Weight2.f9_leaf_witness` — the code's filter order loses an object;
  `Weight2.consumeLoop_T`, `consumeLoop_F`, `cancelled_empty_left_never_F`, `cancelled_nonempty_left_can_F`
  — the consumer loop of `weight2` for every schedule, with cancellation.
This file: the ties of the models' constants to the extracted source facts, and the statements that
combine the parts.
-/
import OpenFGAVerif.Props.C02Ties
import OpenFGAVerif.Proofs.StrategyAgree
import OpenFGAVerif.Proofs.RecursiveSem

namespace OpenFGAVerif.C02
open OpenFGAVerif.Weight2 OpenFGAVerif.RecursiveV1 OpenFGAVerif.Vocab OpenFGAVerif.CheckV1 OpenFGAVerif.BoolSys OpenFGAVerif.Dfs

/-- the default batch threshold and the stream indices of `fastPathDifference` used by the model are the
constants of `weight_two_resolver.go` -/
theorem tie_weight2_constants :
    ({} : Weight2.Cfg).thr = Gen.Strategies.iteratorMinBatchThreshold ∧
    Gen.Strategies.baseIndex = 0 ∧ Gen.Strategies.differenceIndex = 1 := by decide

/-- non-vacuity of the stream specifications: three batches of a union across the threshold -/
example : (fastPathUnion 2 [[.iter { items := [1, 3, 5] }, .iter { items := [7, 9] }],
    [.iter { items := [2, 3] }, .iter { items := [] }, .iter { items := [9, 10, 11, 12] }]]).map Chan.items =
    some [1, 2, 3, 5, 7, 9, 10, 11, 12] := by decide

example : (fastPathDifference 2 0 1 [.iter { items := [1, 3, 5] }, .iter { items := [7, 9, 13, 14, 15, 16, 17] }]
    [.iter { items := [2, 3] }, .iter { items := [] }, .iter { items := [9, 10, 11, 12] }]).map Chan.items =
    some [1, 5, 7, 13, 14, 15, 16, 17] := by decide

/-! ## strategy_agree -/

/-- outcome of a fast-path handler as the reducers see it (no cycle flag; untainted because the hypotheses
exclude unevaluable conditions) -/
def ansOut : Ans → Out
  | .T => .ok true false false
  | .F => .ok false false false
  | .E => .err .cond
  | .cancelled => .err .abort

/-- "the planner resolved the userset handler of `(o, r)` for the restriction `x` with the weight-two
strategy (offered: `w1Rel`), the left-hand messages arrived in some order, the consumer loop ran under some
schedule without cancellation, and the handler returned `o`" — repaired filter order. `plan` says for which
planner keys (object type and relation, restriction) the strategy is chosen. -/
def W2Fast (w : World) (thr : Nat) (plan : String → String → Restr → Bool) (e : Expr Node) (out : Out) : Prop :=
  ∃ (o r : String) (x : Restr) (c leftQ : Chan String) (sched : List Pick) (a : Ans),
    plan (typeOf o) r x = true ∧ w1Rel w x.typ x.rel = true ∧ e = usersetHandler w o r [x] ∧
    usersetLefts w { order := .repaired, thr := thr } x = [.chan c false] ∧ leftQ.Perm c ∧
    Pick.cancel ∉ sched ∧ consume sched leftQ (usersetRight w o r x) false = some a ∧ out = ansOut a

/-- the standing hypotheses of the set-level theorems -/
structure Hyps (w : World) : Prop where
  code : w.ideal = false
  subject : ConcreteSubject w
  noCondErr : NoCondErr w
  noDupKeys : NoDupKeys w
  ctxSorted : CtxSorted w

theorem weight2_fastSound (w : World) (h : Hyps w) (I : Interp Node) (hc : Coherent (sysOf w) I) (thr : Nat)
    (plan : String → String → Restr → Bool) : FastSound (sysOf w) I (W2Fast w thr plan) := by
  rintro e out ⟨o, r, x, c, leftQ, sched, a, _, hw1, rfl, hl, hperm, hnc, hcons, rfl⟩
  obtain ⟨c', hl', hsem⟩ := weight2Userset_sem w h.code h.subject h.noCondErr h.noDupKeys h.ctxSorted I hc thr o r x hw1
  have hcc : c' = c := by
    rw [hl] at hl'
    simp only [List.cons.injEq, LeftR.chan.injEq, and_true] at hl'
    exact hl'.symm
  subst hcc
  obtain ⟨hT, hF⟩ := hsem leftQ hperm sched
  refine ⟨?_, ?_, ?_, ?_⟩
  · intro c t ho; cases a <;> simp [ansOut] at ho; exact ho.1
  · intro ho; cases a <;> simp [ansOut] at ho; exact hT hcons
  · intro c ho; cases a <;> simp [ansOut] at ho; exact ho
  · intro ho; cases a <;> simp [ansOut] at ho; exact hF hnc hcons

/-- the same for a tuple-to-userset handler `… cr from ts` on `o` (offered: every parent type that has the
relation `cr` is weight one for the subject's type) -/
def W2FastT (w : World) (thr : Nat) (plan : String → String → String → Bool) (e : Expr Node) (out : Out) : Prop :=
  ∃ (o ts cr : String) (rdts : RelDef) (cs : List (Chan String)) (leftQ : Chan String) (sched : List Pick) (a : Ans),
    plan (typeOf o) ts cr = true ∧ w.model.findRel (typeOf o) ts = some rdts ∧
    w.model.isTuplesetRelation (typeOf o) ts = true ∧
    (∀ p ∈ rdts.restrs, (w.model.findRel p.typ cr).isSome = true → w1Rel w p.typ cr = true) ∧
    e = ttuExpr w o ts cr ∧
    ttuLefts w { order := .repaired, thr := thr } (typeOf o) ts cr = some (cs.map (fun c => LeftR.chan c false)) ∧
    leftQ.Perm cs.flatten ∧ Pick.cancel ∉ sched ∧ consume sched leftQ (ttuRight w o ts) false = some a ∧ out = ansOut a

theorem weight2TTU_fastSound (w : World) (h : Hyps w) (hwf : WfUsers w) (I : Interp Node) (hc : Coherent (sysOf w) I)
    (thr : Nat) (plan : String → String → String → Bool) : FastSound (sysOf w) I (W2FastT w thr plan) := by
  rintro e out ⟨o, ts, cr, rdts, cs, leftQ, sched, a, _, hts, htsr, hw1, rfl, hl, hperm, hnc, hcons, rfl⟩
  obtain ⟨cs', hl', hsem⟩ := weight2TTU_sem w h.code h.subject h.noCondErr h.noDupKeys h.ctxSorted I hc thr o ts cr rdts
    hts htsr hwf hw1
  have hcc : cs' = cs := by
    rw [hl] at hl'
    simp only [Option.some.injEq] at hl'
    have hinj : ∀ (l1 l2 : List (Chan String)), l1.map (fun c => LeftR.chan c false) = l2.map (fun c => LeftR.chan c false) → l1 = l2 := by
      intro l1
      induction l1 with
      | nil => intro l2 h; cases l2 with | nil => rfl | cons _ _ => simp at h
      | cons a as ih =>
        intro l2 h
        cases l2 with
        | nil => simp at h
        | cons b bs =>
          simp only [List.map_cons, List.cons.injEq, LeftR.chan.injEq, and_true] at h
          rw [h.1, ih bs h.2]
    exact (hinj cs cs' hl').symm
  subst hcc
  obtain ⟨hT, hF⟩ := hsem leftQ hperm sched
  refine ⟨?_, ?_, ?_, ?_⟩
  · intro c t ho; cases a <;> simp [ansOut] at ho; exact ho.1
  · intro ho; cases a <;> simp [ansOut] at ho; exact hT hcons
  · intro c ho; cases a <;> simp [ansOut] at ho; exact ho
  · intro ho; cases a <;> simp [ansOut] at ho; exact hF hnc hcons

/-- **strategy_agree** (weight-two userset handlers, repaired filter order, no unevaluable conditions):
for every two planner assignments, every pair of schedules (of the reducers, of the fan-in, of the consumer
loops), every pair of depth limits and every batch threshold, two untainted decisions of the same request
are equal. -/
theorem strategy_agree_partial (w : World) (h : Hyps w) (I : Interp Node) (hc : Coherent (sysOf w) I)
    (hcons : ∀ s, I.negD s → I.negP s) (thr1 thr2 : Nat) (plan1 plan2 : String → String → Restr → Bool)
    (d1 d2 : Nat) (a1 c1 a2 c2 : Bool)
    (h1 : EvalP (sysOf w) (W2Fast w thr1 plan1) d1 0 [] (rootExpr w) (.ok a1 c1 false))
    (h2 : EvalP (sysOf w) (W2Fast w thr2 plan2) d2 0 [] (rootExpr w) (.ok a2 c2 false)) : a1 = a2 :=
  evalP_decisions_agree (sysOf w) I hc hcons (weight2_fastSound w h I hc thr1 plan1) (weight2_fastSound w h I hc thr2 plan2) h1 h2

/-- in particular the plan "never weight-two" is the default strategy: every weight-two decision agrees
with every default decision -/
theorem weight2_agrees_with_default (w : World) (h : Hyps w) (I : Interp Node) (hc : Coherent (sysOf w) I)
    (hcons : ∀ s, I.negD s → I.negP s) (thr : Nat) (plan : String → String → Restr → Bool)
    (d1 d2 : Nat) (a1 c1 a2 c2 : Bool)
    (h1 : EvalP (sysOf w) (W2Fast w thr plan) d1 0 [] (rootExpr w) (.ok a1 c1 false))
    (h2 : EvalP (sysOf w) (W2Fast w thr (fun _ _ _ => false)) d2 0 [] (rootExpr w) (.ok a2 c2 false)) : a1 = a2 :=
  strategy_agree_partial w h I hc hcons thr thr plan (fun _ _ _ => false) d1 d2 a1 c1 a2 c2 h1 h2


/-! ## the recursive strategy -/

/-- "the planner resolved the userset handler of the recursive-capable relation `rel` on `o` (offered:
`recRel`) with the recursive strategy at depth `d` under depth limit `maxDepth`, and it returned `out`" —
repaired edge set (only `typ#rel` usersets are followed: S1), repaired filter order. -/
def RecFast (w : World) (thr : Nat) (plan : String → String → Bool) (e : Expr Node) (out : Out) : Prop :=
  ∃ (o rel : String) (rd : RelDef) (maxDepth d : Nat),
    plan (typeOf o) rel = true ∧ w.model.findRel (typeOf o) rel = some rd ∧ recRel w (typeOf o) rel = true ∧
    e = usersetHandler w o rel (rd.restrs.filter (fun x => x.rel ≠ "")) ∧
    out ∈ recursive w (cfgR thr) .userset o rel maxDepth d

theorem recursive_fastSound (w : World) (h : Hyps w) (I : Interp Node) (hc : Coherent (sysOf w) I) (thr : Nat)
    (plan : String → String → Bool) : FastSound (sysOf w) I (RecFast w thr plan) := by
  rintro e out ⟨o, rel, rd, maxDepth, d, _, hrd, hrec, rfl, hout⟩
  obtain ⟨h1, h2, h3, h4⟩ := recursive_sem w h.code h.subject h.noCondErr h.noDupKeys h.ctxSorted I hc thr
    (typeOf o) rel rd hrd o rfl hrec maxDepth d out hout
  exact ⟨h1, fun ho => h2 false false ho, h3, fun ho => h4 false false ho⟩

/-- either fast path -/
def Fast (w : World) (thr : Nat) (planW : String → String → Restr → Bool) (planR : String → String → Bool)
    (planT : String → String → String → Bool) (e : Expr Node) (out : Out) : Prop :=
  W2Fast w thr planW e out ∨ RecFast w thr planR e out ∨ W2FastT w thr planT e out

theorem fast_sound (w : World) (h : Hyps w) (hwf : WfUsers w) (I : Interp Node) (hc : Coherent (sysOf w) I) (thr : Nat)
    (planW : String → String → Restr → Bool) (planR : String → String → Bool) (planT : String → String → String → Bool) :
    FastSound (sysOf w) I (Fast w thr planW planR planT) := by
  rintro e out (hf | hf | hf)
  · exact weight2_fastSound w h I hc thr planW e out hf
  · exact recursive_fastSound w h I hc thr planR e out hf
  · exact weight2TTU_fastSound w h hwf I hc thr planT e out hf

/-- **strategy_agree**: for every two planner assignments (which userset handlers are resolved by the
weight-two strategy, which recursive-capable relations by the recursive strategy — restricted by the
applicability predicates `w1Rel` / `recRel`), every pair of schedules (reducers, fan-in, consumer loops),
every pair of depth limits and batch thresholds, two untainted decisions of the same request are equal.
Partial: repaired filter order (F9), repaired edge set of the recursive strategy (S1), no unevaluable
conditions, at most one tuple per key, concrete subject, well-formed user strings; the tuple-to-userset form
of the recursive strategy (`recursiveTTU`) is tied by correspondence only. -/
theorem strategy_agree (w : World) (h : Hyps w) (hwf : WfUsers w) (I : Interp Node) (hc : Coherent (sysOf w) I)
    (hcons : ∀ s, I.negD s → I.negP s) (thr1 thr2 : Nat)
    (planW1 planW2 : String → String → Restr → Bool) (planR1 planR2 : String → String → Bool)
    (planT1 planT2 : String → String → String → Bool) (d1 d2 : Nat) (a1 c1 a2 c2 : Bool)
    (h1 : EvalP (sysOf w) (Fast w thr1 planW1 planR1 planT1) d1 0 [] (rootExpr w) (.ok a1 c1 false))
    (h2 : EvalP (sysOf w) (Fast w thr2 planW2 planR2 planT2) d2 0 [] (rootExpr w) (.ok a2 c2 false)) : a1 = a2 :=
  evalP_decisions_agree (sysOf w) I hc hcons (fast_sound w h hwf I hc thr1 planW1 planR1 planT1)
    (fast_sound w h hwf I hc thr2 planW2 planR2 planT2) h1 h2

/-- `strategy_agree` for stratified worlds: no hypothesis on the interpretation is left -/
theorem strategy_agree_stratified (w : World) (h : Hyps w) (hwf : WfUsers w) (rk : Node → Nat) (hst : Stratified (sysOf w) rk)
    (thr1 thr2 : Nat) (planW1 planW2 : String → String → Restr → Bool) (planR1 planR2 : String → String → Bool)
    (planT1 planT2 : String → String → String → Bool) (d1 d2 : Nat) (a1 c1 a2 c2 : Bool)
    (h1 : EvalP (sysOf w) (Fast w thr1 planW1 planR1 planT1) d1 0 [] (rootExpr w) (.ok a1 c1 false))
    (h2 : EvalP (sysOf w) (Fast w thr2 planW2 planR2 planT2) d2 0 [] (rootExpr w) (.ok a2 c2 false)) : a1 = a2 :=
  strategy_agree w h hwf (stratInterp (sysOf w) rk) (coherent_of_stratified hst) (consistent_stratInterp _ rk)
    thr1 thr2 planW1 planW2 planR1 planR2 planT1 planT2 d1 d2 a1 c1 a2 c2 h1 h2

/-- The full statement for the recursive strategy: the same with the edge set of the code (`Strict.code`:
every userset restriction is followed, the userset mapper drops the relation).  False of the unchanged
engine (findings S1, S2, reproduced on the real code and by the correspondence model); not refuted here at
the level of worlds because the string functions of `Vocab` do not reduce in the kernel. -/
def C02_Recursive_Full : Prop :=
  ∀ (w : World) (thr : Nat) (o rel : String) (maxDepth d : Nat),
    recursive w { w2 := { order := .repaired, thr := thr }, strict := .code } .userset o rel maxDepth d =
    recursive w (cfgR thr) .userset o rel maxDepth d

/-- The full statement: the same with the filter order of the code (`Order.code`) and without the
hypotheses on conditions and duplicate keys.  It is false of the unchanged engine (finding F9, reproduced by
the correspondence; `f9_leaf_witness` is the model-level reason: the code's order and the repaired order
of the leaf differ on two rows). -/
def C02_Strategy_Full : Prop :=
  ∀ (rows : List Tuple) (valid : Tuple → Bool) (cond : Tuple → CondVal),
    (leafCore .code rows valid cond).it.items = (leafCore .repaired rows valid cond).it.items

theorem not_C02_Strategy_Full : ¬ C02_Strategy_Full := by
  intro h
  have := h f9Rows (fun _ => true) (fun t => if t.cond = "" then .tt else .ff)
  rw [f9_leaf_witness.1, f9_leaf_witness.2] at this
  cases this

/-! ## named ties (each is a consequence of a whole-skeleton tie of `Props/C02Ties.lean`; they name the
facts the models depend on most directly) -/

set_option maxRecDepth 8000 in
/-- the flush test `len(batch) > IteratorMinBatchThreshold` and the **fresh** batch after a flush
(`make([]string, 0)`, never `batch[:0]`: the sent slice is still read by the consumer) — in
`addNextItemInSliceStreamsToBatch` and in the drain loop of `fastPathDifference`; `item != ""` guards the append -/
theorem tie_batch_flush :
    ["0:if item != \"\"", "0:if len(batch) > IteratorMinBatchThreshold", "1:batch = make([]string, 0)"].all
      (fun l => Gen.Strategies.addNextItemSkel.contains l) = true ∧
    ["2:if len(batch) > IteratorMinBatchThreshold", "3:batch = make([]string, 0)", "2:batch = append(batch, items...)"].all
      (fun l => Gen.Strategies.fastPathDifferenceSkel.contains l) = true := by
  rw [Ties.tie_addNextItemSkel, Ties.tie_fastPathDifferenceSkel]
  decide

set_option maxRecDepth 8000 in
/-- the comparison operators and index guards of the three loops (`selMin`, `selMax`, `diffLoop`, `skipTo`) -/
theorem tie_loop_comparisons :
    ["2:if minObject == v", "2:else if minObject > v"].all (fun l => Gen.Strategies.fastPathUnionSkel.contains l) = true ∧
    ["1:if len(iterStreams) != childrenTotal", "2:if maxObject == v", "2:else if maxObject < v",
     "1:if len(itersWithEqualObject) == childrenTotal"].all (fun l => Gen.Strategies.fastPathIntersectionSkel.contains l) = true ∧
    ["1:if len(iterStreams) != 2", "1:if base == diff", "1:if diff > base",
     "0:if len(iterStreams) == 1 && iterStreams[BaseIndex].Idx() == BaseIndex"].all
      (fun l => Gen.Strategies.fastPathDifferenceSkel.contains l) = true ∧
    Gen.Strategies.streamSkipToTargetObjectSkel.contains "1:if t >= target" = true := by
  rw [Ties.tie_fastPathUnionSkel, Ties.tie_fastPathIntersectionSkel, Ties.tie_fastPathDifferenceSkel,
    Ties.tie_streamSkipToTargetObjectSkel]
  decide

set_option maxRecDepth 8000 in
/-- the visited key and the depth test of the breadth-first search (`RecursiveV1.bfs`) -/
theorem tie_bfs_visited_and_depth :
    ["0:req.GetRequestMetadata().Depth++", "0:if req.GetRequestMetadata().Depth == c.maxResolutionDepth",
     "1:_, visited := visitedUserset.LoadOrStore(userset, struct{}{})", "1:if visited"].all
      (fun l => Gen.Strategies.breadthFirstRecursiveMatchSkel.contains l) = true := by
  rw [Ties.tie_breadthFirstRecursiveMatchSkel]
  decide

set_option maxRecDepth 8000 in
/-- the applicability predicate of the weight-two TTU handler refuses (does not skip) a parent above weight two -/
theorem tie_ttu_weight2_refuses :
    ["4:if w > 2", "5:return false", "4:ttuEdges = append(ttuEdges, edge)"].all
      (fun l => Gen.Strategies.ttuUseWeight2ResolverSkel.contains l) = true := by
  rw [Ties.tie_ttuUseWeight2ResolverSkel]
  decide

/-! ## non-vacuity

The hypotheses of the world-level theorems (`Hyps`, `w1Rel`, `recRel`) mention the string functions of
`Spec/Vocab.lean`, which do not reduce in the kernel, so they cannot be instantiated by `decide` here; the
correspondence driver evaluates them on every generated case and tags the cases that satisfy them with
`-thm` (several hundred per quick run, see `evidence/C02.json`).  Below: the parts that can be instantiated. -/

/-- a consumer-loop state satisfying `CState.Wf`, a schedule without cancellation, answer `false` -/
example : ∃ st : CState, st.Wf ∧ st.ctxErr = false ∧
    consumeLoop [.left, .right, .left, .right] st = some .F :=
  ⟨{ leftQ := [.iter { items := ["group:a"] }], rightQ := ["group:c"], rightErr := false, rightSet := ["group:b"] },
   ⟨(fun h => by cases h), (fun h => by cases h), (fun u _ hu => by cases hu)⟩, rfl, by decide⟩

/-- … and one answering `true` -/
def exHit : CState :=
  { leftQ := [.iter { items := ["group:a", "group:b"] }], rightQ := [], rightErr := false, rightSet := ["group:b"] }

example : consumeLoop [.left] exHit = some .T := by decide

/-- a fast-path leaf inside an evaluation (`EvalP.fast`) with a sound fast relation -/
example : EvalP C01.toySys (fun e o => e = .lit .tt ∧ o = .ok true false false) 25 0 [] (.lit .tt) (.ok true false false) :=
  .fast _ _ ⟨rfl, rfl⟩

example (I : Interp Nat) : FastSound C01.toySys I (fun e o => e = .lit .tt ∧ o = .ok true false false) := by
  rintro e o ⟨rfl, rfl⟩
  exact ⟨(fun c t h => by cases h; rfl), (fun _ => .lit rfl), (fun c h => by cases h), (fun h => by cases h)⟩

end OpenFGAVerif.C02
