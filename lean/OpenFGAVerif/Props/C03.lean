/-
C03 — Weighted-graph Check agrees with the default engine.

What is proved here (machine-checked, unbounded):

  * `c03_object` (= `v2_eval_sound`): for every model graph, tuple set (stored and contextual, conditions),
    request, fuel and every producer/consumer schedule of the default strategy, an **untainted** decision of the
    modelled weighted-graph engine is the least-fixpoint semantics of the equation system it evaluates
    (`sysV2`: one equation per `ResolveUnion` call): `true` ⇒ definitely holds, `false` ⇒ does not even possibly
    hold.  The proof (`Proofs.DfsGSound.evalG_root_sound`) is the *shared-visited* argument: a region that comes
    back `false` leaves a set of dead sub-problems, and a dead set contains no true member (`closure`).
  * `shared_visited_sound` / `shared_visited_union_sound`: a global visited filter is sound (untainted decisions,
    every system) and — under faithful keys and evaluable conditions (`Proofs.DfsGClean.evalG_clean`: no outcome is
    ever tainted) — sound *and complete*.  Each hypothesis is necessary: `taint_key_collision_unsound` (colliding keys:
    on the real code finding V2-A, **fixed by commit 1d97cee**, tuple-to-userset keys are `parent#computed` now),
    `taint_swallowed_error_unsound` (finding V2-E, open).  The third hypothesis needed before 1d97cee — no tuple is
    dropped by the condition filter *after* it claimed its key (finding V2-B) — is gone: the model (`DfsG.pull`)
    follows the fixed order, `mark_after_condition_sound` is the former witness system, now answered correctly.
    The recursive strategy (`Recursive.buildTupleMapperForID`, not modelled step by step) had the old order until
    commit 11f1667 (finding V2-B(recursive), fixed): `tie_recursive_mapper_order`, crafted regression cases.
  * `prune_weight_consistent` / `prune_wildcard_consistent`: the pruning tests of `ResolveCheck` agree with what
    `FlattenNode` would leave, under the local well-formedness (`wfWeights`, `wfWildcards`) of the dumped graph.
  * `v2_reducers_spec`: the three receive loops as functions of the arrival sequence — union order independent,
    intersection "first error or false wins", exclusion "base error wins" (with the order-dependence witnesses
    that are the documented breaking changes).
  * `c03_shapes`: the two request-shape errors are produced exactly at an exclusion node: `ErrWildcardInvalidRequest`
    iff the request subject is a typed wildcard, `ErrUsersetInvalidRequest` iff the subject is a userset and the
    subtracted edge has no weight for it; an object subject never produces one.
  * the detector predicates of `v2breaking` as Lean functions (`Model.V2Breaking`, compared with the Go functions on
    every case by the driver) and the statement `C03_Detector`, which is **not** proved: the correspondence refutes
    it on the unchanged code (candidate finding V2-C), see the comment there.

Staging / what is assumed: `sysV2` is built from the weighted graph dumped from `github.com/openfga/language`
(trusted, data); pruning by weights is part of `sysV2` (an edge without weight is not an operand), so agreement of
`sysV2` with the reference semantics of C01 (`CheckV1.idealSys`) is the graph library's contract plus the
tuple-validity difference (V2-D, V1-G) and is checked by the correspondence against the reference oracle, not proved.
-/
import OpenFGAVerif.Model.CheckV2
import OpenFGAVerif.Model.V2Breaking
import OpenFGAVerif.Proofs.DfsGSound
import OpenFGAVerif.Proofs.DfsGClean
import OpenFGAVerif.Model.CheckV1
import OpenFGAVerif.Gen.CheckV2
import OpenFGAVerif.Props.ReqClone
import OpenFGAVerif.Props.ResolverKeys
import OpenFGAVerif.Props.V2Recursive

namespace OpenFGAVerif.C03
open OpenFGAVerif.BoolSys OpenFGAVerif.DfsG OpenFGAVerif.CheckV2 OpenFGAVerif.Vocab

/-! ## the equation system of the engine and evaluation soundness -/

/-- `CanApplyRecursion`'s `newstrategy` argument only selects the plan, never the edge -/
theorem canApplyRecursion_edge (g : Graph) (ut : String) (gn : GNode) (b : Bool) :
    (canApplyRecursion g ut gn b).1 = (canApplyRecursion g ut gn false).1 := by
  unfold canApplyRecursion
  split <;> rfl

/-- with the default strategy one step of `ResolveUnion` does not depend on whether the visited set exists -/
theorem rule_emptyCycle (w : World) (b : Bool) (n : VNode) : rule w b n = rule w false n := by
  unfold rule
  cases w.graph.node? n.g with
  | none => rfl
  | some gn => simp only [canApplyRecursion_edge w.graph w.ut gn b]

/-- the equation system evaluated by the weighted-graph engine: one equation per `ResolveUnion` call -/
def sysV2 (w : World) : Sys VNode := { rule := fun n => toExpr (rule w false n) }

def SemDef (w : World) (I : Interp VNode) : Prop := HoldsD (sysV2 w) I [] (toExpr (rootExpr w))
def SemPoss (w : World) (I : Interp VNode) : Prop := HoldsP (sysV2 w) I [] (toExpr (rootExpr w))

/-- **Evaluation soundness, every schedule of the default strategy.** -/
theorem v2_eval_sound (w : World) (I : Interp VNode) (hc : Coherent (sysV2 w) I)
    (policy : Nat → Nat → Bool) (fuel : Nat) :
    (VOut.ok true false ∈ (evalG (rule w) (seed w) policy fuel none (rootExpr w)).1 → SemDef w I) ∧
    (VOut.ok false false ∈ (evalG (rule w) (seed w) policy fuel none (rootExpr w)).1 → ¬ SemPoss w I) :=
  evalG_root_sound (sysV2 w) I (rule w) (seed w) policy
    (fun b n => by show toExpr (rule w b n) = toExpr (rule w false n); rw [rule_emptyCycle]) hc fuel (rootExpr w)

/-- **C03, object subjects (and every other subject), modelled engine**: the executable model used in the
correspondence (`checkSet`, producer at most `look` tuples ahead) only returns sound untainted decisions. -/
theorem c03_object (w : World) (I : Interp VNode) (hc : Coherent (sysV2 w) I) (look fuel : Nat) :
    (VOut.ok true false ∈ checkSet w look fuel → SemDef w I) ∧
    (VOut.ok false false ∈ checkSet w look fuel → ¬ SemPoss w I) :=
  v2_eval_sound w I hc (lookAhead look) fuel

/-- two untainted decisions of one request never disagree, whatever the schedules -/
theorem c03_decisions_agree (w : World) (I : Interp VNode) (hc : Coherent (sysV2 w) I)
    (hcons : ∀ s, I.negD s → I.negP s) (p1 p2 : Nat → Nat → Bool) (f1 f2 : Nat)
    (h1 : VOut.ok true false ∈ (evalG (rule w) (seed w) p1 f1 none (rootExpr w)).1)
    (h2 : VOut.ok false false ∈ (evalG (rule w) (seed w) p2 f2 none (rootExpr w)).1) : False := by
  have hd := (v2_eval_sound w I hc p1 f1).1 h1
  have hp := (v2_eval_sound w I hc p2 f2).2 h2
  apply hp
  unfold SemDef at hd
  unfold SemPoss
  have key : ∀ e, Holds leafD I.negD (D (sysV2 w) I []) e → Holds leafP I.negP (P (sysV2 w) I []) e := by
    intro e he
    induction he with
    | lit hv => exact .lit (leafD_imp_leafP hv)
    | node hn => exact .node (D_sub_P (sysV2 w) I hcons [] _ hn)
    | or hm _ ih => exact .or hm ih
    | and _ ih => exact .and ih
    | diff _ hn ih => exact .diff ih (hcons _ hn)
  exact key _ hd

/-! ## the shared visited filter: where it is sound, and exactly where it is not -/

/-- **A global visited filter is sound for every system** (untainted decisions): whichever branch claimed a
userset reported its truth to the same union.  Instance of `evalG_root_sound` at a sub-problem. -/
theorem shared_visited_sound {N : Type} [DecidableEq N] (sys : Sys N) (I : Interp N)
    (rule : Bool → N → VExpr N) (seed : N → Option String) (policy : Nat → Nat → Bool)
    (hrule : ∀ b n, toExpr (rule b n) = sys.rule n) (hc : Coherent sys I) (fuel : Nat) (root : N) :
    (VOut.ok true false ∈ (evalG rule seed policy fuel none (.sub false root)).1 → D sys I [] root) ∧
    (VOut.ok false false ∈ (evalG rule seed policy fuel none (.sub false root)).1 → ¬ P sys I [] root) := by
  obtain ⟨h1, h2⟩ := evalG_root_sound sys I rule seed policy hrule hc fuel (.sub false root)
  constructor
  · intro h
    have := h1 h
    simp only [toExpr] at this
    cases this with | node hn => exact hn
  · intro h hp
    apply h2 h
    simp only [toExpr]
    exact .node hp

/-- **`shared_visited_union_sound`: sound and complete under the clean conditions.**  If (1) the key handed to the
visited filter identifies the dispatched sub-problem (`keyOf` injective, never empty, `item.key = keyOf child` for the
tuples that pass the condition filter, the seed is the key of the creating sub-problem) and (2) every condition can be
evaluated, then **every** decision — not only the untainted ones — of the evaluation is the least-fixpoint semantics,
for every schedule.  Since commit 1d97cee the real `buildIterator` satisfies (1) for usersets (`tuple.user`) and for
tuple-to-usersets (`tuple.user#computed`) and no longer needs the former third hypothesis (no conditional drop behind
a shared filter: the condition filter runs first); (2) is finding V2-E.  The witnesses below show that (1) and (2)
are necessary. -/
theorem shared_visited_union_sound {N : Type} [DecidableEq N] (keyOf : N → String) (sys : Sys N) (I : Interp N)
    (rule : Bool → N → VExpr N) (seed : N → Option String) (policy : Nat → Nat → Bool)
    (hk : KeyOK keyOf) (hclean : ∀ b n, CleanE keyOf (rule b n)) (hseed : ∀ n k, seed n = some k → k = keyOf n)
    (hrule : ∀ b n, toExpr (rule b n) = sys.rule n) (hc : Coherent sys I) (fuel : Nat) (root : N) (a t : Bool)
    (h : VOut.ok a t ∈ (evalG rule seed policy fuel none (.sub false root)).1) :
    (a = true → D sys I [] root) ∧ (a = false → ¬ P sys I [] root) := by
  obtain ⟨h1, h2⟩ := evalG_clean_sound keyOf rule seed policy sys I hk hclean hseed hrule hc fuel (.sub false root)
    (.sub false root) a t h
  constructor
  · intro ha
    have := h1 ha
    simp only [toExpr] at this
    cases this with | node hn => exact hn
  · intro ha hp
    apply h2 ha
    simp only [toExpr]
    exact .node hp

/-! ### negation witnesses: the three unsound steps (all outcomes carry the ghost taint) -/

/-- the full-strength statement without the taint exemption -/
def C03_Eval_Full : Prop :=
  ∀ (sys : Sys Nat) (I : Interp Nat) (rule : Bool → Nat → VExpr Nat) (seed : Nat → Option String)
    (policy : Nat → Nat → Bool), (∀ b n, toExpr (rule b n) = sys.rule n) → Coherent sys I →
    ∀ (fuel : Nat) (e : VExpr Nat) (t : Bool),
      VOut.ok false t ∈ (evalG rule seed policy fuel none e).1 → ¬ HoldsP sys I [] (toExpr e)

/-- Colliding keys: two different sub-problems behind one key.  (Before commit 1d97cee this was the real engine on a
tuple-to-userset cycle over two relations — finding V2-A: `folder:b` stood for `folder:b#viewer` and for
`folder:b#editor`; the second was skipped although only the first had been claimed.) -/
def ruleA : Bool → Nat → VExpr Nat := fun _ n =>
  if n = 0 then .iter true [{ key := "b", cond := .tt, child := some 1 }]
  else if n = 1 then .iter true [{ key := "b", cond := .tt, child := some 2 }]
  else .lit .tt

theorem taint_key_collision_unsound :
    (evalG ruleA (fun n => if n = 0 then some "a#r" else none) (lookAhead 2) 8 none (.sub false 0)).1 = [.ok false true] := by
  decide

/-- The witness system of finding V2-B (before commit 1d97cee): the tuple to `1` under a failing condition, then an
unconditioned tuple to the same userset.  With the visited filter *in front of* the condition filter the first tuple
claimed the key `k` and the second one was skipped: the pre-fix model evaluated this system to the tainted, wrong
`[ok false true]`.  With the condition filter first (`DfsG.pull`, the code since 1d97cee) nothing is claimed by a
dropped tuple: -/
def ruleB : Bool → Nat → VExpr Nat := fun _ n =>
  if n = 0 then .or [.iter true [{ key := "k", cond := .ff, child := some 1 }], .iter true [{ key := "k", cond := .tt, child := some 1 }]]
  else .lit .tt

theorem mark_after_condition_sound :
    (evalG ruleB (fun n => if n = 0 then some "a#r" else none) (lookAhead 2) 8 none (.sub false 0)).1 = [.ok true false] := by
  decide

/-- V2-E in the abstract: the iterator swallows the evaluation error of the first tuple because the second one
passed; the answer `false` is given although the first tuple may grant access. -/
def ruleE : Bool → Nat → VExpr Nat := fun _ n =>
  if n = 0 then .iter false [{ key := "x", cond := .err, child := some 1 }, { key := "y", cond := .tt, child := some 2 }]
  else if n = 1 then .lit .tt
  else .lit .ff

theorem taint_swallowed_error_unsound :
    (evalG ruleE (fun _ => none) (lookAhead 2) 8 none (.sub false 0)).1 = [.ok false true] := by
  decide

/-- in the first system the root does hold, under every interpretation (the system has no exclusion): the leaf
`2` is `true` and reachable, so the tainted `false` is wrong -/
theorem witnessA_holds (I : Interp Nat) : D { rule := fun n => toExpr (ruleA false n) } I [] 0 := by
  have h0 : ruleA false 0 = .iter true [{ key := "b", cond := .tt, child := some 1 }] := by simp [ruleA]
  have h1 : ruleA false 1 = .iter true [{ key := "b", cond := .tt, child := some 2 }] := by simp [ruleA]
  have h2 : ruleA false 2 = .lit .tt := by simp [ruleA]
  have d2 : D { rule := fun n => toExpr (ruleA false n) } I [] 2 := by
    refine ⟨1, List.not_mem_nil, ?_⟩
    show Holds leafD I.negD _ (toExpr (ruleA false 2))
    rw [h2]; simp only [toExpr]
    exact .lit rfl
  have step : ∀ (a b : Nat) (k : String), ruleA false a = .iter true [{ key := k, cond := .tt, child := some b }] →
      D { rule := fun n => toExpr (ruleA false n) } I [] b → D { rule := fun n => toExpr (ruleA false n) } I [] a := by
    intro a b k ha hb
    apply lfp_closed _ leafD I.negD [] a List.not_mem_nil
    show Holds leafD I.negD _ (toExpr (ruleA false a))
    rw [ha]; simp only [toExpr, itemExpr, List.map]
    refine .or List.mem_cons_self (.and ?_)
    intro e he
    simp at he
    rcases he with rfl | rfl
    · exact .lit rfl
    · exact .node hb
  exact step 0 1 "b" h0 (step 1 2 "b" h1 d2)

/-- hence the statement without the taint exemption is false as soon as the (negation-free) witness system has a
coherent interpretation — which every stratified system has; the existence proof is not part of this file -/
theorem c03_eval_full_counterexample
    (hex : ∃ I : Interp Nat, Coherent ({ rule := fun n => toExpr (ruleA false n) } : Sys Nat) I ∧ ∀ s, I.negD s → I.negP s) :
    ¬ C03_Eval_Full := by
  intro h
  obtain ⟨I, hc, hcons⟩ := hex
  have := h { rule := fun n => toExpr (ruleA false n) } I ruleA (fun n => if n = 0 then some "a#r" else none)
    (lookAhead 2) (fun b n => by simp [ruleA]) hc 8 (.sub false 0) true
    (by rw [taint_key_collision_unsound]; simp)
  apply this
  simp only [toExpr]
  exact .node (D_sub_P _ I hcons [] 0 (witnessA_holds I))

/-! ## reducers -/

/-- **`v2_reducers_spec`**: the decision of each receive loop as a function of the arrivals, any order. -/
theorem v2_reducers_spec :
    (∀ arr : List VOut, (∃ t, unionV2 arr = .ok true t) ↔ ∃ t, VOut.ok true t ∈ arr) ∧
    (∀ arr : List VOut, ∀ t, unionV2 arr = .ok false t → ∀ o ∈ arr, ∃ t', o = .ok false t') ∧
    (∀ arr : List VOut, (∃ t, interV2 arr = .ok true t) ↔ ∀ o ∈ arr, ∃ t, o = .ok true t) ∧
    (∀ arr : List VOut, ∀ t, interV2 arr = .ok false t → VOut.ok false t ∈ arr) ∧
    (∀ bf b s t, exclV2 bf b s = .ok true t → (∃ tb, b = .ok true tb) ∧ ∀ x, s = some x → ∃ ts, x = .ok false ts) ∧
    (∀ bf b s t, exclV2 bf b s = .ok false t → b = .ok false t ∨ s = some (.ok true t)) := by
  refine ⟨unionV2_true_iff, ?_, interV2_true_iff, fun arr t h => interGo_false arr false t h, ?_, exclV2_false⟩
  · intro arr t h o ho
    obtain ⟨_, _, hall⟩ := unionGo_false arr none false t h
    obtain ⟨t', e, _⟩ := hall o ho
    exact ⟨t', e⟩
  · intro bf b s t h
    obtain ⟨tb, hb, _, hs⟩ := exclV2_true bf b s t h
    exact ⟨⟨tb, hb⟩, fun x hx => by obtain ⟨ts, e, _⟩ := hs x hx; exact ⟨ts, e⟩⟩

/-- the documented breaking changes are order dependences of the *error* cases only -/
theorem v2_breaking_changes_are_error_races :
    (interV2 [.err .cond, .ok false false] = .err .cond ∧ interV2 [.ok false false, .err .cond] = .ok false false) ∧
    (exclV2 true (.err .cond) (some (.ok true false)) = .err .cond ∧
     exclV2 false (.err .cond) (some (.ok true false)) = .ok false false) :=
  ⟨interV2_order_dependent, exclV2_order_dependent⟩

/-! ## pruning by weights and wildcard sets -/

/-- skipping every edge leaves the accumulator of `FlattenNode` unchanged -/
theorem flatten_fold_skip (g : Graph) (ut : String) (wild recPath : Bool) (f : Nat) (es : List GEdge)
    (h : ∀ e ∈ es, (e.weight.isNone || (wild && !e.wildcards.contains ut)) = true) (acc : List GEdge) :
    es.foldl (fun (acc : Option (List GEdge)) e =>
      match acc with
      | none => none
      | some l =>
        if e.weight.isNone || (wild && !e.wildcards.contains ut) then some l
        else if canFlatten g e then
          match flatten g ut wild recPath f e.dst with
          | none => none
          | some r => some (l ++ r)
        else if !recPath || e.recRel = "" then some (l ++ [e])
        else some l) (some acc) = some acc := by
  induction es generalizing acc with
  | nil => rfl
  | cons e es ih =>
    simp only [List.foldl_cons]
    rw [if_pos (h e (by simp))]
    exact ih (fun x hx => h x (by simp [hx])) acc

/-- **Pruning by weight is consistent** (under the local weight consistency of the dumped graph, which the
driver evaluates on every case): when `ResolveCheck` answers `false` because the node of the requested relation
has no weight for the user type, `ResolveUnion` would have found no edge to follow either. -/
theorem prune_weight_consistent (g : Graph) (ut : String) (wild recPath : Bool) (hwf : wfWeights g ut = true)
    (name : String) (n : GNode) (hn : g.node? name = some n) (hu : n.unionLike = true) (hne : n.name ≠ ut)
    (hw : n.weight = none) (f : Nat) :
    flatten g ut wild recPath (f + 1) name = some [] := by
  have hmem : n ∈ g.nodes := List.mem_of_find?_eq_some hn
  have hname : n.name = name := by
    have := List.find?_some hn
    simpa using this
  unfold wfWeights at hwf
  simp only [Bool.and_eq_true, List.all_eq_true] at hwf
  have hcl := hwf.1 n hmem
  have ht : ¬ (n.ntype = 0 ∨ n.ntype = 3) := by
    unfold GNode.unionLike at hu
    intro h
    rcases h with h | h <;> simp [h] at hu
  rw [hname] at hcl
  unfold flatten
  by_cases hes : (g.out name).isEmpty = true
  · simp [ht, hes] at hcl
  · simp only [hes]
    have hall : ∀ e ∈ g.out name, e.weight.isNone = true := by
      simp [ht, hes, hu, hw] at hcl
      have hcl' := hcl.resolve_left (fun h => hne (by rw [hname]; exact h))
      intro e he
      have := hcl' e he
      cases hwe : e.weight with
      | none => rfl
      | some v => rw [hwe] at this; simp at this
    exact flatten_fold_skip g ut wild recPath f (g.out name) (fun e he => by simp [hall e he]) []

/-- **Pruning by wildcard set is consistent**: when a typed-wildcard request is answered `false` because the
node has no path to the wildcard of the type, no edge of the node has one. -/
theorem prune_wildcard_consistent (g : Graph) (ut : String) (recPath : Bool) (hwf : wfWildcards g = true)
    (name : String) (n : GNode) (hn : g.node? name = some n) (hne : (g.out name).isEmpty = false)
    (hw : n.wildcards.contains ut = false) (f : Nat) :
    flatten g ut true recPath (f + 1) name = some [] := by
  unfold wfWildcards at hwf
  simp only [List.all_eq_true] at hwf
  unfold flatten
  simp only [hne]
  apply flatten_fold_skip g ut true recPath f (g.out name) _ []
  intro e he
  have hmem : e ∈ g.edges := (List.mem_filter.mp he).1
  have hsrc : e.src = name := by simpa using (List.mem_filter.mp he).2
  have hcl := hwf e hmem
  rw [hsrc, hn] at hcl
  cases hd : g.node? e.dst with
  | none => rw [hd] at hcl; simp at hcl
  | some t =>
    rw [hd] at hcl
    simp only [Bool.and_eq_true, List.all_eq_true] at hcl
    have hsub := hcl.1
    cases hc : e.wildcards.contains ut with
    | false => simp
    | true =>
      have := hsub ut (by simpa using hc)
      rw [hw] at this
      cases this

/-! ## request-shape errors -/

/-- shape errors in an expression -/
def hasShapeW : VExpr VNode → Bool
  | .fail .shapeWildcard => true
  | .gate _ e => hasShapeW e
  | .or es => es.attach.any (fun ⟨e, _⟩ => hasShapeW e)
  | .and es => es.attach.any (fun ⟨e, _⟩ => hasShapeW e)
  | .diff b s => hasShapeW b || hasShapeW s
  | .diff1 b => hasShapeW b
  | .or2 a b => hasShapeW a || hasShapeW b
  | _ => false

def hasShapeU : VExpr VNode → Bool
  | .fail .shapeUserset => true
  | .gate _ e => hasShapeU e
  | .or es => es.attach.any (fun ⟨e, _⟩ => hasShapeU e)
  | .and es => es.attach.any (fun ⟨e, _⟩ => hasShapeU e)
  | .diff b s => hasShapeU b || hasShapeU s
  | .diff1 b => hasShapeU b
  | .or2 a b => hasShapeU a || hasShapeU b
  | _ => false

/-- **`c03_shapes` (1)**: resolving an edge yields `ErrWildcardInvalidRequest` only for a typed-wildcard subject
and `ErrUsersetInvalidRequest` only for a userset subject. -/
theorem c03_shapes_only (w : World) (obj rel : String) :
    ∀ (f : Nat) (e : GEdge),
      (hasShapeW (edgeExpr w obj rel f e) = true → w.wild = true) ∧
      (hasShapeU (edgeExpr w obj rel f e) = true → isUserset w.req.user = true) := by
  intro f
  induction f with
  | zero => intro e; simp [edgeExpr, hasShapeW, hasShapeU]
  | succ f ih =>
    intro e
    unfold edgeExpr
    simp only []
    split
    · -- direct edge
      split
      · simp [hasShapeW, hasShapeU]
      · split
        · simp [hasShapeW, hasShapeU]
        · split
          · simp [hasShapeW, hasShapeU]
          · split
            · split
              · split <;> simp [hasShapeW, hasShapeU]
              · simp [hasShapeW, hasShapeU]
            · simp [hasShapeW, hasShapeU]
    · split <;> simp [hasShapeW, hasShapeU]
    · -- rewrite edge
      split
      · simp [hasShapeW, hasShapeU]
      · split
        · simp [hasShapeW, hasShapeU]
        · split
          · split
            · simp [hasShapeW, hasShapeU]
            · split
              · split
                · simp [hasShapeW, hasShapeU]
                · split
                  · simp [hasShapeW, hasShapeU]
                  · split
                    · simp [hasShapeW, hasShapeU]
                    · constructor
                      · intro h
                        simp only [hasShapeW, List.any_eq_true] at h
                        obtain ⟨⟨x, hx⟩, _, hh⟩ := h
                        obtain ⟨e0, _, rfl⟩ := List.mem_map.mp hx
                        exact (ih e0).1 hh
                      · intro h
                        simp only [hasShapeU, List.any_eq_true] at h
                        obtain ⟨⟨x, hx⟩, _, hh⟩ := h
                        obtain ⟨e0, _, rfl⟩ := List.mem_map.mp hx
                        exact (ih e0).2 hh
              · split
                · split
                  · rename_i hw; simp [hasShapeW, hasShapeU]; exact hw
                  · split
                    · split
                      · simp [hasShapeW, hasShapeU]
                      · split
                        · split
                          · rename_i hu; simp [hasShapeW, hasShapeU]; exact hu
                          · simp only [hasShapeW, hasShapeU]; exact ih _
                        · simp only [hasShapeW, hasShapeU, Bool.or_eq_true]
                          rename_i b s _ _ _
                          exact ⟨fun h => h.elim (ih b).1 (ih s).1, fun h => h.elim (ih b).2 (ih s).2⟩
                    · simp [hasShapeW, hasShapeU]
                · simp [hasShapeW, hasShapeU]
          · simp [hasShapeW, hasShapeU]
    · simp [hasShapeW, hasShapeU]
    · simp [hasShapeW, hasShapeU]
    · simp [hasShapeW, hasShapeU]
    · simp [hasShapeW, hasShapeU]

/-- **`c03_shapes` (2)**: at an exclusion node the decision is exactly the documented one. -/
theorem c03_shapes_at_exclusion (w : World) (obj rel : String) (f : Nat) (e : GEdge) (t : GNode) (b s : GEdge)
    (he : e.etype = 1) (hn : w.graph.node? e.dst = some t) (ht : t.ntype = 2) (hl : t.label = "exclusion")
    (hout : w.graph.out e.dst = [b, s]) (hb : b.weight.isNone = false) :
    (w.wild = true → edgeExpr w obj rel (f + 1) e = .fail .shapeWildcard) ∧
    (w.wild = false → s.weight.isNone = true → isUserset w.req.user = true →
      edgeExpr w obj rel (f + 1) e = .fail .shapeUserset) ∧
    (w.wild = false → s.weight.isNone = true → isUserset w.req.user = false →
      edgeExpr w obj rel (f + 1) e = .diff1 (edgeExpr w obj rel f b)) ∧
    (w.wild = false → s.weight.isNone = false →
      edgeExpr w obj rel (f + 1) e = .diff (edgeExpr w obj rel f b) (edgeExpr w obj rel f s)) := by
  refine ⟨?_, ?_, ?_, ?_⟩
  · intro hw; simp [edgeExpr, he, hn, ht, hl, hw]
  · intro hw hs hu; simp [edgeExpr, he, hn, ht, hl, hw, hout, hb, hs, hu]
  · intro hw hs hu; simp [edgeExpr, he, hn, ht, hl, hw, hout, hb, hs, hu]
  · intro hw hs; simp [edgeExpr, he, hn, ht, hl, hw, hout, hb, hs]

/-! ## the breaking-change detector -/

/-- **`C03_Detector`** (stated in full, *not* proved — refuted by the correspondence on the unchanged code).
`isGraphOf m ut g`: `g` is the weighted graph of model `m` with the weights for user type `ut` (the contract of the
trusted graph library, not formalised).  For a userset or wildcard subject and the same model, tuples and request,
whenever the default engine (`CheckV1.check`, any schedule) and the weighted-graph engine (`checkSet`) both decide and
disagree, the server reports a reason: the weighted-graph answer is `false`, the subject is a userset and
`CheckReason` is non-empty (the only place where the success path logs; the request-shape errors are reported through
`CheckReasonFromV2Error` on the fallback path and are not decisions).

Counter-examples found by the correspondence (candidate finding V2-C, reproduced on the real code, crafted case of
harness/c03): `group.member: [user, team#member] or owner`, `folder.viewer: [user, group#member] or editor`, tuple
`folder:a#viewer@group:a#member`, request `Check(folder:a#viewer@group:a#owner)`: default engine `true` (every owner of
group:a is a member), weighted graph `false`, `CheckReason = ""` — `usersetAliasesTargetRelation` only recognises a
directly related `T#R'` whose rewrite is a *pure* computed userset chain down to the subject's relation, and only on
the target relation itself.  Further shapes of the same family found by the generator: an alias reached through a
computed sibling of the target (`viewer: [user] or member`, `member: [user, group#admin]`, `admin: owner`,
`owner: member`), and a computed chain on the subject's own object (`Check(group:b#admin@group:b#member)` with
`admin: owner`, `owner: member`: `rewriteContainsComputedUserset` looks one step deep).
What is missing for a proof of a repaired detector: a Lean model of the default engine's userset-subject semantics
(the self-defining base case of `ResolveCheck`) against `sysV2` for userset subjects, and a shape analysis of where
the two can differ. -/
def C03_Detector (isGraphOf : Model → String → Graph → Prop) : Prop :=
  ∀ (w1 : CheckV1.World) (w2 : World) (depth fuel : Nat) (sc : Dfs.Sched) (a1 c1 t1 a2 t2 : Bool),
    w1.model = w2.model → w1.stored = w2.stored → w1.req.obj = w2.req.obj → w1.req.rel = w2.req.rel →
    w1.req.user = w2.req.user → w1.req.ctx = w2.req.ctx → w1.ctxTuples.Perm w2.ctxTuples →
    isGraphOf w2.model w2.ut w2.graph →
    (isUserset w2.req.user = true ∨ isTypedWildcard w2.req.user = true) →
    CheckV1.check w1 depth sc fuel = .ok a1 c1 t1 → VOut.ok a2 t2 ∈ checkSet w2 → a1 ≠ a2 →
    a2 = false ∧ isUserset w2.req.user = true ∧ V2Breaking.checkReason w2.model w2.req ≠ ""

/-- the precedence of `CheckReason` -/
theorem checkReason_self (m : Model) (rq : Req) (h : rq.user = rq.obj ++ "#" ++ rq.rel) :
    V2Breaking.checkReason m rq = V2Breaking.reasonSelfReferential := by
  unfold V2Breaking.checkReason; simp [h]

/-- `CheckExclusionReason` for a userset subject is exactly "the target rewrite contains a Difference" -/
theorem checkExclusionReason_userset (m : Model) (rq : Req) (rd : RelDef)
    (hr : m.findRel (typeOf rq.obj) rq.rel = some rd) (hu : isUserset rq.user = true) :
    V2Breaking.checkExclusionReason m rq =
      (if V2Breaking.containsDifference rd.rewrite then V2Breaking.reasonUsersetExclusion else "") := by
  unfold V2Breaking.checkExclusionReason; simp [hr, hu]

/-! ## ties to the regenerated source facts (`Gen.CheckV2`, extract/facts_checkv2.go) -/

set_option maxRecDepth 200000 in
/-- the contextual part of `specificTypeWildcard` walks the WHOLE bucket of contextual tuples and takes the
first typed wildcard (`CheckV2.specificTypeWildcard`: `find?` over `ctxByObject`), no index-0 shortcut: the
bucket is sorted by user and `type:*` does not sort first (ids may start with `!` `"` `$` `%` `&` `'` `(` `)`) -/
theorem tie_specific_type_wildcard_ctx_lookup :
    Gen.CheckV2.wildcardCtxLookup =
      ["if ctxTuples, ok := req.GetContextualTuplesByObjectID(req.GetTupleKey().GetObject(), relation, req.GetUserType()); ok", "{",
       "for _, ct := range ctxTuples", "{", "if tuple.IsTypedWildcard(ct.GetUser())", "{",
       "iter = storage.NewStaticTupleKeyIterator([]*openfgav1.TupleKey{ct})", "break", "}", "}", "}"] := by
  decide

theorem tie_union_edges_loop : Gen.CheckV2.unionEdgesConds =
    ["msg.Err != nil", "msg.Res.GetAllowed()", "post:ctx.Err() != nil", "post:err != nil"] := by decide

theorem tie_recursive_loop : Gen.CheckV2.recursiveConds =
    ["msg.Err != nil", "msg.Res.GetAllowed()", "post:ctx.Err() != nil"] := by decide

theorem tie_default_execute_loop : Gen.CheckV2.defaultExecuteConds =
    ["ctx.Err() != nil", "!ok", "outcome.Err != nil", "outcome.Res.Allowed"] := by decide

theorem tie_intersection_loop : Gen.CheckV2.intersectionConds = ["msg.Err != nil || !msg.Res.GetAllowed()"] ∧
    Gen.CheckV2.intersectionGuards = ["!ok", "req.IsTypedWildcard()", "!ok"] := by decide

theorem tie_exclusion_loop : Gen.CheckV2.exclusionConds =
    ["!ok", "msg.Err != nil", "!msg.Res.GetAllowed()", "msg.Res.GetAllowed() && subtract == nil",
     "!ok", "msg.Err != nil", "msg.Res.GetAllowed()"] ∧
    Gen.CheckV2.exclusionGuards =
      ["!ok", "!ok", "tuple.IsObjectRelation(req.GetTupleKey().GetUser()) && !ok", "ok"] := by decide

theorem tie_resolve_check : Gen.CheckV2.resolveCheckGuards =
    ["!ok", "!ok", "req.IsTypedWildcard() && !slices.Contains(node.GetWildcards(), req.GetUserType())",
     "err != nil", "res.GetAllowed()"] := by decide

set_option maxRecDepth 8000 in
theorem tie_resolve_union : Gen.CheckV2.resolveUnionConds =
    ["err != nil",
     "emptyCycle && node.GetNodeType() == authzGraph.SpecificTypeAndRelation && (node.GetRecursiveRelation() == node.GetUniqueLabel() || node.IsPartOfTupleCycle())",
     "edge != nil", "err != nil"] ∧
    Gen.CheckV2.canApplyRecursionConds =
      ["userRelation == \"\" && node.GetRecursiveRelation() == node.GetUniqueLabel() && !node.IsPartOfTupleCycle()"] ∧
    Gen.CheckV2.recursiveOptConds =
      ["!ok", "relation != \"\"", "edge.GetRecursiveRelation() != recursiveRelation", "ok && w > 1",
       "edge.GetEdgeType() == authzGraph.DirectEdge || edge.GetEdgeType() == authzGraph.TTUEdge", "!canApply", "edgeResult != nil"] := by
  decide

set_option maxRecDepth 8000 in
theorem tie_resolve_edge : Gen.CheckV2.resolveEdgeConds =
    ["err != nil", "edge.IsPartOfTupleCycle() || edge.GetRecursiveRelation() != \"\""] ∧
    Gen.CheckV2.resolveEdgeArms =
      ["authzGraph.DirectEdge => switch edge.GetTo().GetNodeType()", "authzGraph.SpecificType => r.specificType",
       "authzGraph.SpecificTypeWildcard => r.specificTypeWildcard",
       "authzGraph.SpecificTypeAndRelation => r.specificTypeAndRelation", "default => return nil, ErrPanicRequest",
       "authzGraph.DirectLogicalEdge,authzGraph.TTULogicalEdge,authzGraph.ComputedEdge => r.ResolveUnion",
       "authzGraph.TTUEdge => r.ttu", "authzGraph.RewriteEdge => r.ResolveRewrite", "default => return nil, ErrPanicRequest"] ∧
    Gen.CheckV2.resolveRewriteArms =
      ["authzGraph.SpecificTypeAndRelation => r.ResolveUnion", "authzGraph.OperatorNode => switch node.GetLabel()",
       "authzGraph.UnionOperator => r.ResolveUnion", "authzGraph.IntersectionOperator => r.ResolveIntersection",
       "authzGraph.ExclusionOperator => if req.IsTypedWildcard() return nil, ErrWildcardInvalidRequest",
       "default => return nil, ErrPanicRequest", "default => return nil, ErrPanicRequest"] := by decide

theorem tie_flatten : Gen.CheckV2.flattenConds =
    ["!ok", "!ok || (hasWildcardRequest && !slices.Contains(edge.GetWildcards(), userType))",
     "edge.GetTo().GetLabel() == authzGraph.UnionOperator", "canFlatten", "err != nil",
     "!recursivePath || edge.GetRecursiveRelation() == \"\""] ∧
    Gen.CheckV2.flattenCases =
      ["authzGraph.ComputedEdge,authzGraph.DirectLogicalEdge,authzGraph.TTULogicalEdge", "authzGraph.RewriteEdge",
       "authzGraph.SpecificTypeAndRelation", "authzGraph.OperatorNode"] := by decide

theorem tie_userset_and_ttu : Gen.CheckV2.specificTypeAndRelationConds =
    ["edge.GetTo().GetUniqueLabel() == req.GetUserType()",
     "err != nil || res.GetAllowed() || (edge.GetRecursiveRelation() == \"\" && !edge.IsPartOfTupleCycle())",
     "err != nil", "tuple.IsObjectRelation(req.GetTupleKey().GetUser())", "err != nil", "res.GetAllowed()", "w == 2"] ∧
    Gen.CheckV2.ttuConds =
      ["err != nil", "err != nil", "tuple.IsObjectRelation(req.GetTupleKey().GetUser())", "err != nil", "res.GetAllowed()", "w == 2"] := by
  decide

/-- `buildIterator` (since commit 1d97cee): contextual tuples concatenated first, then the condition filter, then the
visited filter, which is `LoadOrStore` on the tuple's user — with the computed relation appended for the two
tuple-to-userset callers; the filtered iterator reports a remembered error only if nothing passed.  Reverting the
fix (filter order or key) breaks this tie. -/
theorem tie_build_iterator : Gen.CheckV2.buildIteratorCalls =
    ["iterator.Concat", "BuildConditionTupleKeyFilter", "BuildUniqueTupleKeyFilter"] ∧
    Gen.CheckV2.buildIteratorConds =
      ["ok", "len(conditions) > 1 || conditions[0] != authzGraph.NoCond", "visited != nil", "len(keySuffix) > 0",
       "len(iterFilters) > 0"] ∧
    Gen.CheckV2.visitedKeyReturns = ["return key.GetUser() + \"#\" + keySuffix[0]", "return key.GetUser()"] ∧
    Gen.CheckV2.buildIteratorCallers =
      ["resolveRecursiveUserset:visited", "resolveRecursiveTTU:computedRelation", "specificTypeAndRelation:visited",
       "ttu:computedRelation"] ∧
    Gen.CheckV2.visitedFilterIsLoadOrStore = true ∧
    Gen.CheckV2.evaluateConditionConds = ["!slices.Contains(conditions, t.GetCondition().GetName())"] ∧
    Gen.CheckV2.filterNextConds =
      ["err != nil", "errors.Is(err, storage.ErrIteratorDone)", "f.onceValid || f.lastErr == nil", "err != nil", "!valid"] := by
  decide

/-- the recursive strategy builds its own filter chain: contextual tuples first, then the condition filter, then the
visited filter of its breadth-first search (since commit 11f1667; before it the visited filter came first and a
tuple dropped by its condition claimed its target — finding V2-B(recursive)).  Reverting that fix breaks this tie. -/
theorem tie_recursive_mapper_order : Gen.CheckV2.recursiveMapperCalls =
    ["iterator.Concat", "BuildConditionTupleKeyFilter", "BuildUniqueTupleKeyFilter"] := by decide

/-- cache guards (C08/C10 read them too): the lookup is skipped for HIGHER_CONSISTENCY, an entry is valid only if
newer than the invalidation time, and only results without error / cancellation are stored -/
theorem tie_cache_guards : Gen.CheckV2.isCachedConds =
    ["consistency == openfgav1.ConsistencyPreference_HIGHER_CONSISTENCY", "v == nil", "!ok",
     "!res.LastModified.After(r.lastCacheInvalidationTime)"] ∧
    Gen.CheckV2.cacheSetGuards =
      ["ResolveUnionEdges:err == nil && ctx.Err() == nil", "ResolveRecursive:err == nil && ctx.Err() == nil"] := by decide

set_option maxRecDepth 8000 in
/-- which errors end the request without fallback, and how engine errors become status codes -/
theorem tie_terminal_errors : Gen.CheckV2.terminalSentinels =
    ["context.DeadlineExceeded", "context.Canceled", "serverErrors.ErrRequestDeadlineExceeded",
     "serverErrors.ErrRequestCancelled", "serverErrors.ErrThrottledTimeout", "serverErrors.ErrTransactionThrottled"] ∧
    Gen.CheckV2.terminalCodes = ["openfgav1.ErrorCode_validation_error", "openfgav1.ErrorCode_invalid_tuple"] ∧
    Gen.CheckV2.executeV2Conds = ["err != nil", "err == nil || IsV2CheckTerminalError(err) || q.fallback == nil", "fallbackRes == nil"] ∧
    Gen.CheckV2.errorMapping =
      ["errors.Is(err, check.ErrValidation) => serverErrors.ValidationError",
       "errors.Is(err, check.ErrInvalidUser) => serverErrors.ValidationError",
       "errors.As(err, &invalidRelation) => serverErrors.ValidationError",
       "errors.As(err, &invalidContext) => serverErrors.ValidationError",
       "errors.As(err, &invalidTupleDeprecate) => serverErrors.HandleTupleValidateError",
       "errors.As(err, &errInvalidTuple) => serverErrors.HandleTupleValidateError",
       "errors.Is(err, graph.ErrResolutionDepthExceeded) => serverErrors.ErrAuthorizationModelResolutionTooComplex",
       "errors.Is(err, condition.ErrEvaluationFailed) => serverErrors.ValidationError",
       "errors.As(err, &throttled) => serverErrors.ErrThrottledTimeout",
       "errors.Is(err, context.DeadlineExceeded) => serverErrors.ErrRequestDeadlineExceeded"] := by decide

theorem tie_server_fallback : Gen.CheckV2.serverCheckConds =
    ["s.featureFlagClient.Boolean(serverconfig.ExperimentalWeightedGraphCheck, storeID)",
     "err == nil || commands.IsV2CheckTerminalError(err)",
     "!res.Allowed && tuple.IsObjectRelation(req.GetTupleKey().GetUser())", "isV2Fallback",
     "!resp.Allowed && tuple.IsObjectRelation(tk.GetUser())"] := by decide

set_option maxRecDepth 8000 in
/-- the detector: reason constants and decision tables, as the Lean predicates are written -/
theorem tie_detector : Gen.CheckV2.reasonConsts =
    ["ReasonAliasUserset=" ++ V2Breaking.reasonAlias, "ReasonComputedUsersetSelfObj=" ++ V2Breaking.reasonComputedSelfObj,
     "ReasonSelfReferentialUserset=" ++ V2Breaking.reasonSelfReferential, "ReasonTTUUserset=" ++ V2Breaking.reasonTTU,
     "ReasonUsersetWithExclusion=" ++ V2Breaking.reasonUsersetExclusion,
     "ReasonWildcardWithExclusion=" ++ V2Breaking.reasonWildcardExclusion] ∧
    Gen.CheckV2.checkReasonTable =
      ["tk.GetUser() == tk.GetObject()+\"#\"+tk.GetRelation() => ReasonSelfReferentialUserset",
       "usersetAliasesTargetRelation(typesys, targetObjectType, targetRelation, userObjectType, userRelation) => ReasonAliasUserset",
       "err != nil => \"\"",
       "userObject == tk.GetObject() && rewriteContainsComputedUserset(rewrite, userRelation) => ReasonComputedUsersetSelfObj",
       "rewriteContainsTTUForUser(typesys, targetObjectType, rewrite, userObjectType, userRelation) => ReasonTTUUserset",
       "else => \"\""] ∧
    Gen.CheckV2.checkReasonFromV2ErrorTable =
      ["errors.Is(err, check.ErrWildcardInvalidRequest) => ReasonWildcardWithExclusion",
       "errors.Is(err, check.ErrUsersetInvalidRequest) => ReasonUsersetWithExclusion", "else => \"\""] ∧
    Gen.CheckV2.aliasConds =
      ["err != nil", "ref.GetType() != userObjectType", "ref.GetRelation() == userRelation", "err == nil && resolved == userRelation"] ∧
    Gen.CheckV2.ttuForUserConds =
      ["!ok || ttu.TupleToUserset.GetComputedUserset().GetRelation() != userRelation",
       "err == nil && slices.ContainsFunc(directlyRelated, func(dr *openfgav1.RelationReference) bool { return dr.GetType() == userObjectType })"] := by
  decide

set_option maxRecDepth 8000 in
theorem tie_exclusion_detector : Gen.CheckV2.checkExclusionReasonTable =
    ["err != nil => \"\"", "tuple.IsObjectRelation(tk.GetUser()) => \"\"",
     "tuple.IsObjectRelation(tk.GetUser()) && rewriteContainsDifference(rewrite) => ReasonUsersetWithExclusion",
     "wildcardReachableUnderDifferenceBase(typesys, targetObjectType, targetRelation, rewrite, userObjectType) => ReasonWildcardWithExclusion",
     "else => \"\""] := by decide

theorem tie_error_texts : Gen.CheckV2.errorTexts =
    ["ErrPanicRequest=invalid check request",
     "ErrUsersetInvalidRequest=userset request cannot be resolved when exclusion operation is involved",
     "ErrValidation=object relation does not exist",
     "ErrWildcardInvalidRequest=wildcard request cannot be resolved when intersection or exclusion is involved"] := by decide

/-! ## non-vacuity -/

/-- a cyclic union-only system: 0 and 1 reference each other through keyed tuples, 1 also reaches the `true` leaf 2;
entering at 0 with a shared set, the engine answers an untainted `true`, and entering a variant without the leaf an
untainted `false` — both covered by `shared_visited_union_sound`. -/
def ruleC (leaf : Leaf) : Bool → Nat → VExpr Nat := fun _ n =>
  if n = 0 then .iter true [{ key := "k1", cond := .tt, child := some 1 }]
  else if n = 1 then .iter true [{ key := "k0", cond := .tt, child := some 0 }, { key := "k2", cond := .tt, child := some 2 }]
  else .lit leaf

example : (evalG (ruleC .tt) (fun n => if n = 0 then some "k0" else none) (lookAhead 2) 8 none (.sub false 0)).1 = [.ok true false] := by
  decide

example : (evalG (ruleC .ff) (fun n => if n = 0 then some "k0" else none) (lookAhead 2) 8 none (.sub false 0)).1 = [.ok false false] := by
  decide

/-- the hypotheses of `shared_visited_union_sound` are satisfiable: the cyclic system above with the keys
`k0 k1 k2` of its three sub-problems -/
def keyC (n : Nat) : String := if n = 0 then "k0" else if n = 1 then "k1" else if n = 2 then "k2" else String.ofList (List.replicate (n + 1) 'z')

example (leaf : Leaf) (hl : leaf ≠ .errSw) (b : Bool) (n : Nat) : CleanE keyC (ruleC leaf b n) := by
  unfold ruleC
  split
  · refine .iter _ _ ?_
    intro it hit
    simp at hit; subst hit
    exact ⟨Or.inl rfl, fun _ _ => ⟨1, rfl, by simp [keyC]⟩⟩
  · split
    · refine .iter _ _ ?_
      intro it hit
      simp at hit
      rcases hit with rfl | rfl
      · exact ⟨Or.inl rfl, fun _ _ => ⟨0, rfl, by simp [keyC]⟩⟩
      · exact ⟨Or.inl rfl, fun _ _ => ⟨2, rfl, by simp [keyC]⟩⟩
    · exact .lit _ hl

end OpenFGAVerif.C03
