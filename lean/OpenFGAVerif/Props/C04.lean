/-
C04 — Contextual tuples behave exactly like stored tuples.

Models: `Model.CombinedReader` (storagewrappers.CombinedTupleReader over the memory store, the
weighted-graph engine's per-request indexes, the wrapper stack), `Model.CheckV1` (default engine),
`Model.Expand`.

Proved
  * `read_spec`, `readUserTuple_spec`, `readUsersetTuples_spec`, `rswu_spec_partial` (**combined_reader_spec**):
    for the filters the engines issue, every read of the combined reader over (contextual, stored) returns
    the multiset the datastore would return over stored ∪ contextual; the contextual tuples come first;
    `ReadUserTuple` finds the tuple with the requested key wherever it lives;
  * what is NOT true of the reader in general, with negation witnesses: `Read` ignores `filter.User` on
    the contextual side (`not_full_read_spec`; no engine passes a user through this reader), the sorted
    `ReadStartingWithUser` drops tuples that share an object and ignores `ObjectIDs` on the contextual
    side (evaluated witnesses; the statement `FullRswuSpec` is kept visible);
  * `ctxIndex_sorted`, `ctxIndex_mem` — weighted-graph engine: each index entry is strictly sorted by its
    sort key (hence duplicate free) and, for pairwise different tuple keys, holds exactly the contextual
    tuples filed under the entry's key;
  * `c04_check` (= `CtxSplit.c04_check_split`) — default engine: Check with contextual tuples `c` over the
    store `s` and Check over the store `s ++ c` give the same untainted answer, for every schedule and
    depth limit (through the semantics: the rules of the two worlds refine each other);
  * `c04_expand` — Expand: the same tree up to the order of the computed usersets of tuple-to-userset leaves;
    direct leaves are literally equal;
  * non-persistence / non-interference: `iterator_cache_never_sees_ctx` — the iterator cache sits below
    the combined reader: for every history of reads by requests with arbitrary contextual tuples the cache
    content and every stored part of an answer are those of the history without contextual tuples, and
    each answer is "own contextual tuples ++ datastore read"; `subproblem_keys_differ` — sub-problem cache
    entries of requests with different contextual tuples have different keys (C24).
-/
import OpenFGAVerif.Proofs.CtxSplit
import OpenFGAVerif.Props.C30
import OpenFGAVerif.Props.C24
import OpenFGAVerif.Gen.CombinedReader
import OpenFGAVerif.Gen.ReqScope
import OpenFGAVerif.Props.ReqClone
import OpenFGAVerif.Props.Misc3

namespace OpenFGAVerif.C04
open OpenFGAVerif.Vocab OpenFGAVerif.CheckV1 OpenFGAVerif.Model OpenFGAVerif.Model.CombinedReader

/-! ## ordering of the contextual tuples -/

theorem insertByObj_perm (t : Tuple) (l : List Tuple) : (insertByObj t l).Perm (t :: l) := by
  induction l with
  | nil => simp [insertByObj]
  | cons x xs ih =>
    unfold insertByObj
    split
    · exact List.Perm.refl _
    · exact (List.Perm.cons x ih).trans (List.Perm.swap t x xs)

/-- `NewCombinedTupleReader` only reorders the contextual tuples -/
theorem orderCtx_perm (ts : List Tuple) : (orderCtx ts).Perm ts := by
  unfold orderCtx
  have key : ∀ (l acc : List Tuple), (l.foldl (fun acc t => insertByObj t acc) acc).Perm (l ++ acc) := by
    intro l
    induction l with
    | nil => intro acc; simp
    | cons y ys ih =>
      intro acc
      simp only [List.foldl_cons, List.cons_append]
      refine (ih _).trans ?_
      exact (List.Perm.append_left ys (insertByObj_perm y acc)).trans List.perm_middle
  simpa using key ts []

/-! ## combined_reader_spec -/

/-- **Read** (`filter.User = ""`, the only way Check's tuple-to-userset step, Expand and ListUsers call
it): contextual tuples on the object and relation first, then the stored ones — as a multiset exactly
the datastore read over stored ∪ contextual. -/
theorem read_spec (ctx ctxO stored : List Tuple) (hperm : ctxO.Perm ctx) (o r : String) :
    (CombinedReader.read ctxO stored o r "").Perm (storeRead (stored ++ ctx) o r "") ∧
    CombinedReader.read ctxO stored o r "" = ctxO.filter (storeMatch o r "") ++ stored.filter (storeMatch o r "") := by
  have e : filterTuples ctxO o r [] = ctxO.filter (storeMatch o r "") := by
    unfold filterTuples storeMatch
    congr 1
  refine ⟨?_, by simp [CombinedReader.read, e, storeRead]⟩
  simp only [CombinedReader.read, e, storeRead, List.filter_append]
  exact List.perm_append_comm.trans (List.Perm.append_left _ (hperm.filter _))

/-- the full statement: `Read` behaves like the datastore for EVERY filter -/
def FullReadSpec : Prop :=
  ∀ (ctx stored : List Tuple) (o r u : String), (CombinedReader.read ctx stored o r u).Perm (storeRead (stored ++ ctx) o r u)

/-- **Negation witness**: a user filter is not applied to the contextual tuples. -/
theorem not_full_read_spec : ¬ FullReadSpec := by
  intro h
  have := (h [{ obj := "doc:1", rel := "viewer", user := "user:a", cond := "", ctx := [] }] [] "doc:1" "viewer" "user:b").length_eq
  simp [CombinedReader.read, filterTuples, storeRead, storeMatch] at this

/-- **ReadUserTuple**: the contextual tuple with that key, else the stored one — i.e. the first match in
contextual ++ stored; with one tuple per key this is the datastore lookup over stored ∪ contextual. -/
theorem readUserTuple_spec (ctx ctxO stored : List Tuple) (hperm : ctxO.Perm ctx) (o r u : String)
    (ho : o ≠ "") (hr : r ≠ "") (hu : u ≠ "") (huniq : CtxSplit.KeyUnique (stored ++ ctx)) :
    readUserTuple ctxO stored o r u = (stored ++ ctx).find? (storeMatch o r u) := by
  have e1 : ∀ l : List Tuple, (filterTuples l o r [u]).find? (fun t => t.user = u) = l.find? (storeMatch o r u) := by
    intro l
    unfold filterTuples storeMatch
    induction l with
    | nil => rfl
    | cons x xs ih =>
      simp only [List.filter_cons, List.find?_cons] at ih ⊢
      by_cases h1 : x.obj = o <;> by_cases h2 : x.rel = r <;> by_cases h3 : x.user = u <;>
        simp [h1, h2, h3, ho, hr, hu] <;> simpa [ho, hr, hu] using ih
  have e2 : readUserTuple ctxO stored o r u = (ctxO ++ stored).find? (storeMatch o r u) := by
    unfold readUserTuple
    rw [e1 ctxO, List.find?_append]
    cases ctxO.find? (storeMatch o r u) <;> rfl
  rw [e2]
  apply CtxSplit.find_congr
  · intro t
    simp only [List.mem_append, hperm.mem_iff]
    exact Or.comm
  · intro a ha b hb pa pb
    simp only [storeMatch, ho, hr, hu, decide_false, Bool.false_or, Bool.and_eq_true, decide_eq_true_eq] at pa pb
    have ha' : a ∈ stored ++ ctx := by
      rcases List.mem_append.mp ha with h | h
      · exact List.mem_append.mpr (Or.inr (hperm.mem_iff.mp h))
      · exact List.mem_append.mpr (Or.inl h)
    have hb' : b ∈ stored ++ ctx := by
      rcases List.mem_append.mp hb with h | h
      · exact List.mem_append.mpr (Or.inr (hperm.mem_iff.mp h))
      · exact List.mem_append.mpr (Or.inl h)
    exact huniq a ha' b hb' (pa.1.1.trans pb.1.1.symm) (pa.1.2.trans pb.1.2.symm) (pa.2.trans pb.2.symm)

/-- the references the engines pass as `AllowedUserTypeRestrictions`: userset references `type#rel` and
wildcard references `type:*` -/
def EngineRestrs (rs : List Restr) : Prop :=
  rs ≠ [] ∧ ∀ x ∈ rs, (x.rel ≠ "" ∧ x.wild = false) ∨ (x.rel = "" ∧ x.wild = true)

theorem any_congr_mem {α : Type} (l : List α) (f g : α → Bool) (h : ∀ x ∈ l, f x = g x) : l.any f = l.any g := by
  induction l with
  | nil => rfl
  | cons x xs ih =>
    simp only [List.any_cons]
    rw [h x (by simp), ih (fun y hy => h y (List.mem_cons_of_mem _ hy))]

theorem matchesAllowed_eq (rs : List Restr) (h : EngineRestrs rs) (t : Tuple) :
    matchesAllowed t rs =
      ((isUserset t.user || isTypedWildcard t.user) &&
        (rs.isEmpty || rs.any (fun x => x.typ = userType t.user && x.rel = userRel t.user))) := by
  have hne : rs.isEmpty = false := by
    cases rs with
    | nil => exact absurd rfl h.1
    | cons _ _ => rfl
  unfold matchesAllowed
  rw [hne, Bool.false_or]
  by_cases hu : isUserset t.user = true
  · have hw : isTypedWildcard t.user = false := by
      simp only [isTypedWildcard, hu, Bool.not_true, Bool.and_false]
    have hrel : userRel t.user ≠ "" := by simpa [isUserset, userRel] using hu
    rw [hu, hw]
    congr 1
    apply any_congr_mem
    intro x hx
    rcases h.2 x hx with ⟨h5, h6⟩ | ⟨h5, h6⟩
    · simp only [h6, Bool.false_and, Bool.false_or, Bool.not_false, Bool.and_true, Bool.true_and, ne_eq, h5,
        not_false_eq_true, decide_true]
      rw [Bool.eq_iff_iff]
      simp only [Bool.and_eq_true, decide_eq_true_eq]
      exact ⟨fun ⟨a, b⟩ => ⟨a.symm, b.symm⟩, fun ⟨a, b⟩ => ⟨a.symm, b.symm⟩⟩
    · have : decide (x.rel = userRel t.user) = false := by
        simp only [decide_eq_false_iff_not, h5]; exact fun e => hrel e.symm
      simp [h5, h6]
      exact fun _ => hrel
  · have hu' : isUserset t.user = false := by simpa using hu
    have hrel : userRel t.user = "" := by simpa [isUserset, userRel] using hu'
    by_cases hw : isTypedWildcard t.user = true
    · rw [hu', hw]
      congr 1
      apply any_congr_mem
      intro x hx
      rcases h.2 x hx with ⟨h5, h6⟩ | ⟨h5, h6⟩
      · have : decide (x.rel = userRel t.user) = false := by
          simp only [decide_eq_false_iff_not, hrel]; exact h5
        simp [h6, this]
      · simp only [h6, Bool.true_and, h5, ne_eq, not_true_eq_false, decide_false, Bool.false_and, Bool.or_false,
          hrel, decide_true, Bool.and_true]
        rw [Bool.eq_iff_iff]
        simp only [decide_eq_true_eq]
        exact eq_comm
    · have hw' : isTypedWildcard t.user = false := by simpa using hw
      simp [hu', hw']

/-- **ReadUsersetTuples**: for the references the engines pass, the contextual side selects exactly
what the datastore selects. -/
theorem readUsersetTuples_spec (ctx ctxO stored : List Tuple) (hperm : ctxO.Perm ctx) (o r : String)
    (ho : o ≠ "") (hr : r ≠ "") (rs : List Restr) (hrs : EngineRestrs rs) :
    (readUsersetTuples ctxO stored o r rs).Perm (storeReadUsersets (stored ++ ctx) o r rs) := by
  have e : (filterTuples ctxO o r []).filter (fun t => matchesAllowed t rs) = storeReadUsersets ctxO o r rs := by
    unfold filterTuples storeReadUsersets
    rw [List.filter_filter]
    congr 1
    funext t
    rw [matchesAllowed_eq rs hrs t]
    simp [ho, hr, Bool.and_assoc]
    -- both sides: obj ∧ rel ∧ (userset ∨ wildcard) ∧ reference match
    cases decide (t.obj = o) <;> cases decide (t.rel = r) <;> simp
  unfold readUsersetTuples
  rw [e]
  simp only [storeReadUsersets, List.filter_append]
  exact List.perm_append_comm.trans (List.Perm.append_left _ (hperm.filter _))

/-- the full statement for `ReadStartingWithUser`: like the datastore for every filter and option -/
def FullRswuSpec : Prop :=
  ∀ (ctx stored : List Tuple) (typ r : String) (users : List String) (ids : Option (List String)) (sorted : Bool),
    (readStartingWithUser ctx stored typ r users ids sorted).Perm
      (storeReadStartingWithUser (stored ++ ctx) typ r users ids)

theorem insertById_perm (t : Tuple) (l : List Tuple) : (insertById t l).Perm (t :: l) := by
  induction l with
  | nil => simp [insertById]
  | cons x xs ih =>
    unfold insertById
    split
    · exact List.Perm.refl _
    · exact (List.Perm.cons x ih).trans (List.Perm.swap t x xs)

theorem sortById_perm (ts : List Tuple) : (sortById ts).Perm ts := by
  unfold sortById
  have key : ∀ (l acc : List Tuple), (l.foldl (fun acc t => insertById t acc) acc).Perm (l ++ acc) := by
    intro l
    induction l with
    | nil => intro acc; simp
    | cons y ys ih =>
      intro acc
      simp only [List.foldl_cons, List.cons_append]
      exact (ih _).trans ((List.Perm.append_left ys (insertById_perm y acc)).trans List.perm_middle)
  simpa using key ts []

theorem copies_of_nodup (users : List String) (hn : users.Nodup) (t : Tuple) :
    (users.filter (· = t.user)).map (fun _ => t) = if users.contains t.user then [t] else [] := by
  induction users with
  | nil => simp
  | cons u us ih =>
    have hnd := List.nodup_cons.mp hn
    by_cases hu : u = t.user
    · subst hu
      have : us.filter (· = t.user) = [] := by
        apply List.filter_eq_nil_iff.mpr
        intro a ha hc
        exact hnd.1 (of_decide_eq_true hc ▸ ha)
      simp [this]
    · have ih' := ih hnd.2
      have hne : (t.user == u) = false := by simpa using fun h => hu h.symm
      simp only [List.filter_cons, hu, decide_false, List.contains_cons, hne, Bool.false_or] at ih' ⊢
      simpa using ih'

/-- **ReadStartingWithUser, partial**: without `ObjectIDs`, without the sorted option and with pairwise
different user filters, the combined read is the datastore read over stored ∪ contextual (as a multiset;
the datastore sorts by object id, the combined reader puts the contextual tuples first). -/
theorem rswu_spec_partial (ctx ctxO stored : List Tuple) (hperm : ctxO.Perm ctx) (typ r : String) (hr : r ≠ "")
    (users : List String) (hn : users.Nodup) (hne : users ≠ []) :
    (readStartingWithUser ctxO stored typ r users none false).Perm
      (storeReadStartingWithUser (stored ++ ctx) typ r users none) := by
  have hemp : users.isEmpty = false := by
    cases users with
    | nil => exact absurd rfl hne
    | cons _ _ => rfl
  have flat : ∀ (c : Tuple → Bool) (l : List Tuple), l.flatMap (fun t => if c t then [t] else []) = l.filter c := by
    intro c l
    induction l with
    | nil => rfl
    | cons x xs ih => by_cases hx : c x = true <;> simp [List.flatMap_cons, hx, ih]
  have store_eq : ∀ l : List Tuple, (storeReadStartingWithUser l typ r users none).Perm
      (l.filter (fun t => typeOf t.obj = typ && t.rel = r && users.contains t.user)) := by
    intro l
    unfold storeReadStartingWithUser
    refine (sortById_perm _).trans ?_
    apply List.Perm.of_eq
    have : (fun t : Tuple => (users.filter (· = t.user)).map (fun _ => t)) =
        (fun t => if users.contains t.user then [t] else []) := by
      funext t; exact copies_of_nodup users hn t
    rw [this, flat, List.filter_filter]
    congr 1
    funext t
    simp only [Bool.and_true]
    cases decide (typeOf t.obj = typ) <;> cases decide (t.rel = r) <;> cases users.contains t.user <;> rfl
  have ctx_eq : ctxStartingWithUser ctxO typ r users =
      ctxO.filter (fun t => typeOf t.obj = typ && t.rel = r && users.contains t.user) := by
    unfold ctxStartingWithUser filterTuples
    rw [List.filter_filter]
    congr 1
    funext t
    simp only [decide_true, Bool.true_or, Bool.true_and, hr, decide_false, Bool.false_or, hemp]
    cases decide (typeOf t.obj = typ) <;> cases decide (t.rel = r) <;> cases users.contains t.user <;> rfl
  simp only [readStartingWithUser, Bool.false_eq_true, ↓reduceIte]
  refine List.Perm.trans ?_ (store_eq (stored ++ ctx)).symm
  rw [ctx_eq, List.filter_append]
  exact (List.Perm.append (hperm.filter _) (store_eq stored)).trans List.perm_append_comm

/-! ## the weighted-graph engine's indexes -/

theorem mem_insertSortedBy (key : Tuple → String) (t x : Tuple) (l : List Tuple) :
    x ∈ insertSortedBy key t l → x = t ∨ x ∈ l := by
  induction l with
  | nil => intro h; simpa [insertSortedBy] using h
  | cons y ys ih =>
    unfold insertSortedBy
    split
    · intro h
      rcases List.mem_cons.mp h with h | h
      · exact Or.inr (by simp [h])
      · rcases ih h with h | h
        · exact Or.inl h
        · exact Or.inr (List.mem_cons_of_mem _ h)
    · split
      · intro h; exact Or.inr h
      · intro h
        rcases List.mem_cons.mp h with h | h
        · exact Or.inl h
        · exact Or.inr h

/-- an insertion keeps the slice strictly ascending by the sort key -/
theorem insertSortedBy_sorted (key : Tuple → String) (t : Tuple) (l : List Tuple)
    (h : l.Pairwise (fun a b => key a < key b)) : (insertSortedBy key t l).Pairwise (fun a b => key a < key b) := by
  induction l with
  | nil => simp [insertSortedBy]
  | cons y ys ih =>
    have hp := List.pairwise_cons.mp h
    unfold insertSortedBy
    split
    · rename_i hlt
      refine List.pairwise_cons.mpr ⟨?_, ih hp.2⟩
      intro a ha
      rcases mem_insertSortedBy key t a ys ha with rfl | ha
      · exact hlt
      · exact hp.1 a ha
    · split
      · exact h
      · rename_i h1 h2
        have hty : key t < key y := by
          rcases String.le_total (key y) (key t) with h3 | h3
          · exact absurd (String.le_antisymm h3 (String.not_lt.mp h1)) h2
          · exact Decidable.byContradiction fun hn => h2 (String.le_antisymm (String.not_lt.mp hn) h3)
        refine List.pairwise_cons.mpr ⟨?_, h⟩
        intro a ha
        rcases List.mem_cons.mp ha with rfl | ha
        · exact hty
        · exact String.lt_trans hty (hp.1 a ha)

/-- after an insertion some entry carries the new sort key, and old entries stay -/
theorem insertSortedBy_covers (key : Tuple → String) (t : Tuple) (l : List Tuple) :
    (∃ x ∈ insertSortedBy key t l, key x = key t) ∧ (∀ x ∈ l, x ∈ insertSortedBy key t l) := by
  induction l with
  | nil => simp [insertSortedBy]
  | cons y ys ih =>
    unfold insertSortedBy
    split
    · obtain ⟨⟨x, hx, hk⟩, hold⟩ := ih
      refine ⟨⟨x, List.mem_cons_of_mem _ hx, hk⟩, ?_⟩
      intro a ha
      rcases List.mem_cons.mp ha with rfl | ha
      · simp
      · exact List.mem_cons_of_mem _ (hold a ha)
    · split
      · rename_i h2
        exact ⟨⟨y, by simp, h2⟩, fun a ha => ha⟩
      · exact ⟨⟨t, by simp, rfl⟩, fun a ha => List.mem_cons_of_mem _ ha⟩

theorem foldl_insertSortedBy (key : Tuple → String) : ∀ (l acc : List Tuple),
    acc.Pairwise (fun a b => key a < key b) →
    let res := l.foldl (fun acc t => insertSortedBy key t acc) acc
    res.Pairwise (fun a b => key a < key b) ∧ (∀ x ∈ res, x ∈ l ∨ x ∈ acc) ∧
      (∀ x ∈ acc, x ∈ res) ∧ (∀ t ∈ l, ∃ x ∈ res, key x = key t)
  | [], acc, h => ⟨h, fun x hx => Or.inr hx, fun x hx => hx, fun t ht => by cases ht⟩
  | y :: ys, acc, h => by
    have step := foldl_insertSortedBy key ys (insertSortedBy key y acc) (insertSortedBy_sorted key y acc h)
    obtain ⟨s1, s2, s3, s4⟩ := step
    have cov := insertSortedBy_covers key y acc
    refine ⟨s1, ?_, ?_, ?_⟩
    · intro x hx
      rcases s2 x hx with h1 | h1
      · exact Or.inl (List.mem_cons_of_mem _ h1)
      · rcases mem_insertSortedBy key y x acc h1 with rfl | h2
        · exact Or.inl (by simp)
        · exact Or.inr h2
    · intro x hx
      exact s3 x (cov.2 x hx)
    · intro t ht
      rcases List.mem_cons.mp ht with rfl | ht
      · obtain ⟨x, hx, hk⟩ := cov.1
        exact ⟨x, s3 x hx, hk⟩
      · exact s4 t ht

/-- **Index entries are strictly sorted** (so duplicate free) — both indexes. -/
theorem ctxIndex_sorted (ctx : List Tuple) (a r b : String) :
    (ctxByObject ctx a r b).Pairwise (fun x y => x.user < y.user) ∧
    (ctxByUser ctx a r b).Pairwise (fun x y => x.obj < y.obj) :=
  ⟨(foldl_insertSortedBy (·.user) _ [] List.Pairwise.nil).1, (foldl_insertSortedBy (·.obj) _ [] List.Pairwise.nil).1⟩

/-- **Index entries hold exactly the contextual tuples filed under their key**, when tuple keys are
pairwise different (the duplicate skip of `insertSortedTuple` then never fires on a different tuple). -/
theorem ctxIndex_mem (ctx : List Tuple) (huniq : CtxSplit.KeyUnique ctx) (o r ut : String) (t : Tuple) :
    t ∈ ctxByObject ctx o r ut ↔ t ∈ ctx ∧ t.obj = o ∧ t.rel = r ∧ indexUserType t.user = ut := by
  have hf := foldl_insertSortedBy (·.user) (ctx.filter (fun t => t.obj = o && t.rel = r && indexUserType t.user = ut)) []
    List.Pairwise.nil
  obtain ⟨_, h2, _, h4⟩ := hf
  have memf : ∀ x, x ∈ ctx.filter (fun t => t.obj = o && t.rel = r && indexUserType t.user = ut) ↔
      x ∈ ctx ∧ x.obj = o ∧ x.rel = r ∧ indexUserType x.user = ut := by
    intro x; simp [List.mem_filter, and_assoc]
  constructor
  · intro ht
    rcases h2 t ht with h | h
    · exact (memf t).mp h
    · cases h
  · intro ht
    obtain ⟨x, hx, hk⟩ := h4 t ((memf t).mpr ht)
    have hxm : x ∈ ctx ∧ x.obj = o ∧ x.rel = r ∧ indexUserType x.user = ut := by
      rcases h2 x hx with h | h
      · exact (memf x).mp h
      · cases h
    have : x = t := huniq x hxm.1 t ht.1 (hxm.2.1.trans ht.2.1.symm) (hxm.2.2.1.trans ht.2.2.1.symm) hk
    exact this ▸ hx

/-! ### the wildcard lookup of `specificTypeWildcard` over an index entry -/

/-- a lookup that walks the whole list finds an element satisfying `p` iff there is one — wherever it sits -/
theorem find_isSome_iff {α : Type} (p : α → Bool) (l : List α) : (l.find? p).isSome ↔ ∃ x ∈ l, p x = true := by
  simp [List.find?_isSome]

/-- **The wildcard lookup needs the whole bucket.**  With pairwise different tuple keys, the lookup of
`specificTypeWildcard` over the index entry of `(object, relation, userType)` finds a tuple iff the request
carries a typed-wildcard contextual tuple filed under that key — WHEREVER it sorts among the users of the
entry — and what it finds is such a tuple of the request. -/
theorem ctxWildcard_found_iff (ctx : List Tuple) (huniq : CtxSplit.KeyUnique ctx) (o r ut : String) :
    ((ctxWildcardLookup (ctxByObject ctx o r ut)).isSome ↔
      ∃ t ∈ ctx, t.obj = o ∧ t.rel = r ∧ indexUserType t.user = ut ∧ isTypedWildcard t.user = true) ∧
    (∀ t, ctxWildcardLookup (ctxByObject ctx o r ut) = some t →
      t ∈ ctx ∧ t.obj = o ∧ t.rel = r ∧ indexUserType t.user = ut ∧ isTypedWildcard t.user = true) := by
  constructor
  · rw [ctxWildcardLookup, find_isSome_iff]
    constructor
    · rintro ⟨t, ht, hw⟩
      have := (ctxIndex_mem ctx huniq o r ut t).mp ht
      exact ⟨t, this.1, this.2.1, this.2.2.1, this.2.2.2, hw⟩
    · rintro ⟨t, ht, h1, h2, h3, hw⟩
      exact ⟨t, (ctxIndex_mem ctx huniq o r ut t).mpr ⟨ht, h1, h2, h3⟩, hw⟩
  · intro t ht
    have hm := List.mem_of_find?_eq_some ht
    have hw := List.find?_some ht
    have := (ctxIndex_mem ctx huniq o r ut t).mp hm
    exact ⟨this.1, this.2.1, this.2.2.1, this.2.2.2, hw⟩

/-- **An index-0 shortcut is not a lookup**: whenever the first entry of a bucket is no wildcard but a later
one is, looking at the head only misses the wildcard that the loop finds. -/
theorem ctxWildcard_head_only_incomplete (a w : Tuple) (rest : List Tuple)
    (ha : isTypedWildcard a.user = false) (hw : isTypedWildcard w.user = true) :
    ctxWildcardHeadOnly (a :: w :: rest) = none ∧ ctxWildcardLookup (a :: w :: rest) = some w := by
  simp [ctxWildcardHeadOnly, ctxWildcardLookup, ha, hw]

/-! ## Check (default engine) -/

/-- **c04_check** — see `Proofs/CtxSplit.lean`. -/
theorem c04_check (w : World) (c s : List Tuple) (hu : CtxSplit.KeyUnique (s ++ c)) (rk1 rk2 : Node → Nat)
    (hs1 : BoolSys.Stratified (sysOf (CtxSplit.splitWorld w c s)) rk1)
    (hs2 : BoolSys.Stratified (sysOf (CtxSplit.mergedWorld w c s)) rk2)
    (d1 d2 : Nat) (a1 c1 a2 c2 : Bool)
    (e1 : Dfs.Eval (sysOf (CtxSplit.splitWorld w c s)) Dfs.noFacts d1 0 [] (rootExpr (CtxSplit.splitWorld w c s)) (.ok a1 c1 false))
    (e2 : Dfs.Eval (sysOf (CtxSplit.mergedWorld w c s)) Dfs.noFacts d2 0 [] (rootExpr (CtxSplit.mergedWorld w c s)) (.ok a2 c2 false)) :
    a1 = a2 :=
  CtxSplit.c04_check_split w c s hu rk1 rk2 hs1 hs2 d1 d2 a1 c1 a2 c2 e1 e2

/-! ## Expand -/

/-- **c04_expand**: the tree with contextual tuples `c` over the store `s` and the tree over the store
`s ++ c` satisfy the same property check (`conforms` for the tuple set `c ++ s`), and every direct leaf
is literally the same. -/
theorem c04_expand (m : Vocab.Model) (c s : List Tuple) (o r : String) (ho : o ≠ "") (hr : r ≠ "")
    (rw : Rewrite) (t1 t2 : Expand.Tree)
    (h1 : Expand.expandRw m (orderCtx c) s o r rw = some t1) (h2 : Expand.expandRw m [] (s ++ c) o r rw = some t2) :
    Expand.conforms m (c ++ s) o r rw t1 = true ∧ Expand.conforms m ([] ++ (s ++ c)) o r rw t2 = true ∧
    Expand.thisLeaf m (orderCtx c) s o r = Expand.thisLeaf m [] (s ++ c) o r := by
  refine ⟨C30.expand_conforms m c (orderCtx c) s (fun t => (orderCtx_perm c).mem_iff) o r ho hr rw t1 h1,
    C30.expand_conforms m [] [] (s ++ c) (fun _ => Iff.rfl) o r ho hr rw t2 h2, ?_⟩
  apply C30.thisLeaf_congr
  intro u
  simp only [List.mem_map]
  have e1 := fun t => C30.mem_validRead m c (orderCtx c) s (fun t => (orderCtx_perm c).mem_iff) o r ho hr t
  have e2 := fun t => C30.mem_validRead m [] [] (s ++ c) (fun _ => Iff.rfl) o r ho hr t
  have e3 : ∀ t, t ∈ Expand.validOn m (c ++ s) o r ↔ t ∈ Expand.validOn m ([] ++ (s ++ c)) o r := by
    intro t
    simp only [Expand.validOn, List.mem_filter, List.mem_append, List.nil_append]
    constructor <;> rintro ⟨h | h, h'⟩ <;> first | exact ⟨Or.inr h, h'⟩ | exact ⟨Or.inl h, h'⟩
  constructor <;> rintro ⟨t, ht, rfl⟩
  · exact ⟨t, (e2 t).mpr ((e3 t).mp ((e1 t).mp ht)), rfl⟩
  · exact ⟨t, (e1 t).mpr ((e3 t).mpr ((e2 t).mp ht)), rfl⟩

/-! ## non-persistence / non-interference -/

section stack
variable {K : Type} [DecidableEq K]

/-- cache invariant: every cached iterator is the datastore's answer for its key (unchanged store) -/
def CacheSound (rd : K → List Tuple) (c : IterCache K) : Prop := ∀ k v, cacheGet c k = some v → v = rd k

theorem cacheGet_append_miss (c : IterCache K) (k k' : K) (v : List Tuple) (hmiss : cacheGet c k = none) :
    cacheGet (c ++ [(k, v)]) k' = if k' = k then some v else cacheGet c k' := by
  unfold cacheGet at *
  rw [List.find?_append]
  by_cases hk : k' = k
  · subst hk
    have : c.find? (fun p => decide (p.1 = k')) = none := by
      cases hf : c.find? (fun p => decide (p.1 = k')) with
      | none => rfl
      | some x => simp [hf] at hmiss
    simp [this]
  · cases hf : c.find? (fun p => decide (p.1 = k')) with
    | some x => simp [hk]
    | none =>
      have : ¬ k = k' := fun h => hk h.symm
      simp [hk, this]

theorem cachedRead_spec (rd : K → List Tuple) (c : IterCache K) (hs : CacheSound rd c) (k : K) :
    (cachedRead rd c k).1 = rd k ∧ CacheSound rd (cachedRead rd c k).2 := by
  unfold cachedRead
  cases hg : cacheGet c k with
  | some v => exact ⟨hs k v hg, hs⟩
  | none =>
    refine ⟨rfl, ?_⟩
    intro k' v' h'
    rw [cacheGet_append_miss c k k' (rd k) hg] at h'
    by_cases hk : k' = k
    · subst hk; simp at h'; exact h'.symm
    · simp [hk] at h'; exact hs k' v' h'

/-- **The iterator cache never sees contextual tuples.**  For every history of reads issued by requests
with arbitrary contextual tuples against an unchanged store: each answer is the request's OWN contextual
tuples (as selected for that read) followed by the datastore's answer, and the cache evolves exactly as
in the history where nobody sends contextual tuples — so nothing of one request's contextual tuples
persists or reaches another request through the iterator caches. -/
theorem iterator_cache_never_sees_ctx (rd : K → List Tuple) (sel : List Tuple → K → List Tuple) :
    ∀ (hist : List (List Tuple × K)) (c : IterCache K), CacheSound rd c →
      (runReads rd sel c hist).1 = hist.map (fun p => sel p.1 p.2 ++ rd p.2) ∧
      (runReads rd sel c hist).2 = (runReads rd sel c (hist.map (fun p => ([], p.2)))).2 ∧
      CacheSound rd (runReads rd sel c hist).2
  | [], c, hs => ⟨rfl, rfl, hs⟩
  | (ctx, k) :: rest, c, hs => by
    have h1 := cachedRead_spec rd c hs k
    have ih := iterator_cache_never_sees_ctx rd sel rest (cachedRead rd c k).2 h1.2
    simp only [runReads, requestRead, List.map_cons]
    refine ⟨?_, ?_, ih.2.2⟩
    · rw [ih.1, h1.1]
    · exact ih.2.1

/-- **One command, many Execute calls (BatchCheck).**  With the request wrapper built inside `Execute`
(`perExecute = true`, tied to the source by `tie_request_wrapper_scope`), every call of a shared command is
answered with ITS OWN contextual tuples in front of the datastore's answer, whatever the other calls carry. -/
theorem shared_command_each_call_own_ctx (rd : K → List Tuple) (sel : List Tuple → K → List Tuple)
    (calls : List (List Tuple × K)) (c : IterCache K) (hs : CacheSound rd c) :
    (serveCalls rd sel true c calls).1 = calls.map (fun p => sel p.1 p.2 ++ rd p.2) := by
  simp only [serveCalls, if_true]
  exact (iterator_cache_never_sees_ctx rd sel calls c hs).1

/-- a wrapper memoised on the command answers every call with the contextual tuples of the FIRST call -/
theorem memoised_wrapper_first_ctx (rd : K → List Tuple) (sel : List Tuple → K → List Tuple)
    (ctx0 : List Tuple) (k0 : K) (rest : List (List Tuple × K)) (c : IterCache K) (hs : CacheSound rd c) :
    (serveCalls rd sel false c ((ctx0, k0) :: rest)).1 = ((ctx0, k0) :: rest).map (fun p => sel ctx0 p.2 ++ rd p.2) := by
  simp only [serveCalls, Bool.false_eq_true, if_false]
  rw [(iterator_cache_never_sees_ctx rd sel _ c hs).1]
  simp [List.map_map, Function.comp_def]

end stack

section keys
open OpenFGAVerif.Model.Keys OpenFGAVerif.Proofs.KeysPb OpenFGAVerif.Proofs.KeysTuple

/-- **Sub-problem cache entries of requests with different contextual tuples have different keys**
(contrapositive of `C24.subproblem_key_injective_upto_digest`; `hnc`: no digest collision on the two
pre-images). -/
theorem subproblem_keys_differ (H : Bytes → UInt64) (L : List Field) (hL : ("checkCacheKey", L) ∈ C24.genPlainLayouts)
    (s o r u m : Bytes) (c : List (Bytes × PbV)) (ts1 ts2 : List Tup)
    (hnc : H (invariantPre genTags (goSort tupleLess) s m c ts1) = H (invariantPre genTags (goSort tupleLess) s m c ts2) →
      invariantPre genTags (goSort tupleLess) s m c ts1 = invariantPre genTags (goSort tupleLess) s m c ts2)
    (hdiff : (goSort tupleLess ts1).map tupNorm ≠ (goSort tupleLess ts2).map tupNorm) :
    checkKey genTags L s o r u (invariantKey genTags H (goSort tupleLess) s m c ts1) ≠
      checkKey genTags L s o r u (invariantKey genTags H (goSort tupleLess) s m c ts2) := by
  intro h
  exact hdiff (C24.subproblem_key_injective_upto_digest H (goSort tupleLess) L hL s o r u m c ts1 s o r u m c ts2 hnc h).2.2.2.2.2.1

end keys

/-! ## Ties to the regenerated source facts (`Gen.CombinedReader`, extract/facts_combinedreader.go) -/

set_option maxRecDepth 200000 in
/-- ordering of the contextual tuples and the filter condition -/
theorem tie_ctx_order_and_filter :
    Gen.CombinedReader.sortCmp = "cu:strings.Compare(a.GetObject(), b.GetObject())" ∧
    Gen.CombinedReader.filterTuplesCond =
      "(targetObject == \"\" || tk.GetObject() == targetObject) && (targetRelation == \"\" || tk.GetRelation() == targetRelation) && (len(targetUsers) == 0 || slices.Contains(targetUsers, tk.GetUser()))" := by
  decide

set_option maxRecDepth 200000 in
/-- which filter fields reach the contextual side, and contextual before stored, in every read -/
theorem tie_reads :
    Gen.CombinedReader.readSteps =
      ["filterTuples(c.contextualTuplesOrderedByObjectID, filter.Object, filter.Relation, []string{})",
       "c.RelationshipTupleReader.Read(ctx, storeID, filter, options)", "storage.NewCombinedIterator(iter1, iter2)"] ∧
    Gen.CombinedReader.readPageSteps = ["c.RelationshipTupleReader.ReadPage(ctx, store, filter, options)"] ∧
    Gen.CombinedReader.readUserTupleSteps =
      ["filterTuples(c.contextualTuplesOrderedByObjectID, filter.Object, filter.Relation, targetUsers)",
       "if:t.GetKey().GetUser() == filter.User", "c.RelationshipTupleReader.ReadUserTuple(ctx, store, filter, options)"] ∧
    Gen.CombinedReader.readUsersetTuplesSteps =
      ["filterTuples(c.contextualTuplesOrderedByObjectID, filter.Object, filter.Relation, []string{})",
       "tupleMatchesAllowedUserTypeRestrictions(t, filter.AllowedUserTypeRestrictions)",
       "c.RelationshipTupleReader.ReadUsersetTuples(ctx, store, filter, options)", "storage.NewCombinedIterator(iter1, iter2)"] ∧
    Gen.CombinedReader.readStartingWithUserSteps =
      ["if:u.GetRelation() != \"\"", "filterTuples(c.contextualTuplesOrderedByObjectID, \"\", filter.Relation, userFilters)",
       "if:tuple.GetType(t.GetKey().GetObject()) != filter.ObjectType",
       "c.RelationshipTupleReader.ReadStartingWithUser(ctx, store, filter, options)", "if:options.WithResultsSortedAscending",
       "storage.NewOrderedCombinedIterator(storage.ObjectMapper(), iter1, iter2)", "storage.NewCombinedIterator(iter1, iter2)"] := by
  decide

set_option maxRecDepth 200000 in
/-- **wrapper order**: bounded reader, iterator cache, shared iterators, and the combined reader LAST —
the caches are below the contextual tuples (`iterator_cache_never_sees_ctx` models exactly this stack) -/
theorem tie_wrapper_order :
    Gen.CombinedReader.wrapperStackWithCache =
      ["NewBoundedTupleReader(ds)", "NewCachedDatastore(tupleReader)", "NewCachedDatastore(tupleReader)",
       "sharediterator.NewSharedIteratorDatastore(tupleReader)", "NewCombinedTupleReader(tupleReader,requestContextualTuples)",
       "returns:combinedTupleReader"] ∧
    Gen.CombinedReader.wrapperStackPlain =
      ["NewBoundedTupleReader(ds)", "returns:NewCombinedTupleReader(…)", "NewCombinedTupleReader(instrumented,requestContextualTuples)"] := by
  decide

set_option maxRecDepth 200000 in
/-- the weighted-graph engine's indexes: key functions and `insertSortedTuple` -/
theorem tie_v2_indexes :
    Gen.CombinedReader.buildCtxMapsFacts =
      ["userKey := ctxTuplesByUserKey(user, relation, objectType)",
       "r.ctxTuplesByUserID[userKey] = insertSortedTuple(r.ctxTuplesByUserID[userKey], t, \"object\")",
       "objectKey := ctxTuplesByObjectKey(object, relation, userType)",
       "r.ctxTuplesByObjectID[objectKey] = insertSortedTuple(r.ctxTuplesByObjectID[objectKey], t, \"user\")"] ∧
    Gen.CombinedReader.insertSortedTupleFacts =
      ["if:sortKey == \"object\"", "if:sortKey == \"object\"", "return existingKey >= newKey", "if:i < len(slice)",
       "if:sortKey == \"object\"", "if:existingKey == newKey", "return slice", "slice = slices.Insert(slice, i, t)", "return slice"] := by
  decide

set_option maxRecDepth 200000 in
/-- the contextual part of `specificTypeWildcard`: a loop over the WHOLE bucket that takes the first typed
wildcard and stops there (no index-0 shortcut, no break before a match) — `ctxWildcardLookup` -/
theorem tie_v2_wildcard_lookup :
    Gen.CombinedReader.wildcardCtxLookup =
      ["if ctxTuples, ok := req.GetContextualTuplesByObjectID(req.GetTupleKey().GetObject(), relation, req.GetUserType()); ok", "{",
       "for _, ct := range ctxTuples", "{", "if tuple.IsTypedWildcard(ct.GetUser())", "{",
       "iter = storage.NewStaticTupleKeyIterator([]*openfgav1.TupleKey{ct})", "break", "}", "}", "}"] := by
  decide

set_option maxRecDepth 200000 in
/-- **where the request-scoped datastore view is built** (`Gen.ReqScope`, extract/facts_reqscope.go): the only
call of NewRequestStorageWrapperWithCache in check_command.go is a top-level statement of
`CheckQuery.Execute` (not inside a function literal) taking the contextual tuples of THAT call's params; the
resulting local variable is what the resolver reads through; Execute writes no field of the command, calls no
`.Do(`, and the struct has no field that could keep a wrapper, a once or tuples between calls.  Likewise the
weighted-graph command builds its `check.Request` per call from the params. -/
theorem tie_request_wrapper_scope :
    Gen.ReqScope.v1WrapperSites = ["CheckQuery.Execute:funclit-depth=0"] ∧
    Gen.ReqScope.v1WrapperStmt = "datastoreWithTupleCache := storagewrappers.NewRequestStorageWrapperWithCache" ∧
    Gen.ReqScope.v1WrapperArgs = ["c.datastore", "params.ContextualTuples.GetTupleKeys()"] ∧
    Gen.ReqScope.v1ContextReader = ["ctx", "datastoreWithTupleCache"] ∧
    Gen.ReqScope.v1ReceiverWrites = [] ∧ Gen.ReqScope.v1DoCalls = [] ∧ Gen.ReqScope.v1MemoFields = [] ∧
    Gen.ReqScope.v2RequestStmt = "r, err := check.NewRequest" ∧
    Gen.ReqScope.v2RequestContextualTuples = "params.ContextualTuples.GetTupleKeys()" ∧
    Gen.ReqScope.v2ReceiverWrites = [] ∧ Gen.ReqScope.v2ResolveCalls = ["resolver.ResolveCheck(ctx, r)"] := by
  decide

/-! ## Non-vacuity -/

def tA : Tuple := { obj := "doc:1", rel := "viewer", user := "user:a", cond := "", ctx := [] }
def tB : Tuple := { obj := "doc:0", rel := "viewer", user := "user:b", cond := "c1", ctx := [("x", 5)] }
def tC : Tuple := { obj := "doc:1", rel := "viewer", user := "group:g#member", cond := "", ctx := [] }

example : orderCtx [tA, tB, tC] = [tB, tA, tC] := by decide
example : CombinedReader.read (orderCtx [tA, tB]) [tC] "doc:1" "viewer" "" = [tA, tC] := by decide
example : readUserTuple [tA] [tC] "doc:1" "viewer" "group:g#member" = some tC := by decide
example : CtxSplit.KeyUnique ([tC] ++ [tA, tB]) := by
  intro a ha b hb h1 h2 h3
  simp only [List.mem_append, List.mem_cons, List.not_mem_nil, or_false] at ha hb
  rcases ha with rfl | rfl | rfl <;> rcases hb with rfl | rfl | rfl <;> first | rfl | (revert h1 h2 h3; decide)

/-- a history: a request with contextual tuples misses the cache, a later request without them hits it and
sees stored tuples only -/
example : (runReads (fun k : Nat => if k = 0 then [tC] else []) (fun ctx _ => ctx) [] [([tA], 0), ([], 0), ([tB], 1)]).1 =
    [[tA, tC], [tC], [tB]] := by decide

/-- a memoised wrapper leaks: the second call (no contextual tuples of its own) sees the first call's tuple -/
example : (serveCalls (fun _ : Nat => ([] : List Tuple)) (fun ctx _ => ctx) false [] [([tA], 0), ([], 1)]).1 = [[tA], [tA]] ∧
    (serveCalls (fun _ : Nat => ([] : List Tuple)) (fun ctx _ => ctx) true [] [([tA], 0), ([], 1)]).1 = [[tA], []] := by decide

/-! evaluated witnesses for the wildcard lookup: `user:$svc` sorts before `user:*`, so the index entry is
`[user:$svc, user:*]`; the loop finds the wildcard, a look at index 0 does not -/
#guard (ctxByObject [{ tA with user := "user:*" }, { tA with user := "user:$svc" }] "doc:1" "viewer" "user").map (·.user) = ["user:$svc", "user:*"]
#guard (ctxWildcardLookup (ctxByObject [{ tA with user := "user:*" }, { tA with user := "user:$svc" }] "doc:1" "viewer" "user")).map (·.user) = some "user:*"
#guard (ctxWildcardHeadOnly (ctxByObject [{ tA with user := "user:*" }, { tA with user := "user:$svc" }] "doc:1" "viewer" "user")).isNone

/-! evaluated witnesses (string splitting does not reduce in the kernel): the sorted
`ReadStartingWithUser` keeps one tuple per object, and the contextual side ignores `ObjectIDs` -/

#guard (readStartingWithUser [{ tA with obj := "group:g", rel := "member", user := "user:x", cond := "c1" }]
    [{ tA with obj := "group:g", rel := "member", user := "user:*" }] "group" "member" ["user:x", "user:*"] none true).length = 1
#guard (storeReadStartingWithUser ([{ tA with obj := "group:g", rel := "member", user := "user:*" }] ++
    [{ tA with obj := "group:g", rel := "member", user := "user:x", cond := "c1" }]) "group" "member" ["user:x", "user:*"] none).length = 2
#guard (readStartingWithUser [{ tA with obj := "group:g", rel := "member", user := "user:x" }] []
    "group" "member" ["user:x"] (some ["other"]) false).length = 1
#guard (storeReadStartingWithUser [{ tA with obj := "group:g", rel := "member", user := "user:x" }]
    "group" "member" ["user:x"] (some ["other"])).length = 0

end OpenFGAVerif.C04
