/-
C05 — ListObjects returns exactly the permitted objects.

Specification.  `Permitted w I o`: under the reference rules of the world (`CheckV1.idealSys`, the oracle
semantics of C01) the subject definitely holds the requested relation on `o`.  The universe is the set of
objects of the requested type that occur as tuple objects (stored or contextual) plus the subject's own
object when the subject is a userset (`objUniverse`); `result_in_universe` shows the engine never leaves it.

Engine.  `Model.RevExpand`: the classic engine — `GetPrunedRelationshipEdges`, the reverse expansion as a
worklist with the query-global visited map and the candidate map, the consumer loop with the confirming
Check, the `trySendObject` counter, deadline and errors.  Every theorem quantifies over **every schedule**
of the reverse expansion (`sched`) and of the consumer loop (`evs`); a schedule that stops early is a
deadline / cancellation cut.

  reverseExpand_sound        a NoFurtherEval result is permitted (code rules and reference rules)
  candidate_confirmed        a candidate whose Check model answers an untainted `true` is permitted (C01)
  reverseExpand_nodup        the reverse expansion never sends an object twice
  listObjects_sound          every object of the response is permitted — modulo the tainted decisions of the
                             confirming Check (findings F1 / F12 of C01: the taint is carried as hypothesis)
  listObjects_nodup          no object twice in the response
  limit_bound                never more than `limit` objects
  limit_exact_partial        exactly `min limit |confirmed|` when not cut and no send is lost
  limit_exact_fails          ¬ FullLimitExact: the code counts an object before sending it and the send
                             races `cancel()` (reproduced on the real code: candidate finding)
  reverseExpand_complete     every permitted object is sent as a result or as a candidate when the
                             expansion ran to its end without error
  swallowed_error_fails      with `maxResults = 0` ("no limit") a condition-evaluation error never surfaces:
                             a truncated response is returned as if complete (candidate finding)
-/
import OpenFGAVerif.Proofs.RevExpandSem
import OpenFGAVerif.Proofs.RevExpandConsumer
import OpenFGAVerif.Proofs.RevExpandComplete
import OpenFGAVerif.Proofs.RefRules
import OpenFGAVerif.Proofs.ListObjectsOps
import OpenFGAVerif.Gen.ListObjects

namespace OpenFGAVerif.C05
open OpenFGAVerif.Vocab OpenFGAVerif.BoolSys OpenFGAVerif.CheckV1 OpenFGAVerif.Dfs OpenFGAVerif.RevExpand
open OpenFGAVerif.RefRules

/-! ## specification -/

/-- the subject definitely holds the requested relation on `o`, reference rules -/
def Permitted (w : World) (I : Interp Node) (o : String) : Prop := D (idealSys w) I [] (o, w.req.rel)

/-- the same under the rules as the code evaluates them -/
def PermittedCode (w : World) (I : Interp Node) (o : String) : Prop := D (sysOf w) I [] (o, w.req.rel)

/-- objects the answer may range over -/
def objUniverse (w : World) : List String :=
  ((rootNode w).o :: w.all.map (·.obj)).filter (fun o => typeOf o = typeOf w.req.obj)

/-! ## the reverse expansion -/

/-- **reverseExpand_sound** (rules as parameter: `w.ideal` selects code or reference rules).  For every
schedule, fuel and depth limit, also when the walk is cut: a result sent with status NoFurtherEval is an
object on which the subject definitely holds the relation. -/
theorem reverseExpand_sound_rules (w : World) (I : Interp Node) (hnd : NoDupKeys w) (hok : namesOK w.model = true)
    (hp : PruneSound w I) (fuel lim : Nat) (sched : List Nat) :
    ∀ o, (o, false) ∈ (reverseExpand w fuel lim sched).out → D (sysOf w) I [] (o, w.req.rel) := by
  intro o ho
  obtain ⟨n, hg, ht⟩ := run_sound (fgaGraph w (typeOf w.req.obj) w.req.rel fuel) (Good w I)
    (good_step w I hnd hok hp _ _ fuel) lim sched (rootNode w) (good_root w I) (o, false) ho rfl
  simp only [fgaGraph, ftarget] at ht
  split at ht
  · rename_i hc
    simp only [Bool.and_eq_true, decide_eq_true_eq, ne_eq, decide_not, Bool.not_eq_true'] at hc
    cases ht
    unfold Good at hg
    have hne : ¬ n.r = "" := by simpa using hc.1.1
    rw [if_neg hne, hc.1.2] at hg
    exact hg
  · cases ht

theorem reverseExpand_sound_code (w : World) (I : Interp Node) (hnd : NoDupKeys w) (hok : namesOK w.model = true)
    (hp : PruneSound w I) (fuel lim : Nat) (sched : List Nat) :
    ∀ o, (o, false) ∈ (reverseExpand w fuel lim sched).out → PermittedCode w I o :=
  reverseExpand_sound_rules w I hnd hok hp fuel lim sched

/-- the expansion does not look at the `ideal` switch of the world -/
theorem reverseExpand_refW (w : World) (fuel lim : Nat) (sched : List Nat) :
    reverseExpand (refW w) fuel lim sched = reverseExpand w fuel lim sched := rfl

/-- **reverseExpand_sound**: NoFurtherEval results are permitted under the reference semantics. -/
theorem reverseExpand_sound (w : World) (I : Interp Node) (hnd : NoDupKeys w) (hok : namesOK w.model = true)
    (hp : PruneSound (refW w) I) (fuel lim : Nat) (sched : List Nat) :
    ∀ o, (o, false) ∈ (reverseExpand w fuel lim sched).out → Permitted w I o := by
  intro o ho
  rw [← reverseExpand_refW] at ho
  exact reverseExpand_sound_rules (refW w) I hnd hok hp fuel lim sched o ho

/-- **nodup**: for every schedule the reverse expansion sends no object twice. -/
theorem reverseExpand_nodup (w : World) (fuel lim : Nat) (sched : List Nat) :
    ((reverseExpand w fuel lim sched).out.map Prod.fst).Nodup :=
  run_nodup _ lim sched _

/-- every object sent is of the requested type … -/
theorem result_type (w : World) (fuel lim : Nat) (sched : List Nat) :
    ∀ p ∈ (reverseExpand w fuel lim sched).out, typeOf p.1 = typeOf w.req.obj := by
  intro p hp
  obtain ⟨n, _, ht⟩ := run_out_reach (fgaGraph w (typeOf w.req.obj) w.req.rel fuel) lim sched (rootNode w) p hp
  simp only [fgaGraph, ftarget] at ht
  split at ht
  · rename_i hc
    simp only [Bool.and_eq_true, decide_eq_true_eq] at hc
    have := Option.some.inj ht
    rw [← this]; exact hc.2
  · cases ht

/-- … and is the object of a tuple (stored or contextual) or the subject's own object -/
theorem result_in_universe (w : World) (fuel lim : Nat) (sched : List Nat) :
    ∀ p ∈ (reverseExpand w fuel lim sched).out, p.1 ∈ objUniverse w := by
  intro p hp
  have hty := result_type w fuel lim sched p hp
  obtain ⟨n, hr, ht⟩ := run_out_reach (fgaGraph w (typeOf w.req.obj) w.req.rel fuel) lim sched (rootNode w) p hp
  have hobj : ∀ n, Reach (fgaGraph w (typeOf w.req.obj) w.req.rel fuel) (rootNode w) n →
      n.o = (rootNode w).o ∨ n.o ∈ w.all.map (·.obj) := by
    intro n hr
    induction hr with
    | refl => exact Or.inl rfl
    | step _ hp ih =>
      simp only [fgaGraph, fsucc] at hp
      split at hp
      · cases hp
      · obtain ⟨e, _, hpe⟩ := List.mem_flatMap.mp hp
        obtain ⟨o', ho', rfl⟩ := List.mem_map.mp hpe
        simp only
        unfold expandEdge at ho'
        split at ho'
        · simp at ho'; subst ho'; exact ih
        · obtain ⟨t, htf, rfl⟩ := List.mem_map.mp ho'
          right
          have htm : t ∈ w.all := by
            have := (List.mem_filter.mp htf).1
            unfold readEdge at this
            split at this
            · exact (List.mem_filter.mp this).1
            · exact (List.mem_filter.mp this).1
            · cases this
          exact List.mem_map.mpr ⟨t, htm, rfl⟩
  simp only [fgaGraph, ftarget] at ht
  split at ht
  · have hpo := Option.some.inj ht
    rw [← hpo] at hty ⊢
    unfold objUniverse
    simp only [List.mem_filter, decide_eq_true_eq]
    refine ⟨?_, hty⟩
    rcases hobj n hr with h | h
    · rw [h]; simp
    · exact List.mem_cons_of_mem _ h
  · cases ht

/-! ## the confirming Check -/

/-- the model of the Check that confirms candidate `o`: `ResolveCheck` on `(o, relation)` with the
subject, contextual tuples and context of the request (any schedule: an `Eval` derivation) -/
def ConfirmEval (w : World) (maxDepth : Nat) (o : String) (out : Out) : Prop :=
  Eval (sysOf w) noFacts maxDepth 0 [] (.node false (o, w.req.rel)) out

/-- **candidate_confirmed**: a candidate passes through Check, so C01 applies — an untainted `true`
(any schedule, any depth limit) means the object is permitted under the reference semantics. -/
theorem candidate_confirmed (w : World) (hw : w.ideal = false) (rkc rkr : Node → Nat)
    (hc : Stratified (sysOf w) rkc) (hr : Stratified (idealSys w) rkr) (maxDepth : Nat) (o : String) (c : Bool)
    (h : ConfirmEval w maxDepth o (.ok true c false)) :
    Permitted w (stratInterp (idealSys w) rkr) o := by
  have hs := (eval_root_sound_stratified hc h).1 rfl
  exact D_code_sub_ref w hw rkc rkr hc hr _ (holds_node_iff.mp hs)

/-- … and an untainted `false` means it is not even possibly permitted (used for completeness) -/
theorem candidate_rejected (w : World) (hw : w.ideal = false) (rkc rkr : Node → Nat)
    (hc : Stratified (sysOf w) rkc) (hr : Stratified (idealSys w) rkr) (maxDepth : Nat) (o : String) (c : Bool)
    (h : ConfirmEval w maxDepth o (.ok false c false)) :
    ¬ P (idealSys w) (stratInterp (idealSys w) rkr) [] (o, w.req.rel) := by
  intro hp
  have hs := (eval_root_sound_stratified hc h).2 rfl
  exact hs (.node (P_ref_sub_code_stratified w hw rkc rkr hc hr _ hp))

/-! ## the response -/

/-- the objects of the response for reverse-expansion schedule `sched`, consumer schedule `evs`, and
`chk o` = outcome class of the confirming Check of candidate `o` -/
def response (w : World) (fuel lim : Nat) (sched : List Nat) (limit : Nat) (chk : String → CheckRes) (evs : List Ev) : CSt :=
  crun limit chk evs (CSt.init (reverseExpand w fuel lim sched).out)

/-- **listObjects_sound** (`out ⊆ permitted`, always): every schedule of the expansion, every schedule of
the consumer loop — deadline cuts, cancellations, errors, lost sends included.  The taint is carried: the
hypothesis `hchk` says that an `allow` of the confirming Check is an *untainted* `true` of the C01 engine
model (a tainted one is finding F1 / F12). -/
theorem listObjects_sound (w : World) (hw : w.ideal = false) (rkc rkr : Node → Nat)
    (hc : Stratified (sysOf w) rkc) (hr : Stratified (idealSys w) rkr)
    (hnd : NoDupKeys w) (hok : namesOK w.model = true) (hp : PruneSound (refW w) (stratInterp (idealSys w) rkr))
    (fuel lim : Nat) (sched : List Nat) (limit : Nat) (chk : String → CheckRes) (evs : List Ev)
    (hchk : ∀ o, chk o = .allow → ∃ d c, ConfirmEval w d o (.ok true c false)) :
    ∀ o ∈ (response w fuel lim sched limit chk evs).out, Permitted w (stratInterp (idealSys w) rkr) o := by
  intro o ho
  rcases crun_out_confirmed limit chk _ evs o ho with h | ⟨_, hallow⟩
  · exact reverseExpand_sound w _ hnd hok hp fuel lim sched o h
  · obtain ⟨d, c, he⟩ := hchk o hallow
    exact candidate_confirmed w hw rkc rkr hc hr d o c he

/-- **listObjects_nodup**: no object twice, every schedule. -/
theorem listObjects_nodup (w : World) (fuel lim : Nat) (sched : List Nat) (limit : Nat) (chk : String → CheckRes)
    (evs : List Ev) : (response w fuel lim sched limit chk evs).out.Nodup :=
  crun_nodup limit chk _ evs (reverseExpand_nodup w fuel lim sched)

/-- **limit_bound**: never more than `limit` objects, every schedule. -/
theorem limit_bound (w : World) (fuel lim : Nat) (sched : List Nat) (limit : Nat) (hl : limit ≠ 0)
    (chk : String → CheckRes) (evs : List Ev) : (response w fuel lim sched limit chk evs).out.length ≤ limit :=
  crun_bound limit hl chk _ evs

/-- **limit_exact (partial)**: not cut by the deadline, no error, no send lost to `cancel()` ⇒ exactly
`min limit |confirmed|` distinct objects. -/
theorem limit_exact_partial (w : World) (fuel lim : Nat) (sched : List Nat) (limit : Nat) (chk : String → CheckRes)
    (evs : List Ev) (hclean : ∀ e ∈ evs, e.clean = true)
    (hchk : ∀ p ∈ (reverseExpand w fuel lim sched).out, p.2 = true → NoCheckErr chk p.1)
    (hq : (response w fuel lim sched limit chk evs).quiescent = true) :
    (response w fuel lim sched limit chk evs).out.length =
      (if limit = 0 then nConf chk (reverseExpand w fuel lim sched).out
       else min limit (nConf chk (reverseExpand w fuel lim sched).out)) :=
  (RevExpand.limit_exact_partial limit chk _ evs hclean hchk hq).1

/-- the unrestricted statement is false of the code -/
theorem limit_exact_fails : ¬ FullLimitExact := RevExpand.limit_exact_fails

/-! ### a condition error is swallowed when `maxResults = 0` -/

/-- the full statement: when the response is returned without error and was not cut by limit or deadline,
it holds every confirmed object (`zeroErr`: does the final rule of `Execute` fire for `maxResults = 0`) -/
def FullNoSilentTruncation (zeroErr : Bool) : Prop :=
  ∀ (chk : String → CheckRes) (res : List (String × Bool)) (evs : List Ev),
    (∀ e ∈ evs, e ≠ .deadline ∧ e ≠ .stop) → (crun 0 chk evs (CSt.init res)).quiescent = true →
    ∀ l, finalResult zeroErr 0 (crun 0 chk evs (CSt.init res)) = some l → l.length = nConf chk res

/-- `maxResults = 0` means "no limit".  The reverse expansion reports a condition-evaluation error after
having sent two NoFurtherEval results; the loop's `select` takes `reverseExpandDoneWithError` first, and
`Execute` drops the error because `len(objects) < int(maxResults)` is never true for 0: an empty list is
returned as a complete answer. -/
theorem swallowed_error_fails : ¬ FullNoSilentTruncation false := by
  intro h
  have := h (fun _ => .allow) [("doc:2", false), ("doc:3", false)] [.reError false]
    (by intro e he; simp at he; subst he; simp) (by decide) [] (by decide)
  revert this
  decide

/-- with the rule extended to `maxResults = 0` a response is only returned when no error occurred -/
theorem fixed_rule_reports (s : CSt) (l : List String) (h : finalResult true 0 s = some l) : s.err = false := by
  unfold finalResult at h
  cases he : s.err with
  | false => rfl
  | true => simp [he] at h

/-- the final rule of `Execute` covers `maxResults = 0` (fix of finding L2); a revert breaks this lemma -/
theorem tie_final_error_rule :
    Gen.ListObjects.finalErrorRule = "(maxResults == 0 || len(listObjectsResponse.Objects) < int(maxResults)) && errs != nil" ∧
    Gen.ListObjects.zeroLimitReportsErrors = true := by decide

/-- weighted engine, exclusion without excluded edge (fix of finding L1): the traversal that sends to the
caller's `resultChan` runs on the caller (`c.loopOverEdges`), not on a shallow clone with a fresh
`candidateObjectsMap`; a revert breaks this lemma -/
theorem tie_weighted_exclusion_dedup :
    Gen.ListObjects.exclusionNoExcludedEdgeChan = "resultChan" ∧
    Gen.ListObjects.exclusionNoExcludedEdgeCall = "c.loopOverEdges" := by decide

/-- **No silent truncation** (the rule as the source has it now, `zeroLimitReportsErrors = true`): with
`maxResults = 0`, for every schedule without deadline — errors of the reverse expansion or of a Check,
cancellations and `drop` choices included — a response that is returned without error holds every
confirmed object. -/
theorem no_silent_truncation : FullNoSilentTruncation Gen.ListObjects.zeroLimitReportsErrors := by
  rw [tie_final_error_rule.2]
  intro chk res evs hev hq l hl
  have herr := fixed_rule_reports _ l hl
  have hout : l = (crun 0 chk evs (CSt.init res)).out := by
    unfold finalResult at hl
    rw [herr] at hl
    simpa using hl.symm
  rw [hout]
  exact RevExpand.zero_limit_complete chk res evs hev hq herr

/-! ## completeness -/

/-- **reverseExpand_complete**: the expansion ran to its end (no dispatch pending, no error) ⇒ every
object of the requested type on which the subject definitely holds the relation (reference semantics,
hence also under the code rules) was sent, as a result or as a candidate.  Every schedule. -/
theorem reverseExpand_complete (w : World) (I : Interp Node) (hwf : WellFormed w.model)
    (hrel : (w.model.findRel (typeOf w.req.obj) w.req.rel).isSome = true) (fuel lim : Nat) (sched : List Nat)
    (hfin : (reverseExpand w fuel lim sched).work = []) (hne : (reverseExpand w fuel lim sched).err = false) :
    ∀ o, typeOf o = typeOf w.req.obj → Permitted w I o →
      o ∈ (reverseExpand w fuel lim sched).out.map Prod.fst := by
  intro o hty hperm
  rw [← reverseExpand_refW] at hfin hne ⊢
  exact complete_rules (refW w) I hwf hrel fuel lim sched hfin hne o hty hperm

theorem reverseExpand_complete_code (w : World) (I : Interp Node) (hwf : WellFormed w.model)
    (hrel : (w.model.findRel (typeOf w.req.obj) w.req.rel).isSome = true) (fuel lim : Nat) (sched : List Nat)
    (hfin : (reverseExpand w fuel lim sched).work = []) (hne : (reverseExpand w fuel lim sched).err = false) :
    ∀ o, typeOf o = typeOf w.req.obj → PermittedCode w I o →
      o ∈ (reverseExpand w fuel lim sched).out.map Prod.fst :=
  complete_rules w I hwf hrel fuel lim sched hfin hne

/-- **listObjects_complete**: not cut (no deadline, no limit: `limit = 0` or more than the confirmed
objects), no error, no lost send, Checks untainted ⇒ every permitted object is in the response. -/
theorem listObjects_complete (w : World) (hw : w.ideal = false) (rkc rkr : Node → Nat)
    (hc : Stratified (sysOf w) rkc) (hr : Stratified (idealSys w) rkr) (hwf : WellFormed w.model)
    (hrel : (w.model.findRel (typeOf w.req.obj) w.req.rel).isSome = true)
    (fuel lim : Nat) (sched : List Nat) (limit : Nat) (chk : String → CheckRes) (evs : List Ev)
    (hfin : (reverseExpand w fuel lim sched).work = []) (hne : (reverseExpand w fuel lim sched).err = false)
    (hclean : ∀ e ∈ evs, e.clean = true)
    (hnoerr : ∀ p ∈ (reverseExpand w fuel lim sched).out, p.2 = true → NoCheckErr chk p.1)
    (hdeny : ∀ o, chk o = .deny → ∃ d c, ConfirmEval w d o (.ok false c false))
    (hq : (response w fuel lim sched limit chk evs).quiescent = true)
    (hlim : limit = 0 ∨ nConf chk (reverseExpand w fuel lim sched).out ≤ limit) :
    ∀ o, typeOf o = typeOf w.req.obj → Permitted w (stratInterp (idealSys w) rkr) o →
      o ∈ (response w fuel lim sched limit chk evs).out := by
  intro o hty hperm
  have hmem := reverseExpand_complete w _ hwf hrel fuel lim sched hfin hne o hty hperm
  obtain ⟨p, hp, hpo⟩ := List.mem_map.mp hmem
  -- the object is confirmed: a result, or a candidate whose Check cannot have denied it
  have hconf : isConf chk p = true := by
    unfold isConf
    cases hf : p.2 with
    | false => simp
    | true =>
      simp only [Bool.not_true, Bool.false_or, decide_eq_true_eq]
      rcases hnoerr p hp hf with ha | hd
      · exact ha
      · exfalso
        obtain ⟨d, c, he⟩ := hdeny p.1 hd
        apply candidate_rejected w hw rkc rkr hc hr d p.1 c he
        rw [hpo]
        exact D_sub_P _ _ (consistent_stratInterp _ rkr) [] _ hperm
  exact out_complete limit chk _ evs hclean hnoerr hq hlim (reverseExpand_nodup w fuel lim sched) p hp hconf |> (hpo ▸ ·)

/-! ## ties to the regenerated source facts (`Gen.ListObjects`, extract/facts_listobjects.go) -/

/-- the edge-kind switch of `getRelationshipEdgesWithTargetRewrite` (cases in source order) -/
theorem tie_edge_switch : Gen.ListObjects.edgeSwitchCases =
    ["Userset_This", "Userset_ComputedUserset", "Userset_TupleToUserset", "Userset_Union",
     "Userset_Intersection", "Userset_Difference"] := by decide

/-- pruned mode: intersection follows child 0, exclusion follows the base, both flag every edge found -/
theorem tie_pruned_operands : Gen.ListObjects.intersectionPrunedChild = "t.Intersection.GetChild()[0]" ∧
    Gen.ListObjects.differencePrunedChild = "t.Difference.GetBase()" ∧
    Gen.ListObjects.prunedFlagsAllChildResults = true := by decide

/-- `this`: a direct edge iff directly related or publicly assignable; unflagged -/
theorem tie_direct_edge_guard : Gen.ListObjects.directEdgeGuard = "directlyRelated || publiclyAssignable" := by decide

/-- `trySendCandidate`: de-duplicate first (`LoadOrStore`), then pick the status from the accumulated flag -/
theorem tie_try_send_candidate : Gen.ListObjects.trySendCandidateSteps =
    ["if:_, ok := c.candidateObjectsMap.LoadOrStore(candidateObject, struct{}{}); !ok",
     "assign:resultStatus := NoFurtherEvalStatus",
     "if:intersectionOrExclusionInPreviousEdges",
     "assign:resultStatus = RequiresFurtherEvalStatus",
     "assign:result := &ReverseExpandResult{Object: candidateObject, ResultStatus: resultStatus}"] := by decide

/-- `trySendObject`: the counter is incremented and compared with `>` before the send -/
theorem tie_try_send_object : Gen.ListObjects.trySendObjectConds =
    ["maxResults != 0", "objectsFound.Add(1) > maxResults"] ∧
    Gen.ListObjects.trySendObjectSendsAfterCount = true := by decide

/-- the consumer loop: limit test on receive with `>=`, NoFurtherEval sent directly, otherwise Check and
send only when allowed -/
theorem tie_consumer_loop : Gen.ListObjects.consumerRecvConds =
    ["!channelOpen", "(maxResults != 0) && objectsFound.Load() >= maxResults",
     "res.ResultStatus == reverseexpand.NoFurtherEvalStatus"] ∧
    Gen.ListObjects.checkGoroutineConds = ["err != nil", "!resolutionMetadata.DispatchThrottled.Load() && resp.DispatchThrottled", "resp.Allowed"] := by
  decide

/-- `execute`: depth test (`>=`) before the visited map, visited map before `trySendCandidate`; the key
of the visited map is `sourceUserObj#edge` -/
theorem tie_execute_order : Gen.ListObjects.executeOrder =
    ["depth >= c.resolveNodeLimit", "visitedUsersetsMap.LoadOrStore", "trySendCandidate", "GetPrunedRelationshipEdges"] ∧
    Gen.ListObjects.visitedKeyFormat = "\"%s#%s\", sourceUserObj, req.edge.String()" ∧
    Gen.ListObjects.flagAccumulation =
      "intersectionOrExclusionInPreviousEdges || innerLoopEdge.TargetReferenceInvolvesIntersectionOrExclusion" := by decide

/-- `readTuplesAndExecute`: a condition error is recorded and the loop continues; a false condition skips -/
theorem tie_read_tuples_conds : Gen.ListObjects.readTuplesLoopConds =
    ["err != nil", "errors.Is(err, storage.ErrIteratorDone)", "err != nil", "!condMet"] := by decide

/-- which engine runs: pipeline iff weighted graph present, plain object subject and pipeline enabled;
the weighted reverse expansion iff the optimisation flag is on and the request does not skip it -/
theorem tie_engine_selection : Gen.ListObjects.pipelineGuard =
    "wgraph != nil && subjectRelation == \"\" && subjectIdentifier != \"*\" && q.pipelineEnabled" ∧
    Gen.ListObjects.weightedGuard = "c.optimizationsEnabled && !req.skipWeightedGraph" ∧
    Gen.ListObjects.flagOptimizations = "enable-list-objects-optimizations" ∧
    Gen.ListObjects.flagPipeline = "pipeline_list_objects" := by decide

/-! ## non-vacuity -/

/-- a three-node expansion graph: 0 → 1 (unflagged) → 2 (flagged), 1 → 1; 1 and 2 are targets -/
def toyG : Graph Nat :=
  { succ := fun n => if n = 0 then [(1, false)] else if n = 1 then [(2, true), (1, false)] else [],
    fails := fun _ => false,
    target := fun n => if n = 1 then some "doc:1" else if n = 2 then some "doc:2" else none,
    keyed := fun n => n ≠ 0 }

example : (run toyG 25 [0, 0, 0, 0] (St.init 0)).out = [("doc:1", false), ("doc:2", true)] := by decide
example : (run toyG 25 [0, 0, 0, 0] (St.init 0)).work = [] ∧ (run toyG 25 [0, 0, 0, 0] (St.init 0)).err = false := by decide

/-- a clean, quiescent consumer run: limit 1, one NoFurtherEval result and one allowed candidate -/
example : (crun 1 (fun _ => .allow) [.recv false, .recv false] (CSt.init [("doc:1", false), ("doc:2", true)])).quiescent = true ∧
    (crun 1 (fun _ => .allow) [.recv false, .recv false] (CSt.init [("doc:1", false), ("doc:2", true)])).out = ["doc:1"] := by decide

/-- the hypotheses of `reverseExpand_sound` are satisfiable: a world without tuples and pruning table -/
def emptyWorld : World :=
  { model := { types := [{ name := "doc", rels := [{ name := "viewer", rewrite := .this, restrs := [] }] }], conds := [] },
    aux := [], stored := [], ctxTuples := [], req := { obj := "doc:_", rel := "viewer", user := "user:x", ctx := [] } }

example : NoDupKeys emptyWorld := by intro t1 h1; simp [emptyWorld, World.all] at h1
example : namesOK emptyWorld.model = true := by decide
example (I : Interp Node) : PruneSound emptyWorld I := by
  intro o r rd _ h; simp [emptyWorld, Aux.get] at h

/-- L6 repair (weighted engine): no read is issued when the user filter is empty (typed-wildcard subject on an
edge that names concrete users). -/
theorem tie_weighted_empty_filter : Gen.ListObjects.weightedSkipsEmptyUserFilter = true := by decide

/-! ## the streaming pipeline's Intersection worker (Model/ListObjectsOps §1) -/

/-- the scan of `worker.Intersection.Execute` statement by statement: the minimum starts at bag 0, the loop
runs over bags 1 …, a strictly smaller bag becomes the minimum after the PREVIOUS MINIMUM (`w.bags[indexMin]`)
was appended to `inputs`, any other bag is appended itself; `output` is the minimum; the output loop deletes a
value as soon as one input lacks it; an empty bag cancels.  Any edit of the loop breaks this lemma. -/
theorem tie_pipeline_intersection_scan :
    Gen.ListObjects.interScanInit = ["objMin := len(w.bags[0].Unwrap())", "indexMin := 0"] ∧
    Gen.ListObjects.interScanHeader = "i := 1; i < len(w.bags); i++" ∧
    Gen.ListObjects.interScanBody =
      ["bag := w.bags[i].Unwrap()", "if len(bag) < objMin", "inputs = append(inputs, w.bags[indexMin].Unwrap())",
       "indexMin = i", "objMin = len(bag)", "else", "inputs = append(inputs, bag)", "end"] ∧
    Gen.ListObjects.interOutput = "output := w.bags[indexMin].Unwrap()" ∧
    Gen.ListObjects.interFilterLoop =
      ["range output", "range inputs", "if _, ok := m[value]; !ok", "delete(output, value)", "continue OutputLoop",
       "end", "end", "end"] ∧
    Gen.ListObjects.interCancelConds =
      ["len(w.senders) == 0 => return", "w.bags[index].Len() == 0 && w.stats[index].SumErrors == 0 => cancel()",
       "ctx.Err() != nil => return"] := by decide

/-- the model's parameters read off the source: comparison `<`, the previous minimum is appended, both
`indexMin` and `objMin` move to the new bag, otherwise the bag itself is appended -/
theorem tie_pipeline_intersection_push :
    LoOps.pushOfSource Gen.ListObjects.interNewMinPush = some .indexMin ∧
    Gen.ListObjects.interCompare = "len(bag) < objMin" ∧
    Gen.ListObjects.interNewMinUpdates = ["indexMin = i", "objMin = len(bag)"] ∧
    Gen.ListObjects.interElsePush = "bag" := by decide

/-- **pipeline_intersection_exact**: with the append expression as regenerated from the source, the worker
broadcasts exactly the values that lie in ALL operand sets — any number of operands, any cardinalities, any
order of the operands (`LoOps.interExec_spec`, induction over the scan). -/
theorem pipeline_intersection_exact {α : Type} [DecidableEq α] (v : LoOps.Push)
    (hv : LoOps.pushOfSource Gen.ListObjects.interNewMinPush = some v) (bags : List (List α)) (x : α) :
    x ∈ LoOps.interExec v bags ↔ bags ≠ [] ∧ ∀ b ∈ bags, x ∈ b := by
  rw [tie_pipeline_intersection_push.1] at hv
  cases hv
  exact LoOps.interExec_spec bags x

/-- … and the bag that is filtered is a smallest one -/
theorem pipeline_intersection_min {α : Type} (v : LoOps.Push) (b0 : List α) (rest : List (List α)) :
    ∀ b ∈ b0 :: rest, (LoOps.scan v b0 rest).minBag.length ≤ b.length := LoOps.scan_min v b0 rest

/-- appending the bag scanned just before (`w.bags[i-1]`) instead of the previous minimum is wrong: operand
sizes 2, 3, 1 — the first operand is never consulted -/
theorem pipeline_intersection_prev_fails :
    ¬ (∀ (bags : List (List Nat)) (x : Nat), x ∈ LoOps.interExec .prev bags → ∀ b ∈ bags, x ∈ b) := by
  intro h
  exact LoOps.interExec_prev_unsound.2 (h _ _ LoOps.interExec_prev_unsound.1)

example : LoOps.interExec .indexMin [["a", "b"], ["a", "b", "c"], ["c"]] = [] := by decide
example : LoOps.interExec .indexMin [["a", "b", "d"], ["d", "a", "b", "c"], ["d", "c"]] = ["d"] := by decide

/-! ## the weighted engine's residual-check errors (Model/ListObjectsOps §2) -/

/-- the error filter of `loopOverEdges` as regenerated from the source -/
def genFilter : LoOps.Filter :=
  { returnsNil := Gen.ListObjects.weightedElideReturnsNil, disjuncts := Gen.ListObjects.weightedElideDisjuncts }

/-- `loopOverEdges` after `pool.Wait()`: an ExecutionError becomes `nil` only when its cause is
context.Canceled or context.DeadlineExceeded; every other error is returned.  Dropping or widening the guard
breaks this lemma. -/
theorem tie_weighted_error_filter :
    Gen.ListObjects.weightedWaitTail =
      ["err := pool.Wait()", "if err != nil", "var executionError *ExecutionError", "if errors.As(err, &executionError)",
       "if errors.Is(executionError.cause, context.Canceled) || errors.Is(executionError.cause, context.DeadlineExceeded)",
       "return nil", "end", "end", "end", "return err"] ∧
    Gen.ListObjects.weightedElideScope = "errors.As(err, &executionError)" ∧
    genFilter = LoOps.codeFilter := by decide

/-- the sibling filters: `evaluate` (classic / weighted) and the pipeline branches of `Execute` /
`ExecuteStreamed` elide cancellation and deadline only -/
theorem tie_error_elision_guards :
    Gen.ListObjects.evaluateReportGuards = ["!errors.Is(err, context.DeadlineExceeded) && !errors.Is(err, context.Canceled)"] ∧
    Gen.ListObjects.pipelineReportGuards =
      ["!errors.Is(err, context.Canceled) && !errors.Is(err, context.DeadlineExceeded)",
       "errRx != nil && !errors.Is(errRx, context.Canceled) && !errors.Is(errRx, context.DeadlineExceeded)"] := by decide

/-- **weighted_residual_error_reported**: the filter as the source has it.  When the residual Check of some
candidate of an intersection / exclusion fails and no failure is a cancellation or deadline, ListObjects
returns an error — for every completion order, every limit, every consumer schedule. -/
theorem weighted_residual_error_reported (zeroErr : Bool) (rchk : String → LoOps.RRes) (late : String → Bool)
    (cands : List String) (limit : Nat) (evs : List Ev)
    (hnc : ∀ o ∈ cands, ∀ c, rchk o = .fail c → c.cancellation = false)
    (o : String) (ho : o ∈ cands) (c : LoOps.Cause) (hc : rchk o = .fail c) :
    LoOps.wResponse zeroErr genFilter rchk late cands limit evs = none := by
  rw [tie_weighted_error_filter.2.2]
  exact LoOps.weighted_residual_error_reported zeroErr rchk late cands limit evs hnc o ho c hc

/-- **weighted_no_silent_truncation** (the weighted analogue of `no_silent_truncation`; `maxResults = 0`, the
final rule of `Execute` as regenerated): a response returned without error holds every candidate whose residual
Check allows. -/
theorem weighted_no_silent_truncation (rchk : String → LoOps.RRes) (late : String → Bool) (cands : List String)
    (hnd : cands.Nodup) (evs : List Ev)
    (hnc : ∀ o ∈ cands, ∀ c, rchk o = .fail c → c.cancellation = false)
    (hev : ∀ e ∈ evs, e ≠ .deadline ∧ e ≠ .stop)
    (hq : (crun 0 (fun _ => .allow) evs (CSt.init ((LoOps.residual rchk late cands).1.map (fun o => (o, false))))).quiescent = true)
    (l : List String)
    (hl : LoOps.wResponse Gen.ListObjects.zeroLimitReportsErrors genFilter rchk late cands 0 evs = some l) :
    ∀ o ∈ cands, rchk o = .allow → o ∈ l := by
  rw [tie_final_error_rule.2, tie_weighted_error_filter.2.2] at hl
  exact LoOps.weighted_no_silent_truncation rchk late cands hnd evs hnc hev hq l hl

/-- **weighted_error_or_full_page**: any limit, clean consumer schedule — the call reports an error or returns
exactly `min limit |allowed|` objects (all of them for `limit = 0`): never a short list. -/
theorem weighted_error_or_full_page (zeroErr : Bool) (rchk : String → LoOps.RRes) (late : String → Bool)
    (cands : List String) (limit : Nat) (evs : List Ev)
    (hnc : ∀ o ∈ cands, ∀ c, rchk o = .fail c → c.cancellation = false)
    (hclean : ∀ e ∈ evs, e.clean = true)
    (hq : (crun limit (fun _ => .allow) evs (CSt.init ((LoOps.residual rchk late cands).1.map (fun o => (o, false))))).quiescent = true)
    (l : List String) (hl : LoOps.wResponse zeroErr genFilter rchk late cands limit evs = some l) :
    l.length = (if limit = 0 then (cands.filter (fun o => decide (rchk o = .allow))).length
                else min limit (cands.filter (fun o => decide (rchk o = .allow))).length) := by
  rw [tie_weighted_error_filter.2.2] at hl
  exact LoOps.weighted_error_or_full_page zeroErr rchk late cands limit evs hnc hclean hq l hl

/-- the filter without its guard (every ExecutionError elided) returns a short list as a complete answer -/
theorem weighted_elide_all_fails :
    ¬ (∀ (rchk : String → LoOps.RRes) (late : String → Bool) (cands : List String) (evs : List Ev) (l : List String),
        LoOps.wResponse true { returnsNil := true, disjuncts := [] } rchk late cands 0 evs = some l →
        ∀ o ∈ cands, rchk o = .allow → o ∈ l) := by
  intro h
  have := h _ _ _ _ _ LoOps.elide_all_truncates "doc:2" (by simp) (by decide)
  simp at this

/-! ## the consistency preference reaches the readers of every engine -/

/-- both pipeline branches hand the request's consistency preference to the store they read through (without
it a HIGHER_CONSISTENCY request is served from the ListObjects iterator cache), and `evaluate` forwards it to
the reverse expansion and to the confirming Check -/
theorem tie_consistency_forwarded :
    Gen.ListObjects.pipelineStoreArgsUnary =
      ["ds", "req.GetStoreId()", "pipeline.WithStoreConsistency(req.GetConsistency())", "pipeline.WithStoreValidator(validator)"] ∧
    Gen.ListObjects.pipelineStoreArgsStreamed =
      ["ds", "req.GetStoreId()", "pipeline.WithStoreConsistency(req.GetConsistency())", "pipeline.WithStoreValidator(validator)"] ∧
    Gen.ListObjects.evaluateConsistency =
      ["reverseexpand.ReverseExpandRequest.Consistency = req.GetConsistency()",
       "CheckCommandParams.Consistency = req.GetConsistency()"] := by decide

end OpenFGAVerif.C05
