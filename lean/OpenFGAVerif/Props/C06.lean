/-
C06 — ListUsers returns exactly the permitted users.

Model: `Model/ListUsers.lean` (the expansion of `list_users_rpc.go` as a relation over every schedule of
its assignment maps, plus the executable instance used by the correspondence).  Specification: for a
subject `u`, the Check-side reading `specSys sys u cw` of the same rules (`Proofs/ListUsersSem.lean`), i.e.
the least-fixpoint semantics of `Spec/BoolSys.lean` that C01 proves the Check engine sound against.

What is proved (all schedules, unbounded):
  * `lu_nodup`                 no user is returned twice;
  * `lu_filter_partial`        every returned user (and every key in an `excludedUsers` list on the way)
                               was written by a leaf of the expansion (abstract layer);
  * `lu_filter`                **full** filter statement for the FGA rules (`LU_Filter_Full`): type and relation
                               of every returned user equal the filter — the leaves write the self userset
                               `object#relation` when type and relation match, and directly assigned objects /
                               wildcards of the filter type only for a filter without relation (LU-D fixed);
  * `lu_sound_partial`, `lu_complete_partial`   wildcard-free stage (`Stage1`): an answer without error and
                               without ghost note returns `u` only if `u` definitely holds the relation and
                               returns every `u` that possibly holds it — with any coherent interpretation,
                               and unconditionally for stratified systems (`…_stratified`);
  * `lu_sound_wild_partial`, `lu_complete_wild_partial`   the same with wildcards (`Stage2`), for the subjects a
                               wildcard stands for: a returned `u` definitely holds the relation, a `u` that
                               possibly holds it is returned explicitly or the wildcard is returned.  The
                               reducer steps behind it: `covers_interR` (the counting comparison with the
                               wildcard correction) and `covers_exclR` (the case table with the relationship
                               status) of `Proofs/ListUsersWild.lean`;
  * `lu_filter_fga`, `lu_exact1_fga`, `lu_exact2_fga`   the instances for the FGA rules `luRule`;
  * `notes_are_defects_stratified`   the one ghost note that is not a defect of the code (`excl-sub-cut`:
                               the subtracted operand was cut by the cycle guard at a sub-problem of the
                               exclusion's own path) never appears for a system without negation through
                               recursion (`answer_no_sub_cut`, `answer_no_sub_cut_fga`).
The ghost notes are the steps of the Go code that the proof cannot justify; each of them is a confirmed
defect of the code (`LU_Sound_Full`, `LU_Complete_Full`, `LU_Deterministic_Full` are refuted below by concrete
systems, and reproduced on the real code by the crafted cases of harness/c06).  Findings LU-A (exclusion
re-issued a base entry without relationship) and LU-D (filter relation ignored) are fixed: their notes are
gone from the model, `sysA_answer` / `excl_keeps_base_status` / `lu_filter` record the repaired behaviour.
-/
import OpenFGAVerif.Proofs.ListUsersStage1
import OpenFGAVerif.Proofs.ListUsersStage2
import OpenFGAVerif.Proofs.ListUsersFilter
import OpenFGAVerif.Proofs.ListUsersFga
import OpenFGAVerif.Proofs.ListUsersStrat
import OpenFGAVerif.Proofs.ListUsersFgaStrat
import OpenFGAVerif.Proofs.Stratified
import OpenFGAVerif.Gen.ListUsers

namespace OpenFGAVerif.C06
open OpenFGAVerif.BoolSys OpenFGAVerif.ListUsers

/-! ## The property, wildcard-free stage -/

/-- no user is returned twice, whatever the schedule -/
theorem lu_nodup {N K : Type} [DecidableEq N] [DecidableEq K] (sys : LSys N K) (limit : Nat) (root : N) (a : Answer K)
    (h : ListUsersRel sys limit root a) : a.users.Nodup :=
  ListUsers.lu_nodup sys limit root a h

/-- every returned user was written by a leaf of the expansion -/
theorem lu_filter_partial {N K : Type} [DecidableEq N] [DecidableEq K] (sys : LSys N K) (limit : Nat) (P : K → Prop)
    (hsys : ∀ n, SendsOnly P (sys.rule n)) (root : N) (a : Answer K) (h : ListUsersRel sys limit root a) :
    ∀ k ∈ a.users, P k :=
  ListUsers.lu_filter sys limit P hsys root a h

/-- **lu_filter at full strength**, every schedule, every world: type and relation of every returned user
equal the user filter (`hkey`: the string fact that an `object#relation` key splits back into its parts) -/
theorem lu_filter : LU_Filter_Full := lu_filter_full

/-- **soundness**, wildcard-free stage, every schedule: a returned subject definitely holds the relation -/
theorem lu_sound_partial {N K : Type} [DecidableEq N] [DecidableEq K] (sys : LSys N K) (limit : Nat) (u : K) (cw : Bool)
    (I : Interp N) (hst : Stage1 sys) (hc : Coherent (specSys sys u cw) I) (root : N) (a : Answer K)
    (h : ListUsersRel sys limit root a) (he : a.errs = []) (hn : a.notes = []) (hu : u ∈ a.users) :
    D (specSys sys u cw) I [] root :=
  (lu_exact1 sys limit u cw I hst hc root a h he hn).1 hu

/-- **completeness**, wildcard-free stage, every schedule: a subject that possibly holds the relation
(in particular one that holds it) is returned -/
theorem lu_complete_partial {N K : Type} [DecidableEq N] [DecidableEq K] (sys : LSys N K) (limit : Nat) (u : K) (cw : Bool)
    (I : Interp N) (hst : Stage1 sys) (hc : Coherent (specSys sys u cw) I) (root : N) (a : Answer K)
    (h : ListUsersRel sys limit root a) (he : a.errs = []) (hn : a.notes = [])
    (hp : P (specSys sys u cw) I [] root) : u ∈ a.users :=
  (lu_exact1 sys limit u cw I hst hc root a h he hn).2 hp

/-- both, without the coherence hypothesis, for systems without negation through recursion -/
theorem lu_exact_stratified {N K : Type} [DecidableEq N] [DecidableEq K] (sys : LSys N K) (limit : Nat) (u : K) (cw : Bool)
    (rk : N → Nat) (hst : Stage1 sys) (hs : Stratified (specSys sys u cw) rk) (root : N) (a : Answer K)
    (h : ListUsersRel sys limit root a) (he : a.errs = []) (hn : a.notes = []) :
    (u ∈ a.users → D (specSys sys u cw) (stratInterp (specSys sys u cw) rk) [] root) ∧
    (P (specSys sys u cw) (stratInterp (specSys sys u cw) rk) [] root → u ∈ a.users) :=
  lu_exact1 sys limit u cw _ hst (coherent_of_stratified hs) root a h he hn

/-- the executable model compared with the real code by the correspondence is one of the schedules -/
theorem lu_exact_exec {N K : Type} [DecidableEq N] [DecidableEq K] (sys : LSys N K) (limit : Nat) (u : K) (cw : Bool)
    (rk : N → Nat) (hst : Stage1 sys) (hs : Stratified (specSys sys u cw) rk) (root : N) (sc : Sched) (fuel : Nat)
    (he : (listUsersF sys limit sc fuel root).errs = []) (hn : (listUsersF sys limit sc fuel root).notes = []) :
    (u ∈ (listUsersF sys limit sc fuel root).users → D (specSys sys u cw) (stratInterp (specSys sys u cw) rk) [] root) ∧
    (P (specSys sys u cw) (stratInterp (specSys sys u cw) rk) [] root → u ∈ (listUsersF sys limit sc fuel root).users) :=
  lu_exact_stratified sys limit u cw rk hst hs root _ (listUsersF_rel sys limit sc fuel root) he hn

/-! ## The property with wildcards -/

/-- **soundness with wildcards**, every schedule -/
theorem lu_sound_wild_partial {N K : Type} [DecidableEq N] [DecidableEq K] (sys : LSys N K) (limit : Nat) (u : K)
    (I : Interp N) (hst : Stage2 sys) (hc : Coherent (specSys sys u true) I) (root : N) (a : Answer K)
    (h : ListUsersRel sys limit root a) (he : a.errs = []) (hn : a.notes = []) (hu : u ∈ a.users) :
    D (specSys sys u true) I [] root :=
  (lu_exact2 sys limit u I hst hc root a h he hn).1 hu

/-- **completeness with wildcards**, every schedule: returned explicitly or covered by the returned wildcard -/
theorem lu_complete_wild_partial {N K : Type} [DecidableEq N] [DecidableEq K] (sys : LSys N K) (limit : Nat) (u : K)
    (I : Interp N) (hst : Stage2 sys) (hc : Coherent (specSys sys u true) I) (root : N) (a : Answer K)
    (h : ListUsersRel sys limit root a) (he : a.errs = []) (hn : a.notes = [])
    (hp : P (specSys sys u true) I [] root) : u ∈ a.users ∨ sys.wk ∈ a.users :=
  (lu_exact2 sys limit u I hst hc root a h he hn).2 hp

/-- both, unconditionally for stratified systems -/
theorem lu_exact_wild_stratified {N K : Type} [DecidableEq N] [DecidableEq K] (sys : LSys N K) (limit : Nat) (u : K)
    (rk : N → Nat) (hst : Stage2 sys) (hs : Stratified (specSys sys u true) rk) (root : N) (a : Answer K)
    (h : ListUsersRel sys limit root a) (he : a.errs = []) (hn : a.notes = []) :
    (u ∈ a.users → D (specSys sys u true) (stratInterp (specSys sys u true) rk) [] root) ∧
    (P (specSys sys u true) (stratInterp (specSys sys u true) rk) [] root → u ∈ a.users ∨ sys.wk ∈ a.users) :=
  lu_exact2 sys limit u _ hst (coherent_of_stratified hs) root a h he hn

/-- for stratified systems the ghost note `excl-sub-cut` never appears: "no ghost note" only excludes the
steps that are defects of the code -/
theorem notes_are_defects_stratified {N K : Type} [DecidableEq N] [DecidableEq K] (sys : LSys N K) (limit : Nat)
    (u : K) (cw : Bool) (rk : N → Nat) (hs : Stratified (specSys sys u cw) rk)
    (hleaf : ∀ n, ¬ NoteLeaf "excl-sub-cut" (sys.rule n)) (root : N) (a : Answer K)
    (h : ListUsersRel sys limit root a) : "excl-sub-cut" ∉ a.notes :=
  answer_no_sub_cut sys limit u cw rk hs hleaf root a h

/-! ## The full statements, and why they do not hold of the unchanged code -/

/-- full soundness: *every* error-free answer (noted or not, with or without wildcards) only returns
subjects that definitely hold the relation -/
def LU_Sound_Full : Prop :=
  ∀ (sys : LSys Nat Nat) (limit : Nat) (u : Nat) (cw : Bool) (rk : Nat → Nat),
    Stratified (specSys sys u cw) rk → ∀ (root : Nat) (a : Answer Nat), ListUsersRel sys limit root a → a.errs = [] →
    u ∈ a.users → D (specSys sys u cw) (stratInterp (specSys sys u cw) rk) [] root

/-- full completeness: every error-free answer returns every subject that holds the relation,
explicitly or (for a concrete subject of the filter type) through the wildcard -/
def LU_Complete_Full : Prop :=
  ∀ (sys : LSys Nat Nat) (limit : Nat) (u : Nat) (cw : Bool) (rk : Nat → Nat),
    Stratified (specSys sys u cw) rk → ∀ (root : Nat) (a : Answer Nat), ListUsersRel sys limit root a → a.errs = [] →
    D (specSys sys u cw) (stratInterp (specSys sys u cw) rk) [] root → u ∈ a.users ∨ (cw = true ∧ sys.wk ∈ a.users)

/-- full determinism of the answer (a consequence of soundness + completeness) -/
def LU_Deterministic_Full : Prop :=
  ∀ (sys : LSys Nat Nat) (limit : Nat) (root : Nat) (a b : Answer Nat),
    ListUsersRel sys limit root a → ListUsersRel sys limit root b → a.errs = [] → b.errs = [] →
    ∀ u, u ∈ a.users ↔ u ∈ b.users

section witnesses
open OpenFGAVerif.Dfs

theorem occurs_diff_nodes {N : Type} {m a b : N} {d1 d2 : Bool}
    (h : Occurs m (.diff (.node d1 a) (.node d2 b))) : m = a ∨ m = b := by
  cases h with
  | diffB hb => cases hb; exact .inl rfl
  | diffS hs => cases hs; exact .inr rfl

theorem occursNeg_diff_nodes {N : Type} {m a b : N} {d1 d2 : Bool}
    (h : OccursNeg m (.diff (.node d1 a) (.node d2 b))) : m = b := by
  cases h with
  | diffB hb => cases hb
  | diffS hs => cases hs; rfl

/-- wildcard key 0; `isWild k ↔ k = 0` -/
def isW (k : Nat) : Bool := k == 0

/-- The shape of the fixed finding LU-A, kept as a regression example.  `0 := 5 but not 6`,
`5 := 1 but not 2`, `6 := 3 but not 4`, user 7 directly in 1, 2, 3, 4 (`v: (a but not b) but not (c but not d)`
with x in a, b, c, d). -/
def sysA : LSys Nat Nat where
  rule := fun n => match n with
    | 0 => .diff (.node 5) (.node 6)
    | 5 => .diff (.node 1) (.node 2)
    | 6 => .diff (.node 3) (.node 4)
    | 1 => .send [7] | 2 => .send [7] | 3 => .send [7] | 4 => .send [7]
    | _ => .send []
  wk := 0
  isWild := isW

/-- LU-A is fixed: the exclusion keeps the base status of a user whose subtracted entry is
`NoRelationship`; user 7 is not returned and no note is left -/
theorem sysA_answer (lw : Bool) :
    (listUsersF sysA 25 { lastWins := lw } 10 0).users = [] ∧
    (listUsersF sysA 25 { lastWins := lw } 10 0).errs = [] ∧
    (listUsersF sysA 25 { lastWins := lw } 10 0).notes = [] := by
  cases lw <;> decide

/-- LU-B.  `0 := 5 but not 3`, `5 := 1 but not 2`, `1 = {*}`, `2 = {7}`, `3 = {8}`
(`a: [user:*]`, `v: (a but not b) but not c`, `b@x`, `c@y`). -/
def sysB : LSys Nat Nat where
  rule := fun n => match n with
    | 0 => .diff (.node 5) (.node 3)
    | 5 => .diff (.node 1) (.node 2)
    | 1 => .send [0] | 2 => .send [7] | 3 => .send [8]
    | _ => .send []
  wk := 0
  isWild := isW

/-- the Check-side system of `sysB` for the concrete subject 7 (a wildcard tuple stands for it) -/
def specB : Sys Nat where
  rule := fun n => match n with
    | 0 => .diff (.node true 5) (.node true 3)
    | 5 => .diff (.node true 1) (.node true 2)
    | 1 => .lit .tt | 2 => .lit .tt
    | _ => .lit .ff

theorem specB_eq : specSys sysB 7 true = specB := by
  unfold specSys specB sysB
  congr 1
  funext n
  match n with
  | 0 => simp [proj] | 1 => simp [proj] | 2 => simp [proj] | 3 => simp [proj]
  | 4 => simp [proj] | 5 => simp [proj]
  | n + 6 => simp [proj]

def rkB : Nat → Nat := fun n => if n = 0 then 2 else if n = 5 then 1 else 0

theorem specB_stratified : Stratified specB rkB := by
  intro n m h
  match n, h with
  | 0, h =>
    refine ⟨?_, fun hn => ?_⟩
    · rcases occurs_diff_nodes h with rfl | rfl <;> decide
    · rw [occursNeg_diff_nodes hn]; decide
  | 5, h =>
    refine ⟨?_, fun hn => ?_⟩
    · rcases occurs_diff_nodes h with rfl | rfl <;> decide
    · rw [occursNeg_diff_nodes hn]; decide
  | 1, h => cases h
  | 2, h => cases h
  | 3, h => cases h
  | 4, h => cases h
  | n + 6, h => cases h

/-- the model returns user 7 next to the wildcard, noting the unjustified step … -/
theorem sysB_answer (lw : Bool) :
    (listUsersF sysB 25 { lastWins := lw } 10 0).users = [0, 7] ∧
    (listUsersF sysB 25 { lastWins := lw } 10 0).errs = [] ∧
    (listUsersF sysB 25 { lastWins := lw } 10 0).notes = ["excl-wild-has"] := by
  cases lw <;> decide

/-- … although 7 does not hold relation 0: it is excluded from `5` by `2`. -/
theorem specB_not_P0 : ¬ P specB (stratInterp specB rkB) [] 0 := by
  have e : evalF specB 25 {} noCache 20 0 [] (.node false 0) = .ok false false false := by decide
  have h := evalF_eval specB 25 {} noCache 20 0 [] (.node false 0)
  rw [e] at h
  have h2 := (eval_root_sound_stratified specB_stratified (C01.eval_noCache h)).2 rfl
  exact fun hp => h2 (.node hp)

/-- **negation witness, soundness** (finding LU-B) -/
theorem not_LU_Sound_Full : ¬ LU_Sound_Full := by
  intro hfull
  have hD := hfull sysB 25 7 true rkB (specB_eq ▸ specB_stratified) 0 _
    (listUsersF_rel sysB 25 {} 10 0) (sysB_answer true).2.1 (by rw [(sysB_answer true).1]; simp)
  have hP : P specB (stratInterp specB rkB) [] 0 := by
    have := D_sub_P (specSys sysB 7 true) (stratInterp (specSys sysB 7 true) rkB)
      (consistent_stratInterp _ _) [] 0 hD
    rw [specB_eq] at this
    exact this
  exact specB_not_P0 hP

/-- LU-C.  `0 := [1, 2]` (two directly assigned usersets), `1 := 3 but not 4`, `2 := 3 but not 5`, user 7 in
3 and 5: the dispatch of `1` reports 7 with, the dispatch of `2` without the relationship, into the same
channel. -/
def sysC : LSys Nat Nat where
  rule := fun n => match n with
    | 0 => .bag true [.node 1, .node 2]
    | 1 => .diff (.node 3) (.node 4)
    | 2 => .diff (.node 3) (.node 5)
    | 3 => .send [7] | 5 => .send [7]
    | _ => .send []
  wk := 0
  isWild := isW

/-- the answer depends on which of the two entries for 7 is assigned last -/
theorem sysC_answers :
    (listUsersF sysC 25 { lastWins := true } 10 0).users = [] ∧
    (listUsersF sysC 25 { lastWins := false } 10 0).users = [7] ∧
    (listUsersF sysC 25 { lastWins := true } 10 0).errs = [] ∧
    (listUsersF sysC 25 { lastWins := false } 10 0).errs = [] ∧
    (listUsersF sysC 25 { lastWins := true } 10 0).notes = ["status-clash"] := by decide

/-- **negation witness, determinism / completeness** (finding LU-C): two schedules, two answers -/
theorem not_LU_Deterministic_Full : ¬ LU_Deterministic_Full := by
  intro hfull
  have := hfull sysC 25 0 _ _ (listUsersF_rel sysC 25 { lastWins := true } 10 0)
    (listUsersF_rel sysC 25 { lastWins := false } 10 0) sysC_answers.2.2.1 sysC_answers.2.2.2.1 7
  rw [sysC_answers.1, sysC_answers.2.1] at this
  simp at this

def specC : Sys Nat where
  rule := fun n => match n with
    | 0 => .or [.node true 1, .node true 2]
    | 1 => .diff (.node true 3) (.node true 4)
    | 2 => .diff (.node true 3) (.node true 5)
    | 3 => .lit .tt | 5 => .lit .tt
    | _ => .lit .ff

theorem specC_eq : specSys sysC 7 false = specC := by
  unfold specSys specC sysC
  congr 1
  funext n
  match n with
  | 0 => simp [proj] | 1 => simp [proj] | 2 => simp [proj] | 3 => simp [proj]
  | 4 => simp [proj] | 5 => simp [proj]
  | n + 6 => simp [proj]

def rkC : Nat → Nat := fun n => if n = 0 ∨ n = 1 ∨ n = 2 then 1 else 0

theorem specC_stratified : Stratified specC rkC := by
  intro n m h
  match n, h with
  | 0, h =>
    refine ⟨?_, fun hn => ?_⟩
    · cases h with
      | or hm ho =>
        simp only [List.mem_cons, List.not_mem_nil, or_false] at hm
        rcases hm with rfl | rfl <;> cases ho <;> decide
    · cases hn with
      | or hm ho =>
        simp only [List.mem_cons, List.not_mem_nil, or_false] at hm
        rcases hm with rfl | rfl <;> cases ho
  | 1, h =>
    refine ⟨?_, fun hn => ?_⟩
    · rcases occurs_diff_nodes h with rfl | rfl <;> decide
    · rw [occursNeg_diff_nodes hn]; decide
  | 2, h =>
    refine ⟨?_, fun hn => ?_⟩
    · rcases occurs_diff_nodes h with rfl | rfl <;> decide
    · rw [occursNeg_diff_nodes hn]; decide
  | 3, h => cases h
  | 4, h => cases h
  | 5, h => cases h
  | n + 6, h => cases h

theorem specC_D0 : D specC (stratInterp specC rkC) [] 0 := by
  have e : evalF specC 25 {} noCache 20 0 [] (.node false 0) = .ok true false false := by decide
  have h := evalF_eval specC 25 {} noCache 20 0 [] (.node false 0)
  rw [e] at h
  have h2 := (eval_root_sound_stratified specC_stratified (C01.eval_noCache h)).1 rfl
  exact holds_node_iff.mp h2

/-- **negation witness, completeness** (finding LU-C): 7 holds relation 0 through `1`, the last-wins
schedule returns nothing -/
theorem not_LU_Complete_Full : ¬ LU_Complete_Full := by
  intro hfull
  have := hfull sysC 25 7 false rkC (specC_eq ▸ specC_stratified) 0 _
    (listUsersF_rel sysC 25 { lastWins := true } 10 0) sysC_answers.2.2.1 (by rw [specC_eq]; exact specC_D0)
  rw [sysC_answers.1] at this
  simp at this

/-! ### the same at the level of the reducers (wildcard bookkeeping) -/

/-- LU-A fixed, at `expandExclusion`: base entry and subtracted entry both `NoRelationship` ⇒ the base status
is kept -/
theorem excl_keeps_base_status : exclR 0 isW [{ user := 7, status := .no }] [{ user := 7, status := .no }] =
    [{ user := 7, status := .no }] := by decide

/-- LU-B at `expandExclusion`: the base holds the wildcard and lists 7 as `NoRelationship` (7 was excluded
one level down); 7 is not subtracted ⇒ 7 is re-issued with the zero status `HasRelationship` -/
theorem f_excl_wild_has :
    exclR 0 isW [{ user := 0 }, { user := 7, status := .no, excluded := [7] }] [{ user := 8 }] =
    [{ user := 0 }, { user := 8, status := .no, excluded := [8] },
     { user := 7 }, { user := 8, status := .no, excluded := [8] }] := by decide

/-- LU-B, second form: base and subtracted operand both list 7 as `NoRelationship` under a wildcard ⇒ 7 is
re-issued `HasRelationship` -/
theorem f_excl_wild_flip :
    hasK (exclR 0 isW [{ user := 0 }, { user := 7, status := .no, excluded := [7] }]
                      [{ user := 0 }, { user := 7, status := .no, excluded := [7] }]) 7 = true := by decide

/-- LU-E at `expandUnion`: operand 1 = "everybody but 7", operand 2 = {8}: the exception is forgotten
because `excludedUsers` of 7 was counted once, not once per operand -/
theorem f_union_excl_lost :
    unionR [[{ user := 0 }, { user := 7, status := .no, excluded := [7] }], [{ user := (8 : Nat) }]] =
    [{ user := 0, excluded := [] }, { user := 8, excluded := [] }] := by decide

/-- LU-H at `expandExclusion`: `excludedUsers` of the base wildcard entry is never read -/
theorem f_excl_excluded_unread :
    exclR 0 isW [{ user := 0, excluded := [7] }] [{ user := 8 }] =
    [{ user := 0 }, { user := 8, status := .no, excluded := [8] }] := by decide

/-- the wildcard correction of `expandIntersection` on plain operands: `{*, 7} ∩ {7, 8}` = {7, 8}
(8 is covered by the wildcard of the first operand), `{*} ∩ {*}` = {*}, `{*, 7} ∩ {*}` = {7, *}, `{*} ∩ {7}` = {7} -/
theorem inter_wildcard_correction :
    (interR 0 [[{ user := 0 }, { user := 7 }], [{ user := 7 }, { user := (8 : Nat) }]]).map (·.user) = [7, 8] ∧
    (interR 0 [[{ user := (0 : Nat) }], [{ user := 0 }]]).map (·.user) = [0] ∧
    (interR 0 [[{ user := 0 }, { user := (7 : Nat) }], [{ user := 0 }]]).map (·.user) = [7, 0] ∧
    (interR 0 [[{ user := 0 }], [{ user := (7 : Nat) }]]).map (·.user) = [7] := by decide

end witnesses

/-! ## Ties to the regenerated source facts (`Gen.ListUsers`, extract/facts_listusers.go)

The model was written against exactly these statement skeletons (nesting depth `:` statement); a change
of a condition, of the order of the cases, of a field of a `foundUser` that is sent, of the counting or of
the guard key in the Go source makes one of these `rfl`s fail. -/


/-- the status constants in iota order: the zero value of `foundUser.relationshipStatus` is `HasRelationship` (`Status.has` is what `Found` defaults to) -/
theorem tie_statusConsts : Gen.ListUsers.statusConsts =
    ["HasRelationship",
     "NoRelationship"] := rfl

/-- `expand`: depth test (`>=`), `depth++`, cycle guard, self entry when type and relation of the sub-problem equal the filter, undefined relation ⇒ empty response, then the rewrite (`LExpr.node` rule of `Expand`, `luRule`) -/
theorem tie_expand : Gen.ListUsers.expand =
    ["0:if req.depth >= l.resolveNodeLimit",
     "1:return expandResponse{ err: graph.ErrResolutionDepthExceeded, }",
     "0:req.depth++",
     "0:if enteredCycle(req)",
     "1:return expandResponse{ hasCycle: true, }",
     "0:reqObjectType := req.GetObject().GetType()",
     "0:reqObjectID := req.GetObject().GetId()",
     "0:reqRelation := req.GetRelation()",
     "0:range _, userFilter := req.GetUserFilters()",
     "1:if reqObjectType == userFilter.GetType() && reqRelation == userFilter.GetRelation()",
     "2:send {user: &openfgav1.User{ User: &openfgav1.User_Userset{ Userset: &openfgav1.UsersetUser{ Type: reqObjectType, Id: reqObjectID, Relation: reqRelation, }, }, }} -> foundUsersChan",
     "0:typesys, _ := typesystem.TypesystemFromContext(ctx)",
     "0:targetObjectType := req.GetObject().GetType()",
     "0:targetRelation := req.GetRelation()",
     "0:relation, err := typesys.GetRelation(targetObjectType, targetRelation)",
     "0:if err != nil",
     "1:var relationUndefinedError *typesystem.RelationUndefinedError",
     "1:if errors.As(err, &relationUndefinedError)",
     "2:return expandResponse{}",
     "1:return expandResponse{ err: err, }",
     "0:relationRewrite := relation.GetRewrite()",
     "0:resp := l.expandRewrite(ctx, req, relationRewrite, foundUsersChan)",
     "0:if resp.err != nil",
     "0:return resp"] := rfl

/-- the cycle guard: key `object#relation`, membership test, insertion (`n ∈ V`, `n :: V`) -/
theorem tie_enteredCycle : Gen.ListUsers.enteredCycle =
    ["0:key := fmt.Sprintf(\"%s#%s\", tuple.ObjectKey(req.GetObject()), req.Relation)",
     "0:_, loaded := req.visitedUsersetsMap[key]",
     "0:if loaded",
     "1:return true",
     "0:req.visitedUsersetsMap[key] = struct{}{}",
     "0:return false"] := rfl

/-- `clone` copies the visited set (per-path guard) and carries the depth over -/
theorem tie_clone : Gen.ListUsers.clone =
    ["v := fromListUsersRequest(r, r.dispatchCount)",
     "v.visitedUsersetsMap = maps.Clone(r.visitedUsersetsMap)",
     "v.depth = r.depth",
     "return v"] := rfl

/-- `dispatch` = counter + `expand` -/
theorem tie_dispatch : Gen.ListUsers.dispatch =
    ["0:newcount := req.dispatchCount.Add(1)",
     "0:if l.dispatchThrottlerConfig.Enabled",
     "1:l.throttle(ctx, newcount)",
     "0:return l.expand(ctx, req, foundUsersChan)"] := rfl

/-- `expandRewrite`: computed userset clones the request, replaces the relation and dispatches (keeps `hasCycle`) -/
theorem tie_expandRewrite : Gen.ListUsers.expandRewrite =
    ["0:var resp expandResponse",
     "0:typeswitch rewrite := rewrite.GetUserset().(type)",
     "0:case *openfgav1.Userset_This",
     "1:resp = l.expandDirect(ctx, req, foundUsersChan)",
     "0:case *openfgav1.Userset_ComputedUserset",
     "1:rewrittenReq := req.clone()",
     "1:rewrittenReq.Relation = rewrite.ComputedUserset.GetRelation()",
     "1:resp = l.dispatch(ctx, rewrittenReq, foundUsersChan)",
     "0:case *openfgav1.Userset_TupleToUserset",
     "1:resp = l.expandTTU(ctx, req, rewrite, foundUsersChan)",
     "0:case *openfgav1.Userset_Intersection",
     "1:resp = l.expandIntersection(ctx, req, rewrite, foundUsersChan)",
     "0:case *openfgav1.Userset_Difference",
     "1:resp = l.expandExclusion(ctx, req, rewrite, foundUsersChan)",
     "0:case *openfgav1.Userset_Union",
     "1:resp = l.expandUnion(ctx, req, rewrite, foundUsersChan)",
     "0:default",
     "1:panic(\"unexpected userset rewrite encountered\")",
     "0:if resp.err != nil",
     "0:return resp"] := rfl

/-- `expandDirect`: read, validity filter, condition (evaluation failure joined, loop continues), object/wildcard users sent when the *type* equals the filter type, usersets dispatched, `hasCycle` collected (`directL`) -/
theorem tie_expandDirect : Gen.ListUsers.expandDirect =
    ["0:typesys, _ := typesystem.TypesystemFromContext(ctx)",
     "0:opts := storage.ReadOptions{ Consistency: storage.ConsistencyOptions{ Preference: req.GetConsistency(), }, }",
     "0:iter, err := l.datastore.Read(ctx, req.GetStoreId(), storage.ReadFilter{ Object: tuple.ObjectKey(req.GetObject()), Relation: req.GetRelation(), }, opts)",
     "0:if err != nil",
     "1:return expandResponse{ err: err, }",
     "0:filteredIter := storage.NewFilteredTupleKeyIterator( storage.NewTupleKeyIteratorFromTupleIterator(iter), validation.FilterInvalidTuples(typesys), )",
     "0:pool := concurrency.NewPool(ctx, int(l.resolveNodeBreadthLimit))",
     "0:var errs error",
     "0:var hasCycle atomic.Bool",
     "0:for",
     "1:tupleKey, err := filteredIter.Next(ctx)",
     "1:if err != nil",
     "2:if !errors.Is(err, storage.ErrIteratorDone)",
     "3:errs = errors.Join(errs, err)",
     "2:break LoopOnIterator",
     "1:cond, _ := typesys.GetCondition(tupleKey.GetCondition().GetName())",
     "1:condMet, err := eval.EvaluateTupleCondition(ctx, tupleKey, cond, req.Context)",
     "1:if err != nil",
     "2:errs = errors.Join(errs, err)",
     "2:if !errors.Is(err, condition.ErrEvaluationFailed)",
     "3:break LoopOnIterator",
     "1:if !condMet",
     "2:continue",
     "1:tupleKeyUser := tupleKey.GetUser()",
     "1:userObject, userRelation := tuple.SplitObjectRelation(tupleKeyUser)",
     "1:userObjectType, userObjectID := tuple.SplitObject(userObject)",
     "1:if userRelation == \"\"",
     "2:range _, f := req.GetUserFilters()",
     "3:if f.GetType() == userObjectType && f.GetRelation() == \"\"",
     "4:user := tuple.StringToUserProto(tuple.BuildObject(userObjectType, userObjectID))",
     "4:send {user: user} -> foundUsersChan",
     "2:continue",
     "1:pool.Go(func",
     "2:func",
     "3:var resp expandResponse",
     "3:recoveredError := panics.Try(func",
     "4:func",
     "5:resp = l.expandDirectDispatch(ctx, l, req, userObjectType, userObjectID, userRelation, resp, foundUsersChan, &hasCycle)",
     "3:if recoveredError != nil",
     "4:resp = panicExpanseResponse(recoveredError)",
     "3:return resp.err",
     "0:errs = errors.Join(errs, pool.Wait())",
     "0:if errs != nil",
     "0:return expandResponse{ err: errs, hasCycle: hasCycle.Load(), }"] := rfl

/-- `expandDirectDispatch`: clone, object and relation replaced, `hasCycle` stored -/
theorem tie_expandDirectDispatch : Gen.ListUsers.expandDirectDispatch =
    ["0:rewrittenReq := req.clone()",
     "0:rewrittenReq.Object = &openfgav1.Object{Type: userObjectType, Id: userObjectID}",
     "0:rewrittenReq.Relation = userRelation",
     "0:resp = l.dispatch(ctx, rewrittenReq, foundUsersChan)",
     "0:if resp.hasCycle",
     "1:hasCycle.Store(true)",
     "0:return resp"] := rfl

/-- `expandTTU`: dispatch per tupleset tuple, only the error is returned (`hasCycle` forgotten: `bag false`, `ttuL`) -/
theorem tie_expandTTU : Gen.ListUsers.expandTTU =
    ["0:tuplesetRelation := rewrite.TupleToUserset.GetTupleset().GetRelation()",
     "0:computedRelation := rewrite.TupleToUserset.GetComputedUserset().GetRelation()",
     "0:typesys, _ := typesystem.TypesystemFromContext(ctx)",
     "0:opts := storage.ReadOptions{ Consistency: storage.ConsistencyOptions{ Preference: req.GetConsistency(), }, }",
     "0:iter, err := l.datastore.Read(ctx, req.GetStoreId(), storage.ReadFilter{ Object: tuple.ObjectKey(req.GetObject()), Relation: tuplesetRelation, }, opts)",
     "0:if err != nil",
     "1:return expandResponse{ err: err, }",
     "0:filteredIter := storage.NewFilteredTupleKeyIterator( storage.NewTupleKeyIteratorFromTupleIterator(iter), validation.FilterInvalidTuples(typesys), )",
     "0:pool := concurrency.NewPool(ctx, int(l.resolveNodeBreadthLimit))",
     "0:var errs error",
     "0:for",
     "1:tupleKey, err := filteredIter.Next(ctx)",
     "1:if err != nil",
     "2:if !errors.Is(err, storage.ErrIteratorDone)",
     "3:errs = errors.Join(errs, err)",
     "2:break LoopOnIterator",
     "1:cond, _ := typesys.GetCondition(tupleKey.GetCondition().GetName())",
     "1:condMet, err := eval.EvaluateTupleCondition(ctx, tupleKey, cond, req.Context)",
     "1:if err != nil",
     "2:errs = errors.Join(errs, err)",
     "2:if !errors.Is(err, condition.ErrEvaluationFailed)",
     "3:break LoopOnIterator",
     "1:if !condMet",
     "2:continue",
     "1:userObject := tupleKey.GetUser()",
     "1:userObjectType, userObjectID := tuple.SplitObject(userObject)",
     "1:pool.Go(func",
     "2:func",
     "3:rewrittenReq := req.clone()",
     "3:rewrittenReq.Object = &openfgav1.Object{Type: userObjectType, Id: userObjectID}",
     "3:rewrittenReq.Relation = computedRelation",
     "3:resp := l.dispatch(ctx, rewrittenReq, foundUsersChan)",
     "3:return resp.err",
     "0:errs = errors.Join(pool.Wait(), errs)",
     "0:if errs != nil",
     "0:return expandResponse{ err: errs, }"] := rfl

/-- `expandIntersection`: per-operand key map, `NoRelationship` skipped, `excludedUsers` collected, `++` / `--` with the wildcard, and the deciding comparison `(count + wildcardCount.Load()) == uint32(len(childOperands))` (`interR`, `interCount`, `wildcardCount`) -/
theorem tie_expandIntersection : Gen.ListUsers.expandIntersection =
    ["0:pool := concurrency.NewPool(ctx, int(l.resolveNodeBreadthLimit))",
     "0:childOperands := rewrite.Intersection.GetChild()",
     "0:intersectionFoundUsersChans := make([]chan foundUser, len(childOperands))",
     "0:range i, rewrite := childOperands",
     "1:intersectionFoundUsersChans[i] = make(chan foundUser, 1)",
     "1:pool.Go(func",
     "2:func",
     "3:resp := l.expandRewrite(ctx, req, rewrite, intersectionFoundUsersChans[i])",
     "3:return resp.err",
     "0:errChan := make(chan error, 1)",
     "0:go",
     "1:func",
     "2:err := pool.Wait()",
     "2:range i, _ := intersectionFoundUsersChans",
     "3:close(intersectionFoundUsersChans[i])",
     "2:errChan <- err",
     "2:close(errChan)",
     "0:var mu sync.Mutex",
     "0:var wg sync.WaitGroup",
     "0:wg.Add(len(childOperands))",
     "0:wildcardCount := atomic.Uint32{}",
     "0:wildcardKey := tuple.TypedPublicWildcard(req.GetUserFilters()[0].GetType())",
     "0:foundUsersCountMap := make(map[string]uint32, 0)",
     "0:excludedUsersMap := make(map[string]struct{}, 0)",
     "0:range _, foundUsersChan := intersectionFoundUsersChans",
     "1:go",
     "2:func",
     "3:foundUsersMap := make(map[string]uint32, 0)",
     "3:range foundUser, _ := foundUsersChan",
     "4:key := tuple.UserProtoToString(foundUser.user)",
     "4:range _, excludedUser := foundUser.excludedUsers",
     "5:key := tuple.UserProtoToString(excludedUser)",
     "5:mu.Lock()",
     "5:excludedUsersMap[key] = struct{}{}",
     "5:mu.Unlock()",
     "4:if foundUser.relationshipStatus == NoRelationship",
     "5:continue",
     "4:foundUsersMap[key]++",
     "3:_, wildcardExists := foundUsersMap[wildcardKey]",
     "3:if wildcardExists",
     "4:wildcardCount.Add(1)",
     "3:range userKey, _ := foundUsersMap",
     "4:mu.Lock()",
     "4:foundUsersCountMap[userKey]++",
     "4:if wildcardExists",
     "5:foundUsersCountMap[userKey]--",
     "4:mu.Unlock()",
     "0:wg.Wait()",
     "0:excludedUsers := []*openfgav1.User{}",
     "0:range key, _ := excludedUsersMap",
     "1:excludedUsers = append(excludedUsers, tuple.StringToUserProto(key))",
     "0:range key, count := foundUsersCountMap",
     "1:_, excluded := excludedUsersMap[key]",
     "1:if excluded",
     "2:continue",
     "1:if (count + wildcardCount.Load()) == uint32(len(childOperands))",
     "2:fu := foundUser{ user: tuple.StringToUserProto(key), excludedUsers: excludedUsers, }",
     "2:send fu -> foundUsersChan",
     "0:return expandResponse{ err: <-errChan, }"] := rfl

/-- `expandUnion`: `excludedUsers` counted per entry, `NoRelationship` skipped, exclusions kept when `count == uint32(len(childOperands))` (`unionR`) -/
theorem tie_expandUnion : Gen.ListUsers.expandUnion =
    ["0:pool := concurrency.NewPool(ctx, int(l.resolveNodeBreadthLimit))",
     "0:childOperands := rewrite.Union.GetChild()",
     "0:unionFoundUsersChans := make([]chan foundUser, len(childOperands))",
     "0:range i, rewrite := childOperands",
     "1:unionFoundUsersChans[i] = make(chan foundUser, 1)",
     "1:pool.Go(func",
     "2:func",
     "3:resp := l.expandRewrite(ctx, req, rewrite, unionFoundUsersChans[i])",
     "3:return resp.err",
     "0:errChan := make(chan error, 1)",
     "0:go",
     "1:func",
     "2:err := pool.Wait()",
     "2:range i, _ := unionFoundUsersChans",
     "3:close(unionFoundUsersChans[i])",
     "2:errChan <- err",
     "2:close(errChan)",
     "0:var mu sync.Mutex",
     "0:var wg sync.WaitGroup",
     "0:wg.Add(len(childOperands))",
     "0:foundUsersMap := make(map[string]struct{}, 0)",
     "0:excludedUsersCountMap := make(map[string]uint32, 0)",
     "0:range _, foundUsersChan := unionFoundUsersChans",
     "1:go",
     "2:func",
     "3:range foundUser, _ := foundUsersChan",
     "4:key := tuple.UserProtoToString(foundUser.user)",
     "4:range _, excludedUser := foundUser.excludedUsers",
     "5:key := tuple.UserProtoToString(excludedUser)",
     "5:mu.Lock()",
     "5:excludedUsersCountMap[key]++",
     "5:mu.Unlock()",
     "4:if foundUser.relationshipStatus == NoRelationship",
     "5:continue",
     "4:mu.Lock()",
     "4:foundUsersMap[key] = struct{}{}",
     "4:mu.Unlock()",
     "0:wg.Wait()",
     "0:excludedUsers := []*openfgav1.User{}",
     "0:range key, count := excludedUsersCountMap",
     "1:if count == uint32(len(childOperands))",
     "2:excludedUsers = append(excludedUsers, tuple.StringToUserProto(key))",
     "0:range key, _ := foundUsersMap",
     "1:fu := foundUser{ user: tuple.StringToUserProto(key), excludedUsers: excludedUsers, }",
     "1:send fu -> foundUsersChan",
     "0:return expandResponse{ err: <-errChan, }"] := rfl

/-- `expandExclusion`: two assignment maps, early return on `subtractHasCycle`, the case table in source order with the fields of every `foundUser` sent (`exclStep`, `exclR`, `diffResp`, `diffCycleResp`) -/
theorem tie_expandExclusion : Gen.ListUsers.expandExclusion =
    ["0:baseFoundUsersCh := make(chan foundUser, 1)",
     "0:subtractFoundUsersCh := make(chan foundUser, 1)",
     "0:var baseError error",
     "0:go",
     "1:func",
     "2:resp := l.expandRewrite(ctx, req, rewrite.Difference.GetBase(), baseFoundUsersCh)",
     "2:baseError = resp.err",
     "2:close(baseFoundUsersCh)",
     "0:var subtractError error",
     "0:var subtractHasCycle bool",
     "0:go",
     "1:func",
     "2:resp := l.expandRewrite(ctx, req, rewrite.Difference.GetSubtract(), subtractFoundUsersCh)",
     "2:subtractError = resp.err",
     "2:subtractHasCycle = resp.hasCycle",
     "2:close(subtractFoundUsersCh)",
     "0:baseFoundUsersMap := make(map[string]foundUser, 0)",
     "0:range fu, _ := baseFoundUsersCh",
     "1:key := tuple.UserProtoToString(fu.user)",
     "1:baseFoundUsersMap[key] = fu",
     "0:subtractFoundUsersMap := make(map[string]foundUser, len(baseFoundUsersMap))",
     "0:range fu, _ := subtractFoundUsersCh",
     "1:key := tuple.UserProtoToString(fu.user)",
     "1:subtractFoundUsersMap[key] = fu",
     "0:if subtractHasCycle",
     "1:return expandResponse{ err: nil, }",
     "0:wildcardKey := tuple.TypedPublicWildcard(req.GetUserFilters()[0].GetType())",
     "0:_, baseWildcardExists := baseFoundUsersMap[wildcardKey]",
     "0:_, subtractWildcardExists := subtractFoundUsersMap[wildcardKey]",
     "0:range userKey, fu := baseFoundUsersMap",
     "1:subtractedUser, userIsSubtracted := subtractFoundUsersMap[userKey]",
     "1:_, wildcardSubtracted := subtractFoundUsersMap[wildcardKey]",
     "1:switch",
     "1:case baseWildcardExists",
     "2:if !userIsSubtracted && !wildcardSubtracted",
     "3:send {user: tuple.StringToUserProto(userKey)} -> foundUsersChan",
     "2:range subtractedUserKey, subtractedFu := subtractFoundUsersMap",
     "3:if tuple.IsTypedWildcard(subtractedUserKey)",
     "4:if !userIsSubtracted",
     "5:send {user: tuple.StringToUserProto(userKey); relationshipStatus: NoRelationship} -> foundUsersChan",
     "4:continue",
     "3:if subtractedFu.relationshipStatus == NoRelationship",
     "4:send {user: tuple.StringToUserProto(subtractedUserKey); relationshipStatus: HasRelationship} -> foundUsersChan",
     "3:if subtractedFu.relationshipStatus == HasRelationship",
     "4:send {user: tuple.StringToUserProto(subtractedUserKey); relationshipStatus: NoRelationship; excludedUsers: []*openfgav1.User{ tuple.StringToUserProto(subtractedUserKey), }} -> foundUsersChan",
     "1:case subtractWildcardExists, userIsSubtracted",
     "2:if subtractedUser.relationshipStatus == HasRelationship",
     "3:send {user: tuple.StringToUserProto(userKey); relationshipStatus: NoRelationship} -> foundUsersChan",
     "2:if subtractedUser.relationshipStatus == NoRelationship",
     "3:send {user: tuple.StringToUserProto(userKey); relationshipStatus: fu.relationshipStatus} -> foundUsersChan",
     "1:default",
     "2:send {user: tuple.StringToUserProto(userKey); relationshipStatus: fu.relationshipStatus} -> foundUsersChan",
     "0:errs := errors.Join(baseError, subtractError)",
     "0:if errs != nil",
     "0:return expandResponse{ err: errs, }"] := rfl

/-- `ListUsers`: pruning test, assignment map `foundUsersUnique`, `NoRelationship` entries skipped (`ListUsersRel`, `finalOf`, `listUsers`) -/
theorem tie_listUsers : Gen.ListUsers.listUsers =
    ["0:cancellableCtx, cancelCtx := context.WithCancel(ctx)",
     "0:if l.deadline != 0",
     "1:cancellableCtx, cancelCtx = context.WithTimeout(cancellableCtx, l.deadline)",
     "0:typesys, ok := typesystem.TypesystemFromContext(cancellableCtx)",
     "0:if !ok",
     "1:return nil, fmt.Errorf(\"%w: typesystem missing in context\", openfgaErrors.ErrUnknown)",
     "0:userFilter := req.GetUserFilters()[0]",
     "0:userset := tuple.ToObjectRelationString(tuple.ObjectKey(req.GetObject()), req.GetRelation())",
     "0:if !tuple.UsersetMatchTypeAndRelation(userset, userFilter.GetRelation(), userFilter.GetType())",
     "1:hasPossibleEdges, err := doesHavePossibleEdges(typesys, req)",
     "1:if err != nil",
     "2:return nil, err",
     "1:if !hasPossibleEdges",
     "2:return &listUsersResponse{ Users: []*openfgav1.User{}, Metadata: listUsersResponseMetadata{ DispatchCounter: new(atomic.Uint32), WasDispatchThrottled: new(atomic.Bool), WasDatastoreThrottled: new(atomic.Bool), }, }, nil",
     "0:dispatchCount := atomic.Uint32{}",
     "0:foundUsersCh := l.buildResultsChannel()",
     "0:expandErrCh := make(chan error, 1)",
     "0:foundUsersUnique := make(map[tuple.UserString]foundUser, 1000)",
     "0:doneWithFoundUsersCh := make(chan struct{}, 1)",
     "0:go",
     "1:func",
     "2:range foundUser, _ := foundUsersCh",
     "3:foundUsersUnique[tuple.UserProtoToString(foundUser.user)] = foundUser",
     "3:if l.maxResults > 0",
     "4:if uint32(len(foundUsersUnique)) >= l.maxResults",
     "5:break",
     "2:doneWithFoundUsersCh <- struct{}{}",
     "0:go",
     "1:func",
     "2:internalRequest := fromListUsersRequest(req, &dispatchCount)",
     "2:resp := l.expand(cancellableCtx, internalRequest, foundUsersCh)",
     "2:if resp.err != nil",
     "3:expandErrCh <- resp.err",
     "2:close(foundUsersCh)",
     "0:deadlineExceeded := false",
     "0:select",
     "0:case <-doneWithFoundUsersCh",
     "1:break",
     "0:case <-cancellableCtx.Done()",
     "1:deadlineExceeded = true",
     "1:<-doneWithFoundUsersCh",
     "1:break",
     "0:select",
     "0:case err := <-expandErrCh",
     "1:if deadlineExceeded || errors.Is(err, context.DeadlineExceeded)",
     "2:break",
     "1:return nil, err",
     "0:default",
     "1:break",
     "0:cancelCtx()",
     "0:foundUsers := make([]*openfgav1.User, 0, len(foundUsersUnique))",
     "0:range foundUserKey, foundUser := foundUsersUnique",
     "1:if foundUser.relationshipStatus == NoRelationship",
     "2:continue",
     "1:foundUsers = append(foundUsers, tuple.StringToUserProto(foundUserKey))",
     "0:dsMeta := l.datastore.GetMetadata()",
     "0:l.wasDatastoreThrottled.Store(dsMeta.WasThrottled)",
     "0:return &listUsersResponse{ Users: foundUsers, Metadata: listUsersResponseMetadata{ DatastoreQueryCount: dsMeta.DatastoreQueryCount, DatastoreItemCount: dsMeta.DatastoreItemCount, DispatchCounter: &dispatchCount, WasDispatchThrottled: l.wasDispatchThrottled, WasDatastoreThrottled: l.wasDatastoreThrottled, }, }, nil"] := rfl

/-! ## Non-vacuity -/

/-- a wildcard-free system with an exclusion and an intersection: `0 := (1 and 2) but not 3` -/
def toySys : LSys Nat Nat where
  rule := fun n => match n with
    | 0 => .diff (.inter [.node 1, .node 2]) (.node 3)
    | 1 => .send [7, 8, 9] | 2 => .send [8, 9] | 3 => .send [9]
    | _ => .send []
  wk := 0
  isWild := fun k => k == 0

theorem toySys_stage1 : Stage1 toySys := by
  intro n
  match n with
  | 0 =>
    refine .diff _ _ (.inter _ (by simp) ?_) (.node 3)
    intro e he
    simp only [List.mem_cons, List.not_mem_nil, or_false] at he
    rcases he with rfl | rfl <;> exact .node _
  | 1 => exact .send _ (by decide) (by decide)
  | 2 => exact .send _ (by decide) (by decide)
  | 3 => exact .send _ (by decide) (by decide)
  | n + 4 => exact .send _ (by simp) (by simp)

/-- the hypotheses of `lu_sound_partial` / `lu_complete_partial` are satisfiable by a non-trivial run:
no error, no note, a non-empty answer -/
example : (listUsersF toySys 25 {} 10 0).users = [8] ∧ (listUsersF toySys 25 {} 10 0).errs = [] ∧
    (listUsersF toySys 25 {} 10 0).notes = [] := by decide

example : ListUsersRel toySys 25 0 (listUsersF toySys 25 {} 10 0) := listUsersF_rel toySys 25 {} 10 0

/-- a system with wildcards on both sides of an exclusion under an intersection:
`0 := (1 but not 2) and 3`, `1 = {*, 7}`, `2 = {8}`, `3 = {*}` -/
def wildSys : LSys Nat Nat where
  rule := fun n => match n with
    | 0 => .inter [.diff (.node 1) (.node 2), .node 3]
    | 1 => .send [0, 7] | 2 => .send [8] | 3 => .send [0]
    | _ => .send []
  wk := 0
  isWild := fun k => k == 0

theorem wildSys_stage2 : Stage2 wildSys := by
  refine ⟨rfl, ?_⟩
  intro n
  have hs : ∀ ks : List Nat, Stage2E wildSys (.send ks) := fun ks =>
    .send _ (fun k _ hw => by simpa [wildSys] using hw)
  match n with
  | 0 =>
    refine .inter _ (by simp) ?_
    intro e he
    simp only [List.mem_cons, List.not_mem_nil, or_false] at he
    rcases he with rfl | rfl
    · exact .diff _ _ (.node _) (.node _)
    · exact .node _
  | 1 => exact hs _
  | 2 => exact hs _
  | 3 => exact hs _
  | n + 4 => exact hs _

/-- the hypotheses of the wildcard theorems are satisfiable by a run that exercises the wildcard branch of
`expandExclusion` and the wildcard correction of `expandIntersection`: answer `{*, 7}` (8 is excepted
internally), no error, no note -/
example : (listUsersF wildSys 25 {} 10 0).users = [7, 0] ∧ (listUsersF wildSys 25 {} 10 0).errs = [] ∧
    (listUsersF wildSys 25 {} 10 0).notes = [] := by decide

end OpenFGAVerif.C06
