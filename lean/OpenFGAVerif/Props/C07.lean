/-
C07 — BatchCheck is equivalent to individual Checks.

Model: `Model.Batch` (pkg/server/commands/batch_check_command.go).

Proved for every batch (any length), every key function, every checker that is a function of its inputs,
every order in which the pool runs the de-duplicated checks and every order in which the fan-out loop
walks the map (both explicit permutation arguments), every cancellation pattern:
  * `batch_spec` — if `key a = key b → same a b` (injectivity of the de-duplication key up to the
    equivalence `same`) and `same a b → check a = check b`, then a successful `Execute` maps every
    correlation id of the request to the outcome of the standalone check of ITS OWN item;
  * `batch_ids_exactly_once` — the fan-out assigns every correlation id of the request exactly once
    and no other id;
  * `no_cross_answer` — two items whose inputs are not `same` never sit in the same group (are never
    answered by one execution);
  * `dedup_needs_injectivity` — conversely, a key collision between items with different answers does
    produce a wrong answer: injectivity of the key is exactly what the equivalence rests on;
  * `batch_spec_c24` — `batch_spec` for the byte-level key model of C24
    (`CheckCacheKey ∘ InvariantCacheKey`), its hypothesis discharged by
    `C24.subproblem_key_injective_upto_digest` (up to a collision of the 64-bit digest, an explicit
    hypothesis);
  * `item_error_isolated` — the task handed to the pool returns nil on every path (tie
    `tie_worker_returns_nil`; the pool is built WithCancelOnError), so an item whose check fails in any way
    changes no other id's outcome; `worker_error_cancels_siblings` shows the tie is necessary;
  * `tie_request_datastore_per_execute` — the checker the items share builds its request-scoped datastore
    view per Execute call (nothing is memoised on the command);
  * validation: `execute_error_iff` — the request fails iff it has more than the maximum, no checks,
    an empty or a repeated correlation id (first offender in list order).
-/
import OpenFGAVerif.Model.Batch
import OpenFGAVerif.Props.C24
import OpenFGAVerif.Gen.Batch
import OpenFGAVerif.Gen.ReqScope

namespace OpenFGAVerif.C07
open OpenFGAVerif.Model.Batch

/-! ## correlation id validation -/

theorem validateIds_none {I : Type} : ∀ (items : List (Item I)) (seen : List String) (i : Nat),
    validateIds seen i items = none →
      (items.map (·.cid)).Nodup ∧ (∀ it ∈ items, it.cid ≠ "" ∧ it.cid ∉ seen)
  | [], _, _, _ => by simp
  | it :: rest, seen, i, h => by
    unfold validateIds at h
    split at h
    · exact absurd h (by simp)
    · rename_i hne
      split at h
      · exact absurd h (by simp)
      · rename_i hns
        have ih := validateIds_none rest (it.cid :: seen) (i + 1) h
        have hns' : it.cid ∉ seen := fun hm => hns (List.contains_iff_mem.mpr hm)
        refine ⟨?_, ?_⟩
        · simp only [List.map_cons, List.nodup_cons, List.mem_map, not_exists, not_and]
          refine ⟨?_, ih.1⟩
          intro x hx heq
          exact (ih.2 x hx).2 (by simp [heq])
        · intro x hx
          rcases List.mem_cons.mp hx with rfl | hx
          · exact ⟨hne, hns'⟩
          · exact ⟨(ih.2 x hx).1, fun hm => (ih.2 x hx).2 (List.mem_cons_of_mem _ hm)⟩

theorem validateIds_some {I : Type} : ∀ (items : List (Item I)) (seen : List String) (i : Nat) (e : Err),
    validateIds seen i items = some e →
      (∃ it ∈ items, it.cid = "") ∨ ¬ (items.map (·.cid)).Nodup ∨ (∃ it ∈ items, it.cid ∈ seen)
  | [], _, _, _, h => by simp [validateIds] at h
  | it :: rest, seen, i, e, h => by
    unfold validateIds at h
    split at h
    · rename_i he; exact Or.inl ⟨it, by simp, he⟩
    · split at h
      · rename_i hc
        exact Or.inr (Or.inr ⟨it, by simp, List.contains_iff_mem.mp hc⟩)
      · rcases validateIds_some rest (it.cid :: seen) (i + 1) e h with ⟨x, hx, hxe⟩ | hnd | ⟨x, hx, hxs⟩
        · exact Or.inl ⟨x, List.mem_cons_of_mem _ hx, hxe⟩
        · refine Or.inr (Or.inl ?_)
          intro hn
          have hn' : (it.cid :: rest.map (·.cid)).Nodup := hn
          exact hnd (List.nodup_cons.mp hn').2
        · rcases List.mem_cons.mp hxs with heq | hxs
          · refine Or.inr (Or.inl ?_)
            intro hn
            have hn' : (it.cid :: rest.map (·.cid)).Nodup := hn
            exact (List.nodup_cons.mp hn').1 (List.mem_map.mpr ⟨x, hx, heq⟩)
          · exact Or.inr (Or.inr ⟨x, List.mem_cons_of_mem _ hx, hxs⟩)

/-! ## the de-duplication map -/

section grouping
variable {I K : Type} [DecidableEq K] (key : I → K)

/-- what holds of `cacheKeyMap` after the checks `done` have been added -/
structure Inv (done : List (Item I)) (gs : List (Group I K)) : Prop where
  /-- the representative of a group has the group's key -/
  rep_key : ∀ g ∈ gs, key g.rep = g.key
  /-- the representative is one of the request's items -/
  rep_mem : ∀ g ∈ gs, ∃ it ∈ done, it.inp = g.rep
  /-- every check is in the group of its key -/
  covered : ∀ it ∈ done, ∃ g ∈ gs, g.key = key it.inp ∧ it.cid ∈ g.ids
  /-- a group only holds ids of checks with the group's key -/
  sound : ∀ g ∈ gs, ∀ id ∈ g.ids, ∃ it ∈ done, it.cid = id ∧ key it.inp = g.key
  /-- ids are neither lost nor duplicated -/
  ids : (gs.flatMap (·.ids)).Perm (done.map (·.cid))
  /-- one entry per key -/
  keys_nodup : (gs.map (·.key)).Nodup

theorem mem_addItem_keys (it : Item I) : ∀ (gs : List (Group I K)) (k : K),
    k ∈ (addItem key it gs).map (·.key) ↔ k = key it.inp ∨ k ∈ gs.map (·.key)
  | [], k => by simp [addItem]
  | g :: gs, k => by
    unfold addItem
    split
    · rename_i h
      simp only [List.map_cons, List.mem_cons]
      constructor
      · rintro (h1 | h1)
        · exact Or.inr (Or.inl h1)
        · exact Or.inr (Or.inr h1)
      · rintro (h1 | h1 | h1)
        · exact Or.inl (h1.trans h.symm)
        · exact Or.inl h1
        · exact Or.inr h1
    · simp only [List.map_cons, List.mem_cons, mem_addItem_keys it gs k]
      constructor
      · rintro (h1 | h1 | h1)
        · exact Or.inr (Or.inl h1)
        · exact Or.inl h1
        · exact Or.inr (Or.inr h1)
      · rintro (h1 | h1 | h1)
        · exact Or.inr (Or.inl h1)
        · exact Or.inl h1
        · exact Or.inr (Or.inr h1)

/-- the ids are only moved to the end of a group or into a new last group -/
theorem addItem_ids (it : Item I) : ∀ (gs : List (Group I K)),
    ((addItem key it gs).flatMap (·.ids)).Perm (gs.flatMap (·.ids) ++ [it.cid])
  | [] => by simp [addItem]
  | g :: gs => by
    unfold addItem
    split
    · simp only [List.flatMap_cons]
      rw [List.append_assoc, List.append_assoc]
      exact List.Perm.append_left _ List.perm_append_comm
    · simp only [List.flatMap_cons]
      rw [List.append_assoc]
      exact List.Perm.append_left _ (addItem_ids it gs)

/-- where an entry of the new map comes from: an old entry (same key and representative; ids unchanged,
or extended by the new id when the keys agree), or a fresh entry for a key that was absent -/
theorem addItem_origin (it : Item I) : ∀ (gs : List (Group I K)) (g' : Group I K), g' ∈ addItem key it gs →
    (∃ g ∈ gs, g'.key = g.key ∧ g'.rep = g.rep ∧
        (g'.ids = g.ids ∨ (g'.ids = g.ids ++ [it.cid] ∧ g.key = key it.inp))) ∨
    (g'.key = key it.inp ∧ g'.rep = it.inp ∧ g'.ids = [it.cid])
  | [], g', h => by
    simp only [addItem, List.mem_singleton] at h
    subst h
    exact Or.inr ⟨rfl, rfl, rfl⟩
  | g :: gs, g', h => by
    unfold addItem at h
    split at h
    · rename_i hk
      rcases List.mem_cons.mp h with rfl | h
      · exact Or.inl ⟨g, by simp, rfl, rfl, Or.inr ⟨rfl, hk⟩⟩
      · exact Or.inl ⟨g', List.mem_cons_of_mem _ h, rfl, rfl, Or.inl rfl⟩
    · rcases List.mem_cons.mp h with rfl | h
      · exact Or.inl ⟨g', by simp, rfl, rfl, Or.inl rfl⟩
      · rcases addItem_origin it gs g' h with ⟨g0, hg0, h1⟩ | h1
        · exact Or.inl ⟨g0, List.mem_cons_of_mem _ hg0, h1⟩
        · exact Or.inr h1

/-- old entries survive (key, representative, ids) -/
theorem addItem_keeps (it : Item I) : ∀ (gs : List (Group I K)) (g : Group I K), g ∈ gs →
    ∃ g' ∈ addItem key it gs, g'.key = g.key ∧ g'.rep = g.rep ∧ ∀ id ∈ g.ids, id ∈ g'.ids
  | [], _, h => by simp at h
  | g0 :: gs, g, h => by
    unfold addItem
    split
    · rcases List.mem_cons.mp h with rfl | h
      · exact ⟨_, List.mem_cons_self, rfl, rfl, fun id hid => List.mem_append_left _ hid⟩
      · exact ⟨g, List.mem_cons_of_mem _ h, rfl, rfl, fun _ hid => hid⟩
    · rcases List.mem_cons.mp h with rfl | h
      · exact ⟨g, List.mem_cons_self, rfl, rfl, fun _ hid => hid⟩
      · obtain ⟨g', hg', h1⟩ := addItem_keeps it gs g h
        exact ⟨g', List.mem_cons_of_mem _ hg', h1⟩

/-- the new check lands in the entry of its key -/
theorem addItem_lands (it : Item I) : ∀ (gs : List (Group I K)),
    ∃ g' ∈ addItem key it gs, g'.key = key it.inp ∧ it.cid ∈ g'.ids
  | [] => ⟨{ key := key it.inp, rep := it.inp, ids := [it.cid] }, by simp [addItem], rfl, by simp⟩
  | g :: gs => by
    unfold addItem
    split
    · rename_i hk
      exact ⟨_, List.mem_cons_self, hk, by simp⟩
    · obtain ⟨g', hg', h1⟩ := addItem_lands it gs
      exact ⟨g', List.mem_cons_of_mem _ hg', h1⟩

theorem addItem_keys_nodup (it : Item I) : ∀ (gs : List (Group I K)), (gs.map (·.key)).Nodup →
    ((addItem key it gs).map (·.key)).Nodup
  | [], _ => by simp [addItem]
  | g :: gs, h => by
    have hnd := List.nodup_cons.mp (by simpa using h : (g.key :: gs.map (·.key)).Nodup)
    unfold addItem
    split
    · simpa using h
    · rename_i hk
      simp only [List.map_cons, List.nodup_cons]
      refine ⟨?_, addItem_keys_nodup it gs hnd.2⟩
      intro hm
      rcases (mem_addItem_keys key it gs g.key).mp hm with h1 | h1
      · exact hk h1
      · exact hnd.1 h1

theorem addItem_inv (done : List (Item I)) (it : Item I) (gs : List (Group I K))
    (h : Inv key done gs) : Inv key (done ++ [it]) (addItem key it gs) := by
  refine ⟨?_, ?_, ?_, ?_, ?_, addItem_keys_nodup key it gs h.keys_nodup⟩
  · intro g' hg'
    rcases addItem_origin key it gs g' hg' with ⟨g, hg, h1, h2, _⟩ | ⟨h1, h2, _⟩
    · rw [h1, h2]; exact h.rep_key g hg
    · rw [h1, h2]
  · intro g' hg'
    rcases addItem_origin key it gs g' hg' with ⟨g, hg, _, h2, _⟩ | ⟨_, h2, _⟩
    · obtain ⟨x, hx, hxe⟩ := h.rep_mem g hg
      exact ⟨x, List.mem_append_left _ hx, by rw [h2]; exact hxe⟩
    · exact ⟨it, by simp, h2.symm⟩
  · intro x hx
    rcases List.mem_append.mp hx with hx | hx
    · obtain ⟨g, hg, h1, h2⟩ := h.covered x hx
      obtain ⟨g', hg', k1, _, k3⟩ := addItem_keeps key it gs g hg
      exact ⟨g', hg', k1.trans h1, k3 _ h2⟩
    · have : x = it := by simpa using hx
      subst this
      exact addItem_lands key x gs
  · intro g' hg' id hid
    rcases addItem_origin key it gs g' hg' with ⟨g, hg, h1, _, h3⟩ | ⟨h1, _, h3⟩
    · rcases h3 with h3 | ⟨h3, h4⟩
      · obtain ⟨x, hx, e1, e2⟩ := h.sound g hg id (h3 ▸ hid)
        exact ⟨x, List.mem_append_left _ hx, e1, e2.trans h1.symm⟩
      · rw [h3] at hid
        rcases List.mem_append.mp hid with hid | hid
        · obtain ⟨x, hx, e1, e2⟩ := h.sound g hg id hid
          exact ⟨x, List.mem_append_left _ hx, e1, e2.trans h1.symm⟩
        · have : id = it.cid := by simpa using hid
          subst this
          exact ⟨it, by simp, rfl, (h1.trans h4).symm⟩
    · rw [h3] at hid
      have : id = it.cid := by simpa using hid
      subst this
      exact ⟨it, by simp, rfl, h1.symm⟩
  · have := (addItem_ids key it gs).trans (h.ids.append_right [it.cid])
    simpa using this

theorem foldl_inv : ∀ (items done : List (Item I)) (gs : List (Group I K)), Inv key done gs →
    Inv key (done ++ items) (items.foldl (fun acc it => addItem key it acc) gs)
  | [], done, gs, h => by simpa using h
  | it :: rest, done, gs, h => by
    have := foldl_inv rest (done ++ [it]) (addItem key it gs) (addItem_inv key done it gs h)
    simpa using this

/-- **The de-duplication map after all checks were added.** -/
theorem groupItems_inv (items : List (Item I)) : Inv key items (groupItems key items) := by
  have h0 : Inv key ([] : List (Item I)) ([] : List (Group I K)) :=
    ⟨by simp, by simp, by simp, by simp, by simp, by simp⟩
  simpa [groupItems] using foldl_inv key items [] [] h0

end grouping

/-! ## run and fan-out -/

section main
variable {I K R : Type} [DecidableEq K]

/-- a Go map filled by assignments with pairwise different keys returns what was assigned -/
theorem mapGet_of_mem {V : Type} (m : List (String × V)) (hn : (m.map (·.1)).Nodup) (id : String) (v : V)
    (h : (id, v) ∈ m) : mapGet m id = some v := by
  unfold mapGet
  have hn' : (m.reverse.map (·.1)).Nodup := by
    rw [List.map_reverse]; exact (List.reverse_perm _).nodup_iff.mpr hn
  have h' : (id, v) ∈ m.reverse := List.mem_reverse.mpr h
  generalize m.reverse = l at hn' h'
  induction l with
  | nil => simp at h'
  | cons x xs ih =>
    simp only [List.find?_cons]
    have hnd := List.nodup_cons.mp (by simpa using hn' : (x.1 :: xs.map (·.1)).Nodup)
    rcases List.mem_cons.mp h' with rfl | h'
    · simp
    · have hne : x.1 ≠ id := by
        intro he
        exact hnd.1 (List.mem_map.mpr ⟨(id, v), h', he.symm⟩)
      simp only [hne, decide_false]
      exact ih hnd.2 h'

theorem mapGet_none {V : Type} (m : List (String × V)) (id : String) (h : id ∉ m.map (·.1)) : mapGet m id = none := by
  unfold mapGet
  have : m.reverse.find? (fun p => p.1 = id) = none := by
    apply List.find?_eq_none.mpr
    intro x hx hxe
    exact h (List.mem_map.mpr ⟨x, List.mem_reverse.mp hx, by simpa using hxe⟩)
  simp [this]

theorem fanOut_ids (rs : List (K × Outcome R)) (gs : List (Group I K)) :
    (fanOut rs gs).map (·.1) = gs.flatMap (·.ids) := by
  induction gs with
  | nil => simp [fanOut]
  | cons g gs ih =>
    simp only [fanOut, List.flatMap_cons, List.map_append, List.map_map] at ih ⊢
    rw [ih]
    congr 1
    induction g.ids with
    | nil => rfl
    | cons a as iha => simp [iha]

/-- what the pool stored under a key that has a group: the (possibly cancelled) outcome of the check of
SOME representative with that key -/
theorem loadResult_spec (key : I → K) (check : I → R) (cancelled : K → Bool) (gs : List (Group I K))
    (hrep : ∀ g ∈ gs, key g.rep = g.key) (k : K) (hk : k ∈ gs.map (·.key)) :
    ∃ rep, key rep = k ∧
      loadResult (runGroups check cancelled gs) k = some (if cancelled k then .cancelled else .done (check rep)) := by
  induction gs with
  | nil => simp at hk
  | cons g gs ih =>
    simp only [runGroups, List.map_cons, loadResult, List.find?_cons]
    by_cases hg : g.key = k
    · subst hg
      exact ⟨g.rep, hrep g (by simp), by simp⟩
    · have hk' : k ∈ gs.map (·.key) := by
        rcases List.mem_cons.mp (by simpa using hk : k ∈ g.key :: gs.map (·.key)) with h | h
        · exact absurd h.symm hg
        · exact h
      obtain ⟨rep, h1, h2⟩ := ih (fun g' hg' => hrep g' (List.mem_cons_of_mem _ hg')) hk'
      refine ⟨rep, h1, ?_⟩
      simp only [hg, decide_false]
      simpa [runGroups, loadResult] using h2

/-- **batch_spec.**  `same` is the equivalence the de-duplication key is injective up to (C24: equal
tuple key, equal contextual tuples and equal context up to the order of struct fields); the checker is
a function of the inputs up to `same`.  Then, whatever the execution order of the pool (`permRun`), the
iteration order of the fan-out (`permFan`) and the cancellation pattern, every correlation id of the
request maps to the outcome of the standalone check of its own item. -/
theorem batch_spec (maxChecks : Nat) (key : I → K) (check : I → R) (cancelled : K → Bool)
    (same : I → I → Prop) (hkey : ∀ a b, key a = key b → same a b) (hcheck : ∀ a b, same a b → check a = check b)
    (permRun permFan : List (Group I K) → List (Group I K))
    (hrun : ∀ gs, (permRun gs).Perm gs) (hfan : ∀ gs, (permFan gs).Perm gs)
    (items : List (Item I)) (res : Result R)
    (h : execute maxChecks key check cancelled permRun permFan items = .ok res) :
    ∀ it ∈ items, mapGet res.results it.cid =
      some (some (if cancelled (key it.inp) then Outcome.cancelled else Outcome.done (check it.inp))) := by
  unfold execute at h
  split at h
  · exact absurd h (by simp)
  · split at h
    · exact absurd h (by simp)
    · split at h
      · exact absurd h (by simp)
      · rename_i hval
        injection h with h
        subst h
        intro it hit
        have inv := groupItems_inv key items
        have hnodup := (validateIds_none items [] 0 hval).1
        obtain ⟨g, hg, hgk, hgid⟩ := inv.covered it hit
        -- the ids assigned by the fan-out are pairwise different
        have hfo : ((fanOut (runGroups check cancelled (permRun (groupItems key items)))
            (permFan (groupItems key items))).map (·.1)).Nodup := by
          rw [fanOut_ids]
          have p1 : ((permFan (groupItems key items)).flatMap (·.ids)).Perm ((groupItems key items).flatMap (·.ids)) :=
            (hfan _).flatMap_right _
          exact (p1.trans inv.ids).nodup_iff.mpr hnodup
        apply mapGet_of_mem _ hfo
        -- the entry written for this id
        have hg' : g ∈ permFan (groupItems key items) := (hfan _).mem_iff.mpr hg
        have hrep : ∀ g' ∈ permRun (groupItems key items), key g'.rep = g'.key :=
          fun g' hg'' => inv.rep_key g' ((hrun _).mem_iff.mp hg'')
        have hk : g.key ∈ (permRun (groupItems key items)).map (·.key) :=
          List.mem_map.mpr ⟨g, (hrun _).mem_iff.mpr hg, rfl⟩
        obtain ⟨rep, hr1, hr2⟩ := loadResult_spec key check cancelled _ hrep g.key hk
        have hsame : check rep = check it.inp := hcheck _ _ (hkey _ _ (hr1.trans hgk))
        simp only [fanOut, List.mem_flatMap, List.mem_map]
        refine ⟨g, hg', it.cid, hgid, ?_⟩
        rw [hr2, hgk, hsame]

/-- **Every correlation id exactly once**: the assignments of the fan-out are a permutation of the
request's correlation ids (which validation made pairwise different), so each id is written once and
no other id is written. -/
theorem batch_ids_exactly_once (maxChecks : Nat) (key : I → K) (check : I → R) (cancelled : K → Bool)
    (permRun permFan : List (Group I K) → List (Group I K)) (hfan : ∀ gs, (permFan gs).Perm gs)
    (items : List (Item I)) (res : Result R)
    (h : execute maxChecks key check cancelled permRun permFan items = .ok res) :
    (res.results.map (·.1)).Perm (items.map (·.cid)) ∧ (res.results.map (·.1)).Nodup ∧
      ∀ id, id ∉ items.map (·.cid) → mapGet res.results id = none := by
  unfold execute at h
  split at h
  · exact absurd h (by simp)
  · split at h
    · exact absurd h (by simp)
    · split at h
      · exact absurd h (by simp)
      · rename_i hval
        injection h with h
        subst h
        have inv := groupItems_inv key items
        have hnodup := (validateIds_none items [] 0 hval).1
        have p : ((fanOut (runGroups check cancelled (permRun (groupItems key items)))
            (permFan (groupItems key items))).map (·.1)).Perm (items.map (·.cid)) := by
          rw [fanOut_ids]
          exact ((hfan _).flatMap_right _).trans inv.ids
        refine ⟨p, p.nodup_iff.mpr hnodup, ?_⟩
        intro id hid
        exact mapGet_none _ _ (fun hm => hid (p.mem_iff.mp hm))

theorem inj_of_nodup_map : ∀ (items : List (Item I)), (items.map (·.cid)).Nodup →
    ∀ x ∈ items, ∀ y ∈ items, x.cid = y.cid → x = y
  | [], _, x, hx, _, _, _ => by simp at hx
  | a :: rest, hn, x, hx, y, hy, hxy => by
    have hn' : (a.cid :: rest.map (·.cid)).Nodup := hn
    have hnd := List.nodup_cons.mp hn'
    rcases List.mem_cons.mp hx with hxa | hx'
    · rcases List.mem_cons.mp hy with hya | hy'
      · rw [hxa, hya]
      · subst hxa
        exact absurd (List.mem_map.mpr ⟨y, hy', hxy.symm⟩ : x.cid ∈ rest.map (·.cid)) hnd.1
    · rcases List.mem_cons.mp hy with hya | hy'
      · subst hya
        exact absurd (List.mem_map.mpr ⟨x, hx', hxy⟩ : y.cid ∈ rest.map (·.cid)) hnd.1
      · exact inj_of_nodup_map rest hnd.2 x hx' y hy' hxy

/-- **Items that differ are never answered from each other**: in the de-duplication map two checks of
the request share an entry only if their inputs are `same`. -/
theorem no_cross_answer (key : I → K) (same : I → I → Prop) (hkey : ∀ a b, key a = key b → same a b)
    (items : List (Item I)) (hids : (items.map (·.cid)).Nodup) (a b : Item I) (ha : a ∈ items) (hb : b ∈ items)
    (g : Group I K) (hg : g ∈ groupItems key items) (hag : a.cid ∈ g.ids) (hbg : b.cid ∈ g.ids) :
    same a.inp b.inp := by
  have inv := groupItems_inv key items
  have uniq : ∀ x ∈ items, ∀ y ∈ items, x.cid = y.cid → x = y :=
    fun x hx y hy hxy => inj_of_nodup_map items hids x hx y hy hxy
  obtain ⟨x, hx, hx1, hx2⟩ := inv.sound g hg a.cid hag
  obtain ⟨y, hy, hy1, hy2⟩ := inv.sound g hg b.cid hbg
  have ex := uniq x hx a ha hx1
  have ey := uniq y hy b hb hy1
  subst ex; subst ey
  exact hkey _ _ (hx2.trans hy2.symm)

/-- the representative whose check is executed for an entry is itself one of the request's items, and
the number of executions is the number of distinct keys -/
theorem executions_are_request_items (key : I → K) (items : List (Item I)) :
    (∀ g ∈ groupItems key items, ∃ it ∈ items, it.inp = g.rep ∧ key it.inp = g.key) ∧
    ((groupItems key items).map (·.key)).Nodup ∧
    (∀ k, k ∈ (groupItems key items).map (·.key) ↔ ∃ it ∈ items, key it.inp = k) := by
  have inv := groupItems_inv key items
  refine ⟨?_, inv.keys_nodup, ?_⟩
  · intro g hg
    obtain ⟨it, hit, he⟩ := inv.rep_mem g hg
    exact ⟨it, hit, he, by rw [he]; exact inv.rep_key g hg⟩
  · intro k
    constructor
    · intro hk
      obtain ⟨g, hg, rfl⟩ := List.mem_map.mp hk
      obtain ⟨it, hit, he⟩ := inv.rep_mem g hg
      exact ⟨it, hit, by rw [he]; exact inv.rep_key g hg⟩
    · rintro ⟨it, hit, rfl⟩
      obtain ⟨g, hg, h1, _⟩ := inv.covered it hit
      exact List.mem_map.mpr ⟨g, hg, h1⟩

/-- **The hypothesis is necessary**: if the key identifies two inputs whose checks differ, the second
one receives the first one's answer. -/
theorem dedup_needs_injectivity (key : I → K) (check : I → R) (a b : I) (hk : key a = key b) (hc : check a ≠ check b) :
    ∃ res, execute 50 key check (fun _ => false) id id [⟨"1", a⟩, ⟨"2", b⟩] = .ok res ∧
      mapGet res.results "2" = some (some (.done (check a))) ∧
      mapGet res.results "2" ≠ some (some (.done (check b))) := by
  refine ⟨_, rfl, ?_, ?_⟩
  · simp [groupItems, addItem, hk, fanOut, runGroups, loadResult, mapGet]
  · simp [groupItems, addItem, hk, fanOut, runGroups, loadResult, mapGet, hc]

/-! ## validation -/

/-- `Execute` fails exactly on: too many checks, no checks, an empty or a repeated correlation id -/
theorem execute_error_iff (maxChecks : Nat) (key : I → K) (check : I → R) (cancelled : K → Bool)
    (permRun permFan : List (Group I K) → List (Group I K)) (items : List (Item I)) :
    (∃ e, execute maxChecks key check cancelled permRun permFan items = .error e) ↔
      items.length > maxChecks ∨ items = [] ∨ (∃ it ∈ items, it.cid = "") ∨ ¬ (items.map (·.cid)).Nodup := by
  unfold execute
  by_cases h1 : items.length > maxChecks
  · simp [h1]
  · by_cases h2 : items.length = 0
    · simp [List.length_eq_zero_iff.mp h2]
    · have h2' : items ≠ [] := fun e => h2 (by simp [e])
      cases hv : validateIds [] 0 items with
      | some e' =>
        simp only [h1, h2, if_false, false_or, h2']
        refine ⟨fun _ => ?_, fun _ => ⟨e', rfl⟩⟩
        rcases validateIds_some items [] 0 e' hv with h3 | h3 | ⟨_, _, h3⟩
        · exact Or.inl h3
        · exact Or.inr h3
        · simp at h3
      | none =>
        have := validateIds_none items [] 0 hv
        simp only [h1, h2, if_false, false_or, h2']
        constructor
        · rintro ⟨e, he⟩; exact absurd he (by simp)
        · rintro (⟨it, hit, he⟩ | h)
          · exact absurd he (this.2 it hit).1
          · exact absurd this.1 h

/-- the order of the tests: size limit, emptiness, then the ids in list order (empty before duplicate) -/
theorem execute_error_order (key : I → K) (check : I → R) (cancelled : K → Bool)
    (permRun permFan : List (Group I K) → List (Group I K)) (a b : I) :
    execute 1 key check cancelled permRun permFan [⟨"", a⟩, ⟨"", b⟩] = .error .tooMany ∧
    execute 0 key check cancelled permRun permFan [] = .error .noChecks ∧
    execute 5 key check cancelled permRun permFan [⟨"x", a⟩, ⟨"x", b⟩, ⟨"", a⟩] = .error (.dupId "x") ∧
    execute 5 key check cancelled permRun permFan [⟨"x", a⟩, ⟨"", b⟩, ⟨"x", a⟩] = .error (.emptyId 1) := by
  refine ⟨?_, ?_, ?_, ?_⟩ <;> simp [execute, validateIds]

end main

/-! ## the task handed to the pool returns nil: the failure of one item stays with that item -/

section isolation
variable {I K R : Type} [DecidableEq K]

/-- a task function that never returns an error never cancels a sibling: the pool is `runGroups` -/
theorem runPool_nil (check : I → R) (cancelled : K → Bool) : ∀ (gs : List (Group I K)),
    runPool check (fun _ => false) cancelled false gs = runGroups check cancelled gs
  | [] => rfl
  | g :: gs => by
    have ih := runPool_nil check cancelled gs
    by_cases hc : cancelled g.key
    · simp [runPool, runGroups, hc] at ih ⊢; exact ih
    · simp [runPool, runGroups, hc] at ih ⊢; exact ih

theorem executeP_nil (maxChecks : Nat) (key : I → K) (check : I → R) (cancelled : K → Bool)
    (permRun permFan : List (Group I K) → List (Group I K)) (items : List (Item I)) :
    executeP maxChecks key check (fun _ => false) cancelled permRun permFan items =
      execute maxChecks key check cancelled permRun permFan items := by
  unfold executeP execute
  simp only [runPool_nil]

/-- what the task function of the SOURCE returns after a check answered `r`: a non-nil error iff some
`return` of the function literal handed to `pool.Go` is not `return nil` (regenerated on every run) -/
def genRetErr : R → Bool := fun _ => !(Gen.Batch.poolTaskReturns.all (· == "return nil"))

/-- **tie**: every return statement of the pool task is `return nil`; the pool is the one of
`concurrency.NewPool`, which is built `WithCancelOnError` (so this is what isolation rests on) -/
theorem tie_worker_returns_nil :
    Gen.Batch.poolTaskReturns = ["return nil", "return nil"] ∧
    Gen.Batch.poolCtor = "pool := concurrency.NewPool(ctx, int(bq.maxConcurrentChecks))" ∧
    Gen.Batch.poolOptions = ["WithMaxGoroutines", "WithFirstError", "WithCancelOnError", "WithContext", "New"] := by decide

theorem genRetErr_nil : (genRetErr : R → Bool) = fun _ => false := by
  funext r
  simp [genRetErr, tie_worker_returns_nil.1]

/-- **item_error_isolated.**  Take the batch as the source runs it (task return value = `genRetErr`, request
context alive) in two worlds: one where the check of the input `bad` answers whatever it answers (`check`),
one where it fails in any way whatsoever (`check'` differs from `check` at most on inputs `same` as
`bad`).  Then — for every schedule of the pool and every iteration order of the fan-out, independently in
the two worlds — every correlation id whose item is not `same` as `bad` has the same outcome in both
worlds, namely the outcome of the standalone check of its own item: the failure of one item changes no
other id's outcome.  Corollary of `batch_spec` under the tie `tie_worker_returns_nil`. -/
theorem item_error_isolated (maxChecks : Nat) (key : I → K) (check check' : I → R)
    (same : I → I → Prop) (hkey : ∀ a b, key a = key b → same a b)
    (hcheck : ∀ a b, same a b → check a = check b) (hcheck' : ∀ a b, same a b → check' a = check' b)
    (bad : I) (hagree : ∀ a, ¬ same a bad → check' a = check a)
    (permRun permFan permRun' permFan' : List (Group I K) → List (Group I K))
    (hrun : ∀ gs, (permRun gs).Perm gs) (hfan : ∀ gs, (permFan gs).Perm gs)
    (hrun' : ∀ gs, (permRun' gs).Perm gs) (hfan' : ∀ gs, (permFan' gs).Perm gs)
    (items : List (Item I)) (res res' : Result R)
    (h : executeP maxChecks key check genRetErr (fun _ => false) permRun permFan items = .ok res)
    (h' : executeP maxChecks key check' genRetErr (fun _ => false) permRun' permFan' items = .ok res') :
    ∀ it ∈ items, ¬ same it.inp bad →
      mapGet res'.results it.cid = mapGet res.results it.cid ∧
      mapGet res.results it.cid = some (some (.done (check it.inp))) := by
  intro it hit hnb
  rw [genRetErr_nil, executeP_nil] at h h'
  have e := batch_spec maxChecks key check (fun _ => false) same hkey hcheck permRun permFan hrun hfan items res h it hit
  have e' := batch_spec maxChecks key check' (fun _ => false) same hkey hcheck' permRun' permFan' hrun' hfan' items res' h' it hit
  simp only [Bool.false_eq_true, ↓reduceIte] at e e'
  rw [e, e', hagree _ hnb]
  exact ⟨rfl, rfl⟩

/-- **The tie is necessary**: a task that hands the error of its check to the pool (`retErr r = true` for
the failing answer) makes the sibling that is scheduled after it `cancelled` instead of its own outcome. -/
theorem worker_error_cancels_siblings :
    ∃ res, executeP 50 (fun n : Nat => n) (fun n : Nat => n) (fun r => r == 0) (fun _ => false) id id
        [⟨"slow", 0⟩, ⟨"healthy", 5⟩] = .ok res ∧
      mapGet res.results "healthy" = some (some .cancelled) ∧
      mapGet res.results "healthy" ≠ some (some (.done 5)) := by
  refine ⟨_, rfl, ?_, ?_⟩ <;> decide

end isolation

/-! ## The key of the source: hypothesis `hkey` discharged by C24 -/

section c24
open OpenFGAVerif.Model.Keys OpenFGAVerif.Proofs.KeysPb OpenFGAVerif.Proofs.KeysTuple

/-- the inputs of one check as `generateCacheKeyFromCheck` sees them -/
structure CheckInp where
  object : Bytes
  relation : Bytes
  user : Bytes
  ctx : List (Bytes × PbV)       -- `check.GetContext()`
  ctxTuples : List Tup           -- `check.GetContextualTuples().GetTupleKeys()`

/-- `generateCacheKeyFromCheck(check, storeID, authModelID)` in the byte-level model of C24 -/
def batchKey (H : Bytes → UInt64) (L : List Field) (store model : Bytes) (c : CheckInp) : Bytes :=
  checkKey genTags L store c.object c.relation c.user
    (invariantKey genTags H (goSort tupleLess) store model c.ctx c.ctxTuples)

/-- equal tuple key, equal contextual tuples (as sorted by `sort.Sort(TupleKeys)`, condition contexts up
to field order) and equal context (up to field order) -/
def sameInputs (a b : CheckInp) : Prop :=
  a.object = b.object ∧ a.relation = b.relation ∧ a.user = b.user ∧
  (goSort tupleLess a.ctxTuples).map tupNorm = (goSort tupleLess b.ctxTuples).map tupNorm ∧
  pbNorm (.struct a.ctx) = pbNorm (.struct b.ctx)

/-- the digest does not collide on the pre-images occurring in this request -/
def DigestInjectiveOn (H : Bytes → UInt64) (store model : Bytes) (items : List (Item CheckInp)) : Prop :=
  ∀ a ∈ items, ∀ b ∈ items,
    H (invariantPre genTags (goSort tupleLess) store model a.inp.ctx a.inp.ctxTuples) =
      H (invariantPre genTags (goSort tupleLess) store model b.inp.ctx b.inp.ctxTuples) →
    invariantPre genTags (goSort tupleLess) store model a.inp.ctx a.inp.ctxTuples =
      invariantPre genTags (goSort tupleLess) store model b.inp.ctx b.inp.ctxTuples

/-- `hkey` for the items of a request, from C24 -/
theorem batchKey_injective (H : Bytes → UInt64) (L : List Field) (hL : ("checkCacheKey", L) ∈ C24.genPlainLayouts)
    (store model : Bytes) (items : List (Item CheckInp)) (hH : DigestInjectiveOn H store model items)
    (a b : Item CheckInp) (ha : a ∈ items) (hb : b ∈ items)
    (h : batchKey H L store model a.inp = batchKey H L store model b.inp) : sameInputs a.inp b.inp := by
  have := C24.subproblem_key_injective_upto_digest H (goSort tupleLess) L hL
    store a.inp.object a.inp.relation a.inp.user model a.inp.ctx a.inp.ctxTuples
    store b.inp.object b.inp.relation b.inp.user model b.inp.ctx b.inp.ctxTuples (hH a ha b hb) h
  exact ⟨this.2.1, this.2.2.1, this.2.2.2.1, this.2.2.2.2.2.1, this.2.2.2.2.2.2⟩

end c24

/-! ## Ties to the regenerated source facts (`Gen.Batch`, extract/facts_batch.go; the wiring of
`generateCacheKeyFromCheck` itself is also pinned by `C24.tie_helpers`) -/

set_option maxRecDepth 200000 in
/-- arguments of `CheckCacheKey` and of the nested `InvariantCacheKey`, in order -/
theorem tie_dedup_key : Gen.Batch.checkCacheKeyArgs =
      ["storeID", "checkTupleKey.GetObject()", "checkTupleKey.GetRelation()", "checkTupleKey.GetUser()",
       "storage.InvariantCacheKey( storeID, authModelID, check.GetContext(), check.GetContextualTuples().GetTupleKeys()..., )"] ∧
    Gen.Batch.invariantKeyArgs = ["storeID", "authModelID", "check.GetContext()", "check.GetContextualTuples().GetTupleKeys()..."] ∧
    Gen.Batch.keyCall = "generateCacheKeyFromCheck(check, params.StoreID, params.AuthorizationModelID)" := by decide

/-- the validation sequence of Execute and of validateCorrelationIDs -/
theorem tie_validation : Gen.Batch.executeGuards =
      ["len(params.Checks) > int(bq.maxChecksAllowed)", "len(params.Checks) == 0",
       "err := validateCorrelationIDs(params.Checks); err != nil"] ∧
    Gen.Batch.validateIdsStmts =
      ["if check.GetCorrelationId() == \"\"", "_, ok := seen[check.GetCorrelationId()]", "if ok",
       "seen[check.GetCorrelationId()] = struct{}{}"] := by decide

set_option maxRecDepth 200000 in
/-- the grouping loop: list order, present key → append the id, absent → new entry with this check -/
theorem tie_grouping : Gen.Batch.groupLoop =
      ["range:params.Checks", "key := generateCacheKeyFromCheck(check, params.StoreID, params.AuthorizationModelID)",
       "if:item, ok := cacheKeyMap[key]; ok",
       "then:item.CorrelationIDs = append(item.CorrelationIDs, CorrelationID(check.GetCorrelationId()))",
       "else:cacheKeyMap[key] = &checkAndCorrelationIDs{ Check: check, CorrelationIDs: []CorrelationID{CorrelationID(check.GetCorrelationId())}, }"] := by
  decide

set_option maxRecDepth 200000 in
/-- the executed check takes the representative's tuple key, contextual tuples and context; its result
is stored under the group's key; the fan-out assigns the loaded outcome to every id of the entry -/
theorem tie_run_and_fanout : Gen.Batch.checkParams =
      ["StoreID:params.StoreID", "TupleKey:check.GetTupleKey()", "ContextualTuples:check.GetContextualTuples()",
       "Context:check.GetContext()", "Consistency:params.Consistency"] ∧
    Gen.Batch.poolRange = "key, item := range cacheKeyMap" ∧ Gen.Batch.taskCheck = "check := item.Check" ∧
    Gen.Batch.storeCalls = ["resultMap.Store(key, &BatchCheckOutcome{ Err: ctx.Err(), })",
      "resultMap.Store(key, &BatchCheckOutcome{ Allowed: res.Allowed, DatastoreQueryCount: res.DatastoreQueryCount, DatastoreItemCount: res.DatastoreItemCount, Duration: res.Duration, Err: err, })"] ∧
    Gen.Batch.fanOutLoop = ["range:cacheKey, checkItem := range cacheKeyMap", "res, _ := resultMap.Load(cacheKey)",
      "outcome := res.(*BatchCheckOutcome)", "range:_, id := range checkItem.CorrelationIDs", "results[id] = outcome"] ∧
    Gen.Batch.duplicateCount = "len(params.Checks) - len(cacheKeyMap)" := by decide

set_option maxRecDepth 200000 in
/-- **the checker shared by the items keeps nothing from one item to the next** (`Gen.ReqScope`,
extract/facts_reqscope.go; hypothesis `hcheck` of `batch_spec`: the check is a function of the ITEM's
inputs).  Server.BatchCheck hands one `CheckQuery` to all items: its `Execute` builds the request-scoped
datastore view (which carries the contextual tuples) by a top-level statement of Execute from the params of
THAT call, reads through that local variable, assigns no field of the command, calls no `.Do(`, and the
struct has no field that could memoise a wrapper; `CheckQueryV2.resolve` builds its `check.Request` per call. -/
theorem tie_request_datastore_per_execute :
    Gen.ReqScope.v1WrapperSites = ["CheckQuery.Execute:funclit-depth=0"] ∧
    Gen.ReqScope.v1WrapperStmt = "datastoreWithTupleCache := storagewrappers.NewRequestStorageWrapperWithCache" ∧
    Gen.ReqScope.v1WrapperArgs = ["c.datastore", "params.ContextualTuples.GetTupleKeys()"] ∧
    Gen.ReqScope.v1ContextReader = ["ctx", "datastoreWithTupleCache"] ∧
    Gen.ReqScope.v1ReceiverWrites = [] ∧ Gen.ReqScope.v1DoCalls = [] ∧ Gen.ReqScope.v1MemoFields = [] ∧
    Gen.ReqScope.v2RequestStmt = "r, err := check.NewRequest" ∧
    Gen.ReqScope.v2RequestContextualTuples = "params.ContextualTuples.GetTupleKeys()" ∧
    Gen.ReqScope.v2ReceiverWrites = [] ∧ Gen.ReqScope.v2ResolveCalls = ["resolver.ResolveCheck(ctx, r)"] := by
  decide

theorem tie_defaults : Gen.Batch.defaultMaxChecks = 50 ∧ Gen.Batch.defaultMaxConcurrent = 50 := by decide

/-! ## Non-vacuity -/

/-- a batch with an exact duplicate, a near-duplicate and a different check: three ids answered, two
executions for the first key class, every id gets its own item's answer -/
example :
    let items : List (Item (Nat × Nat)) := [⟨"a", (1, 0)⟩, ⟨"b", (1, 0)⟩, ⟨"c", (1, 7)⟩, ⟨"d", (2, 0)⟩]
    ∃ res, execute 50 (fun p : Nat × Nat => p) (fun p => p.1 + p.2) (fun _ => false) id List.reverse items = .ok res ∧
      mapGet res.results "a" = some (some (.done 1)) ∧ mapGet res.results "b" = some (some (.done 1)) ∧
      mapGet res.results "c" = some (some (.done 8)) ∧ mapGet res.results "d" = some (some (.done 2)) ∧
      res.duplicateCheckCount = 1 := by
  refine ⟨_, rfl, ?_, ?_, ?_, ?_, ?_⟩ <;>
    simp [groupItems, addItem, fanOut, runGroups, loadResult, mapGet]

/-- `batch_spec` applies to it (identity key, `same` = equality; the fan-out walks the map backwards) -/
example (items : List (Item (Nat × Nat))) (res : Result Nat)
    (h : execute 50 (fun p : Nat × Nat => p) (fun p => p.1 + p.2) (fun _ => false) id List.reverse items = .ok res) :
    ∀ it ∈ items, mapGet res.results it.cid = some (some (.done (it.inp.1 + it.inp.2))) := by
  intro it hit
  have := batch_spec 50 (fun p : Nat × Nat => p) (fun p => p.1 + p.2) (fun _ => false) (· = ·)
    (fun _ _ h => h) (fun _ _ h => by rw [h]) id List.reverse (fun _ => List.Perm.refl _)
    (fun gs => List.reverse_perm gs) items res h it hit
  simpa using this

end OpenFGAVerif.C07
