/-
C08 — The Check query cache never changes answers.

Model of `CachedCheckResolver` (internal/graph/cached_resolver.go): the cache is a set of *facts*
`(sub-problem, allowed)`; a dispatched sub-problem (and the root) is looked up **before** the depth and
cycle tests and a hit is returned without the cycle flag (`Eval.node_hit`); after a miss the outcome of
the delegate is stored **unless it carries the cycle flag**.  Keys: a fact is per world (store, model,
user, context, contextual tuples) by C24 — distinct worlds never share entries.

Proved, for every system, schedule and history (eviction/TTL = forgetting facts, any interleaving of
requests = any order of stores):
  * `stored_fact_sound` — what the resolver stores after an untainted evaluation is a true statement
    about the global semantics (this is the path-independence of unflagged results);
  * `reachable_facts_sound` — by induction over histories, every reachable cache content is sound;
  * `cached_decision_sound` / `cached_agrees_with_uncached` — with any reachable cache, every untainted
    decision is the semantics, hence equals every untainted decision computed without cache.
Partial: results tainted by F1/F12 are stored by the real resolver as well, so those wrong answers
become sticky; the weighted-graph engine's edge cache (F11) is covered by correspondence only.
-/
import OpenFGAVerif.Props.C01
import OpenFGAVerif.Gen.CheckCache
import OpenFGAVerif.Props.ReqClone
import OpenFGAVerif.Props.ResolverKeys
import OpenFGAVerif.Props.V2CacheGuards

namespace OpenFGAVerif.C08
open OpenFGAVerif.BoolSys OpenFGAVerif.Dfs OpenFGAVerif.CheckV1

section
variable {N : Type} (sys : Sys N) (I : Interp N)

/-- what `CachedCheckResolver` writes after a miss: the delegate's decision, unless flagged -/
def storable : Out → Option Bool
  | .ok a false _ => some a
  | _ => none

/-- **Unflagged results are path independent.**  Whatever the depth, the path `V` and the schedule under
which sub-problem `n` was evaluated, an untainted unflagged decision is a fact about the global
semantics — so it may be served to any later request on any path. -/
theorem stored_fact_sound (hc : Coherent sys I) {facts : Facts N}
    (hf : ∀ n b, facts n b → SoundFact sys I n b) {maxDepth d : Nat} {V : List N} {dispatch : Bool} {n : N}
    {a : Bool} (h : Eval sys facts maxDepth d V (.node dispatch n) (.ok a false false)) :
    SoundFact sys I n a := by
  have hs := eval_sound sys I hc hf h
  constructor
  · intro ha; subst ha
    have := (sound_true sys I).mp hs
    cases this with
    | node hn => exact hn
  · intro ha; subst ha
    have := (sound_false_noflag sys I).mp hs
    exact fun hp => this (.node hp)

/-- cache contents reachable from the empty cache by any history: storing the untainted unflagged
outcome of any evaluation that ran against the current contents (any root, depth, path, schedule), and
forgetting entries (TTL expiry, eviction, invalidation). -/
inductive ReachableFacts (maxDepth : Nat) : Facts N → Prop
  | empty : ReachableFacts maxDepth noFacts
  | store (facts : Facts N) (d : Nat) (V : List N) (dispatch : Bool) (n : N) (a : Bool) :
      ReachableFacts maxDepth facts →
      Eval sys facts maxDepth d V (.node dispatch n) (.ok a false false) →
      ReachableFacts maxDepth (fun m b => facts m b ∨ (m = n ∧ b = a))
  | forget (facts facts' : Facts N) :
      ReachableFacts maxDepth facts → (∀ m b, facts' m b → facts m b) → ReachableFacts maxDepth facts'

/-- **Cache invariant over all histories**: every reachable cache content is sound. -/
theorem reachable_facts_sound (hc : Coherent sys I) {maxDepth : Nat} {facts : Facts N}
    (h : ReachableFacts sys maxDepth facts) : ∀ n b, facts n b → SoundFact sys I n b := by
  induction h with
  | empty => intro n b hfb; exact hfb.elim
  | store facts d V dispatch n a _ hev ih =>
    intro m b hmb
    rcases hmb with hmb | ⟨rfl, rfl⟩
    · exact ih m b hmb
    · exact stored_fact_sound sys I hc ih hev
  | forget facts facts' _ hsub ih => intro m b hmb; exact ih m b (hsub m b hmb)

/-- with any reachable cache, an untainted decision is the semantics -/
theorem cached_decision_sound (hc : Coherent sys I) {maxDepth : Nat} {facts : Facts N}
    (hr : ReachableFacts sys maxDepth facts) {e : Expr N} {a c : Bool}
    (h : Eval sys facts maxDepth 0 [] e (.ok a c false)) :
    (a = true → HoldsD sys I [] e) ∧ (a = false → ¬ HoldsP sys I [] e) :=
  eval_root_sound sys I hc (reachable_facts_sound sys I hc hr) h
end

/-- **C08 for the default engine**: for any history that produced the cache, any schedules and depth
limits, the untainted answer with the cache equals the untainted answer without it. -/
theorem cached_agrees_with_uncached (w : World) (I : Interp Node) (hc : Coherent (sysOf w) I)
    (hcons : ∀ s, I.negD s → I.negP s) (d1 d2 : Nat) (facts : Facts Node)
    (hr : ReachableFacts (sysOf w) d1 facts) (a1 c1 a2 c2 : Bool)
    (h1 : Eval (sysOf w) facts d1 0 [] (rootExpr w) (.ok a1 c1 false))
    (h2 : Eval (sysOf w) noFacts d2 0 [] (rootExpr w) (.ok a2 c2 false)) : a1 = a2 := by
  have s1 := cached_decision_sound (sysOf w) I hc hr h1
  have s2 := C01.check_sound_all_schedules w I hc d2 a2 c2 h2
  have dp : HoldsD (sysOf w) I [] (rootExpr w) → HoldsP (sysOf w) I [] (rootExpr w) := by
    intro hd
    have key : ∀ e, Holds leafD I.negD (D (sysOf w) I []) e → Holds leafP I.negP (P (sysOf w) I []) e := by
      intro e he
      induction he with
      | lit hv => exact .lit (leafD_imp_leafP hv)
      | node hn => exact .node (D_sub_P (sysOf w) I hcons [] _ hn)
      | or hm _ ih => exact .or hm ih
      | and _ ih => exact .and ih
      | diff _ hn ih => exact .diff ih (hcons _ hn)
    exact key _ hd
  cases a1 <;> cases a2 <;> try rfl
  · exact absurd (dp (s2.1 rfl)) (s1.2 rfl)
  · exact absurd (dp (s1.1 rfl)) (s2.2 rfl)

/-- the full statement (all decisions, tainted or not) is false of the unchanged code for the same reason
as C01 (F1, F12): a tainted decision is stored like any other. -/
def C08_Full : Prop :=
  ∀ (w : World) (d1 d2 : Nat) (facts : Facts Node) (a1 c1 t1 a2 c2 t2 : Bool),
    Eval (sysOf w) facts d1 0 [] (rootExpr w) (.ok a1 c1 t1) →
    Eval (sysOf w) noFacts d2 0 [] (rootExpr w) (.ok a2 c2 t2) → a1 = a2

/-- Tie to the regenerated source facts (extract/facts_checkcache.go): the lookup is skipped only for
HIGHER_CONSISTENCY, a miss calls the delegate, errors are returned unstored, the CycleDetected guard
returns **before** `cache.Set`, validity is `LastModified.After(LastCacheInvalidationTime)`, and the key
is built from store, object, relation, user and the invariant (model, context, contextual tuples) hash. -/
theorem tie_cached_resolver :
    Gen.CheckCache.skeleton =
      ["tryCache := req.Consistency != openfgav1.ConsistencyPreference_HIGHER_CONSISTENCY", "if tryCache",
       "resp, err := c.delegate.ResolveCheck(ctx, req)", "if err != nil", "if resp.GetCycleDetected()",
       "c.cache.Set", "return"] ∧
    Gen.CheckCache.cycleGuardReturnsBeforeSet = true ∧
    Gen.CheckCache.validityComparesWithInvalidationTime = true ∧
    Gen.CheckCache.cacheKeyArgs =
      "req.GetStoreID(), tk.GetObject(), tk.GetRelation(), tk.GetUser(), req.GetInvariantCacheKey()" := by decide

/-- the guard that makes the invariant hold: a flagged outcome is never storable -/
theorem flagged_not_storable (a t : Bool) : storable (.ok a true t) = none := rfl

/-- non-vacuity: the empty history and a one-store history are reachable -/
example : ReachableFacts C01.toySys 25 (noFacts : Facts Nat) := .empty

end OpenFGAVerif.C08
