/-
C08, addendum — what the sub-problem cache may rely on from the weight-two fast path under cancellation.

A `ResolveCheck` whose rewrite is a tuple-to-userset (or whose only handler is a userset handler) returns
the result of `LocalChecker.weight2` unchanged, and `CachedCheckResolver` stores every error-free result.
The consumer loop of `weight2` (`Weight2.consumeLoop`, every schedule, cancellation at any point, producers
truncated by the cancellation) therefore must not answer `(false, nil)` for a cancelled evaluation:

  * `weight2_cancelled_empty_left_never_false` — the guard `if ctx.Err() != nil { lastErr = ctx.Err() }` at the
    exit "left side closed, nothing received" does its job: cancelled + nothing received ⇒ never `false`
    without error (proved for every schedule);
  * `weight2_cancelled_false_possible` — what no guard covers (the full statement is refuted): after the
    left side delivered an object, both truncated producers may be seen closed before `ctx.Done()` is picked,
    and the loop ends through `for leftOpen || rightOpen` with `(false, nil)`;
  * `tie_weight2_consumer_guards` — the control skeleton of `weight2` (every `select` case, every
    `ctx.Err()` / `ctx.Done()` consultation, every exit of `ConsumerLoop`) is the one the model was written
    against (`C02.Ties.tie_weight2Skel` pins the whole skeleton; `C02.Ties.tie_fanInIteratorChannelsSkel`,
    `tie_streamedLookupUsersetFromIteratorSkel`, `tie_iteratorsToUsersetSkel` the producers).
-/
import OpenFGAVerif.Proofs.RefRules
import OpenFGAVerif.Props.C02Ties
import OpenFGAVerif.Proofs.Weight2Consumer

namespace OpenFGAVerif.C08
open OpenFGAVerif.Weight2

theorem weight2_cancelled_empty_left_never_false (sched : List Pick) (st : CState)
    (hctx : st.ctxErr = true) (hopen : st.leftOpen = true) (hnone : st.leftSet = []) (hq : Chan.items st.leftQ = []) :
    consumeLoop sched st ≠ some .F :=
  cancelled_empty_left_never_F sched st hctx hopen hnone hq

theorem weight2_cancelled_false_possible : ¬ Cancelled_Never_F_Full := cancelled_nonempty_left_can_F

theorem weight2_true_justified (sched : List Pick) (st : CState) (h : consumeLoop sched st = some .T) :
    ∃ u, u ∈ st.rightAll ∧ u ∈ st.leftAll := consumeLoop_T sched st h

theorem weight2_false_justified (sched : List Pick) (hnc : Pick.cancel ∉ sched) (st : CState) (hwf : st.Wf)
    (hctx : st.ctxErr = false) (h : consumeLoop sched st = some .F) :
    (∀ u ∈ st.rightAll, u ∉ st.leftAll) ∧ st.lastErr = false := consumeLoop_F sched hnc st hwf hctx h

/-- every consultation of the context in `weight2`: the first `select`, the loop's `select`, the early exit
"right side closed" and the guard at "left side closed, nothing received" -/
theorem tie_weight2_consumer_guards :
    ["1:case <-ctx.Done()", "2:return nil, ctx.Err()", "3:return res, ctx.Err()", "2:case <-ctx.Done()",
     "3:lastErr = ctx.Err()", "4:if leftSet.Size() == 0", "5:if ctx.Err() != nil", "6:lastErr = ctx.Err()",
     "5:break ConsumerLoop"].all (fun l => Gen.Strategies.weight2Skel.contains l) = true := by
  rw [C02.Ties.tie_weight2Skel]
  decide

end OpenFGAVerif.C08
