/-
C09 — Iterator caches never change answers.

Model: `Model/IterCache.lean` (V1 `cachedIterator` as a transition system over an abstract underlying iterator, the
goroutine of `Stop` with the server context / cache contents / singleflight as oracles, `findInCache`, field elision and
`buildTuple`, histories of reads for one key over an unchanged store); the shared iterator that sits above it is
`Model/SharedIter.lean` (proved in `Props/C23`: every clone sees the whole underlying sequence under every interleaving).
Proofs: `Proofs/IterCache.lean`.  Ties: `Proofs/IterCacheTies.lean` + the literal guards below.

What is assumed, and where:
  * underlying iterator = a script; a call with a cancelled context returns the context error and changes nothing
    (so after a cancellation it never reports `Done` before the true end) — validated every run against the real memory
    iterator (`as` cases) and, by reading, the SQL iterators (`ctx.Err()` is tested before anything else and the rows are
    fetched under `context.WithoutCancel`);
  * a failing `Head` does not consume an element (`headConsumes = false`) or nothing fails — the SQL iterators violate
    this for rows that cannot be scanned / unmarshalled: see `head_swallow_witness` and the report;
  * theine: eviction / expiry = arbitrary deletion of entries and of invalidation markers (`Ev.evict`, `Ev.dropMarkers`);
  * singleflight: `Do` either runs the function or (another drain in flight) does not (`Env.sfShared`);
  * the datastore returns only tuples that match the filter (C13), so the fields fixed by the cache key agree with every
    returned tuple (`Matches`); the string-level split / join of object and user strings is C29's subject.
-/
import OpenFGAVerif.Proofs.IterCache
import OpenFGAVerif.Proofs.IterCacheV2
import OpenFGAVerif.Proofs.IterCacheTies
import OpenFGAVerif.Proofs.SharedIterCancel
import OpenFGAVerif.Gen.Iter
import OpenFGAVerif.Gen.SharedCtx
import OpenFGAVerif.Props.Release2

namespace OpenFGAVerif.C09
open OpenFGAVerif.Model.Iter OpenFGAVerif.Model.IterCache OpenFGAVerif.Proofs.IterCache

variable {α ρ : Type}

set_option maxRecDepth 20000

/-! ## Ties -/

/-- the buffer is given up on every error except done-or-cancelled; it is given up when it reaches the size limit -/
theorem tie_next_guards :
    "if !storage.IterIsDoneOrCancelled(err)" ∈ Gen.IterCache.cachedNext ∧
    "if len(c.tuples) >= c.maxResultSize" ∈ Gen.IterCache.cachedNext ∧
    "if c.closing.Load()" ∈ Gen.IterCache.cachedNext := by decide

/-- `Stop`: nothing is cached if the buffer is gone or the server context is cancelled; the goroutine looks at the
cache first, then at invalidations newer than the query; `Head` on the server context decides between flushing at
once and draining; only `Done` flushes -/
theorem tie_stop_guards :
    "if c.tuples == nil || c.ctx.Err() != nil" ∈ Gen.IterCache.cachedStop ∧
    "if isInvalidAt(c.cache, c.initializedAt, c.invalidStoreKey, c.invalidEntityKeys)" ∈ Gen.IterCache.cachedStop ∧
    "if _, err := c.iter.Head(c.ctx); errors.Is(err, storage.ErrIteratorDone)" ∈ Gen.IterCache.cachedStop ∧
    "t, err := c.iter.Next(c.ctx)" ∈ Gen.IterCache.cachedStop ∧
    "if errors.Is(err, storage.ErrIteratorDone)" ∈ Gen.IterCache.cachedStop ∧
    "if c.tuples == nil || c.ctx.Err() != nil" ∈ Gen.IterCache.cachedFlush := by decide

/-- the entry is stamped with the time the query started; an entry is stale iff a marker is strictly newer -/
theorem tie_timestamps :
    "c.cache.Set(c.cacheKey, &storage.TupleIteratorCacheEntry{Tuples: records, LastModified: c.initializedAt}, storage.JitteredTTL(c.ttl, c.jitterPercentage))"
      ∈ Gen.IterCache.cachedFlush ∧
    "if ok && ts.Before(invalidEntry.LastModified)" ∈ Gen.IterCache.isInvalidAt := by decide

/-- which fields each operation elides, and that the cache key of the operation fixes them:
`Read`/`ReadUsersetTuples` know object type, object id and relation — their keys encode `filter.Object` and
`filter.Relation`; `ReadStartingWithUser` knows the object type and (when all subjects share it) the user type — its key
encodes `filter.ObjectType` and, in the hashed suffix, the sorted subjects. -/
theorem tie_known_fields :
    Gen.IterCache.knownByObjectRelation = ["objectType", "objectID", "relation", "\"\""] ∧
    Gen.IterCache.knownByUserObjectType = ["objectType", "\"\"", "\"\"", "userType"] ∧
    "filter.Object" ∈ Gen.IterCache.keyFieldsRead ∧ "filter.Relation" ∈ Gen.IterCache.keyFieldsRead ∧
    "filter.Object" ∈ Gen.IterCache.keyFieldsReadUsersetTuples ∧ "filter.Relation" ∈ Gen.IterCache.keyFieldsReadUsersetTuples ∧
    "filter.ObjectType" ∈ Gen.IterCache.keyFieldsReadStartingWithUser ∧ "suffix" ∈ Gen.IterCache.keyFieldsReadStartingWithUser := by
  decide

/-- `addToBuffer` elides exactly the four known fields, `buildTuple` restores exactly those -/
theorem tie_elision :
    "if c.objectID != \"\" && c.objectID == record.ObjectID" ∈ Gen.IterCache.cachedAddToBuffer ∧
    "if c.objectType != \"\" && c.objectType == record.ObjectType" ∈ Gen.IterCache.cachedAddToBuffer ∧
    "if c.relation != \"\" && c.relation == record.Relation" ∈ Gen.IterCache.cachedAddToBuffer ∧
    "if c.userType != \"\" && c.userType == record.UserObjectType" ∈ Gen.IterCache.cachedAddToBuffer ∧
    "if c.objectType != \"\"" ∈ Gen.IterCache.buildTuple ∧ "if c.objectID != \"\"" ∈ Gen.IterCache.buildTuple ∧
    "if c.relation != \"\"" ∈ Gen.IterCache.buildTuple ∧ "if c.userType != \"\"" ∈ Gen.IterCache.buildTuple := by decide

/-! ## The shared iterator above the cache: a cancelled request cannot reach the shared read path

In the request wrapper the cached datastore sits under the shared iterator (combined → shared → cached → bounded).  One
shared iterator serves every request with the same query; the answers stay the uncached ones only if no request's context
reaches the shared inner iterator (a cancelled requester would otherwise be recorded as the shared, sticky error and every
other request would be served a truncated prefix followed by `context.Canceled`, which the resolvers read as the end). -/

/-- every call the shared iterator makes on the shared inner iterator carries a background / detached context or none
(fact group `SharedCtx`: the context argument of each such call, parameters resolved through all their call sites) -/
theorem tie_shared_ctx_background :
    Gen.SharedCtx.iterCalls.all (fun c => c.2.2.2 == "background" || c.2.2.2 == "detached" || c.2.2.2 == "noctx") = true ∧
    Gen.SharedCtx.iterCalls.any (fun c => c.1 == "sharedIterator.fetchMore" && c.2.2.2 == "background") = true ∧
    Gen.SharedCtx.iterCalls.any (fun c => c.1 == "iteratorReader.Read" && c.2.1 == "ir.Next" && c.2.2.2 == "background") = true := by
  decide

/-- the exact call list -/
theorem tie_shared_ctx_calls :
    Gen.SharedCtx.iterCalls = [
      ("iteratorReader.Read", "ir.Next", "ctx", "background"),
      ("sharedIterator.fetchMore", "s.ir.Read", "context.Background()", "background"),
      ("sharedIterator.Stop", "s.ir.Stop", "-", "noctx"),
      ("sharedIterator.IsOrdered", "s.ir.IsOrdered", "-", "noctx")] := by decide

/-- **cancel_isolated** (proved in `Proofs/SharedIterCancel.lean`, stated in `Props/C23` as `C23.cancel_isolated`): under
that background context, for every underlying sequence, every interleaving of clone actions and every cancellation point
of every call, a clone observes exactly what it observes when another clone `j` is never cancelled. -/
theorem shared_cancel_isolated {β : Type} [DecidableEq β] (it : SIter β) (h0 : it.stops = 0) (j i : Nat) (hij : i ≠ j)
    (acts : List OpenFGAVerif.Model.SharedIterCancel.CAct) :
    OpenFGAVerif.Model.SharedIterCancel.obsOf i acts
        (OpenFGAVerif.Model.SharedIterCancel.runC Gen.Iter.sharedBufferSize false acts
          (OpenFGAVerif.Model.SharedIter.start it)).1 =
      OpenFGAVerif.Model.SharedIterCancel.obsOf i (acts.map (OpenFGAVerif.Model.SharedIterCancel.uncancel j))
        (OpenFGAVerif.Model.SharedIterCancel.runC Gen.Iter.sharedBufferSize false
          (acts.map (OpenFGAVerif.Model.SharedIterCancel.uncancel j)) (OpenFGAVerif.Model.SharedIter.start it)).1 :=
  OpenFGAVerif.Proofs.SharedCancel.cancel_isolated_model Gen.Iter.sharedBufferSize (by decide) it h0 j i hij acts

/-- … and it is the background context that makes it true (variant model reading with the requester's context) -/
theorem shared_cancel_poisons_with_requester_ctx :
    OpenFGAVerif.Model.SharedIterCancel.seenBy 1 OpenFGAVerif.Proofs.SharedCancel.witnessActs
      (OpenFGAVerif.Model.SharedIterCancel.runC 2 true OpenFGAVerif.Proofs.SharedCancel.witnessActs
        (OpenFGAVerif.Model.SharedIter.start OpenFGAVerif.Proofs.SharedCancel.witnessIter)).1
      = [.ok 0, .ok 1, .ok 2, Res.cancelled, Res.cancelled, Res.cancelled] :=
  OpenFGAVerif.Proofs.SharedCancel.requester_ctx_truncates.1

/-! ## The cached iterator -/

/-- **flush_complete.**  For every script of the underlying iterator, every sequence of `Next`/`Head` calls of the
caller with live or cancelled request contexts (cancellation at any read, abandonment after any number of items),
every moment at which the server context is cancelled, every state of the cache when the goroutine looks, every
singleflight outcome and every size limit: *if* `Stop` writes an entry, the datastore's answer contained no error
and the entry is the whole of it, in order.  Hypothesis: a failing `Head` does not consume (or the script is error-free). -/
theorem flush_complete (conv : α → ρ) (script : List (El α)) (headConsumes : Bool) (maxSize : Nat) (ops : List Op) (env : Env)
    (hsafe : headConsumes = false ∨ ErrorFree script) (w : List ρ)
    (hw : (useIter conv script headConsumes maxSize ops env).2.1 = some w) :
    ∃ items : List α, script = items.map El.item ∧ w = items.map conv :=
  Proofs.IterCache.flush_complete conv script headConsumes maxSize ops env hsafe w hw

/-- the hypothesis is needed: with a `Head` that consumes a failing element (a row the SQL iterator cannot decode),
an entry is written although the datastore's answer contained an error — the goroutine's own `Head` swallows it.
(Script: one good row, one failing row, one good row; the caller reads one row and stops.) -/
theorem head_swallow_witness :
    (useIter (fun x : Nat => x) [El.item 0, El.fail 7, El.item 2] true 10 [Op.next false] {}).2.1 = some [0, 2] := by
  decide

/-- … and with a safe `Head` the same history writes nothing -/
example : (useIter (fun x : Nat => x) [El.item 0, El.fail 7, El.item 2] false 10 [Op.next false] {}).2.1 = none := by
  decide

/-- **pass-through**: on a miss the caller receives, call by call, exactly what the datastore's iterator returns -/
theorem miss_passthrough (ops : List Op) (s : CIter α) (h : s.closing = false) :
    (s.runOps ops).1 = (rawOps ops s.under).1 :=
  (Proofs.IterCache.miss_passthrough ops s h).1

/-- **flush_complete for the V2 `CachingIterator`** (`Model/IterCacheV2.lean`: own drain context with a timeout, no
invalidation test before writing, strict size test, empty results not cached): whatever its `Stop` writes is the
complete, non-empty, error-free answer — for every caller behaviour, every timeout moment, cache content and
singleflight outcome. -/
theorem flush_complete_v2 (conv : α → ρ) (script : List (El α)) (headConsumes : Bool) (maxSize : Nat) (ops : List Op)
    (env : OpenFGAVerif.Model.IterCacheV2.VEnv)
    (hsafe : headConsumes = false ∨ ∃ items : List α, script = items.map El.item) (w : List ρ)
    (hw : (OpenFGAVerif.Model.IterCacheV2.useIterV conv script headConsumes maxSize ops env).2.1 = some w) :
    ∃ items : List α, script = items.map El.item ∧ w = items.map conv ∧ items ≠ [] :=
  Proofs.IterCacheV2.flush_complete_v2 conv script headConsumes maxSize ops env hsafe w hw

/-- V2: a drain that times out in the middle writes nothing; an empty result is not cached -/
example : (OpenFGAVerif.Model.IterCacheV2.useIterV (fun x : Nat => x) [El.item 0, El.item 1, El.item 2] false 10
    [Op.next false] { timeoutAt := some 3 }).2.1 = none ∧
    (OpenFGAVerif.Model.IterCacheV2.useIterV (fun x : Nat => x) ([] : List (El Nat)) false 10 [Op.next false] {}).2.1 = none ∧
    (OpenFGAVerif.Model.IterCacheV2.useIterV (fun x : Nat => x) [El.item 0, El.item 1, El.item 2] false 10
    [Op.next false] {}).2.1 = some [0, 1, 2] := by decide

/-! ## Field elision -/

/-- **elide_reconstruct** (an equivalence): the rebuilt record is the original one iff the original agrees with every
field the iterator knows from its key -/
theorem elide_reconstruct (k : Known) (r : Rec) : build k (elide k r) = r ↔ Matches k r :=
  Proofs.IterCache.elide_reconstruct k r

/-- a whole entry: rebuilt = original, for tuples that match the key -/
theorem elide_reconstruct_list (k : Known) (l : List Rec) (h : ∀ r ∈ l, Matches k r) :
    (l.map (elide k)).map (build k) = l := by
  induction l with
  | nil => rfl
  | cons r l ih =>
    simp only [List.map_cons]
    rw [(elide_reconstruct k r).mpr (h r (by simp)), ih (fun r' hr' => h r' (by simp [hr']))]

/-! ## The cache and histories -/

/-- **served only if not invalidated**: a hit means no invalidation marker is newer than the entry's time stamp -/
theorem served_not_invalidated (c : Cache ρ) (recs : List ρ) (c' : Cache ρ) (h : c.find = (some recs, c')) :
    ∃ ts, c.entry = some (recs, ts) ∧ (∀ m ∈ c.markers, m ≤ ts) ∧ c' = c := find_served c recs c' h

/-- **histories**: over an unchanged store (`full` = the complete answer), along every history of reads with arbitrary
caller behaviour and faults, evictions, invalidations and marker evictions, starting from any cache whose entry (if any)
is complete: the entry stays complete, and every read served from the cache receives `full.map conv`. -/
theorem history_complete (conv : α → ρ) (maxSize : Nat) (full : List α) (evs : List (Ev α)) (c : Cache ρ)
    (hi : CacheInv conv full c) (hr : ∀ e ∈ evs, ReadOK full e) :
    CacheInv conv full (runHist conv maxSize evs c).2 ∧
    ∀ o ∈ (runHist conv maxSize evs c).1, ∀ recs, o = some (.cached recs) → recs = full.map conv :=
  hist_inv conv maxSize full evs c hi hr

/-- **answers unchanged**: composed with the elision theorem — every read served from the cache returns, after
`buildTuple`, exactly the uncached sequence -/
theorem cached_read_is_uncached (k : Known) (maxSize : Nat) (full : List Rec) (hm : ∀ r ∈ full, Matches k r)
    (evs : List (Ev Rec)) (hr : ∀ e ∈ evs, ReadOK full e) :
    ∀ o ∈ (runHist (elide k) maxSize evs {}).1, ∀ recs, o = some (.cached recs) → recs.map (build k) = full := by
  intro o ho recs hrec
  have := (history_complete (elide k) maxSize full evs {} (by intro r t h; simp at h) hr).2 o ho recs hrec
  rw [this]
  exact elide_reconstruct_list k full hm

/-! ## Non-vacuity -/

/-- a cancelled read in the middle, then abandoned: the goroutine drains the rest and the entry is complete -/
example : (useIter (fun x : Nat => x) [El.item 0, El.item 1, El.item 2, El.item 3] false 10
    [Op.next false, Op.next true, Op.head false, Op.next false] {}).2.1 = some [0, 1, 2, 3] := by decide

/-- the server shuts down while the goroutine drains: nothing is written -/
example : (useIter (fun x : Nat => x) [El.item 0, El.item 1, El.item 2, El.item 3] false 10
    [Op.next false] { cancelAt := some 3 }).2.1 = none := by decide

/-- the size limit: a result as long as the limit is not cached -/
example : (useIter (fun x : Nat => x) [El.item 0, El.item 1, El.item 2] false 3 [Op.next false] {}).2.1 = none := by decide

/-- a history: miss (abandoned after one item, drained in the background), hit, invalidation, miss again -/
example : (runHist (fun x : Nat => x) 10
    [.read 10 [El.item 0, El.item 1] false [Op.next false] {}, .read 20 [El.item 0, El.item 1] false [] {},
     .invalidate 15, .read 30 [El.item 0, El.item 1] false [] {}] {}).1.map (fun o => match o with
      | some (.cached recs) => some recs
      | _ => none) = [none, some [0, 1], none, none] := by decide

example : Matches { objectType := "doc", relation := "viewer" } ⟨"doc", "1", "viewer", "user", 0⟩ := by
  simp [Matches]

/-- elision is not injective without the key: the known value silently replaces a different one -/
example : build { objectType := "doc" } (elide { objectType := "doc" } ⟨"folder", "1", "viewer", "user", 0⟩)
    = ⟨"doc", "1", "viewer", "user", 0⟩ := by decide

end OpenFGAVerif.C09
