/-
C10 — Higher-consistency requests are never stale.

  * `all_read_sites_guarded` — over the regenerated table of **every** cache read site of the repository
    (`Gen.CacheSites.sites`: every `.Get(` on a cache-typed receiver, every lookup in the shared-iterator
    storage), decided by evaluation: each site is dominated by a test "preference ≠ HIGHER_CONSISTENCY" in
    its own function, or is reachable only through in-package callers / constructions that are, or is one
    of the five listed sites that cannot serve tuple data (`CacheBypass.exemptions`, each with its reason).
    A new `Get` that is not so guarded makes this theorem fail.
  * `triggers_guarded`, `read_options_forward_preference`, `tie_wrapper_order` — the cache controller is
    consulted for non-HIGHER requests only; every tuple-read option literal of the Check / ListObjects /
    ListUsers / Expand engines forwards the request's preference (so the storage-level tests see it); the
    wrapper stack is bounded → cached → shared → combined.
  * `higher_bypass` — with the guard bits established from the table, for **every** content of the
    iterator cache, the shared-iterator storage and the sub-problem cache, a HIGHER request is evaluated
    by exactly the derivations of the cache-less engine on the current store: same reader, `noFacts`.
    `higher_bypass_check` instantiates it with the model of the default Check engine.
  * `tie_reader_sites`, `reader_sites_pass_consistency`, `tie_reader_site_evidence`, `handoffs_forward_preference`,
    `higher_bypass_at_sites`, `dropped_consistency_can_be_stale` — the storage-level tests only help when the
    reads carry the request's preference: every construction site of a reader / caching wrapper in the engines
    is listed (a new site must be classified), every cache-capable one is shown to hand the preference on
    (`pipeline.NewValidatingStore` stamps its own `consistency` on every read: it must be given
    `WithStoreConsistency(req.GetConsistency())`), and every hand-off between handlers, commands and engines
    forwards it.
  * `unguarded_layer_can_be_stale` — the guards are needed: without one, some cache content changes what
    the reader returns for a HIGHER request.
-/
import OpenFGAVerif.Model.CacheBypass
import OpenFGAVerif.Model.CheckV1
import OpenFGAVerif.Gen.CacheSites

namespace OpenFGAVerif.C10
open OpenFGAVerif.CacheBypass OpenFGAVerif.Dfs

/-! ### the table lemmas -/

/-- the call graph of the cache read sites, from the regenerated tables -/
def graph : Graph := mkGraph Gen.CacheSites.funcsN Gen.CacheSites.edges Gen.CacheSites.edgesN

/-- the index form of the tables agrees with the name form (function ids, receiver types, constructions) -/
theorem index_tables_consistent :
    indexConsistent Gen.CacheSites.funcs Gen.CacheSites.recvTypes Gen.CacheSites.funcsN
      Gen.CacheSites.edges Gen.CacheSites.edgesN Gen.CacheSites.sites Gen.CacheSites.siteFuncs = true := by decide

/-- **Every cache read site is guarded** (or exempt with a stated reason). -/
theorem all_read_sites_guarded :
    allGuarded graph Gen.CacheSites.sites Gen.CacheSites.siteFuncs = true := by decide

/-- the scanner still sees the sites the argument is about (a scanner that silently lost a file would
make the previous theorem vacuous) -/
theorem required_sites_present :
    ([ ("internal/graph:CachedCheckResolver.ResolveCheck", "c.cache.Get(cacheKey)"),
       ("internal/check:Resolver.isCached", "r.cache.Get(key)"),
       ("pkg/storage/storagewrappers:findInCache", "cache.Get(key)"),
       ("pkg/storage/storagewrappers:isInvalidAt", "cache.Get(invalidStore)"),
       ("pkg/storage/storagewrappers:CachedTupleReader.tryGetFromCache", "c.cache.Get(cacheKey)"),
       ("pkg/storage/storagewrappers:CachingIterator.drainInBackground", "c.cache.Get(c.cacheKey)"),
       ("pkg/storage/storagewrappers/sharediterator:IteratorDatastore.Read", "sf.internalStorage.read.LoadOrStore(cacheKey, newStorageItem)"),
       ("pkg/storage/storagewrappers/sharediterator:IteratorDatastore.ReadUsersetTuples", "sf.internalStorage.rut.LoadOrStore(cacheKey, newStorageItem)"),
       ("pkg/storage/storagewrappers/sharediterator:IteratorDatastore.ReadStartingWithUser", "sf.internalStorage.rswu.LoadOrStore(cacheKey, newStorageItem)") ] :
      List (String × String)).all
      (fun r => Gen.CacheSites.sites.any (fun s => s.2.2.1 = r.1 && s.2.2.2.1 = r.2)) = true := by decide

/-- the guard bits of the three cache layers, computed from the table -/
def guards : Guards :=
  { query := fileGuarded graph Gen.CacheSites.sites Gen.CacheSites.siteFuncs "internal/graph/cached_resolver.go" &&
             fileGuarded graph Gen.CacheSites.sites Gen.CacheSites.siteFuncs "internal/check/check.go",
    iter := fileGuarded graph Gen.CacheSites.sites Gen.CacheSites.siteFuncs "pkg/storage/storagewrappers/cached_datastore.go" &&
            fileGuarded graph Gen.CacheSites.sites Gen.CacheSites.siteFuncs "pkg/storage/storagewrappers/cached_reader.go" &&
            fileGuarded graph Gen.CacheSites.sites Gen.CacheSites.siteFuncs "pkg/storage/storagewrappers/iterator_cache.go",
    shared := fileGuarded graph Gen.CacheSites.sites Gen.CacheSites.siteFuncs
      "pkg/storage/storagewrappers/sharediterator/shared_iterator_datastore.go" }

theorem fileGuarded_of_all (g : Graph) (sites : List Site) (sf : List Nat) (file : String)
    (h : allGuarded g sites sf = true)
    (hne : ((sites.zip sf).filter (·.1.2.1 = file)).isEmpty = false) : fileGuarded g sites sf file = true := by
  unfold allGuarded at h
  simp only [Bool.and_eq_true] at h
  unfold fileGuarded
  simp only [hne, Bool.not_false, Bool.true_and]
  rw [List.all_eq_true] at h ⊢
  intro x hx
  exact h.2 x (List.mem_filter.mp hx).1

theorem guards_hold : guards = { query := true, iter := true, shared := true } := by
  have h := all_read_sites_guarded
  unfold guards
  rw [fileGuarded_of_all _ _ _ _ h (by decide), fileGuarded_of_all _ _ _ _ h (by decide),
      fileGuarded_of_all _ _ _ _ h (by decide), fileGuarded_of_all _ _ _ _ h (by decide),
      fileGuarded_of_all _ _ _ _ h (by decide), fileGuarded_of_all _ _ _ _ h (by decide)]
  rfl

/-- `DetermineInvalidationTime` / `InvalidateIfNeeded` are called for non-HIGHER requests only -/
theorem triggers_guarded :
    Gen.CacheSites.triggers.length ≥ 4 ∧
    Gen.CacheSites.triggers.all (fun t => t.2.2.any isHigher) = true := by decide

/-- every tuple-read option literal of the engines forwards the request's consistency preference -/
theorem read_options_forward_preference :
    Gen.CacheSites.readOptions.all (fun r => forwardsPreference r.2.2) = true := by decide

/-- bounded reader, then the iterator cache, then shared iterators, then the contextual tuples -/
theorem tie_wrapper_order :
    Gen.CacheSites.wrapperOrder =
      ["instrumented := NewBoundedTupleReader(ds)", "tupleReader := NewCachedDatastore(tupleReader)",
       "tupleReader := NewCachedDatastore(tupleReader)",
       "tupleReader := sharediterator.NewSharedIteratorDatastore(tupleReader)",
       "combinedTupleReader := NewCombinedTupleReader(tupleReader)"] := rfl

/-! ### construction sites of readers -/

/-- **The site list.**  Every construction of a tuple reader / caching wrapper in the engines (pkg/server,
internal), in source order: a NEW construction site changes this list and has to be classified here. -/
theorem tie_reader_sites :
    Gen.CacheSites.readerSites.map (fun s => (s.2.1, s.2.2.1)) =
      [("pkg/server/commands:CheckQueryV2.resolve", "storagewrappers.NewBoundedTupleReader"),
       ("pkg/server/commands:CheckQueryV2.resolve", "storagewrappers.NewCachedTupleReader"),
       ("pkg/server/commands:CheckQuery.Execute", "storagewrappers.NewRequestStorageWrapperWithCache"),
       ("pkg/server/commands:ExpandQuery.Execute", "storagewrappers.NewCombinedTupleReader"),
       ("pkg/server/commands:ListObjectsQuery.evaluate", "storagewrappers.NewRequestStorageWrapperWithCache"),
       ("pkg/server/commands:ListObjectsQuery.Execute", "storagewrappers.NewRequestStorageWrapperWithCache"),
       ("pkg/server/commands:ListObjectsQuery.Execute", "pipeline.NewValidatingStore"),
       ("pkg/server/commands:ListObjectsQuery.ExecuteStreamed", "storagewrappers.NewRequestStorageWrapperWithCache"),
       ("pkg/server/commands:ListObjectsQuery.ExecuteStreamed", "pipeline.NewValidatingStore"),
       ("pkg/server/commands/listusers:NewListUsersQuery", "storagewrappers.NewRequestStorageWrapper")] := by decide

/-- **Every cache-capable site hands on the request's preference**: both `pipeline.NewValidatingStore`
constructions (unary and streamed ListObjects) receive `pipeline.WithStoreConsistency(req.GetConsistency())`;
the functions that build a caching request wrapper (Check, the classic / weighted ListObjects path, both
pipeline branches) or the cached reader of the weighted-graph Check pass the preference to the engine they
start, and pass nothing else.  The three remaining sites (Expand, ListUsers, the bounded reader of the
weighted-graph Check) build readers that have no cache. -/
theorem reader_sites_pass_consistency :
    (Gen.CacheSites.readerSites.filter ReaderSite.cacheCapable).all ReaderSite.passes = true ∧
    (Gen.CacheSites.readerSites.filter ReaderSite.cacheCapable).length = 7 := by decide

/-- per site: the evidence the classification rests on (dropping an option or a `Consistency:` field changes it) -/
theorem tie_reader_site_evidence :
    (Gen.CacheSites.readerSites.filter ReaderSite.cacheCapable).map (fun s => s.2.2.2) =
      [[("lit", "check.RequestParams", "params.Consistency")],
       [("lit", "graph.ResolveCheckRequestParams", "params.Consistency")],
       [("lit", "reverseexpand.ReverseExpandRequest", "req.GetConsistency()"), ("lit", "CheckCommandParams", "req.GetConsistency()")],
       [("opt", "pipeline.WithStoreConsistency", "req.GetConsistency()")],
       [("arg", "pipeline.WithStoreConsistency", "req.GetConsistency()"), ("opt", "pipeline.WithStoreConsistency", "req.GetConsistency()")],
       [("opt", "pipeline.WithStoreConsistency", "req.GetConsistency()")],
       [("arg", "pipeline.WithStoreConsistency", "req.GetConsistency()"), ("opt", "pipeline.WithStoreConsistency", "req.GetConsistency()")]] := by decide

/-- **Every hand-off of a consistency preference** between the API handlers, the commands and the engines
(Check, BatchCheck, ListObjects, ListUsers, Expand, Read; request clones included) forwards the preference of
the request being served — and the chain has no missing link: the list of carriers is pinned. -/
theorem handoffs_forward_preference :
    Gen.CacheSites.consistencyHandoffs.all (fun h => handoffExprs.contains h.2.2.2.2) = true ∧
    Gen.CacheSites.consistencyHandoffs.map (fun h => (h.2.1, h.2.2.2.1)) =
      [("internal/check:NewRequest", "Request"),
       ("internal/check:Request.cloneWithTupleKey", "Request"),
       ("internal/graph:NewResolveCheckRequest", "ResolveCheckRequest"),
       ("internal/graph:ResolveCheckRequest.clone", "ResolveCheckRequest"),
       ("pkg/server:Server.BatchCheck", "commands.BatchCheckCommandParams"),
       ("pkg/server:Server.Check", "commands.CheckCommandParams"),
       ("pkg/server:Server.v2Check", "commands.CheckCommandParams"),
       ("pkg/server/commands:BatchCheckQuery.Execute", "CheckCommandParams"),
       ("pkg/server/commands:CheckQueryV2.resolve", "check.RequestParams"),
       ("pkg/server/commands:CheckQuery.Execute", "graph.ResolveCheckRequestParams"),
       ("pkg/server/commands:ListObjectsQuery.evaluate", "reverseexpand.ReverseExpandRequest"),
       ("pkg/server/commands:ListObjectsQuery.evaluate", "CheckCommandParams"),
       ("pkg/server/commands:ListObjectsQuery.Execute", "pipeline.WithStoreConsistency"),
       ("pkg/server/commands:ListObjectsQuery.ExecuteStreamed", "pipeline.WithStoreConsistency"),
       ("pkg/server/commands/listusers:fromListUsersRequest", "openfgav1.ListUsersRequest"),
       ("pkg/server/commands/reverseexpand:ReverseExpandQuery.execute", "ReverseExpandRequest"),
       ("pkg/server/commands/reverseexpand:ReverseExpandQuery.readTuplesAndExecute", "ReverseExpandRequest"),
       ("pkg/server/commands/reverseexpand:ReverseExpandQuery.callCheckForCandidate", "graph.ResolveCheckRequestParams"),
       ("pkg/server:Server.Expand", "openfgav1.ExpandRequest"),
       ("pkg/server:Server.ListObjects", "openfgav1.ListObjectsRequest"),
       ("pkg/server:Server.Read", "openfgav1.ReadRequest")] := by decide

/-! ### the bypass theorem -/

section
variable {Key Val N : Type}

/-- **C10.**  Whatever the three caches hold, a HIGHER request sees the datastore itself and no cached
sub-problem: any engine (a function of the reader and of the facts) behaves as without caches. -/
theorem higher_bypass {R : Type} (engine : (Key → Val) → Facts N → R)
    (iterCache sharedCache : Key → Option Val) (queryCache : Facts N) (db : Key → Val) :
    engine (stack guards .higher iterCache sharedCache db) (factsFor guards .higher queryCache) =
    engine db noFacts := by
  have hg := guards_hold
  rw [stack_higher guards (by rw [hg]) (by rw [hg]), factsFor_higher guards (by rw [hg])]

/-- the same for the evaluation relation of the default Check engine: the set of possible outcomes (all
schedules) of a HIGHER request is the set of outcomes of the cache-less engine on the current store -/
theorem higher_bypass_check (mkWorld : (Key → Val) → CheckV1.World)
    (iterCache sharedCache : Key → Option Val) (queryCache : Facts CheckV1.Node) (db : Key → Val)
    (maxDepth : Nat) (o : Out) :
    Eval (CheckV1.sysOf (mkWorld (stack guards .higher iterCache sharedCache db)))
        (factsFor guards .higher queryCache) maxDepth 0 [] (CheckV1.rootExpr (mkWorld (stack guards .higher iterCache sharedCache db))) o ↔
    Eval (CheckV1.sysOf (mkWorld db)) noFacts maxDepth 0 [] (CheckV1.rootExpr (mkWorld db)) o := by
  have := higher_bypass (N := CheckV1.Node)
    (fun r f => Eval (CheckV1.sysOf (mkWorld r)) f maxDepth 0 [] (CheckV1.rootExpr (mkWorld r)) o)
    iterCache sharedCache queryCache db
  exact Iff.of_eq this
end

/-- **Bypass at every construction site.**  For every cache-capable reader construction of the engines (as
regenerated from the source), the reads of a HIGHER request through its product carry HIGHER
(`effectivePref … = .higher` because the site passes the preference on) and therefore reach the datastore
itself, whatever the caches hold. -/
theorem higher_bypass_at_sites {Key Val : Type} (s : ReaderSite) (hs : s ∈ Gen.CacheSites.readerSites)
    (hc : s.cacheCapable = true) (iterCache sharedCache : Key → Option Val) (db : Key → Val) :
    stack guards (effectivePref Pref.unspecified s.passes .higher) iterCache sharedCache db = db := by
  have hp : s.passes = true := by
    have h := reader_sites_pass_consistency.1
    rw [List.all_eq_true] at h
    exact h s (List.mem_filter.mpr ⟨hs, hc⟩)
  have hg := guards_hold
  rw [hp]
  exact stack_higher guards (by rw [hg]) (by rw [hg]) iterCache sharedCache db

/-- **the hand-off is needed**: a site that does not pass the preference on (reads go out UNSPECIFIED) lets
the iterator cache answer a HIGHER request -/
theorem dropped_consistency_can_be_stale :
    ∃ (iterCache sharedCache : Nat → Option Nat) (db : Nat → Nat),
      stack guards (effectivePref Pref.unspecified false .higher) iterCache sharedCache db ≠ db := by
  refine ⟨fun _ => some 1, fun _ => none, fun _ => 0, ?_⟩
  intro h
  have := congrFun h 0
  revert this
  rw [guards_hold]
  decide

/-- a site without the option does not pass (the classification is not vacuous) -/
example : ReaderSite.passes ("f.go", "p:F", "pipeline.NewValidatingStore", [("lit", "X", "req.GetConsistency()")]) = false := by decide
example : ReaderSite.passes ("f.go", "p:F", "storagewrappers.NewRequestStorageWrapperWithCache", []) = false := by decide

/-- a request that is not HIGHER may be served from the caches (the statement is not vacuous: the
wrappers do change what is read) -/
example : stack guards .minimizeLatency (fun _ : Nat => some 1) (fun _ => none) (fun _ => 0) 7 = 1 := by decide

/-- **the guards are needed**: drop the guard of the iterator layer and some cache content makes a HIGHER
read differ from the datastore -/
theorem unguarded_layer_can_be_stale :
    ∃ (iterCache sharedCache : Nat → Option Nat) (db : Nat → Nat),
      stack { guards with iter := false } .higher iterCache sharedCache db ≠ db := by
  refine ⟨fun _ => some 1, fun _ => none, fun _ => 0, ?_⟩
  intro h
  have := congrFun h 0
  revert this
  decide

end OpenFGAVerif.C10
