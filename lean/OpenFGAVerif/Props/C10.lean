/-
C10 — Higher-consistency requests are never stale.

  * `all_read_sites_guarded` — over the regenerated table of **every** cache read site of the repository
    (`Gen.CacheSites.sites`: every `.Get(` on a cache-typed receiver, every lookup in the shared-iterator
    storage), decided by evaluation: each site is dominated by a test "preference ≠ HIGHER_CONSISTENCY" in
    its own function, or is reachable only through in-package callers / constructions that are, or is one
    of the five listed sites that cannot serve tuple data (`CacheBypass.exemptions`, each with its reason).
    A new `Get` that is not so guarded makes this theorem fail.
  * `triggers_guarded`, `read_options_forward_preference`, `tie_wrapper_order` — the cache controller is
    consulted for non-HIGHER requests only; every tuple-read option literal of the Check / ListObjects /
    ListUsers / Expand engines forwards the request's preference (so the storage-level tests see it); the
    wrapper stack is bounded → cached → shared → combined.
  * `higher_bypass` — with the guard bits established from the table, for **every** content of the
    iterator cache, the shared-iterator storage and the sub-problem cache, a HIGHER request is evaluated
    by exactly the derivations of the cache-less engine on the current store: same reader, `noFacts`.
    `higher_bypass_check` instantiates it with the model of the default Check engine.
  * `unguarded_layer_can_be_stale` — the guards are needed: without one, some cache content changes what
    the reader returns for a HIGHER request.
-/
import OpenFGAVerif.Model.CacheBypass
import OpenFGAVerif.Model.CheckV1
import OpenFGAVerif.Gen.CacheSites

namespace OpenFGAVerif.C10
open OpenFGAVerif.CacheBypass OpenFGAVerif.Dfs

/-! ### the table lemmas -/

/-- the call graph of the cache read sites, from the regenerated tables -/
def graph : Graph := mkGraph Gen.CacheSites.funcsN Gen.CacheSites.edges Gen.CacheSites.edgesN

/-- the index form of the tables agrees with the name form (function ids, receiver types, constructions) -/
theorem index_tables_consistent :
    indexConsistent Gen.CacheSites.funcs Gen.CacheSites.recvTypes Gen.CacheSites.funcsN
      Gen.CacheSites.edges Gen.CacheSites.edgesN Gen.CacheSites.sites Gen.CacheSites.siteFuncs = true := by decide

/-- **Every cache read site is guarded** (or exempt with a stated reason). -/
theorem all_read_sites_guarded :
    allGuarded graph Gen.CacheSites.sites Gen.CacheSites.siteFuncs = true := by decide

/-- the scanner still sees the sites the argument is about (a scanner that silently lost a file would
make the previous theorem vacuous) -/
theorem required_sites_present :
    ([ ("internal/graph:CachedCheckResolver.ResolveCheck", "c.cache.Get(cacheKey)"),
       ("internal/check:Resolver.isCached", "r.cache.Get(key)"),
       ("pkg/storage/storagewrappers:findInCache", "cache.Get(key)"),
       ("pkg/storage/storagewrappers:isInvalidAt", "cache.Get(invalidStore)"),
       ("pkg/storage/storagewrappers:CachedTupleReader.tryGetFromCache", "c.cache.Get(cacheKey)"),
       ("pkg/storage/storagewrappers:CachingIterator.drainInBackground", "c.cache.Get(c.cacheKey)"),
       ("pkg/storage/storagewrappers/sharediterator:IteratorDatastore.Read", "sf.internalStorage.read.LoadOrStore(cacheKey, newStorageItem)"),
       ("pkg/storage/storagewrappers/sharediterator:IteratorDatastore.ReadUsersetTuples", "sf.internalStorage.rut.LoadOrStore(cacheKey, newStorageItem)"),
       ("pkg/storage/storagewrappers/sharediterator:IteratorDatastore.ReadStartingWithUser", "sf.internalStorage.rswu.LoadOrStore(cacheKey, newStorageItem)") ] :
      List (String × String)).all
      (fun r => Gen.CacheSites.sites.any (fun s => s.2.2.1 = r.1 && s.2.2.2.1 = r.2)) = true := by decide

/-- the guard bits of the three cache layers, computed from the table -/
def guards : Guards :=
  { query := fileGuarded graph Gen.CacheSites.sites Gen.CacheSites.siteFuncs "internal/graph/cached_resolver.go" &&
             fileGuarded graph Gen.CacheSites.sites Gen.CacheSites.siteFuncs "internal/check/check.go",
    iter := fileGuarded graph Gen.CacheSites.sites Gen.CacheSites.siteFuncs "pkg/storage/storagewrappers/cached_datastore.go" &&
            fileGuarded graph Gen.CacheSites.sites Gen.CacheSites.siteFuncs "pkg/storage/storagewrappers/cached_reader.go" &&
            fileGuarded graph Gen.CacheSites.sites Gen.CacheSites.siteFuncs "pkg/storage/storagewrappers/iterator_cache.go",
    shared := fileGuarded graph Gen.CacheSites.sites Gen.CacheSites.siteFuncs
      "pkg/storage/storagewrappers/sharediterator/shared_iterator_datastore.go" }

theorem fileGuarded_of_all (g : Graph) (sites : List Site) (sf : List Nat) (file : String)
    (h : allGuarded g sites sf = true)
    (hne : ((sites.zip sf).filter (·.1.2.1 = file)).isEmpty = false) : fileGuarded g sites sf file = true := by
  unfold allGuarded at h
  simp only [Bool.and_eq_true] at h
  unfold fileGuarded
  simp only [hne, Bool.not_false, Bool.true_and]
  rw [List.all_eq_true] at h ⊢
  intro x hx
  exact h.2 x (List.mem_filter.mp hx).1

theorem guards_hold : guards = { query := true, iter := true, shared := true } := by
  have h := all_read_sites_guarded
  unfold guards
  rw [fileGuarded_of_all _ _ _ _ h (by decide), fileGuarded_of_all _ _ _ _ h (by decide),
      fileGuarded_of_all _ _ _ _ h (by decide), fileGuarded_of_all _ _ _ _ h (by decide),
      fileGuarded_of_all _ _ _ _ h (by decide), fileGuarded_of_all _ _ _ _ h (by decide)]
  rfl

/-- `DetermineInvalidationTime` / `InvalidateIfNeeded` are called for non-HIGHER requests only -/
theorem triggers_guarded :
    Gen.CacheSites.triggers.length ≥ 4 ∧
    Gen.CacheSites.triggers.all (fun t => t.2.2.any isHigher) = true := by decide

/-- every tuple-read option literal of the engines forwards the request's consistency preference -/
theorem read_options_forward_preference :
    Gen.CacheSites.readOptions.all (fun r => forwardsPreference r.2.2) = true := by decide

/-- bounded reader, then the iterator cache, then shared iterators, then the contextual tuples -/
theorem tie_wrapper_order :
    Gen.CacheSites.wrapperOrder =
      ["instrumented := NewBoundedTupleReader(ds)", "tupleReader := NewCachedDatastore(tupleReader)",
       "tupleReader := NewCachedDatastore(tupleReader)",
       "tupleReader := sharediterator.NewSharedIteratorDatastore(tupleReader)",
       "combinedTupleReader := NewCombinedTupleReader(tupleReader)"] := rfl

/-! ### the bypass theorem -/

section
variable {Key Val N : Type}

/-- **C10.**  Whatever the three caches hold, a HIGHER request sees the datastore itself and no cached
sub-problem: any engine (a function of the reader and of the facts) behaves as without caches. -/
theorem higher_bypass {R : Type} (engine : (Key → Val) → Facts N → R)
    (iterCache sharedCache : Key → Option Val) (queryCache : Facts N) (db : Key → Val) :
    engine (stack guards .higher iterCache sharedCache db) (factsFor guards .higher queryCache) =
    engine db noFacts := by
  have hg := guards_hold
  rw [stack_higher guards (by rw [hg]) (by rw [hg]), factsFor_higher guards (by rw [hg])]

/-- the same for the evaluation relation of the default Check engine: the set of possible outcomes (all
schedules) of a HIGHER request is the set of outcomes of the cache-less engine on the current store -/
theorem higher_bypass_check (mkWorld : (Key → Val) → CheckV1.World)
    (iterCache sharedCache : Key → Option Val) (queryCache : Facts CheckV1.Node) (db : Key → Val)
    (maxDepth : Nat) (o : Out) :
    Eval (CheckV1.sysOf (mkWorld (stack guards .higher iterCache sharedCache db)))
        (factsFor guards .higher queryCache) maxDepth 0 [] (CheckV1.rootExpr (mkWorld (stack guards .higher iterCache sharedCache db))) o ↔
    Eval (CheckV1.sysOf (mkWorld db)) noFacts maxDepth 0 [] (CheckV1.rootExpr (mkWorld db)) o := by
  have := higher_bypass (N := CheckV1.Node)
    (fun r f => Eval (CheckV1.sysOf (mkWorld r)) f maxDepth 0 [] (CheckV1.rootExpr (mkWorld r)) o)
    iterCache sharedCache queryCache db
  exact Iff.of_eq this
end

/-- a request that is not HIGHER may be served from the caches (the statement is not vacuous: the
wrappers do change what is read) -/
example : stack guards .minimizeLatency (fun _ : Nat => some 1) (fun _ => none) (fun _ => 0) 7 = 1 := by decide

/-- **the guards are needed**: drop the guard of the iterator layer and some cache content makes a HIGHER
read differ from the datastore -/
theorem unguarded_layer_can_be_stale :
    ∃ (iterCache sharedCache : Nat → Option Nat) (db : Nat → Nat),
      stack { guards with iter := false } .higher iterCache sharedCache db ≠ db := by
  refine ⟨fun _ => some 1, fun _ => none, fun _ => 0, ?_⟩
  intro h
  have := congrFun h 0
  revert this
  decide

end OpenFGAVerif.C10
