/-
C11 — The cache controller bounds staleness after writes.

Model: `Model/CacheTimeline.lean` (logical clock; writes, cache populations, invalidation runs split
into read and decision, lookups, evictions — every schedule is an event list).  Invariant proofs:
`Proofs/CacheTimeline.lean`.

Proved for every event list (schedule), every parameter set with `iterTTL ≤ storeTTL`:
  * `iterator_cache_bound` — after the end of an invalidation run that *started* after write `w`
    committed, no iterator lookup is served from an entry whose read was initiated before `w` and whose
    key depends on a marker key of `w` — **provided** every entry lives at most `iterTTL` counted from
    the initiation of its read (`IterLifeOK`).  More changes than one changelog page (→ full
    invalidation), changes straddling the TTL window (→ partial invalidation, older ones skipped),
    populations and writes between the run's read and its decision, flushes that ignore the pre-write
    guard, evictions: all covered by the quantification over schedules.
  * `query_cache_bound` — same for the query cache: no lookup is served from an entry *stored* at or
    before `w`, provided entries live at most `queryTTL` (`QueryLifeOK`).
  * `invalidation_only_forces_recompute_iter/query` — a run never turns a miss into a hit.
  * `deps_cover_matching_writes` — the marker keys written for a changed tuple hit the dependency keys
    of every cached read whose result can contain that tuple.

Not provable at full strength — the unchanged code violates the hypotheses, negation witnesses proved:
  * `not_FullIteratorBound_jitter` (finding F6): with `cacheTTLJitterPercentage > 0` an entry lives
    `ttl + jitter`, the controller skips changes older than `now − ttl`; concrete timeline.
    The same hole opens without jitter when `listObjectsIteratorCache.ttl > checkIteratorCache.ttl`
    (the controller is built with the *Check* iterator TTL) — `not_FullIteratorBound_listobjects_ttl`.
  * `not_FullQueryBound_jitter`: a jittered query entry outlives the changelog entry (TTL `queryTTL`);
    once that expires `DetermineInvalidationTime` returns the zero time and the stale entry is valid again.
  * `not_FullQueryBound_basis` (finding F14 candidate): query entries are stamped `time.Now()` at
    `Set`, i.e. when the evaluation *ended*; a write that commits while the evaluation is in flight is
    older than the stamp, so the entry computed from pre-write data survives every later run.
    `query_cache_bound_basis` is the statement one gets when evaluations are atomic.
  * `tie_needs_strict_timestamps`: two writes with the same timestamp and a run between them defeat
    the `!lastChangeTimeActual.After(lastChangeTimeCached)` test (why `StrictWrites` is a hypothesis).
-/
import OpenFGAVerif.Proofs.CacheTimeline
import OpenFGAVerif.Gen.CacheCtl
import OpenFGAVerif.Props.ReqClone
import OpenFGAVerif.Props.C10

namespace OpenFGAVerif.C11
open OpenFGAVerif.CacheTimeline

set_option linter.unusedSectionVars false

section
variable {K : Type} [DecidableEq K] (p : Params) (depsOf : Nat → List K)

/-- the schedule shape of the property: `w` commits, later a run starts (really starts: none in flight),
later that run ends, later anything -/
def schedule (evs0 : List (Ev K)) (dt : Nat) (keys : List K) (evs1 evs2 : List (Ev K)) (d0 d1 d2 : Nat)
    (evs3 : List (Ev K)) : List (Ev K) :=
  evs0 ++ [.write dt keys] ++ evs1 ++ [.runRead] ++ evs2 ++ [.runEnd d0 d1 d2] ++ evs3

/-- after the run, `w` is in the log and `seen` covers it, and the invariant holds -/
theorem after_run (hstore : p.iterTTL ≤ p.storeTTL)
    (evs0 : List (Ev K)) (dt : Nat) (keys : List K) (evs1 evs2 : List (Ev K)) (d0 d1 d2 : Nat) (evs3 : List (Ev K))
    (hstrict : StrictWrites (schedule evs0 dt keys evs1 evs2 d0 d1 d2 evs3))
    (hstart : (run p depsOf St.init (evs0 ++ [.write dt keys] ++ evs1)).pending = none)
    (hnoend : NoRunEnd evs2) :
    let s := run p depsOf St.init (schedule evs0 dt keys evs1 evs2 d0 d1 d2 evs3)
    let w : Change K := { ts := (run p depsOf St.init evs0).now + dt, keys := keys }
    Inv p s ∧ w ∈ s.log ∧ w.ts ≤ s.seen := by
  intro s w
  have hinv : Inv p s := inv_run p depsOf hstore _ (inv_init p) hstrict
  -- split the run
  have hsplit : s = run p depsOf (step p depsOf (run p depsOf (step p depsOf
      (run p depsOf (step p depsOf (run p depsOf St.init evs0) (.write dt keys)) evs1) .runRead) evs2) (.runEnd d0 d1 d2)) evs3 := by
    show run p depsOf St.init (schedule evs0 dt keys evs1 evs2 d0 d1 d2 evs3) = _
    unfold schedule
    simp only [run_append]
    rfl
  -- prefixes satisfy the invariant
  have hstrict' := hstrict
  unfold schedule at hstrict'
  simp only [strict_append] at hstrict'
  obtain ⟨⟨⟨⟨⟨⟨hs0, hsw⟩, hs1⟩, _⟩, hs2⟩, _⟩, _⟩ := hstrict'
  let s0 := run p depsOf St.init evs0
  let s1 := step p depsOf s0 (.write dt keys)
  let s2 := run p depsOf s1 evs1
  let s3 := step p depsOf s2 .runRead
  let s4 := run p depsOf s3 evs2
  let s5 := step p depsOf s4 (.runEnd d0 d1 d2)
  have i0 : Inv p s0 := inv_run p depsOf hstore _ (inv_init p) hs0
  have i1 : Inv p s1 := inv_step p depsOf hstore i0 _ (by exact hsw.1)
  have i2 : Inv p s2 := inv_run p depsOf hstore _ i1 hs1
  have i3 : Inv p s3 := inv_step p depsOf hstore i2 _ trivial
  have i4 : Inv p s4 := inv_run p depsOf hstore _ i3 hs2
  have hw1 : w ∈ s1.log := by
    show w ∈ s0.log ++ [_]
    exact List.mem_append_right _ (by simp [w, s0])
  have hw2 : w ∈ s2.log := log_mono_run p depsOf evs1 s1 w hw1
  have hp2 : s2.pending = none := by
    have : s2 = run p depsOf St.init (evs0 ++ [.write dt keys] ++ evs1) := by
      simp only [run_append]; rfl
    rw [this]; exact hstart
  have hp3 : s3.pending = some { lastCached := invTime s2, logR := s2.log } := by
    show (step p depsOf s2 .runRead).pending = _
    simp only [step, hp2]
  have hp4 : s4.pending = some { lastCached := invTime s2, logR := s2.log } :=
    pending_keep_run p depsOf evs2 s3 _ hp3 hnoend
  have hseen5 : w.ts ≤ s5.seen := runEnd_sees p depsOf i4 _ hp4 w hw2 d0 d1 d2
  have hw5 : w ∈ s5.log :=
    log_mono_step p depsOf s4 _ w (log_mono_run p depsOf evs2 s3 w (log_mono_step p depsOf s2 _ w hw2))
  refine ⟨hinv, ?_, ?_⟩
  · rw [hsplit]; exact log_mono_run p depsOf evs3 s5 w hw5
  · rw [hsplit]; exact Nat.le_trans hseen5 (seen_mono_run p depsOf evs3 s5)

/-- **C11, iterator cache.** -/
theorem iterator_cache_bound (hstore : p.iterTTL ≤ p.storeTTL)
    (evs0 : List (Ev K)) (dt : Nat) (keys : List K) (evs1 evs2 : List (Ev K)) (d0 d1 d2 : Nat) (evs3 : List (Ev K))
    (hstrict : StrictWrites (schedule evs0 dt keys evs1 evs2 d0 d1 d2 evs3))
    (hlife : IterLifeOK p (schedule evs0 dt keys evs1 evs2 d0 d1 d2 evs3))
    (hstart : (run p depsOf St.init (evs0 ++ [.write dt keys] ++ evs1)).pending = none)
    (hnoend : NoRunEnd evs2) (key : Nat) (e : IterEntry)
    (hhit : iterHit depsOf (run p depsOf St.init (schedule evs0 dt keys evs1 evs2 d0 d1 d2 evs3)) key = some e)
    (hdep : ∃ k ∈ depsOf key, k ∈ keys) :
    (run p depsOf St.init evs0).now + dt ≤ e.lm := by
  obtain ⟨hinv, hw, hseen⟩ := after_run p depsOf hstore evs0 dt keys evs1 evs2 d0 d1 d2 evs3 hstrict hstart hnoend
  have hil : ILife p (run p depsOf St.init (schedule evs0 dt keys evs1 evs2 d0 d1 d2 evs3)) :=
    ilife_run p depsOf _ (by intro k e he; simp [St.init] at he) hlife
  have hcov := (hinv.cov _ hw hseen).1
  have hi : (run p depsOf St.init (schedule evs0 dt keys evs1 evs2 d0 d1 d2 evs3)).iters key = some e := by
    unfold iterHit at hhit
    cases hx : (run p depsOf St.init (schedule evs0 dt keys evs1 evs2 d0 d1 d2 evs3)).iters key with
    | none => simp [hx] at hhit
    | some e' =>
      simp only [hx] at hhit
      split at hhit
      · exact hhit
      · cases hhit
  exact iter_hit_fresh p depsOf hcov hhit hdep (hil key e hi)

/-- **C11, query cache.**  The served entry was stored strictly after `w`'s timestamp. -/
theorem query_cache_bound (hstore : p.iterTTL ≤ p.storeTTL)
    (evs0 : List (Ev K)) (dt : Nat) (keys : List K) (evs1 evs2 : List (Ev K)) (d0 d1 d2 : Nat) (evs3 : List (Ev K))
    (hstrict : StrictWrites (schedule evs0 dt keys evs1 evs2 d0 d1 d2 evs3))
    (hlife : QueryLifeOK p (schedule evs0 dt keys evs1 evs2 d0 d1 d2 evs3))
    (hstart : (run p depsOf St.init (evs0 ++ [.write dt keys] ++ evs1)).pending = none)
    (hnoend : NoRunEnd evs2) (key : Nat) (q : QEntry)
    (hhit : queryHit (run p depsOf St.init (schedule evs0 dt keys evs1 evs2 d0 d1 d2 evs3)) key = some q) :
    (run p depsOf St.init evs0).now + dt < q.lm := by
  obtain ⟨hinv, hw, hseen⟩ := after_run p depsOf hstore evs0 dt keys evs1 evs2 d0 d1 d2 evs3 hstrict hstart hnoend
  have hql : QLife p (run p depsOf St.init (schedule evs0 dt keys evs1 evs2 d0 d1 d2 evs3)) :=
    qlife_run p depsOf _ (by intro k e he; simp [St.init] at he) hlife
  have hcov := (hinv.cov _ hw hseen).2
  have hi : (run p depsOf St.init (schedule evs0 dt keys evs1 evs2 d0 d1 d2 evs3)).queries key = some q := by
    unfold queryHit at hhit
    cases hx : (run p depsOf St.init (schedule evs0 dt keys evs1 evs2 d0 d1 d2 evs3)).queries key with
    | none => simp [hx] at hhit
    | some q' =>
      simp only [hx] at hhit
      split at hhit
      · exact hhit
      · cases hhit
  exact query_hit_fresh p hcov hhit (hql key q hi)

/-! ### the ghost `basis`: what the entry was computed from -/

def QBasis (s : St K) : Prop := ∀ key q, s.queries key = some q → q.basis = q.lm

theorem qbasis_step {s : St K} (h : QBasis s) (ev : Ev K) (hev : QueryAtomic [ev]) : QBasis (step p depsOf s ev) := by
  cases ev with
  | popQuery key age life =>
    intro k q hq
    simp only [step] at hq
    split at hq
    · cases hq
      have : age = 0 := hev.1
      subst this; rfl
    · exact h k q hq
  | evict iter key =>
    simp only [step]; split
    · exact h
    · intro k q hq; simp only [] at hq; split at hq
      · cases hq
      · exact h k q hq
  | tick dt => exact h
  | write dt keys => exact h
  | popIter key age life store => simp only [step]; split <;> exact h
  | runRead => simp only [step]; split <;> exact h
  | lookupIter key =>
    simp only [step]; split
    · split <;> exact h
    · exact h
  | runEnd d0 d1 d2 =>
    simp only [step]; split
    · exact h
    · split
      · exact h
      · split
        · exact h
        · split <;> exact h

theorem qatomic_cons (ev : Ev K) (evs : List (Ev K)) (h : QueryAtomic (ev :: evs)) : QueryAtomic [ev] ∧ QueryAtomic evs := by
  cases ev <;> simp_all [QueryAtomic]

theorem qbasis_run (evs : List (Ev K)) {s : St K} (h : QBasis s) (hs : QueryAtomic evs) : QBasis (run p depsOf s evs) := by
  induction evs generalizing s with
  | nil => exact h
  | cons ev evs ih =>
    obtain ⟨h1, h2⟩ := qatomic_cons ev evs hs
    exact ih (qbasis_step p depsOf h ev h1) h2

/-- with atomic evaluations the served entry was *computed from data read* after `w` -/
theorem query_cache_bound_basis (hstore : p.iterTTL ≤ p.storeTTL)
    (evs0 : List (Ev K)) (dt : Nat) (keys : List K) (evs1 evs2 : List (Ev K)) (d0 d1 d2 : Nat) (evs3 : List (Ev K))
    (hstrict : StrictWrites (schedule evs0 dt keys evs1 evs2 d0 d1 d2 evs3))
    (hlife : QueryLifeOK p (schedule evs0 dt keys evs1 evs2 d0 d1 d2 evs3))
    (hatomic : QueryAtomic (schedule evs0 dt keys evs1 evs2 d0 d1 d2 evs3))
    (hstart : (run p depsOf St.init (evs0 ++ [.write dt keys] ++ evs1)).pending = none)
    (hnoend : NoRunEnd evs2) (key : Nat) (q : QEntry)
    (hhit : queryHit (run p depsOf St.init (schedule evs0 dt keys evs1 evs2 d0 d1 d2 evs3)) key = some q) :
    (run p depsOf St.init evs0).now + dt < q.basis := by
  have h1 := query_cache_bound p depsOf hstore evs0 dt keys evs1 evs2 d0 d1 d2 evs3 hstrict hlife hstart hnoend key q hhit
  have hb : QBasis (run p depsOf St.init (schedule evs0 dt keys evs1 evs2 d0 d1 d2 evs3)) :=
    qbasis_run p depsOf _ (by intro k e he; simp [St.init] at he) hatomic
  have hi : (run p depsOf St.init (schedule evs0 dt keys evs1 evs2 d0 d1 d2 evs3)).queries key = some q := by
    unfold queryHit at hhit
    cases hx : (run p depsOf St.init (schedule evs0 dt keys evs1 evs2 d0 d1 d2 evs3)).queries key with
    | none => simp [hx] at hhit
    | some q' =>
      simp only [hx] at hhit
      split at hhit
      · exact hhit
      · cases hhit
  rw [hb key q hi]; exact h1

/-! ### invalidation only forces recomputation -/

theorem runEnd_noop (s : St K) (d0 d1 d2 : Nat) (h : s.pending = none) : step p depsOf s (.runEnd d0 d1 d2) = s := by
  simp only [step, h]

theorem runEnd_data (s : St K) (pd : Pending K) (hp : s.pending = some pd) (d0 d1 d2 : Nat) :
    (step p depsOf s (.runEnd d0 d1 d2)).iters = s.iters ∧ (step p depsOf s (.runEnd d0 d1 d2)).queries = s.queries ∧
    (step p depsOf s (.runEnd d0 d1 d2)).now = endTime s d0 d1 d2 := by
  simp only [step, hp]
  cases newest pd.logR with
  | none => exact ⟨rfl, rfl, rfl⟩
  | some n =>
    simp only []
    split
    · exact ⟨rfl, rfl, rfl⟩
    · split <;> exact ⟨rfl, rfl, rfl⟩

/-- **Invalidation only ever forces recomputation (iterator cache)**: in every reachable state, whatever
an iterator lookup is served from after the end of a run, it would also have been served from had the
run not happened and only the same time passed.  (A miss makes `newCachedIterator` read the store.) -/
theorem invalidation_only_forces_recompute_iter (evs : List (Ev K)) (pd : Pending K) (d0 d1 d2 : Nat) (key : Nat) (e : IterEntry)
    (hp : (run p depsOf St.init evs).pending = some pd)
    (h : iterHit depsOf (step p depsOf (run p depsOf St.init evs) (.runEnd d0 d1 d2)) key = some e) :
    iterHit depsOf ({ run p depsOf St.init evs with now := endTime (run p depsOf St.init evs) d0 d1 d2 } : St K) key = some e := by
  have hinv : Inv2 p (run p depsOf St.init evs) := inv2_run p depsOf evs (inv2_init p)
  obtain ⟨hit, _, hnow⟩ := runEnd_data p depsOf _ pd hp d0 d1 d2
  unfold iterHit at h ⊢
  rw [hit, hnow] at h
  cases hi : (run p depsOf St.init evs).iters key with
  | none => simp [hi] at h
  | some e' =>
    simp only [hi] at h ⊢
    split at h
    · rename_i hc
      simp only [Bool.and_eq_true, decide_eq_true_eq, Bool.not_eq_true'] at hc
      have hcond : (decide (endTime (run p depsOf St.init evs) d0 d1 d2 < e'.exp) &&
          !invalidAt ({ run p depsOf St.init evs with now := endTime (run p depsOf St.init evs) d0 d1 d2 } : St K) e'.lm (depsOf key)) = true := by
        simp only [Bool.and_eq_true, decide_eq_true_eq, Bool.not_eq_true']
        refine ⟨hc.1, ?_⟩
        cases hv : invalidAt ({ run p depsOf St.init evs with now := endTime (run p depsOf St.init evs) d0 d1 d2 } : St K) e'.lm (depsOf key) with
        | false => rfl
        | true =>
          have := run_keeps_invalid p depsOf hinv pd hp d0 d1 d2 e'.lm (depsOf key) hv
          rw [this] at hc; exact absurd hc.2 (by simp)
      rw [if_pos hcond]; exact h
    · cases h

/-- **Invalidation only ever forces recomputation (query cache)** -/
theorem invalidation_only_forces_recompute_query (evs : List (Ev K)) (pd : Pending K) (d0 d1 d2 : Nat) (key : Nat) (q : QEntry)
    (hp : (run p depsOf St.init evs).pending = some pd)
    (h : queryHit (step p depsOf (run p depsOf St.init evs) (.runEnd d0 d1 d2)) key = some q) :
    queryHit ({ run p depsOf St.init evs with now := endTime (run p depsOf St.init evs) d0 d1 d2 } : St K) key = some q := by
  have hinv : Inv2 p (run p depsOf St.init evs) := inv2_run p depsOf evs (inv2_init p)
  obtain ⟨_, hq, hnow⟩ := runEnd_data p depsOf _ pd hp d0 d1 d2
  have hraise := run_raises_invTime p depsOf hinv pd hp d0 d1 d2
  unfold queryHit at h ⊢
  rw [hq, hnow] at h
  cases hi : (run p depsOf St.init evs).queries key with
  | none => simp [hi] at h
  | some q' =>
    simp only [hi] at h ⊢
    split at h
    · rename_i hc
      simp only [Bool.and_eq_true, decide_eq_true_eq] at hc
      have hcond : (decide (endTime (run p depsOf St.init evs) d0 d1 d2 < q'.exp) &&
          decide (invTime ({ run p depsOf St.init evs with now := endTime (run p depsOf St.init evs) d0 d1 d2 } : St K) < q'.lm)) = true := by
        simp only [Bool.and_eq_true, decide_eq_true_eq]
        exact ⟨hc.1, Nat.lt_of_le_of_lt hraise hc.2⟩
      rw [if_pos hcond]; exact h
    · cases h

end

/-! ### the marker keys cover the reads a tuple can appear in -/

/-- a write to tuple `t` stamps a marker that every cached read whose result can contain `t` tests -/
theorem deps_cover_matching_writes (rk : ReadKey) (t : TupleKey) (h : readMatches rk t) :
    ∃ k ∈ readDeps rk, k ∈ changeKeys t := by
  cases rk with
  | read o r u =>
    obtain ⟨h1, h2, _⟩ := h
    exact ⟨.objRel o r, by simp [readDeps], by simp [changeKeys, h1, h2]⟩
  | usersets o r =>
    obtain ⟨h1, h2⟩ := h
    exact ⟨.objRel o r, by simp [readDeps], by simp [changeKeys, h1, h2]⟩
  | startingWithUser ot r us =>
    obtain ⟨h1, _, h3⟩ := h
    exact ⟨.userType t.user ot, by simp only [readDeps]; exact List.mem_map.mpr ⟨t.user, h3, rfl⟩,
      by simp [changeKeys, h1]⟩

/-! ### negation witnesses (concrete timelines, one marker key `0`, one cache key `0`) -/

def wp : Params := { iterTTL := 10, queryTTL := 10, pageSize := 50, storeTTL := 1000 }
def wdeps : Nat → List Nat := fun _ => [0]

/-- F6: entry read at 0 lives 15 (ttl 10 + jitter 5); write at 1; the store is quiet until 12; the run at
12 skips the change (1 + 10 ≤ 12) and writes no marker; the lookup at 12 is served from the entry. -/
def f6Timeline : List (Ev Nat) :=
  [.popIter 0 0 15 true, .write 1 [0], .tick 11, .runRead, .runEnd 0 0 0]

theorem f6_stale_hit : iterHit wdeps (run wp wdeps St.init f6Timeline) 0 = some { lm := 0, exp := 15 } := by decide

/-- the statement without the lifetime hypothesis, entries living up to `2 * iterTTL` (jitter ≤ 100 %) -/
def FullIteratorBoundJitter : Prop :=
  ∀ (p : Params) (depsOf : Nat → List Nat), p.iterTTL ≤ p.storeTTL →
  ∀ (evs0 : List (Ev Nat)) (dt : Nat) (keys : List Nat) (evs1 evs2 : List (Ev Nat)) (d0 d1 d2 : Nat) (evs3 : List (Ev Nat)),
    StrictWrites (schedule evs0 dt keys evs1 evs2 d0 d1 d2 evs3) →
    IterLifeOK { p with iterTTL := 2 * p.iterTTL } (schedule evs0 dt keys evs1 evs2 d0 d1 d2 evs3) →
    (run p depsOf St.init (evs0 ++ [.write dt keys] ++ evs1)).pending = none → NoRunEnd evs2 →
    ∀ (key : Nat) (e : IterEntry),
      iterHit depsOf (run p depsOf St.init (schedule evs0 dt keys evs1 evs2 d0 d1 d2 evs3)) key = some e →
      (∃ k ∈ depsOf key, k ∈ keys) → (run p depsOf St.init evs0).now + dt ≤ e.lm

/-- **F6 decided**: TTL jitter breaks the partial-invalidation argument. -/
theorem not_FullIteratorBound_jitter : ¬ FullIteratorBoundJitter := by
  intro h
  have := h wp wdeps (by decide) [.popIter 0 0 15 true] 1 [0] [.tick 11] [] 0 0 0 []
    (by simp [schedule, StrictWrites]) (by simp [schedule, IterLifeOK, wp]) (by decide) (by simp [NoRunEnd])
    0 { lm := 0, exp := 15 } (by decide) (by decide)
  exact absurd this (by decide)

/-- the same hole without jitter: the controller is built with the *Check* iterator TTL (10) while an
entry written by ListObjects lives `listObjectsIteratorCache.ttl` (here 30). -/
def listObjectsTtlTimeline : List (Ev Nat) :=
  [.popIter 0 0 30 true, .write 1 [0], .tick 14, .runRead, .runEnd 0 0 0, .tick 5]

theorem not_FullIteratorBound_listobjects_ttl :
    iterHit wdeps (run wp wdeps St.init listObjectsTtlTimeline) 0 = some { lm := 0, exp := 30 } := by decide

/-- query cache with jitter: entry stored at 0 lives 15, write at 1, run at 2 (changelog entry until 12),
lookup at 13: `DetermineInvalidationTime` finds no changelog entry, returns the zero time, the entry
(stored before the write) is valid. -/
def queryJitterTimeline : List (Ev Nat) :=
  [.tick 1, .popQuery 0 0 15, .write 1 [0], .tick 1, .runRead, .runEnd 0 0 0, .tick 10]

theorem not_FullQueryBound_jitter :
    queryHit (run wp wdeps St.init queryJitterTimeline) 0 = some { lm := 1, basis := 1, exp := 16 } ∧
    (run wp wdeps St.init queryJitterTimeline).log.map (·.ts) = [2] := by decide

/-- the query-cache statement about what the entry was *computed from* -/
def FullQueryBoundBasis : Prop :=
  ∀ (p : Params) (depsOf : Nat → List Nat), p.iterTTL ≤ p.storeTTL →
  ∀ (evs0 : List (Ev Nat)) (dt : Nat) (keys : List Nat) (evs1 evs2 : List (Ev Nat)) (d0 d1 d2 : Nat) (evs3 : List (Ev Nat)),
    StrictWrites (schedule evs0 dt keys evs1 evs2 d0 d1 d2 evs3) →
    QueryLifeOK p (schedule evs0 dt keys evs1 evs2 d0 d1 d2 evs3) →
    (run p depsOf St.init (evs0 ++ [.write dt keys] ++ evs1)).pending = none → NoRunEnd evs2 →
    ∀ (key : Nat) (q : QEntry),
      queryHit (run p depsOf St.init (schedule evs0 dt keys evs1 evs2 d0 d1 d2 evs3)) key = some q →
      (run p depsOf St.init evs0).now + dt < q.basis

/-- **write during an evaluation**: the evaluation reads the store at 5, the write commits at 6, the
result is stored at 7 stamped 7; the run sets the invalidation time to 6 < 7: the entry stays valid. -/
theorem not_FullQueryBound_basis : ¬ FullQueryBoundBasis := by
  intro h
  have := h wp wdeps (by decide) [.tick 5] 1 [0] [.tick 1, .popQuery 0 2 10] [] 0 0 0 []
    (by simp [schedule, StrictWrites]) (by simp [schedule, QueryLifeOK, wp]) (by decide) (by simp [NoRunEnd])
    0 { lm := 7, basis := 5, exp := 17 } (by decide)
  exact absurd this (by decide)

/-- why `StrictWrites` is needed: two writes in the same instant with a run in between — the second run
sees `lastChangeTimeActual = lastChangeTimeCached` and invalidates nothing. -/
def tieTimeline : List (Ev Nat) :=
  [.tick 1, .write 1 [1], .runRead, .runEnd 0 0 0, .popIter 0 0 10 true, .write 0 [0], .runRead, .runEnd 0 0 0]

theorem tie_needs_strict_timestamps :
    iterHit wdeps (run wp wdeps St.init tieTimeline) 0 = some { lm := 2, exp := 12 } ∧
    (run wp wdeps St.init tieTimeline).log.map (·.ts) = [2, 2] := by decide

/-! ### non-vacuity: the hypotheses of the bounds are satisfiable by a schedule that exercises them -/

/-- partial invalidation: one change outside the window (skipped), one inside (marked); the stale entry
for key 0 is gone, the unrelated entry for key 1 (marker key 7) is still served -/
def okTimeline : List (Ev Nat) :=
  schedule [.write 1 [5], .tick 4, .popIter 0 0 10 true, .popIter 1 0 10 true, .tick 4] 1 [0] [.tick 1] [.popQuery 0 0 10] 0 0 0 [.tick 1]

def okDeps : Nat → List Nat := fun k => if k = 0 then [0] else [7]

example : StrictWrites okTimeline ∧ IterLifeOK wp okTimeline ∧ QueryLifeOK wp okTimeline := by
  simp [okTimeline, schedule, StrictWrites, IterLifeOK, QueryLifeOK, wp]

example : iterHit okDeps (run wp okDeps St.init okTimeline) 0 = none ∧
    (run wp okDeps St.init okTimeline).iters 0 = some { lm := 5, exp := 15 } ∧
    (run wp okDeps St.init okTimeline).markers 0 = some { lm := 11, exp := 21 } ∧
    (run wp okDeps St.init okTimeline).markers 5 = none ∧
    (run wp okDeps St.init okTimeline).storeMarker = none ∧
    iterHit okDeps (run wp okDeps St.init okTimeline) 1 = some { lm := 5, exp := 15 } := by decide

/-- full invalidation when the page is entirely inside the window (page size 2, three recent writes) -/
example : (run { wp with pageSize := 2 } wdeps St.init
    [.write 1 [1], .write 1 [2], .write 1 [3], .runRead, .runEnd 0 0 0]).storeMarker = some { lm := 3, exp := 1003 } := by decide

/-! ### ties to the regenerated source facts (extract/facts_cachectl.go → Gen/CacheCtl.lean) -/

/-- `runRead` / `runEnd` follow `findChangesAndInvalidateIfNecessary` statement for statement: the cached changelog entry is read first (`lastCached`), the newest page (`SortDesc`, `DefaultPageSize`) is read, an error (empty changelog) invalidates the whole store, the changelog entry is set with `queryCacheTTL` **before** the `!After` test, the cutoff is `now − iteratorCacheTTL`, the scan runs from the oldest change of the page (`idx := len(changes)-1`, downwards) to the first one `After` the cutoff, `idx == len(changes)-1` is the full invalidation, otherwise the changes `idx … 0` get the two markers stamped with one `lastModified := time.Now()`. -/
theorem tie_controller_run :
    Gen.CacheCtl.findChanges =
      ["changelogCacheKey := storage.ChangelogCacheKey(storeID)", "lastCacheRecord := c.cache.Get(changelogCacheKey)", "lastChangeTimeCached := time.Time{}", "if lastCacheRecord != nil {", "if decodedRecord, ok := lastCacheRecord.(*storage.ChangelogCacheEntry); ok {", "lastChangeTimeCached = decodedRecord.LastModified", "} else {", "}", "}", "ctx, cancel := context.WithTimeout(ctx, time.Second)", "defer cancel()", "done := make(chan changelogResultMsg, 1)", "c.wg.Add(1)", "go func()", "func{", "changes, _, err := c.findChangesDescending(ctx, storeID)", "concurrency.TrySendThroughChannel(ctx, changelogResultMsg{err: err, changes: changes}, done)", "c.wg.Done()", "}", "var changes []*openfgav1.TupleChange", "select {", "case <-ctx.Done():", "return", "case msg := <-done:", "if msg.err != nil {", "c.invalidateIteratorCache(storeID)", "return", "}", "changes = msg.changes", "}", "lastChangeTimeActual := changes[0].GetTimestamp().AsTime()", "entry := &storage.ChangelogCacheEntry{ LastModified: lastChangeTimeActual, LastChecked: time.Now(), }", "c.cache.Set(changelogCacheKey, entry, c.queryCacheTTL)", "invalidationType := \"none\"", "if !lastChangeTimeActual.After(lastChangeTimeCached) {", "return", "}", "lastIteratorInvalidation := time.Now().Add(-c.iteratorCacheTTL)", "idx := len(changes) - 1", "for ; idx >= 0; idx-- {", "if changes[idx].GetTimestamp().AsTime().After(lastIteratorInvalidation) {", "break", "}", "}", "if idx == len(changes)-1 {", "invalidationType = \"full\"", "c.invalidateIteratorCache(storeID)", "} else {", "lastModified := time.Now()", "if idx >= 0 {", "invalidationType = \"partial\"", "}", "for ; idx >= 0; idx-- {", "t := changes[idx].GetTupleKey()", "c.invalidateIteratorCacheByObjectRelation(storeID, t.GetObject(), t.GetRelation(), lastModified)", "c.invalidateIteratorCacheByUserAndObjectType(storeID, t.GetUser(), tuple.GetType(t.GetObject()), lastModified)", "}", "}", "if invalidationType != \"none\" {", "}"] ∧
    Gen.CacheCtl.findChangesDescending =
      ["opts := storage.ReadChangesOptions{ SortDesc: true, Pagination: storage.PaginationOptions{ PageSize: storage.DefaultPageSize, From: \"\", }, }", "return c.ds.ReadChanges(ctx, storeID, storage.ReadChangesFilter{}, opts)"] ∧
    Gen.CacheCtl.defaultPageSize =
      50 := ⟨rfl, rfl, rfl⟩

/-- `invTime` = `DetermineInvalidationTime` (zero time without a changelog entry); at most one run in flight (`inflightInvalidations.LoadOrStore`, `runRead` is ignored while `pending`). -/
theorem tie_controller_trigger :
    Gen.CacheCtl.determineInvalidationTime =
      ["cacheKey := storage.ChangelogCacheKey(storeID)", "cacheResp := c.cache.Get(cacheKey)", "entry, _ := cacheResp.(*storage.ChangelogCacheEntry)", "if entry == nil {", "c.InvalidateIfNeeded(ctx, storeID)", "return time.Time{}", "}", "if time.Since(entry.LastChecked) > c.minInvalidationInterval {", "c.InvalidateIfNeeded(ctx, storeID)", "} else {", "}", "return entry.LastModified"] ∧
    Gen.CacheCtl.invalidateIfNeeded =
      ["_, present := c.inflightInvalidations.LoadOrStore(storeID, struct{}{})", "if present {", "return", "}", "c.wg.Add(1)", "go func()", "func{", "c.findChangesAndInvalidateIfNecessary(ctx, storeID)", "c.inflightInvalidations.Delete(storeID)", "c.wg.Done()", "}"] := ⟨rfl, rfl⟩

/-- marker stamps and TTLs: store-wide marker `time.Now()` / `math.MaxInt` (capped to `oneYear` by `InMemoryLRUCache.Set` = `storeTTL`), key markers `ts` / `iteratorCacheTTL`. -/
theorem tie_markers :
    Gen.CacheCtl.markStore =
      ["c.cache.Set(storage.InvalidIteratorCacheKey(storeID), &storage.InvalidEntityCacheEntry{LastModified: time.Now()}, math.MaxInt)"] ∧
    Gen.CacheCtl.markObjectRelation =
      ["c.cache.Set(storage.InvalidIteratorByObjectRelationCacheKey(storeID, object, relation), &storage.InvalidEntityCacheEntry{LastModified: ts}, c.iteratorCacheTTL)"] ∧
    Gen.CacheCtl.markUserObjectType =
      ["c.cache.Set(storage.InvalidIteratorByUserObjectTypeCacheKey(storeID, user, objectType), &storage.InvalidEntityCacheEntry{LastModified: ts}, c.iteratorCacheTTL)"] ∧
    Gen.CacheCtl.lruSet =
      ["if ttl >= oneYear {", "ttl = oneYear", "}", "if ttl < 0 {", "return", "}", "i.client.SetWithTTL(key, value, 1, ttl)", "if item, ok := any(value).(CacheItem); ok {", "} else {", "}"] ∧
    Gen.CacheCtl.oneYear =
      "time.Hour * 24 * 365" := ⟨rfl, rfl, rfl, rfl, rfl⟩

/-- `invalidAt` / `iterHit` / `popStoresV1` / `popStoresV2`: `ts.Before(marker.LastModified)` resp. `marker.LastModified.After(lastModified)`, store marker first, then every dependency key; an invalid entry is deleted; entries are stamped with the instant the read was initiated (`initializedAt` / `createdAt`); V1 lives `JitteredTTL(ttl, pct)`, V2 lives `ttl`. -/
theorem tie_iterator_validity :
    Gen.CacheCtl.isInvalidAt =
      ["if res := cache.Get(invalidStore); res != nil {", "invalidEntry, ok := res.(*storage.InvalidEntityCacheEntry)", "if ok && ts.Before(invalidEntry.LastModified) {", "return true", "}", "}", "range _, invalidEntityKey := invalidEntityKeys {", "if res := cache.Get(invalidEntityKey); res != nil {", "invalidEntry, ok := res.(*storage.InvalidEntityCacheEntry)", "if ok && ts.Before(invalidEntry.LastModified) {", "return true", "}", "}", "}", "return false"] ∧
    Gen.CacheCtl.findInCache =
      ["var tupleEntry *storage.TupleIteratorCacheEntry", "var ok bool", "res := cache.Get(key)", "if res == nil {", "return nil, false", "}", "tupleEntry, ok = res.(*storage.TupleIteratorCacheEntry)", "if !ok {", "return nil, false", "}", "invalid := isInvalidAt(cache, tupleEntry.LastModified, storeKey, invalidEntityKeys)", "if invalid {", "cache.Delete(key)", "return nil, false", "}", "return tupleEntry, true"] ∧
    Gen.CacheCtl.v1StopGuards =
      ["_, ok := findInCache(c.cache, c.cacheKey, c.invalidStoreKey, c.invalidEntityKeys)", "if isInvalidAt(c.cache, c.initializedAt, c.invalidStoreKey, c.invalidEntityKeys) {", "c.flush()", "c.flush()"] ∧
    Gen.CacheCtl.v1Flush =
      ["if c.tuples == nil || c.ctx.Err() != nil {", "return", "}", "records := c.records", "c.tuples = nil", "c.records = nil", "c.cache.Set(c.cacheKey, &storage.TupleIteratorCacheEntry{Tuples: records, LastModified: c.initializedAt}, storage.JitteredTTL(c.ttl, c.jitterPercentage))"] ∧
    Gen.CacheCtl.v1ByObjectRelation =
      ["objectType, objectID := tuple.SplitObject(object)", "invalidEntityKey := storage.InvalidIteratorByObjectRelationCacheKey(store, object, relation)", "return c.newCachedIterator(ctx, operation, store, dsIterFunc, cacheKey, []keys.Key{invalidEntityKey}, objectType, objectID, relation, \"\")"] ∧
    Gen.CacheCtl.v2TryGet =
      ["entry := c.cache.Get(cacheKey)", "if entry == nil {", "return nil", "}", "cached, ok := entry.(*V2IteratorCacheEntry)", "if !ok {", "return nil", "}", "if c.isStoreInvalidated(storeID, cached.LastModified) {", "c.cache.Delete(cacheKey)", "return nil", "}", "range _, invalidKey := invalidEntityKeys {", "if c.isCacheEntryInvalidated(invalidKey, cached.LastModified) {", "c.cache.Delete(cacheKey)", "return nil", "}", "}", "return NewLockFreeCachedIterator(cached.Entries, objectType, relation, cached.Ordered)"] ∧
    Gen.CacheCtl.v2StoreInvalidated =
      ["return c.isCacheEntryInvalidated(storage.InvalidIteratorCacheKey(storeID), lastModified)"] ∧
    Gen.CacheCtl.v2EntryInvalidated =
      ["entry := c.cache.Get(invalidKey)", "if entry == nil {", "return false", "}", "invalidEntry, ok := entry.(*storage.InvalidEntityCacheEntry)", "if !ok {", "return false", "}", "return invalidEntry.LastModified.After(lastModified)"] ∧
    Gen.CacheCtl.v2FlushSet =
      ["c.cache.Set(c.cacheKey, &V2IteratorCacheEntry{ Entries: entries, LastModified: c.createdAt, Ordered: c.inner.IsOrdered(), }, c.ttl)"] ∧
    Gen.CacheCtl.v2DrainGuard =
      ["if entry := c.cache.Get(c.cacheKey); entry != nil {", "if _, ok := entry.(*V2IteratorCacheEntry); ok {"] := ⟨rfl, rfl, rfl, rfl, rfl, rfl, rfl, rfl, rfl, rfl⟩

/-- `queryHit`: `LastModified.After(LastCacheInvalidationTime)`; entries are stamped `time.Now()` at `Set` (the end of the evaluation — the ghost `basis` is not recorded by the code) and live `JitteredTTL(cacheTTL, pct)` (default engine) / `cacheTTL` (weighted-graph engine). -/
theorem tie_query_validity :
    Gen.CacheCtl.queryValid =
      ["isValid := res.LastModified.After(req.LastCacheInvalidationTime)"] ∧
    Gen.CacheCtl.querySet =
      ["cacheKey", "&CheckResponseCacheEntry{LastModified: time.Now(), CheckResponse: clonedResp}", "storage.JitteredTTL(c.cacheTTL, c.jitterPercentage)"] ∧
    Gen.CacheCtl.isCachedV2 =
      ["if consistency == openfgav1.ConsistencyPreference_HIGHER_CONSISTENCY {", "return nil, false", "}", "v := r.cache.Get(key)", "if v == nil {", "return nil, false", "}", "res, ok := v.(*ResponseCacheEntry)", "if !ok {", "return nil, false", "}", "if !res.LastModified.After(r.lastCacheInvalidationTime) {", "return nil, false", "}", "return res.Res, true"] ∧
    Gen.CacheCtl.v2QuerySets =
      ["lit ResponseCacheEntry{Res: res, LastModified: time.Now()}", "Set entry | r.cacheTTL", "lit ResponseCacheEntry{Res: res, LastModified: time.Now()}", "Set entry | r.cacheTTL"] := ⟨rfl, rfl, rfl, rfl⟩

/-- which TTLs meet: the controller is built with (CacheControllerTTL, CheckQueryCacheTTL, **CheckIteratorCacheTTL**); Check entries live `JitteredTTL(CheckIteratorCacheTTL)`, ListObjects entries `JitteredTTL(ListObjectsIteratorCacheTTL)`; `JitteredTTL` returns `baseTTL + jitter` with `jitter ≤ baseTTL·pct/100`. -/
theorem tie_ttl_plumbing :
    Gen.CacheCtl.controllerArgs =
      ["ds | s.CheckCache | settings.CacheControllerTTL | settings.CheckQueryCacheTTL | settings.CheckIteratorCacheTTL | cachecontroller.WithLogger(s.Logger)", "ds | s.ShadowCheckCache | settings.CacheControllerTTL | settings.CheckQueryCacheTTL | settings.CheckIteratorCacheTTL | cachecontroller.WithLogger(s.Logger)"] ∧
    Gen.CacheCtl.cachedDatastoreTTLs =
      ["dataResourceConfiguration.CacheSettings.CheckIteratorCacheTTL", "dataResourceConfiguration.CacheSettings.ListObjectsIteratorCacheTTL"] ∧
    Gen.CacheCtl.v2ReaderTTL =
      "q.sharedResources.V2IteratorCacheTTL" ∧
    Gen.CacheCtl.jitteredTTL =
      ["if baseTTL <= 0 || jitterPercentage == 0 {", "return baseTTL", "}", "if jitterPercentage > 100 {", "jitterPercentage = 100", "}", "quotient := baseTTL / 100", "remainder := baseTTL % 100", "maxJitter := quotient*time.Duration(jitterPercentage) + remainder*time.Duration(jitterPercentage)/100", "var jitter time.Duration", "if maxJitter == time.Duration(math.MaxInt64) {", "jitter = time.Duration(rand.Int63())", "} else {", "jitter = time.Duration(rand.Int63n(int64(maxJitter) + 1))", "}", "if jitter > time.Duration(math.MaxInt64)-baseTTL {", "return time.Duration(math.MaxInt64)", "}", "return baseTTL + jitter"] := ⟨rfl, rfl, rfl, rfl⟩

end OpenFGAVerif.C11
