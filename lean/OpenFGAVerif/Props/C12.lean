/-
C12 — Writes are atomic and honour on_duplicate / on_missing.

Model: `Model.StoreWrite` (`memWrite` mirrors memory.Write; `sqlWrite` is sqlite.write as a statement list run in a
transaction with a failure index; `cmdFront` is the option parsing / duplicate check of commands.WriteCommand).
Lemmas: `Proofs.StoreWrite`, `Proofs.StoreHist`.  Facts tied to the source: `Gen.StoreWrite`.

Trusted (stated, not proved): the SQL engine's transaction semantics as written down in `runStmts`/`execStmt`
(statements on a transaction touch only its working copy; COMMIT publishes atomically; rollback / lost connection /
crash before COMMIT discards; UNIQUE key rejects an INSERT as a whole), ULID monotonicity, requests ≤ 100 keys
(one batch per statement kind).
-/
import OpenFGAVerif.Proofs.StoreHist
import OpenFGAVerif.Proofs.StoreKeys
import OpenFGAVerif.Gen.StoreWrite
import OpenFGAVerif.Gen.StoreKeys
import OpenFGAVerif.Props.Misc3

set_option linter.unusedSimpArgs false

namespace OpenFGAVerif.C12
open OpenFGAVerif OpenFGAVerif.Model.StoreTypes OpenFGAVerif.Model.StoreWrite OpenFGAVerif.Proofs.StoreWrite

/-! ## ties to the Go source (regenerated on every run) -/

/-- the SQL facts the model is run with -/
def genCfg : SqlCfg :=
  { selectInTxn := Gen.StoreWrite.sqlSelectInTxn, deleteInTxn := Gen.StoreWrite.sqlDeleteInTxn,
    insertInTxn := Gen.StoreWrite.sqlInsertInTxn, changelogInTxn := Gen.StoreWrite.sqlChangelogInTxn,
    rollbackDeferred := Gen.StoreWrite.sqlRollbackDeferred }

/-- sqlite.write sends BEGIN, SELECT, DELETE tuple, INSERT tuple, INSERT changelog, COMMIT in this order
    (the order `sqlStmts` / `sqlWrite` use) -/
theorem tie_sql_statement_order :
    Gen.StoreWrite.sqlStmtOrder = ["begin", "select", "delete", "insert", "changelog", "commit"] := by decide

/-- every statement carries `RunWith(txn)`, the SELECT helper gets and uses `txn`, `defer txn.Rollback()` follows
    BEGIN directly -/
theorem tie_sql_all_in_txn : CfgOK genCfg ∧ genCfg.selectInTxn = true := by
  refine ⟨⟨?_, ?_, ?_, ?_⟩, ?_⟩ <;> decide

/-- COMMIT is the last thing the function does, and every operation's error is returned right after the call -/
theorem tie_sql_commit_last : Gen.StoreWrite.sqlCommitLast = true ∧ Gen.StoreWrite.sqlErrorsReturned = true := by
  constructor <;> decide

/-- memory.Write: lock held for the whole call, `sanitizeTuplesWriteDelete` (and its `return err`) before the first
    assignment to `s.changes` / `s.tuples`, no error return after it, delete loop before write loop -/
theorem tie_mem_validate_then_mutate :
    Gen.StoreWrite.memLockHeld = true ∧ Gen.StoreWrite.memSanitizeBeforeMutation = true ∧
    Gen.StoreWrite.memNoErrorReturnAfterMutation = true ∧ Gen.StoreWrite.memDeleteLoopBeforeWriteLoop = true := by
  refine ⟨?_, ?_, ?_, ?_⟩ <;> decide

/-- the option tests compare with the `…Ignore` constants; the constants are 0 = error (default), 1 = ignore -/
theorem tie_option_constants :
    Gen.StoreWrite.memMissingTest = "opts.OnMissingDelete == storage.OnMissingDeleteIgnore" ∧
    Gen.StoreWrite.memDupTest = "opts.OnDuplicateInsert == storage.OnDuplicateInsertIgnore" ∧
    Gen.StoreWrite.sqlIgnoreMissingCase = "storage.OnMissingDeleteIgnore" ∧
    Gen.StoreWrite.sqlIgnoreDupCase = "storage.OnDuplicateInsertIgnore" ∧
    Gen.StoreWrite.onMissingDeleteError = 0 ∧ Gen.StoreWrite.onMissingDeleteIgnore = 1 ∧
    Gen.StoreWrite.onDuplicateInsertError = 0 ∧ Gen.StoreWrite.onDuplicateInsertIgnore = 1 := by
  refine ⟨?_, ?_, ?_, ?_, ?_, ?_, ?_, ?_⟩ <;> decide

/-- sqlite.write decides "missing delete" / "duplicate write" by looking the request key up in the rows the SELECT
    returned (`!ok` at the head of the deletes loop, `ok` at the head of the writes loop) -/
theorem tie_sql_existence_guards :
    Gen.StoreWrite.sqlMissingGuard = "_, ok := existing[tupleUtils.TupleKeyToString(tk)]; !ok" ∧
    Gen.StoreWrite.sqlDupGuard = "existingTuple, ok := existing[tupleUtils.TupleKeyToString(tk)]; ok" := by
  constructor <;> decide

set_option maxRecDepth 8192 in
/-- under on_duplicate=ignore both backends compare the stored and the requested condition after
    `NewRelationshipCondition` (an absent context is the empty context): the fix of finding F13 is in place -/
theorem tie_condition_comparison :
    Gen.StoreWrite.memCondCompare = memCompareNormalisedText ∧ Gen.StoreWrite.sqlCondCompare = sqlCompareNormalisedText := by
  constructor <;> decide

/-- the comparison the source makes (and the correspondence runs the model with) -/
def srcMemCeq : TupleRec → TupleRec → Bool := ceqOfSource Gen.StoreWrite.memCondCompare memCompareNormalisedText
def srcSqlCeq : TupleRec → TupleRec → Bool := ceqOfSource Gen.StoreWrite.sqlCondCompare sqlCompareNormalisedText

/-- … is the semantic one -/
theorem src_comparison_is_semantic : srcMemCeq = semCondEq ∧ srcSqlCeq = semCondEq := by
  unfold srcMemCeq srcSqlCeq ceqOfSource
  rw [tie_condition_comparison.1, tie_condition_comparison.2]
  simp

/-- commands/write.go: "" and "error" select the error behaviour, "ignore" the ignore behaviour, every other word
    is a validation error; Execute validates, parses on_duplicate, parses on_missing, then calls the datastore with
    both options -/
theorem tie_option_tables :
    Gen.StoreWrite.onDuplicateTable = [("", false), ("error", false), ("ignore", true)] ∧
    Gen.StoreWrite.onMissingTable = [("", false), ("error", false), ("ignore", true)] ∧
    Gen.StoreWrite.onDuplicateDefaultIsError = true ∧ Gen.StoreWrite.onMissingDefaultIsError = true ∧
    Gen.StoreWrite.cmdExecuteOrder = ["validateWriteRequest", "parseOptionOnDuplicate", "parseOptionOnMissing", "datastore.Write"] ∧
    Gen.StoreWrite.cmdPassesOptions = true := by
  refine ⟨?_, ?_, ?_, ?_, ?_, ?_⟩ <;> decide

/-- validateWriteRequest checks object, relation and user of every delete key (so that no key with an empty part
    reaches a datastore whose `match` reads it as a wildcard) -/
theorem tie_cmd_delete_validation :
    Gen.StoreWrite.cmdDeleteValidators = ["IsValidObject", "IsValidRelation", "IsValidUser"] := by decide

/-- one batch per statement kind covers every request the API admits -/
theorem tie_batch_size : Gen.StoreWrite.defaultMaxTuplesPerWrite = 100 := by decide

/-! ## the identity under which a request key is looked up (sqlite lock key, memory `match`) -/

section Identity
open OpenFGAVerif.Model.StoreKeys OpenFGAVerif.Proofs.StoreKeys

/-- the field list and the separator of the de-dup key of makeTupleLockKeys, as the source has them -/
def genLockFields : List LockField := lockFieldsOf Gen.StoreKeys.sqlLockKeyJoin
def genLockSep : List Char := Gen.StoreKeys.sqlLockKeySep.map Char.ofNat

/-- makeTupleLockKeys joins all seven fields of `tupleLockKey` — object type, object id, relation, user object type,
    user object id, **user relation**, user type — with "\x00"; the struct has exactly these fields; a key whose string
    was seen is dropped, every other key is remembered and appended; deletes and writes both go through `add` -/
theorem tie_lock_key_fields :
    Gen.StoreKeys.sqlLockKeyJoin = ["objectType", "objectID", "relation", "userObjectType", "userObjectID", "userRelation", "userType"] ∧
    Gen.StoreKeys.sqlLockKeySep = [0] ∧
    Gen.StoreKeys.sqlLockKeyStruct = ["objectType", "objectID", "relation", "userObjectType", "userObjectID", "userRelation", "userType"] ∧
    Gen.StoreKeys.sqlLockKeyDedupTest = "_, ok := seen[s]; ok -> return;" ∧
    Gen.StoreKeys.sqlLockKeyDedupMarksAndAppends = true ∧
    Gen.StoreKeys.sqlLockKeyFeeds = ["deletes:add(tupleUtils.TupleKeyWithoutConditionToTupleKey(tk))", "writes:add(tk)"] := by
  refine ⟨?_, ?_, ?_, ?_, ?_, ?_⟩ <;> decide

/-- every field of the key is filled from the request key the way `LockField.get` reads it: SplitObject of the object,
    ToUserParts of the user, the relation, GetUserTypeFromUser of the user -/
theorem tie_lock_key_filled :
    Gen.StoreKeys.sqlLockKeyAssign = ["objectType=objectType", "objectID=objectID", "relation=tk.GetRelation()",
      "userObjectType=userObjectType", "userObjectID=userObjectID", "userRelation=userRelation",
      "userType=tupleUtils.GetUserTypeFromUser(tk.GetUser())"] ∧
    Gen.StoreKeys.sqlLockKeySplits = ["objectType, objectID := tupleUtils.SplitObject(tk.GetObject())",
      "userObjectType, userObjectID, userRelation := tupleUtils.ToUserParts(tk.GetUser())"] := by
  constructor <;> rfl

/-- the SELECT binds the same seven fields to the seven identity columns; rows found are remembered under the whole
    tuple-key string; the DELETE condition names the same seven columns; both INSERTs carry the identity columns -/
theorem tie_sql_row_identity :
    Gen.StoreKeys.sqlRowInArgs = ["objectType", "objectID", "relation", "userObjectType", "userObjectID", "userRelation", "userType"] ∧
    Gen.StoreKeys.sqlRowInPlaceholder = "(?,?,?,?,?,?,?)" ∧
    Gen.StoreKeys.sqlRowInColumns = "(object_type, object_id, relation, user_object_type, user_object_id, user_relation, user_type) IN " ∧
    Gen.StoreKeys.sqlExistingKey = "existing[tupleUtils.TupleKeyToString(tuple.GetKey())] = tuple" ∧
    Gen.StoreKeys.sqlDeleteWhere = ["object_type=objectType", "object_id=objectID", "relation=tk.GetRelation()",
      "user_object_type=userObjectType", "user_object_id=userObjectID", "user_relation=userRelation",
      "user_type=tupleUtils.GetUserTypeFromUser(tk.GetUser())"] ∧
    Gen.StoreKeys.sqlInsertTupleColumns = ["store", "object_type", "object_id", "relation", "user_object_type", "user_object_id",
      "user_relation", "user_type", "condition_name", "condition_context", "ulid", "inserted_at"] ∧
    Gen.StoreKeys.sqlInsertChangelogColumns = ["store", "object_type", "object_id", "relation", "user_object_type", "user_object_id",
      "user_relation", "condition_name", "condition_context", "operation", "ulid", "inserted_at"] := by
  refine ⟨?_, ?_, ?_, ?_, ?_, ?_, ?_⟩ <;> rfl

/-- memory.go `match` makes exactly the comparisons `matchRec` mirrors (object type / id, relation, whole user string or
    user-type prefix), only ever rejects; `find` returns the first record that matches; sanitizeTuplesWriteDelete and the
    two loops of Write look keys up through `find` / `match` -/
theorem tie_mem_match_identity :
    Gen.StoreKeys.memMatchConds = ["target.GetObject() != \"\"", "objectid == \"\"", "td != t.ObjectType",
      "td != t.ObjectType || objectid != t.ObjectID", "target.GetRelation() != \"\" && t.Relation != target.GetRelation()",
      "target.GetUser() != \"\"", "userID != \"\" && t.User != target.GetUser()",
      "userID == \"\" && !strings.HasPrefix(t.User, userType+\":\")"] ∧
    Gen.StoreKeys.memMatchSplits = ["td, objectid := tupleUtils.SplitObject(target.GetObject())",
      "userType, userID, _ := tupleUtils.ToUserParts(target.GetUser())"] ∧
    Gen.StoreKeys.memMatchRejectsOnly = true ∧
    Gen.StoreKeys.memFindBody = "{ for _, tr := range records { if match(tr, tupleKey) { return tr } } return nil }" ∧
    Gen.StoreKeys.memSanitizeLookups = ["find(records, tupleUtils.TupleKeyWithoutConditionToTupleKey(tk)) == nil", "record := find(records, tk)"] ∧
    Gen.StoreKeys.memWriteMatches = ["match(tr, tupleUtils.TupleKeyWithoutConditionToTupleKey(k))", "match(et, t)"] := by
  refine ⟨?_, ?_, ?_, ?_, ?_, ?_⟩ <;> rfl

/-- the model is run with all seven fields and the NUL separator -/
theorem lock_key_fields_are_all : genLockFields = LockField.all ∧ genLockSep = [Char.ofNat 0] := by
  unfold genLockFields genLockSep
  rw [tie_lock_key_fields.1, tie_lock_key_fields.2.1]
  constructor <;> decide

/-- **lock_key_injective.** The de-dup key makeTupleLockKeys builds is injective on tuple identity: two request keys
    (user strings that survive the split into the three user columns, no NUL in any part) with the same key string are
    the same object, relation and user — user relation included. -/
theorem lock_key_injective (k1 k2 : TupleKey) (h1 : UserOK k1.user) (h2 : UserOK k2.user)
    (n1 : NoSep userTypeOf (Char.ofNat 0) k1) (n2 : NoSep userTypeOf (Char.ofNat 0) k2)
    (h : lockKeyString userTypeOf genLockFields genLockSep k1 = lockKeyString userTypeOf genLockFields genLockSep k2) : k1 = k2 := by
  rw [lock_key_fields_are_all.1, lock_key_fields_are_all.2] at h
  exact lockKeyString_injective userTypeOf (Char.ofNat 0) k1 k2 h1 h2 n1 n2 h

/-- **sql_write_uses_tuple_identity.** sqlite.write run with the lock keys the source computes is the write all the
    theorems above are about (`sqlWrite`, whose look-ups go by the whole (object, relation, user) triple) — for every
    request, store, option set and failure point. -/
theorem sql_write_uses_tuple_identity (ceq : TupleRec → TupleRec → Bool) (db : Db) (dels : List TupleKey) (writes : List TupleRec)
    (o : WriteOpts) (now : Nat) (f : Option Fail) (hk : KeysOK userTypeOf (Char.ofNat 0) (dels ++ writes.map (·.key))) :
    sqlWriteK (sqlLockKeys userTypeOf genLockFields genLockSep dels writes) ceq genCfg db dels writes o now f
      = sqlWrite ceq genCfg db dels writes o now f := by
  rw [lock_key_fields_are_all.1, lock_key_fields_are_all.2]
  exact sqlWriteK_lockKeys userTypeOf (Char.ofNat 0) ceq genCfg db dels writes o now f hk

/-- memory: `find` / `match` identify a well-formed request key with exactly the stored tuple of the same
    (object, relation, user) triple -/
theorem mem_find_is_tuple_identity (t : TupleRec) (k : TupleKey) (h : WfKey k) : matchRec t k = true ↔ t.key = k :=
  matchRec_wf h

/-- non-vacuity: the two keys of the report (same object, relation, user type and id; user relation member / admin) are
    covered by the hypotheses, are different, and get different lock keys -/
example : KeysOK userTypeOf (Char.ofNat 0) [kMember, kAdmin] ∧ kMember ≠ kAdmin ∧
    lockKeyString userTypeOf LockField.all [Char.ofNat 0] kMember ≠ lockKeyString userTypeOf LockField.all [Char.ofNat 0] kAdmin := by
  refine ⟨?_, by decide, by decide⟩
  intro k hk
  simp only [List.mem_cons, List.not_mem_nil, or_false] at hk
  rcases hk with rfl | rfl <;> exact ⟨by decide, by decide⟩

end Identity

/-! ## memory backend: all-or-nothing -/

/-- a failed memory.Write leaves the store exactly as it was — for every input, no assumption -/
theorem mem_error_changes_nothing (ceq : TupleRec → TupleRec → Bool) (s : StoreState) (dels : List TupleKey)
    (writes : List TupleRec) (o : WriteOpts) (now : Nat) (e : WriteErr)
    (h : (memWrite ceq s dels writes o now).2 = some e) : (memWrite ceq s dels writes o now).1 = s := by
  unfold memWrite at h ⊢
  cases hs : sanitize ceq s.tuples dels writes o with
  | error e' => rfl
  | ok r => rw [hs] at h; simp at h

/-- **write_all_or_nothing (memory).** A request either fails with the store unchanged, or succeeds and the store is
    exactly: stored tuples minus the deletes' keys, plus the writes that were not stored, and the changelog grows by
    one entry per effective delete (store order) and per effective write (request order). -/
theorem write_all_or_nothing_mem (ceq : TupleRec → TupleRec → Bool) (s : StoreState) (dels : List TupleKey)
    (writes : List TupleRec) (o : WriteOpts) (now : Nat) (h : ReqOK dels writes) :
    (∃ e, memWrite ceq s dels writes o now = (s, some e)) ∨
    memWrite ceq s dels writes o now = (specState false id s dels writes now, none) := by
  rw [memWrite_eq_spec ceq s dels writes o now h]
  cases hs : specWrite ceq false id s dels writes o now with
  | error e => exact Or.inl ⟨e, rfl⟩
  | ok s' => right; rw [specWrite_ok_form hs]; rfl

/-! ## SQL backend: all-or-nothing at every failure point -/

/-- **sql_atomic.** For every operation index `k` of the write (BEGIN, SELECT, each DELETE / INSERT statement, COMMIT)
    and both failure modes (the statement fails before it runs / the engine ran it and the reply is lost or the
    connection dies): the call reports an error, the committed state is what it was, no transaction stays open —
    or the failure index lies beyond the write's last operation and the call behaves as without failure. -/
theorem sql_atomic (ceq : TupleRec → TupleRec → Bool) (db : Db) (dels : List TupleKey) (writes : List TupleRec)
    (o : WriteOpts) (now : Nat) (k : Nat) (after : Bool) (hp : db.pending = none) :
    let r := sqlWrite ceq genCfg db dels writes o now (some ⟨k, after⟩)
    r.1.pending = none ∧
    ((r.2 ≠ none ∧ r.1.committed = db.committed) ∨
     (r.2 = none ∧ r = sqlWrite ceq genCfg db dels writes o now none)) := by
  intro r
  have hat := sqlWrite_atomic ceq genCfg tie_sql_all_in_txn.1 db dels writes o now (some ⟨k, after⟩) hp
  refine ⟨hat.1, ?_⟩
  by_cases he : r.2 = none
  · exact Or.inr ⟨he, sqlWrite_nofire ceq genCfg db dels writes o now _ he⟩
  · exact Or.inl ⟨he, hat.2 he⟩

/-- **write_all_or_nothing (SQL).** With any failure point or none: error and nothing changed, or success and the
    committed state is exactly the specified one — tuples and changelog rows together (`changelog_in_txn`). -/
theorem write_all_or_nothing_sql (ceq : TupleRec → TupleRec → Bool) (db : Db) (dels : List TupleKey)
    (writes : List TupleRec) (o : WriteOpts) (now : Nat) (f : Option Fail) (hp : db.pending = none)
    (hnd : (dels ++ writes.map (·.key)).Nodup) (hst : (db.committed.tuples.map (·.key)).Nodup) :
    let r := sqlWrite ceq genCfg db dels writes o now f
    r.1.pending = none ∧
    ((r.2 ≠ none ∧ r.1.committed = db.committed) ∨
     (r.2 = none ∧ r.1.committed = specState true normCond db.committed dels writes now)) := by
  intro r
  obtain ⟨h1, h2⟩ := sqlWrite_all_or_nothing ceq genCfg tie_sql_all_in_txn.1 db dels writes o now f hp hnd hst
  refine ⟨h1, ?_⟩
  rcases h2 with h | ⟨he, hs⟩
  · exact Or.inl h
  · exact Or.inr ⟨he, specWrite_ok_form hs⟩

/-- the failure-free SQL write decides like the specification (same error class, same state) -/
theorem sql_write_eq_spec (ceq : TupleRec → TupleRec → Bool) (db : Db) (dels : List TupleKey) (writes : List TupleRec)
    (o : WriteOpts) (now : Nat) (hnd : (dels ++ writes.map (·.key)).Nodup) (hst : (db.committed.tuples.map (·.key)).Nodup) :
    sqlWrite ceq genCfg db dels writes o now none
      = toDbResult db (specWrite ceq true normCond db.committed dels writes o now) :=
  sqlWrite_eq_spec ceq genCfg tie_sql_all_in_txn.1 db dels writes o now hnd hst

/-- **sql_atomic, second half: after COMMIT the state equals memory.Write's** (same verdict, same tuples in the same
    order as `Read` shows them, changelogs equal as multisets of (tuple, operation) with equal length: only the order
    of the new delete entries may differ, request order vs store order) -/
theorem sql_commit_equals_memWrite (ceq : TupleRec → TupleRec → Bool) (s : StoreState) (dels : List TupleKey)
    (writes : List TupleRec) (o : WriteOpts) (now : Nat) (h : ReqOK dels writes) (hs : (s.tuples.map (·.key)).Nodup) :
    (memWrite ceq s dels writes o now).2 = (sqlWrite ceq genCfg { committed := s } dels writes o now none).2 ∧
    (sqlWrite ceq genCfg { committed := s } dels writes o now none).1.committed.tuples.map normCond
      = (memWrite ceq s dels writes o now).1.tuples.map normCond ∧
    ((sqlWrite ceq genCfg { committed := s } dels writes o now none).1.committed.changes.map payload).Perm
      ((memWrite ceq s dels writes o now).1.changes.map payload) ∧
    (sqlWrite ceq genCfg { committed := s } dels writes o now none).1.committed.changes.length
      = (memWrite ceq s dels writes o now).1.changes.length :=
  sql_commit_equals_memWrite_gen ceq genCfg tie_sql_all_in_txn.1 s dels writes o now h hs

/-- the model really needs the source facts: were the changelog INSERT not run on the transaction, a failing COMMIT
    would leave changelog rows behind -/
theorem not_atomic_without_runwith_txn :
    let cfg : SqlCfg := { changelogInTxn := false }
    let w : TupleRec := { objType := "doc", objId := "1", relation := "viewer", user := "user:a" }
    let r := sqlWrite condEq cfg { committed := {} } [] [w] {} 1 (some ⟨4, false⟩)
    r.2 = some .sqlError ∧ r.1.committed ≠ {} := by
  decide

/-! ## the options table (on the specification both backends refine) -/

section Options
variable (ceq : TupleRec → TupleRec → Bool) (ord : Bool) (norm : TupleRec → TupleRec)
variable (s : StoreState) (dels : List TupleKey) (writes : List TupleRec) (o : WriteOpts) (now : Nat)

/-- deleting a missing tuple fails the whole request unless on_missing = ignore -/
theorem missing_delete_fails (ho : o.ignoreMissing = false) (k : TupleKey) (hk : k ∈ dels) (hm : stored s k = none) :
    specWrite ceq ord norm s dels writes o now = .error .invalidDelete := by
  unfold specWrite
  have : dels.any (fun k => (stored s k).isNone) = true := List.any_eq_true.mpr ⟨k, hk, by simp [hm]⟩
  simp [ho, this]

/-- writing a stored tuple fails the whole request unless on_duplicate = ignore -/
theorem duplicate_write_fails (hd : o.ignoreMissing = true ∨ ∀ k ∈ dels, (stored s k).isSome = true)
    (ho : o.ignoreDup = false) (w : TupleRec) (hw : w ∈ writes) (hs : (stored s w.key).isSome = true) :
    specWrite ceq ord norm s dels writes o now = .error .invalidWrite := by
  unfold specWrite
  have h1 : (!o.ignoreMissing && dels.any (fun k => (stored s k).isNone)) = false := by
    rcases hd with hd | hd
    · simp [hd]
    · have : dels.any (fun k => (stored s k).isNone) = false := by
        rw [List.any_eq_false]; intro k hk
        have := hd k hk
        cases h : stored s k <;> simp [h] at this ⊢
      simp [this]
  have h2 : writes.any (fun w => (stored s w.key).isSome) = true := List.any_eq_true.mpr ⟨w, hw, hs⟩
  simp [h1, ho, h2]

/-- with on_duplicate = ignore, a stored tuple whose condition differs (as compared by `ceq`) still fails the request -/
theorem different_condition_fails (hd : o.ignoreMissing = true ∨ ∀ k ∈ dels, (stored s k).isSome = true)
    (ho : o.ignoreDup = true) (w e : TupleRec) (hw : w ∈ writes) (hs : stored s w.key = some e) (hc : ceq e w = false) :
    specWrite ceq ord norm s dels writes o now = .error .condConflict := by
  unfold specWrite
  have h1 : (!o.ignoreMissing && dels.any (fun k => (stored s k).isNone)) = false := by
    rcases hd with hd | hd
    · simp [hd]
    · have : dels.any (fun k => (stored s k).isNone) = false := by
        rw [List.any_eq_false]; intro k hk
        have := hd k hk
        cases h : stored s k <;> simp [h] at this ⊢
      simp [this]
  have h3 : writes.any (fun w => (stored s w.key).any (fun e => !ceq e w)) = true :=
    List.any_eq_true.mpr ⟨w, hw, by simp [hs, hc]⟩
  simp [h1, ho, h3]

/-- with both options set to ignore and no stored tuple with a different condition, the request succeeds and only
    the no-op items are skipped: exactly the stored keys among the deletes go, exactly the not-stored writes come,
    and the changelog gets exactly one entry for each of them -/
theorem ignore_skips_only_noops (hm : o.ignoreMissing = true) (hd : o.ignoreDup = true)
    (hc : ∀ w ∈ writes, ∀ e, stored s w.key = some e → ceq e w = true) :
    specWrite ceq ord norm s dels writes o now = .ok (specState ord norm s dels writes now) ∧
    (specState ord norm s dels writes now).changes.length
      = s.changes.length + (effDelOf ord s dels).length + (effWOf s writes).length := by
  constructor
  · unfold specWrite
    have h3 : writes.any (fun w => (stored s w.key).any (fun e => !ceq e w)) = false := by
      rw [List.any_eq_false]; intro w hw
      cases h : stored s w.key with
      | none => simp
      | some e => simp [hc w hw e h]
    simp [hm, hd, h3, specState, effDelOf, effWOf]
  · simp only [specState]
    rw [pushAll_eq]
    simp [mkChanges_length, Nat.add_assoc]

/-- without the options, a request all of whose deletes are stored and none of whose writes is, is applied in full -/
theorem clean_request_applied (hdel : ∀ k ∈ dels, (stored s k).isSome = true) (hwr : ∀ w ∈ writes, stored s w.key = none) :
    specWrite ceq ord norm s dels writes o now = .ok (specState ord norm s dels writes now) := by
  unfold specWrite
  have h1 : dels.any (fun k => (stored s k).isNone) = false := by
    rw [List.any_eq_false]; intro k hk
    have := hdel k hk
    cases h : stored s k <;> simp [h] at this ⊢
  have h2 : writes.any (fun w => (stored s w.key).isSome) = false := by
    rw [List.any_eq_false]; intro w hw; simp [hwr w hw]
  have h3 : writes.any (fun w => (stored s w.key).any (fun e => !ceq e w)) = false := by
    rw [List.any_eq_false]; intro w hw; simp [hwr w hw]
  simp [h1, h2, h3, specState, effDelOf, effWOf]

end Options

/-- **options_table (memory)**: memory.Write decides exactly like the specification with the comparison `ceq` the
    source makes (error class and resulting state) -/
theorem options_table_mem (ceq : TupleRec → TupleRec → Bool) (s : StoreState) (dels : List TupleKey) (writes : List TupleRec)
    (o : WriteOpts) (now : Nat) (h : ReqOK dels writes) :
    memWrite ceq s dels writes o now = toResult s (specWrite ceq false id s dels writes o now) :=
  memWrite_eq_spec ceq s dels writes o now h

/-! ## full strength: "a different condition" means a semantically different one (absent context = empty context) -/

/-- the statement at full strength for a write function over the memory store -/
def FullOptionsTableMem (write : StoreState → List TupleKey → List TupleRec → WriteOpts → Nat → StoreState × Option WriteErr) : Prop :=
  ∀ s dels writes o now, ReqOK dels writes →
    write s dels writes o now = toResult s (specWrite semCondEq false id s dels writes o now)

/-- … and over the SQL database (states hold what `normCond` keeps) -/
def FullOptionsTableSql (write : Db → List TupleKey → List TupleRec → WriteOpts → Nat → Db × Option WriteErr) : Prop :=
  ∀ db dels writes o now, (dels ++ writes.map (·.key)).Nodup → (db.committed.tuples.map (·.key)).Nodup →
    write db dels writes o now = toDbResult db (specWrite semCondEq true normCond db.committed dels writes o now)

/-- with the normalising comparison (the candidate fix) the full statement holds for both backends -/
theorem full_options_table_mem_normalised : FullOptionsTableMem (memWrite semCondEq) :=
  fun s dels writes o now h => memWrite_eq_spec semCondEq s dels writes o now h

theorem full_options_table_sql_normalised : FullOptionsTableSql (fun db d w o n => sqlWrite semCondEq genCfg db d w o n none) :=
  fun db dels writes o now hnd hst => sqlWrite_eq_spec semCondEq genCfg tie_sql_all_in_txn.1 db dels writes o now hnd hst

/-- **options_table at full strength (memory)**: memory.Write as the source has it decides exactly like the
    specification in which "a different condition" is a semantically different one -/
theorem full_options_table_mem : FullOptionsTableMem (memWrite srcMemCeq) := by
  rw [src_comparison_is_semantic.1]; exact full_options_table_mem_normalised

/-- **options_table at full strength (sqlite)** -/
theorem full_options_table_sql : FullOptionsTableSql (fun db d w o n => sqlWrite srcSqlCeq genCfg db d w o n none) := by
  rw [src_comparison_is_semantic.2]; exact full_options_table_sql_normalised

def wKey : TupleKey := ⟨"doc", "1", "viewer", "user:a"⟩
/-- doc:1#viewer@user:a with condition c1 and *no* context / with the *empty* context -/
def wNil : TupleRec := { objType := "doc", objId := "1", relation := "viewer", user := "user:a", condName := "c1", condCtx := none }
def wEmpty : TupleRec := { wNil with condCtx := some [] }

theorem wf_wKey : WfKey wKey := by decide

theorem reqOK_single (w : TupleRec) (h : WfKey w.key) : ReqOK [] [w] :=
  ⟨by simp, by simpa using h, by simp⟩

/-- **negation witness (memory, finding F13, fixed in /repo 4c23c43).** With the raw comparison the memory backend stores the
    tuple with a nil context and then rejects the same tuple with an empty context under on_duplicate=ignore,
    although the conditions are the same. -/
theorem not_full_options_table_mem_raw : ¬ FullOptionsTableMem (memWrite condEq) := by
  intro h
  have := h { tuples := [wNil] } [] [wEmpty] { ignoreDup := true } 1 (reqOK_single wEmpty wf_wKey)
  revert this
  decide

/-- **negation witness (sqlite, finding F13, fixed).** With the raw comparison: the stored row reads back with the empty context; the identical
    request (nil context) under on_duplicate=ignore is answered with a condition conflict. -/
theorem not_full_options_table_sql_raw :
    ¬ FullOptionsTableSql (fun db d w o n => sqlWrite condEq genCfg db d w o n none) := by
  intro h
  have := h { committed := { tuples := [wEmpty] } } [] [wNil] { ignoreDup := true } 1 (by decide) (by decide)
  revert this
  decide

/-- a tuple whose condition is in normal form: no name → no context, a name → some context -/
def CtxNormal (t : TupleRec) : Prop := normCond t = t

instance (t : TupleRec) : Decidable (CtxNormal t) := by unfold CtxNormal; infer_instance

theorem condEq_eq_sem_of_normal {e w : TupleRec} (he : CtxNormal e) (hw : CtxNormal w) : condEq e w = semCondEq e w := by
  unfold semCondEq
  rw [he, hw]
  rfl

theorem specWrite_raw_eq_sem (ord : Bool) (norm : TupleRec → TupleRec) (s : StoreState) (dels : List TupleKey)
    (writes : List TupleRec) (o : WriteOpts) (now : Nat)
    (hs : ∀ t ∈ s.tuples, CtxNormal t) (hw : ∀ w ∈ writes, CtxNormal w) :
    specWrite condEq ord norm s dels writes o now = specWrite semCondEq ord norm s dels writes o now := by
  unfold specWrite
  have : writes.any (fun w => (stored s w.key).any (fun e => !condEq e w))
       = writes.any (fun w => (stored s w.key).any (fun e => !semCondEq e w)) := by
    apply any_congr_mem
    intro w hw'
    cases h : stored s w.key with
    | none => rfl
    | some e =>
      simp only [Option.any_some]
      rw [condEq_eq_sem_of_normal (hs e (stored_some_key h).1) (hw w hw')]
  rw [this]

/-- **options_table_partial** (what held before the fix). With the raw comparison the full statement holds whenever no conditional tuple is
    stored or written with an absent context (every context explicitly present, possibly empty) -/
theorem options_table_mem_partial (s : StoreState) (dels : List TupleKey) (writes : List TupleRec) (o : WriteOpts)
    (now : Nat) (h : ReqOK dels writes) (hs : ∀ t ∈ s.tuples, CtxNormal t) (hw : ∀ w ∈ writes, CtxNormal w) :
    memWrite condEq s dels writes o now = toResult s (specWrite semCondEq false id s dels writes o now) := by
  rw [memWrite_eq_spec condEq s dels writes o now h, specWrite_raw_eq_sem false id s dels writes o now hs hw]

theorem options_table_sql_partial (db : Db) (dels : List TupleKey) (writes : List TupleRec) (o : WriteOpts) (now : Nat)
    (hnd : (dels ++ writes.map (·.key)).Nodup) (hst : (db.committed.tuples.map (·.key)).Nodup)
    (hs : ∀ t ∈ db.committed.tuples, CtxNormal t) (hw : ∀ w ∈ writes, CtxNormal w) :
    sqlWrite condEq genCfg db dels writes o now none
      = toDbResult db (specWrite semCondEq true normCond db.committed dels writes o now) := by
  rw [sqlWrite_eq_spec condEq genCfg tie_sql_all_in_txn.1 db dels writes o now hnd hst,
    specWrite_raw_eq_sem true normCond db.committed dels writes o now hs hw]

/-! ## the command front end -/

theorem hasDupKeys_false_iff : ∀ (l : List TupleKey), hasDupKeys l = false ↔ l.Nodup := by
  intro l
  induction l with
  | nil => simp [hasDupKeys]
  | cons a l ih =>
    simp only [hasDupKeys, Bool.or_eq_false_iff, ih, List.nodup_cons]
    constructor
    · rintro ⟨h1, h2⟩; exact ⟨by simpa using h1, h2⟩
    · rintro ⟨h1, h2⟩; exact ⟨by simpa using h1, h2⟩

/-- the parser on the table extracted from the source -/
theorem parseOption_table (w : String) :
    parseOption [("", false), ("error", false), ("ignore", true)] w =
      if w = "" then some false else if w = "error" then some false else if w = "ignore" then some true else none := by
  unfold parseOption
  by_cases h1 : w = ""
  · subst h1; rfl
  by_cases h2 : w = "error"
  · subst h2; rfl
  by_cases h3 : w = "ignore"
  · subst h3; rfl
  have e1 : ("" == w) = false := by simpa using Ne.symm h1
  have e2 : ("error" == w) = false := by simpa using Ne.symm h2
  have e3 : ("ignore" == w) = false := by simpa using Ne.symm h3
  simp [List.find?, e1, e2, e3, h1, h2, h3]

/-- what passes `WriteCommand.Execute`'s front end has no key twice — the hypothesis of the SQL theorems — and its
    options were parsed by the table -/
theorem cmdFront_ok (dels : List TupleKey) (writes : List TupleRec) (onDup onMiss : String) (o : WriteOpts)
    (h : cmdFront Gen.StoreWrite.onDuplicateTable Gen.StoreWrite.onMissingTable true dels writes onDup onMiss = .ok o) :
    (dels ++ writes.map (·.key)).Nodup ∧ (∀ k ∈ dels, validDeleteKey k = true) ∧
    (o.ignoreDup = true ↔ onDup = "ignore") ∧ (o.ignoreMissing = true ↔ onMiss = "ignore") ∧
    (onDup = "" ∨ onDup = "error" ∨ onDup = "ignore") ∧ (onMiss = "" ∨ onMiss = "error" ∨ onMiss = "ignore") := by
  rw [tie_option_tables.1, tie_option_tables.2.1] at h
  unfold cmdFront at h
  rw [parseOption_table, parseOption_table] at h
  split at h
  · cases h
  · split at h
    · cases h
    · split at h
      · cases h
      · rename_i hval hdup
        have hnd := (hasDupKeys_false_iff _).mp (by simpa using hdup)
        have hv : ∀ k ∈ dels, validDeleteKey k = true := by
          intro k hk
          have : dels.any (fun k => !validDeleteKey k) = false := by simpa using hval
          have := List.any_eq_false.mp this k hk
          simpa using this
        refine ⟨hnd, hv, ?_⟩
        by_cases d1 : onDup = "" <;> by_cases d2 : onDup = "error" <;> by_cases d3 : onDup = "ignore" <;>
      by_cases m1 : onMiss = "" <;> by_cases m2 : onMiss = "error" <;> by_cases m3 : onMiss = "ignore" <;>
      simp [d1, d2, d3, m1, m2, m3] at h <;> (try subst h) <;> simp_all

/-- every other word for on_duplicate / on_missing is rejected before the datastore is touched -/
theorem cmdFront_bad_option (dels : List TupleKey) (writes : List TupleRec) (onDup onMiss : String)
    (hne : ¬ (dels.isEmpty && writes.isEmpty) = true) (hval : ∀ k ∈ dels, validDeleteKey k = true)
    (hnd : hasDupKeys (dels ++ writes.map (·.key)) = false)
    (hbad : (onDup ≠ "" ∧ onDup ≠ "error" ∧ onDup ≠ "ignore") ∨ (onMiss ≠ "" ∧ onMiss ≠ "error" ∧ onMiss ≠ "ignore")) :
    cmdFront Gen.StoreWrite.onDuplicateTable Gen.StoreWrite.onMissingTable true dels writes onDup onMiss = .error .cmdBadOption := by
  rw [tie_option_tables.1, tie_option_tables.2.1]
  unfold cmdFront
  have hv : ¬ ((true && dels.any (fun k => !validDeleteKey k)) = true) := by
    simp only [Bool.true_and, List.any_eq_true, not_exists, not_and]
    intro k hk; simp [hval k hk]
  rw [if_neg hne, if_neg hv, if_neg (by simp [hnd]), parseOption_table, parseOption_table]
  rcases hbad with ⟨a, b, c⟩ | ⟨a, b, c⟩
  · simp [a, b, c]
  · by_cases d1 : onDup = "" <;> by_cases d2 : onDup = "error" <;> by_cases d3 : onDup = "ignore" <;> simp [a, b, c, d1, d2, d3]

/-- a delete key with an empty object id, an empty relation or a userset-style object never reaches the datastore -/
theorem cmdFront_rejects_odd_delete_key (dupT missT : List (String × Bool)) (dels : List TupleKey) (writes : List TupleRec)
    (onDup onMiss : String) (k : TupleKey) (hk : k ∈ dels) (hbad : k.objId = "" ∨ k.objType = "" ∨ k.relation = "") :
    cmdFront dupT missT true dels writes onDup onMiss = .error .cmdInvalidKey := by
  unfold cmdFront
  have hne : ¬ (dels.isEmpty && writes.isEmpty) = true := by
    cases dels with
    | nil => cases hk
    | cons _ _ => simp
  have hv : (true && dels.any (fun k => !validDeleteKey k)) = true := by
    simp only [Bool.true_and, List.any_eq_true]
    refine ⟨k, hk, ?_⟩
    rcases hbad with h | h | h <;> simp [validDeleteKey, h]
  rw [if_neg hne, if_pos hv]

/-! ## non-vacuity -/

def exW1 : TupleRec := { objType := "doc", objId := "1", relation := "viewer", user := "user:a" }
def exW2 : TupleRec := { objType := "doc", objId := "2", relation := "viewer", user := "group:g#member", condName := "c1", condCtx := some [120, 49] }
def exStore : StoreState := { tuples := [exW1], changes := [⟨exW1, .write, 0, 1⟩] }

/-- the hypotheses of the theorems are satisfiable by a non-trivial request, and the three outcomes occur -/
example : ReqOK [exW1.key] [exW2] := ⟨by decide, by decide, by decide⟩
example : Inv exStore := ⟨by decide, by decide, by decide⟩
example : (memWrite condEq exStore [exW1.key] [exW2] {} 2).2 = none ∧
          (memWrite condEq exStore [exW1.key] [exW2] {} 2).1.tuples = [exW2] ∧
          (memWrite condEq exStore [exW1.key] [exW2] {} 2).1.changes.length = 3 := by decide
example : memWrite condEq exStore [exW2.key] [] {} 2 = (exStore, some .invalidDelete) := by decide
example : memWrite condEq exStore [exW2.key] [exW1] { ignoreMissing := true, ignoreDup := true } 2 = (exStore, none) := by decide
/-- a write of two statements plus COMMIT, failing at each of its five operations, and not failing -/
example : ∀ k ∈ [0, 1, 2, 3, 4], ∀ after ∈ [true, false],
    (sqlWrite condEq genCfg { committed := exStore } [exW1.key] [exW2] {} 2 (some ⟨k, after⟩)) = ({ committed := exStore }, some .sqlError) := by
  decide
example : (sqlWrite condEq genCfg { committed := exStore } [exW1.key] [exW2] {} 2 (some ⟨5, false⟩)).2 = some .sqlError ∧
          (sqlWrite condEq genCfg { committed := exStore } [exW1.key] [exW2] {} 2 (some ⟨6, false⟩)).2 = none ∧
          (sqlWrite condEq genCfg { committed := exStore } [exW1.key] [exW2] {} 2 none).1.committed.tuples = [exW2] := by decide

end OpenFGAVerif.C12
