/-
C13 — Storage backends implement the same read semantics.

For each read operation X ∈ {Read, ReadUserTuple, ReadUsersetTuples, ReadStartingWithUser}:
  memX  (the loops of pkg/storage/memory/memory.go AS WRITTEN, `Model.StoreRead`)
  sqlX  (the WHERE clauses of pkg/storage/sqlite/sqlite.go over the columns written by `write`)
  specX (the documented filter of pkg/storage/storage.go)
and the statements `memX = specX`, `sqlX = specX` for ALL stores and ALL filters (`Full…`).

The tree as first seen (snapshot 469a15f) violated several of them (finding F4 and its relatives); commit 5575d87
repaired F4a/F4b in memory.ReadUsersetTuples, the others (F4c–F4g) are still there.  The places where the source
deviates are switches (`MemShape`, `SqlShape`) whose current values the extractor reads off the source
(`Gen.StoreRead`) on every run.  For every `Full…` statement this file has
  * the proof for the repaired shape (`…_fixed`),
  * the `…_partial` theorem: for EVERY shape, under exactly the hypothesis that excludes the defect
    (the hypothesis disappears when the switch is on the documented side),
  * the negation witness for every shape that has the defect (`…_counterexample`, by evaluation),
  * the instance for the shape the source has today (`…_current`), which needs no change after a repair.
Proofs of the lemmas: `Proofs/StoreRead.lean`.
-/
import OpenFGAVerif.Model.StoreRead
import OpenFGAVerif.Proofs.StoreRead
import OpenFGAVerif.Proofs.UserStr
import OpenFGAVerif.Gen.StoreRead
import OpenFGAVerif.Props.Misc3

namespace OpenFGAVerif.C13
open OpenFGAVerif.Model.StoreTypes OpenFGAVerif.Model.StoreRead OpenFGAVerif.Proofs.StoreRead OpenFGAVerif.Proofs.UserStr

/-! ## The shape of today's source -/

/-- the switches of memory.go as found in the source by the extractor -/
def genMemShape : MemShape :=
  { readShortcutSkipsConds := Gen.StoreRead.memReadShortcutSkipsConds
    rutCondFirst := Gen.StoreRead.rutCondFirst
    rutBreakOnMatch := Gen.StoreRead.rutBreakOnMatch
    rutPlainMatchesWildcard := Gen.StoreRead.rutPlainMatchesWildcard
    rswuBreakOnMatch := Gen.StoreRead.rswuBreakOnMatch
    rswuEmptyIdsMeansAll := Gen.StoreRead.rswuEmptyIdsMeansAll }

/-- the switches of sqlite.go as found in the source by the extractor -/
def genSqlShape : SqlShape :=
  { userNoRelPinsEmpty := Gen.StoreRead.sqlReadUserNoRelPinsEmpty
    rswuUserNoRelPinsEmpty := Gen.StoreRead.sqlRswuUserNoRelPinsEmpty
    rswuEmptyIdsMeansAll := Gen.StoreRead.sqlRswuEmptyIdsMeansAll }

/-! ## Ties: the parts of the source the model mirrors literally -/

/-- `memory.match` is the function `matchT` was written from. -/
theorem tie_mem_match :
    Gen.StoreRead.memMatchSrc =
      "{ if target.GetObject() != \"\" { td, objectid := tupleUtils.SplitObject(target.GetObject()) if objectid == \"\" { if td != t.ObjectType { return false } } else { if td != t.ObjectType || objectid != t.ObjectID { return false } } } if target.GetRelation() != \"\" && t.Relation != target.GetRelation() { return false } if target.GetUser() != \"\" { userType, userID, _ := tupleUtils.ToUserParts(target.GetUser()) if userID != \"\" && t.User != target.GetUser() { return false } else if userID == \"\" && !strings.HasPrefix(t.User, userType+\":\") { return false } } return true }" := by
  rfl

/-- `memory.read`: the shortcut condition and the filter condition of the loop. -/
theorem tie_mem_read :
    Gen.StoreRead.memReadShortcutCond = "filter.Object == \"\" && filter.Relation == \"\" && filter.User == \"\"" ∧
    Gen.StoreRead.memReadFilterCond =
      "match(t, &openfgav1.TupleKey{ Object: filter.Object, Relation: filter.Relation, User: filter.User, }) && (len(filter.Conditions) == 0 || slices.Contains(filter.Conditions, t.ConditionName))" := by
  exact ⟨rfl, rfl⟩

/-- `memory.ReadUserTuple`: first match that passes the condition test. -/
theorem tie_mem_readUserTuple :
    Gen.StoreRead.memReadUserTupleLoop =
      "{ if match(t, tupleUtils.NewTupleKey(filter.Object, filter.Relation, filter.User)) { if len(filter.Conditions) > 0 && !slices.Contains(filter.Conditions, t.ConditionName) { continue } return t.AsTuple(), nil } }" := by
  rfl

/-- `memory.ReadStartingWithUser`: the guards (other than the ObjectIDs guard, which is a switch), the target
comparison and the sort key. -/
theorem tie_mem_rswu :
    Gen.StoreRead.rswuGuardsOther =
      ["t.ObjectType != filter.ObjectType", "t.Relation != filter.Relation",
       "len(filter.Conditions) > 0 && !slices.Contains(filter.Conditions, t.ConditionName)"] ∧
    Gen.StoreRead.rswuTarget =
      "targetUser := userFilter.GetObject() ; if userFilter.GetRelation() != \"\" { targetUser = tupleUtils.GetObjectRelationAsString(userFilter) } ; if targetUser != t.User { continue }" ∧
    Gen.StoreRead.rswuSortLess = "matches[i].ObjectID < matches[j].ObjectID" := by
  exact ⟨rfl, rfl, rfl⟩

/-- The WHERE clauses of the four sqlite read paths (guard ⊢ clause, in source order). -/
theorem tie_sql_wheres :
    Gen.StoreRead.sqlReadWheres =
      [" ⊢ sq.Eq{\"store\": store}", "objectType != \"\" ⊢ sq.Eq{\"object_type\": objectType}",
       "objectID != \"\" ⊢ sq.Eq{\"object_id\": objectID}", "filter.Relation != \"\" ⊢ sq.Eq{\"relation\": filter.Relation}",
       "filter.User != \"\" && userObjectType != \"\" ⊢ sq.Eq{ \"user_object_type\": userObjectType, }",
       "filter.User != \"\" && userObjectID != \"\" ⊢ sq.Eq{ \"user_object_id\": userObjectID, }",
       "filter.User != \"\" && userRelation != \"\" ⊢ sq.Eq{ \"user_relation\": userRelation, }",
       "len(filter.Conditions) > 0 ⊢ sq.Eq{\"COALESCE(condition_name, '')\": filter.Conditions}",
       "options != nil && options.Pagination.From != \"\" ⊢ sq.GtOrEq{\"ulid\": token}"] ∧
    Gen.StoreRead.sqlReadUserTupleWheres =
      [" ⊢ sq.Eq{ \"store\": store, \"object_type\": objectType, \"object_id\": objectID, \"relation\": filter.Relation, \"user_object_type\": userObjectType, \"user_object_id\": userObjectID, \"user_relation\": userRelation, \"user_type\": userType, }",
       "len(filter.Conditions) > 0 ⊢ sq.Eq{\"COALESCE(condition_name, '')\": filter.Conditions}"] ∧
    Gen.StoreRead.sqlRutWheres =
      [" ⊢ sq.Eq{\"store\": store}", " ⊢ sq.Eq{\"user_type\": tupleUtils.UserSet}",
       "objectType != \"\" ⊢ sq.Eq{\"object_type\": objectType}", "objectID != \"\" ⊢ sq.Eq{\"object_id\": objectID}",
       "filter.Relation != \"\" ⊢ sq.Eq{\"relation\": filter.Relation}",
       "len(filter.AllowedUserTypeRestrictions) > 0 ⊢ orConditions",
       "len(filter.Conditions) > 0 ⊢ sq.Eq{\"COALESCE(condition_name, '')\": filter.Conditions}"] ∧
    Gen.StoreRead.sqlRutRestrLoop =
      "{ if _, ok := userset.GetRelationOrWildcard().(*openfgav1.RelationReference_Relation); ok { orConditions = append(orConditions, sq.Eq{ \"user_object_type\": userset.GetType(), \"user_relation\": userset.GetRelation(), }) } if _, ok := userset.GetRelationOrWildcard().(*openfgav1.RelationReference_Wildcard); ok { orConditions = append(orConditions, sq.Eq{ \"user_object_type\": userset.GetType(), \"user_object_id\": \"*\", }) } }" ∧
    Gen.StoreRead.sqlRswuOrderBy = "object_id" := by
  exact ⟨rfl, rfl, rfl, rfl, rfl⟩

/-- The clauses of sqlite.ReadStartingWithUser other than the ObjectIDs one (which is a switch), and the loop that
builds `targetUsersArg`. -/
theorem tie_sql_rswu_wheres :
    Gen.StoreRead.sqlRswuWheresOther =
      [" ⊢ sq.Eq{ \"store\": store, \"object_type\": filter.ObjectType, \"relation\": filter.Relation, }",
       " ⊢ targetUsersArg",
       "len(filter.Conditions) > 0 ⊢ sq.Eq{\"COALESCE(condition_name, '')\": filter.Conditions}"] := by
  rfl

/-! ## Read -/

def FullMemRead (sh : MemShape) : Prop := ∀ s f, memRead sh s f = specRead s f

/-- `read` is the documented filter unless the empty-key shortcut skips a non-empty `Conditions` list. -/
theorem mem_read_partial (sh : MemShape) (s : List TupleRec) (f : ReadFilter)
    (h : sh.readShortcutSkipsConds = false ∨ f.conditions = [] ∨ ¬ (f.object = "" ∧ f.relation = "" ∧ f.user = "")) :
    memRead sh s f = specRead s f := mem_read_eq_spec sh s f h

theorem mem_read_fixed : FullMemRead MemShape.fixed := fun s f => mem_read_eq_spec _ s f (Or.inl rfl)

def wStore : List TupleRec :=
  [ ⟨"doc", "1", "viewer", "group:eng#member", "", none⟩,
    ⟨"doc", "1", "viewer", "group:fga#member", "c1", some [1]⟩,
    ⟨"doc", "1", "viewer", "group:*", "", none⟩,
    ⟨"doc", "1", "viewer", "group:eng", "", none⟩,
    ⟨"doc", "2", "viewer", "user:jon", "c1", none⟩,
    ⟨"doc", "1", "viewer", "user:jon", "", none⟩ ]

/-- F4f: `Read` with an empty key and `Conditions = ["c1"]` returns every tuple. -/
theorem mem_read_counterexample (sh : MemShape) (h : sh.readShortcutSkipsConds = true) : ¬ FullMemRead sh := by
  intro hf
  have := hf wStore { conditions := ["c1"] }
  rcases sh with ⟨a, b, c, d, e, g⟩
  simp only at h; subst h
  revert this
  cases b <;> cases c <;> cases d <;> cases e <;> cases g <;> decide

theorem mem_read_current (s : List TupleRec) (f : ReadFilter)
    (h : Gen.StoreRead.memReadShortcutSkipsConds = false ∨ f.conditions = [] ∨ ¬ (f.object = "" ∧ f.relation = "" ∧ f.user = "")) :
    memRead genMemShape s f = specRead s f := mem_read_eq_spec genMemShape s f h

/-- `ReadUserTuple` (memory) is "the first tuple matching the documented filter", unconditionally. -/
theorem mem_readUserTuple (s : List TupleRec) (f : ReadFilter) :
    memReadUserTuple s f = specReadUserTuple s f := mem_readUserTuple_eq_spec s f

/-! ## ReadUsersetTuples (finding F4) -/

def FullMemRUT (sh : MemShape) : Prop := ∀ s f, memReadUsersetTuples sh s f = specReadUsersetTuples s f

/-- **F4, partial**: the loop as written is the documented filter exactly when (a) no `Conditions` are given or the
test stands before the append, (b) no tuple matches two entries of the restriction list or the loop leaves after
the first match, (c) no reference without relation/wildcard is given or the test looks at the kind. -/
theorem mem_rut_partial (sh : MemShape) (s : List TupleRec) (f : UsersetFilter)
    (hc : sh.rutCondFirst = true ∨ f.conditions = [])
    (hb : sh.rutBreakOnMatch = true ∨ ∀ t ∈ s, f.restrictions.countP (memRestrOk sh.rutPlainMatchesWildcard t) ≤ 1)
    (hp : sh.rutPlainMatchesWildcard = false ∨ ∀ x ∈ f.restrictions, x.kind ≠ .plain) :
    memReadUsersetTuples sh s f = specReadUsersetTuples s f := mem_rut_eq_spec sh s f hc hb hp

/-- the full statement holds for the repaired loop -/
theorem mem_rut_fixed : FullMemRUT MemShape.fixed :=
  fun s f => mem_rut_eq_spec _ s f (Or.inl rfl) (Or.inl rfl) (Or.inl rfl)

/-- …and for every shape with the three switches on the documented side -/
theorem mem_rut_full_of_shape (sh : MemShape) (h1 : sh.rutCondFirst = true) (h2 : sh.rutBreakOnMatch = true)
    (h3 : sh.rutPlainMatchesWildcard = false) : FullMemRUT sh :=
  fun s f => mem_rut_eq_spec _ s f (Or.inl h1) (Or.inl h2) (Or.inl h3)

def fRutCond : UsersetFilter :=
  { object := "doc:1", relation := "viewer", restrictions := [⟨"group", .relation "member"⟩], conditions := ["c1"] }
def fRutCondNoRestr : UsersetFilter := { object := "doc:1", relation := "viewer", conditions := [""] }
def fRutDup : UsersetFilter :=
  { object := "doc:1", relation := "viewer", restrictions := [⟨"group", .relation "member"⟩, ⟨"group", .relation "member"⟩] }
def fRutPlain : UsersetFilter := { object := "doc:1", relation := "viewer", restrictions := [⟨"group", .plain⟩] }

/-- **F4a, negation witness**: with the `Conditions` test after the append, `Conditions = ["c1"]` still returns the
unconditioned `group:eng#member` tuple (and `Conditions = [""]` without restrictions returns the conditioned one). -/
theorem mem_rut_counterexample_conditions (sh : MemShape) (h : sh.rutCondFirst = false) : ¬ FullMemRUT sh := by
  intro hf
  have := hf wStore fRutCondNoRestr
  rcases sh with ⟨a, b, c, d, e, g⟩
  simp only at h; subst h
  revert this
  cases a <;> cases c <;> cases d <;> cases e <;> cases g <;> decide

theorem mem_rut_beforeFix_conditions_with_restriction :
    memReadUsersetTuples MemShape.beforeFix wStore fRutCond ≠ specReadUsersetTuples wStore fRutCond := by decide

/-- **F4b, negation witness**: a restriction listed twice returns every matching tuple twice. -/
theorem mem_rut_counterexample_duplicates (sh : MemShape) (h : sh.rutBreakOnMatch = false) : ¬ FullMemRUT sh := by
  intro hf
  have := hf wStore fRutDup
  rcases sh with ⟨a, b, c, d, e, g⟩
  simp only at h; subst h
  revert this
  cases a <;> cases b <;> cases d <;> cases e <;> cases g <;> decide

/-- F4g, negation witness: a reference with neither relation nor wildcard selects `group:*`. -/
theorem mem_rut_counterexample_plain (sh : MemShape) (h : sh.rutPlainMatchesWildcard = true) : ¬ FullMemRUT sh := by
  intro hf
  have := hf wStore fRutPlain
  rcases sh with ⟨a, b, c, d, e, g⟩
  simp only at h; subst h
  revert this
  cases a <;> cases b <;> cases c <;> cases e <;> cases g <;> decide

theorem mem_rut_beforeFix_counterexample : ¬ FullMemRUT MemShape.beforeFix :=
  mem_rut_counterexample_conditions _ rfl

/-- the statement for the shape the source has today: every hypothesis whose switch is on the documented side is
discharged by `Or.inl`; after the repair the three `Or.inr` alternatives are never needed. -/
theorem mem_rut_current (s : List TupleRec) (f : UsersetFilter)
    (hc : Gen.StoreRead.rutCondFirst = true ∨ f.conditions = [])
    (hb : Gen.StoreRead.rutBreakOnMatch = true ∨
      ∀ t ∈ s, f.restrictions.countP (memRestrOk Gen.StoreRead.rutPlainMatchesWildcard t) ≤ 1)
    (hp : Gen.StoreRead.rutPlainMatchesWildcard = false ∨ ∀ x ∈ f.restrictions, x.kind ≠ .plain) :
    memReadUsersetTuples genMemShape s f = specReadUsersetTuples s f := mem_rut_eq_spec genMemShape s f hc hb hp

/-- **Tie (since commit 5575d87)**: in today's memory.ReadUsersetTuples the `Conditions` test stands before every
append and the restriction loop leaves after the first match.  A regression of either breaks this lemma. -/
theorem tie_rut_repaired :
    Gen.StoreRead.rutCondFirst = true ∧ Gen.StoreRead.rutBreakOnMatch = true := by decide

/-- everything the callers can pass: references with a relation or a wildcard (`typesystem` never produces others) -/
def NoPlainRef (f : UsersetFilter) : Prop := ∀ x ∈ f.restrictions, x.kind ≠ .plain

/-- **F4a/F4b closed — the full statement for today's source**: for ALL stores and ALL filters (any `Conditions`
list, incl. `""`; any restriction list, incl. duplicates and wildcards) memory.ReadUsersetTuples returns exactly the
documented selection, each tuple once.  (Before 5575d87 this was false: `mem_rut_counterexample_conditions`,
`mem_rut_counterexample_duplicates`.)  The remaining hypothesis is F4g, outside what callers pass. -/
theorem mem_rut_full (s : List TupleRec) (f : UsersetFilter)
    (hp : Gen.StoreRead.rutPlainMatchesWildcard = false ∨ NoPlainRef f) :
    memReadUsersetTuples genMemShape s f = specReadUsersetTuples s f :=
  mem_rut_eq_spec genMemShape s f (Or.inl tie_rut_repaired.1) (Or.inl tie_rut_repaired.2) hp

/-- …and therefore both backends return the same list for every such call (given column consistency). -/
theorem backends_agree_rut_full (s : List TupleRec) (f : UsersetFilter) (hs : ColsOK s) (ho : ObjFilterWF f.object)
    (hp : Gen.StoreRead.rutPlainMatchesWildcard = false ∨ NoPlainRef f) :
    memReadUsersetTuples genMemShape s f = sqlReadUsersetTuples s f := by
  rw [mem_rut_full s f hp, sql_rut_eq_spec s f hs ho]

/-! ## ReadStartingWithUser -/

/-- as multisets, sorted by object id -/
def FullMemRSWU (sh : MemShape) : Prop :=
  ∀ s f, (memReadStartingWithUser sh s f).Perm (specReadStartingWithUser s f) ∧ SortedById (memReadStartingWithUser sh s f)

theorem mem_rswu_partial (sh : MemShape) (s : List TupleRec) (f : RswuFilter)
    (hb : sh.rswuBreakOnMatch = true ∨ ∀ t ∈ s, f.userFilter.countP (targetIs t) ≤ 1)
    (he : sh.rswuEmptyIdsMeansAll = false ∨ f.objectIDs ≠ some []) :
    (memReadStartingWithUser sh s f).Perm (specReadStartingWithUser s f) ∧ SortedById (memReadStartingWithUser sh s f) := by
  unfold memReadStartingWithUser
  rw [mem_rswu_matches_eq_spec sh s f hb he]
  exact ⟨sortById_perm _, sortById_sorted _⟩

theorem mem_rswu_fixed : FullMemRSWU MemShape.fixed :=
  fun s f => mem_rswu_partial _ s f (Or.inl rfl) (Or.inl rfl)

def fRswuDup : RswuFilter := { objectType := "doc", relation := "viewer", userFilter := [⟨"user:jon", ""⟩, ⟨"user:jon", ""⟩] }
def fRswuEmptyIds : RswuFilter := { objectType := "doc", relation := "viewer", userFilter := [⟨"user:jon", ""⟩], objectIDs := some [] }
def fRswuNoRel : RswuFilter := { objectType := "doc", relation := "viewer", userFilter := [⟨"group:eng", ""⟩] }

/-- F4d, negation witness: a user listed twice in `UserFilter` returns its tuples twice. -/
theorem mem_rswu_counterexample_duplicates (sh : MemShape) (h : sh.rswuBreakOnMatch = false) : ¬ FullMemRSWU sh := by
  intro hf
  have := (hf wStore fRswuDup).1.length_eq
  rcases sh with ⟨a, b, c, d, e, g⟩
  simp only at h; subst h
  revert this
  cases a <;> cases b <;> cases c <;> cases d <;> cases g <;> decide

theorem mem_rswu_current (s : List TupleRec) (f : RswuFilter)
    (hb : Gen.StoreRead.rswuBreakOnMatch = true ∨ ∀ t ∈ s, f.userFilter.countP (targetIs t) ≤ 1)
    (he : Gen.StoreRead.rswuEmptyIdsMeansAll = false ∨ f.objectIDs ≠ some []) :
    (memReadStartingWithUser genMemShape s f).Perm (specReadStartingWithUser s f) ∧
      SortedById (memReadStartingWithUser genMemShape s f) := mem_rswu_partial genMemShape s f hb he

/-! ## sqlite against the documented filters -/

def FullSqlRead (sh : SqlShape) : Prop :=
  ∀ s f, ColsOK s → PrefOK s (toUserParts f.user).typ → ObjFilterWF f.object → (f.user = "" ∨ UserFilterWF f.user) → sqlRead sh s f = specRead s f

/-- `sqlite.read`: documented filter, unless a user `type:id` without relation meets a stored userset `type:id#rel` (F4e). -/
theorem sql_read_partial (sh : SqlShape) (s : List TupleRec) (f : ReadFilter)
    (hs : ColsOK s) (hpf : PrefOK s (toUserParts f.user).typ) (ho : ObjFilterWF f.object)
    (hu : f.user = "" ∨ UserFilterWF f.user)
    (hE : sh.userNoRelPinsEmpty = true ∨ (toUserParts f.user).rel ≠ "" ∨ (toUserParts f.user).id = "" ∨
        ∀ t ∈ s, (toUserParts t.user).typ = (toUserParts f.user).typ → (toUserParts t.user).id = (toUserParts f.user).id →
          (toUserParts t.user).rel = "") :
    sqlRead sh s f = specRead s f := sql_read_eq_spec sh s f hs hpf ho hu hE

theorem sql_read_fixed : FullSqlRead SqlShape.fixed :=
  fun s f hs hpf ho hu => sql_read_eq_spec _ s f hs hpf ho hu (Or.inl rfl)

/-- F4e, negation witness (on the model of the WHERE clause): user `group:eng` also selects `group:eng#member`. -/
theorem sql_read_counterexample (sh : SqlShape) (h : sh.userNoRelPinsEmpty = false) :
    sqlRead sh wStore { object := "doc:1", user := "group:eng" } ≠ specRead wStore { object := "doc:1", user := "group:eng" } := by
  rcases sh with ⟨a, b, c⟩
  simp only at h; subst h
  cases b <;> cases c <;> decide

theorem sql_read_current (s : List TupleRec) (f : ReadFilter)
    (hs : ColsOK s) (hpf : PrefOK s (toUserParts f.user).typ) (ho : ObjFilterWF f.object)
    (hu : f.user = "" ∨ UserFilterWF f.user)
    (hE : Gen.StoreRead.sqlReadUserNoRelPinsEmpty = true ∨ (toUserParts f.user).rel ≠ "" ∨ (toUserParts f.user).id = "" ∨
        ∀ t ∈ s, (toUserParts t.user).typ = (toUserParts f.user).typ → (toUserParts t.user).id = (toUserParts f.user).id →
          (toUserParts t.user).rel = "") :
    sqlRead genSqlShape s f = specRead s f := sql_read_eq_spec genSqlShape s f hs hpf ho hu hE

/-- `sqlite.ReadUsersetTuples` is the documented filter (no switch: full strength, given column consistency). -/
theorem sql_rut (s : List TupleRec) (f : UsersetFilter) (hs : ColsOK s) (ho : ObjFilterWF f.object) :
    sqlReadUsersetTuples s f = specReadUsersetTuples s f := sql_rut_eq_spec s f hs ho

theorem sql_rswu_partial (sh : SqlShape) (s : List TupleRec) (f : RswuFilter) (hs : ColsOK s)
    (hu : ∀ u ∈ f.userFilter, TargetWF u)
    (hE : sh.rswuUserNoRelPinsEmpty = true ∨ ∀ u ∈ f.userFilter, u.relation ≠ "" ∨
        ∀ t ∈ s, (toUserParts t.user).typ = (splitObject u.object).1 → (toUserParts t.user).id = (splitObject u.object).2 →
          (toUserParts t.user).rel = "")
    (he : sh.rswuEmptyIdsMeansAll = false ∨ f.objectIDs ≠ some []) :
    (sqlReadStartingWithUser sh s f).Perm (specReadStartingWithUser s f) ∧ SortedById (sqlReadStartingWithUser sh s f) := by
  unfold sqlReadStartingWithUser
  rw [sql_rswu_matches_eq_spec sh s f hs hu hE he]
  exact ⟨sortById_perm _, sortById_sorted _⟩

/-- F4c, negation witness: an empty non-nil `ObjectIDs` set — the documented intersection is empty, the sqlite WHERE
clause drops the `IN` and returns every match (the memory loop returns nothing). -/
theorem sql_rswu_counterexample_empty_ids (sh : SqlShape) (h : sh.rswuEmptyIdsMeansAll = true) :
    (sqlReadStartingWithUser sh wStore fRswuEmptyIds).length ≠ (specReadStartingWithUser wStore fRswuEmptyIds).length := by
  rcases sh with ⟨a, b, c⟩
  simp only at h; subst h
  cases a <;> cases b <;> decide

theorem mem_rswu_empty_ids_is_documented :
    memReadStartingWithUser MemShape.beforeFix wStore fRswuEmptyIds = specReadStartingWithUser wStore fRswuEmptyIds := by decide

/-- F4e on ReadStartingWithUser -/
theorem sql_rswu_counterexample_norel (sh : SqlShape) (h : sh.rswuUserNoRelPinsEmpty = false) :
    (sqlReadStartingWithUser sh wStore fRswuNoRel).length ≠ (specReadStartingWithUser wStore fRswuNoRel).length := by
  rcases sh with ⟨a, b, c⟩
  simp only at h; subst h
  cases a <;> cases c <;> decide

theorem sql_rswu_current (s : List TupleRec) (f : RswuFilter) (hs : ColsOK s)
    (hu : ∀ u ∈ f.userFilter, TargetWF u)
    (hE : Gen.StoreRead.sqlRswuUserNoRelPinsEmpty = true ∨ ∀ u ∈ f.userFilter, u.relation ≠ "" ∨
        ∀ t ∈ s, (toUserParts t.user).typ = (splitObject u.object).1 → (toUserParts t.user).id = (splitObject u.object).2 →
          (toUserParts t.user).rel = "")
    (he : Gen.StoreRead.sqlRswuEmptyIdsMeansAll = false ∨ f.objectIDs ≠ some []) :
    (sqlReadStartingWithUser genSqlShape s f).Perm (specReadStartingWithUser s f) ∧
      SortedById (sqlReadStartingWithUser genSqlShape s f) := sql_rswu_partial genSqlShape s f hs hu hE he

/-! ## Backends agree (the statement of C13, assembled) -/

/-- ReadUsersetTuples: both backends return the same list whenever the memory hypotheses hold. -/
theorem backends_agree_rut (s : List TupleRec) (f : UsersetFilter) (hs : ColsOK s) (ho : ObjFilterWF f.object)
    (hc : Gen.StoreRead.rutCondFirst = true ∨ f.conditions = [])
    (hb : Gen.StoreRead.rutBreakOnMatch = true ∨
      ∀ t ∈ s, f.restrictions.countP (memRestrOk Gen.StoreRead.rutPlainMatchesWildcard t) ≤ 1)
    (hp : Gen.StoreRead.rutPlainMatchesWildcard = false ∨ ∀ x ∈ f.restrictions, x.kind ≠ .plain) :
    memReadUsersetTuples genMemShape s f = sqlReadUsersetTuples s f := by
  rw [mem_rut_current s f hc hb hp, sql_rut s f hs ho]

/-! ## The column-consistency hypotheses discharged for well-shaped user strings -/

/-- every stored user string is `type:id` or `type:id#rel` with separator-free parts (incl. `type:*`) -/
def WellShaped (s : List TupleRec) : Prop := ∀ t ∈ s, Nonempty (UserShape t.user)

/-- sqlite.ReadUsersetTuples = documented filter, for every store of well-shaped users and every filter whose object is
`""`, `type:` or `type:id` — no `ColsOK` assumption left (`Proofs/UserStr.lean`). -/
theorem sql_rut_shapes (s : List TupleRec) (f : UsersetFilter) (hs : WellShaped s) (ho : ObjFilterWF f.object) :
    sqlReadUsersetTuples s f = specReadUsersetTuples s f := sql_rut_eq_spec s f (colsOK_of_shapes s hs) ho

/-- **memory = sqlite for ReadUsersetTuples**, today's source, all well-shaped stores, all filters the callers can pass -/
theorem backends_agree_rut_shapes (s : List TupleRec) (f : UsersetFilter) (hs : WellShaped s) (ho : ObjFilterWF f.object)
    (hp : Gen.StoreRead.rutPlainMatchesWildcard = false ∨ NoPlainRef f) :
    memReadUsersetTuples genMemShape s f = sqlReadUsersetTuples s f :=
  backends_agree_rut_full s f (colsOK_of_shapes s hs) ho hp

/-- sqlite.read = documented filter for well-shaped stores and filters, up to F4e -/
theorem sql_read_shapes (s : List TupleRec) (f : ReadFilter) (hs : WellShaped s) (ho : ObjFilterWF f.object)
    (hu : f.user = "" ∨ ∃ sh : UserShape f.user, (sh.id = [] → sh.rel = []))
    (hE : Gen.StoreRead.sqlReadUserNoRelPinsEmpty = true ∨ (toUserParts f.user).rel ≠ "" ∨ (toUserParts f.user).id = "" ∨
        ∀ t ∈ s, (toUserParts t.user).typ = (toUserParts f.user).typ → (toUserParts t.user).id = (toUserParts f.user).id →
          (toUserParts t.user).rel = "") :
    sqlRead genSqlShape s f = specRead s f :=
  sql_read_eq_spec genSqlShape s f (colsOK_of_shapes s hs) (prefOK_of_shapes s hs _) ho
    (hu.imp id (fun ⟨sh, h⟩ => userFilterWF_of_shape _ sh h)) hE

/-- sqlite.ReadStartingWithUser for well-shaped stores (filter entries: `TargetWF`, provable by `targetWF_of_parts`) -/
theorem sql_rswu_shapes (s : List TupleRec) (f : RswuFilter) (hs : WellShaped s)
    (hu : ∀ u ∈ f.userFilter, TargetWF u)
    (hE : Gen.StoreRead.sqlRswuUserNoRelPinsEmpty = true ∨ ∀ u ∈ f.userFilter, u.relation ≠ "" ∨
        ∀ t ∈ s, (toUserParts t.user).typ = (splitObject u.object).1 → (toUserParts t.user).id = (splitObject u.object).2 →
          (toUserParts t.user).rel = "")
    (he : Gen.StoreRead.sqlRswuEmptyIdsMeansAll = false ∨ f.objectIDs ≠ some []) :
    (sqlReadStartingWithUser genSqlShape s f).Perm (specReadStartingWithUser s f) ∧
      SortedById (sqlReadStartingWithUser genSqlShape s f) :=
  sql_rswu_partial genSqlShape s f (colsOK_of_shapes s hs) hu hE he

example : WellShaped wStore := by
  intro t ht
  simp only [wStore, List.mem_cons, List.not_mem_nil, or_false] at ht
  rcases ht with rfl | rfl | rfl | rfl | rfl | rfl
  · exact ⟨shapeOf _ "group" "eng" "member"⟩
  · exact ⟨shapeOf _ "group" "fga" "member"⟩
  · exact ⟨shapeOf _ "group" "*" ""⟩
  · exact ⟨shapeOf _ "group" "eng" ""⟩
  · exact ⟨shapeOf _ "user" "jon" ""⟩
  · exact ⟨shapeOf _ "user" "jon" ""⟩

/-! ## Conditions and contexts round-trip -/

/-- what the caller reads back from the memory backend for a written `(name, ctx)` -/
def memReadBack (name : String) (ctx : Option Bytes) : Option (String × Bytes) := asCondition name ctx
/-- …and from sqlite (empty contexts are stored as NULL) -/
def sqlReadBack (name : String) (ctx : Option Bytes) : Option (String × Bytes) := asCondition name (sqlStoreCtx ctx)

/-- a named condition comes back with its name and its context (nil ≡ empty struct), on both backends -/
theorem cond_roundtrip (name : String) (ctx : Option Bytes) (h : name ≠ "") :
    memReadBack name ctx = some (name, ctx.getD []) ∧ sqlReadBack name ctx = some (name, ctx.getD []) := by
  unfold memReadBack sqlReadBack asCondition sqlStoreCtx
  refine ⟨by simp [h], ?_⟩
  cases ctx with
  | none => simp [h]
  | some b => cases b <;> simp [h]

/-- an unnamed condition is no condition: the context is dropped, on both backends -/
theorem cond_roundtrip_unnamed (ctx : Option Bytes) : memReadBack "" ctx = none ∧ sqlReadBack "" ctx = none := by
  simp [memReadBack, sqlReadBack, asCondition]

theorem cond_backends_agree (name : String) (ctx : Option Bytes) : memReadBack name ctx = sqlReadBack name ctx := by
  by_cases h : name = ""
  · subst h; simp [memReadBack, sqlReadBack, asCondition]
  · rw [(cond_roundtrip name ctx h).1, (cond_roundtrip name ctx h).2]

/-! ## Non-vacuity -/

/-- the column-consistency hypotheses are met by a store with objects, usersets, wildcards and conditions -/
example : ColsOK wStore := ⟨by decide, by decide, by decide⟩
example : PrefOK wStore "group" := by unfold PrefOK; decide
example : PrefOK wStore (toUserParts "user:").typ := by unfold PrefOK; decide

example : UserFilterWF "group:eng#member" := ⟨by decide, by decide, by decide⟩
example : UserFilterWF "group:" := ⟨by decide, by decide, by decide⟩
example : TargetWF ⟨"group:eng", "member"⟩ := ⟨by decide, by decide⟩

/-- the partial theorem applies to a non-trivial call: one restriction, no conditions, tuples selected and rejected -/
example : memReadUsersetTuples MemShape.beforeFix wStore { object := "doc:1", relation := "viewer", restrictions := [⟨"group", .relation "member"⟩] }
    = [⟨"doc", "1", "viewer", "group:eng#member", "", none⟩, ⟨"doc", "1", "viewer", "group:fga#member", "c1", some [1]⟩] := by decide

end OpenFGAVerif.C13
