/-
C14 — Paginated reads return every item exactly once.

Model: `Model.Paging` (offset tokens of the memory backend, key tokens with look-ahead row of the SQL backends,
ReadChanges' "strictly after the last returned key", the token handling of the four commands); serializer and
base64: `Model.Token` (C28).  Proofs: `Proofs/Paging.lean`.

Main theorems (all for EVERY item list and EVERY page size ≥ 1):
  paging_offset, paging_offset_clamp   following offset tokens until the empty token concatenates to the item list
  paging_ulid / paging_ulid_desc       the same for `key >= token` + LIMIT ps+1 (asc) and `key <= token` (desc, models)
  paging_changes                       ReadChanges: `key > token`, token = last returned, until the empty page
  (list equality = every item once, in the order of the list: commit order / newest first / by id)
  hypothesis of the key-token theorems: keys strictly increasing along the list (ULID monotonicity — trusted,
  checked on every generated history by the harness/driver).
  changes_token_type_bound             a ReadChanges token issued for type T is accepted with T' iff T = T'
  malformed_token_rejected             an accepted token is literally `position|type` (nothing else is read as a position)
  liststores_sorted_after_filter       memory ListStores (`Model.ListStoresMem`: collect in map order → IDs filter in caller
  liststores_paging                    order → name filter → stable sort by id → clamp/cut): the paged list is the matching
                                       stores in id order for EVERY map order and EVERY order of the (duplicate-free) id
                                       list, also when both change between two page requests; the statement order is pinned
                                       by tie_memStoresOrder / tie_memStores_sort_after_filters; the other order (sort
                                       first) follows the caller's order: liststores_sort_before_filter_witness.
  paging_changes_needs_sorted_log      the StrictSorted hypothesis of paging_changes is needed (an unsorted log loses an
                                       entry); for the memory backend it rests on tie_memWrite_stamps_under_lock (the
                                       extractor fact of C15: `now`/entropy are taken after mutexTuples.Lock()) and on
                                       C15.changelog_in_ulid_order_mem.
  offset_tokens_not_misread           memory `read` answers an offset token with the window at that offset or rejects
                                       it (`FullOffsetTokensNotMisread`, full since commit badbaa3 = finding F22 fixed;
                                       the pre-fix tail `memReadPageBeforeFix` keeps its negation witnesses).
-/
import OpenFGAVerif.Model.Paging
import OpenFGAVerif.Model.Token
import OpenFGAVerif.Proofs.Paging
import OpenFGAVerif.Props.C28
import OpenFGAVerif.Gen.Paging
import OpenFGAVerif.Model.ListStoresMem
import OpenFGAVerif.Proofs.ListStoresMem
import OpenFGAVerif.Gen.Token
import OpenFGAVerif.Gen.StoreChanges

namespace OpenFGAVerif.C14
open OpenFGAVerif.Model.Paging OpenFGAVerif.Proofs.Paging
open OpenFGAVerif.Model.ListStoresMem
open OpenFGAVerif.Model.Token (serialize deserialize b64encode b64decode)

/-! ## Ties: the paging code the model mirrors, fragment by fragment -/

theorem tie_memReadTail : Gen.Paging.memReadTail =
    ["var err error", "var from int", "if options != nil && options.Pagination.From != \"\" { from, err = strconv.Atoi(options.Pagination.From) if err != nil { telemetry.TraceError(span, err) return nil, storage.ErrInvalidContinuationToken } }", "if from < 0 || from > len(matches) { return nil, storage.ErrInvalidContinuationToken }", "matches = matches[from:]", "to := 0", "if options != nil { to = options.Pagination.PageSize }", "if to != 0 && to < len(matches) { return &staticIterator{records: matches[:to], continuationToken: strconv.Itoa(from + to)}, nil }", "return &staticIterator{records: matches}, nil"] := by
  rfl

theorem tie_memModelsPaging : Gen.Paging.memModelsPaging =
    ["sort.Slice(models, func(i, j int) bool { return models[i].GetId() > models[j].GetId() })", "var from int", "continuationToken := \"\"", "pageSize := storage.DefaultPageSize", "if options.Pagination.PageSize > 0 { pageSize = options.Pagination.PageSize }", "if options.Pagination.From != \"\" { from, err = strconv.Atoi(options.Pagination.From) if err != nil { return nil, \"\", storage.ErrInvalidContinuationToken } }", "from = max(0, min(from, len(models)))", "to := min(len(models), from+pageSize)", "res := models[from:to]", "if to != len(models) { continuationToken = strconv.Itoa(to) }", "return res, continuationToken, nil"] := by
  rfl

theorem tie_memStoresPaging : Gen.Paging.memStoresPaging =
    ["stores := make([]*openfgav1.Store, 0, len(s.stores))", "sort.SliceStable(stores, func(i, j int) bool { return stores[i].GetId() < stores[j].GetId() })", "var from int", "if options.Pagination.From != \"\" { from, err = strconv.Atoi(options.Pagination.From) if err != nil { return nil, \"\", storage.ErrInvalidContinuationToken } }", "pageSize := storage.DefaultPageSize", "if options.Pagination.PageSize > 0 { pageSize = options.Pagination.PageSize }", "from = max(0, min(len(stores), from))", "to := min(len(stores), from+pageSize)", "res := stores[from:to]", "continuationToken := \"\"", "if to != len(stores) { continuationToken = strconv.Itoa(to) }", "return res, continuationToken, nil"] := by
  rfl

theorem tie_memChangesFromCmp : Gen.Paging.memChangesFromCmp =
    "{ if !options.SortDesc && changeRec.Ulid.Compare(*from) <= 0 { continue } else if options.SortDesc && changeRec.Ulid.Compare(*from) >= 0 { continue } }" := by
  rfl

theorem tie_memChangesTail : Gen.Paging.memChangesTail =
    ["if len(allChanges) == 0 { return nil, \"\", storage.ErrNotFound }", "pageSize := storage.DefaultPageSize", "if options.Pagination.PageSize > 0 { pageSize = options.Pagination.PageSize }", "if options.SortDesc { slices.Reverse(allChanges) }", "to := pageSize", "if len(allChanges) < to { to = len(allChanges) }", "if to == 0 { return nil, \"\", storage.ErrNotFound }", "res := make([]*openfgav1.TupleChange, 0, to)", "var last ulid.ULID", "for _, change := range allChanges[:to] { res = append(res, change.Change) last = change.Ulid }", "return res, last.String(), nil"] := by
  rfl

theorem tie_memChangesTokenParse : Gen.Paging.memChangesTokenParse =
    "{ parsed, err := ulid.Parse(options.Pagination.From) if err != nil { return nil, \"\", storage.ErrInvalidContinuationToken } from = &parsed }" := by
  rfl

theorem tie_sqlReadPaging : Gen.Paging.sqlReadPaging =
    [" ⊢ sb := s.stbl. Select( \"store\", \"object_type\", \"object_id\", \"relation\", \"user_object_type\", \"user_object_id\", \"user_relation\", \"condition_name\", \"condition_context\", \"ulid\", \"inserted_at\", ). From(\"tuple\"). Where(sq.Eq{\"store\": store})", "options != nil ⊢ sb = sb.OrderBy(\"ulid\")", "options != nil && options.Pagination.From != \"\" ⊢ sb = sb.Where(sq.GtOrEq{\"ulid\": token})", "options != nil && options.Pagination.PageSize != 0 ⊢ sb = sb.Limit(uint64(options.Pagination.PageSize + 1))"] := by
  rfl

theorem tie_sqlReadPageBody : Gen.Paging.sqlReadPageBody =
    [" ⊢ iter, err := s.read(ctx, store, filter, &options)", " ⊢ return iter.ToArray(ctx, options.Pagination)"] := by
  rfl

theorem tie_sqlStoresPaging : Gen.Paging.sqlStoresPaging =
    ["options.Pagination.From != \"\" ⊢ whereClause = append(whereClause, sq.GtOrEq{\"id\": options.Pagination.From})", " ⊢ sb := s.stbl. Select(\"id\", \"name\", \"created_at\", \"updated_at\"). From(\"store\"). Where(whereClause). OrderBy(\"id\")", "options.Pagination.PageSize > 0 ⊢ sb = sb.Limit(uint64(options.Pagination.PageSize + 1))", "len(stores) > options.Pagination.PageSize ⊢ return stores[:options.Pagination.PageSize], id, nil", " ⊢ return stores, \"\", nil"] := by
  rfl

theorem tie_sqlModelsPaging : Gen.Paging.sqlModelsPaging =
    [" ⊢ sb := s.stbl. Select(\"authorization_model_id\", \"schema_version\", \"serialized_protobuf\"). From(\"authorization_model\"). Where(sq.Eq{\"store\": store}). OrderBy(\"authorization_model_id desc\")", "options.Pagination.From != \"\" ⊢ sb = sb.Where(sq.LtOrEq{\"authorization_model_id\": options.Pagination.From})", "options.Pagination.PageSize > 0 ⊢ sb = sb.Limit(uint64(options.Pagination.PageSize + 1))", " ⊢ models := make([]*openfgav1.AuthorizationModel, 0, options.Pagination.PageSize)", "for rows.Next() && options.Pagination.PageSize > 0 && len(models) >= options.Pagination.PageSize ⊢ return models, modelID, nil", " ⊢ return models, token, nil"] := by
  rfl

theorem tie_sqlChangesPaging : Gen.Paging.sqlChangesPaging =
    [" ⊢ orderBy := \"ulid asc\"", "options.SortDesc ⊢ orderBy = \"ulid desc\"", " ⊢ sb := s.stbl. Select( \"ulid\", \"object_type\", \"object_id\", \"relation\", \"user_object_type\", \"user_object_id\", \"user_relation\", \"operation\", \"condition_name\", \"condition_context\", \"inserted_at\", ). From(\"changelog\"). Where(sq.Eq{\"store\": store}). Where(fmt.Sprintf(\"inserted_at <= datetime('subsec','-%f seconds')\", horizonOffset.Seconds())). OrderBy(orderBy)", "options.Pagination.From != \"\" ⊢ sb = sqlcommon.AddFromUlid(sb, options.Pagination.From, options.SortDesc)", "options.Pagination.PageSize > 0 ⊢ sb = sb.Limit(uint64(options.Pagination.PageSize))", "len(changes) == 0 ⊢ return nil, \"\", storage.ErrNotFound", " ⊢ return changes, ulid, nil"] := by
  rfl

theorem tie_sqlToArray : Gen.Paging.sqlToArray =
    "{ var res []*openfgav1.Tuple for i := 0; i < opts.PageSize; i++ { tupleRecord, err := t.next(ctx) if err != nil { if errors.Is(err, storage.ErrIteratorDone) { return res, \"\", nil } return nil, \"\", err } res = append(res, tupleRecord.AsTuple()) } tupleRecord, err := t.next(ctx) if err != nil { if errors.Is(err, storage.ErrIteratorDone) { return res, \"\", nil } return nil, \"\", err } return res, tupleRecord.Ulid, nil }" := by
  rfl

theorem tie_sqlAddFromUlid : Gen.Paging.sqlAddFromUlid =
    "{ if sortDescending { return sb.Where(sq.Lt{\"ulid\": fromUlid}) } return sb.Where(sq.Gt{\"ulid\": fromUlid}) }" := by
  rfl

theorem tie_cmdReadToken : Gen.Paging.cmdReadToken =
    ["decodedContToken, err := q.encoder.Decode(req.GetContinuationToken())", "if len(decodedContToken) > 0 { from, _, err := q.tokenSerializer.Deserialize(string(decodedContToken)) if err != nil { return nil, serverErrors.ErrInvalidContinuationToken } decodedContToken = []byte(from) }", "from, _, err := q.tokenSerializer.Deserialize(string(decodedContToken))", "opts := storage.ReadPageOptions{ Pagination: storage.NewPaginationOptions(req.GetPageSize().GetValue(), string(decodedContToken)), Consistency: storage.ConsistencyOptions{Preference: req.GetConsistency()}, }", "if len(contUlid) == 0 { return &openfgav1.ReadResponse{ Tuples: tuples, ContinuationToken: \"\", }, nil }", "contToken, err := q.tokenSerializer.Serialize(contUlid, \"\")", "encodedContToken, err := q.encoder.Encode(contToken)"] := by
  rfl

theorem tie_cmdReadChangesToken : Gen.Paging.cmdReadChangesToken =
    ["decodedContToken, err := q.encoder.Decode(req.GetContinuationToken())", "if token != \"\" { var objType string fromUlid, objType, err = q.tokenSerializer.Deserialize(token) if err != nil { return nil, serverErrors.ErrInvalidContinuationToken } if objType != req.GetType() { return nil, serverErrors.ErrMismatchObjectType } }", "fromUlid, objType, err = q.tokenSerializer.Deserialize(token)", "if objType != req.GetType() { return nil, serverErrors.ErrMismatchObjectType }", "opts := storage.ReadChangesOptions{ Pagination: storage.NewPaginationOptions( req.GetPageSize().GetValue(), fromUlid, ), }", "if errors.Is(err, storage.ErrNotFound) { return &openfgav1.ReadChangesResponse{ ContinuationToken: req.GetContinuationToken(), }, nil }", "if len(contUlid) == 0 { return &openfgav1.ReadChangesResponse{ Changes: changes, ContinuationToken: \"\", }, nil }", "contToken, err := q.tokenSerializer.Serialize(contUlid, req.GetType())", "encodedContToken, err := q.encoder.Encode(contToken)"] := by
  rfl

theorem tie_cmdListStoresToken : Gen.Paging.cmdListStoresToken =
    ["decodedContToken, err := q.encoder.Decode(req.GetContinuationToken())", "opts := storage.ListStoresOptions{ IDs: storeIDs, Name: req.GetName(), Pagination: storage.NewPaginationOptions(req.GetPageSize().GetValue(), string(decodedContToken)), }", "encodedToken, err := q.encoder.Encode([]byte(continuationToken))"] := by
  rfl

theorem tie_cmdReadModelsToken : Gen.Paging.cmdReadModelsToken =
    ["decodedContToken, err := q.encoder.Decode(req.GetContinuationToken())", "opts := storage.ReadAuthorizationModelsOptions{ Pagination: storage.NewPaginationOptions(req.GetPageSize().GetValue(), string(decodedContToken)), }", "encodedContToken, err := q.encoder.Encode([]byte(contToken))"] := by
  rfl

theorem tie_newPaginationOptions : Gen.Paging.newPaginationOptions =
    "{ pageSize := DefaultPageSize if ps > 0 { pageSize = int(ps) } return PaginationOptions{ PageSize: pageSize, From: contToken, } }" := by
  rfl


/-! ## Every item exactly once, in order, for every page size -/

/-- **memory ReadPage (offset tokens)**: pages followed from offset 0 until the empty token concatenate to the list. -/
theorem paging_offset {α : Type} (items : List α) (ps : Nat) (hps : 1 ≤ ps) :
    (followMemRead items ps (items.length + 1) 0).map List.flatten = some items :=
  Proofs.Paging.paging_offset items ps hps

/-- **memory ListStores / ReadAuthorizationModels (clamped offset tokens)** -/
theorem paging_offset_clamp {α : Type} (items : List α) (ps : Nat) (hps : 1 ≤ ps) :
    (followMemClamp items ps (items.length + 1) 0).map List.flatten = some items :=
  Proofs.Paging.paging_offset_clamp items ps hps

/-- **SQL ReadPage / ListStores (`key >= token`, look-ahead row)**, keys = ranks of the ULIDs / ids -/
theorem paging_ulid {α : Type} (key : α → Nat) (items : List α)
    (hs : StrictSorted key (fun a b => decide (a < b)) items) (ps : Nat) (hps : 1 ≤ ps) :
    (followSql key (fun a b => decide (a < b)) items ps (items.length + 1) none).map List.flatten = some items :=
  Proofs.Paging.paging_ulid key _ (by simp) items hs ps hps

/-- **SQL ReadAuthorizationModels (`id <= token`, ORDER BY id DESC)**: the same pager with the reversed order -/
theorem paging_ulid_desc {α : Type} (key : α → Nat) (items : List α)
    (hs : StrictSorted key (fun a b => decide (b < a)) items) (ps : Nat) (hps : 1 ≤ ps) :
    (followSql key (fun a b => decide (b < a)) items ps (items.length + 1) none).map List.flatten = some items :=
  Proofs.Paging.paging_ulid key _ (by simp) items hs ps hps

/-- the key-token theorem for any key type with an irreflexive `lt` (strings compared bytewise, …) -/
theorem paging_ulid_generic {α K : Type} (key : α → K) (lt : K → K → Bool) (hirr : ∀ k, lt k k = false)
    (items : List α) (hs : StrictSorted key lt items) (ps : Nat) (hps : 1 ≤ ps) :
    (followSql key lt items ps (items.length + 1) none).map List.flatten = some items :=
  Proofs.Paging.paging_ulid key lt hirr items hs ps hps

/-- **ReadChanges (both backends)**: `key > token`, token = last returned; the client stops at the empty page -/
theorem paging_changes {α : Type} (key : α → Nat) (items : List α)
    (hs : StrictSorted key (fun a b => decide (a < b)) items) (ps : Nat) (hps : 1 ≤ ps) :
    (followChanges key (fun a b => decide (a < b)) items ps (items.length + 1) none).map List.flatten = some items :=
  Proofs.Paging.paging_changes key _ (by simp) items hs ps hps

/-- "exactly once": the concatenation of the pages has every item with the multiplicity it has in the list -/
theorem pages_count {α : Type} [BEq α] (pages : List (List α)) (items : List α) (h : pages.flatten = items) (x : α) :
    pages.flatten.count x = items.count x := by rw [h]

/-! ## Tokens at the command layer -/

/-- `ReadChangesQuery.Execute` on the raw request token: base64 decode, then the serializer. -/
def readChangesRequest (tok : Bytes) (reqType : Bytes) : Except TokErr (Option Bytes) :=
  match b64decode tok with
  | none => .error .invalidToken
  | some d => readChangesToken (deserialize Gen.Token.deserializeSep) d reqType

/-- what the command hands out after a page ending at `ulid` for a request with type filter `T` -/
def issueChangesToken (ulid T : Bytes) : Option Bytes :=
  (serialize Gen.Token.serializeSep ulid T).map b64encode

theorem serialize_ne_nil (sep ulid T tok : Bytes) (hne : ulid ≠ []) (h : serialize sep ulid T = some tok) : tok ≠ [] := by
  unfold serialize at h
  simp [hne] at h
  subst h
  simp [hne]

/-- **A ReadChanges token is accepted only with the type filter it was issued for.** -/
theorem changes_token_type_bound (ulid T T' tok : Bytes) (hne : ulid ≠ []) (hsep : (124 : UInt8) ∉ ulid)
    (hiss : issueChangesToken ulid T = some tok) :
    readChangesRequest tok T' = if T = T' then .ok (some ulid) else .error .mismatchType := by
  unfold issueChangesToken at hiss
  cases hser : serialize Gen.Token.serializeSep ulid T with
  | none => simp [hser] at hiss
  | some raw =>
    simp [hser] at hiss
    subst hiss
    have hrt := C28.serializer_roundtrip ulid T hne hsep
    simp [hser] at hrt
    have hraw := serialize_ne_nil _ _ _ _ hne hser
    unfold readChangesRequest readChangesToken
    rw [C28.b64_roundtrip]
    simp only [hraw, if_false, hrt]
    by_cases h : T = T'
    · simp [h]
    · simp [h]

/-- the same statement for any serializer whose `Deserialize ∘ Serialize = id` (the JSON serializer of the SQL
backends: hypothesis, validated by the correspondence) -/
theorem changes_token_type_bound_generic (ser : Bytes → Bytes → Option Bytes) (des : Bytes → Option (Bytes × Bytes))
    (ulid T T' raw : Bytes) (_hser : ser ulid T = some raw) (hrt : des raw = some (ulid, T)) (hraw : raw ≠ []) :
    readChangesToken des raw T' = if T = T' then .ok (some ulid) else .error .mismatchType := by
  unfold readChangesToken
  simp only [hraw, if_false, hrt]
  by_cases h : T = T'
  · simp [h]
  · simp [h]

/-- **Malformed tokens are rejected rather than misread** (serializer level): whatever ReadChanges accepts as a
position is literally spelled `position|type` in the decoded token, with the requested type. -/
theorem malformed_token_rejected (d ulid T : Bytes)
    (h : readChangesToken (deserialize Gen.Token.deserializeSep) d T = .ok (some ulid)) :
    d = ulid ++ Gen.Token.deserializeSep ++ T ∧ ulid ≠ [] ∧ (124 : UInt8) ∉ ulid := by
  unfold readChangesToken at h
  by_cases hd : d = []
  · simp [hd] at h
  · simp only [hd, if_false] at h
    cases hdes : deserialize Gen.Token.deserializeSep d with
    | none => simp [hdes] at h
    | some p =>
      obtain ⟨u, t⟩ := p
      simp only [hdes] at h
      by_cases ht : t = T
      · subst ht
        simp at h
        subst h
        exact C28.deserialize_sound d u t hdes
      · simp [ht] at h

/-- the same for Read (the type part is ignored there) -/
theorem malformed_read_token_rejected (d frm : Bytes)
    (h : readToken (deserialize Gen.Token.deserializeSep) d = .ok (some frm)) :
    ∃ t, d = frm ++ Gen.Token.deserializeSep ++ t ∧ frm ≠ [] := by
  unfold readToken at h
  by_cases hd : d = []
  · simp [hd] at h
  · simp only [hd, if_false] at h
    cases hdes : deserialize Gen.Token.deserializeSep d with
    | none => simp [hdes] at h
    | some p =>
      obtain ⟨u, t⟩ := p
      simp only [hdes] at h
      simp at h
      subst h
      exact ⟨t, (C28.deserialize_sound d u t hdes).1, (C28.deserialize_sound d u t hdes).2.1⟩

/-- garbage that is not base64 is an invalid token -/
theorem undecodable_token_rejected (tok T : Bytes) (h : b64decode tok = none) :
    readChangesRequest tok T = .error .invalidToken := by
  simp [readChangesRequest, h]

/-! ## Offset tokens of memory `read`: never misread (finding F22, fixed by commit badbaa3) -/

/-- the answer to offset token `n`: no panic; either rejected or a window of the list starting at `n` -/
def NotMisreadBy {α : Type} (pager : List α → Nat → Int → OffRes α) (items : List α) (ps : Nat) (n : Int) : Prop :=
  match pager items ps n with
  | .panic => False
  | .invalidToken => True
  | .page xs _ => 0 ≤ n ∧ xs <+: items.drop n.toNat

def FullOffsetTokensNotMisread : Prop := ∀ (items : List Nat) (ps : Nat) (n : Int), NotMisreadBy memReadPage items ps n

/-- **Full statement, today's source**: every offset token is rejected or read as exactly its offset. -/
theorem offset_tokens_not_misread {α : Type} (items : List α) (ps : Nat) (n : Int) : NotMisreadBy memReadPage items ps n := by
  unfold NotMisreadBy memReadPage
  by_cases h : n < 0 ∨ n > (items.length : Int)
  · simp [h]
  · have h0 : 0 ≤ n := by omega
    simp only [h, if_false]
    by_cases hc : ps ≠ 0 ∧ ps < (items.drop n.toNat).length
    · rw [if_pos hc]; exact ⟨h0, List.take_prefix _ _⟩
    · rw [if_neg hc]; exact ⟨h0, List.prefix_refl _⟩

theorem full_offset_tokens_not_misread : FullOffsetTokensNotMisread := fun items ps n => offset_tokens_not_misread items ps n

/-- exactly the offsets outside the result set are rejected: offsets the server issued (0 ≤ n ≤ length) never are -/
theorem offset_token_rejected_iff {α : Type} (items : List α) (ps : Nat) (n : Int) :
    memReadPage items ps n = .invalidToken ↔ (n < 0 ∨ n > (items.length : Int)) := by
  unfold memReadPage
  by_cases h : n < 0 ∨ n > (items.length : Int)
  · simp [h]
  · simp only [h, if_false, iff_false]
    split <;> simp

/-- before badbaa3 the statement held only for the offsets the server can have issued -/
theorem offset_token_beforeFix_partial {α : Type} (items : List α) (ps : Nat) (n : Int) (h0 : 0 ≤ n) (h1 : n.toNat ≤ items.length) :
    NotMisreadBy memReadPageBeforeFix items ps n := by
  unfold NotMisreadBy memReadPageBeforeFix
  have : ¬ n < 0 := by omega
  simp only [this, if_false, h1, if_true]
  by_cases hc : ps ≠ 0 ∧ ps < (items.drop n.toNat).length
  · rw [if_pos hc]; exact ⟨h0, List.take_prefix _ _⟩
  · rw [if_neg hc]; exact ⟨h0, List.prefix_refl _⟩

/-- F22a (before badbaa3), negation witness: a negative offset (`"-1"`) panics (`matches[-1:]`) -/
theorem offset_token_beforeFix_counterexample_negative : ¬ NotMisreadBy memReadPageBeforeFix [10, 11, 12] 2 (-1) := by
  simp [NotMisreadBy, memReadPageBeforeFix]

/-- F22b (before badbaa3), negation witness: an offset beyond the end (`"7"` for 3 items) answers with the FIRST page -/
theorem offset_token_beforeFix_counterexample_beyond : ¬ NotMisreadBy memReadPageBeforeFix [10, 11, 12] 2 7 := by
  simp [NotMisreadBy, memReadPageBeforeFix]

/-- the clamped variant (ListStores / ReadAuthorizationModels) never panics and answers a window at the clamped offset -/
theorem clamp_window {α : Type} (items : List α) (ps : Nat) (n : Int) :
    (memClampPage items ps n).1 <+: items.drop (max 0 (min n (items.length : Int))).toNat := by
  unfold memClampPage
  exact List.take_prefix _ _

/-! ## memory ListStores: collect → IDs filter → name filter → sort → cut, for every map order and id-list order -/

theorem tie_memStoresOrder : Gen.Paging.memStoresOrder =
    ["_, span := tracer.Start(ctx, \"memory.ListStores\")", "defer span.End()", "s.mutexStores.RLock()", "defer s.mutexStores.RUnlock()", "stores := make([]*openfgav1.Store, 0, len(s.stores))", "range s.stores", "if len(options.IDs) > 0", "if options.Name != \"\"", "sort.SliceStable(stores, …)", "var err error", "var from int", "if options.Pagination.From != \"\"", "pageSize := storage.DefaultPageSize", "if options.Pagination.PageSize > 0", "from = max(0, min(len(stores), from))", "to := min(len(stores), from+pageSize)", "res := stores[from:to]", "if len(res) == 0", "continuationToken := \"\"", "if to != len(stores)", "return res, continuationToken, nil"] := by
  rfl

/-- the statements `tie_memStoresPaging` does not show, in full: the collect loop (`collected`), the IDs filter
(`idsFilter`: caller order outside, slice order inside), the name filter (`nameFilter`), the empty-window return (`cutPage`) -/
theorem tie_memStoresSteps : Gen.Paging.memStoresSteps =
    ["for _, t := range s.stores { stores = append(stores, t) }", "if len(options.IDs) > 0 { filteredStores := make([]*openfgav1.Store, 0, len(stores)) for _, storeID := range options.IDs { for _, store := range stores { if store.GetId() == storeID { filteredStores = append(filteredStores, store) } } } stores = filteredStores }", "if options.Name != \"\" { filteredStores := make([]*openfgav1.Store, 0, len(stores)) for _, store := range stores { if store.GetName() == options.Name { filteredStores = append(filteredStores, store) } } stores = filteredStores }", "if len(res) == 0 { return nil, \"\", nil }"] := by
  rfl

/-- position of the (first) statement with head `h` -/
def stmtIdx (order : List String) (h : String) : Option Nat := order.findIdx? (· == h)

/-- `a` and `b` both occur and the first `a` stands before the first `b` -/
def stmtBefore (order : List String) (a b : String) : Bool :=
  match stmtIdx order a, stmtIdx order b with
  | some i, some j => decide (i < j)
  | _, _ => false

/-- **the statement order the theorem depends on**: the map is collected first, the ONE sort statement stands after both
filter statements and before the clamp and the slice expression `res := stores[from:to]` (so the offset token indexes
the id-sorted list, not a list in caller order) -/
theorem tie_memStores_sort_after_filters :
    stmtBefore Gen.Paging.memStoresOrder "range s.stores" "if len(options.IDs) > 0" = true ∧
    stmtBefore Gen.Paging.memStoresOrder "if len(options.IDs) > 0" "sort.SliceStable(stores, …)" = true ∧
    stmtBefore Gen.Paging.memStoresOrder "if options.Name != \"\"" "sort.SliceStable(stores, …)" = true ∧
    stmtBefore Gen.Paging.memStoresOrder "sort.SliceStable(stores, …)" "from = max(0, min(len(stores), from))" = true ∧
    stmtBefore Gen.Paging.memStoresOrder "from = max(0, min(len(stores), from))" "res := stores[from:to]" = true ∧
    Gen.Paging.memStoresOrder.count "sort.SliceStable(stores, …)" = 1 := by
  decide

/-- **ListStores (memory): the list that is paged is the list of matching stores in id order** — independent of the
order in which Go iterated over the store map for this call (`collected`: any permutation of the map's values) AND
of the order of the caller's id list (duplicate-free; `keep` looks at membership only).  `values` = the map's values
in id order (ids are the map keys: strictly increasing). -/
theorem liststores_sorted_after_filter (f : Filter) (values collected : List Store)
    (hs : values.Pairwise (fun a b => a.id < b.id)) (hperm : collected.Perm values) (hids : f.ids.Nodup) :
    filteredSorted f collected = values.filter (keep f) :=
  Proofs.ListStoresMem.filteredSorted_eq f values collected hs hperm hids

/-- two calls with different map orders and differently ordered id lists give the same answer to the same token -/
theorem liststores_order_irrelevant (ids ids' : List Nat) (name : String) (values collected collected' : List Store)
    (hs : values.Pairwise (fun a b => a.id < b.id)) (hperm : collected.Perm values) (hperm' : collected'.Perm values)
    (hids : ids.Nodup) (hp : ids'.Perm ids) (ps : Nat) (hps : 1 ≤ ps) (frm : Int) :
    listStores { ids := ids', name := name } collected' ps frm = listStores { ids := ids, name := name } collected ps frm := by
  rw [Proofs.ListStoresMem.listStores_eq _ values collected' hs hperm' (hp.nodup_iff.mpr hids) ps hps,
    Proofs.ListStoresMem.listStores_eq _ values collected hs hperm hids ps hps,
    Proofs.ListStoresMem.keep_perm_ids ids ids' name hp]

/-- **ListStores (memory) paging**: following the offset tokens delivers every matching store exactly once, in id
order, for every page size ≥ 1 — even when every page request is answered from another map order (`coll c`) and
carries another permutation of the id list (`idsAt c`); composition with `paging_offset_clamp`. -/
theorem liststores_paging (values : List Store) (hs : values.Pairwise (fun a b => a.id < b.id))
    (ids : List Nat) (hids : ids.Nodup) (name : String)
    (coll : Nat → List Store) (hcoll : ∀ c, (coll c).Perm values)
    (idsAt : Nat → List Nat) (hidsAt : ∀ c, (idsAt c).Perm ids) (ps : Nat) (hps : 1 ≤ ps) :
    (followListStores listStores coll idsAt name ps
        ((values.filter (keep { ids := ids, name := name })).length + 1) 0 0).map List.flatten
      = some (values.filter (keep { ids := ids, name := name })) := by
  rw [Proofs.ListStoresMem.followListStores_eq values hs ids hids name coll hcoll idsAt hidsAt ps hps]
  exact Proofs.Paging.paging_offset_clamp _ ps hps

def st (i : Nat) : Store := { id := i, name := "a" }

/-- **negative witness for the other statement order** (sort first, filters after): the result follows the caller's
id order instead of the id order, and when the id list is permuted between two page requests the offset token points
into a differently ordered list: store 0 is never delivered, store 1 twice.  (Today's order: `liststores_paging`.) -/
theorem liststores_sort_before_filter_witness :
    sortedFiltered { ids := [2, 0, 1] } [st 1, st 0, st 2] = [st 2, st 0, st 1] ∧
    filteredSorted { ids := [2, 0, 1] } [st 1, st 0, st 2] = [st 0, st 1, st 2] ∧
    (followListStores listStoresSortFirst (fun _ => [st 1, st 0, st 2])
        (fun c => if c % 2 = 0 then [2, 0, 1] else [0, 1, 2]) "" 1 4 0 0).map List.flatten = some [st 2, st 1, st 1] ∧
    (followListStores listStores (fun _ => [st 1, st 0, st 2])
        (fun c => if c % 2 = 0 then [2, 0, 1] else [0, 1, 2]) "" 1 4 0 0).map List.flatten = some [st 0, st 1, st 2] := by
  decide

/-! ## ReadChanges: the log must be in ULID order -/

/-- memory.Write takes `now` (from which every changelog ULID of the write is made) and the entropy source AFTER
`s.mutexTuples.Lock()`: the SAME extractor fact as `C15.tie_mem_stamps_under_lock` (group StoreChanges,
extract/facts_storechanges.go) — the reason why the memory changelog satisfies the `StrictSorted` hypothesis of
`paging_changes` under concurrent writers (`C15.changelog_in_ulid_order_mem`). -/
theorem tie_memWrite_stamps_under_lock :
    Gen.StoreChanges.memStampsUnderLock = true ∧ Gen.StoreChanges.memStampOrder = ["lock", "now", "entropy"] := by
  decide

/-- **`paging_changes` needs its hypothesis**: on a log that is not in key order (a later entry with a smaller key —
what a timestamp sampled before the lock produces under contention) following the ReadChanges tokens loses an entry:
the log is [10, 30, 20], page size 1 delivers 10, then 30 (`key > 10`), then nothing (`key > 30`): 20 is skipped. -/
theorem paging_changes_needs_sorted_log :
    ¬ StrictSorted (fun x : Nat => x) (fun a b => decide (a < b)) [10, 30, 20] ∧
    (followChanges (fun x : Nat => x) (fun a b => decide (a < b)) [10, 30, 20] 1 4 none).map List.flatten = some [10, 30] ∧
    (followChanges (fun x : Nat => x) (fun a b => decide (a < b)) [10, 30, 20] 2 4 none).map List.flatten = some [10, 30] := by
  refine ⟨?_, ?_, ?_⟩
  · unfold StrictSorted; decide
  · decide
  · decide

/-! non-vacuity of `liststores_sorted_after_filter` / `liststores_paging` -/
example : [st 0, st 1, st 2, st 5].Pairwise (fun a b => a.id < b.id) ∧ [st 2, st 5, st 0, st 1].Perm [st 0, st 1, st 2, st 5] ∧
    [5, 0, 1].Nodup := by decide
example : filteredSorted { ids := [5, 0, 1] } [st 2, st 5, st 0, st 1] = [st 0, st 1, st 5] := by decide

/-! ## Non-vacuity -/

example : StrictSorted (fun x : Nat => x) (fun a b => decide (a < b)) [1, 3, 4, 9] := by
  simp [StrictSorted]
example : StrictSorted (fun x : Nat => x) (fun a b => decide (b < a)) [9, 4, 3, 1] := by
  simp [StrictSorted]

example : followSql (fun x : Nat => x) (fun a b => decide (a < b)) [1, 3, 4, 9, 12] 2 6 none = some [[1, 3], [4, 9], [12]] := by decide
example : followChanges (fun x : Nat => x) (fun a b => decide (a < b)) [1, 3, 4, 9] 2 5 none = some [[1, 3], [4, 9]] := by decide
example : followMemRead [1, 3, 4, 9, 12] 2 6 0 = some [[1, 3], [4, 9], [12]] := by decide
example : followMemClamp [1, 3, 4, 9] 2 5 0 = some [[1, 3], [4, 9]] := by decide

example : issueChangesToken [48, 49] [100] = some (b64encode [48, 49, 124, 100]) := by decide

end OpenFGAVerif.C14
