/-
C15 — The changelog faithfully records tuple history.

Over all write histories (memory: every history of well-formed requests; SQL: every history with an arbitrary failure
point on every write): replaying the changelog oldest-first onto the empty store reproduces exactly what `Read` shows;
a successful write appends exactly one entry per effective delete / write and a failed one none; ULID ranks are log
positions, so `ORDER BY ulid desc` is the exact reverse of `ORDER BY ulid asc` (and of memory's `slices.Reverse`);
the horizon test — a `break` in memory, a WHERE clause in SQL — withholds exactly the changes newer than now − horizon;
the object-type filter is a plain filter of the log.

Model: `Model.StoreWrite`; lemmas: `Proofs.StoreWrite`, `Proofs.StoreHist`; source facts: `Gen.StoreWrite`.
Trusted: as for C12 (SQL engine semantics, ULID monotonicity); clocks are the timestamps of the history (`Nat`).
-/
import OpenFGAVerif.Proofs.StoreHist
import OpenFGAVerif.Proofs.StoreChanges
import OpenFGAVerif.Gen.StoreWrite
import OpenFGAVerif.Gen.StoreChanges

set_option linter.unusedSimpArgs false

namespace OpenFGAVerif.C15
open OpenFGAVerif OpenFGAVerif.Model.StoreTypes OpenFGAVerif.Model.StoreWrite OpenFGAVerif.Proofs.StoreWrite

/-! ## ties to the Go source -/

def genCfg : SqlCfg :=
  { selectInTxn := Gen.StoreWrite.sqlSelectInTxn, deleteInTxn := Gen.StoreWrite.sqlDeleteInTxn,
    insertInTxn := Gen.StoreWrite.sqlInsertInTxn, changelogInTxn := Gen.StoreWrite.sqlChangelogInTxn,
    rollbackDeferred := Gen.StoreWrite.sqlRollbackDeferred }

/-- changelog rows are inserted on the same transaction as the tuple rows, after them and before COMMIT -/
theorem tie_changelog_in_txn :
    CfgOK genCfg ∧ Gen.StoreWrite.sqlStmtOrder = ["begin", "select", "delete", "insert", "changelog", "commit"] := by
  refine ⟨⟨?_, ?_, ?_, ?_⟩, ?_⟩ <;> decide

/-- memory.ReadChanges: the horizon test is `Timestamp.After(now.Add(-horizonOffset))` and leaves the loop with
    `break`; descending is `slices.Reverse`; the type test is the `HasPrefix(object, type+":")` the model mirrors -/
theorem tie_mem_read_changes :
    Gen.StoreWrite.memHorizonTest = "changeRec.Change.GetTimestamp().AsTime().After(now.Add(-horizonOffset))" ∧
    Gen.StoreWrite.memHorizonAction = "break" ∧ Gen.StoreWrite.memDescIsReverse = true ∧
    Gen.StoreWrite.memTypeTest = "objectType == \"\" || (strings.HasPrefix(changeRec.Change.GetTupleKey().GetObject(), objectType+\":\"))" := by
  refine ⟨?_, ?_, ?_, ?_⟩ <;> decide

/-- sqlite.ReadChanges: WHERE inserted_at <= now − horizon, ORDER BY ulid asc | desc, object_type = filter -/
theorem tie_sql_read_changes :
    Gen.StoreWrite.sqlHorizonWhere = "inserted_at <= datetime('subsec','-%f seconds')" ∧
    Gen.StoreWrite.sqlOrderBy = ["ulid asc", "ulid desc"] ∧
    Gen.StoreWrite.sqlTypeWhere = "sq.Eq{\"object_type\": objectTypeFilter}" := by
  refine ⟨?_, ?_, ?_⟩ <;> decide

/-- memory.Write appends its change records only after validation, under the lock (no partial log) -/
theorem tie_mem_changes_after_validation :
    Gen.StoreWrite.memLockHeld = true ∧ Gen.StoreWrite.memSanitizeBeforeMutation = true ∧
    Gen.StoreWrite.memNoErrorReturnAfterMutation = true := by
  refine ⟨?_, ?_, ?_⟩ <;> decide

/-! ## replay of the changelog = current tuples, over all histories -/

/-- **changelog_replay (memory).** After any history of Write calls (successful or failed, any options), replaying
    the whole changelog oldest-first onto the empty store gives exactly the tuples `Read` returns, in order. -/
theorem changelog_replay_mem (ceq : TupleRec → TupleRec → Bool) (h : List WriteReq) (hr : ∀ r ∈ h, ReqOK r.dels r.writes) :
    replay [] (runMem ceq {} h).changes = memView (runMem ceq {} h) :=
  (runMem_inv ceq h {} hr inv_empty).replays

/-- **changelog_replay (SQL).** The same for sqlite.write, for every history in which each write may fail at an
    arbitrary operation (statement, connection, COMMIT) or not at all. -/
theorem changelog_replay_sql (ceq : TupleRec → TupleRec → Bool) (h : List (WriteReq × Option Fail))
    (hr : ∀ rf ∈ h, (rf.1.dels ++ rf.1.writes.map (·.key)).Nodup) :
    replay [] (runSql ceq genCfg { committed := {} } h).committed.changes
      = (runSql ceq genCfg { committed := {} } h).committed.tuples.map normCond :=
  (runSql_inv ceq genCfg tie_changelog_in_txn.1 h { committed := {} } hr rfl inv_empty).2.replays

/-- the ULID rank of every change is its position in the log, in both backends, after every history -/
theorem ranks_are_positions_mem (ceq : TupleRec → TupleRec → Bool) (h : List WriteReq) (hr : ∀ r ∈ h, ReqOK r.dels r.writes) :
    (runMem ceq {} h).changes.map (·.ulid) = List.range (runMem ceq {} h).changes.length :=
  (runMem_inv ceq h {} hr inv_empty).ranks

theorem ranks_are_positions_sql (ceq : TupleRec → TupleRec → Bool) (h : List (WriteReq × Option Fail))
    (hr : ∀ rf ∈ h, (rf.1.dels ++ rf.1.writes.map (·.key)).Nodup) :
    (runSql ceq genCfg { committed := {} } h).committed.changes.map (·.ulid)
      = List.range (runSql ceq genCfg { committed := {} } h).committed.changes.length :=
  (runSql_inv ceq genCfg tie_changelog_in_txn.1 h { committed := {} } hr rfl inv_empty).2.ranks

/-! ## exactly one change per effective write / delete -/

/-- **one_change_per_effective_item.** A successful write appends, in this order, one delete entry (condition
    redacted) per stored tuple it removes and one write entry per tuple it adds — nothing else, numbered from the old
    length on, stamped with the write's time; a failed write appends nothing (all-or-nothing, C12). -/
theorem one_change_per_effective_item (ord : Bool) (norm : TupleRec → TupleRec) (s : StoreState) (dels : List TupleKey)
    (writes : List TupleRec) (now : Nat) :
    (specState ord norm s dels writes now).changes
      = s.changes ++ mkChanges s.changes.length now
          ((effDelOf ord s dels).map (fun t => (t.redact, Op.delete)) ++ (effWOf s writes).map (fun w => (normCond w, Op.write))) ∧
    (specState ord norm s dels writes now).changes.length
      = s.changes.length + (effDelOf ord s dels).length + (effWOf s writes).length := by
  constructor
  · simp only [specState]; rw [pushAll_eq]
  · simp only [specState]; rw [pushAll_eq]; simp [mkChanges_length, Nat.add_assoc]

/-- the effective deletes are exactly the stored tuples whose key is among the deletes; the effective writes exactly
    the requested tuples whose key is not stored — and the tuple list changes by exactly these -/
theorem effective_items (s : StoreState) (dels : List TupleKey) (writes : List TupleRec) (now : Nat) :
    effDelOf false s dels = s.tuples.filter (fun t => dels.contains t.key) ∧
    effWOf s writes = writes.filter (fun w => (stored s w.key).isNone) ∧
    (specState false id s dels writes now).tuples
      = s.tuples.filter (fun t => !dels.contains t.key) ++ effWOf s writes := by
  refine ⟨rfl, rfl, ?_⟩
  simp [specState]

/-! ## descending = reverse ascending -/

/-- memory: by construction (`slices.Reverse` of the ascending scan) -/
theorem desc_is_reverse_mem (s : StoreState) (typ : String) (now horizon : Nat) :
    memReadChanges s typ now horizon true = (memReadChanges s typ now horizon false).map List.reverse := by
  unfold memReadChanges
  by_cases h : (memScan typ now horizon s.changes).isEmpty = true
  · simp [h]
  · simp [h]

theorem insertBy_asc_head (c d : Change) (ds : List Change) (h : c.ulid ≤ d.ulid) :
    insertBy (fun a b => decide (a ≤ b)) c (d :: ds) = c :: d :: ds := by
  simp [insertBy, h]

/-- `ORDER BY ulid asc` of a log whose ULIDs strictly increase is the log itself -/
theorem sortAsc_of_increasing : ∀ (l : List Change), l.Pairwise (fun a b => a.ulid < b.ulid) →
    sortBy (fun a b => decide (a ≤ b)) l = l := by
  intro l
  induction l with
  | nil => intro _; rfl
  | cons c cs ih =>
    intro h
    rw [List.pairwise_cons] at h
    simp only [sortBy]
    rw [ih h.2]
    cases cs with
    | nil => rfl
    | cons d ds => exact insertBy_asc_head c d ds (Nat.le_of_lt (h.1 d (by simp)))

theorem insertBy_desc_last (c : Change) : ∀ (l : List Change), (∀ d ∈ l, c.ulid < d.ulid) →
    insertBy (fun a b => decide (a ≥ b)) c l = l ++ [c] := by
  intro l
  induction l with
  | nil => intro _; rfl
  | cons d ds ih =>
    intro h
    have hd := h d (by simp)
    have : ¬ (c.ulid ≥ d.ulid) := by omega
    simp only [insertBy, this, decide_false, Bool.false_eq_true, if_false, List.cons_append]
    rw [ih (fun x hx => h x (by simp [hx]))]

/-- `ORDER BY ulid desc` of such a log is its reverse -/
theorem sortDesc_of_increasing : ∀ (l : List Change), l.Pairwise (fun a b => a.ulid < b.ulid) →
    sortBy (fun a b => decide (a ≥ b)) l = l.reverse := by
  intro l
  induction l with
  | nil => intro _; rfl
  | cons c cs ih =>
    intro h
    rw [List.pairwise_cons] at h
    simp only [sortBy, List.reverse_cons]
    rw [ih h.2]
    exact insertBy_desc_last c cs.reverse (fun d hd => h.1 d (List.mem_reverse.mp hd))

theorem increasing_of_ranks : ∀ (l : List Change) (n : Nat), l.map (·.ulid) = List.range' n l.length →
    l.Pairwise (fun a b => a.ulid < b.ulid) := by
  intro l
  induction l with
  | nil => intro _ _; exact List.Pairwise.nil
  | cons c cs ih =>
    intro n h
    simp only [List.map_cons, List.length_cons, List.range'_succ, List.cons.injEq] at h
    rw [List.pairwise_cons]
    refine ⟨?_, ih (n + 1) h.2⟩
    intro d hd
    have hmem : d.ulid ∈ cs.map (·.ulid) := List.mem_map.mpr ⟨d, hd, rfl⟩
    rw [h.2, List.mem_range'_1] at hmem
    omega

/-- **desc_is_reverse (SQL).** In every store that satisfies the history invariant, `ORDER BY ulid desc` returns the
    exact reverse of `ORDER BY ulid asc`, and ascending is log (commit) order — with any type filter and horizon. -/
theorem desc_is_reverse_sql (s : StoreState) (hi : Inv s) (typ : String) (now horizon : Nat) :
    sqlReadChanges s typ now horizon true = (sqlReadChanges s typ now horizon false).map List.reverse ∧
    sqlReadChanges s typ now horizon false =
      (let rows := s.changes.filter (fun c => c.ts + horizon ≤ now && (typ == "" || c.tuple.objType == typ))
       if rows.isEmpty then none else some rows) := by
  have hinc : s.changes.Pairwise (fun a b => a.ulid < b.ulid) :=
    increasing_of_ranks s.changes 0 (by rw [hi.ranks, List.range_eq_range'])
  have hf := List.Pairwise.filter (fun c : Change => decide (c.ts + horizon ≤ now) && (typ == "" || c.tuple.objType == typ)) hinc
  unfold sqlReadChanges
  simp only [Bool.true_eq_false, if_false, if_true]
  rw [sortAsc_of_increasing _ hf, sortDesc_of_increasing _ hf]
  constructor
  · by_cases he : (s.changes.filter (fun c => decide (c.ts + horizon ≤ now) && (typ == "" || c.tuple.objType == typ))).isEmpty = true
    · have := List.isEmpty_iff.mp he
      simp [this]
    · have hne : (s.changes.filter (fun c => decide (c.ts + horizon ≤ now) && (typ == "" || c.tuple.objType == typ))) ≠ [] := by
        simpa using he
      simp [hne]
  · rfl

/-! ## horizon and type filter -/

/-- **horizon_break_is_filter (memory).** On a log whose timestamps never decrease, the scan loop with its `break`
    returns exactly the changes of the requested type that are not newer than now − horizon, in log order. -/
theorem horizon_break_is_filter (typ : String) (now horizon : Nat) : ∀ (log : List Change),
    log.Pairwise (fun a b => a.ts ≤ b.ts) →
    memScan typ now horizon log = log.filter (fun c => memTypeMatch typ c && decide (c.ts + horizon ≤ now)) := by
  intro log
  induction log with
  | nil => intro _; rfl
  | cons c cs ih =>
    intro h
    rw [List.pairwise_cons] at h
    simp only [memScan]
    by_cases hm : memTypeMatch typ c = true
    · by_cases ht : c.ts + horizon > now
      · -- break: nothing later can pass the horizon test either
        have hrest : cs.filter (fun c => memTypeMatch typ c && decide (c.ts + horizon ≤ now)) = [] := by
          rw [List.filter_eq_nil_iff]
          intro d hd
          have := h.1 d hd
          have : ¬ (d.ts + horizon ≤ now) := by omega
          simp [this]
        have : ¬ (c.ts + horizon ≤ now) := by omega
        simp [hm, ht, this, hrest]
      · have hle : c.ts + horizon ≤ now := by omega
        simp [hm, ht, hle, ih h.2]
    · have hm' : memTypeMatch typ c = false := by simpa using hm
      simp [hm', ih h.2]

/-- **horizon_withholds.** Every returned change is old enough, and every old-enough change of the type is returned. -/
theorem horizon_withholds_mem (s : StoreState) (t : Nat) (hts : TsInv s t) (typ : String) (now horizon : Nat) (c : Change) :
    c ∈ memScan typ now horizon s.changes ↔ (c ∈ s.changes ∧ memTypeMatch typ c = true ∧ c.ts + horizon ≤ now) := by
  rw [horizon_break_is_filter typ now horizon s.changes hts.1, List.mem_filter]
  simp

theorem horizon_withholds_sql (s : StoreState) (hi : Inv s) (typ : String) (now horizon : Nat) (c : Change) :
    (∃ l, sqlReadChanges s typ now horizon false = some l ∧ c ∈ l) ↔
      (c ∈ s.changes ∧ c.ts + horizon ≤ now ∧ (typ = "" ∨ c.tuple.objType = typ)) := by
  rw [(desc_is_reverse_sql s hi typ now horizon).2]
  simp only
  constructor
  · rintro ⟨l, hl, hc⟩
    split at hl
    · cases hl
    · injection hl with hl
      subst hl
      have := List.mem_filter.mp hc
      simpa using this
  · intro h
    have hc : c ∈ s.changes.filter (fun c => decide (c.ts + horizon ≤ now) && (typ == "" || c.tuple.objType == typ)) := by
      rw [List.mem_filter]; simpa using h
    refine ⟨_, ?_, hc⟩
    have hne : ¬ (s.changes.filter (fun c => decide (c.ts + horizon ≤ now) && (typ == "" || c.tuple.objType == typ))).isEmpty = true := by
      intro he
      rw [List.isEmpty_iff.mp he] at hc
      cases hc
    rw [if_neg hne]

/-- **type_filter_is_plain_filter.** Without horizon (and a clock not behind the log) the memory scan is
    `filter (type matches)` of the log, whatever the timestamps are. -/
theorem type_filter_is_plain_filter (typ : String) (now : Nat) (log : List Change) (hnow : ∀ c ∈ log, c.ts ≤ now) :
    memScan typ now 0 log = log.filter (memTypeMatch typ) := by
  induction log with
  | nil => rfl
  | cons c cs ih =>
    have hc := hnow c (by simp)
    have : ¬ (c.ts + 0 > now) := by omega
    simp only [memScan, this, if_false]
    rw [ih (fun d hd => hnow d (by simp [hd]))]
    by_cases hm : memTypeMatch typ c = true <;> simp [hm]

/-- the horizon theorem along histories: after any memory history whose clock does not run backwards the log's
    timestamps are sorted, so the `break` is a filter -/
theorem horizon_filter_mem_history (ceq : TupleRec → TupleRec → Bool) (h : List WriteReq)
    (hr : ∀ r ∈ h, ReqOK r.dels r.writes) (ht : TimesOK 0 h) (typ : String) (now horizon : Nat) :
    memScan typ now horizon (runMem ceq {} h).changes
      = (runMem ceq {} h).changes.filter (fun c => memTypeMatch typ c && decide (c.ts + horizon ≤ now)) := by
  obtain ⟨t', hts⟩ := runMem_ts ceq h {} 0 hr ht ⟨List.Pairwise.nil, by simp⟩
  exact horizon_break_is_filter typ now horizon _ hts.1

/-- the `break` really needs sorted timestamps: on an unsorted log it withholds an old change -/
theorem horizon_break_needs_sorted_log :
    let t : TupleRec := { objType := "doc", objId := "1", relation := "viewer", user := "user:a" }
    let log : List Change := [⟨t, .write, 0, 9⟩, ⟨t, .delete, 1, 2⟩]
    memScan "" 5 0 log ≠ log.filter (fun c => memTypeMatch "" c && decide (c.ts + 0 ≤ 5)) := by
  decide

/-! ## the two backends read the same changelog the same way -/

theorem prefix_colon : ∀ (a b r : List Char), ':' ∉ a → ':' ∉ b →
    ((a ++ [':']).isPrefixOf (b ++ ':' :: r) = true ↔ a = b) := by
  intro a
  induction a with
  | nil =>
    intro b r _ hb
    cases b with
    | nil => simp [List.isPrefixOf]
    | cons x b' =>
      have : x ≠ ':' := fun e => hb (by simp [e])
      simp [List.isPrefixOf, Ne.symm this]
  | cons y a' ih =>
    intro b r ha hb
    have hy : y ≠ ':' := fun e => ha (by simp [e])
    cases b with
    | nil => simp [List.isPrefixOf, hy]
    | cons x b' =>
      have ha' : ':' ∉ a' := fun h => ha (by simp [h])
      have hb' : ':' ∉ b' := fun h => hb (by simp [h])
      simp only [List.cons_append, List.isPrefixOf_cons_cons, Bool.and_eq_true, beq_iff_eq, List.cons.injEq]
      rw [ih b' r ha' hb']

/-- for type names without ':' memory's `HasPrefix(object, type+":")` is type equality (what sqlite's
    `object_type = ?` tests) -/
theorem memTypeMatch_plain (typ : String) (c : Change) (h0 : typ ≠ "") (h1 : ':' ∉ typ.toList)
    (h2 : ':' ∉ c.tuple.objType.toList) : memTypeMatch typ c = (c.tuple.objType == typ) := by
  unfold memTypeMatch hasPrefix buildObject
  have e0 : (typ == "") = false := by simpa using h0
  rw [e0, Bool.false_or, Bool.eq_iff_iff]
  simp only [String.toList_append]
  have : ":".toList = [':'] := by decide
  rw [this, List.append_assoc, List.singleton_append, prefix_colon _ _ _ h1 h2, beq_iff_eq, String.toList_inj]
  exact eq_comm

/-- **backends_read_alike.** On a store that satisfies the history invariants (ranks, sorted timestamps) and whose
    type names contain no ':', memory.ReadChanges and sqlite.ReadChanges return the same changes in the same order
    for every type filter, horizon and direction. -/
theorem backends_read_alike (s : StoreState) (hi : Inv s) (t : Nat) (hts : TsInv s t) (typ : String) (now horizon : Nat)
    (desc : Bool) (h1 : ':' ∉ typ.toList) (h2 : ∀ c ∈ s.changes, ':' ∉ c.tuple.objType.toList) :
    memReadChanges s typ now horizon desc = sqlReadChanges s typ now horizon desc := by
  have hf : s.changes.filter (fun c => memTypeMatch typ c && decide (c.ts + horizon ≤ now))
          = s.changes.filter (fun c => decide (c.ts + horizon ≤ now) && (typ == "" || c.tuple.objType == typ)) := by
    apply List.filter_congr
    intro c hc
    rw [Bool.and_comm]
    congr 1
    by_cases h0 : typ = ""
    · subst h0; simp [memTypeMatch]
    · rw [memTypeMatch_plain typ c h0 h1 (h2 c hc)]
      have : (typ == "") = false := by simpa using h0
      simp [this]
  cases desc with
  | false =>
    rw [(desc_is_reverse_sql s hi typ now horizon).2]
    unfold memReadChanges
    rw [horizon_break_is_filter typ now horizon s.changes hts.1, hf]
    simp
  | true =>
    rw [(desc_is_reverse_sql s hi typ now horizon).1, (desc_is_reverse_sql s hi typ now horizon).2, desc_is_reverse_mem]
    unfold memReadChanges
    rw [horizon_break_is_filter typ now horizon s.changes hts.1, hf]
    simp

/-! ## reading page by page with a horizon: the horizon travels with every page -/

section PagedHorizon
open OpenFGAVerif.Model.StoreChanges OpenFGAVerif.Proofs.StoreChanges

/-- ReadChangesQuery.Execute builds its ReadChangesFilter in one top-level statement with `HorizonOffset: q.horizonOffset`,
    nothing else assigns the filter, and that filter goes to the datastore — on a first page and on a continuation
    alike; ErrNotFound answers with the request's own token; the option stores the configured minutes and the server
    passes its configuration -/
theorem tie_query_horizon_every_page :
    Gen.StoreChanges.rcFilterLiteral = ["ObjectType: req.GetType()", "HorizonOffset: q.horizonOffset"] ∧
    Gen.StoreChanges.rcFilterTopLevel = true ∧ Gen.StoreChanges.rcFilterAssignments = [] ∧
    Gen.StoreChanges.rcBackendCall = "q.backend.ReadChanges(ctx, req.GetStoreId(), filter, opts)" ∧
    Gen.StoreChanges.rcHorizonEveryPage = true ∧ Gen.StoreChanges.rcNotFoundKeepsToken = true ∧
    Gen.StoreChanges.rcHorizonOption = "rq.horizonOffset = time.Duration(horizonOffset) * time.Minute" ∧
    Gen.StoreChanges.rcServerPassesHorizon = true := by
  refine ⟨?_, ?_, ?_, ?_, ?_, ?_, ?_, ?_⟩ <;> rfl

/-- both datastores apply the horizon they are given on every call, with or without token: memory tests it inside the
    scan loop before the token test (type, horizon → break, token → continue, append; under the read lock), sqlite has it
    in the base query — only the type, token and limit clauses are conditional -/
theorem tie_backends_horizon_every_call :
    Gen.StoreChanges.memScanLoop = ["0:type", "1:horizon->break", "1:from", "1:append"] ∧
    Gen.StoreChanges.memReadLock = true ∧ Gen.StoreChanges.sqlHorizonInBaseQuery = true ∧
    Gen.StoreChanges.sqlConditionalClauses = ["objectTypeFilter != \"\"", "options.Pagination.From != \"\"", "options.Pagination.PageSize > 0"] := by
  refine ⟨?_, ?_, ?_, ?_⟩ <;> rfl

theorem inv_increasing {s : StoreState} (hi : Inv s) : s.changes.Pairwise (fun a b => a.ulid < b.ulid) :=
  increasing_of_ranks s.changes 0 (by rw [hi.ranks, List.range_eq_range'])

/-- **paged_changes_horizon (memory).** After any history of memory writes with a clock that does not run backwards,
    a client that reads the changelog through ReadChangesQuery (horizon `q` as the source hands it on) page by page —
    any page size ≥ 1, following tokens until the empty page — receives exactly the changes of the type that are not
    newer than now − q, each once, in log order.  Nothing newer than the horizon is handed out on any page. -/
theorem paged_changes_horizon_mem (ceq : TupleRec → TupleRec → Bool) (h : List WriteReq)
    (hr : ∀ r ∈ h, ReqOK r.dels r.writes) (ht : TimesOK 0 h) (typ : String) (now q ps : Nat) (hps : 1 ≤ ps) :
    (followQuery (memChangesPage (runMem ceq {} h).changes typ now ps) Gen.StoreChanges.rcHorizonEveryPage q
        ((runMem ceq {} h).changes.length + 1) none).map List.flatten
      = some ((runMem ceq {} h).changes.filter (fun c => memTypeMatch typ c && decide (c.ts + q ≤ now))) := by
  rw [tie_query_horizon_every_page.2.2.2.2.1]
  obtain ⟨t', hts⟩ := runMem_ts ceq h {} 0 hr ht ⟨List.Pairwise.nil, by simp⟩
  exact paged_horizon_mem _ hts.1 (inv_increasing (runMem_inv ceq h {} hr inv_empty)) typ now q ps hps

/-- **paged_changes_horizon (sqlite)**, for every history with an arbitrary failure point on every write -/
theorem paged_changes_horizon_sql (ceq : TupleRec → TupleRec → Bool) (h : List (WriteReq × Option Fail))
    (hr : ∀ rf ∈ h, (rf.1.dels ++ rf.1.writes.map (·.key)).Nodup) (typ : String) (now q ps : Nat) (hps : 1 ≤ ps) :
    (followQuery (sqlChangesPage (runSql ceq genCfg { committed := {} } h).committed.changes typ now ps)
        Gen.StoreChanges.rcHorizonEveryPage q ((runSql ceq genCfg { committed := {} } h).committed.changes.length + 1) none).map List.flatten
      = some ((runSql ceq genCfg { committed := {} } h).committed.changes.filter
          (fun c => decide (c.ts + q ≤ now) && (typ == "" || c.tuple.objType == typ))) := by
  rw [tie_query_horizon_every_page.2.2.2.2.1]
  exact paged_horizon_sql _ (inv_increasing (runSql_inv ceq genCfg tie_changelog_in_txn.1 h { committed := {} } hr rfl inv_empty).2)
    typ now q ps hps

end PagedHorizon

/-! ## timestamps and ULIDs are taken under the lock, hence the log is in ULID order -/

section Stamps
open OpenFGAVerif.Model.StoreChanges OpenFGAVerif.Proofs.StoreChanges

/-- memory.Write: `s.mutexTuples.Lock()` precedes `now := timestamppb.Now()`, `entropy := ulid.DefaultEntropy()` and every
    ulid.MustNew call; `now` is assigned once; every change record carries `Timestamp: now` and a ULID drawn from that
    `now` and that entropy source -/
theorem tie_mem_stamps_under_lock :
    Gen.StoreChanges.memStampsUnderLock = true ∧ Gen.StoreChanges.memStampOrder = ["lock", "now", "entropy"] ∧
    Gen.StoreChanges.memWriteStmtOrder = ["span", "defer-span", "lock", "defer-unlock", "now", "sanitize", "err-return", "records",
      "entropy", "delete-loop", "write-loop", "assign-tuples", "return-nil"] ∧
    Gen.StoreChanges.memNowExpr = "timestamppb.Now()" ∧ Gen.StoreChanges.memEntropyExpr = "ulid.DefaultEntropy()" ∧
    Gen.StoreChanges.memChangeStamps = ["Timestamp: now | Ulid: ulid.MustNew(ulid.Timestamp(now.AsTime()), entropy)",
      "Timestamp: now | Ulid: ulid.MustNew(ulid.Timestamp(now.AsTime()), entropy)"] := by
  refine ⟨?_, ?_, ?_, ?_, ?_, ?_⟩ <;> rfl

/-- sqlite.write draws its entropy source and every ULID after BeginTx and before Commit, from the time Write hands in
    (`time.Now().UTC()`, evaluated by Write *before* the transaction begins — see the level note); the changelog rows'
    inserted_at is the engine's clock at the INSERT -/
theorem tie_sql_stamps_in_txn :
    Gen.StoreChanges.sqlStampOrder = ["begin", "entropy", "ulid", "commit"] ∧
    Gen.StoreChanges.sqlUlidExprs = ["ulid.MustNew(ulid.Timestamp(now), entropy)"] ∧
    Gen.StoreChanges.sqlWriteNowArg = "time.Now().UTC()" ∧
    Gen.StoreChanges.sqlInsertedAtExprs = ["sq.Expr(\"datetime('subsec')\")"] := by
  refine ⟨?_, ?_, ?_, ?_⟩ <;> rfl

/-- **changelog_in_ulid_order (memory).** With the stamps taken where the source takes them: for every schedule of
    concurrent writers (wall clock not running backwards; the mutex serialises the locked sections) and every behaviour
    of the random source, the change records are appended in strictly increasing ULID order and with non-decreasing
    timestamps — the hypothesis "ULIDs increase in application order / timestamps sorted" of the history theorems
    (`ranks_are_positions_mem`, `horizon_break_is_filter`), discharged for the memory backend by
    `tie_mem_stamps_under_lock`. -/
theorem changelog_in_ulid_order_mem (R : Nat → Nat × Nat) (hR : ∀ n, (R n).1 ≠ 0) (evs : List Timed)
    (hclk : (evs.map (·.clock)).Pairwise (· ≤ ·)) (hfor : NoStaleForeign evs) :
    Model.Paging.StrictSorted (·.1) Ulid.lt (runStamps Gen.StoreChanges.memStampsUnderLock R evs).log ∧
    (runStamps Gen.StoreChanges.memStampsUnderLock R evs).log.Pairwise (fun a b => a.2 ≤ b.2) := by
  rw [tie_mem_stamps_under_lock.1]
  exact changelog_sorted_under_lock R hR evs hclk hfor

/-- **paging_exactly_once (memory, concurrent writers).** … hence a client paging through ReadChanges with ULID tokens
    receives every change record exactly once, in application order, whatever the interleaving of the writers. -/
theorem paging_exactly_once_mem (R : Nat → Nat × Nat) (hR : ∀ n, (R n).1 ≠ 0) (evs : List Timed)
    (hclk : (evs.map (·.clock)).Pairwise (· ≤ ·)) (hfor : NoStaleForeign evs) (ps : Nat) (hps : 1 ≤ ps) :
    (Model.Paging.followChanges (·.1) Ulid.lt (runStamps Gen.StoreChanges.memStampsUnderLock R evs).log ps
        ((runStamps Gen.StoreChanges.memStampsUnderLock R evs).log.length + 1) none).map List.flatten
      = some (runStamps Gen.StoreChanges.memStampsUnderLock R evs).log := by
  rw [tie_mem_stamps_under_lock.1]
  exact paging_exactly_once_under_lock R hR evs hclk hfor ps hps

/-- a schedule with two writers whose sample / lock order is crossed, three change records -/
def evsEx : List Timed := [⟨.sample 1, 1⟩, ⟨.sample 2, 2⟩, ⟨.locked 2 [false, true, true], 2⟩, ⟨.foreign 2, 2⟩, ⟨.locked 1 [true], 3⟩]
/-- non-vacuity of the hypotheses of `changelog_in_ulid_order_mem` -/
example : (evsEx.map (·.clock)).Pairwise (· ≤ ·) ∧ NoStaleForeign evsEx ∧ (runStamps true (fun _ => (7, 0)) evsEx).log.length = 3 := by decide

end Stamps

/-! ## non-vacuity -/

def w1 : TupleRec := { objType := "doc", objId := "1", relation := "viewer", user := "user:a" }
def w2 : TupleRec := { objType := "folder", objId := "1", relation := "viewer", user := "group:g#member", condName := "c1" }
def w3 : TupleRec := { objType := "doc", objId := "2", relation := "viewer", user := "user:b" }
def hist : List WriteReq :=
  [ { dels := [], writes := [w1, w2], opts := {}, now := 1 },
    { dels := [w1.key], writes := [], opts := {}, now := 2 },
    { dels := [w1.key], writes := [], opts := {}, now := 3 },                                    -- fails: missing delete
    { dels := [w3.key], writes := [w1, w2], opts := { ignoreMissing := true, ignoreDup := true }, now := 4 } ]

theorem hist_ok : ∀ r ∈ hist, ReqOK r.dels r.writes := by
  intro r hr
  simp only [hist, List.mem_cons, List.not_mem_nil, or_false] at hr
  rcases hr with rfl | rfl | rfl | rfl <;> exact ⟨by decide, by decide, by decide⟩
theorem hist_times : TimesOK 0 hist := by simp [TimesOK, hist]
/-- the hypotheses of the history theorems are satisfied by a history with a failing write, ignored no-ops, a
    conditional tuple and a delete; its replay, ranks and reads evaluate as stated -/
example : replay [] (runMem condEq {} hist).changes = memView (runMem condEq {} hist) := changelog_replay_mem condEq hist hist_ok
example : (runMem condEq {} hist).changes.map (fun c => (c.op, c.tuple.objType, c.ulid, c.ts))
    = [(.write, "doc", 0, 1), (.write, "folder", 1, 1), (.delete, "doc", 2, 2), (.write, "doc", 3, 4)] := by decide
example : memView (runMem condEq {} hist) = [normCond w2, w1] := by decide
example : (memReadChanges (runMem condEq {} hist) "doc" 10 7 false).map (·.map (·.ulid)) = some [0, 2] := by decide
example : (sqlReadChanges (runMem condEq {} hist) "doc" 10 7 true).map (·.map (·.ulid)) = some [2, 0] := by decide

end OpenFGAVerif.C15
