/-
C17 — Models are validated, immutable and resolved to the latest.

Models: `Model.ModelValidate` (typesystem.NewAndValidate, step for step, including the shared-inner-map aliasing of
hasEntrypoints) and `Model.ModelStore` (model table + model cache + typesystem cache state machine, with cache eviction
as an operation that may happen at any time).  Data regenerated from the Go source: `Gen.ModelValidation` (statement
skeletons of 25 functions).

Results
  (a) state machine, by induction over ALL histories from the empty server:
      `latest_after_write`   a request without model id is evaluated against the model of the last accepted write of its
                             store — the latest lookup always goes to the backend and the typesystem cache is keyed by the
                             RESOLVED id, so no entry can be stale;
      `read_returns_written` an id returned by WriteAuthorizationModel reads back the written model forever;
      `ids_increase`, `memory_sqlite_agree_on_latest`  (ULID monotonicity is the hypothesis `FreshAbove`);
      `rejected_model_changes_nothing`.
      Concurrency caveat, proved as a witness: a caller that JOINS a singleflight `FindLatestAuthorizationModel` flight
      which started before a write is handed the older model (`FullLatestUnderOverlap` is false: candidate finding).
  (b) consequences of `validate m = ok` that other proofs rely on: `no_computed_cycle`, `tupleset_direct_only`,
      `restrs_defined`, names unique.  The semantic soundness of the entrypoint check (`FullEntrypointsSound`) is stated,
      not proved; the driver tests it against the least fixpoint on every accepted model.
-/
import OpenFGAVerif.Proofs.ModelStoreHist
import OpenFGAVerif.Proofs.ModelValidate
import OpenFGAVerif.Gen.ModelValidation
import OpenFGAVerif.Props.ResolverKeys
import OpenFGAVerif.Props.ReqValidate

namespace OpenFGAVerif.C17
open OpenFGAVerif.Vocab OpenFGAVerif.Model.ModelStore OpenFGAVerif.Model.ModelValidate
open OpenFGAVerif.Proofs.ModelStore OpenFGAVerif.Proofs.ModelValidate

/-! ## 1. Ties: the functions the models mirror, as they are in /repo today -/

theorem tie_newAndValidate : Gen.ModelValidation.newAndValidate =
    ["_, span := tracer.Start(ctx, \"typesystem.NewAndValidate\")", "defer span.End()", "t, err := New(model)", "if err != nil", "return nil, err", "end", "schemaVersion := t.GetSchemaVersion()", "if !IsSchemaVersionSupported(schemaVersion)", "return nil, ErrInvalidSchemaVersion", "end", "if containsDuplicateType(model)", "return nil, ErrDuplicateTypes", "end", "if err := t.validateNames(); err != nil", "return nil, err", "end", "typedefsMap := t.typeDefinitions", "typeNames := make([]string, 0, len(typedefsMap))", "for typeName := range typedefsMap", "typeNames = append(typeNames, typeName)", "end", "sort.Strings(typeNames)", "for _, typeName := range typeNames", "typedef := typedefsMap[typeName]", "relationMap := typedef.GetRelations()", "relationNames := make([]string, 0, len(relationMap))", "for relationName := range relationMap", "relationNames = append(relationNames, relationName)", "end", "sort.Strings(relationNames)", "for _, relationName := range relationNames", "err := t.validateRelation(typeName, relationName, relationMap)", "if err != nil", "return nil, err", "end", "end", "end", "if err := t.validateConditions(); err != nil", "return nil, err", "end", "return t, nil"] := rfl

theorem tie_typeSystem_validateRelation : Gen.ModelValidation.typeSystem_validateRelation =
    ["rewrite := relationMap[relationName]", "err := t.isUsersetRewriteValid(typeName, relationName, rewrite)", "if err != nil", "return err", "end", "err = t.validateTypeRestrictions(typeName, relationName)", "if err != nil", "return err", "end", "visitedRelations := map[string]map[string]bool{}", "hasEntrypoints, loop, err := hasEntrypoints(t.relations, typeName, relationName, rewrite, visitedRelations)", "if err != nil", "return err", "end", "if !hasEntrypoints", "cause := ErrNoEntrypoints", "if loop", "cause = ErrNoEntryPointsLoop", "end", "return &InvalidRelationError{ ObjectType: typeName, Relation: relationName, Cause: cause, }", "end", "hasCycle, err := t.HasCycle(typeName, relationName)", "if err != nil", "return err", "end", "if hasCycle", "return &InvalidRelationError{ ObjectType: typeName, Relation: relationName, Cause: ErrCycle, }", "end", "return nil"] := rfl

theorem tie_containsDuplicateType : Gen.ModelValidation.containsDuplicateType =
    ["seen := make(map[string]struct{}, len(model.GetTypeDefinitions()))", "for _, td := range model.GetTypeDefinitions()", "objectType := td.GetType()", "if _, ok := seen[objectType]; ok", "return true", "end", "seen[objectType] = struct{}{}", "end", "return false"] := rfl

theorem tie_typeSystem_validateNames : Gen.ModelValidation.typeSystem_validateNames =
    ["for _, td := range t.typeDefinitions", "objectType := td.GetType()", "if objectType == \"\"", "return fmt.Errorf(\"the type name of a type definition cannot be an empty string\")", "end", "if objectType == \"self\" || objectType == \"this\"", "return &InvalidTypeError{ObjectType: objectType, Cause: ErrReservedKeywords}", "end", "for relation := range td.GetRelations()", "if relation == \"\"", "return fmt.Errorf(\"type '%s' defines a relation with an empty string for a name\", objectType)", "end", "if relation == \"self\" || relation == \"this\"", "return &InvalidRelationError{ObjectType: objectType, Relation: relation, Cause: ErrReservedKeywords}", "end", "end", "end", "return nil"] := rfl

theorem tie_typeSystem_isUsersetRewriteValid : Gen.ModelValidation.typeSystem_isUsersetRewriteValid =
    ["if rewrite.GetUserset() == nil", "return &InvalidRelationError{ObjectType: objectType, Relation: relation, Cause: ErrInvalidUsersetRewrite}", "end", "typeswitch r := rewrite.GetUserset().(type)", "case *openfgav1.Userset_ComputedUserset", "computedUserset := r.ComputedUserset.GetRelation()", "if computedUserset == relation", "return &InvalidRelationError{ObjectType: objectType, Relation: relation, Cause: ErrInvalidUsersetRewrite}", "end", "if _, err := t.GetRelation(objectType, computedUserset); err != nil", "return &RelationUndefinedError{ObjectType: objectType, Relation: computedUserset, Err: ErrRelationUndefined}", "end", "case *openfgav1.Userset_TupleToUserset", "tupleset := r.TupleToUserset.GetTupleset().GetRelation()", "tuplesetRelation, err := t.GetRelation(objectType, tupleset)", "if err != nil", "return &RelationUndefinedError{ObjectType: objectType, Relation: tupleset, Err: ErrRelationUndefined}", "end", "tuplesetRewrite := tuplesetRelation.GetRewrite()", "if reflect.TypeOf(tuplesetRewrite.GetUserset()) != reflect.TypeOf(&openfgav1.Userset_This{})", "return fmt.Errorf(\"the '%s#%s' relation is referenced in at least one tupleset and thus must be a direct relation\", objectType, tupleset)", "end", "computedUserset := r.TupleToUserset.GetComputedUserset().GetRelation()", "if IsSchemaVersionSupported(t.GetSchemaVersion())", "userTypes := tuplesetRelation.GetTypeInfo().GetDirectlyRelatedUserTypes()", "for _, rr := range userTypes", "if _, err := t.GetRelation(rr.GetType(), computedUserset); err == nil", "return nil", "end", "end", "return fmt.Errorf(\"%w: %s does not appear as a relation in any of the directly related user types %s\", ErrRelationUndefined, computedUserset, userTypes)", "end", "for typeName := range t.relations", "if _, err := t.GetRelation(typeName, computedUserset); err == nil", "return nil", "end", "end", "return &RelationUndefinedError{ObjectType: \"\", Relation: computedUserset, Err: ErrRelationUndefined}", "case *openfgav1.Userset_Union", "for _, child := range r.Union.GetChild()", "err := t.isUsersetRewriteValid(objectType, relation, child)", "if err != nil", "return err", "end", "end", "case *openfgav1.Userset_Intersection", "for _, child := range r.Intersection.GetChild()", "err := t.isUsersetRewriteValid(objectType, relation, child)", "if err != nil", "return err", "end", "end", "case *openfgav1.Userset_Difference", "err := t.isUsersetRewriteValid(objectType, relation, r.Difference.GetBase())", "if err != nil", "return err", "end", "err = t.isUsersetRewriteValid(objectType, relation, r.Difference.GetSubtract())", "if err != nil", "return err", "end", "end", "return nil"] := rfl

theorem tie_typeSystem_validateTypeRestrictions : Gen.ModelValidation.typeSystem_validateTypeRestrictions =
    ["relation, err := t.GetRelation(objectType, relationName)", "if err != nil", "return err", "end", "relatedTypes := relation.GetTypeInfo().GetDirectlyRelatedUserTypes()", "assignable := t.IsDirectlyAssignable(relation)", "if assignable && len(relatedTypes) == 0", "return AssignableRelationError(objectType, relationName)", "end", "if !assignable && len(relatedTypes) != 0", "return NonAssignableRelationError(objectType, relationName)", "end", "for _, related := range relatedTypes", "relatedObjectType := related.GetType()", "relatedRelation := related.GetRelation()", "if _, err := t.GetRelations(relatedObjectType); err != nil", "return InvalidRelationTypeError(objectType, relationName, relatedObjectType, relatedRelation)", "end", "if related.GetRelationOrWildcard() != nil", "if ok, _ := t.IsTuplesetRelation(objectType, relationName); ok", "return InvalidRelationTypeError(objectType, relationName, relatedObjectType, relatedRelation)", "end", "if relatedRelation != \"\"", "if _, err := t.GetRelation(relatedObjectType, relatedRelation); err != nil", "return InvalidRelationTypeError(objectType, relationName, relatedObjectType, relatedRelation)", "end", "end", "end", "if related.GetCondition() != \"\"", "if _, ok := t.conditions[related.GetCondition()]; !ok", "return &RelationConditionError{ Relation: relationName, Condition: related.GetCondition(), Err: ErrNoConditionForRelation, }", "end", "end", "end", "return nil"] := rfl

theorem tie_hasEntrypoints : Gen.ModelValidation.hasEntrypoints =
    ["v := maps.Clone(visitedRelations)", "if val, ok := v[typeName]; ok", "val[relationName] = false", "else", "v[typeName] = map[string]bool{ relationName: false, }", "end", "relation, ok := typedefs[typeName][relationName]", "if !ok", "return false, false, fmt.Errorf(\"undefined type definition for '%s#%s'\", typeName, relationName)", "end", "typeswitch rw := rewrite.GetUserset().(type)", "case *openfgav1.Userset_This", "for _, assignableType := range relation.GetTypeInfo().GetDirectlyRelatedUserTypes()", "if assignableType.GetRelationOrWildcard() == nil || assignableType.GetWildcard() != nil", "v[typeName][relationName] = true", "return true, false, nil", "end", "assignableTypeName := assignableType.GetType()", "assignableRelationName := assignableType.GetRelation()", "assignableRelation, ok := typedefs[assignableTypeName][assignableRelationName]", "if !ok", "return false, false, fmt.Errorf(\"undefined type definition for '%s#%s'\", assignableTypeName, assignableRelationName)", "end", "if _, ok := v[assignableTypeName][assignableRelationName]; ok", "continue", "end", "hasEntrypoint, _, err := hasEntrypoints(typedefs, assignableTypeName, assignableRelationName, assignableRelation.GetRewrite(), v)", "if err != nil", "return false, false, err", "end", "if hasEntrypoint", "return true, false, nil", "end", "end", "return false, false, nil", "case *openfgav1.Userset_ComputedUserset", "computedRelationName := rw.ComputedUserset.GetRelation()", "computedRelation, ok := typedefs[typeName][computedRelationName]", "if !ok", "return false, false, fmt.Errorf(\"undefined type definition for '%s#%s'\", typeName, computedRelationName)", "end", "if hasEntrypoint, ok := v[typeName][computedRelationName]; ok", "return hasEntrypoint, true, nil", "end", "hasEntrypoint, loop, err := hasEntrypoints(typedefs, typeName, computedRelationName, computedRelation.GetRewrite(), v)", "if err != nil", "return false, false, err", "end", "return hasEntrypoint, loop, nil", "case *openfgav1.Userset_TupleToUserset", "tuplesetRelationName := rw.TupleToUserset.GetTupleset().GetRelation()", "computedRelationName := rw.TupleToUserset.GetComputedUserset().GetRelation()", "tuplesetRelation, ok := typedefs[typeName][tuplesetRelationName]", "if !ok", "return false, false, fmt.Errorf(\"undefined type definition for '%s#%s'\", typeName, tuplesetRelationName)", "end", "for _, assignableType := range tuplesetRelation.GetTypeInfo().GetDirectlyRelatedUserTypes()", "assignableTypeName := assignableType.GetType()", "if assignableRelation, ok := typedefs[assignableTypeName][computedRelationName]; ok", "if hasEntrypoint, ok := v[assignableTypeName][computedRelationName]; ok", "if hasEntrypoint", "return true, false, nil", "end", "continue", "end", "hasEntrypoint, _, err := hasEntrypoints(typedefs, assignableTypeName, computedRelationName, assignableRelation.GetRewrite(), v)", "if err != nil", "return false, false, err", "end", "if hasEntrypoint", "return true, false, nil", "end", "end", "end", "return false, false, nil", "case *openfgav1.Userset_Union", "loop := false", "if len(rw.Union.GetChild()) < 2", "return false, false, fmt.Errorf(\"%w: '%s#%s' as union has less than 2 children\", ErrInvalidRelation, typeName, relationName)", "end", "for _, child := range rw.Union.GetChild()", "hasEntrypoints, childLoop, err := hasEntrypoints(typedefs, typeName, relationName, child, visitedRelations)", "if err != nil", "return false, false, err", "end", "if hasEntrypoints", "return true, false, nil", "end", "loop = loop || childLoop", "end", "return false, loop, nil", "case *openfgav1.Userset_Intersection", "if len(rw.Intersection.GetChild()) < 2", "return false, false, fmt.Errorf(\"%w: '%s#%s' as intersection has less than 2 children\", ErrInvalidRelation, typeName, relationName)", "end", "for _, child := range rw.Intersection.GetChild()", "hasEntrypoints, childLoop, err := hasEntrypoints(typedefs, typeName, relationName, child, visitedRelations)", "if err != nil", "return false, false, err", "end", "if !hasEntrypoints", "return false, childLoop, nil", "end", "end", "return true, false, nil", "case *openfgav1.Userset_Difference", "hasEntrypoint, loop, err := hasEntrypoints(typedefs, typeName, relationName, rw.Difference.GetBase(), visitedRelations)", "if err != nil", "return false, false, err", "end", "if !hasEntrypoint", "return false, loop, nil", "end", "hasEntrypoint, loop, err = hasEntrypoints(typedefs, typeName, relationName, rw.Difference.GetSubtract(), visitedRelations)", "if err != nil", "return false, false, err", "end", "if !hasEntrypoint", "return false, loop, nil", "end", "return true, false, nil", "end", "rwString := \"rewrite_nil\"", "if rewrite != nil", "rwString = rewrite.String()", "end", "return false, false, serverErrors.HandleError(\"error validating model\", fmt.Errorf(\"hasEntrypoints unknown rewrite %s for '%s#%s'\", rwString, typeName, relationName))"] := rfl

theorem tie_typeSystem_hasCycle : Gen.ModelValidation.typeSystem_hasCycle =
    ["visited[fmt.Sprintf(\"%s#%s\", objectType, relationName)] = struct{}{}", "visitedCopy := maps.Clone(visited)", "var children []*openfgav1.Userset", "typeswitch rw := rewrite.GetUserset().(type)", "case *openfgav1.Userset_This, *openfgav1.Userset_TupleToUserset", "return false, nil", "case *openfgav1.Userset_ComputedUserset", "rewrittenRelation := rw.ComputedUserset.GetRelation()", "if _, ok := visited[fmt.Sprintf(\"%s#%s\", objectType, rewrittenRelation)]; ok", "return true, nil", "end", "rewrittenRewrite, err := t.GetRelation(objectType, rewrittenRelation)", "if err != nil", "return false, err", "end", "return t.hasCycle(objectType, rewrittenRelation, rewrittenRewrite.GetRewrite(), visitedCopy)", "case *openfgav1.Userset_Union", "children = append(children, rw.Union.GetChild()...)", "case *openfgav1.Userset_Intersection", "children = append(children, rw.Intersection.GetChild()...)", "case *openfgav1.Userset_Difference", "children = append(children, rw.Difference.GetBase(), rw.Difference.GetSubtract())", "end", "for _, child := range children", "hasCycle, err := t.hasCycle(objectType, relationName, child, visitedCopy)", "if err != nil", "return false, err", "end", "if hasCycle", "return true, nil", "end", "end", "return false, nil"] := rfl

theorem tie_typeSystem_HasCycle : Gen.ModelValidation.typeSystem_HasCycle =
    ["visited := map[string]struct{}{}", "relation, err := t.GetRelation(objectType, relationName)", "if err != nil", "return false, err", "end", "return t.hasCycle(objectType, relationName, relation.GetRewrite(), visited)"] := rfl

theorem tie_typeSystem_validateConditions : Gen.ModelValidation.typeSystem_validateConditions =
    ["for key, c := range t.conditions", "if key != c.Name", "return fmt.Errorf(\"condition key '%s' does not match condition name '%s'\", key, c.Name)", "end", "if err := c.Compile(); err != nil", "return err", "end", "end", "return nil"] := rfl

theorem tie_typeSystem_IsDirectlyAssignable : Gen.ModelValidation.typeSystem_IsDirectlyAssignable =
    ["return RewriteContainsSelf(relation.GetRewrite())"] := rfl

theorem tie_rewriteContainsSelf : Gen.ModelValidation.rewriteContainsSelf =
    ["result, err := WalkUsersetRewrite(rewrite, func(r *openfgav1.Userset) interface{} { if _, ok := r.GetUserset().(*openfgav1.Userset_This); ok { return true } return nil })", "if err != nil", "panic(\"unexpected error during rewrite evaluation\")", "end", "return result != nil && result.(bool)"] := rfl

theorem tie_walkUsersetRewrite : Gen.ModelValidation.walkUsersetRewrite =
    ["var children []*openfgav1.Userset", "if result := handler(rewrite); result != nil", "return result, nil", "end", "typeswitch t := rewrite.GetUserset().(type)", "case *openfgav1.Userset_This", "return handler(rewrite), nil", "case *openfgav1.Userset_ComputedUserset", "return handler(rewrite), nil", "case *openfgav1.Userset_TupleToUserset", "return handler(rewrite), nil", "case *openfgav1.Userset_Union", "children = t.Union.GetChild()", "case *openfgav1.Userset_Intersection", "children = t.Intersection.GetChild()", "case *openfgav1.Userset_Difference", "children = append(children, t.Difference.GetBase(), t.Difference.GetSubtract())", "default", "return nil, fmt.Errorf(\"unexpected userset rewrite type encountered\")", "end", "for _, child := range children", "result, err := WalkUsersetRewrite(child, handler)", "if err != nil", "return nil, err", "end", "if result != nil", "return result, nil", "end", "end", "return nil, nil"] := rfl

theorem tie_flattenUserset : Gen.ModelValidation.flattenUserset =
    ["output := make([]*openfgav1.TupleToUserset, 0)", "userset := relationDef.GetUserset()", "typeswitch x := userset.(type)", "case *openfgav1.Userset_TupleToUserset", "if x.TupleToUserset != nil", "output = append(output, x.TupleToUserset)", "end", "case *openfgav1.Userset_Union", "if x.Union != nil", "for _, child := range x.Union.GetChild()", "output = append(output, flattenUserset(child)...)", "end", "end", "case *openfgav1.Userset_Intersection", "if x.Intersection != nil", "for _, child := range x.Intersection.GetChild()", "output = append(output, flattenUserset(child)...)", "end", "end", "case *openfgav1.Userset_Difference", "if x.Difference != nil", "output = append(output, flattenUserset(x.Difference.GetBase())...)", "output = append(output, flattenUserset(x.Difference.GetSubtract())...)", "end", "end", "return output"] := rfl

theorem tie_writeAuthorizationModelCommand_Execute : Gen.ModelValidation.writeAuthorizationModelCommand_Execute =
    ["if len(req.GetTypeDefinitions()) > w.backend.MaxTypesPerAuthorizationModel()", "return nil, serverErrors.ExceededEntityLimit(\"type definitions in an authorization model\", w.backend.MaxTypesPerAuthorizationModel())", "end", "if req.GetSchemaVersion() == \"\"", "req.SchemaVersion = typesystem.SchemaVersion1_1", "end", "model := &openfgav1.AuthorizationModel{ Id: ulid.Make().String(), SchemaVersion: req.GetSchemaVersion(), TypeDefinitions: req.GetTypeDefinitions(), Conditions: req.GetConditions(), }", "modelSize := proto.Size(model)", "if modelSize > w.maxAuthorizationModelSizeInBytes", "return nil, status.Error( codes.Code(openfgav1.ErrorCode_exceeded_entity_limit), fmt.Sprintf(\"model exceeds size limit: %d bytes vs %d bytes\", modelSize, w.maxAuthorizationModelSizeInBytes), )", "end", "_, err := typesystem.NewAndValidate(ctx, model)", "if err != nil", "return nil, serverErrors.InvalidAuthorizationModelInput(err)", "end", "err = w.backend.WriteAuthorizationModel(ctx, req.GetStoreId(), model)", "if err != nil", "return nil, serverErrors. HandleError(\"Error writing authorization model configuration\", err)", "end", "return &openfgav1.WriteAuthorizationModelResponse{ AuthorizationModelId: model.GetId(), }, nil"] := rfl

theorem tie_memoizedTypesystemResolverFunc : Gen.ModelValidation.memoizedTypesystemResolverFunc =
    ["lookupGroup := singleflight.Group{}", "cache, err := storage.NewInMemoryLRUCache[*TypeSystem]( storage.WithMaxCacheSize[*TypeSystem](int64(maxSize)), )", "if err != nil", "return nil, nil, err", "end", "return func(ctx context.Context, storeID, modelID string) (*TypeSystem, error) { ctx, span := tracer.Start(ctx, \"resolveTypesystem\", trace.WithAttributes( attribute.String(\"store_id\", storeID), )) defer func() { span.SetAttributes(attribute.String(\"authorization_model_id\", modelID)) span.End() }() var err error if modelID != \"\" { if _, err := ulid.Parse(modelID); err != nil { return nil, ErrModelNotFound } } var model *openfgav1.AuthorizationModel if modelID == \"\" { v, err, _ := lookupGroup.Do(\"FindLatestAuthorizationModel:\"+storeID, func() (interface{}, error) { return datastore.FindLatestAuthorizationModel(ctx, storeID) }) if err != nil { if errors.Is(err, storage.ErrNotFound) { return nil, ErrModelNotFound } return nil, fmt.Errorf(\"failed to FindLatestAuthorizationModel: %w\", err) } model = v.(*openfgav1.AuthorizationModel) modelID = model.GetId() } kb := keys.GetBuilder() kb.EncodeString(\"TS\") kb.EncodeString(storeID) kb.EncodeString(modelID) key := kb.Key() kb.Close() item := cache.Get(key) if item != nil { return item, nil } if model == nil { v, err, _ := lookupGroup.Do(fmt.Sprintf(\"ReadAuthorizationModel:%s/%s\", storeID, modelID), func() (interface{}, error) { return datastore.ReadAuthorizationModel(ctx, storeID, modelID) }) if err != nil { if errors.Is(err, storage.ErrNotFound) { return nil, ErrModelNotFound } return nil, fmt.Errorf(\"failed to ReadAuthorizationModel: %w\", err) } model = v.(*openfgav1.AuthorizationModel) } typesys, err := NewAndValidate(ctx, model) if err != nil { return nil, fmt.Errorf(\"%w: %w\", ErrInvalidModel, err) } cache.Set(key, typesys, typesystemCacheTTL) return typesys, nil }, cache.Stop, nil"] := rfl

theorem tie_cachedOpenFGADatastore_ReadAuthorizationModel : Gen.ModelValidation.cachedOpenFGADatastore_ReadAuthorizationModel =
    ["cacheKey := ModelCacheKey(storeID, modelID)", "cachedEntry := c.cache.Get(cacheKey)", "if cachedEntry != nil", "return cachedEntry.AuthorizationModel, nil", "end", "model, err := c.OpenFGADatastore.ReadAuthorizationModel(ctx, storeID, modelID)", "if err != nil", "return nil, err", "end", "c.cache.Set(cacheKey, &cachedAuthorizationModel{model}, ttl)", "return model, nil"] := rfl

theorem tie_cachedOpenFGADatastore_FindLatestAuthorizationModel : Gen.ModelValidation.cachedOpenFGADatastore_FindLatestAuthorizationModel =
    ["v, err, _ := c.lookupGroup.Do(\"FindLatestAuthorizationModel:\"+storeID, func() (interface{}, error) { return c.OpenFGADatastore.FindLatestAuthorizationModel(ctx, storeID) })", "if err != nil", "return nil, err", "end", "return v.(*openfgav1.AuthorizationModel), nil"] := rfl

theorem tie_modelCacheKey : Gen.ModelValidation.modelCacheKey =
    ["b := keys.GetBuilder()", "defer b.Close()", "b.EncodeString(ModelCacheKeyPrefix)", "b.EncodeString(storeID)", "b.EncodeString(modelID)", "return b.Key()"] := rfl

theorem tie_findAuthorizationModelByID : Gen.ModelValidation.findAuthorizationModelByID =
    ["if id != \"\"", "if entry, ok := configurations[id]; ok", "return entry.model, true", "end", "return nil, false", "end", "for _, entry := range configurations", "if entry.latest", "return entry.model, true", "end", "end", "return nil, false"] := rfl

theorem tie_memoryBackend_ReadAuthorizationModel : Gen.ModelValidation.memoryBackend_ReadAuthorizationModel =
    ["_, span := tracer.Start(ctx, \"memory.ReadAuthorizationModel\")", "defer span.End()", "s.mutexModels.RLock()", "defer s.mutexModels.RUnlock()", "tm, ok := s.authorizationModels[store]", "if !ok", "telemetry.TraceError(span, storage.ErrNotFound)", "return nil, storage.ErrNotFound", "end", "if model, ok := findAuthorizationModelByID(id, tm); ok", "if model.GetTypeDefinitions() == nil || len(model.GetTypeDefinitions()) == 0", "return nil, storage.ErrNotFound", "end", "return model, nil", "end", "telemetry.TraceError(span, storage.ErrNotFound)", "return nil, storage.ErrNotFound"] := rfl

theorem tie_memoryBackend_FindLatestAuthorizationModel : Gen.ModelValidation.memoryBackend_FindLatestAuthorizationModel =
    ["_, span := tracer.Start(ctx, \"memory.FindLatestAuthorizationModel\")", "defer span.End()", "s.mutexModels.RLock()", "defer s.mutexModels.RUnlock()", "tm, ok := s.authorizationModels[store]", "if !ok", "telemetry.TraceError(span, storage.ErrNotFound)", "return nil, storage.ErrNotFound", "end", "nsc, ok := findAuthorizationModelByID(\"\", tm)", "if !ok", "telemetry.TraceError(span, storage.ErrNotFound)", "return nil, storage.ErrNotFound", "end", "return nsc, nil"] := rfl

theorem tie_memoryBackend_WriteAuthorizationModel : Gen.ModelValidation.memoryBackend_WriteAuthorizationModel =
    ["_, span := tracer.Start(ctx, \"memory.WriteAuthorizationModel\")", "defer span.End()", "s.mutexModels.Lock()", "defer s.mutexModels.Unlock()", "if _, ok := s.authorizationModels[store]; !ok", "s.authorizationModels[store] = make(map[string]*AuthorizationModelEntry)", "end", "for _, entry := range s.authorizationModels[store]", "entry.latest = false", "end", "s.authorizationModels[store][model.GetId()] = &AuthorizationModelEntry{ model: model, latest: true, }", "return nil"] := rfl

theorem tie_sql_FindLatestAuthorizationModel : Gen.ModelValidation.sql_FindLatestAuthorizationModel =
    ["rows, err := dbInfo.stbl. Select(\"authorization_model_id\", \"schema_version\", \"type\", \"type_definition\", \"serialized_protobuf\"). From(\"authorization_model\"). Where(sq.Eq{\"store\": store}). OrderBy(\"authorization_model_id desc\"). QueryContext(ctx)", "if err != nil", "return nil, dbInfo.HandleSQLError(err)", "end", "defer rows.Close()", "ret, err := ConstructAuthorizationModelFromSQLRows(rows)", "if err != nil", "return nil, dbInfo.HandleSQLError(err)", "end", "return ret, nil"] := rfl

theorem tie_sql_ReadAuthorizationModel : Gen.ModelValidation.sql_ReadAuthorizationModel =
    ["rows, err := dbInfo.stbl. Select(\"authorization_model_id\", \"schema_version\", \"type\", \"type_definition\", \"serialized_protobuf\"). From(\"authorization_model\"). Where(sq.Eq{ \"store\": store, \"authorization_model_id\": modelID, }). QueryContext(ctx)", "if err != nil", "return nil, dbInfo.HandleSQLError(err)", "end", "defer rows.Close()", "ret, err := ConstructAuthorizationModelFromSQLRows(rows)", "if err != nil", "return nil, dbInfo.HandleSQLError(err)", "end", "return ret, nil"] := rfl

/-! ## 2. The state machine -/

section store
variable {M T : Type}

/-- **latest_after_write**: from the empty server, after ANY history of model writes (accepted or rejected), model reads,
resolutions with and without id, and cache evictions at arbitrary points, a request without model id on store `s` is
evaluated against the typesystem built from the LAST accepted model write to `s` (none if there was none). -/
theorem latest_after_write (valid : M → Bool) (build : M → T) (fresh : State M T → Nat) (hf : FreshAbove fresh)
    (ops : List (Op M)) (s : Nat) :
    ((resolve build (run valid build fresh State.empty ops) s none).2).map (·.2) =
      ((acceptedWrites valid s ops).getLast?).map build :=
  latest_after_history valid build fresh hf ops s

/-- … in particular right after a newer model is written: whatever was cached before, the very next model-less request
sees the new model. -/
theorem latest_right_after_write (valid : M → Bool) (build : M → T) (fresh : State M T → Nat) (hf : FreshAbove fresh)
    (ops : List (Op M)) (s : Nat) (m : M) (hv : valid m = true) :
    ((resolve build (run valid build fresh State.empty (ops ++ [.write s m])) s none).2).map (·.2) = some (build m) := by
  rw [latest_after_write valid build fresh hf]
  have : acceptedWrites valid s (ops ++ [Op.write s m]) = acceptedWrites valid s ops ++ [m] := by
    induction ops with
    | nil => simp [acceptedWrites, hv]
    | cons op ops ih =>
      rw [List.cons_append, acceptedWrites_cons, ih, acceptedWrites_cons valid s op ops, List.append_assoc]
  rw [this]; simp

/-- **read_returns_written** -/
theorem read_returns_written (valid : M → Bool) (build : M → T) (fresh : State M T → Nat) (hf : FreshAbove fresh)
    (before after : List (Op M)) (s : Nat) (m : M) (id : Nat)
    (hw : (writeModel valid fresh (run valid build fresh State.empty before) s m).2 = some id) :
    (readModel (run valid build fresh (writeModel valid fresh (run valid build fresh State.empty before) s m).1 after) s id).2
      = some m :=
  Proofs.ModelStore.read_returns_written valid build fresh hf _
    (good_run valid build fresh hf State.empty before (good_empty build)) s m id hw after

/-- **ids_increase**: in every reachable state the ids of each store strictly increase in write order -/
theorem ids_increase (valid : M → Bool) (build : M → T) (fresh : State M T → Nat) (hf : FreshAbove fresh)
    (ops : List (Op M)) (s : Nat) :
    ((rows (run valid build fresh State.empty ops) s).map (·.1)).Pairwise (· < ·) :=
  (good_run valid build fresh hf State.empty ops (good_empty build)).sorted s

/-- the memory backend (`latest` flag = last written) and the SQL backends (`ORDER BY id DESC`) agree on "latest" -/
theorem memory_sqlite_agree_on_latest (valid : M → Bool) (build : M → T) (fresh : State M T → Nat) (hf : FreshAbove fresh)
    (ops : List (Op M)) (s : Nat) :
    latestById (run valid build fresh State.empty ops) s = latestByFlag (run valid build fresh State.empty ops) s :=
  maxById_eq_getLast _ (ids_increase valid build fresh hf ops s)

/-- a model that fails validation is not persisted and gets no id -/
theorem rejected_model_changes_nothing (valid : M → Bool) (fresh : State M T → Nat) (st : State M T) (s : Nat) (m : M)
    (h : valid m = false) : writeModel valid fresh st s m = (st, none) := by
  simp [writeModel, h]

/-- an accepted model is appended under the fresh id; nothing else changes (immutability of what is there) -/
theorem accepted_model_appends (valid : M → Bool) (fresh : State M T → Nat) (st : State M T) (s : Nat) (m : M)
    (h : valid m = true) :
    writeModel valid fresh st s m = ({ st with table := st.table ++ [(s, fresh st, m)] }, some (fresh st)) := by
  simp [writeModel, h]

/-- `nextId` (used by the driver) satisfies the ULID hypothesis -/
theorem nextId_fresh : FreshAbove (nextId : State M T → Nat) := by
  intro st r hr
  unfold nextId
  have : ∀ (l : List (Nat × Nat × M)) (n : Nat), r ∈ l → r.2.1 < l.foldl (fun n r => max n (r.2.1 + 1)) n := by
    intro l
    induction l with
    | nil => intro n h; simp at h
    | cons x xs ih =>
      intro n h
      simp only [List.foldl_cons]
      rcases List.mem_cons.mp h with rfl | h'
      · have mono : ∀ (l : List (Nat × Nat × M)) (a : Nat), a ≤ l.foldl (fun n r => max n (r.2.1 + 1)) a := by
          intro l
          induction l with
          | nil => intro a; simp
          | cons y ys ihy => intro a; simp only [List.foldl_cons]; exact Nat.le_trans (Nat.le_max_left _ _) (ihy _)
        exact Nat.lt_of_lt_of_le (Nat.lt_of_lt_of_le (Nat.lt_succ_self _) (Nat.le_max_right n _)) (mono xs _)
      · exact ih _ h'
  exact this st.table 1 hr

/-! ### the concurrency caveat -/

/-- the statement for overlapping requests: whoever asks for the latest model after a write gets that write -/
def FullLatestUnderOverlap : Prop :=
  ∀ (st : State Nat Nat) (s : Nat) (m : Nat),
    -- a flight started before the write; a caller that arrives after the write joins it
    flightJoin (flightStart st s) = latestByFlag (writeModel (fun _ => true) nextId st s m).1 s

/-- **witness**: one model in the store, a flight starts, a second model is written, a later caller joins the flight
and is told the first model is the latest -/
theorem flight_can_be_stale : ¬ FullLatestUnderOverlap := by
  intro h
  have := h { table := [(0, 1, 10)], mcache := [], tcache := [] } 0 20
  revert this
  decide

/-- without overlap (the caller starts its own flight after the write) the answer is the written model -/
theorem flight_after_write_is_fresh (st : State M T) (s : Nat) (m : M) (fresh : State M T → Nat) :
    flightJoin (flightStart (writeModel (fun _ => true) fresh st s m).1 s) = some (fresh st, m) := by
  simp [flightJoin, flightStart, writeModel, latestByFlag, rows_append]

end store

/-! ## 3. Consequences of validation -/

/-- **no computed-userset cycle** (what lets `Dfs` evaluate computed usersets without a depth increment) -/
theorem validate_no_computed_cycle (m : Model) (h : validate m = .ok ()) (td : TypeDef) (htd : td ∈ m.types)
    (rd : RelDef) (hrd : rd ∈ td.rels) : ¬ Path m td.name rd.name rd.name :=
  no_computed_cycle m h td htd rd hrd

/-- **tupleset relations are direct-only** and only receive plain object types -/
theorem validate_tupleset_direct_only (m : Model) (h : validate m = .ok ()) (td : TypeDef) (htd : td ∈ m.types)
    (rd : RelDef) (hrd : rd ∈ td.rels) (p : String × String) (hp : p ∈ rd.rewrite.ttus) :
    ∃ tsRel, m.findRel td.name p.1 = some tsRel ∧ tsRel.rewrite = .this ∧ ∀ x ∈ tsRel.restrs, x.rel = "" ∧ x.wild = false :=
  tupleset_direct_only m h td htd rd hrd p hp

/-- **type restrictions reference declared types, relations and conditions** (C18's `RestrsWF`) -/
theorem validate_restrs_defined (m : Model) (h : validate m = .ok ()) (td : TypeDef) (htd : td ∈ m.types) (rd : RelDef)
    (hrd : rd ∈ td.rels) (x : Restr) (hx : x ∈ rd.restrs) :
    (findType m x.typ).isSome = true ∧ (x.rel ≠ "" → (m.findRel x.typ x.rel).isSome = true) ∧
    (x.cond ≠ "" → (m.findCond x.cond).isSome = true) :=
  let r := restrs_defined m h td htd rd hrd x hx
  ⟨r.1, r.2.1, r.2.2.1⟩

/-- names are unique and every relation is found under its name -/
theorem validate_names_unique (m : Model) (h : validate m = .ok ()) :
    (m.types.map (·.name)).Nodup ∧ (∀ td ∈ m.types, (td.rels.map (·.name)).Nodup) ∧
    ∀ td ∈ m.types, ∀ rd ∈ td.rels, m.findRel td.name rd.name = some rd :=
  let hv := validate_ok m h
  ⟨hv.typesNodup, hv.relsNodup, fun td htd rd hrd => findRel_of_mem m hv td htd rd hrd⟩

/-- every relation of a validated model passed the code's own entrypoint and cycle checks -/
theorem validate_every_relation_checked (m : Model) (h : validate m = .ok ()) (td : TypeDef) (htd : td ∈ m.types)
    (rd : RelDef) (hrd : rd ∈ td.rels) :
    entrypointsValid m td.name rd = .ok () ∧ noCycle m td.name rd = .ok () :=
  let p := validateRelation_parts m td.name rd ((validate_ok m h).relations td htd rd hrd)
  ⟨p.2.2.1, p.2.2.2⟩

/-- the semantic statement behind the entrypoint check — NOT proved (the Go algorithm cuts the search with a visited map
whose inner maps are shared between sibling branches); the driver evaluates it on every model the real code accepts -/
def FullEntrypointsSound : Prop := ∀ m : Model, validate m = .ok () → unreachable m = []

/-! ## 4. Non-vacuity -/

def mOK : Model :=
  { types := [{ name := "user", rels := [] },
              { name := "doc", rels := [
                  { name := "parent", rewrite := .this, restrs := [{ typ := "doc", rel := "", wild := false, cond := "" }] },
                  { name := "owner", rewrite := .this, restrs := [{ typ := "user", rel := "", wild := false, cond := "" }] },
                  { name := "viewer", rewrite := .union [.computed "owner", .ttu "parent" "viewer"], restrs := [] }] }],
    conds := [] }

example : validate mOK = .ok () := by decide
example : unreachable mOK = [] := by decide

/-- a computed-userset cycle with entrypoints is rejected as a cycle -/
example : validate
    { types := [{ name := "user", rels := [] },
                { name := "doc", rels := [
                    { name := "a", rewrite := .union [.this, .computed "b"], restrs := [{ typ := "user", rel := "", wild := false, cond := "" }] },
                    { name := "b", rewrite := .union [.this, .computed "a"], restrs := [{ typ := "user", rel := "", wild := false, cond := "" }] }] }],
      conds := [] } = .error (.cycle "doc" "a") := by decide

/-- the hypotheses of the history theorems are satisfiable: `nextId` is a fresh-id generator and a history with two
accepted writes, an eviction and a rejected write resolves to the second model -/
example : ((resolve (fun m : Nat => m * 2)
    (run (fun m => m != 0) (fun m : Nat => m * 2) nextId State.empty
      [.write 0 5, .resolve 0 none, .write 0 7, .evictTs (0, 1), .write 0 0, .write 1 9]) 0 none).2).map (·.2) = some 14 := by
  decide

/-! ## The resolver's singleflight and cache keys (regenerated: `Gen.ResolverKeys`)

`flight_can_be_stale` above is about WHEN a shared latest-lookup was read; WHOSE model a shared lookup returns is decided by
the key: it must determine every argument of the datastore call the flight shares. -/

/-- the latest-lookup flights are keyed by the store, the by-id flight by store AND model id, both caches by store and
model id — every argument of the shared datastore call occurs in the key -/
theorem tie_resolver_flight_keys :
    Gen.ResolverKeys.flightKeys.all OpenFGAVerif.Model.Resolver.keyCoversCall = true ∧
    OpenFGAVerif.Model.Resolver.argsOf OpenFGAVerif.Model.Resolver.readKeyPieces = ["storeID", "modelID"] ∧
    OpenFGAVerif.Model.Resolver.argsOf OpenFGAVerif.Model.Resolver.latestKeyPieces = ["storeID"] ∧
    Gen.ResolverKeys.cacheKeys.all (fun c => c.2.contains "storeID" && c.2.contains "modelID") = true := by decide

/-- **an explicit model id resolves to exactly that model of exactly that store**, for every schedule of overlapping
requests (flights shared by key, results memoised) -/
theorem resolved_model_is_the_requested_one
    (byId : OpenFGAVerif.Model.Resolver.Bytes → OpenFGAVerif.Model.Resolver.Bytes → Option Nat)
    (latest : OpenFGAVerif.Model.Resolver.Bytes → Option Nat)
    (evs : List (OpenFGAVerif.Model.Resolver.Ev OpenFGAVerif.Model.Resolver.Req))
    (hall : ∀ r, OpenFGAVerif.Model.Resolver.Ev.arrive r ∈ evs → OpenFGAVerif.ResolverKeys.SlashFree r) :
    ∀ out ∈ (OpenFGAVerif.Model.Resolver.run OpenFGAVerif.Model.Resolver.groupKey (OpenFGAVerif.ResolverKeys.dsOf byId latest)
        OpenFGAVerif.Model.Resolver.memoById
        (OpenFGAVerif.Model.Resolver.empty : OpenFGAVerif.Model.Resolver.St OpenFGAVerif.Model.Resolver.Bytes OpenFGAVerif.Model.Resolver.Req Nat) evs).2,
      out.2 = OpenFGAVerif.ResolverKeys.dsOf byId latest out.1 :=
  OpenFGAVerif.ResolverKeys.resolve_exact byId latest evs hall

end OpenFGAVerif.C17
