/-
C18 — Tuple validation accepts exactly what the model allows.

Model: `Model.Validation` (ValidateTupleForWrite and everything it calls, WriteCommand's per-tuple checks, the
contextual-tuple path, the delete-key checks, the generated request validation, proto.Size of the context).
Spec: `Spec.Allowed.allowed` (clauses 1–5 of the property).  Data regenerated from the Go source: `Gen.Validation`
(statement skeletons of every function involved, the context limit).

Results
  * `write_accepts_iff` / `contextual_accepts_iff`: the EXACT set of tuples each path accepts (for every model whose type
    restrictions are well-formed, which model validation guarantees — C17).
  * The code is laxer than the property (finding F16: the condition is looked up on any restriction of the same user
    TYPE; finding F8: contextual tuples skip the self-reference and size checks).  So the full statements stay visible as
    `FullWriteIffAllowed` / `FullContextualIffAllowed`, each with a proved negation witness, the proved direction
    (`allowed_imp_write_accepts`: nothing the model allows is ever rejected) and a `_partial` equivalence under the
    hypothesis that excludes the gap (`UniformConds`: a relation does not mix conditions across the shapes of one type).
  * `rejected_write_changes_nothing`, `delete_names_one_tuple`.
-/
import OpenFGAVerif.Proofs.ValidationMain
import OpenFGAVerif.Gen.Validation
import OpenFGAVerif.Props.ReqValidate
import OpenFGAVerif.Props.Misc3

namespace OpenFGAVerif.C18
open OpenFGAVerif.Model.TupleStr (Bytes cColon cHash cAt cStar cSpace wildcard runes isControl indexByte lastIndexByte splitObject buildObject getType splitObjectRelation getRelation toObjectRelationString getObjectRelationAsString toUserParts isValidObject isValidRelation isValidUserID isValidUserset isValidUser isObjectRelation isTypedWildcard isWildcard typedPublicWildcard)
open OpenFGAVerif.Spec.TupleStr OpenFGAVerif.Proofs.TupleStr
open OpenFGAVerif.Model.Validation OpenFGAVerif.Spec.Allowed OpenFGAVerif.Proofs.Validation
open OpenFGAVerif.Model.Condition (Ctx Std TypeRef TypeName)

/-! ## 1. Ties: the functions the model mirrors, statement by statement, as they are in /repo today -/

theorem tie_validateUserObjectRelation : Gen.Validation.validateUserObjectRelation =
    ["if err := ValidateUser(typesys, tk.GetUser()); err != nil", "return err", "end", "if err := ValidateObject(typesys, tk); err != nil", "return err", "end", "if err := ValidateRelation(typesys, tk); err != nil", "return err", "end", "return nil"] := rfl

theorem tie_validateTupleForWrite : Gen.Validation.validateTupleForWrite =
    ["if err := ValidateUserObjectRelation(typesys, tk); err != nil", "return &tuple.InvalidTupleError{Cause: err, TupleKey: tk}", "end", "return ValidateTupleForRead(typesys, tk)"] := rfl

theorem tie_validateTupleForRead : Gen.Validation.validateTupleForRead =
    ["if err := validateTuplesetRestrictions(typesys, tk); err != nil", "return &tuple.InvalidTupleError{Cause: err, TupleKey: tk}", "end", "objectType := tuple.GetType(tk.GetObject())", "relation := tk.GetRelation()", "hasTypeInfo, err := typesys.HasTypeInfo(objectType, relation)", "if err != nil", "return err", "end", "if hasTypeInfo", "err := validateTypeRestrictions(typesys, tk)", "if err != nil", "return &tuple.InvalidTupleError{Cause: err, TupleKey: tk}", "end", "if err := validateCondition(typesys, tk); err != nil", "return err", "end", "end", "return nil"] := rfl

theorem tie_validateTuplesetRestrictions : Gen.Validation.validateTuplesetRestrictions =
    ["objectType := tuple.GetType(tk.GetObject())", "relation := tk.GetRelation()", "isTupleset, err := typesys.IsTuplesetRelation(objectType, relation)", "if err != nil", "return err", "end", "if !isTupleset", "return nil", "end", "rel, err := typesys.GetRelation(objectType, relation)", "if err != nil", "return err", "end", "rewrite := rel.GetRewrite().GetUserset()", "if rewrite != nil", "if _, ok := rewrite.(*openfgav1.Userset_This); !ok", "return fmt.Errorf(\"unexpected rewrite encountered with tupleset relation '%s#%s'\", objectType, relation)", "end", "end", "user := tk.GetUser()", "if tuple.IsWildcard(user)", "return fmt.Errorf(\"unexpected wildcard relationship with tupleset relation '%s#%s'\", objectType, relation)", "end", "if !tuple.IsValidObject(user)", "return fmt.Errorf(\"unexpected user '%s' with tupleset relation '%s#%s'\", user, objectType, relation)", "end", "return nil"] := rfl

theorem tie_validateTypeRestrictions : Gen.Validation.validateTypeRestrictions =
    ["objectType := tuple.GetType(tk.GetObject())", "userObject, userRel := tuple.SplitObjectRelation(tk.GetUser())", "userType, _ := tuple.SplitObject(userObject)", "typeDefinitionForObject, ok := typesys.GetTypeDefinition(objectType)", "if !ok", "return fmt.Errorf(\"type '%s' does not exist in the authorization model\", objectType)", "end", "relationsForObject := typeDefinitionForObject.GetMetadata().GetRelations()", "relationInformation := relationsForObject[tk.GetRelation()]", "user := tk.GetUser()", "if tuple.IsObjectRelation(user)", "for _, typeInformation := range relationInformation.GetDirectlyRelatedUserTypes()", "if typeInformation.GetType() == userType && typeInformation.GetRelation() == userRel", "return nil", "end", "end", "return fmt.Errorf(\"'%s#%s' is not an allowed type restriction for '%s#%s'\", userType, userRel, objectType, tk.GetRelation())", "end", "if tuple.IsTypedWildcard(user)", "for _, typeInformation := range relationInformation.GetDirectlyRelatedUserTypes()", "if typeInformation.GetType() == userType && typeInformation.GetWildcard() != nil", "return nil", "end", "end", "return fmt.Errorf(\"the typed wildcard '%s' is not an allowed type restriction for '%s#%s'\", user, objectType, tk.GetRelation())", "end", "for _, typeInformation := range relationInformation.GetDirectlyRelatedUserTypes()", "if typeInformation.GetType() == userType && typeInformation.GetWildcard() == nil && typeInformation.GetRelation() == \"\"", "return nil", "end", "end", "return fmt.Errorf(\"type '%s' is not an allowed type restriction for '%s#%s'\", userType, objectType, tk.GetRelation())"] := rfl

theorem tie_validateCondition : Gen.Validation.validateCondition =
    ["objectType := tuple.GetType(tk.GetObject())", "userType := tuple.GetType(tk.GetUser())", "userRelation := tuple.GetRelation(tk.GetUser())", "typeRestrictions, err := typesys.GetDirectlyRelatedUserTypes(objectType, tk.GetRelation())", "if err != nil", "return err", "end", "if tk.GetCondition() == nil", "for _, directlyRelatedType := range typeRestrictions", "if directlyRelatedType.GetCondition() != \"\"", "continue", "end", "if directlyRelatedType.GetType() != userType", "continue", "end", "if directlyRelatedType.GetRelationOrWildcard() != nil", "if directlyRelatedType.GetRelation() != \"\" && directlyRelatedType.GetRelation() != userRelation", "continue", "end", "if directlyRelatedType.GetWildcard() != nil && !tuple.IsTypedWildcard(tk.GetUser())", "continue", "end", "else", "if tuple.IsTypedWildcard(tk.GetUser())", "continue", "end", "end", "return nil", "end", "return &tuple.InvalidConditionalTupleError{ Cause: fmt.Errorf(\"condition is missing\"), TupleKey: tk, }", "end", "if utils.ContainsForbiddenChars(tk.GetCondition().GetName())", "return &tuple.InvalidConditionalTupleError{ Cause: fmt.Errorf(\"condition name contains forbidden characters\"), TupleKey: tk, }", "end", "condition, ok := typesys.GetConditions()[tk.GetCondition().GetName()]", "if !ok", "return &tuple.InvalidConditionalTupleError{ Cause: fmt.Errorf(\"undefined condition\"), TupleKey: tk, }", "end", "validCondition := false", "for _, directlyRelatedType := range typeRestrictions", "if directlyRelatedType.GetType() == userType && directlyRelatedType.GetCondition() == tk.GetCondition().GetName()", "validCondition = true", "break", "end", "end", "if !validCondition", "return &tuple.InvalidConditionalTupleError{ Cause: fmt.Errorf(\"invalid condition for type restriction\"), TupleKey: tk, }", "end", "contextStruct := tk.GetCondition().GetContext()", "if err := ValidateStruct(contextStruct); err != nil", "return &tuple.InvalidConditionalTupleError{ Cause: err, TupleKey: tk, }", "end", "contextFieldMap := contextStruct.GetFields()", "typedParams, err := condition.CastContextToTypedParameters(contextFieldMap)", "if err != nil", "return &tuple.InvalidConditionalTupleError{ Cause: err, TupleKey: tk, }", "end", "for key := range contextFieldMap", "_, ok := typedParams[key]", "if !ok", "return &tuple.InvalidConditionalTupleError{ Cause: fmt.Errorf(\"found invalid context parameter: %s\", key), TupleKey: tk, }", "end", "end", "return nil"] := rfl

theorem tie_validateObject : Gen.Validation.validateObject =
    ["object := tk.GetObject()", "if !tuple.IsValidObject(object)", "return fmt.Errorf(\"invalid 'object' field format\")", "end", "objectType, id := tuple.SplitObject(object)", "if id == tuple.Wildcard", "return fmt.Errorf(\"the 'object' field cannot reference a typed wildcard\")", "end", "_, ok := typesys.GetTypeDefinition(objectType)", "if !ok", "return &tuple.TypeNotFoundError{TypeName: objectType}", "end", "return nil"] := rfl

theorem tie_validateRelation : Gen.Validation.validateRelation =
    ["object := tk.GetObject()", "relation := tk.GetRelation()", "if !tuple.IsValidRelation(relation)", "return fmt.Errorf(\"the 'relation' field is malformed\")", "end", "objectType := tuple.GetType(object)", "_, err := typesys.GetRelation(objectType, relation)", "if err != nil", "if errors.Is(err, typesystem.ErrObjectTypeUndefined)", "return &tuple.TypeNotFoundError{TypeName: objectType}", "end", "if errors.Is(err, typesystem.ErrRelationUndefined)", "return &tuple.RelationNotFoundError{Relation: relation, TypeName: objectType}", "end", "return err", "end", "return nil"] := rfl

theorem tie_validateUser : Gen.Validation.validateUser =
    ["if !tuple.IsValidUser(user)", "return fmt.Errorf(\"the 'user' field is malformed\")", "end", "isValidObject := tuple.IsValidObject(user)", "isValidUserset := tuple.IsObjectRelation(user)", "userObject, userRelation := tuple.SplitObjectRelation(user)", "userObjectType := tuple.GetType(userObject)", "schemaVersion := typesys.GetSchemaVersion()", "if typesystem.IsSchemaVersionSupported(schemaVersion)", "if !isValidObject && !isValidUserset", "return fmt.Errorf(\"the 'user' field must be an object (e.g. document:1) or an 'object#relation' or a typed wildcard (e.g. group:*)\")", "end", "_, ok := typesys.GetTypeDefinition(userObjectType)", "if !ok", "return &tuple.TypeNotFoundError{TypeName: userObjectType}", "end", "end", "if isValidUserset", "_, err := typesys.GetRelation(userObjectType, userRelation)", "if err != nil", "if errors.Is(err, typesystem.ErrObjectTypeUndefined)", "return &tuple.TypeNotFoundError{TypeName: userObjectType}", "end", "if errors.Is(err, typesystem.ErrRelationUndefined)", "return &tuple.RelationNotFoundError{Relation: userRelation, TypeName: userObjectType}", "end", "end", "end", "return nil"] := rfl

theorem tie_validateStruct : Gen.Validation.validateStruct =
    ["if s == nil", "return nil", "end", "for key, value := range s.GetFields()", "if utils.ContainsForbiddenChars(key)", "return fmt.Errorf(\"context key %q contains forbidden characters\", key)", "end", "if err := validateValueForbiddenChars(value); err != nil", "return err", "end", "end", "return nil"] := rfl

theorem tie_validateValueForbiddenChars : Gen.Validation.validateValueForbiddenChars =
    ["if v == nil", "return nil", "end", "typeswitch val := v.GetKind().(type)", "case *structpb.Value_StringValue", "if utils.ContainsForbiddenChars(val.StringValue)", "return fmt.Errorf(\"context value %q contains forbidden characters\", val.StringValue)", "end", "case *structpb.Value_ListValue", "for _, item := range val.ListValue.GetValues()", "if err := validateValueForbiddenChars(item); err != nil", "return err", "end", "end", "case *structpb.Value_StructValue", "if err := ValidateStruct(val.StructValue); err != nil", "return err", "end", "end", "return nil"] := rfl

theorem tie_containsForbiddenChars : Gen.Validation.containsForbiddenChars =
    ["return strings.ContainsFunc(s, unicode.IsControl)"] := rfl

theorem tie_evaluableCondition_CastContextToTypedParameters : Gen.Validation.evaluableCondition_CastContextToTypedParameters =
    ["if len(contextMap) == 0", "return nil, nil", "end", "parameterTypes := e.GetParameters()", "if len(parameterTypes) == 0", "return nil, &ParameterTypeError{ Condition: e.Name, Cause: fmt.Errorf(\"no parameters defined for the condition\"), }", "end", "converted := make(map[string]any, len(contextMap))", "for parameterKey, paramTypeRef := range parameterTypes", "contextValue, ok := contextMap[parameterKey]", "if !ok", "continue", "end", "varType, err := types.DecodeParameterType(paramTypeRef)", "if err != nil", "return nil, &ParameterTypeError{ Condition: e.Name, Cause: fmt.Errorf(\"failed to decode condition parameter type '%s': %w\", paramTypeRef.GetTypeName(), err), }", "end", "convertedParam, err := varType.ConvertValue(contextValue.AsInterface())", "if err != nil", "return nil, &ParameterTypeError{ Condition: e.Name, Cause: fmt.Errorf(\"failed to convert context parameter '%s': %w\", parameterKey, err), }", "end", "converted[parameterKey] = convertedParam", "end", "return converted, nil"] := rfl

theorem tie_writeCommand_Execute : Gen.Validation.writeCommand_Execute =
    ["if err := c.validateWriteRequest(ctx, req); err != nil", "return nil, err", "end", "onDuplicateInsert, err := parseOptionOnDuplicate(req.GetWrites())", "if err != nil", "return nil, err", "end", "onEmptyDelete, err := parseOptionOnMissing(req.GetDeletes())", "if err != nil", "return nil, err", "end", "err = c.datastore.Write( ctx, req.GetStoreId(), req.GetDeletes().GetTupleKeys(), req.GetWrites().GetTupleKeys(), storage.WithOnMissingDelete(onEmptyDelete), storage.WithOnDuplicateInsert(onDuplicateInsert), )", "if err != nil", "if errors.Is(err, storage.ErrTransactionalWriteFailed)", "return nil, status.Error(codes.Aborted, err.Error())", "end", "if errors.Is(err, storage.ErrInvalidWriteInput)", "return nil, serverErrors.WriteFailedDueToInvalidInput(err)", "end", "return nil, serverErrors.HandleError(\"\", err)", "end", "return &openfgav1.WriteResponse{}, nil"] := rfl

theorem tie_writeCommand_validateWriteRequest : Gen.Validation.writeCommand_validateWriteRequest =
    ["ctx, span := tracer.Start(ctx, \"validateWriteRequest\")", "defer span.End()", "store := req.GetStoreId()", "modelID := req.GetAuthorizationModelId()", "deletes := req.GetDeletes().GetTupleKeys()", "writes := req.GetWrites().GetTupleKeys()", "if len(deletes) == 0 && len(writes) == 0", "return serverErrors.ErrInvalidWriteInput", "end", "if len(writes) > 0", "authModel, err := c.datastore.ReadAuthorizationModel(ctx, store, modelID)", "if err != nil", "if errors.Is(err, storage.ErrNotFound)", "return serverErrors.AuthorizationModelNotFound(modelID)", "end", "return serverErrors.HandleError(\"\", err)", "end", "if !typesystem.IsSchemaVersionSupported(authModel.GetSchemaVersion())", "return serverErrors.ValidationError(typesystem.ErrInvalidSchemaVersion)", "end", "typesys, err := typesystem.New(authModel)", "if err != nil", "return err", "end", "for _, tk := range writes", "err := validation.ValidateTupleForWrite(typesys, tk)", "if err != nil", "return serverErrors.ValidationError(err)", "end", "err = c.validateNotImplicit(tk)", "if err != nil", "return err", "end", "contextSize := proto.Size(tk.GetCondition().GetContext())", "if contextSize > c.conditionContextByteLimit", "return serverErrors.ValidationError(&tupleUtils.InvalidTupleError{ Cause: fmt.Errorf(\"condition context size limit exceeded: %d bytes exceeds %d bytes\", contextSize, c.conditionContextByteLimit), TupleKey: tk, })", "end", "end", "end", "for _, tk := range deletes", "if ok := tupleUtils.IsValidObject(tk.GetObject()); !ok", "return serverErrors.ValidationError( &tupleUtils.InvalidTupleError{ Cause: fmt.Errorf(\"invalid 'object' field format\"), TupleKey: tk, }, )", "end", "if ok := tupleUtils.IsValidRelation(tk.GetRelation()); !ok", "return serverErrors.ValidationError( &tupleUtils.InvalidTupleError{ Cause: fmt.Errorf(\"the 'relation' field is malformed\"), TupleKey: tk, }, )", "end", "if ok := tupleUtils.IsValidUser(tk.GetUser()); !ok", "return serverErrors.ValidationError( &tupleUtils.InvalidTupleError{ Cause: fmt.Errorf(\"the 'user' field is malformed\"), TupleKey: tk, }, )", "end", "end", "if err := c.validateNoDuplicatesAndCorrectSize(deletes, writes); err != nil", "return err", "end", "return nil"] := rfl

theorem tie_writeCommand_validateNotImplicit : Gen.Validation.writeCommand_validateNotImplicit =
    ["userObject, userRelation := tupleUtils.SplitObjectRelation(tk.GetUser())", "if tk.GetRelation() == userRelation && tk.GetObject() == userObject", "return serverErrors.ValidationError(&tupleUtils.InvalidTupleError{ Cause: fmt.Errorf(\"cannot write a tuple that is implicit\"), TupleKey: tk, })", "end", "return nil"] := rfl

theorem tie_validateCheckRequest : Gen.Validation.validateCheckRequest =
    ["if err := validation.ValidateUserObjectRelation(typesys, tuple.ConvertCheckRequestTupleKeyToTupleKey(tupleKey)); err != nil", "return &InvalidRelationError{Cause: err}", "end", "if err := validation.ValidateStruct(requestCtx); err != nil", "return &InvalidContextError{Cause: err}", "end", "for _, ctxTuple := range contextualTuples.GetTupleKeys()", "if err := validation.ValidateTupleForWrite(typesys, ctxTuple); err != nil", "return &InvalidTupleError{Cause: err}", "end", "end", "return nil"] := rfl

theorem tie_typeSystem_HasTypeInfo : Gen.Validation.typeSystem_HasTypeInfo =
    ["r, err := t.GetRelation(objectType, relation)", "if err != nil", "return false, err", "end", "if IsSchemaVersionSupported(t.GetSchemaVersion()) && r.GetTypeInfo() != nil", "return true, nil", "end", "return false, nil"] := rfl

theorem tie_typeSystem_IsTuplesetRelation : Gen.Validation.typeSystem_IsTuplesetRelation =
    ["_, err := t.GetRelation(objectType, relation)", "if err != nil", "return false, err", "end", "for _, ttuDefinitions := range t.ttuRelations[objectType]", "for _, ttuDef := range ttuDefinitions", "if ttuDef.GetTupleset().GetRelation() == relation", "return true, nil", "end", "end", "end", "return false, nil"] := rfl

theorem tie_typeSystem_GetRelation : Gen.Validation.typeSystem_GetRelation =
    ["relations, err := t.GetRelations(objectType)", "if err != nil", "return nil, err", "end", "r, ok := relations[relation]", "if !ok", "return nil, &RelationUndefinedError{ ObjectType: objectType, Relation: relation, Err: ErrRelationUndefined, }", "end", "return r, nil"] := rfl

theorem tie_typeSystem_GetRelations : Gen.Validation.typeSystem_GetRelations =
    ["_, ok := t.GetTypeDefinition(objectType)", "if !ok", "return nil, &ObjectTypeUndefinedError{ ObjectType: objectType, Err: ErrObjectTypeUndefined, }", "end", "return t.relations[objectType], nil"] := rfl

theorem tie_memoryMatch : Gen.Validation.memoryMatch =
    ["if target.GetObject() != \"\"", "td, objectid := tupleUtils.SplitObject(target.GetObject())", "if objectid == \"\"", "if td != t.ObjectType", "return false", "end", "else", "if td != t.ObjectType || objectid != t.ObjectID", "return false", "end", "end", "end", "if target.GetRelation() != \"\" && t.Relation != target.GetRelation()", "return false", "end", "if target.GetUser() != \"\"", "userType, userID, _ := tupleUtils.ToUserParts(target.GetUser())", "if userID != \"\" && t.User != target.GetUser()", "return false", "else", "if userID == \"\" && !strings.HasPrefix(t.User, userType+\":\")", "return false", "end", "end", "end", "return true"] := rfl

/-- the context limit the API uses is the configured default (Server.Write does not override it) -/
theorem tie_limit :
    Gen.Validation.defaultWriteContextByteLimit = 32768 ∧ Gen.Validation.writeCommandDefaultLimit = true ∧
    Gen.Validation.serverWriteOverridesLimit = false ∧ Gen.Validation.serverWriteValidatesRequest = true := by decide

/-! ## 2. What each path accepts, exactly -/

/-- **Write.** `WriteCommand`'s checks on one written tuple succeed exactly on `acceptedByWrite`. -/
theorem write_accepts_iff (std : Std) (limit : Nat) (m : Model) (t : Tuple) (hwf : RestrsWF m) :
    writeCheck std limit m t = .ok () ↔ acceptedByWrite std limit m t = true :=
  writeCheck_ok_iff std limit m t hwf

/-- **Contextual tuples.** `ValidateTupleForWrite` alone: no self-reference check, no size limit. -/
theorem contextual_accepts_iff (std : Std) (m : Model) (t : Tuple) (hwf : RestrsWF m) :
    contextualCheck std m t = .ok () ↔ acceptedAsContextual std m t = true :=
  contextualCheck_ok_iff std m t hwf

/-- the two paths differ exactly by the write-only checks (the "separate table" of DESIGN §7 C18) -/
theorem write_eq_contextual_plus (std : Std) (limit : Nat) (m : Model) (t : Tuple) (hwf : RestrsWF m) :
    writeCheck std limit m t = .ok () ↔
      contextualCheck std m t = .ok () ∧ t.user ≠ t.obj ++ 35 :: t.rel ∧ ctxSize t ≤ limit := by
  rw [write_accepts_iff std limit m t hwf, contextual_accepts_iff std m t hwf]
  unfold acceptedByWrite acceptedAsContextual
  rw [allowedWith_split]
  simp [and_assoc]

/-- the API adds the generated request validation in front -/
theorem api_write_iff (std : Std) (limit : Nat) (m : Model) (t : Tuple) :
    apiWrite std limit m t = .ok () ↔ protoTuple t = true ∧ writeCheck std limit m t = .ok () := by
  unfold apiWrite; cases protoTuple t <;> simp

/-! ## 3. Against the property -/

/-- the property for the Write path, at full strength -/
def FullWriteIffAllowed : Prop :=
  ∀ (std : Std) (limit : Nat) (m : Model) (t : Tuple), RestrsWF m →
    (writeCheck std limit m t = .ok () ↔ Allowed std limit m t)

/-- the property for the contextual-tuple path, at full strength -/
def FullContextualIffAllowed : Prop :=
  ∀ (std : Std) (limit : Nat) (m : Model) (t : Tuple), RestrsWF m →
    (contextualCheck std m t = .ok () ↔ Allowed std limit m t)

/-- **No false rejection**: every tuple the model allows is accepted by Write … -/
theorem allowed_imp_write_accepts (std : Std) (limit : Nat) (m : Model) (t : Tuple) (hwf : RestrsWF m)
    (h : Allowed std limit m t) : writeCheck std limit m t = .ok () := by
  rw [write_accepts_iff std limit m t hwf]
  exact allowedWith_mono restrStrict restrLoose _ _ std m t (fun _ _ rd _ => strict_imp_loose rd t) h

/-- … and as a contextual tuple. -/
theorem allowed_imp_contextual_accepts (std : Std) (limit : Nat) (m : Model) (t : Tuple) (hwf : RestrsWF m)
    (h : Allowed std limit m t) : contextualCheck std m t = .ok () :=
  ((write_eq_contextual_plus std limit m t hwf).mp (allowed_imp_write_accepts std limit m t hwf h)).1

/-- every relation of the model keeps its conditions uniform across the shapes of one user type -/
def ModelUniform (m : Model) : Prop := ∀ td ∈ m.types, ∀ rd ∈ td.rels, UniformConds rd

/-- **`validate_iff_allowed`, partial**: on models that do not mix conditions across shapes, Write accepts exactly
what the model allows. -/
theorem validate_iff_allowed_partial (std : Std) (limit : Nat) (m : Model) (t : Tuple) (hwf : RestrsWF m)
    (hu : ModelUniform m) : writeCheck std limit m t = .ok () ↔ Allowed std limit m t := by
  constructor
  · intro h
    rw [write_accepts_iff std limit m t hwf] at h
    exact allowedWith_mono restrLoose restrStrict _ _ std m t
      (fun td htd rd hrd => loose_imp_strict rd t (hu td htd rd hrd)) h
  · exact allowed_imp_write_accepts std limit m t hwf

/-- the contextual path, partial: additionally the tuple must not be one of those only Write checks for -/
theorem contextual_iff_allowed_partial (std : Std) (limit : Nat) (m : Model) (t : Tuple) (hwf : RestrsWF m)
    (hu : ModelUniform m) (hself : t.user ≠ t.obj ++ 35 :: t.rel) (hsize : ctxSize t ≤ limit) :
    contextualCheck std m t = .ok () ↔ Allowed std limit m t := by
  rw [← validate_iff_allowed_partial std limit m t hwf hu, write_eq_contextual_plus std limit m t hwf]
  exact ⟨fun h => ⟨h, hself, hsize⟩, fun h => h.1⟩

/-! ### negation witnesses (the unchanged code violates the full statements) -/

def std0 : Std := { parseDuration := fun _ => none, parseRFC3339 := fun _ => none, parseIP := fun _ => none }

def sUser : Bytes := [117, 115, 101, 114]
def sDoc : Bytes := [100, 111, 99]
def sViewer : Bytes := [118, 105, 101, 119, 101, 114]
def sC1 : Bytes := [99, 49]

/-- `doc.viewer: [user with c1, user:*]`, `condition c1(x: int)` -/
def m16 : Model :=
  { types := [{ name := sUser, rels := [], tuplesets := [] },
              { name := sDoc, tuplesets := [],
                rels := [{ name := sViewer, direct := true,
                           restrs := [{ typ := sUser, kind := .obj, cond := sC1 }, { typ := sUser, kind := .wild, cond := [] }] }] }],
    conds := [{ name := sC1, params := [("x", TypeRef.mk .int [])] }] }

/-- `doc:1#viewer@user:*` WITH condition c1 -/
def t16 : Tuple := { obj := sDoc ++ [58, 49], rel := sViewer, user := sUser ++ [58, 42], cond := some (sC1, []) }

theorem m16_wf : RestrsWF m16 := by
  intro td htd rd hrd r hr
  simp only [m16, List.mem_cons, List.not_mem_nil, or_false] at htd
  rcases htd with rfl | rfl
  · simp at hrd
  · simp only [List.mem_cons, List.not_mem_nil, or_false] at hrd
    subst hrd
    simp only [List.mem_cons, List.not_mem_nil, or_false] at hr
    rcases hr with rfl | rfl
    · exact ⟨by decide, fun x hx => by cases hx⟩
    · exact ⟨by decide, fun x hx => by cases hx⟩

/-- **F16 witness**: Write accepts the conditioned wildcard although the wildcard restriction carries no condition. -/
theorem write_accepts_not_allowed :
    writeCheck std0 100 m16 t16 = .ok () ∧ contextualCheck std0 m16 t16 = .ok () ∧ ¬ Allowed std0 100 m16 t16 := by
  refine ⟨by decide, by decide, ?_⟩
  unfold Allowed; decide

theorem not_FullWriteIffAllowed : ¬ FullWriteIffAllowed := fun h =>
  write_accepts_not_allowed.2.2 ((h std0 100 m16 t16 m16_wf).mp write_accepts_not_allowed.1)

def sLoopy : Bytes := [108, 111, 111, 112, 121]

/-- `doc.loopy: [user, doc#loopy]` -/
def m8 : Model :=
  { types := [{ name := sUser, rels := [], tuplesets := [] },
              { name := sDoc, tuplesets := [],
                rels := [{ name := sLoopy, direct := true,
                           restrs := [{ typ := sUser, kind := .obj, cond := [] }, { typ := sDoc, kind := .rel sLoopy, cond := [] }] }] }],
    conds := [] }

/-- `doc:1#loopy@doc:1#loopy` -/
def t8 : Tuple := { obj := sDoc ++ [58, 49], rel := sLoopy, user := sDoc ++ [58, 49, 35] ++ sLoopy, cond := none }

theorem m8_wf : RestrsWF m8 := by
  intro td htd rd hrd r hr
  simp only [m8, List.mem_cons, List.not_mem_nil, or_false] at htd
  rcases htd with rfl | rfl
  · simp at hrd
  · simp only [List.mem_cons, List.not_mem_nil, or_false] at hrd
    subst hrd
    simp only [List.mem_cons, List.not_mem_nil, or_false] at hr
    rcases hr with rfl | rfl
    · exact ⟨by decide, fun x hx => by cases hx⟩
    · refine ⟨by decide, fun x hx => ?_⟩
      cases hx
      exact ⟨by decide, _, rfl⟩

/-- **F8 witness**: the contextual path accepts the self-referencing userset that Write rejects as implicit. -/
theorem contextual_accepts_selfref :
    contextualCheck std0 m8 t8 = .ok () ∧ writeCheck std0 100 m8 t8 = .error .implicit ∧ ¬ Allowed std0 100 m8 t8 := by
  refine ⟨by decide, by decide, ?_⟩
  unfold Allowed; decide

theorem not_FullContextualIffAllowed : ¬ FullContextualIffAllowed := fun h =>
  contextual_accepts_selfref.2.2 ((h std0 100 m8 t8 m8_wf).mp contextual_accepts_selfref.1)

/-! ## 4. A rejected write changes nothing; a delete names one tuple -/

/-- `Execute` returns before the datastore is touched when any written tuple or deleted key fails validation
(`tie_writeCommand_Execute`: `validateWriteRequest` is the first statement and the only datastore call comes after). -/
theorem rejected_write_changes_nothing {S E : Type} (ds : S → WriteReq → Except E S) (std : Std) (limit : Nat) (m : Model)
    (st : S) (req : WriteReq) (e : Err) (h : validateWriteRequest std limit m req = .error e) :
    execute ds std limit m st req = (st, .error (.inl e)) := by
  unfold execute; rw [h]

/-- … in particular when one tuple of the batch is not acceptable -/
theorem one_bad_tuple_rejects_batch {S E : Type} (ds : S → WriteReq → Except E S) (std : Std) (limit : Nat) (m : Model)
    (st : S) (req : WriteReq) (t : Tuple) (ht : t ∈ req.writes) (hbad : writeCheck std limit m t ≠ .ok ()) :
    (execute ds std limit m st req).1 = st := by
  unfold execute
  cases hv : validateWriteRequest std limit m req with
  | error e => rfl
  | ok u =>
    exfalso
    cases u
    unfold validateWriteRequest at hv
    rw [bind_ok_iff] at hv
    exact hbad ((checkAll_ok_iff _ _).mp hv.1 t ht)

/-- every failure of the datastore also leaves the state as it was (its own atomicity is C12) -/
theorem failed_write_changes_nothing {S E : Type} (ds : S → WriteReq → Except E S) (std : Std) (limit : Nat) (m : Model)
    (st : S) (req : WriteReq) (h : (execute ds std limit m st req).2 ≠ .ok ()) :
    (execute ds std limit m st req).1 = st := by
  unfold execute at h ⊢
  cases hv : validateWriteRequest std limit m req with
  | error e => rfl
  | ok u =>
    rw [hv] at h
    dsimp only at h ⊢
    cases hd : ds st req with
    | error e => rfl
    | ok st' => rw [hd] at h; simp at h

/-- **a delete key that passes validation names exactly one tuple**: against a stored tuple with a typed object, the
memory backend's `match` is equality of the three fields (no empty-field or empty-id wildcards are reachable) -/
theorem delete_names_one_tuple (so sr su ko kr ku : Bytes) (hs : (58 : UInt8) ∈ so)
    (h : deleteCheck ko kr ku = .ok ()) :
    memMatch so sr su ko kr ku = true ↔ so = ko ∧ sr = kr ∧ su = ku := by
  unfold deleteCheck at h
  rw [isValidObject_eq_grammarB, isValidRelation_eq_grammarB, isValidUser_eq_grammarB] at h
  cases hgo : grammarObjectB ko with
  | false => rw [hgo] at h; simp at h
  | true =>
    cases hgr : grammarRelationB kr with
    | false => rw [hgo, hgr] at h; simp at h
    | true =>
      cases hgu : grammarUserB ku with
      | false => rw [hgo, hgr, hgu] at h; simp at h
      | true =>
        obtain ⟨kt, ki, sk⟩ := objShape_of ko hgo
        obtain ⟨hrne, _⟩ := grammarRelation_facts kr hgr
        -- the user key is never a prefix pattern: its id part is non-empty
        have hu : ku ≠ [] ∧ (toUserParts ku).2.1 ≠ [] := by
          unfold grammarUserB at hgu
          simp only [Bool.or_eq_true, beq_iff_eq] at hgu
          rcases hgu with ((hw | hid) | ho) | hus
          · subst hw; decide
          · unfold grammarUserIDB at hid
            simp only [Bool.and_eq_true, decide_eq_true_eq] at hid
            have h58 := plain_not_mem exUserID ku hid.2 58 (by decide)
            have h35 := plain_not_mem exUserID ku hid.2 35 (by decide)
            refine ⟨hid.1, ?_⟩
            simp [toUserParts, splitObjectRelation_no_hash ku h35, splitObject_no_colon ku h58, hid.1]
          · obtain ⟨ut, ui, s⟩ := objShape_of ku ho
            refine ⟨by rw [s.eq]; simp, ?_⟩
            simp [toUserParts, s.splitObjectRelation_eq, s.splitObject_eq, s.i_ne]
          · obtain ⟨ut, ui, ur, s⟩ := usShape_of ku hus
            refine ⟨by rw [s.eq]; simp, ?_⟩
            simp [toUserParts, s.splitObjectRelation_eq, s.splitObject_uo, s.i_ne]
        unfold memMatch
        have hko : (ko == ([] : Bytes)) = false := by
          apply beq_false_of_ne; rw [sk.eq]; simp
        have hkr : (kr == ([] : Bytes)) = false := beq_false_of_ne hrne
        have hku : (ku == ([] : Bytes)) = false := beq_false_of_ne hu.1
        have hki : (ki == ([] : Bytes)) = false := beq_false_of_ne sk.i_ne
        have hid : ((toUserParts ku).2.1 != ([] : Bytes)) = true := by simpa [bne_iff_ne] using hu.2
        simp only [hko, hkr, hku, sk.splitObject_eq, hki, Bool.false_or, Bool.false_eq_true, ↓reduceIte]
        rw [if_pos hid]
        have hso := buildObject_splitObject so hs
        rcases hsp : splitObject so with ⟨st, sid⟩
        rw [hsp] at hso
        simp only [Bool.and_eq_true, beq_iff_eq]
        constructor
        · rintro ⟨⟨⟨h1, h2⟩, h3⟩, h4⟩
          refine ⟨?_, h3, h4⟩
          rw [← hso, sk.eq, buildObject_eq, ← h1, ← h2]
        · rintro ⟨h1, h2, h3⟩
          subst h1
          rw [sk.splitObject_eq] at hsp
          simp only [Prod.mk.injEq] at hsp
          exact ⟨⟨⟨hsp.1, hsp.2⟩, h2⟩, h3⟩

/-! ## 5. Non-vacuity -/

/-- `doc:1#viewer@user:a` WITH c1 is allowed by `m16` and accepted on both paths; the hypotheses `RestrsWF` hold -/
example : Allowed std0 100 m16 { obj := sDoc ++ [58, 49], rel := sViewer, user := sUser ++ [58, 97], cond := some (sC1, []) } ∧
    writeCheck std0 100 m16 { obj := sDoc ++ [58, 49], rel := sViewer, user := sUser ++ [58, 97], cond := some (sC1, []) } = .ok () := by
  constructor
  · unfold Allowed; decide
  · decide

/-- the unconditioned wildcard is allowed too; the unconditioned object is rejected with "condition is missing" -/
example : writeCheck std0 100 m16 { obj := sDoc ++ [58, 49], rel := sViewer, user := sUser ++ [58, 42], cond := none } = .ok () ∧
    writeCheck std0 100 m16 { obj := sDoc ++ [58, 49], rel := sViewer, user := sUser ++ [58, 97], cond := none } = .error .condMissing := by
  constructor <;> decide

/-- `ModelUniform` is satisfiable by a model with conditions: `doc.viewer: [user with c1, user:* with c1]` -/
example : ModelUniform
    { types := [{ name := sDoc, tuplesets := [],
                  rels := [{ name := sViewer, direct := true,
                             restrs := [{ typ := sUser, kind := .obj, cond := sC1 }, { typ := sUser, kind := .wild, cond := sC1 }] }] }],
      conds := [] } := by
  intro td htd rd hrd
  simp only [List.mem_cons, List.not_mem_nil, or_false] at htd
  subst htd
  simp only [List.mem_cons, List.not_mem_nil, or_false] at hrd
  subst hrd
  intro r hr r' hr' _
  exact ⟨r', hr', rfl, rfl, by
    simp only [List.mem_cons, List.not_mem_nil, or_false] at hr hr'
    rcases hr with rfl | rfl <;> rcases hr' with rfl | rfl <;> rfl⟩

/-- a delete key with an empty object id does not pass the delete checks (F17, fixed) -/
example : deleteCheck (sDoc ++ [58]) sViewer (sUser ++ [58, 97]) = .error .objectFormat := by decide

end OpenFGAVerif.C18
