/-
C19 — Malformed or hostile input never crashes the server.   **Partial by design.**

What the proof carries:
* the complete list of syntactically recognisable panic sites of the anchored files (explicit `panic(`, constant
  index, unchecked type assertion) is regenerated from the source on every run and must equal the *reviewed*
  table below (`sites_reviewed`, by `rfl`): a new site breaks the build and has to be reviewed;  likewise every
  explicit `panic(` of the rest of the production code (`other_panics_reviewed`), the recovery points
  (`recoveries_reviewed`) and the position of the recovery interceptors (`recovery_interceptors_first`);
* for each site on a modelled path the guard that makes it unreachable for validated models / requests
  (`no_panic_under_validation`: `rewriteContainsSelf_no_panic`, `exclusion_no_panic`, `evaluate_no_panic`,
  `relationRef_unreachable`), with the negative witnesses showing the guards are needed;
* no hang in the modelled logic: the model functions are total (Lean accepts them), the evaluation of the Check
  engine terminates with an explicit bound (C20 `check_terminates`, re-exported as `modelled_check_total`) and the
  iterative context serialisation of keys/xtypes.go equals its recursive reading (C24, `context_serialisation_total`).

What it does NOT carry (listed honestly in `reviewed` / `otherReviewed` as "not covered", and exercised only by the
malformed stream of harness/c19 as supporting evidence): implicit runtime panics (nil dereference, non-constant
index, map writes), third-party code (openfga/language graph builder, cel-go, protobuf), memory growth, latency.
-/
import OpenFGAVerif.Model.Panics
import OpenFGAVerif.Gen.Panics
import OpenFGAVerif.Gen.Release
import OpenFGAVerif.Proofs.CheckV1Termination
import OpenFGAVerif.Proofs.KeysPb
import OpenFGAVerif.Props.ReqValidate

namespace OpenFGAVerif.C19
open OpenFGAVerif.Model.Panics

deriving instance DecidableEq for Except

/-! ## the reviewed site tables -/

/-- (site, class, argument): `guarded` = unreachable by the named lemma, `uncalled`, `typed` = safe by the Go types
of the values involved, `startup` = not reachable from a request -/
def reviewed : List (String × String × String) :=
  [("check.go:exclusion:index:handlers[0]", "guarded", "exclusion_no_panic"),
   ("check.go:exclusion:index:handlers[1]", "guarded", "exclusion_no_panic"),
   ("condition.go:EvaluableCondition.Evaluate:index:contextMaps[0]", "guarded", "evaluate_no_panic"),
   ("condition.go:init:panic:fmt.Sprintf(\"failed to construct CEL base env: %v\", err)", "startup", "package initialisation (CEL base environment); not request reachable"),
   ("server.go:MustNewServerWithOpts:panic:fmt.Errorf(\"failed to construct the OpenFGA server: %w\", err)", "startup", "server construction; not request reachable"),
   ("typesystem.go:GetRelationReferenceAsString:panic:\"unexpected relation reference\"", "uncalled", "relationRef_unreachable"),
   ("typesystem.go:RewriteContainsSelf:assert:result.(bool)", "typed", "the handler returns `true` or nil; guarded by `result != nil &&`"),
   ("typesystem.go:RewriteContainsSelf:panic:\"unexpected error during rewrite evaluation\"", "guarded", "rewriteContainsSelf_no_panic"),
   ("typesystem.go:TypeSystem.ResolveComputedRelation:assert:val.(string)", "typed", "computedRelations only ever stores strings (tie_typed_stores)"),
   ("typesystem.go:TypeSystem.relationInvolves:assert:result.(bool)", "typed", "the handler returns `true` or nil; guarded by `result != nil &&`")]

def otherReviewed : List (String × String) :=
  [("cmd/run/run.go:run:err", "startup"),
   ("cmd/run/run.go:run:err", "startup"),
   ("cmd/run/run.go:run:err", "startup"),
   ("cmd/util/util.go:MustBindEnv:\"failed to bind env key: \" + err.Error()", "startup"),
   ("cmd/util/util.go:MustBindPFlag:\"failed to bind pflag: \" + err.Error()", "startup"),
   ("internal/containers/mpmc/queue.go:MustQueue:err", "startup"),
   ("internal/graph/graph.go:getRelationshipEdgesWithTargetRewrite:\"unexpected userset rewrite encountered\"", "not covered (default case of a switch over the rewrite / edge kinds of a validated model)"),
   ("internal/listobjects/pipeline/pipeline.go:createWorker:\"unsupported node type for pipeline resolver\"", "not covered (C21 territory: pipeline worker construction from the weighted graph)"),
   ("internal/listobjects/pipeline/pipeline.go:createWorker:\"unsupported operator node for pipeline resolver\"", "not covered (C21 territory: pipeline worker construction from the weighted graph)"),
   ("internal/telemetry/tracing.go:MustNewTracerProvider:err", "startup"),
   ("internal/telemetry/tracing.go:MustNewTracerProvider:err", "startup"),
   ("internal/telemetry/tracing.go:MustNewTracerProvider:fmt.Sprintf(\"failed to establish a connection with the otlp exporter: %v\", err)", "startup"),
   ("pkg/logger/logger.go:MustNewLogger:err", "startup"),
   ("pkg/server/commands/listusers/list_users_rpc.go:expandRewrite:\"unexpected userset rewrite encountered\"", "not covered (default case of a switch over the rewrite / edge kinds of a validated model)"),
   ("pkg/server/commands/reverseexpand/reverse_expand.go:readTuplesAndExecute:\"unexpected source for reverse expansion of tuple to userset\"", "not covered (default case of a switch over the rewrite / edge kinds of a validated model)"),
   ("pkg/server/commands/reverseexpand/reverse_expand.go:readTuplesAndExecute:\"unsupported edge type\"", "not covered (default case of a switch over the rewrite / edge kinds of a validated model)"),
   ("pkg/server/commands/reverseexpand/reverse_expand.go:readTuplesAndExecute:\"unsupported edge type\"", "not covered (default case of a switch over the rewrite / edge kinds of a validated model)"),
   ("pkg/storage/cache/keys/hash.go:init:\"keys: failed to seed digest: \" + err.Error()", "not covered"),
   ("pkg/storage/sqlcommon/sqlcommon.go:NewDBInfo:\"failed to set database dialect: \" + err.Error()", "not covered"),
   ("pkg/tuple/tuple.go:MustParseTupleString:err", "startup"),
   ("pkg/tuple/tuple.go:UserProtoToString:\"unsupported type\"", "not covered")]

/-- **The extracted site list equals the reviewed one.** -/
theorem sites_reviewed : Gen.Panics.sites = reviewed.map (·.1) := rfl

theorem other_panics_reviewed : Gen.Panics.otherPanics = otherReviewed.map (·.1) := rfl

theorem recoveries_reviewed : Gen.Panics.recoveries =
    ["check.go:runHandler:panics.Try", "check.go:streamedLookupUsersetFromIterator:recover", "panic.go:RecoverFromPanic:recover", "panic.go:RecoverFromPanic:recover"] := rfl

/-- the panic-recovery interceptor is the first of the unary and of the stream chain of the server -/
theorem recovery_interceptors_first :
    Gen.Panics.interceptorChains.take 2 =
      ["grpc.ChainUnaryInterceptor:first=[]grpc.UnaryServerInterceptor{ grpc_recovery.UnaryServerInterceptor",
       "grpc.ChainStreamInterceptor:first=[]grpc.StreamServerInterceptor{ grpc_recovery.StreamServerInterceptor"] := rfl

/-- every site is classified, and every `guarded` site names one of the lemmas below -/
theorem every_site_classified :
    reviewed.all (fun r => r.2.1 ∈ ["guarded", "uncalled", "typed", "startup"]) = true ∧
    (reviewed.filter (fun r => r.2.1 = "guarded")).all
      (fun r => r.2.2 ∈ ["rewriteContainsSelf_no_panic", "exclusion_no_panic", "evaluate_no_panic"]) = true := by decide

/-! ## no panic under validation -/

mutual
theorem walk_ok_of_wellFormed {α : Type} (h : Raw → Option α) :
    ∀ rw, wellFormed rw = true → ∃ r, walk h rw = .ok r
  | .unset, hw => by simp [wellFormed] at hw
  | .this, _ => by simp only [walk]; split <;> exact ⟨_, rfl⟩
  | .computed r, _ => by simp only [walk]; split <;> exact ⟨_, rfl⟩
  | .ttu t c, _ => by simp only [walk]; split <;> exact ⟨_, rfl⟩
  | .union cs, hw => by
      simp only [walk]; split
      · exact ⟨_, rfl⟩
      · exact walkL_ok_of_wellFormed h cs (by simpa [wellFormed] using hw)
  | .inter cs, hw => by
      simp only [walk]; split
      · exact ⟨_, rfl⟩
      · exact walkL_ok_of_wellFormed h cs (by simpa [wellFormed] using hw)
  | .diff b s, hw => by
      simp only [wellFormed, Bool.and_eq_true] at hw
      simp only [walk]; split
      · exact ⟨_, rfl⟩
      · obtain ⟨rb, hb⟩ := walk_ok_of_wellFormed h b hw.1
        obtain ⟨rs, hs⟩ := walk_ok_of_wellFormed h s hw.2
        rw [hb]
        cases rb with
        | some a => exact ⟨_, rfl⟩
        | none => exact ⟨rs, hs⟩
theorem walkL_ok_of_wellFormed {α : Type} (h : Raw → Option α) :
    ∀ cs, wellFormedL cs = true → ∃ r, walkL h cs = .ok r
  | [], _ => ⟨none, rfl⟩
  | c :: cs, hw => by
      simp only [wellFormedL, Bool.and_eq_true] at hw
      obtain ⟨rc, hc⟩ := walk_ok_of_wellFormed h c hw.1
      obtain ⟨rs, hs⟩ := walkL_ok_of_wellFormed h cs hw.2
      simp only [walkL, hc]
      cases rc with
      | some a => exact ⟨_, rfl⟩
      | none => exact ⟨rs, hs⟩
end

/-- `wellFormed` is what model validation enforces: `isUsersetRewriteValid` rejects a node whose oneof is unset
before anything else, and recurses into every child of a union / intersection / difference -/
theorem tie_rewrite_validation :
    Gen.Panics.rewriteNilGuardFirst = true ∧
    Gen.Panics.rewriteValidationRecursesInto = ["child", "child", "r.Difference.GetBase()", "r.Difference.GetSubtract()"] := ⟨rfl, rfl⟩

/-- **`RewriteContainsSelf` does not panic on a validated rewrite** (every node has its oneof set — the first test
of `isUsersetRewriteValid`, applied recursively by model validation). -/
theorem rewriteContainsSelf_no_panic (rw : Raw) (hw : wellFormed rw = true) : ∃ b, rewriteContainsSelf rw = .ok b := by
  obtain ⟨r, hr⟩ := walk_ok_of_wellFormed isThis rw hw
  exact ⟨r == some true, by simp [rewriteContainsSelf, hr]⟩

/-- … and it does on an unvalidated one: the guard is needed (and the order of the children matters: the walk stops
at the first `this`). -/
theorem rewriteContainsSelf_panics_unvalidated :
    rewriteContainsSelf (.union [.unset, .this]) = .error .rewriteEvaluation ∧
    rewriteContainsSelf (.union [.this, .unset]) = .ok true := by decide

/-- **`exclusion` never indexes out of range**, whatever the number of handlers, because the length guard comes
first (extracted: `exclusionGuardBeforeIndex`). -/
theorem exclusion_no_panic (n : Nat) :
    ∃ r, exclusionOperands Gen.Panics.exclusionGuardBeforeIndex n = .ok r := by
  have hg : Gen.Panics.exclusionGuardBeforeIndex = true := rfl
  rw [hg]
  unfold exclusionOperands
  by_cases h : n = 2
  · subst h; exact ⟨_, rfl⟩
  · have : (true && n != 2) = true := by simp [h]
    rw [if_pos this]; exact ⟨_, rfl⟩

/-- without the guard a reducer called with fewer than two operands would panic -/
theorem exclusion_panics_without_guard : exclusionOperands false 1 = .error (.index "handlers") := by decide

/-- **`Evaluate` always gets at least one context map**: its only production caller passes a one-element literal
(plus, optionally, the tuple context). -/
theorem evaluate_no_panic (hasTupleContext : Bool) :
    evaluateFirstContext (contextFieldsLen 1 hasTupleContext) = .ok () := by
  cases hasTupleContext <;> rfl

theorem tie_evaluate_callers :
    Gen.Panics.evaluateCalls =
      ["internal/condition/eval/eval.go:EvaluateTupleCondition:evaluableCondition.Evaluate(ctx, contextFields...)"] ∧
    Gen.Panics.contextFieldsAssignments = ["literal:1", "literal:1", "call:append"] := ⟨rfl, rfl⟩

/-- `Evaluate()` with no context map at all would panic — the variadic signature allows it -/
theorem evaluate_panics_without_context : evaluateFirstContext 0 = .error (.index "contextMaps[0]") := by decide

/-- **`GetRelationReferenceAsString` is unreachable**: it panics on a plain type reference such as `[user]`, and it
has no production caller. -/
theorem relationRef_unreachable :
    Gen.Panics.relationRefCallers = [] ∧ relationRefAsString false .plain = .error .relationReference := ⟨rfl, rfl⟩

/-- **Finding F26, fixed**: after `checkRelationReferenceShape` accepted a type restriction, the graph builder's
`parseThis` finds a node for it — no nil dereference; … -/
theorem parseThis_no_panic (s : RefShape) (h : shapeGuard s = true) : parseThis s = .ok () := by
  cases s with
  | plain => rfl
  | relation name => simp [shapeGuard] at h; simp [parseThis, parseThisNode, h]
  | wildcard payload => cases payload <;> simp_all [shapeGuard, parseThis, parseThisNode]

/-- … and without the guard the two empty-oneof shapes panic (the inputs of finding F26) -/
theorem parseThis_panics_unguarded :
    parseThis (.relation "") = .error (.index "nil *AuthorizationModelNode in upsertEdge") ∧
    parseThis (.wildcard false) = .error (.index "nil *AuthorizationModelNode in upsertEdge") := by decide

/-- the guard is in the source, runs before the model graph is built, and tests exactly the two shapes -/
theorem tie_relation_reference_shape :
    Gen.Panics.shapeGuardBeforeGraph = true ∧
    Gen.Panics.shapeGuardConds =
      ["case *openfgav1.RelationReference_Relation", "if v.Relation == \"\"", "case *openfgav1.RelationReference_Wildcard",
       "if v.Wildcard == nil"] := ⟨rfl, rfl⟩

/-- **Finding F27, fixed**: every pagination-token parse error of the memory datastore is
`storage.ErrInvalidContinuationToken` (mapped to 2007 by `HandleError`), never the raw strconv error -/
theorem tie_memory_token_errors :
    Gen.Panics.memoryTokenParseErrors =
      ["return nil, storage.ErrInvalidContinuationToken", "return nil, \"\", storage.ErrInvalidContinuationToken",
       "return nil, \"\", storage.ErrInvalidContinuationToken"] := rfl

/-- memory datastore, offset pagination: in both functions the offset is clamped into `[0, len]` BEFORE the upper
slice bound is derived from it, and the slice uses exactly these two -/
theorem tie_memory_page_bounds : Gen.Panics.memoryPageBounds =
    ["ReadAuthorizationModels: from, err = strconv.Atoi(options.Pagination.From)",
     "ReadAuthorizationModels: from = max(0, min(from, len(models)))",
     "ReadAuthorizationModels: to := min(len(models), from+pageSize)",
     "ReadAuthorizationModels: slice models[from:to]",
     "ListStores: from, err = strconv.Atoi(options.Pagination.From)",
     "ListStores: from = max(0, min(len(stores), from))",
     "ListStores: to := min(len(stores), from+pageSize)",
     "ListStores: slice stores[from:to]"] := rfl

/-- **the page slice never panics**, whatever offset the token carries (any integer: negative, `MinInt64`,
`MaxInt64`), for every list length and page size that fit an `int` together -/
theorem page_slice_no_panic (len pageSize : Nat) (offset : Int) (hfit : (len : Int) + pageSize < 9223372036854775808) :
    sliceOK len (pageBounds len pageSize offset) = true := by
  have hw : ∀ x : Int, 0 ≤ x → x < 9223372036854775808 → wrap64 x = x := by
    intro x h0 h1; unfold wrap64; omega
  have hf : 0 ≤ max 0 (min offset (len : Int)) ∧ max 0 (min offset (len : Int)) ≤ len := by omega
  have e : pageBounds len pageSize offset =
      (max 0 (min offset (len : Int)), min (len : Int) (max 0 (min offset (len : Int)) + pageSize)) := by
    unfold pageBounds
    simp only []
    rw [hw _ (by omega) (by omega)]
  rw [e]
  simp only [sliceOK, Bool.and_eq_true, decide_eq_true_eq]
  omega

/-- **negative witnesses** for the other statement order (upper bound from the unclamped offset): offsets `≤ -pageSize`
and offsets near `MaxInt64` give a negative upper bound — `slice bounds out of range` -/
theorem page_slice_panics_unclamped :
    sliceOK 3 (pageBoundsUnclamped 3 50 (-100)) = false ∧ sliceOK 3 (pageBoundsUnclamped 3 50 (-51)) = false ∧
    sliceOK 3 (pageBoundsUnclamped 3 50 9223372036854775807) = false ∧
    sliceOK 3 (pageBoundsUnclamped 3 50 (-9223372036854775808)) = false ∧
    sliceOK 3 (pageBoundsUnclamped 3 50 2) = true := by decide

/-- **cancel before Wait**: in every function of the evaluation packages that defers a pool / wait-group `Wait()`, the
deferred cancel of the function's own context runs first in execution order (defers are last-in-first-out); waiting
first parks the request until the CALLER's context ends — a hang past any deadline when there is none -/
theorem tie_cancel_before_wait : Gen.Release.deferOrders.all (fun d => d.2.2) = true ∧
    (Gen.Release.deferOrders.filter (fun d => d.1 = "graph/default_resolver:defaultTTU.func1" || d.1 = "graph/default_resolver:defaultUserset.func1")).map (·.2.1) =
      ["cancelFunc() ; _ = pool.Wait() ; span.End()", "cancelFunc() ; _ = pool.Wait() ; span.End()"] := by decide

theorem tie_typed_stores : Gen.Panics.computedRelationsStores = ["relation"] := rfl

/-- the summary the check lists: under validation no modelled site panics -/
theorem no_panic_under_validation :
    (∀ rw, wellFormed rw = true → ∃ b, rewriteContainsSelf rw = .ok b) ∧
    (∀ n, ∃ r, exclusionOperands Gen.Panics.exclusionGuardBeforeIndex n = .ok r) ∧
    (∀ t, evaluateFirstContext (contextFieldsLen 1 t) = .ok ()) ∧
    Gen.Panics.relationRefCallers = [] :=
  ⟨rewriteContainsSelf_no_panic, exclusion_no_panic, evaluate_no_panic, rfl⟩

/-! ## no hang in the modelled logic -/

/-- the modelled Check engine terminates by itself on every (cyclic or not) tuple set — C20 (a) -/
theorem modelled_check_total (w : CheckV1.World) (rk : String → String → Nat) (R maxDepth : Nat) (sc : Dfs.Sched)
    (cache : CheckV1.Node → Option Bool) (hok : CheckV1Termination.rankOK w.model rk R = true) (hm : 0 < maxDepth)
    (fuel : Nat) (hf : CheckV1Termination.checkFuelBound w.model maxDepth R ≤ fuel) :
    CheckV1.check w maxDepth sc fuel cache ≠ .err .abort :=
  CheckV1Termination.check_no_fuel_abort w rk R maxDepth sc cache hok hm fuel hf

/-- the explicit-stack serialisation of a context value (keys/xtypes.go) runs `pbSize v` iterations and produces the
recursive encoding, for every nesting depth — C24 -/
theorem context_serialisation_total (T : Model.Keys.Tags) (v : Model.Keys.PbV) (h : Model.Keys.pbWF v = true) :
    Model.Keys.pbWriteTo T v = Model.Keys.enc T (Model.Keys.pbToVal v) :=
  Proofs.KeysPb.stack_eq_recursive T v h

/-! ## non-vacuity -/

example : wellFormed (.diff (.union [.this, .computed "owner"]) (.ttu "parent" "viewer")) = true := by decide
example : rewriteContainsSelf (.diff (.union [.computed "owner", .this]) (.ttu "parent" "viewer")) = .ok true := by decide
example : rewriteContainsSelf (.inter [.computed "a", .computed "b"]) = .ok false := by decide
example : exclusionOperands true 2 = .ok (some (0, 1)) := by decide
example : exclusionOperands true 3 = .ok none := by decide

end OpenFGAVerif.C19
