/-
C20 — Queries terminate and release their resources.   **Partial by design.**

What is proved (for every input, schedule and cancellation time):

(a) *Termination of the evaluation, with the real bound* (Proofs/DfsTermination, Proofs/CheckV1Termination):
    `eval_depth_bounded`  — on every path of an evaluation the number of dispatching steps is below the depth limit;
    `eval_path_bounded`   — with computed-userset edges ranked (no computed-only cycle, `rankOK`, decidable, checked on
                            every generated model by the driver) a path has at most `maxDepth·(R+1)` node steps;
    `check_terminates`    — `CheckV1.check` with `checkFuelBound` fuel never reports fuel exhaustion, for every tuple
                            set (cyclic or not), request, schedule and cache: the fuel of the model is not an artefact.
(b) *Reducer protocol* (Model/Reducer + Proofs/Reducer, instantiated with the facts extracted from check.go):
    `union_no_blocked_sender`, `union_all_goroutines_finish` (+ intersection, exclusion), `no_infinite_run`;
    and *dispatch pipeline* (Model/Dispatch + Proofs/Dispatch, facts from default_resolver.go):
    `dispatch_worker_not_blocked_forever`, `dispatch_all_goroutines_finish`.
    Negative witnesses: `unbuffered_blocks`, `plain_send_leaks` (capacity and TrySend are load-bearing).

What is NOT proved (measured by the harness as supporting evidence only, and labelled so in the evidence):
wall-clock deadlines, the goroutine census, ListObjects / ListUsers / Expand / the weighted-graph engine and the
ListObjects pipeline (C21), third-party code (conc pool, Go runtime scheduler: modelled as interleavings of atomic
steps), datastore iterators.  Assumed: a handler / dispatched sub-check returns (that is the recursion, covered by
(a) for the modelled engine), the tuple iterator is finite.
-/
import OpenFGAVerif.Proofs.DfsTermination
import OpenFGAVerif.Proofs.CheckV1Termination
import OpenFGAVerif.Proofs.Reducer
import OpenFGAVerif.Proofs.Dispatch
import OpenFGAVerif.Proofs.IterOCRelease
import OpenFGAVerif.Model.Release
import OpenFGAVerif.Gen.Reducer
import OpenFGAVerif.Gen.Release
import OpenFGAVerif.Props.Release2

namespace OpenFGAVerif.C20
open OpenFGAVerif.BoolSys OpenFGAVerif.Dfs OpenFGAVerif.CheckV1

/-! ## (a) termination -/

/-- **Depth bound**: the dispatching steps on any evaluation path stay below `maxResolutionDepth`. -/
theorem eval_depth_bounded {N : Type} (sys : Sys N) (maxDepth : Nat) {d : Nat} {V : List N} {e : Expr N}
    {π : List (Bool × N)} (h : DfsTermination.Path sys maxDepth d V e π) (hd : d < maxDepth) :
    d + DfsTermination.dispatches π < maxDepth :=
  DfsTermination.path_dispatch_bounded sys maxDepth h hd

/-- **Path bound**: ranked computed-userset edges ⇒ at most `maxDepth · (R + 1)` node steps from the root. -/
theorem eval_path_bounded {N : Type} (sys : Sys N) (maxDepth : Nat) (rank : N → Nat) (R : Nat)
    (hr : DfsTermination.Ranked sys rank R) (root : N) {π : List (Bool × N)} (hm : 0 < maxDepth)
    (h : DfsTermination.Path sys maxDepth 0 [] (.node false root) π) : π.length ≤ maxDepth * (R + 1) :=
  DfsTermination.path_length_root sys maxDepth rank R hr root hm h

/-- **The Check engine terminates by itself**: enough fuel ⇒ never the fuel-exhaustion outcome. -/
theorem check_terminates (w : World) (rk : String → String → Nat) (R maxDepth : Nat) (sc : Sched)
    (cache : Node → Option Bool) (hok : CheckV1Termination.rankOK w.model rk R = true) (hm : 0 < maxDepth)
    (fuel : Nat) (hf : CheckV1Termination.checkFuelBound w.model maxDepth R ≤ fuel) :
    check w maxDepth sc fuel cache ≠ .err .abort :=
  CheckV1Termination.check_no_fuel_abort w rk R maxDepth sc cache hok hm fuel hf

/-- … and beyond the bound the answer does not depend on the fuel (abstract systems). -/
theorem eval_fuel_irrelevant {N : Type} [DecidableEq N] (sys : Sys N) (maxDepth : Nat) (sc : Sched)
    (cache : N → Option Bool) (rank : N → Nat) (R H : Nat) (hr : DfsTermination.Ranked sys rank R)
    (hH : DfsTermination.RuleHeight sys H) (fuel d : Nat) (V : List N) (e : Expr N) (k : Nat) (hd : d < maxDepth)
    (hk : DfsTermination.NDBelow rank k e)
    (hf : DfsTermination.fuelBound maxDepth H R d k (DfsTermination.height e) ≤ fuel) :
    evalF sys maxDepth sc cache (fuel + 1) d V e = evalF sys maxDepth sc cache fuel d V e :=
  DfsTermination.evalF_fuel_stable sys maxDepth sc cache rank R H hr hH fuel d V e k hd hk hf

/-! ## (b) protocols, instantiated with the facts of the source -/

open OpenFGAVerif.Model

/-- the reducer configuration the source of `union` yields for `n` handlers and pool size `limit`:
capacity `n` iff the channel is created as `make(chan checkOutcome, len(handlers))`, `trySend` iff there is no
plain send and the only send is `TrySendThroughChannel(cancellableCtx, …, out)`, `deferCancel` iff `defer cancel()` -/
def unionCfg (n limit : Nat) : Reducer.Cfg :=
  { n := n, limit := limit,
    cap := if Gen.Reducer.unionMakes = ["out=len(handlers)"] then n else 0,
    trySend := decide (Gen.Reducer.unionPlainSends = [] ∧ Gen.Reducer.unionTrySends = ["cancellableCtx|out"]),
    deferCancel := decide (Gen.Reducer.unionDefers = ["cancel()"]) }

def intersectionCfg (n limit : Nat) : Reducer.Cfg :=
  { n := n, limit := limit,
    cap := if Gen.Reducer.intersectionMakes = ["out=len(handlers)"] then n else 0,
    trySend := decide (Gen.Reducer.intersectionPlainSends = [] ∧ Gen.Reducer.intersectionTrySends = ["cancellableCtx|out"]),
    deferCancel := decide (Gen.Reducer.intersectionDefers = ["cancel()"]) }

/-- `exclusion`: two unpooled goroutines, each with its own one-slot channel (for blocking purposes: two
producers, two slots) -/
def exclusionCfg : Reducer.Cfg :=
  { n := 2, limit := 2,
    cap := if Gen.Reducer.exclusionMakes = ["baseChan=1", "subChan=1"] then 2 else 0,
    trySend := decide (Gen.Reducer.exclusionPlainSends = [] ∧ Gen.Reducer.exclusionTrySends = ["ctx|baseChan", "ctx|subChan"]),
    deferCancel := decide (Gen.Reducer.exclusionDefers = ["cancel()"]) }

theorem tie_union_capacity (n limit : Nat) : (unionCfg n limit).n ≤ (unionCfg n limit).cap := by
  show n ≤ (if Gen.Reducer.unionMakes = ["out=len(handlers)"] then n else 0)
  rw [if_pos (show Gen.Reducer.unionMakes = ["out=len(handlers)"] from rfl)]; exact Nat.le_refl n

theorem tie_intersection_capacity (n limit : Nat) : (intersectionCfg n limit).n ≤ (intersectionCfg n limit).cap := by
  show n ≤ (if Gen.Reducer.intersectionMakes = ["out=len(handlers)"] then n else 0)
  rw [if_pos (show Gen.Reducer.intersectionMakes = ["out=len(handlers)"] from rfl)]; exact Nat.le_refl n

theorem tie_exclusion_capacity : exclusionCfg.n ≤ exclusionCfg.cap := by decide

/-- sends go through `TrySendThroughChannel`, `cancel` is deferred, the closer waits and closes, the loop runs
`len(handlers)` times, the pool is bound to the cancellable context -/
theorem tie_reducer_protocol :
    (unionCfg 0 0).trySend = true ∧ (unionCfg 0 0).deferCancel = true ∧
    (intersectionCfg 0 0).trySend = true ∧ (intersectionCfg 0 0).deferCancel = true ∧
    exclusionCfg.trySend = true ∧ exclusionCfg.deferCancel = true ∧
    Gen.Reducer.unionGos = ["_ = pool.Wait(); close(out)"] ∧ Gen.Reducer.intersectionGos = ["_ = pool.Wait(); close(out)"] ∧
    Gen.Reducer.unionForConds = ["i < len(handlers)"] ∧ Gen.Reducer.intersectionForConds = ["i < len(handlers)"] ∧
    Gen.Reducer.unionPools = ["pool=NewPool(cancellableCtx, concurrencyLimit)"] ∧
    Gen.Reducer.intersectionPools = ["pool=NewPool(cancellableCtx, concurrencyLimit)"] ∧
    Gen.Reducer.exclusionGos =
      ["concurrency.TrySendThroughChannel(ctx, runHandler(ctx, handlers[0]), baseChan); close(baseChan)",
       "concurrency.TrySendThroughChannel(ctx, runHandler(ctx, handlers[1]), subChan); close(subChan)"] ∧
    Gen.Reducer.exclusionForConds = ["resultsReceived < 2"] := by decide

theorem tie_try_send :
    Gen.Reducer.trySendCases = ["<-ctx.Done() => return false", "channel <- msg => return true"] ∧
    Gen.Reducer.plainSendsInFiles = 0 := by decide

/-- **No blocked sender** in `union`, for every number of handlers, pool size, interleaving and cancellation time. -/
theorem union_no_blocked_sender (n limit : Nat) {s : Reducer.St} (hr : Reducer.Reachable (unionCfg n limit) s)
    (hs : 0 < s.sending) : s.buf < (unionCfg n limit).cap ∧ ∃ s', Reducer.IStep (unionCfg n limit) s s' ∧
      s'.sending = s.sending - 1 ∧ s'.done = s.done + 1 :=
  ReducerProofs.no_blocked_sender _ (tie_union_capacity n limit) hr hs

theorem intersection_no_blocked_sender (n limit : Nat) {s : Reducer.St}
    (hr : Reducer.Reachable (intersectionCfg n limit) s) (hs : 0 < s.sending) :
    s.buf < (intersectionCfg n limit).cap ∧ ∃ s', Reducer.IStep (intersectionCfg n limit) s s' ∧
      s'.sending = s.sending - 1 ∧ s'.done = s.done + 1 :=
  ReducerProofs.no_blocked_sender _ (tie_intersection_capacity n limit) hr hs

theorem exclusion_no_blocked_sender {s : Reducer.St} (hr : Reducer.Reachable exclusionCfg s) (hs : 0 < s.sending) :
    s.buf < exclusionCfg.cap ∧ ∃ s', Reducer.IStep exclusionCfg s s' ∧ s'.sending = s.sending - 1 ∧ s'.done = s.done + 1 :=
  ReducerProofs.no_blocked_sender _ tie_exclusion_capacity hr hs

/-- **All goroutines of a reducer invocation finish** (pool size ≥ 1): an execution can only stop with the
consumer returned, every producer done, the channel closed. -/
theorem union_all_goroutines_finish (n limit : Nat) (hl : 1 ≤ limit) {s : Reducer.St}
    (hr : Reducer.Reachable (unionCfg n limit) s) (hstuck : ∀ s', ¬ Reducer.IStep (unionCfg n limit) s s') :
    Reducer.Final (unionCfg n limit) s :=
  ReducerProofs.all_goroutines_finish _ (tie_union_capacity n limit) hl hr hstuck

theorem intersection_all_goroutines_finish (n limit : Nat) (hl : 1 ≤ limit) {s : Reducer.St}
    (hr : Reducer.Reachable (intersectionCfg n limit) s) (hstuck : ∀ s', ¬ Reducer.IStep (intersectionCfg n limit) s s') :
    Reducer.Final (intersectionCfg n limit) s :=
  ReducerProofs.all_goroutines_finish _ (tie_intersection_capacity n limit) hl hr hstuck

theorem exclusion_all_goroutines_finish {s : Reducer.St} (hr : Reducer.Reachable exclusionCfg s)
    (hstuck : ∀ s', ¬ Reducer.IStep exclusionCfg s s') : Reducer.Final exclusionCfg s :=
  ReducerProofs.all_goroutines_finish _ tie_exclusion_capacity (by decide) hr hstuck

/-- every execution of a reducer invocation is finite -/
theorem reducer_no_infinite_run (c : Reducer.Cfg) (f : Nat → Reducer.St) (h0 : Reducer.Reachable c (f 0))
    (hstep : ∀ i, Reducer.Step c (f i) (f (i + 1))) : False :=
  ReducerProofs.no_infinite_run c f h0 hstep

/-- every send of the pipeline goes through `TrySendThroughChannel` (which selects on cancellation) -/
def srcTrySend : Bool :=
  decide (Gen.Reducer.plainSendsInFiles = 0 ∧
    Gen.Reducer.produceUsersetTrySends = ["ctx|dispatches", "ctx|dispatches", "ctx|dispatches"] ∧
    Gen.Reducer.produceTTUTrySends = ["ctx|dispatches", "ctx|dispatches"] ∧
    Gen.Reducer.processDispatchesTrySends = ["ctx|outcomes", "ctx|outcomes", "ctx|outcomes", "ctx|outcomes", "ctx|outcomes"] ∧
    Gen.Reducer.trySendCases = ["<-ctx.Done() => return false", "channel <- msg => return true"])
/-- `consumeDispatches` executes `cancel()` right after its loop -/
def srcCancelAfterLoop : Bool := decide (Gen.Reducer.consumeAfterLoop = "cancel()")
/-- `defaultUserset` / `defaultTTU` defer `cancelFunc(); pool.Wait()` -/
def srcDeferCancel : Bool :=
  decide (Gen.Reducer.defaultUsersetDefers = ["span.End()", "cancelFunc(); _ = pool.Wait()"] ∧
    Gen.Reducer.defaultTTUDefers = ["span.End()", "cancelFunc(); _ = pool.Wait()"]) &&
  -- … and in EXECUTION order (defers run last-in-first-out) the cancel comes before the Wait, in every function of the
  -- evaluation packages that defers a Wait (Gen.Release.deferOrders)
  Gen.Release.deferOrders.all (fun d => d.2.2)

/-- the dispatch pipeline configuration the source yields -/
def dispatchCfg (m L : Nat) : Dispatch.Cfg :=
  { m := m, L := L, trySend := srcTrySend, cancelAfterLoop := srcCancelAfterLoop, deferCancel := srcDeferCancel }

theorem tie_dispatch_source : srcTrySend = true ∧ srcCancelAfterLoop = true ∧ srcDeferCancel = true := by decide

theorem tie_dispatch_protocol (m L : Nat) :
    (dispatchCfg m L).trySend = true ∧ (dispatchCfg m L).cancelAfterLoop = true ∧ (dispatchCfg m L).deferCancel = true :=
  tie_dispatch_source

/-- both channels and the dispatch pool are sized by the concurrency limit; producer and processor close their
channel when they leave; the processor waits for its workers first -/
theorem tie_dispatch_shape :
    Gen.Reducer.defaultUsersetMakes = ["dispatchChan=c.concurrencyLimit"] ∧
    Gen.Reducer.defaultTTUMakes = ["dispatchChan=c.concurrencyLimit"] ∧
    Gen.Reducer.processDispatchesMakes = ["outcomes=limit"] ∧
    Gen.Reducer.processDispatchesPools = ["dispatchPool=NewPool(ctx, limit)"] ∧
    Gen.Reducer.processDispatchesDefers = ["_ = dispatchPool.Wait(); close(outcomes)"] ∧
    Gen.Reducer.produceUsersetDefers = ["close(dispatches)"] ∧ Gen.Reducer.produceTTUDefers = ["close(dispatches)"] ∧
    Gen.Reducer.defaultUsersetPools = ["pool=NewPool(cancellableCtx, 1)"] ∧
    Gen.Reducer.defaultTTUPools = ["pool=NewPool(cancellableCtx, 1)"] := by decide

/-- **No worker of the dispatch pipeline is blocked forever.** -/
theorem dispatch_worker_not_blocked_forever (m L : Nat) (hL : 1 ≤ L) {s : Dispatch.St}
    (hr : Dispatch.Reachable (dispatchCfg m L) s) (hw : 0 < s.wSend) :
    (∃ s', Dispatch.IStep (dispatchCfg m L) s s' ∧ s'.wSend = s.wSend - 1) ∨
    ((s.cPhase = .loop ∨ s.cPhase = .left) ∧ 0 < s.oLen ∧
      ∃ s', Dispatch.IStep (dispatchCfg m L) s s' ∧ (s'.oLen < s.oLen ∨ s'.cPhase ≠ s.cPhase)) :=
  DispatchProofs.worker_not_blocked_forever _ (tie_dispatch_protocol m L).1 (tie_dispatch_protocol m L).2.1 hL hr hw

/-- **All goroutines of the dispatch pipeline finish**, for every number of tuples, limit ≥ 1, interleaving and
cancellation time. -/
theorem dispatch_all_goroutines_finish (m L : Nat) (hL : 1 ≤ L) {s : Dispatch.St}
    (hr : Dispatch.Reachable (dispatchCfg m L) s) (hstuck : ∀ s', ¬ Dispatch.IStep (dispatchCfg m L) s s') :
    Dispatch.Final s :=
  DispatchProofs.all_goroutines_finish _ (tie_dispatch_protocol m L).1 (tie_dispatch_protocol m L).2.1
    (tie_dispatch_protocol m L).2.2 hL hr hstuck

theorem dispatch_no_infinite_run (c : Dispatch.Cfg) (f : Nat → Dispatch.St)
    (hstep : ∀ i, Dispatch.Step c (f i) (f (i + 1))) : False :=
  DispatchProofs.no_infinite_run c f hstep

/-- the negative witnesses: what happens without the two source facts -/
theorem capacity_is_load_bearing :
    Reducer.Reachable ReducerProofs.unbufferedCfg ReducerProofs.stuckState ∧
    ¬ Reducer.Final ReducerProofs.unbufferedCfg ReducerProofs.stuckState ∧
    ∀ s', ¬ Reducer.IStep ReducerProofs.unbufferedCfg ReducerProofs.stuckState s' := ReducerProofs.unbuffered_blocks

theorem try_send_is_load_bearing :
    Dispatch.Reachable DispatchProofs.plainCfg DispatchProofs.leakState ∧ ¬ Dispatch.Final DispatchProofs.leakState ∧
    ∀ s', ¬ Dispatch.Step DispatchProofs.plainCfg DispatchProofs.leakState s' := DispatchProofs.plain_send_leaks

/-! ## (c) release discipline: iterators, sends, defer order (facts of extract/facts_release.go) -/

open OpenFGAVerif.Model.Release in
/-- **Stop discipline**: every statement of the evaluation / list / expand code that obtains an iterator arranges for
its Stop on every path — `defer`, an explicit Stop with no `return` before it, or a hand-over to an owner that is
itself in the table (a `stop-misses-returns`, `defer-after-returns` or `none` entry fails this). -/
theorem tie_stop_discipline : Gen.Release.stopSites.all (fun s => coveredKind s.2.2.2.1) = true := by decide

/-- the reviewed table of iterator-obtaining sites: a NEW site (or a changed disposition) must be reviewed here
(after the review: `python3 harness/c20/regen_reviewed_sites.py` copies the table from Gen/Release.lean) -/
def reviewedStopSites : List (String × String × String × String × String) := [
  ("graph/check:checkPublicAssignable", "iter", "ds.ReadUsersetTuples", "owner", "filteredIter"),
  ("graph/check:checkPublicAssignable", "filteredIter", "storage.NewConditionsFilteredTupleKeyIterator", "defer", ""),
  ("graph/check:checkDirectUsersetTuples", "iter", "checkutil.IteratorReadUsersetTuples", "defer", ""),
  ("graph/check:checkDirectUsersetTuples", "iter", "checkutil.IteratorReadUsersetTuples", "defer", ""),
  ("graph/check:checkDirectUsersetTuples", "iter", "checkutil.IteratorReadUsersetTuples", "defer", ""),
  ("graph/check:checkDirectUsersetTuples", "iter", "checkutil.IteratorReadUsersetTuples", "defer", ""),
  ("graph/check:checkTTU", "iter", "ds.Read", "owner", "filteredIter"),
  ("graph/check:checkTTU", "filteredIter", "storage.NewConditionsFilteredTupleKeyIterator", "defer", ""),
  ("graph/weight_two_resolver:fastPathDirect", "i", "checkutil.IteratorReadStartingFromUser", "owner", "iter"),
  ("graph/weight_two_resolver:fastPathDirect", "iter", "storage.WrapIterator", "passed+stop", "concurrency.TrySendThroughChannel"),
  ("graph/recursive_resolver:recursiveUserset", "selfOnly", "storage.NewFilteredTupleKeyIterator", "passed", "c.recursiveFastPath"),
  ("graph/recursive_resolver:recursiveFastPath", "objectToUsersetIter", "storage.WrapIterator", "defer", ""),
  ("graph/recursive_resolver:buildRecursiveMapper", "iter", "ds.ReadUsersetTuples", "owner", "filteredIter"),
  ("graph/recursive_resolver:buildRecursiveMapper", "iter", "ds.Read", "owner", "filteredIter"),
  ("graph/recursive_resolver:buildRecursiveMapper", "filteredIter", "storage.NewConditionsFilteredTupleKeyIterator", "returned", ""),
  ("check/check:resolveRecursiveUserset", "tIter", "r.datastore.ReadUsersetTuples", "defer", ""),
  ("check/check:resolveRecursiveUserset", "iter", "r.buildIterator", "wraps-deferred", "tIter"),
  ("check/check:resolveRecursiveTTU", "tIter", "r.datastore.Read", "defer", ""),
  ("check/check:resolveRecursiveTTU", "iter", "r.buildIterator", "wraps-deferred", "tIter"),
  ("check/check:specificTypeWildcard", "iter", "storage.NewStaticTupleKeyIterator", "static", ""),
  ("check/check:specificTypeWildcard", "tIter", "r.datastore.ReadUsersetTuples", "defer", ""),
  ("check/check:specificTypeWildcard", "iter", "storage.NewTupleKeyIteratorFromTupleIterator", "wraps-deferred", "tIter"),
  ("check/check:specificTypeAndRelation", "tIter", "r.datastore.ReadUsersetTuples", "defer", ""),
  ("check/check:specificTypeAndRelation", "iter", "r.buildIterator", "wraps-deferred", "tIter"),
  ("check/check:ttu", "tIter", "r.datastore.Read", "defer", ""),
  ("check/check:ttu", "iter", "r.buildIterator", "wraps-deferred", "tIter"),
  ("check/check:buildIterator", "tupleKeyIter", "storage.NewTupleKeyIteratorFromTupleIterator", "owner", "tupleKeyIter"),
  ("check/check:buildIterator", "tupleKeyIter", "iterator.Concat", "returned", ""),
  ("check/recursive:buildTupleMapperForID", "tIter", "s.datastore.Read", "owner", "iter"),
  ("check/recursive:buildTupleMapperForID", "ctxIter", "storage.NewStaticTupleKeyIterator", "static", ""),
  ("check/recursive:buildTupleMapperForID", "tIter", "s.datastore.ReadUsersetTuples", "owner", "iter"),
  ("check/recursive:buildTupleMapperForID", "ctxIter", "storage.NewStaticTupleKeyIterator", "static", ""),
  ("check/recursive:buildTupleMapperForID", "iter", "storage.NewTupleKeyIteratorFromTupleIterator", "owner", "iter"),
  ("check/recursive:buildTupleMapperForID", "iter", "iterator.Concat", "owner", "i"),
  ("check/recursive:buildTupleMapperForID", "i", "iterator.NewFilteredIterator", "returned", ""),
  ("check/bottom_up:specificType", "tIter", "s.datastore.ReadStartingWithUser", "owner", "iter"),
  ("check/bottom_up:specificType", "iter", "s.buildIterator", "passed+stop", "concurrency.TrySendThroughChannel"),
  ("check/bottom_up:specificTypeWildcard", "tIter", "s.datastore.ReadStartingWithUser", "owner", "iter"),
  ("check/bottom_up:specificTypeWildcard", "iter", "s.buildIterator", "passed+stop", "concurrency.TrySendThroughChannel"),
  ("check/bottom_up:buildIterator", "iter", "storage.NewTupleKeyIteratorFromTupleIterator", "owner", "iter"),
  ("check/bottom_up:buildIterator", "iter", "iterator.Merge", "returned", ""),
  ("checkutil/checkutil:IteratorReadUsersetTuples", "iter", "ds.ReadUsersetTuples", "returned", ""),
  ("checkutil/checkutil:IteratorReadStartingFromUser", "iter", "ds.ReadStartingWithUser", "returned", ""),
  ("commands/expand:resolveThis", "tupleIter", "q.datastore.Read", "owner", "filteredIter"),
  ("commands/expand:resolveThis", "filteredIter", "storage.NewFilteredTupleKeyIterator", "defer", ""),
  ("commands/expand:resolveTupleToUserset", "tupleIter", "q.datastore.Read", "owner", "filteredIter"),
  ("commands/expand:resolveTupleToUserset", "filteredIter", "storage.NewFilteredTupleKeyIterator", "defer", ""),
  ("listusers/list_users_rpc:expandDirect", "iter", "l.datastore.Read", "defer", ""),
  ("listusers/list_users_rpc:expandDirect", "filteredIter", "storage.NewFilteredTupleKeyIterator", "defer", ""),
  ("listusers/list_users_rpc:expandTTU", "iter", "l.datastore.Read", "defer", ""),
  ("listusers/list_users_rpc:expandTTU", "filteredIter", "storage.NewFilteredTupleKeyIterator", "defer", ""),
  ("reverseexpand/reverse_expand:readTuplesAndExecute", "iter", "c.datastore.ReadStartingWithUser", "owner", "filteredIter"),
  ("reverseexpand/reverse_expand:readTuplesAndExecute", "filteredIter", "storage.NewFilteredTupleKeyIterator", "defer", ""),
  ("reverseexpand/reverse_expand_weighted:executeQueryJob", "filteredIter", "c.buildFilteredIterator", "defer", ""),
  ("reverseexpand/reverse_expand_weighted:buildFilteredIterator", "iter", "c.datastore.ReadStartingWithUser", "returned", ""),
  ("pipeline/store:createIterator", "it", "r.store.ReadStartingWithUser", "returned", ""),
  ("pipeline/store:applyValidator", "base", "storage.NewTupleKeyIteratorFromTupleIterator", "owner", "base"),
  ("pipeline/store:applyValidator", "base", "iterator.Validate", "returned", ""),
  ("pipeline/store:Read", "iterator", "r.createIterator", "passed", "r.applyValidator")
]

theorem tie_stop_sites_reviewed : Gen.Release.stopSites = reviewedStopSites := rfl

/-- **Send discipline**: besides `concurrency.TrySendThroughChannel` (select on `ctx.Done()`), the evaluation / list
code has exactly these channel send statements — each a single send into a channel of capacity 1 created in the same
function (it can never block), plus the error result of ListObjects' `evaluate`, whose consumer ranges over the
channel until it is closed.  A new plain send anywhere in the listed files changes this list. -/
theorem tie_send_discipline : Gen.Release.sendSites =
    [("commands/list_objects:evaluate", "reverseExpandDoneWithError", "plain:cap=1"),
     ("commands/list_objects:evaluate", "resultsChan", "plain:cap=?"),
     ("listusers/list_users_rpc:ListUsers", "doneWithFoundUsersCh", "plain:cap=1"),
     ("listusers/list_users_rpc:ListUsers", "expandErrCh", "plain:cap=1"),
     ("listusers/list_users_rpc:expandIntersection", "errChan", "plain:cap=1"),
     ("listusers/list_users_rpc:expandUnion", "errChan", "plain:cap=1")] := by decide

/-- … so no send statement can park its goroutine: capacity-1 single sends, or the reviewed exception -/
theorem sends_cannot_block : Gen.Release.sendSites.all (fun s =>
    s.2.2 = "plain:cap=1" || s.2.2 = "select-done" || s = ("commands/list_objects:evaluate", "resultsChan", "plain:cap=?")) = true := by
  decide

/-- **Defer order**: in every function that defers a `Wait()`, the deferred cancel of the function's own context runs
BEFORE the Wait in execution order (last-in-first-out; `defer cancel()` registered before `defer pool.Wait()` would
wait first and hang until the caller's context ends). -/
theorem tie_defer_order : Gen.Release.deferOrders.all (fun d => d.2.2) = true ∧
    Gen.Release.deferOrders.map (·.1) =
      ["graph/default_resolver:defaultUserset.func1", "graph/default_resolver:defaultTTU.func1",
       "graph/default_resolver:processDispatches.func1", "graph/recursive_resolver:recursiveMatchUserUserset",
       "check/check:ResolveUnionEdges", "check/check:ResolveIntersection", "check/check:ResolveExclusion",
       "check/default:processRequests"] ∧
    (Gen.Release.deferOrders.filter (fun d => d.1 = "graph/default_resolver:defaultTTU.func1" || d.1 = "graph/default_resolver:defaultUserset.func1")).map (·.2.1) =
      ["cancelFunc() ; _ = pool.Wait() ; span.End()", "cancelFunc() ; _ = pool.Wait() ; span.End()"] := by decide

/-- `OrderedCombinedIterator.head`: both removals of a source from the pending list are preceded by `iter.Stop()` -/
theorem tie_oc_removals : Gen.Release.ocRemovals =
    [("c.pending[pendingIdx] = nil", true), ("c.pending[pendingIdx] = nil", true)] := by decide

section release
open OpenFGAVerif.Model.Release OpenFGAVerif.Model.Iter

/-- the disposition of Expand's tupleset iterator (`resolveTupleToUserset`) and of its direct-leaf iterator, as extracted -/
def expandTTUDiscipline : Discipline := ofKind (kindOf Gen.Release.stopSites "commands/expand:resolveTupleToUserset" "filteredIter")
def expandThisDiscipline : Discipline := ofKind (kindOf Gen.Release.stopSites "commands/expand:resolveThis" "filteredIter")

theorem tie_expand_discipline : expandTTUDiscipline = .deferStop ∧ expandThisDiscipline = .deferStop := by decide

/-- a deferred Stop runs on every exit path of the read loop -/
theorem defer_releases_on_every_exit (script : List Step) (k : Nat) : 1 ≤ stopsOn .deferStop (runLoop script k) := by
  cases runLoop script k <;> exact Nat.le_refl 1

/-- **Expand's tuple-to-userset loop releases its iterator on every exit path**: whatever the streamed read yields — any
number of tuples, then exhaustion or a fault (datastore error, cancelled context) at any position — the iterator
obtained by `resolveTupleToUserset` (and by `resolveThis`) has been stopped when the function has returned. -/
theorem expand_ttu_iterator_released (script : List Step) :
    1 ≤ stopsOn expandTTUDiscipline (runLoop script 0) ∧ 1 ≤ stopsOn expandThisDiscipline (runLoop script 0) := by
  rw [tie_expand_discipline.1, tie_expand_discipline.2]
  exact ⟨defer_releases_on_every_exit script 0, defer_releases_on_every_exit script 0⟩

/-- every site of the table whose disposition is `defer` releases on every exit path -/
theorem defer_sites_release (s : String × String × String × String × String) (_ : s ∈ Gen.Release.stopSites)
    (hk : s.2.2.2.1 = "defer") (script : List Step) : 1 ≤ stopsOn (ofKind s.2.2.2.1) (runLoop script 0) := by
  rw [hk]
  exact defer_releases_on_every_exit script 0

/-- **negative witness**: an explicit Stop after the loop misses the early error return — a fault on the second
`Next` leaves the iterator open (`defer` is load-bearing) -/
theorem explicit_stop_misses_error_exit : stopsOn .stopAfterLoop (runLoop [.item, .fault] 0) = 0 ∧
    stopsOn .stopAfterLoop (runLoop [.item, .item] 0) = 1 := by decide

/-- **`OrderedCombinedIterator.Stop()` releases every source** (model of C23, Proofs/IterOCRelease): after `Stop()`,
every source iterator the combined iterator was built from — still pending, or removed from the pending list earlier
because it ran out, also while duplicates of the last yielded key were skipped — has been stopped at least once, for
every call sequence before (`Next` / `Head` / `Stop`, live or cancelled: whatever prefix was consumed); and the sources
accounted for are exactly the ones it was built from. -/
theorem oc_stop_releases_all {α : Type} (key : α → Nat) (ins : List (SIter α)) (ops : List Op) :
    (∀ x ∈ OC.inputs (OC.stop (Proofs.IterRelease.after key ins ops)), 1 ≤ x.stops) ∧
    (Proofs.IterRelease.ids (OC.inputs (OC.stop (Proofs.IterRelease.after key ins ops)))).Perm (Proofs.IterRelease.ids ins) :=
  Proofs.IterRelease.oc_stop_releases_all key ins ops

/-- sources removed from the pending list were stopped at removal, at every moment -/
theorem oc_removed_were_stopped {α : Type} (key : α → Nat) (ins : List (SIter α)) (ops : List Op) :
    ∀ x ∈ (Proofs.IterRelease.after key ins ops).dead, 1 ≤ x.stops :=
  Proofs.IterRelease.oc_removed_were_stopped key ins ops

/-- **negative witness**: `Stop()` never reaches a removed source; one removed without a Stop stays open -/
theorem oc_unstopped_removal_leaks {α : Type} (s : OC α) (x : SIter α) (hx : x ∈ s.dead) (h0 : x.stops = 0) :
    ¬ ∀ y ∈ OC.inputs (OC.stop s), 1 ≤ y.stops :=
  Proofs.IterRelease.unstopped_removal_leaks s x hx h0

/-- non-vacuity: three tuples then a fault, then the loop-done path -/
example : runLoop [.item, .item, .item, .fault] 0 = .errReturn 3 ∧ runLoop [.item, .item] 0 = .loopDone := by decide

end release

/-! ## non-vacuity -/

/-- a complete run of `union` with two handlers and a pool of one: it ends in the final state -/
example : ∃ s, Reducer.Reachable (unionCfg 2 1) s ∧ Reducer.Final (unionCfg 2 1) s := by
  have r0 : Reducer.Reachable (unionCfg 2 1) Reducer.init := .init
  have r1 := Reducer.Reachable.step r0 (Or.inl (Reducer.IStep.submit _ 0 rfl (by decide) (by decide)))
  have r2 := Reducer.Reachable.step r1 (Or.inl (Reducer.IStep.compute _ (by decide)))
  have r3 := Reducer.Reachable.step r2 (Or.inl (Reducer.IStep.send _ (by decide) (by decide)))
  have r4 := Reducer.Reachable.step r3 (Or.inl (Reducer.IStep.submit _ 1 rfl (by decide) (by decide)))
  have r5 := Reducer.Reachable.step r4 (Or.inl (Reducer.IStep.submitDone _ rfl))
  have r6 := Reducer.Reachable.step r5 (Or.inl (Reducer.IStep.recvReturn _ 0 rfl (by decide) (by decide)))
  have r7 := Reducer.Reachable.step r6 (Or.inl (Reducer.IStep.compute _ (by decide)))
  have r8 := Reducer.Reachable.step r7 (Or.inl (Reducer.IStep.sendCancelled _ (by decide) (by decide) (by decide)))
  have r9 := Reducer.Reachable.step r8 (Or.inl (Reducer.IStep.closerClose _ (by decide) (by decide) (by decide)))
  exact ⟨_, r9, by unfold Reducer.Final; decide⟩

/-- a ranked toy system (node 1 reaches node 0 through a computed edge, node 0 dispatches back to 1) -/
def toySys : Sys Nat := { rule := fun n => if n = 1 then .or [.node false 0, .lit .ff] else .node true 1 }

example : DfsTermination.Ranked toySys (fun n => if n = 1 then 1 else 0) 1 := by
  constructor
  · intro n; by_cases h : n = 1 <;> simp [h]
  · intro n
    by_cases h : n = 1
    · subst h
      show DfsTermination.NDBelow _ 1 (.or [.node false 0, .lit .ff])
      refine .or _ ?_
      intro e he
      simp only [List.mem_cons, List.not_mem_nil, or_false] at he
      rcases he with rfl | rfl
      · exact .nodeN 0 (by decide)
      · exact .lit _
    · have e : toySys.rule n = .node true 1 := by simp [toySys, h]
      rw [e]
      exact .nodeD 1

/-- `rankOK` on a concrete model with a computed-userset chain viewer → editor → owner -/
def toyModel : Vocab.Model :=
  { types := [{ name := "user", rels := [] },
              { name := "doc", rels := [{ name := "owner", rewrite := .this, restrs := [{ typ := "user", rel := "", wild := false, cond := "" }] },
                                        { name := "editor", rewrite := .union [.this, .computed "owner"], restrs := [] },
                                        { name := "viewer", rewrite := .computed "editor", restrs := [] }] }],
    conds := [] }

example : CheckV1Termination.rankOK toyModel (CheckV1Termination.rankTable toyModel) 3 = true := by decide

/-- … and the check rejects a computed-userset cycle -/
example : CheckV1Termination.rankOK
    { types := [{ name := "doc", rels := [{ name := "a", rewrite := .computed "b", restrs := [] },
                                          { name := "b", rewrite := .computed "a", restrs := [] }] }], conds := [] }
    (fun _ _ => 0) 5 = false := by decide

end OpenFGAVerif.C20
