/-
C20 — Queries terminate and release their resources.   **Partial by design.**

What is proved (for every input, schedule and cancellation time):

(a) *Termination of the evaluation, with the real bound* (Proofs/DfsTermination, Proofs/CheckV1Termination):
    `eval_depth_bounded`  — on every path of an evaluation the number of dispatching steps is below the depth limit;
    `eval_path_bounded`   — with computed-userset edges ranked (no computed-only cycle, `rankOK`, decidable, checked on
                            every generated model by the driver) a path has at most `maxDepth·(R+1)` node steps;
    `check_terminates`    — `CheckV1.check` with `checkFuelBound` fuel never reports fuel exhaustion, for every tuple
                            set (cyclic or not), request, schedule and cache: the fuel of the model is not an artefact.
(b) *Reducer protocol* (Model/Reducer + Proofs/Reducer, instantiated with the facts extracted from check.go):
    `union_no_blocked_sender`, `union_all_goroutines_finish` (+ intersection, exclusion), `no_infinite_run`;
    and *dispatch pipeline* (Model/Dispatch + Proofs/Dispatch, facts from default_resolver.go):
    `dispatch_worker_not_blocked_forever`, `dispatch_all_goroutines_finish`.
    Negative witnesses: `unbuffered_blocks`, `plain_send_leaks` (capacity and TrySend are load-bearing).

What is NOT proved (measured by the harness as supporting evidence only, and labelled so in the evidence):
wall-clock deadlines, the goroutine census, ListObjects / ListUsers / Expand / the weighted-graph engine and the
ListObjects pipeline (C21), third-party code (conc pool, Go runtime scheduler: modelled as interleavings of atomic
steps), datastore iterators.  Assumed: a handler / dispatched sub-check returns (that is the recursion, covered by
(a) for the modelled engine), the tuple iterator is finite.
-/
import OpenFGAVerif.Proofs.DfsTermination
import OpenFGAVerif.Proofs.CheckV1Termination
import OpenFGAVerif.Proofs.Reducer
import OpenFGAVerif.Proofs.Dispatch
import OpenFGAVerif.Gen.Reducer

namespace OpenFGAVerif.C20
open OpenFGAVerif.BoolSys OpenFGAVerif.Dfs OpenFGAVerif.CheckV1

/-! ## (a) termination -/

/-- **Depth bound**: the dispatching steps on any evaluation path stay below `maxResolutionDepth`. -/
theorem eval_depth_bounded {N : Type} (sys : Sys N) (maxDepth : Nat) {d : Nat} {V : List N} {e : Expr N}
    {π : List (Bool × N)} (h : DfsTermination.Path sys maxDepth d V e π) (hd : d < maxDepth) :
    d + DfsTermination.dispatches π < maxDepth :=
  DfsTermination.path_dispatch_bounded sys maxDepth h hd

/-- **Path bound**: ranked computed-userset edges ⇒ at most `maxDepth · (R + 1)` node steps from the root. -/
theorem eval_path_bounded {N : Type} (sys : Sys N) (maxDepth : Nat) (rank : N → Nat) (R : Nat)
    (hr : DfsTermination.Ranked sys rank R) (root : N) {π : List (Bool × N)} (hm : 0 < maxDepth)
    (h : DfsTermination.Path sys maxDepth 0 [] (.node false root) π) : π.length ≤ maxDepth * (R + 1) :=
  DfsTermination.path_length_root sys maxDepth rank R hr root hm h

/-- **The Check engine terminates by itself**: enough fuel ⇒ never the fuel-exhaustion outcome. -/
theorem check_terminates (w : World) (rk : String → String → Nat) (R maxDepth : Nat) (sc : Sched)
    (cache : Node → Option Bool) (hok : CheckV1Termination.rankOK w.model rk R = true) (hm : 0 < maxDepth)
    (fuel : Nat) (hf : CheckV1Termination.checkFuelBound w.model maxDepth R ≤ fuel) :
    check w maxDepth sc fuel cache ≠ .err .abort :=
  CheckV1Termination.check_no_fuel_abort w rk R maxDepth sc cache hok hm fuel hf

/-- … and beyond the bound the answer does not depend on the fuel (abstract systems). -/
theorem eval_fuel_irrelevant {N : Type} [DecidableEq N] (sys : Sys N) (maxDepth : Nat) (sc : Sched)
    (cache : N → Option Bool) (rank : N → Nat) (R H : Nat) (hr : DfsTermination.Ranked sys rank R)
    (hH : DfsTermination.RuleHeight sys H) (fuel d : Nat) (V : List N) (e : Expr N) (k : Nat) (hd : d < maxDepth)
    (hk : DfsTermination.NDBelow rank k e)
    (hf : DfsTermination.fuelBound maxDepth H R d k (DfsTermination.height e) ≤ fuel) :
    evalF sys maxDepth sc cache (fuel + 1) d V e = evalF sys maxDepth sc cache fuel d V e :=
  DfsTermination.evalF_fuel_stable sys maxDepth sc cache rank R H hr hH fuel d V e k hd hk hf

/-! ## (b) protocols, instantiated with the facts of the source -/

open OpenFGAVerif.Model

/-- the reducer configuration the source of `union` yields for `n` handlers and pool size `limit`:
capacity `n` iff the channel is created as `make(chan checkOutcome, len(handlers))`, `trySend` iff there is no
plain send and the only send is `TrySendThroughChannel(cancellableCtx, …, out)`, `deferCancel` iff `defer cancel()` -/
def unionCfg (n limit : Nat) : Reducer.Cfg :=
  { n := n, limit := limit,
    cap := if Gen.Reducer.unionMakes = ["out=len(handlers)"] then n else 0,
    trySend := decide (Gen.Reducer.unionPlainSends = [] ∧ Gen.Reducer.unionTrySends = ["cancellableCtx|out"]),
    deferCancel := decide (Gen.Reducer.unionDefers = ["cancel()"]) }

def intersectionCfg (n limit : Nat) : Reducer.Cfg :=
  { n := n, limit := limit,
    cap := if Gen.Reducer.intersectionMakes = ["out=len(handlers)"] then n else 0,
    trySend := decide (Gen.Reducer.intersectionPlainSends = [] ∧ Gen.Reducer.intersectionTrySends = ["cancellableCtx|out"]),
    deferCancel := decide (Gen.Reducer.intersectionDefers = ["cancel()"]) }

/-- `exclusion`: two unpooled goroutines, each with its own one-slot channel (for blocking purposes: two
producers, two slots) -/
def exclusionCfg : Reducer.Cfg :=
  { n := 2, limit := 2,
    cap := if Gen.Reducer.exclusionMakes = ["baseChan=1", "subChan=1"] then 2 else 0,
    trySend := decide (Gen.Reducer.exclusionPlainSends = [] ∧ Gen.Reducer.exclusionTrySends = ["ctx|baseChan", "ctx|subChan"]),
    deferCancel := decide (Gen.Reducer.exclusionDefers = ["cancel()"]) }

theorem tie_union_capacity (n limit : Nat) : (unionCfg n limit).n ≤ (unionCfg n limit).cap := by
  show n ≤ (if Gen.Reducer.unionMakes = ["out=len(handlers)"] then n else 0)
  rw [if_pos (show Gen.Reducer.unionMakes = ["out=len(handlers)"] from rfl)]; exact Nat.le_refl n

theorem tie_intersection_capacity (n limit : Nat) : (intersectionCfg n limit).n ≤ (intersectionCfg n limit).cap := by
  show n ≤ (if Gen.Reducer.intersectionMakes = ["out=len(handlers)"] then n else 0)
  rw [if_pos (show Gen.Reducer.intersectionMakes = ["out=len(handlers)"] from rfl)]; exact Nat.le_refl n

theorem tie_exclusion_capacity : exclusionCfg.n ≤ exclusionCfg.cap := by decide

/-- sends go through `TrySendThroughChannel`, `cancel` is deferred, the closer waits and closes, the loop runs
`len(handlers)` times, the pool is bound to the cancellable context -/
theorem tie_reducer_protocol :
    (unionCfg 0 0).trySend = true ∧ (unionCfg 0 0).deferCancel = true ∧
    (intersectionCfg 0 0).trySend = true ∧ (intersectionCfg 0 0).deferCancel = true ∧
    exclusionCfg.trySend = true ∧ exclusionCfg.deferCancel = true ∧
    Gen.Reducer.unionGos = ["_ = pool.Wait(); close(out)"] ∧ Gen.Reducer.intersectionGos = ["_ = pool.Wait(); close(out)"] ∧
    Gen.Reducer.unionForConds = ["i < len(handlers)"] ∧ Gen.Reducer.intersectionForConds = ["i < len(handlers)"] ∧
    Gen.Reducer.unionPools = ["pool=NewPool(cancellableCtx, concurrencyLimit)"] ∧
    Gen.Reducer.intersectionPools = ["pool=NewPool(cancellableCtx, concurrencyLimit)"] ∧
    Gen.Reducer.exclusionGos =
      ["concurrency.TrySendThroughChannel(ctx, runHandler(ctx, handlers[0]), baseChan); close(baseChan)",
       "concurrency.TrySendThroughChannel(ctx, runHandler(ctx, handlers[1]), subChan); close(subChan)"] ∧
    Gen.Reducer.exclusionForConds = ["resultsReceived < 2"] := by decide

theorem tie_try_send :
    Gen.Reducer.trySendCases = ["<-ctx.Done() => return false", "channel <- msg => return true"] ∧
    Gen.Reducer.plainSendsInFiles = 0 := by decide

/-- **No blocked sender** in `union`, for every number of handlers, pool size, interleaving and cancellation time. -/
theorem union_no_blocked_sender (n limit : Nat) {s : Reducer.St} (hr : Reducer.Reachable (unionCfg n limit) s)
    (hs : 0 < s.sending) : s.buf < (unionCfg n limit).cap ∧ ∃ s', Reducer.IStep (unionCfg n limit) s s' ∧
      s'.sending = s.sending - 1 ∧ s'.done = s.done + 1 :=
  ReducerProofs.no_blocked_sender _ (tie_union_capacity n limit) hr hs

theorem intersection_no_blocked_sender (n limit : Nat) {s : Reducer.St}
    (hr : Reducer.Reachable (intersectionCfg n limit) s) (hs : 0 < s.sending) :
    s.buf < (intersectionCfg n limit).cap ∧ ∃ s', Reducer.IStep (intersectionCfg n limit) s s' ∧
      s'.sending = s.sending - 1 ∧ s'.done = s.done + 1 :=
  ReducerProofs.no_blocked_sender _ (tie_intersection_capacity n limit) hr hs

theorem exclusion_no_blocked_sender {s : Reducer.St} (hr : Reducer.Reachable exclusionCfg s) (hs : 0 < s.sending) :
    s.buf < exclusionCfg.cap ∧ ∃ s', Reducer.IStep exclusionCfg s s' ∧ s'.sending = s.sending - 1 ∧ s'.done = s.done + 1 :=
  ReducerProofs.no_blocked_sender _ tie_exclusion_capacity hr hs

/-- **All goroutines of a reducer invocation finish** (pool size ≥ 1): an execution can only stop with the
consumer returned, every producer done, the channel closed. -/
theorem union_all_goroutines_finish (n limit : Nat) (hl : 1 ≤ limit) {s : Reducer.St}
    (hr : Reducer.Reachable (unionCfg n limit) s) (hstuck : ∀ s', ¬ Reducer.IStep (unionCfg n limit) s s') :
    Reducer.Final (unionCfg n limit) s :=
  ReducerProofs.all_goroutines_finish _ (tie_union_capacity n limit) hl hr hstuck

theorem intersection_all_goroutines_finish (n limit : Nat) (hl : 1 ≤ limit) {s : Reducer.St}
    (hr : Reducer.Reachable (intersectionCfg n limit) s) (hstuck : ∀ s', ¬ Reducer.IStep (intersectionCfg n limit) s s') :
    Reducer.Final (intersectionCfg n limit) s :=
  ReducerProofs.all_goroutines_finish _ (tie_intersection_capacity n limit) hl hr hstuck

theorem exclusion_all_goroutines_finish {s : Reducer.St} (hr : Reducer.Reachable exclusionCfg s)
    (hstuck : ∀ s', ¬ Reducer.IStep exclusionCfg s s') : Reducer.Final exclusionCfg s :=
  ReducerProofs.all_goroutines_finish _ tie_exclusion_capacity (by decide) hr hstuck

/-- every execution of a reducer invocation is finite -/
theorem reducer_no_infinite_run (c : Reducer.Cfg) (f : Nat → Reducer.St) (h0 : Reducer.Reachable c (f 0))
    (hstep : ∀ i, Reducer.Step c (f i) (f (i + 1))) : False :=
  ReducerProofs.no_infinite_run c f h0 hstep

/-- every send of the pipeline goes through `TrySendThroughChannel` (which selects on cancellation) -/
def srcTrySend : Bool :=
  decide (Gen.Reducer.plainSendsInFiles = 0 ∧
    Gen.Reducer.produceUsersetTrySends = ["ctx|dispatches", "ctx|dispatches", "ctx|dispatches"] ∧
    Gen.Reducer.produceTTUTrySends = ["ctx|dispatches", "ctx|dispatches"] ∧
    Gen.Reducer.processDispatchesTrySends = ["ctx|outcomes", "ctx|outcomes", "ctx|outcomes", "ctx|outcomes", "ctx|outcomes"] ∧
    Gen.Reducer.trySendCases = ["<-ctx.Done() => return false", "channel <- msg => return true"])
/-- `consumeDispatches` executes `cancel()` right after its loop -/
def srcCancelAfterLoop : Bool := decide (Gen.Reducer.consumeAfterLoop = "cancel()")
/-- `defaultUserset` / `defaultTTU` defer `cancelFunc(); pool.Wait()` -/
def srcDeferCancel : Bool :=
  decide (Gen.Reducer.defaultUsersetDefers = ["span.End()", "cancelFunc(); _ = pool.Wait()"] ∧
    Gen.Reducer.defaultTTUDefers = ["span.End()", "cancelFunc(); _ = pool.Wait()"])

/-- the dispatch pipeline configuration the source yields -/
def dispatchCfg (m L : Nat) : Dispatch.Cfg :=
  { m := m, L := L, trySend := srcTrySend, cancelAfterLoop := srcCancelAfterLoop, deferCancel := srcDeferCancel }

theorem tie_dispatch_source : srcTrySend = true ∧ srcCancelAfterLoop = true ∧ srcDeferCancel = true := by decide

theorem tie_dispatch_protocol (m L : Nat) :
    (dispatchCfg m L).trySend = true ∧ (dispatchCfg m L).cancelAfterLoop = true ∧ (dispatchCfg m L).deferCancel = true :=
  tie_dispatch_source

/-- both channels and the dispatch pool are sized by the concurrency limit; producer and processor close their
channel when they leave; the processor waits for its workers first -/
theorem tie_dispatch_shape :
    Gen.Reducer.defaultUsersetMakes = ["dispatchChan=c.concurrencyLimit"] ∧
    Gen.Reducer.defaultTTUMakes = ["dispatchChan=c.concurrencyLimit"] ∧
    Gen.Reducer.processDispatchesMakes = ["outcomes=limit"] ∧
    Gen.Reducer.processDispatchesPools = ["dispatchPool=NewPool(ctx, limit)"] ∧
    Gen.Reducer.processDispatchesDefers = ["_ = dispatchPool.Wait(); close(outcomes)"] ∧
    Gen.Reducer.produceUsersetDefers = ["close(dispatches)"] ∧ Gen.Reducer.produceTTUDefers = ["close(dispatches)"] ∧
    Gen.Reducer.defaultUsersetPools = ["pool=NewPool(cancellableCtx, 1)"] ∧
    Gen.Reducer.defaultTTUPools = ["pool=NewPool(cancellableCtx, 1)"] := by decide

/-- **No worker of the dispatch pipeline is blocked forever.** -/
theorem dispatch_worker_not_blocked_forever (m L : Nat) (hL : 1 ≤ L) {s : Dispatch.St}
    (hr : Dispatch.Reachable (dispatchCfg m L) s) (hw : 0 < s.wSend) :
    (∃ s', Dispatch.IStep (dispatchCfg m L) s s' ∧ s'.wSend = s.wSend - 1) ∨
    ((s.cPhase = .loop ∨ s.cPhase = .left) ∧ 0 < s.oLen ∧
      ∃ s', Dispatch.IStep (dispatchCfg m L) s s' ∧ (s'.oLen < s.oLen ∨ s'.cPhase ≠ s.cPhase)) :=
  DispatchProofs.worker_not_blocked_forever _ (tie_dispatch_protocol m L).1 (tie_dispatch_protocol m L).2.1 hL hr hw

/-- **All goroutines of the dispatch pipeline finish**, for every number of tuples, limit ≥ 1, interleaving and
cancellation time. -/
theorem dispatch_all_goroutines_finish (m L : Nat) (hL : 1 ≤ L) {s : Dispatch.St}
    (hr : Dispatch.Reachable (dispatchCfg m L) s) (hstuck : ∀ s', ¬ Dispatch.IStep (dispatchCfg m L) s s') :
    Dispatch.Final s :=
  DispatchProofs.all_goroutines_finish _ (tie_dispatch_protocol m L).1 (tie_dispatch_protocol m L).2.1
    (tie_dispatch_protocol m L).2.2 hL hr hstuck

theorem dispatch_no_infinite_run (c : Dispatch.Cfg) (f : Nat → Dispatch.St)
    (hstep : ∀ i, Dispatch.Step c (f i) (f (i + 1))) : False :=
  DispatchProofs.no_infinite_run c f hstep

/-- the negative witnesses: what happens without the two source facts -/
theorem capacity_is_load_bearing :
    Reducer.Reachable ReducerProofs.unbufferedCfg ReducerProofs.stuckState ∧
    ¬ Reducer.Final ReducerProofs.unbufferedCfg ReducerProofs.stuckState ∧
    ∀ s', ¬ Reducer.IStep ReducerProofs.unbufferedCfg ReducerProofs.stuckState s' := ReducerProofs.unbuffered_blocks

theorem try_send_is_load_bearing :
    Dispatch.Reachable DispatchProofs.plainCfg DispatchProofs.leakState ∧ ¬ Dispatch.Final DispatchProofs.leakState ∧
    ∀ s', ¬ Dispatch.Step DispatchProofs.plainCfg DispatchProofs.leakState s' := DispatchProofs.plain_send_leaks

/-! ## non-vacuity -/

/-- a complete run of `union` with two handlers and a pool of one: it ends in the final state -/
example : ∃ s, Reducer.Reachable (unionCfg 2 1) s ∧ Reducer.Final (unionCfg 2 1) s := by
  have r0 : Reducer.Reachable (unionCfg 2 1) Reducer.init := .init
  have r1 := Reducer.Reachable.step r0 (Or.inl (Reducer.IStep.submit _ 0 rfl (by decide) (by decide)))
  have r2 := Reducer.Reachable.step r1 (Or.inl (Reducer.IStep.compute _ (by decide)))
  have r3 := Reducer.Reachable.step r2 (Or.inl (Reducer.IStep.send _ (by decide) (by decide)))
  have r4 := Reducer.Reachable.step r3 (Or.inl (Reducer.IStep.submit _ 1 rfl (by decide) (by decide)))
  have r5 := Reducer.Reachable.step r4 (Or.inl (Reducer.IStep.submitDone _ rfl))
  have r6 := Reducer.Reachable.step r5 (Or.inl (Reducer.IStep.recvReturn _ 0 rfl (by decide) (by decide)))
  have r7 := Reducer.Reachable.step r6 (Or.inl (Reducer.IStep.compute _ (by decide)))
  have r8 := Reducer.Reachable.step r7 (Or.inl (Reducer.IStep.sendCancelled _ (by decide) (by decide) (by decide)))
  have r9 := Reducer.Reachable.step r8 (Or.inl (Reducer.IStep.closerClose _ (by decide) (by decide) (by decide)))
  exact ⟨_, r9, by unfold Reducer.Final; decide⟩

/-- a ranked toy system (node 1 reaches node 0 through a computed edge, node 0 dispatches back to 1) -/
def toySys : Sys Nat := { rule := fun n => if n = 1 then .or [.node false 0, .lit .ff] else .node true 1 }

example : DfsTermination.Ranked toySys (fun n => if n = 1 then 1 else 0) 1 := by
  constructor
  · intro n; by_cases h : n = 1 <;> simp [h]
  · intro n
    by_cases h : n = 1
    · subst h
      show DfsTermination.NDBelow _ 1 (.or [.node false 0, .lit .ff])
      refine .or _ ?_
      intro e he
      simp only [List.mem_cons, List.not_mem_nil, or_false] at he
      rcases he with rfl | rfl
      · exact .nodeN 0 (by decide)
      · exact .lit _
    · have e : toySys.rule n = .node true 1 := by simp [toySys, h]
      rw [e]
      exact .nodeD 1

/-- `rankOK` on a concrete model with a computed-userset chain viewer → editor → owner -/
def toyModel : Vocab.Model :=
  { types := [{ name := "user", rels := [] },
              { name := "doc", rels := [{ name := "owner", rewrite := .this, restrs := [{ typ := "user", rel := "", wild := false, cond := "" }] },
                                        { name := "editor", rewrite := .union [.this, .computed "owner"], restrs := [] },
                                        { name := "viewer", rewrite := .computed "editor", restrs := [] }] }],
    conds := [] }

example : CheckV1Termination.rankOK toyModel (CheckV1Termination.rankTable toyModel) 3 = true := by decide

/-- … and the check rejects a computed-userset cycle -/
example : CheckV1Termination.rankOK
    { types := [{ name := "doc", rels := [{ name := "a", rewrite := .computed "b", restrs := [] },
                                          { name := "b", rewrite := .computed "a", restrs := [] }] }], conds := [] }
    (fun _ _ => 0) 5 = false := by decide

end OpenFGAVerif.C20
