/-
C21 — The ListObjects pipeline tears down cycles without losing work.

Protocol level (`Model.Cycle`): a labelled transition system with any number of members, listeners and messages;
a schedule is an explicit action list and every theorem below quantifies over all of them.
Dataflow level (`Model.CycleData`, theorems in the second half): message payloads, the de-duplicating workers and
the least fixpoint of the dataflow equations.
-/
import OpenFGAVerif.Proofs.CycleLive
import OpenFGAVerif.Proofs.CycleData
import OpenFGAVerif.Gen.Cycle
import OpenFGAVerif.Props.PipelineRecv

namespace OpenFGAVerif.C21
open OpenFGAVerif.Model.Cycle OpenFGAVerif.Proofs.Cycle OpenFGAVerif.Model.CycleData OpenFGAVerif.Proofs.CycleData

/-! ## Ties to the regenerated data (the statements the model mirrors, in source order) -/

/-- `StatusPool.inc`/`dec`: both counters are bumped; `dec` tests `value == 0` and closes `quiescence` behind the one-shot `zero.Swap(true)` latch. -/
theorem tie_counter :
    Gen.Cycle.spInc = ["sp.total.Add(1)", "return sp.inflight.Add(1)"] ∧
    Gen.Cycle.spDec = ["value := sp.inflight.Add(-1)", "if value == 0 {", "if !sp.zero.Swap(true) {", "close(sp.quiescence)", "}", "}", "return value"] ∧
    Gen.Cycle.repInc = ["r.parent.inc()"] ∧ Gen.Cycle.repDec = ["r.parent.dec()"] ∧
    Gen.Cycle.memInc = ["m.reporter.Inc()"] ∧ Gen.Cycle.memDec = ["m.reporter.Dec()"] := by decide

/-- `StatusPool.set`/`Register`/`Wait`: a source starts pending, `Report` clears it under the mutex and closes `ready` when none is
pending; `Wait` waits for `ready` (if any source registered) and then for `quiescence` (if `total > 0`). -/
theorem tie_ready :
    Gen.Cycle.spRegister.head? = some "sp.pool = append(sp.pool, true)" ∧
    Gen.Cycle.spSet = ["sp.mu.Lock()", "defer sp.mu.Unlock()", "if sp.pool[index] {", "sp.pool[index] = false",
      "for _, value := range sp.pool {", "if value {", "return", "}", "}", "close(sp.ready)", "}"] ∧
    Gen.Cycle.repReport = ["r.parent.set(r.index)"] ∧
    Gen.Cycle.spWait = ["if len(sp.pool) != 0 {", "select {", "case <-sp.ready:", "case <-ctx.Done():", "return false", "}", "}",
      "if sp.total.Load() > 0 {", "select {", "case <-sp.quiescence:", "case <-ctx.Done():", "return false", "}", "}", "return true"] ∧
    Gen.Cycle.repWait = ["return r.parent.Wait(ctx)"] ∧ Gen.Cycle.waitForAllReady = ["return m.reporter.Wait(ctx)"] := by decide

/-- `Join`: ring construction in the order modelled by `Ring.join`, and exactly one `Inc` per member (`init t 1`). -/
theorem tie_join :
    Gen.Cycle.join = ["reporter := g.statusPool.Register()",
      "m := Membership{ label: label, reporter: reporter, wake: make(chan struct{}), }",
      "if g.head == nil {", "g.head = &m", "}", "if g.tail == nil {", "g.tail = &m", "}",
      "g.tail.prev = &m", "m.prev = g.head", "g.head.leader = false", "g.head.next = &m", "g.head = &m", "g.head.leader = true",
      "g.size++", "m.reporter.Inc()", "return &m"] ∧
    Gen.Cycle.joinIncCount = 1 ∧ Gen.Cycle.next = ["return m.prev"] ∧ Gen.Cycle.isLeader = ["return m.leader"] ∧
    Gen.Cycle.createWorkerJoins = Gen.Cycle.msgFuncs.length := by decide

/-- `SignalReady` = `Report` then `Dec`; `Wake` is a one-shot latch; `Sleep` waits for `wake`. -/
theorem tie_signal_wake :
    Gen.Cycle.signalReady = ["m.reporter.Report()", "m.reporter.Dec()"] ∧
    Gen.Cycle.wake = ["if !m.awake.Swap(true) {", "close(m.wake)", "}"] ∧
    Gen.Cycle.sleep = ["select {", "case <-m.wake:", "case <-ctx.Done():", "}"] := by decide

/-- `Basic.Execute` after the standard senders are exhausted: SignalReady; WaitForAllReady(Background); the leader cleans up and wakes
its successor, the others sleep first; cyclical senders are awaited (deferred) after all that. Cyclical senders run under
`wgRecursive`, all others under `wgStandard`. -/
theorem tie_execute :
    Gen.Cycle.executeTail = ["wgStandard.Wait()", "defer wgRecursive.Wait()", "if w.Membership != nil {",
      "w.Membership.SignalReady()", "w.Membership.WaitForAllReady(context.Background())",
      "if w.Membership.IsLeader() {", "w.Cleanup()", "w.Membership.Next().Wake()", "return", "}",
      "w.Membership.Sleep(context.Background())", "w.Cleanup()", "w.Membership.Next().Wake()", "}"] ∧
    Gen.Cycle.executeSpawn = ["if len(w.senders) == 0 {", "cyclical := IsCyclical(edge)", "if cyclical {", "wgRecursive.Go(func() {",
      "w.ProcessSender(ctx, index, w)", "continue", "wgStandard.Go(func() {", "w.ProcessSender(ctx, index, w)"] ∧
    Gen.Cycle.coreCleanup = ["for _, listener := range c.listeners {", "listener.Close()", "}"] := by decide

/-- message accounting: `Inc` in MsgFunc (before `listener.Send`), `Dec` first thing in the `Done` callback; a failed `Send` calls
`Done`; a consumer calls `Done` after `ProcessMessage`; senders are drained with `Done` on exit. -/
theorem tie_messages :
    (∀ mf ∈ Gen.Cycle.msgFuncs, mf = ["basic.MsgFunc = func(m *worker.Message, e *worker.Edge) {", "if worker.IsCyclical(e) {",
      "basic.Membership.Inc()", "fn := m.Callback", "m.Callback = func() {", "basic.Membership.Dec()", "if fn != nil {", "fn()", "}", "}", "}", "}"]) ∧
    Gen.Cycle.msgFuncs.length = 2 ∧
    Gen.Cycle.coreSend = ["for _, listener := range c.listeners {", "msg := c.Pool.Get()", "msg.Value = msg.Value[:len(buffer)]",
      "copy(msg.Value, buffer)", "if c.MsgFunc != nil {", "c.MsgFunc(msg, listener.Key())", "}",
      "if !listener.Send(ctx, msg) {", "msg.Done()", "}", "}"] ∧
    Gen.Cycle.msgDone.take 4 = ["if m.Callback != nil {", "m.Callback()", "}", "m.Callback = nil"] ∧
    Gen.Cycle.procLoop.head? = some "for msg = range input {" ∧
    Gen.Cycle.procLoop.drop 9 = ["msg.Done()", "msg = nil", "}"] ∧
    Gen.Cycle.procLoop[2]? = some "if e := processor.ProcessMessage(ctx, index, msg); e != nil {" ∧
    Gen.Cycle.procDrain = ["defer DrainSender(context.Background(), c.senders[index])"] ∧
    Gen.Cycle.drainSender = ["for {", "msg, ok := sender.Recv(ctx)", "if !ok {", "break", "}", "msg.Done()", "}"] := by decide

/-- cyclical edges use the growing queue (a `Send` never blocks on capacity, it only fails after cancellation/close) -/
theorem tie_cyclical_medium :
    Gen.Cycle.newCyclicalMedium = ["return NewQueueMedium(edge, capacity)"] ∧
    Gen.Cycle.newQueueMedium[3]? = some "medium := mpmc.MustQueue[*Message](FloorPowerOfTwo(uint(capacity)), -1)" ∧
    Gen.Cycle.queueSend = ["if ctx.Err() != nil {", "return false", "}", "return m.queue.Send(ctx, value)"] ∧
    Gen.Cycle.isCyclical = ["if edge == nil {", "return false", "}", "return len(edge.GetRecursiveRelation()) > 0 || edge.IsPartOfTupleCycle()"] := by decide

/-- the de-duplicating worker: per-sender preprocessing, interpretation, output de-duplication, broadcast -/
theorem tie_process_message :
    Gen.Cycle.processMessage.drop 7 = ["values := w.preprocessors[index].Process(msg.Value, buffer)",
      "results := w.Interpreter.Interpret(ctx, edge, values)", "defer results.Close()",
      "output := w.newDeduplicatingReceiver(results, &w.outputBuffer)", "w.Broadcast(ctx, output)", "return output.Err()"] := by decide

/-! ## The ring built by `Join` -/

theorem ring_shape (k : Nat) :
    (Ring.joinN (k + 1)).prev = k :: List.range k ∧
    (Ring.joinN (k + 1)).leader = List.replicate k false ++ [true] ∧
    (Ring.joinN (k + 1)).head = some k ∧ (Ring.joinN (k + 1)).tail = some 0 := by
  induction k with
  | zero => simp [Ring.joinN, Ring.join]
  | succ k ih =>
    obtain ⟨h1, h2, h3, h4⟩ := ih
    have e : Ring.joinN (k + 1 + 1) = (Ring.joinN (k + 1)).join := rfl
    rw [e]
    simp only [Ring.join, h1, h2, h3, h4, Option.getD_some, List.length_cons, List.length_range]
    refine ⟨?_, ?_, by trivial, by trivial⟩
    · simp [List.range_succ]
    · simp [List.replicate_succ']

/-- after `n ≥ 1` joins: `Next()` of member `i` is `Topo.next`, the leader flag is set exactly on the last member -/
theorem ring_next (t : Topo) (hn : 0 < t.n) (i : Nat) (hi : i < t.n) :
    (Ring.joinN t.n).prev[i]? = some (t.next i) ∧ (Ring.joinN t.n).leader[i]? = some (decide (i = t.leader)) := by
  obtain ⟨k, hk⟩ : ∃ k, t.n = k + 1 := ⟨t.n - 1, by omega⟩
  rw [hk, (ring_shape k).1, (ring_shape k).2.1]
  unfold Topo.next Topo.leader
  rw [hk]
  constructor
  · cases i with
    | zero => simp
    | succ j => simp [List.getElem?_range (show j < k by omega)]
  · by_cases e : i = k
    · subst e; simp
    · have : i < k := by omega
      simp [List.getElem?_append_left, this, e]

/-! ## Safety: counting, quiescence, teardown order (all schedules) -/

/-- **Counting invariant.** In every reachable state the in-flight counter equals the number of members that have not yet executed
the `Dec` of `SignalReady` plus the number of cyclical messages between their `Inc` and their `Dec`. -/
theorem counting_invariant (t : Topo) (hn : 0 < t.n) (acts : List Act) (s : St) (hr : run t (init t 1) acts = some s) :
    s.pool.inflight = ((notReadyCount t s + s.msgs.length : Nat) : Int) :=
  (reachable_inv hn ⟨acts, hr⟩).counting

/-- **Quiescence is sound.** Whenever the quiescence latch is closed, every member has signalled ready (its non-cyclical inputs
are exhausted) and no cyclical message exists. -/
theorem quiescence_sound (t : Topo) (hn : 0 < t.n) (acts : List Act) (s : St) (hr : run t (init t 1) acts = some s)
    (hq : s.pool.qClosed = true) : quiescent t s := by
  have h := reachable_inv hn ⟨acts, hr⟩
  exact (quiescent_iff h).mpr (h.latchQ (Or.inr (by rw [← h.zeroQ]; exact hq)))

/-- the latch action itself only ever fires in a quiescent state -/
theorem latch_fires_only_when_quiescent (t : Topo) (hn : 0 < t.n) (s s' : St) (hr : Reachable t s)
    (hs : step t s .latch = some s') : quiescent t s := by
  have h := reachable_inv hn hr
  simp only [step] at hs; split at hs
  · rename_i hp; exact (quiescent_iff h).mpr (h.latchQ (Or.inl hp))
  · simp at hs

/-- teardown (a member past `WaitForAllReady`, or a listener already closed) happens only after the latch closed, hence in a
quiescent state -/
theorem teardown_only_after_quiescence (t : Topo) (hn : 0 < t.n) (s : St) (hr : Reachable t s) (i : Nat) (hi : i < t.n)
    (ht : 3 ≤ rank (s.pc i) ∨ 0 < s.closed i) : s.pool.qClosed = true ∧ quiescent t s := by
  have h := reachable_inv hn hr
  have hq : s.pool.qClosed = true := by
    rcases ht with h3 | hc
    · exact h.beyond i hi h3
    · exact h.beyond i hi (by have := h.closedPos i hi hc; omega)
  obtain ⟨acts, hrun⟩ := hr
  exact ⟨hq, quiescence_sound t hn acts s hrun hq⟩

theorem latchSwap_inflight (p : Pool) : p.latchSwap.inflight = p.inflight := by
  unfold Pool.latchSwap; split <;> rfl

/-- one step from a quiescent state: still quiescent, and the step is not a message creation -/
theorem quiescent_step {t : Topo} {s s' : St} (h : Inv t s) (hq : quiescent t s) (a : Act) (hs : step t s a = some s') :
    quiescent t s' ∧ isInc a = false := by
  have h' := step_inv h a hs
  have h0 := (quiescent_iff h).mp hq
  refine ⟨(quiescent_iff h').mpr ?_, ?_⟩
  · cases a with
    | msgInc i k =>
      simp only [step] at hs; split at hs
      · rename_i hg; have := not_active_of_quiescent hq i hg.1; simp [this] at hg
      · simp at hs
    | msgDone i k =>
      simp only [step] at hs; split at hs
      · rename_i hg; rw [hq.2] at hg; simp at hg
      · simp at hs
    | report i =>
      simp only [step] at hs; split at hs
      · rename_i hg; exact absurd hg.2 (hq.1 i hg.1).1
      · simp at hs
    | srDec i =>
      simp only [step] at hs; split at hs
      · rename_i hg; exact absurd hg.2 (hq.1 i hg.1).2
      · simp at hs
    | latch =>
      simp only [step] at hs; split at hs
      · injection hs with hs; subst hs; simp [latchSwap_inflight, h0]
      · simp at hs
    | waitDone i | beginCleanup i | sleepDone i | closeNext i | wake i | exit i =>
      simp only [step] at hs; split at hs
      · injection hs with hs; subst hs; exact h0
      · simp at hs
  · cases a with
    | msgInc i k =>
      simp only [step] at hs; split at hs
      · rename_i hg; have := not_active_of_quiescent hq i hg.1; simp [this] at hg
      · simp at hs
    | _ => rfl

/-- **Quiescence is stable.** From a quiescent reachable state no schedule creates a cyclical message and every state it passes
through is quiescent again (messages are created only by a member that is still processing a non-cyclical input or that holds
a cyclical message whose `Dec` comes after the `Inc` of its outputs). -/
theorem quiescence_stable (t : Topo) (hn : 0 < t.n) (s : St) (hr : Reachable t s) (hq : quiescent t s)
    (acts : List Act) (s' : St) (hrun : run t s acts = some s') :
    quiescent t s' ∧ acts.countP isInc = 0 := by
  have h := reachable_inv hn hr
  clear hr
  induction acts generalizing s with
  | nil => simp [run] at hrun; subst hrun; exact ⟨hq, rfl⟩
  | cons a as ih =>
    simp only [run] at hrun
    cases hs : step t s a with
    | none => simp [hs] at hrun
    | some s1 =>
      rw [hs] at hrun
      obtain ⟨hq1, hna⟩ := quiescent_step h hq a hs
      obtain ⟨hq2, hc⟩ := ih s1 hq1 hrun (step_inv h a hs)
      exact ⟨hq2, by simp [hna, hc]⟩

/-- **Teardown order.** Leader first: when member `i` has started its cleanup, every member that joined after it (`j > i`, the
leader being the last) has already closed all its listeners and woken its successor. -/
theorem teardown_order (t : Topo) (hn : 0 < t.n) (s : St) (hr : Reachable t s) (i j : Nat) (hij : i < j) (hj : j < t.n)
    (hi4 : 4 ≤ rank (s.pc i)) : 5 ≤ rank (s.pc j) ∧ s.closed j = t.nl j := by
  have h := reachable_inv hn hr
  have key : ∀ d i, i + d + 1 < t.n → 4 ≤ rank (s.pc i) → 5 ≤ rank (s.pc (i + d + 1)) := by
    intro d
    induction d with
    | zero =>
      intro i hlt h4
      have hw := h.awake i (by omega) h4 (by unfold Topo.leader; omega)
      have := h.wokenBy (i + 1) (by omega) (by rw [next_succ]; exact hw)
      simpa using this
    | succ d ih =>
      intro i hlt h4
      have h5 := ih i (by omega) h4
      have hw := h.awake (i + d + 1) (by omega) (by omega) (by unfold Topo.leader; omega)
      have := h.wokenBy (i + d + 1 + 1) (by omega) (by rw [next_succ]; exact hw)
      simpa [Nat.add_assoc] using this
  have h5 : 5 ≤ rank (s.pc j) := by
    have := key (j - i - 1) i (by omega) hi4
    rwa [show i + (j - i - 1) + 1 = j by omega] at this
  exact ⟨h5, h.closedAll j hj h5⟩

/-- a member is woken only by its predecessor, and only after the predecessor closed all its listeners -/
theorem wake_after_close (t : Topo) (hn : 0 < t.n) (s : St) (hr : Reachable t s) (i : Nat) (hi : i < t.n)
    (hw : s.woken (t.next i) = true) : 5 ≤ rank (s.pc i) ∧ s.closed i = t.nl i := by
  have h := reachable_inv hn hr
  have h5 := h.wokenBy i hi hw
  exact ⟨h5, h.closedAll i hi h5⟩

/-- `Wake` is idempotent -/
theorem wake_idempotent (w : Nat → Bool) (x : Nat) : upd (upd w x true) x true = upd w x true := by
  funext j; simp [upd]

/-! ## Liveness: deadlock freedom, bounded schedules, completion -/

/-- **Deadlock freedom.** In every reachable state that is not final (some member's `Execute` has not returned) some action is
enabled — in fact one that is not a message creation. -/
theorem progress (t : Topo) (hn : 0 < t.n) (s : St) (hr : Reachable t s) :
    final t s ∨ ∃ a, (∀ i k, a ≠ Act.msgInc i k) ∧ (step t s a).isSome = true :=
  progress_inv hn (reachable_inv hn hr)

/-- **Every schedule is short.** The length of any schedule is bounded by the measure of its start state plus three times the
number of message creations it contains: an infinite execution needs infinitely many message creations. -/
theorem schedule_length_bound (t : Topo) (s s' : St) (acts : List Act) (hrun : run t s acts = some s') :
    acts.length ≤ mu t s + 3 * acts.countP isInc := by
  have := mu_run acts hrun; omega

/-- after quiescence no schedule is longer than the measure (no message can be created any more) -/
theorem teardown_schedule_bound (t : Topo) (hn : 0 < t.n) (s s' : St) (hr : Reachable t s) (hq : quiescent t s)
    (acts : List Act) (hrun : run t s acts = some s') : acts.length ≤ mu t s := by
  have := mu_run acts hrun
  have := (quiescence_stable t hn s hr hq acts s' hrun).2
  omega

/-- a maximal schedule (nothing enabled at its end) ends with every member's `Execute` returned -/
theorem maximal_schedule_final (t : Topo) (hn : 0 < t.n) (acts : List Act) (s : St) (hr : run t (init t 1) acts = some s)
    (hmax : ∀ a, step t s a = none) : final t s := by
  rcases progress t hn s ⟨acts, hr⟩ with hf | ⟨a, _, ha⟩
  · exact hf
  · rw [hmax a] at ha; simp at ha

theorem can_complete_aux (t : Topo) (hn : 0 < t.n) : ∀ m s, Inv t s → mu t s ≤ m →
    ∃ acts s', run t s acts = some s' ∧ final t s' ∧ acts.countP isInc = 0 := by
  intro m
  induction m with
  | zero =>
    intro s h hm
    rcases progress_inv hn h with hf | ⟨a, hna, ha⟩
    · exact ⟨[], s, rfl, hf, rfl⟩
    · cases hs : step t s a with
      | none => simp [hs] at ha
      | some s1 =>
        have := mu_step a hs
        have hi : isInc a = false := by cases a <;> simp [isInc] at * <;> exact absurd rfl (hna _ _)
        simp [hi] at this; omega
  | succ m ih =>
    intro s h hm
    rcases progress_inv hn h with hf | ⟨a, hna, ha⟩
    · exact ⟨[], s, rfl, hf, rfl⟩
    · cases hs : step t s a with
      | none => simp [hs] at ha
      | some s1 =>
        have hmu := mu_step a hs
        have hi : isInc a = false := by cases a <;> simp [isInc] at * <;> exact absurd rfl (hna _ _)
        simp [hi] at hmu
        obtain ⟨acts, s', hrun, hf, hc⟩ := ih s1 (step_inv h a hs) (by omega)
        exact ⟨a :: acts, s', by simp [run, hs, hrun], hf, by simp [hi, hc]⟩

/-- **Teardown always completes.** From every reachable state there is a schedule, without any further message creation, after
which every member's `Execute` has returned; together with `progress` (no reachable non-final state is stuck) and
`schedule_length_bound` (every schedule with finitely many message creations is finite) this is the liveness statement: every
fair execution in which finitely many cyclical messages are created reaches the final state. -/
theorem teardown_completes (t : Topo) (hn : 0 < t.n) (s : St) (hr : Reachable t s) :
    ∃ acts s', run t s acts = some s' ∧ final t s' ∧ acts.countP isInc = 0 :=
  can_complete_aux t hn (mu t s) s (reachable_inv hn hr) (Nat.le_refl _)

/-! ## Sanity of the model: the initial `Inc` of `Join` is what makes quiescence sound; non-vacuity -/

/-- two members listening to each other -/
def t2 : Topo := ⟨2, fun i => if i = 0 then [1] else if i = 1 then [0] else []⟩

/-- member 0 signals ready, member 1 (still reading its standard input) sends two messages, one of them is consumed -/
def badSchedule : List Act := [.report 0, .srDec 0, .msgInc 1 0, .msgInc 1 0, .msgDone 1 0, .latch]

/-- **Negation witness on the variant without the initial increment** (`init t 0`): the latch closes while member 1 is still
processing non-cyclical input and a cyclical message is in flight. `quiescence_sound` is therefore a theorem about the `Inc` in
`Join`, not an artefact of the model. -/
theorem quiescence_unsound_without_join_inc :
    ∃ t acts s, run t (init t 0) acts = some s ∧ s.pool.qClosed = true ∧ ¬ quiescent t s := by
  have key : ((run t2 (init t2 0) badSchedule).map fun s => (s.pool.qClosed, s.pc 1 == PC.running, s.msgs.length)) = some (true, true, 1) := by
    decide
  cases h : run t2 (init t2 0) badSchedule with
  | none => rw [h] at key; simp at key
  | some s =>
    rw [h] at key; simp at key
    exact ⟨t2, badSchedule, s, h, key.1, fun hq => (hq.1 1 (by decide)).1 key.2.1⟩

/-- with the increment the same schedule is not executable: the `latch` step is not enabled -/
example : (run t2 (init t2 1) badSchedule).isSome = false := by decide
example : (run t2 (init t2 1) (badSchedule.take 5)).isSome = true := by decide

/-- a complete schedule of the two-member ring with two messages; the hypotheses of the theorems above are satisfiable and the
final state is reached -/
def goodSchedule : List Act :=
  [.msgInc 0 0, .report 0, .srDec 0, .report 1, .msgInc 1 0, .srDec 1, .msgDone 0 0, .msgDone 1 0, .latch,
   .waitDone 0, .waitDone 1, .beginCleanup 1, .closeNext 1, .wake 1, .sleepDone 0, .closeNext 0, .wake 0, .exit 0, .exit 1]

example : ((run t2 (init t2 1) goodSchedule).map fun s => (finalB t2 s, s.pool.qClosed, s.pool.inflight == 0)) = some (true, true, true) := by
  decide
/-- the non-leader cannot start its cleanup before the leader woke it -/
example : (run t2 (init t2 1) (goodSchedule.take 11 ++ [.sleepDone 0])).isSome = false := by decide
/-- nobody passes `WaitForAllReady` while a message is in flight -/
example : (run t2 (init t2 1) (goodSchedule.take 7 ++ [.waitDone 0])).isSome = false := by decide
example : (Ring.joinN 3).prev = [2, 0, 1] ∧ (Ring.joinN 3).leader = [false, false, true] := by decide

/-! ## Dataflow level: nothing derivable through the cycle is lost -/

/-- `cancelled` never goes back to `false` -/
theorem dstep_cancelled_mono {c : Cfg} {s s' : DSt} (a : DAct) (hs : dstep c s a = some s') (hc : s.cancelled = true) :
    s'.cancelled = true := by
  cases a <;> simp only [dstep] at hs <;> (repeat' split at hs) <;>
    first
    | (injection hs with hs; subst hs; first | exact hc | rfl)
    | (simp at hs)

theorem drun_cancelled_mono {c : Cfg} (acts : List DAct) {s s' : DSt} (hr : drun c s acts = some s') (hc : s.cancelled = true) :
    s'.cancelled = true := by
  induction acts generalizing s with
  | nil => simp [drun] at hr; subst hr; exact hc
  | cons a as ih =>
    simp only [drun] at hr
    cases hs : dstep c s a with
    | none => simp [hs] at hr
    | some s1 => rw [hs] at hr; exact ih hr (dstep_cancelled_mono a hs hc)

/-- every state of an uncancelled run satisfies the dataflow invariant -/
theorem drun_inv {c : Cfg} (hc : c.closedTopo) (acts : List DAct) {s s' : DSt} (h : DInv c s) (hr : drun c s acts = some s')
    (hnc : s'.cancelled = false) : DInv c s' := by
  induction acts generalizing s with
  | nil => simp [drun] at hr; subst hr; exact h
  | cons a as ih =>
    simp only [drun] at hr
    cases hs : dstep c s a with
    | none => simp [hs] at hr
    | some s1 =>
      rw [hs] at hr
      have h1 : s1.cancelled = false := by
        cases hq : s1.cancelled with
        | false => rfl
        | true => have := drun_cancelled_mono as hr hq; rw [hnc] at this; simp at this
      exact ih (dstep_inv hc h a hs h1) hr

/-- **Refinement.** The protocol component of a dataflow run is a run of the protocol transition system, so every theorem of the
first half (counting, quiescence, teardown order, progress) holds for the dataflow model. -/
theorem dataflow_refines_protocol {c : Cfg} (acts : List DAct) {s s' : DSt} (hr : drun c s acts = some s') :
    ∃ pacts, run c.topo s.p pacts = some s'.p := by
  induction acts generalizing s with
  | nil => simp [drun] at hr; subst hr; exact ⟨[], rfl⟩
  | cons a as ih =>
    simp only [drun] at hr
    cases hs : dstep c s a with
    | none => simp [hs] at hr
    | some s1 =>
      rw [hs] at hr
      obtain ⟨pa, hpa⟩ := ih hr
      have hstep : s1.p = s.p ∨ ∃ a', step c.topo s.p a' = some s1.p := by
        cases a <;> simp only [dstep] at hs <;> (repeat' split at hs) <;>
          first
          | (injection hs with hs; subst hs; first | exact Or.inl rfl | exact Or.inr ⟨_, by assumption⟩)
          | (simp at hs)
      rcases hstep with e | ⟨a', ha'⟩
      · exact ⟨pa, by rw [← e]; exact hpa⟩
      · exact ⟨a' :: pa, by simp [run, ha', hpa]⟩

/-- `Derivable` solves the dataflow equations … -/
theorem derivable_closed (c : Cfg) :
    (∀ i b r, i < c.topo.n → b ∈ c.stdIn i → r ∈ b → Derivable c i r) ∧
    (∀ j k i v r, j < c.topo.n → Derivable c j v → (c.topo.outs j)[k]? = some i → r ∈ c.f j k v → Derivable c i r) :=
  ⟨fun i b r => Derivable.base i b r, fun j k i v r => Derivable.step j k i v r⟩

/-- … and is contained in every other solution: it is the least fixpoint. -/
theorem derivable_least (c : Cfg) (X : Nat → Val → Prop)
    (hb : ∀ i b r, i < c.topo.n → b ∈ c.stdIn i → r ∈ b → X i r)
    (hs : ∀ j k i v r, j < c.topo.n → X j v → (c.topo.outs j)[k]? = some i → r ∈ c.f j k v → X i r) :
    ∀ i r, Derivable c i r → X i r := by
  intro i r h
  induction h with
  | base i b r hi hb' hr => exact hb i b r hi hb' hr
  | step j k i v r hj _ hk hr ih => exact hs j k i v r hj ih hk hr

/-- **No spurious object**: whatever a member ever put into its output buffer is derivable (any uncancelled state). -/
theorem no_spurious_object (c : Cfg) (hn : 0 < c.topo.n) (hc : c.closedTopo) (acts : List DAct) (s : DSt)
    (hr : drun c (dinit c) acts = some s) (hnc : s.cancelled = false) (i : Nat) (r : Val) (h : r ∈ s.out i) :
    Derivable c i r :=
  (drun_inv hc acts (dinv_init c hn) hr hnc).sOut i r h

/-- **No lost object.** In every uncancelled run, for every schedule: as soon as the quiescence latch is closed — in particular
whenever some member has passed `WaitForAllReady` or has closed a listener — there is no task left, and for *every* member `i`
the set of values in its output buffer, which by then have all been handed to its non-cyclical listeners, is exactly the
`i`-th component of the least fixpoint of the dataflow equations. Nothing derivable through the cycle is missing when the
outputs close. -/
theorem no_lost_object (c : Cfg) (hn : 0 < c.topo.n) (hc : c.closedTopo) (acts : List DAct) (s : DSt)
    (hr : drun c (dinit c) acts = some s) (hnc : s.cancelled = false)
    (ht : s.p.pool.qClosed = true ∨ ∃ m, m < c.topo.n ∧ (3 ≤ rank (s.p.pc m) ∨ 0 < s.p.closed m)) :
    s.tasks = [] ∧ ∀ i, i < c.topo.n → ∀ r, (Derivable c i r ↔ r ∈ s.out i) ∧ (r ∈ s.out i → r ∈ s.extOut i) := by
  have h := drun_inv hc acts (dinv_init c hn) hr hnc
  have h0 : s.p.pool.inflight = 0 := by
    rcases ht with hq | ⟨m, hm, h3 | hcl⟩
    · exact zero_of_teardown h 0 hn (Or.inr (Or.inr hq))
    · exact zero_of_teardown h m hm (Or.inl h3)
    · exact zero_of_teardown h m hm (Or.inr (Or.inl hcl))
  have hts := no_tasks_of_zero h h0
  have hq := (quiescent_iff h.pinv).mpr h0
  have hnoRes : ∀ i r, ¬ PRes s.tasks i r := by intro i r ⟨T, hT, _⟩; rw [hts] at hT; simp at hT
  have hbase : ∀ i b r, i < c.topo.n → b ∈ c.stdIn i → r ∈ b → r ∈ s.out i := by
    intro i b r hi hb hrb
    rcases h.c1 i hi b hb r hrb with h1 | h1 | h1
    · rw [h.todoRun i (hq.1 i hi).1] at h1; simp at h1
    · exact absurd h1 (hnoRes i r)
    · exact h1
  have hstep : ∀ j k i v r, j < c.topo.n → v ∈ s.out j → (c.topo.outs j)[k]? = some i → r ∈ c.f j k v → r ∈ s.out i := by
    intro j k i v r hj hv hk hrf
    have hkl : k < c.topo.nl j := by
      unfold Topo.nl
      rcases List.getElem?_eq_some_iff.mp hk with ⟨hlt, _⟩
      exact hlt
    have hseen : v ∈ s.seen j k := by
      rcases h.c2 j k hj hkl v hv with ⟨T, hT, _⟩ | ⟨T, hT, _⟩ | h1
      · rw [hts] at hT; simp at hT
      · rw [hts] at hT; simp at hT
      · exact h1
    rcases h.c3 j k i hk v hseen r hrf with h1 | h1
    · exact absurd h1 (hnoRes i r)
    · exact h1
  refine ⟨hts, fun i hi r => ⟨⟨?_, h.sOut i r⟩, ?_⟩⟩
  · exact derivable_least c (fun i r => r ∈ s.out i) hbase hstep i r
  · intro hro
    rcases h.c4 i r hro with ⟨T, hT, _⟩ | h1
    · rw [hts] at hT; simp at hT
    · exact h1

/-! ### non-vacuity of the dataflow theorem: a self-referential member (`group#member: [user, group#member]`) -/

def cSelf : Cfg :=
  { topo := ⟨1, fun i => if i = 0 then [0] else []⟩, f := fun _ _ v => if v < 2 then [v + 1] else [],
    stdIn := fun i => if i = 0 then [[1]] else [] }

def selfSchedule : List DAct :=
  [.stdRecv 0, .claim ⟨0, none, [], [1], [], []⟩, .flush ⟨0, none, [], [], [1], []⟩,
   .sendExt ⟨0, none, [], [], [], [(none, [1]), (some 0, [1])]⟩, .sendCyc ⟨0, none, [], [], [], [(some 0, [1])]⟩,
   .taskDone ⟨0, none, [], [], [], []⟩, .proto (.report 0), .proto (.srDec 0),
   .dedupIn ⟨0, some (0, 0), [1], [], [], []⟩, .claim ⟨0, some (0, 0), [], [2], [], []⟩, .flush ⟨0, some (0, 0), [], [], [2], []⟩,
   .sendExt ⟨0, some (0, 0), [], [], [], [(none, [2]), (some 0, [2])]⟩, .sendCyc ⟨0, some (0, 0), [], [], [], [(some 0, [2])]⟩,
   .taskDone ⟨0, some (0, 0), [], [], [], []⟩, .dedupIn ⟨0, some (0, 0), [2], [], [], []⟩, .taskDone ⟨0, some (0, 0), [], [], [], []⟩,
   .proto .latch, .proto (.waitDone 0)]

/-- the run exists, ends quiescent with the latch closed, and the member's output is `{1, 2}`, all of it delivered -/
example : ((drun cSelf (dinit cSelf) selfSchedule).map fun s =>
    (s.p.pool.qClosed, s.cancelled, s.out 0, s.extOut 0, s.tasks.length)) = some (true, false, [2, 1], [1, 2], 0) := by decide

/-- while the second message is still being processed nobody can pass `WaitForAllReady` -/
example : (drun cSelf (dinit cSelf) (selfSchedule.take 14 ++ [.proto (.waitDone 0)])).isSome = false := by decide

end OpenFGAVerif.C21
